/-
Lemmas for C10: the model of the two `Scan` methods meets Spec/HttpProbe for every exchange.
Case analysis over hop kinds × body classes × endings, with the arithmetic side conditions left to omega.
-/
import SxVerif.Model.HttpProbe
import SxVerif.Spec.HttpProbe

namespace SxVerif.Proofs.HttpProbe
open SxVerif.HttpProbe SxVerif.Spec.HttpProbe

/-! ### http client -/

theorem hasBody_eq (st : Nat) : hasBody st = !bodyless st := by
  simp only [hasBody, bodyless]
  rw [Bool.eq_iff_iff]
  simp
  omega

/-- with redirects not followed, only the first hop of an exchange matters -/
theorem clientDo_first (T t : Nat) (h : Hop) (rest rest' : List Hop) :
    clientDo false T t (h :: rest) = clientDo false T t (h :: rest') := by
  cases h <;> simp [clientDo]

/-- a request started at or before the deadline is over at the deadline at the latest -/
theorem clientDo_time (f : Bool) (T : Nat) (x : Exchange) : ∀ t, t ≤ T → (clientDo f T t x).2 ≤ T := by
  induction x with
  | nil => intro t ht; simpa [clientDo] using ht
  | cons h rest ih =>
    intro t ht
    unfold clientDo
    split
    · simpa using ht
    · cases h <;> simp only [] <;> try (first | exact ht | exact Nat.le_refl T)
      rename_i hT r st d b
      split
      · exact Nat.le_refl T
      · split
        · apply ih; omega
        · simp; omega

/-- a request started after the deadline fails at once -/
theorem clientDo_late (f : Bool) (T t : Nat) (x : Exchange) (h : T ≤ t) : (clientDo f T t x).2 = t := by
  cases x with
  | nil => simp [clientDo]
  | cons hd rest => simp [clientDo, h]

/-! ### elastic -/

/-- `Get` yields exactly the object the target served within the deadline, else an error -/
theorem elasticGet_spec (T : Nat) (x : Exchange) :
    (elasticGet T x).1 = (match servedObject T 0 x with | some f => .val f | none => .err) := by
  cases x with
  | nil => simp [elasticGet, clientDo, servedObject]
  | cons h rest =>
    cases h with
    | resp r st d b =>
      obtain ⟨cls, id, e⟩ := b
      simp only [elasticGet, followsRedirects, clientDo, servedObject, bodyIsObject, hasBody_eq, Nat.zero_add]
      by_cases hT : T ≤ 0
      · have : ¬ d < T := by omega
        simp [hT, this]
      · by_cases hd : T ≤ d
        · have : ¬ d < T := by omega
          simp [hT, hd, this]
        · have hlt : d < T := by omega
          by_cases hb : bodyless st = true
          · simp [hT, hd, hlt, hb, noBody, decodeMap, Dec.lookahead]
          · simp only [Bool.not_eq_true] at hb
            cases cls <;> cases e <;>
              simp [hT, hd, hlt, hb, decodeMap, Dec.lookahead, restOf, fieldOf, shown, isJsonObject]
    | _ =>
      by_cases hT : T ≤ 0 <;> simp [elasticGet, followsRedirects, clientDo, servedObject, hT]

theorem elasticGet_time (T : Nat) (x : Exchange) : (elasticGet T x).2 ≤ T := by
  have h := clientDo_time followsRedirects T x 0 (Nat.zero_le T)
  unfold elasticGet
  generalize clientDo followsRedirects T 0 x = r at h
  obtain ⟨res, t⟩ := r
  simp only [] at h
  cases res with
  | err => simpa using h
  | timeout => simpa using h
  | resp st body =>
    simp only []
    split
    · split <;> simp <;> exact h
    · simpa using h
    · simpa using h
    · simp

/-- what is served within the deadline was, in particular, sent by the target -/
theorem served_sent (T : Nat) (x : Exchange) (f : Field) (h : servedObject T 0 x = some f) :
    sentObject false x = some f := by
  cases x with
  | nil => simp [servedObject] at h
  | cons hd rest =>
    cases hd <;> simp only [servedObject] at h <;> try contradiction
    rename_i r st d b
    simp only [sentObject]
    split at h
    · rename_i hc
      simp only [bodyIsObject, Bool.and_eq_true] at hc
      simp only [Option.some.injEq] at h
      simp [hc.2.1.1, hc.2.1.2, h]
    · contradiction

/-! ### docker -/

theorem pingEnd_eq (T : Nat) (ping : Exchange) : pingEnd T ping = negotiationEnd T ping := by
  cases ping with
  | nil => simp [pingEnd, clientDo, negotiationEnd]
  | cons h rest =>
    cases h with
    | resp r st d b =>
      simp only [pingEnd, followsRedirects, clientDo, negotiationEnd, hasBody_eq, Nat.zero_add]
      by_cases hT : T ≤ 0
      · have hT0 : T = 0 := by omega
        subst hT0
        simp
      · by_cases hd : T ≤ d
        · simp [hT, hd]
        · by_cases hs : (st == 200 || st == 500) = true
          · simp [hT, hd, hs]
          · by_cases hd2 : T ≤ d + d
            · have : T ≤ 2 * d := by omega
              simp [hT, hd, hs, hd2, this]
            · have : ¬ T ≤ 2 * d := by omega
              have h2 : 2 * d = d + d := by omega
              by_cases hb : bodyless st = true
              · simp [hT, hd, hs, hd2, this, hb, noBody, h2]
              · simp only [Bool.not_eq_true] at hb
                by_cases he : b.ending = .stall
                · simp [hT, hd, hs, hd2, this, hb, he]
                · simp [hT, hd, hs, hd2, this, hb, he, h2]
    | hstall | phstall =>
      simp only [pingEnd, followsRedirects, clientDo, negotiationEnd]
      by_cases hT : T ≤ 0
      · have hT0 : T = 0 := by omega
        subst hT0
        simp
      · simp [hT]
    | _ =>
      simp only [pingEnd, followsRedirects, clientDo, negotiationEnd]
      by_cases hT : T ≤ 0 <;> simp [hT]

theorem negotiationEnd_le (T : Nat) (ping : Exchange) : negotiationEnd T ping ≤ T := by
  cases ping with
  | nil => simp [negotiationEnd]
  | cons h rest =>
    cases h <;> simp only [negotiationEnd] <;> try omega
    repeat' split
    all_goals omega

/-- `getInfo` yields exactly the object the target served as a successful API answer within the probe's
    deadline, else an error -/
theorem dockerInfoGet_spec (T t0 : Nat) (x : Exchange) :
    (dockerInfoGet T t0 x).1 = (match servedApiObject T t0 x with | some f => .val f | none => .err) := by
  cases x with
  | nil => simp [dockerInfoGet, clientDo, servedApiObject]
  | cons h rest =>
    cases h with
    | resp r st d b =>
      obtain ⟨cls, id, e⟩ := b
      simp only [dockerInfoGet, followsRedirects, clientDo, servedApiObject, bodyIsObject, hasBody_eq, apiSuccess]
      by_cases hT : T ≤ t0
      · have : ¬ t0 + d < T := by omega
        simp [hT, this]
      · by_cases hd : T ≤ t0 + d
        · have : ¬ t0 + d < T := by omega
          simp [hT, hd, this]
        · have hlt : t0 + d < T := by omega
          by_cases hs : st < 200
          · have : ¬ 200 ≤ st := by omega
            simp [hT, hd, hlt, hs, this]
          · by_cases hs4 : 400 ≤ st
            · have : ¬ st < 400 := by omega
              simp [hT, hd, hlt, hs, hs4, this]
            · have h2 : 200 ≤ st := by omega
              have h4 : st < 400 := by omega
              by_cases hb : bodyless st = true
              · simp [hT, hd, hlt, hs, hs4, h2, h4, hb, noBody, unmarshalInfo, isJsonObject]
              · simp only [Bool.not_eq_true] at hb
                cases cls <;> cases e <;>
                  simp [hT, hd, hlt, hs, hs4, h2, h4, hb, unmarshalInfo, fieldOfStruct, shownStruct,
                    isJsonObject, fitsSchema]
    | _ =>
      by_cases hT : T ≤ t0 <;> simp [dockerInfoGet, followsRedirects, clientDo, servedApiObject, hT]

theorem dockerInfoGet_time (T t0 : Nat) (x : Exchange) (h0 : t0 ≤ T) : (dockerInfoGet T t0 x).2 ≤ T := by
  have h := clientDo_time followsRedirects T x t0 h0
  unfold dockerInfoGet
  generalize clientDo followsRedirects T t0 x = r at h
  obtain ⟨res, t⟩ := r
  simp only [] at h
  cases res with
  | err => simpa using h
  | timeout => simpa using h
  | resp st body =>
    simp only []
    split
    · exact h
    · split
      · simp; omega
      · simp; omega
      · split <;> exact h

theorem dockerGet_time (T t0 : Nat) (x : Exchange) (h0 : t0 ≤ T) : (dockerGet T t0 x).2 ≤ T := by
  have h := clientDo_time followsRedirects T x t0 h0
  unfold dockerGet
  generalize clientDo followsRedirects T t0 x = r at h
  obtain ⟨res, t⟩ := r
  simp only [] at h
  cases res with
  | err => simpa using h
  | timeout => simpa using h
  | resp st body =>
    have hd : (if body.ending == Ending.stall then max t T else t) ≤ T := by
      split
      · omega
      · exact h
    simp only []
    split
    · exact hd
    · split
      · exact hd
      · exact hd
      · exact hd
      · simp; omega

theorem clientDo_resp (T t : Nat) (r : Bool) (st d : Nat) (b : Stream) (rest : List Hop)
    (h1 : ¬ T ≤ t) (h2 : ¬ T ≤ t + d) :
    clientDo false T t (.resp r st d b :: rest) = (.resp st (if bodyless st then noBody b else b), t + d) := by
  simp [clientDo, h1, h2]

/-- a version that the moby client returns as a non-zero struct is the object the target sent -/
theorem dockerGet_sent (T t0 : Nat) (x : Exchange) (f : Field) (h : (dockerGet T t0 x).1 = .val f) :
    secondOk (sentObject true x) f = true := by
  cases x with
  | nil => simp [dockerGet, clientDo] at h
  | cons hd rest =>
    cases hd with
    | resp r st d b =>
      obtain ⟨cls, id, e⟩ := b
      by_cases hT : T ≤ t0
      · simp [dockerGet, followsRedirects, clientDo, hT] at h
      · by_cases hdl : T ≤ t0 + d
        · simp [dockerGet, followsRedirects, clientDo, hT, hdl] at h
        · simp only [dockerGet, followsRedirects, clientDo_resp T t0 r st d _ rest hT hdl] at h
          simp only [secondOk, sentObject, hasBody_eq]
          by_cases hb : bodyless st = true
          · simp only [hb, if_true, noBody] at h
            split at h
            · simp at h
            · simp [decodeStruct, decodeMap, Dec.lookahead] at h
          · simp only [Bool.not_eq_true] at hb
            simp only [hb] at h
            split at h
            · simp at h
            · cases cls <;> cases e <;>
                simp [decodeStruct, decodeMap, Dec.lookahead, fieldOfStruct] at h <;>
                simp [← h, hb, isJsonObject, shownStruct]
    | _ =>
      by_cases hT : T ≤ t0 <;> simp [dockerGet, followsRedirects, clientDo, hT] at h

/-! ### the scans -/

theorem elastic_reported_iff (scheme ip : String) (T : Nat) (x1 x2 : Exchange) :
    reported (elasticScan scheme ip T x1 x2).1 = (servedObject T 0 x1).isSome := by
  have h1 := elasticGet_spec T x1
  simp only [elasticScan, elasticScanWith]
  generalize elasticGet T x1 = g1 at h1
  obtain ⟨g, t⟩ := g1
  cases hs : servedObject T 0 x1 <;> simp only [hs] at h1 <;> subst h1 <;> simp [reported]

theorem elastic_second_ok (T : Nat) (x2 : Exchange) :
    secondOk (sentObject false x2) (secondField (elasticGet T x2).1) = true := by
  have h2 := elasticGet_spec T x2
  cases hs : servedObject T 0 x2 with
  | none => simp only [hs] at h2; simp [h2, secondField, secondOk]
  | some f =>
    simp only [hs] at h2
    simp [h2, secondField, secondOk, served_sent T x2 f hs]

theorem elastic_record (scheme ip : String) (T : Nat) (x1 x2 : Exchange) (r : Record)
    (h : (elasticScan scheme ip T x1 x2).1 = .record r) :
    r.proto = scheme ∧ r.host = ip ++ ":P" ∧ servedObject T 0 x1 = some r.info ∧
      secondOk (sentObject false x2) r.second = true := by
  have h1 := elasticGet_spec T x1
  have h2 := elastic_second_ok T x2
  simp only [elasticScan, elasticScanWith] at h
  generalize elasticGet T x1 = g1 at h1 h
  obtain ⟨g, t⟩ := g1
  cases hs : servedObject T 0 x1 <;> simp only [hs] at h1 <;> subst h1 <;> simp only [] at h
  · cases h
  · injection h with h
    subst h
    exact ⟨rfl, rfl, rfl, h2⟩

theorem elastic_secondary_irrelevant (scheme ip : String) (T : Nat) (x1 x2 x2' : Exchange) :
    primary (elasticScan scheme ip T x1 x2).1 = primary (elasticScan scheme ip T x1 x2').1 := by
  simp only [elasticScan, elasticScanWith]
  generalize elasticGet T x1 = g1
  obtain ⟨g, t⟩ := g1
  cases g <;> simp [primary]

theorem elastic_time_abstract (get : Exchange → Got × Nat) (T ε : Nat) (h_deadline : ∀ x, (get x).2 ≤ T + ε)
    (scheme ip : String) (x1 x2 : Exchange) :
    (elasticScanWith get scheme ip x1 x2).2 ≤ 2 * (T + ε) ∧
      (reported (elasticScanWith get scheme ip x1 x2).1 = false → (elasticScanWith get scheme ip x1 x2).2 ≤ T + ε) := by
  have h1 := h_deadline x1
  have h2 := h_deadline x2
  simp only [elasticScanWith]
  generalize get x1 = g1 at h1
  obtain ⟨g, t⟩ := g1
  cases g <;> simp [reported] <;> simp only [] at h1 <;> omega

theorem elastic_holds (scheme ip : String) (T : Nat) (x1 x2 : Exchange) :
    elasticHolds scheme ip T x1 x2 (elasticScan scheme ip T x1 x2).1 (elasticScan scheme ip T x1 x2).2 = true := by
  have h1 := elasticGet_spec T x1
  have ht1 := elasticGet_time T x1
  have ht2 := elasticGet_time T x2
  have h2 := elastic_second_ok T x2
  rcases hg : elasticGet T x1 with ⟨g, t⟩
  rw [hg] at h1 ht1
  simp only [] at h1 ht1
  cases hs : servedObject T 0 x1 <;> simp only [hs] at h1 <;> subst h1
  · simp [elasticScan, elasticScanWith, elasticHolds, hg, hs, slack]; omega
  · simp [elasticScan, elasticScanWith, elasticHolds, hg, hs, h2, slack]; omega

theorem elastic_redirect_irrelevant (scheme ip : String) (T : Nat) (h : Hop) (rest rest' x2 : List Hop) :
    elasticScan scheme ip T (h :: rest) x2 = elasticScan scheme ip T (h :: rest') x2 ∧
    elasticScan scheme ip T x2 (h :: rest) = elasticScan scheme ip T x2 (h :: rest') := by
  have e : elasticGet T (h :: rest) = elasticGet T (h :: rest') := by
    simp only [elasticGet, followsRedirects, clientDo_first T 0 h rest rest']
  simp [elasticScan, elasticScanWith, e]

theorem docker_reported_iff (scheme ip : String) (T : Nat) (ping info ver : Exchange) :
    reported (dockerScan scheme ip T ping info ver).1 = (servedApiObject T (negotiationEnd T ping) info).isSome := by
  have h1 := dockerInfoGet_spec T (negotiationEnd T ping) info
  simp only [dockerScan, dockerScanWith, pingEnd_eq]
  generalize dockerInfoGet T (negotiationEnd T ping) info = g1 at h1
  obtain ⟨g, t⟩ := g1
  cases hs : servedApiObject T (negotiationEnd T ping) info <;> simp only [hs] at h1 <;> subst h1 <;> simp [reported]

theorem docker_second_ok (T t : Nat) (ver : Exchange) :
    secondOk (sentObject true ver) (secondField (dockerGet T t ver).1) = true := by
  cases hg : (dockerGet T t ver).1 with
  | err => simp [secondField, secondOk]
  | val f => simpa [secondField] using dockerGet_sent T t ver f hg

theorem docker_record (scheme ip : String) (T : Nat) (ping info ver : Exchange) (r : Record)
    (h : (dockerScan scheme ip T ping info ver).1 = .record r) :
    r.proto = scheme ∧ r.host = "tcp://" ++ ip ++ ":P" ∧
      servedApiObject T (negotiationEnd T ping) info = some r.info ∧
      secondOk (sentObject true ver) r.second = true := by
  have h1 := dockerInfoGet_spec T (negotiationEnd T ping) info
  simp only [dockerScan, dockerScanWith, pingEnd_eq] at h
  generalize dockerInfoGet T (negotiationEnd T ping) info = g1 at h1 h
  obtain ⟨g, t⟩ := g1
  cases hs : servedApiObject T (negotiationEnd T ping) info <;> simp only [hs] at h1 <;> subst h1 <;> simp only [] at h
  · cases h
  · injection h with h
    subst h
    exact ⟨rfl, rfl, rfl, docker_second_ok T t ver⟩

theorem docker_secondary_irrelevant (scheme ip : String) (T : Nat) (ping info ver ver' : Exchange) :
    primary (dockerScan scheme ip T ping info ver).1 = primary (dockerScan scheme ip T ping info ver').1 := by
  simp only [dockerScan, dockerScanWith]
  generalize dockerInfoGet T (pingEnd T ping) info = g1
  obtain ⟨g, t⟩ := g1
  cases g <;> simp [primary]

theorem docker_time_abstract (T ε : Nat) (p : Nat) (infoGet verGet : Nat → Exchange → Got × Nat)
    (h_ping : p ≤ T + ε)
    (h_info : ∀ t x, (infoGet t x).2 ≤ max t T + ε) (h_ver : ∀ t x, (verGet t x).2 ≤ max t T + ε)
    (scheme ip : String) (info ver : Exchange) :
    (dockerScanWith p infoGet verGet scheme ip info ver).2 ≤ T + 3 * ε := by
  have h1 := h_info p info
  simp only [dockerScanWith]
  generalize infoGet p info = g1 at h1
  obtain ⟨g, t⟩ := g1
  simp only [] at h1
  cases g with
  | err => simp only []; omega
  | val f =>
    have h2 := h_ver t ver
    simp only []
    omega

theorem docker_time (scheme ip : String) (T : Nat) (ping info ver : Exchange) :
    (dockerScan scheme ip T ping info ver).2 ≤ T := by
  have hp : pingEnd T ping ≤ T := by rw [pingEnd_eq]; exact negotiationEnd_le T ping
  have h1 := dockerInfoGet_time T (pingEnd T ping) info hp
  simp only [dockerScan, dockerScanWith]
  generalize dockerInfoGet T (pingEnd T ping) info = g1 at h1
  obtain ⟨g, t⟩ := g1
  simp only [] at h1
  cases g with
  | err => exact h1
  | val f => exact dockerGet_time T t ver h1

theorem docker_holds (scheme ip : String) (T : Nat) (ping info ver : Exchange) :
    dockerHolds scheme ip T ping info ver (dockerScan scheme ip T ping info ver).1
      (dockerScan scheme ip T ping info ver).2 = true := by
  have ht := docker_time scheme ip T ping info ver
  have h1 := dockerInfoGet_spec T (negotiationEnd T ping) info
  rcases hg : dockerInfoGet T (negotiationEnd T ping) info with ⟨g, t⟩
  rw [hg] at h1
  simp only [] at h1
  simp only [dockerScan, dockerScanWith, pingEnd_eq, hg] at ht
  cases hs : servedApiObject T (negotiationEnd T ping) info <;> simp only [hs] at h1 <;> subst h1 <;>
    simp only [] at ht
  · simp [dockerScan, dockerScanWith, dockerHolds, pingEnd_eq, hg, hs, slack]; omega
  · simp [dockerScan, dockerScanWith, dockerHolds, pingEnd_eq, hg, hs, docker_second_ok T t ver, slack]; omega

theorem docker_redirect_irrelevant (scheme ip : String) (T : Nat) (ping : Exchange) (h : Hop)
    (rest rest' x : List Hop) :
    dockerScan scheme ip T ping (h :: rest) x = dockerScan scheme ip T ping (h :: rest') x ∧
    dockerScan scheme ip T ping x (h :: rest) = dockerScan scheme ip T ping x (h :: rest') := by
  have e1 : ∀ t, dockerInfoGet T t (h :: rest) = dockerInfoGet T t (h :: rest') := by
    intro t; simp only [dockerInfoGet, followsRedirects, clientDo_first T t h rest rest']
  have e2 : ∀ t, dockerGet T t (h :: rest) = dockerGet T t (h :: rest') := by
    intro t; simp only [dockerGet, followsRedirects, clientDo_first T t h rest rest']
  simp [dockerScan, dockerScanWith, e1, e2]

end SxVerif.Proofs.HttpProbe
