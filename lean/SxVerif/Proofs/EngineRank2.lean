/-
Strict decrease of the rank under every step of a return-path process, and progress after cancellation.
-/
import SxVerif.Proofs.EngineRank

namespace SxVerif.Engine

variable {c : Cfg} {reqs : List Req} {ext : List (Nat × Nat)} {s s' : Sys}

/-- unfold one `next` equation completely and close each branch by arithmetic on the rank -/
macro "rank_case" h:ident : tactic =>
  `(tactic| (
    simp only [next] at $h:ident
    repeat' split at $h:ident
    all_goals first
      | (simp at $h:ident; done)
      | (simp only [Option.some.injEq] at $h:ident; subst $h:ident
         simp_all [rank, supRank, logRank, drainRk, mainRank, wrank, copHand, extHand] <;> omega)))

theorem rank_wstep {pre post : List WPc} {w w' : WPc} {a : WAct} {sh : Sys}
    (hw : s.workers = pre ++ w :: post) (h : wstep c s w a = some (w', sh)) :
    rank c { sh with workers := pre ++ w' :: post } < rank c s := by
  cases a <;>
  ( simp only [wstep] at h
    repeat' split at h
    all_goals first
      | (simp at h; done)
      | (simp only [Option.some.injEq, Prod.mk.injEq] at h; obtain ⟨rfl, rfl⟩ := h
         try unfold afterScan
         try split
         all_goals (simp_all [rank, supRank, logRank, drainRk, mainRank, wrank, copHand, extHand] <;> omega)))

theorem rank_next (h0 : Inv0 c s) {l : Label} (hl : isRP l = true) (h : next c s l = some s') :
    rank c s' < rank c s := by
  have hwl := h0.wlen
  cases l <;> simp only [isRP] at hl
  case worker i a =>
    simp only [next] at h
    split at h
    · rename_i w hw
      split at h
      · rename_i w' sh hs
        simp only [Option.some.injEq] at h
        obtain ⟨pre, post, h1, h2⟩ := getElem?_split s.workers i w hw w'
        subst h
        rw [h2]
        exact rank_wstep h1 hs
      · simp at h
    · simp at h
  case spawn => rank_case h
  case wgWait => rank_case h
  case closeErrc => rank_case h
  case closeDone => rank_case h
  case logRecv => rank_case h
  case logClosed => rank_case h
  case logWrite => rank_case h
  case logCtx => rank_case h
  case drainRecv => rank_case h
  case drainLog => rank_case h
  case drainExit => rank_case h
  case mainReturn => rank_case h
  all_goals simp at hl

end SxVerif.Engine
