/-
C08 lemmas: terminal forms of the accounting invariants, the drain hypothesis and the drain rank.
-/
import SxVerif.Proofs.EngineCount2

namespace SxVerif.Engine

variable {c : Cfg} {reqs : List Req} {s s' : Sys}

/-! ### no external producer in the generic engine -/

structure NoExt (s : Sys) : Prop where
  ext : s.ext = []
  pc : s.extPc = .idle
  puts : s.extPuts = []
  reads : s.extReads = []

theorem noExt_step (h : NoExt s) (hs : StepR c s s') : NoExt s' := by
  obtain ⟨a, b, d, e⟩ := h
  cases hs <;> constructor <;> simp_all

theorem noExt (hr : Reachable c (init reqs []) s) : NoExt s :=
  Reachable.inv NoExt (by constructor <;> simp [init]) (fun _ _ _ h hs => noExt_step h hs) s hr

/-! ### completion -/

/-- `done` closed ⇒ the supervisor is past `wg.Wait()` ⇒ all W workers have returned -/
theorem done_workers (h0 : Inv0 c s) (hd : s.doneClosed = true) :
    allExited s.workers = true ∧ s.workers.length = c.W := by
  have hsup := h0.doneClosed.mp hd
  have := h0.supDone (by simp [hsup])
  exact ⟨this.2, this.1⟩

theorem done_all (hW : 0 < c.W) (h0 : Inv0 c s) (h2 : Inv2 reqs s) (hd : s.doneClosed = true) :
    s.pending = [] ∧ s.recvd = reqs ∧ holdGot s.workers = [] ∧ holdPut s.workers = [] ∧ holdErr s.workers = [] := by
  obtain ⟨hall, hlen⟩ := done_workers h0 hd
  have hany := allExited_anyExited hall (by omega)
  have hp := (h2.exitedClosed hany).1
  have hh := allExited_hold hall
  refine ⟨hp, ?_, hh.1, hh.2.1, hh.2.2⟩
  have := h2.handoff
  simpa [hp] using this

theorem scans_perm (h2 : Inv2 reqs s) : (s.scans ++ holdGot s.workers).Perm (s.recvd.filter isOk) := by
  rw [List.perm_iff_count]
  intro x
  simpa [List.count_append] using h2.scans x

theorem puts_perm (h2 : Inv2 reqs s) (hne : s.extPuts = []) :
    (s.puts ++ holdPut s.workers).Perm ((s.scans.filter isPos).map (·.id)) := by
  rw [List.perm_iff_count]
  intro x
  simpa [List.count_append, hne] using h2.puts x

theorem errs_perm (h2 : Inv2 reqs s) :
    (s.errSent ++ holdErr s.workers).Perm
      ((s.recvd.filter (·.isErr)).map (·.id) ++ (s.scans.filter isFail).map (·.id)) := by
  rw [List.perm_iff_count]
  intro x
  simpa [List.count_append] using h2.errs x

theorem scans_final (hW : 0 < c.W) (h0 : Inv0 c s) (h2 : Inv2 reqs s) (hd : s.doneClosed = true) :
    s.scans.Perm (reqs.filter isOk) := by
  obtain ⟨_, hr, hg, _, _⟩ := done_all hW h0 h2 hd
  have := scans_perm h2
  simpa [hg, hr] using this

theorem puts_final (hW : 0 < c.W) (h0 : Inv0 c s) (h2 : Inv2 reqs s) (hne : s.extPuts = [])
    (hd : s.doneClosed = true) :
    s.puts.Perm ((reqs.filter (fun r => isOk r && isPos r)).map (·.id)) := by
  obtain ⟨_, hr, hg, hp, _⟩ := done_all hW h0 h2 hd
  have h1 := puts_perm h2 hne
  have h3 := scans_final hW h0 h2 hd
  rw [hp, List.append_nil] at h1
  refine h1.trans ?_
  have := (h3.filter isPos).map (·.id)
  simpa [List.filter_filter, Bool.and_comm] using this

theorem errs_final (hW : 0 < c.W) (h0 : Inv0 c s) (h2 : Inv2 reqs s) (hd : s.doneClosed = true) :
    s.errSent.Perm ((reqs.filter (·.isErr)).map (·.id) ++ (reqs.filter (fun r => isOk r && isFail r)).map (·.id)) := by
  obtain ⟨_, hr, hg, _, he⟩ := done_all hW h0 h2 hd
  have h1 := errs_perm h2
  have h3 := scans_final hW h0 h2 hd
  rw [he, List.append_nil, hr] at h1
  refine h1.trans (List.Perm.append_left _ ?_)
  have := (h3.filter isFail).map (·.id)
  simpa [List.filter_filter, Bool.and_comm] using this

/-! ### drain hypothesis -/

/-- if nothing was in flight when the controller cancelled, nothing is in flight afterwards (no Ctrl-C) -/
theorem snap_step (h0 : Inv0 c s) (h1 : Inv1 c s)
    (h : s.inflightAtCancel = some 0 → s.inflightCount = 0) (hs : StepR c s s') (hnc : s'.cmdCtx = false) :
    s'.inflightAtCancel = some 0 → s'.inflightCount = 0 := by
  have hder := nc_der h0 h1
  have hsnap := h1.snap
  have hcd := h1.cancelDer
  clear h0 h1
  cases hs <;> simp_all [Sys.inflightCount, Sys.inflight, logHand, copHand, extHand] <;> grind

theorem snap (hr : Reachable c (init reqs []) s) :
    s.cmdCtx = false → s.inflightAtCancel = some 0 → s.inflightCount = 0 :=
  Reachable.inv (fun s => s.cmdCtx = false → s.inflightAtCancel = some 0 → s.inflightCount = 0)
    (by simp [init])
    (fun _ _ hr h hs hnc => snap_step (inv0 hr) (inv1 hr) (h (cmdCtx_mono hs hnc)) hs hnc) s hr

theorem printed_all (h2 : Inv2 reqs s) (hi : s.inflightCount = 0) : s.printed = s.puts := by
  have := h2.fifo
  simp only [Sys.inflightCount, Sys.inflight, List.length_append] at hi
  have a1 : logHand s.log = [] := List.eq_nil_of_length_eq_zero (by omega)
  have a2 : s.results = [] := List.eq_nil_of_length_eq_zero (by omega)
  have a3 : copHand s.cop = [] := List.eq_nil_of_length_eq_zero (by omega)
  have a4 : s.intRes = [] := List.eq_nil_of_length_eq_zero (by omega)
  simpa [a1, a2, a3, a4] using this

/-! ### drain rank: how many copier/logger steps empty the result path -/

def drainRank (s : Sys) : Nat :=
  4 * s.intRes.length + 3 * (copHand s.cop).length + 2 * s.results.length + (logHand s.log).length

def drainLabels : List Label := [.copRecv, .copSend, .logRecv, .logWrite]

theorem drainRank_bound (h0 : Inv0 c s) : drainRank s ≤ 6 * c.capRes + 4 := by
  have a := h0.capInt
  have b := h0.capRes
  have d : (copHand s.cop).length ≤ 1 := by cases s.cop <;> simp [copHand]
  have e : (logHand s.log).length ≤ 1 := by cases s.log <;> simp [logHand]
  unfold drainRank
  omega

theorem drainRank_zero (h : drainRank s = 0) : s.inflight = [] := by
  unfold drainRank at h
  have a1 : logHand s.log = [] := List.eq_nil_of_length_eq_zero (by omega)
  have a2 : s.results = [] := List.eq_nil_of_length_eq_zero (by omega)
  have a3 : copHand s.cop = [] := List.eq_nil_of_length_eq_zero (by omega)
  have a4 : s.intRes = [] := List.eq_nil_of_length_eq_zero (by omega)
  simp [Sys.inflight, a1, a2, a3, a4]

/-- every copier / logger step (other than their ctx exits) moves one record one stage on -/
theorem drainRank_step (h0 : Inv0 c s) {l : Label} (hl : l ∈ drainLabels) (hn : next c s l = some s') :
    drainRank s' + 1 = drainRank s := by
  have hres := h0.resClosed
  simp only [drainLabels, List.mem_cons, List.not_mem_nil, or_false] at hl
  rcases hl with rfl | rfl | rfl | rfl
  · simp only [next] at hn
    split at hn
    · rename_i v rest hc hi
      simp only [Option.some.injEq] at hn; subst hn
      simp [drainRank, copHand, hc, hi]; omega
    · simp at hn
  · simp only [next] at hn
    split at hn
    · rename_i v hc
      split at hn
      · rename_i h2
        rw [hres.mp h2] at hc; simp at hc
      · split at hn
        · simp only [Option.some.injEq] at hn; subst hn
          simp [drainRank, copHand, hc]; omega
        · simp at hn
    · simp at hn
  · simp only [next] at hn
    split at hn
    · rename_i v rest hc hi
      simp only [Option.some.injEq] at hn; subst hn
      simp [drainRank, logHand, hc, hi]; omega
    · simp at hn
  · simp only [next] at hn
    split at hn
    · rename_i v hc
      simp only [Option.some.injEq] at hn; subst hn
      simp [drainRank, logHand, hc]
    · simp at hn

/-- while something is in flight and neither ctx is cancelled, the copier or the logger can move -/
theorem drain_enabled (h0 : Inv0 c s) (h1 : Inv1 c s) (hcap : 0 < c.capRes) (hd : s.derCtx = false)
    (hpos : 0 < drainRank s) : ∃ l ∈ drainLabels, (next c s l).isSome = true := by
  have hnc : s.cmdCtx = false := by
    cases hc : s.cmdCtx with
    | false => rfl
    | true => simp [h1.cmdDer hc] at hd
  have hlog : s.log ≠ .exited := by
    intro hl
    rcases h1.logExit hl with h | h
    · simp [hnc] at h
    · simp [h1.cancelDer h] at hd
  have hcop : s.cop ≠ .exited := by
    intro hl
    simp [h1.copExit hl] at hnc
  have hres : s.resClosed = false := by
    cases hr : s.resClosed with
    | false => rfl
    | true => exact absurd (h0.resClosed.mp hr) hcop
  have hrc := h0.capRes
  unfold drainRank at hpos
  cases hlg : s.log with
  | writing v => exact ⟨.logWrite, by simp [drainLabels], by simp [next, hlg]⟩
  | exited => exact absurd hlg hlog
  | idle =>
    cases hres' : s.results with
    | cons v rest => exact ⟨.logRecv, by simp [drainLabels], by simp [next, hlg, hres']⟩
    | nil =>
      cases hcp : s.cop with
      | exited => exact absurd hcp hcop
      | hold v =>
        refine ⟨.copSend, by simp [drainLabels], ?_⟩
        simp [next, hcp, hres, hres', hcap]
      | idle =>
        cases hir : s.intRes with
        | cons v rest => exact ⟨.copRecv, by simp [drainLabels], by simp [next, hcp, hir]⟩
        | nil => simp [hlg, hres', hcp, hir, copHand, logHand] at hpos

end SxVerif.Engine

namespace SxVerif.Engine

variable {c : Cfg} {reqs : List Req} {s s' : Sys}

/-- once the drain has returned, `errc` is closed and empty for good -/
theorem drainExited_step (h : s.drain = .exited → s.errc = [] ∧ s.errcClosed = true) (hs : StepR c s s') :
    s'.drain = .exited → s'.errc = [] ∧ s'.errcClosed = true := by
  cases hs <;> simp_all

theorem drainExited {ext : List (Nat × Nat)} (hr : Reachable c (init reqs ext) s) :
    s.drain = .exited → s.errc = [] ∧ s.errcClosed = true :=
  Reachable.inv (fun s => s.drain = .exited → s.errc = [] ∧ s.errcClosed = true) (by simp [init])
    (fun _ _ _ h hs => drainExited_step h hs) s hr

theorem errLogged_all {ext : List (Nat × Nat)} (hr : Reachable c (init reqs ext) s) (hd : s.drain = .exited) :
    s.errLogged = s.errSent := by
  have h1 := errFifo hr
  have h2 := (drainExited hr hd).1
  simpa [hd, h2, drainHand] using h1

theorem exec_reachable {s₀ : Sys} : ∀ (ls : List Label) (s : Sys), Reachable c s₀ s → exec c s ls = some s' →
    Reachable c s₀ s'
  | [], s, hr, h => by simp [exec] at h; subst h; exact hr
  | l :: ls, s, hr, h => by
    simp only [exec] at h
    split at h
    · rename_i s1 hn
      exact exec_reachable ls s1 (Reachable.step l hr hn) h
    · simp at h

end SxVerif.Engine
