/-
`Drain`: who has left its loop implies what has been closed and emptied — an invariant of every step
other than `cancel` (runs that are not cancelled).
-/
import SxVerif.Proofs.ConcPacketConserve

namespace SxVerif.Pipe

theorem workerStep_drain {cfg w out inp pool nid mem e r}
    (h : workerStep cfg false w out inp pool nid mem e = some r) (hfin : w = .finished → out.closed = true) :
    ((r.w = .closing ∨ r.w = .finished) → ((w = .closing ∨ w = .finished) ∨ (inp.closed = true ∧ inp.buf = []))) ∧
    (inp.buf = [] → r.inp.buf = []) ∧
    (r.w = .finished → r.out.closed = true) ∧
    (out.closed = true → r.out.closed = true ∧ r.out.buf = out.buf) ∧
    inp.buf = r.took.toList ++ r.inp.buf := by
  cases e <;> cases w <;> simp [workerStep] at h
  all_goals try (subst h; simp_all; done)
  · split at h
    · simp at h; subst h; split <;> simp_all
    · split at h <;> simp at h; subst h; simp_all
  · split at h
    · simp at h; subst h; simp_all
    · split at h <;> simp at h; subst h; simp_all
  · split at h <;> simp at h <;> subst h <;> simp_all
  · rename_i p
    cases hs : sendOn (some cfg.capOut) out p with
    | none => simp [hs] at h
    | some x =>
      obtain ⟨c', pn⟩ := x
      simp [hs] at h; subst h
      have := sendOn_some hs
      cases hcl : out.closed <;> simp_all
  · simp [closeCh] at h; subst h; simp

theorem muxStep_drain {gr gs rd cap m src dst e r}
    (h : muxStep gr gs rd cap false m src dst e = some r)
    (hex : (m = .exiting ∨ m = .finished) → src.closed = true ∧ src.buf = []) :
    ((r.m = .exiting ∨ r.m = .finished) → r.src.closed = true ∧ r.src.buf = []) ∧
    (dst.closed = true → r.dst.buf = dst.buf) ∧
    (∀ p ∈ r.src.buf ++ r.dst.buf ++ mPkts r.m, p ∈ src.buf ++ dst.buf ++ mPkts m) ∧
    (src.buf = [] → r.src.buf = []) := by
  cases e <;> cases m <;> simp [muxStep] at h
  all_goals try (subst h; simp_all [mPkts]; done)
  · split at h
    · simp at h; subst h; rename_i p rest hb; simp_all [mPkts]
      intro q hq; rcases hq with hq | hq | hq <;> simp_all
    · split at h <;> simp at h; subst h; simp_all [mPkts]
  · rename_i p
    cases hs : sendOn (some cap) dst p with
    | none => simp [hs] at h
    | some x =>
      obtain ⟨c', pn⟩ := x
      simp [hs] at h; subst h
      have := sendOn_some hs
      cases hcl : dst.closed <;> simp_all [mPkts]
      intro q hq; rcases hq with hq | hq
      · exact Or.inl hq
      · exact Or.inr (Or.inl hq)


theorem drain_init (cfg : Cfg) (inp : Input) : Drain cfg inp (init inp) := by
  constructor <;> simp [init, mPkts]


/-- only `cancel` sets the context -/
theorem drain_ctx_step {cfg inp s s' ev} (hctx : s.ctx = false) (hne : ev ≠ .cancel)
    (h : step cfg inp s ev = some s') : s'.ctx = false := by
  cases ev with
  | cancel => exact absurd rfl hne
  | sender e =>
    simp only [step] at h
    cases e <;> cases hsnd : s.snd <;> simp [senderStep, hsnd] at h
    · cases hb : s.merged.buf with
      | nil => simp [hb] at h; obtain ⟨_, rfl⟩ := h; exact hctx
      | cons p rest => cases p <;> simp [hb] at h <;> subst h <;> exact hctx
    · rename_i b r todo
      cases todo with
      | nil => simp at h
      | cons c rest => cases c <;> simp at h <;> subst h <;> exact hctx
    · rename_i e k
      cases hso : sendOn (some cfg.capErrc) s.errc1 (Pkt.err e) with
      | none => simp [hso] at h
      | some x => simp [hso] at h; subst h; exact hctx
    · obtain ⟨_, rfl⟩ := h; exact hctx
    · obtain ⟨_, rfl⟩ := h; exact hctx
    · subst h; cases firstClose cfg <;> exact hctx
    · subst h; cases secondClose cfg <;> exact hctx
  | worker i e =>
    simp only [step] at h
    split at h <;> try (simp at h; done)
    split at h <;> simp at h; subst h; exact hctx
  | mux i e =>
    simp only [step] at h
    split at h <;> try (simp at h; done)
    split at h <;> simp at h; subst h; exact hctx
  | emux j e =>
    cases j <;> simp only [step] at h <;> split at h <;> simp at h <;> subst h <;> exact hctx
  | closer e =>
    simp only [step] at h
    split at h <;> simp at h; subst h; exact hctx
  | ecloser e =>
    simp only [step] at h
    split at h <;> simp at h; subst h; exact hctx
  | envSend | rcvSend =>
    simp only [step] at h
    split at h <;> try (simp at h; done)
    split at h <;> simp at h; subst h; exact hctx
  | envSkip | envClose | rcvSkip | rcvClose =>
    simp only [step] at h
    split at h <;> try (simp at h; done)
    split at h <;> simp at h
    all_goals first | (subst h; exact hctx) | (obtain ⟨_, rfl⟩ := h; exact hctx)
  | consume =>
    simp only [step] at h
    split at h <;> simp at h; subst h; exact hctx
  | gc b =>
    simp only [step] at h
    split at h <;> simp at h; subst h; exact hctx

set_option maxHeartbeats 4000000 in
theorem drain_step {cfg inp s s' ev} (hwf : cfg.WF) (hs : Safe cfg s) (hd : Drain cfg inp s)
    (hsh : sndShape s.snd) (hne : ev ≠ .cancel) (h : step cfg inp s ev = some s') : Drain cfg inp s' := by
  have hctx := hd.noCtx
  cases ev with
  | cancel => exact absurd rfl hne
  | gc b =>
    obtain ⟨d1, d2, d3, d4, d5, d6, d7, d8, d9, d10, d11, d12, d13, d14, d15, d16⟩ := hd
    simp only [step] at h
    split at h <;> simp at h; subst h
    constructor <;> simp <;> (try assumption) <;> (try simp_all)
  | consume =>
    obtain ⟨d1, d2, d3, d4, d5, d6, d7, d8, d9, d10, d11, d12, d13, d14, d15, d16⟩ := hd
    simp only [step] at h
    split at h <;> simp at h; subst h
    rename_i p rest hb
    constructor <;> simp <;> (try assumption) <;> (try simp_all)
    all_goals (intro q hq; apply d14; grind)
  | envSkip | rcvSkip =>
    simp only [step] at h
    split at h <;> try (simp at h; done)
    split at h <;> simp at h
    all_goals simp [hctx] at *
  | envClose =>
    obtain ⟨d1, d2, d3, d4, d5, d6, d7, d8, d9, d10, d11, d12, d13, d14, d15, d16⟩ := hd
    simp only [step] at h
    split at h <;> try (simp at h; done)
    split at h <;> simp at h; subst h
    constructor <;> simp <;> (try assumption) <;> (try simp_all)
  | rcvClose =>
    obtain ⟨d1, d2, d3, d4, d5, d6, d7, d8, d9, d10, d11, d12, d13, d14, d15, d16⟩ := hd
    simp only [step] at h
    split at h <;> try (simp at h; done)
    split at h <;> simp at h; subst h
    constructor <;> simp <;> (try assumption) <;> (try simp_all)
  | envSend =>
    obtain ⟨d1, d2, d3, d4, d5, d6, d7, d8, d9, d10, d11, d12, d13, d14, d15, d16⟩ := hd
    simp only [step] at h
    split at h <;> try (simp at h; done)
    rename_i r rest htodo
    cases hso : sendOn none s.inp r with
    | none => simp [hso] at h
    | some x =>
      obtain ⟨c', pn⟩ := x
      simp [hso] at h; subst h
      have hh := sendOn_some hso
      have hcl : s.inp.closed = false := by
        cases hcl : s.inp.closed
        · rfl
        · simp [hs.inpClosed hcl] at htodo
      have hb := hh.2.2.1 hcl
      constructor <;> simp <;> (try assumption) <;> (try simp_all)
  | rcvSend =>
    obtain ⟨d1, d2, d3, d4, d5, d6, d7, d8, d9, d10, d11, d12, d13, d14, d15, d16⟩ := hd
    simp only [step] at h
    split at h <;> try (simp at h; done)
    rename_i r rest htodo
    cases hso : sendOn (some cfg.capErrc) s.errc2 (Pkt.err r) with
    | none => simp [hso] at h
    | some x =>
      obtain ⟨c', pn⟩ := x
      simp [hso] at h; subst h
      have hh := sendOn_some hso
      have hcl : s.errc2.closed = false := by
        cases hcl : s.errc2.closed
        · rfl
        · simp [hs.errc2Closed hcl] at htodo
      have hb := hh.2.2.1 hcl
      constructor <;> simp <;> (try assumption) <;> (try simp_all)
      all_goals (intro q hq; first | (apply d14; grind) | grind [isErrPkt])
  | closer e =>
    obtain ⟨d1, d2, d3, d4, d5, d6, d7, d8, d9, d10, d11, d12, d13, d14, d15, d16⟩ := hd
    simp only [step] at h
    split at h <;> try (simp at h; done)
    rename_i c o pn hst
    simp at h; subst h
    have hh := closerStep_safe hst hwf.closerWaits hs.mergedClosed
    have hbuf : o.buf = s.merged.buf ∧ (s.merged.closed = true → o.closed = true) := by
      cases e <;> cases hcl : s.closer <;> simp [closerStep, closeCh, hcl] at hst
      · obtain ⟨_, _, rfl, _⟩ := hst; simp
      · obtain ⟨_, rfl, _⟩ := hst; simp
    constructor <;> simp <;> (try assumption) <;> (try simp_all)
  | ecloser e =>
    obtain ⟨d1, d2, d3, d4, d5, d6, d7, d8, d9, d10, d11, d12, d13, d14, d15, d16⟩ := hd
    simp only [step] at h
    split at h <;> try (simp at h; done)
    rename_i c o pn hst
    simp at h; subst h
    have hh := closerStep_safe hst hwf.ecloserWaits hs.merrClosed
    have hbuf : o.buf = s.merr.buf := by
      cases e <;> cases hcl : s.ecloser <;> simp [closerStep, closeCh, hcl] at hst
      · obtain ⟨_, _, rfl, _⟩ := hst; rfl
      · obtain ⟨_, rfl, _⟩ := hst; rfl
    constructor <;> simp <;> (try assumption) <;> (try simp_all)
  | emux j e =>
    obtain ⟨d1, d2, d3, d4, d5, d6, d7, d8, d9, d10, d11, d12, d13, d14, d15, d16⟩ := hd
    cases j
    · simp only [step] at h
      split at h <;> try (simp at h; done)
      rename_i r hst
      simp at h; subst h
      rw [hctx] at hst
      have hh := muxStep_drain hst d9
      have hsf := muxStep_safe hst
      constructor <;> simp <;> (try assumption) <;> (try simp_all)
      all_goals (intro q hq; apply d14; have := hh.2.2.1 q; grind)
    · simp only [step] at h
      split at h <;> try (simp at h; done)
      rename_i r hst
      simp at h; subst h
      rw [hctx] at hst
      have hh := muxStep_drain hst d10
      have hsf := muxStep_safe hst
      constructor <;> simp <;> (try assumption) <;> (try simp_all)
      all_goals (intro q hq; apply d14; have := hh.2.2.1 q; grind)
  | worker i e =>
    obtain ⟨d1, d2, d3, d4, d5, d6, d7, d8, d9, d10, d11, d12, d13, d14, d15, d16⟩ := hd
    simp only [step] at h
    split at h <;> try (simp at h; done)
    split at h <;> try (simp at h; done)
    rename_i ln hln _ r hst
    simp at h; subst h
    have hmem := List.mem_of_getElem? hln
    rw [hctx] at hst
    have hh := workerStep_drain hst (d4 ln hmem)
    have hsf := workerStep_safe hst (hs.outClosed ln hmem)
    constructor <;> simp <;> (try assumption)
    · -- wExit
      intro l hl hw
      rcases List.mem_or_eq_of_mem_set hl with hl | rfl
      · have := d3 l hl hw
        exact ⟨by rw [hsf.2.2]; exact this.1, hh.2.1 this.2⟩
      · simp at hw
        rcases hh.1 hw with h1 | h1
        · have := d3 ln hmem h1
          exact ⟨by rw [hsf.2.2]; exact this.1, hh.2.1 this.2⟩
        · exact ⟨by rw [hsf.2.2]; exact h1.1, hh.2.1 h1.2⟩
    · -- wFin
      apply forall_mem_set d4; simpa using hh.2.2.1
    · -- mExit
      apply forall_mem_set d5
      intro hm
      have := d5 ln hmem hm
      have h2 := hh.2.2.2.1 this.1
      exact ⟨h2.1, by rw [h2.2]; exact this.2⟩
    · -- reqsSplit
      have := hh.2.2.2.2
      rw [d12, this]; simp
    · intro q hq; apply d14; grind
  | mux i e =>
    obtain ⟨d1, d2, d3, d4, d5, d6, d7, d8, d9, d10, d11, d12, d13, d14, d15, d16⟩ := hd
    simp only [step] at h
    split at h <;> try (simp at h; done)
    split at h <;> try (simp at h; done)
    rename_i ln hln _ r hst
    simp at h; subst h
    have hmem := List.mem_of_getElem? hln
    rw [hctx] at hst
    have hh := muxStep_drain hst (d5 ln hmem)
    have hsf := muxStep_safe hst
    constructor <;> simp <;> (try assumption)
    all_goals first
      | (apply forall_mem_set d3; simpa using d3 ln hmem)
      | (apply forall_mem_set d4; intro hw; simp at hw ⊢; rw [hsf.1]; exact d4 ln hmem hw)
      | (apply forall_mem_set d5; simpa using hh.1)
      | (intro hc; rw [hsf.2.1]; exact d6 hc)
      | (intro hx; have := d7 hx; exact ⟨by rw [hsf.2.1]; exact this.1, by rw [hh.2.1 this.1]; exact this.2⟩)
      | (simpa using d12)
      | (intro q hq; apply d14; grind)
  | sender e =>
    obtain ⟨d1, d2, d3, d4, d5, d6, d7, d8, d9, d10, d11, d12, d13, d14, d15, d16⟩ := hd
    simp only [step] at h
    cases e with
    | recv =>
      cases hsnd : s.snd <;> simp [senderStep, hsnd] at h
      cases hb : s.merged.buf with
      | nil =>
        simp [hb] at h; obtain ⟨hcl, rfl⟩ := h
        constructor <;> simp <;> (try assumption) <;> (try simp_all)
      | cons p rest =>
        cases p with
        | err e =>
          simp [hb] at h; subst h
          constructor <;> simp <;> (try assumption) <;> (try simp_all)
        | buf b r =>
          simp [hb] at h; subst h
          rcases afterCalls_cases b r cfg.senderCalls with hk | ⟨t, hk⟩ <;>
            (constructor <;> simp <;> (try assumption) <;> (try simp_all))
    | call =>
      cases hsnd : s.snd <;> simp [senderStep, hsnd] at h
      rename_i b r todo
      cases todo with
      | nil => simp at h
      | cons c rest =>
        cases c <;> simp at h <;> subst h <;>
        rcases afterCalls_cases b r rest with hk | ⟨t, hk⟩ <;>
          (constructor <;> simp <;> (try assumption) <;> (try simp_all)) <;> (try (split <;> simp_all))
    | report =>
      cases hsnd : s.snd <;> simp [senderStep, hsnd] at h
      rename_i e k
      cases hso : sendOn (some cfg.capErrc) s.errc1 (Pkt.err e) with
      | none => simp [hso] at h
      | some x =>
        obtain ⟨c', pn⟩ := x
        simp [hso] at h; subst h
        have hh := sendOn_some hso
        have hcl : s.errc1.closed = false := by
          cases hcl : s.errc1.closed
          · rfl
          · have := hs.errc1Closed hcl; simp [closedBy, hsnd] at this
        have hb := hh.2.2.1 hcl
        rw [hsnd] at hsh
        rcases hsh with rfl | ⟨b, r, rfl⟩ <;> (constructor <;> simp <;> (try assumption) <;> (try simp_all))
        all_goals (intro q hq; first | (apply d14; grind) | grind [isErrPkt])
    | drop =>
      cases hsnd : s.snd <;> simp [senderStep, hsnd, hctx] at h
    | ctx =>
      cases hsnd : s.snd <;> simp [senderStep, hsnd, hctx] at h
    | close1 =>
      cases hsnd : s.snd <;> simp [senderStep, hsnd] at h
      subst h
      cases hdf : cfg.doneFirst <;>
        (constructor <;> simp [senderClose, firstClose, hdf] <;> (try assumption) <;> (try simp_all))
    | close2 =>
      cases hsnd : s.snd <;> simp [senderStep, hsnd] at h
      subst h
      have h16 := d16 hsnd
      cases hdf : cfg.doneFirst <;> simp [hdf] at h16 <;>
        (constructor <;> simp [senderClose, secondClose, hdf] <;> (try assumption) <;> (try simp_all))

end SxVerif.Pipe
