/-
`Drain`: who has left its loop implies what has been closed and emptied — an invariant of every step
other than `cancel` (runs that are not cancelled).
-/
import SxVerif.Proofs.ConcPacketConserve

namespace SxVerif.Pipe

theorem workerStep_drain {cfg w out inp pool nid mem e r}
    (h : workerStep cfg false w out inp pool nid mem e = some r) (hfin : w = .finished → out.closed = true) :
    ((r.w = .closing ∨ r.w = .finished) → ((w = .closing ∨ w = .finished) ∨ (inp.closed = true ∧ inp.buf = []))) ∧
    (inp.buf = [] → r.inp.buf = []) ∧
    (r.w = .finished → r.out.closed = true) ∧
    (out.closed = true → r.out.closed = true ∧ r.out.buf = out.buf) ∧
    inp.buf = r.took.toList ++ r.inp.buf := by
  cases e <;> cases w <;> simp [workerStep] at h
  all_goals try (subst h; simp_all; done)
  · split at h
    · simp at h; subst h; split <;> simp_all
    · split at h <;> simp at h; subst h; simp_all
  · split at h
    · simp at h; subst h; simp_all
    · split at h <;> simp at h; subst h; simp_all
  · split at h <;> simp at h <;> subst h <;> simp_all
  · rename_i p
    cases hs : sendOn (some cfg.capOut) out p with
    | none => simp [hs] at h
    | some x =>
      obtain ⟨c', pn⟩ := x
      simp [hs] at h; subst h
      have := sendOn_some hs
      cases hcl : out.closed <;> simp_all
  · simp [closeCh] at h; subst h; simp

theorem muxStep_drain {gr gs rd cap m src dst e r}
    (h : muxStep gr gs rd cap false m src dst e = some r)
    (hex : (m = .exiting ∨ m = .finished) → src.closed = true ∧ src.buf = []) :
    ((r.m = .exiting ∨ r.m = .finished) → r.src.closed = true ∧ r.src.buf = []) ∧
    (dst.closed = true → r.dst.buf = dst.buf) ∧
    (∀ p ∈ r.src.buf ++ r.dst.buf ++ mPkts r.m, p ∈ src.buf ++ dst.buf ++ mPkts m) ∧
    (src.buf = [] → r.src.buf = []) := by
  cases e <;> cases m <;> simp [muxStep] at h
  all_goals try (subst h; simp_all [mPkts]; done)
  · split at h
    · simp at h; subst h; rename_i p rest hb; simp_all [mPkts]
      intro q hq; rcases hq with hq | hq | hq <;> simp_all
    · split at h <;> simp at h; subst h; simp_all [mPkts]
  · rename_i p
    cases hs : sendOn (some cap) dst p with
    | none => simp [hs] at h
    | some x =>
      obtain ⟨c', pn⟩ := x
      simp [hs] at h; subst h
      have := sendOn_some hs
      cases hcl : dst.closed <;> simp_all [mPkts]
      intro q hq; rcases hq with hq | hq
      · exact Or.inl hq
      · exact Or.inr (Or.inl hq)


theorem drain_init (cfg : Cfg) (inp : Input) : Drain cfg inp (init inp) := by
  constructor <;> simp [init, mPkts]


/-- only `cancel` sets the context -/
theorem drain_ctx_step {cfg inp s s' ev} (hctx : s.ctx = false) (hne : ev ≠ .cancel)
    (h : step cfg inp s ev = some s') : s'.ctx = false := by
  cases ev with
  | cancel => exact absurd rfl hne
  | sender e =>
    simp only [step] at h
    cases e <;> cases hsnd : s.snd <;> simp [senderStep, hsnd] at h
    · cases hb : s.merged.buf with
      | nil => simp [hb] at h; obtain ⟨_, rfl⟩ := h; exact hctx
      | cons p rest => cases p <;> simp [hb] at h <;> subst h <;> exact hctx
    · rename_i b r todo
      cases todo with
      | nil => simp at h
      | cons c rest => cases c <;> simp at h <;> subst h <;> exact hctx
    · rename_i e k
      cases hso : sendOn (some cfg.capErrc) s.errc1 (Pkt.err e) with
      | none => simp [hso] at h
      | some x => simp [hso] at h; subst h; exact hctx
    · obtain ⟨_, rfl⟩ := h; exact hctx
    · obtain ⟨_, rfl⟩ := h; exact hctx
    · subst h; cases firstClose cfg <;> exact hctx
    · subst h; cases secondClose cfg <;> exact hctx
  | worker i e =>
    simp only [step] at h
    split at h <;> try (simp at h; done)
    split at h <;> simp at h; subst h; exact hctx
  | mux i e =>
    simp only [step] at h
    split at h <;> try (simp at h; done)
    split at h <;> simp at h; subst h; exact hctx
  | emux j e =>
    cases j <;> simp only [step] at h <;> split at h <;> simp at h <;> subst h <;> exact hctx
  | closer e =>
    simp only [step] at h
    split at h <;> simp at h; subst h; exact hctx
  | ecloser e =>
    simp only [step] at h
    split at h <;> simp at h; subst h; exact hctx
  | envSend | rcvSend =>
    simp only [step] at h
    split at h <;> try (simp at h; done)
    split at h <;> simp at h; subst h; exact hctx
  | envSkip | envClose | rcvSkip | rcvClose =>
    simp only [step] at h
    split at h <;> try (simp at h; done)
    split at h <;> simp at h
    all_goals first | (subst h; exact hctx) | (obtain ⟨_, rfl⟩ := h; exact hctx)
  | consume =>
    simp only [step] at h
    split at h <;> simp at h; subst h; exact hctx
  | gc b =>
    simp only [step] at h
    split at h <;> simp at h; subst h; exact hctx

end SxVerif.Pipe
