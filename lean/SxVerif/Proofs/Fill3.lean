/-
Lemmas for C05, part 3: the TCP probe (`tcp_ok`, `vpn_same_tcp`).
-/
import SxVerif.Proofs.Fill2
namespace SxVerif.Proofs.Fill
open SxVerif.Frame (Bytes u8 u16 u32)
open SxVerif.Fill SxVerif.Spec.Fill

/-- a datagram `hdr ++ seg` with a 20-byte header, seen through `datagram` -/
theorem dg_split {vpn : Bool} {frame hdr seg : Bytes} {n : Nat} (h20 : hdr.length = 20) (hn : (hdr ++ seg).length = n)
    (h : datagram vpn frame (hdr ++ seg).length = hdr ++ seg) :
    (datagram vpn frame n).length = n ∧ (datagram vpn frame n).take 20 = hdr ∧ (datagram vpn frame n).drop 20 = seg := by
  rw [hn] at h
  rw [h]
  exact ⟨hn, List.take_left' h20, List.drop_left' h20⟩

theorem tcp_ok (vpn : Bool) (flags : Nat) (r : Req) (rndId rndPort rndSeq : Nat)
    (hr : ReqOK vpn r.srcIP r.dstIP r.srcMAC r.dstMAC r.dstPort) (hf : flags < 512)
    (hid : rndId < 65535) (hp : rndPort < 28232) (hs : rndSeq < 2 ^ 32) :
    ∃ frame, fillTCP vpn flags r rndId rndPort rndSeq = .ok frame ∧
      let dg := datagram vpn frame 52
      (vpn = false → LinkOK frame r.dstMAC r.srcMAC 0x0800 52) ∧
      dg.length = 52 ∧
      ipFields dg = some {
        version := 4, ihl := 5, totalLen := 52, id := 1 + rndId, flags := 2, fragOff := 0,
        ttl := 64, proto := 6, src := r.srcIP, dst := r.dstIP } ∧
      csumValid (dg.take 20) ∧
      tcpFields (dg.drop 20) = some {
        sport := 32768 + rndPort, dport := r.dstPort, seq := rndSeq, ack := 0,
        dataOff := 8, flags := flags, window := 64240, urgent := 0,
        options := [2, 4, 0x05, 0xb4, 4, 2, 3, 3, 7, 0, 0, 0], payload := [] } ∧
      csumValid (dg.drop 20) (pseudoSum r.srcIP r.dstIP 6 32) ∧
      1 ≤ 1 + rndId ∧ 1 + rndId ≤ 65535 ∧ 32768 ≤ 32768 + rndPort ∧ 32768 + rndPort ≤ 60999 := by
  rw [fillTCP_eq vpn flags r rndId rndPort rndSeq hr.src4 hr.dst4, tcpSeg_length]
  have h20 := ipv4Header_length 5 (20 + 32) (1 + rndId) 2 64 6 r.srcIP r.dstIP hr.src4 hr.dst4
  have hl := tcpSeg_length r.srcIP r.dstIP flags r.dstPort rndPort rndSeq
  have hn : (ipv4Header 5 (20 + 32) (1 + rndId) 2 64 6 r.srcIP r.dstIP ++ tcpSeg r.srcIP r.dstIP flags r.dstPort rndPort rndSeq).length = 52 := by
    simp [h20, hl]
  obtain ⟨frame, hok, hlink, hdg⟩ := withLink_ok vpn r _ hr.macs
  refine ⟨frame, hok, ?_⟩
  obtain ⟨d1, d2, d3⟩ := dg_split h20 hn hdg
  have hip := ipv4Header_fields 5 (20 + 32) (1 + rndId) 2 64 6 r.srcIP r.dstIP
    (tcpSeg r.srcIP r.dstIP flags r.dstPort rndPort rndSeq) hr.src4 hr.dst4 (by omega) (by omega) (by omega) (by omega) (by omega) (by omega)
  rw [hn] at hlink hdg
  refine ⟨hlink, d1, ?_, ?_, ?_, ?_, by omega, by omega, by omega, by omega⟩
  · rw [hdg]; exact hip
  · rw [d2]; exact ipv4Header_csum _ _ _ _ _ _ _ _ hr.src4 hr.dst4
  · rw [d3]; exact tcpSeg_fields _ _ _ _ _ _ hf hr.port hp hs
  · rw [d3]; exact tcpSeg_csum _ _ _ _ _ _ hr.src4 hr.dst4

theorem vpn_same_tcp (flags : Nat) (r : Req) (a b c : Nat)
    (hr : ReqOK false r.srcIP r.dstIP r.srcMAC r.dstMAC r.dstPort) :
    ∃ dg frame, fillTCP true flags r a b c = .ok dg ∧ fillTCP false flags r a b c = .ok frame ∧
      (frame.drop 14).take dg.length = dg := by
  rw [fillTCP_eq true flags r a b c hr.src4 hr.dst4, fillTCP_eq false flags r a b c hr.src4 hr.dst4]
  obtain ⟨frame, hok, -, hdg⟩ := withLink_ok false r
    (ipv4Header 5 (20 + (tcpSeg r.srcIP r.dstIP flags r.dstPort b c).length) (1 + a) 2 64 6 r.srcIP r.dstIP ++
        tcpSeg r.srcIP r.dstIP flags r.dstPort b c) hr.macs
  exact ⟨_, frame, rfl, hok, by simpa [datagram] using hdg⟩

end SxVerif.Proofs.Fill
