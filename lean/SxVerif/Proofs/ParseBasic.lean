/-
Lemmas for C18 (option parsing), part 1: bridges between the model's helpers (`Parse.split`, `decVal`,
`allDigits`) and the spec's (`Spec.Net.splitOn`, `Spec.Net.decimal`), facts about `renderNat`, and the
plumbing of `Res` / `collect` / `mapM`.
-/
import SxVerif.Spec.Parse
import SxVerif.Proofs.Net

namespace SxVerif.Proofs.Parse
open SxVerif.Gen SxVerif.Parse SxVerif.NetParse
open SxVerif.Spec.Net (splitOn decimal renderNat)
open SxVerif.Spec.Parse
open SxVerif.Proofs.Net

theorem split_eq (sep : Char) : ∀ s, split sep s = splitOn sep s
  | [] => rfl
  | c :: r => by
    simp only [split, Spec.Net.splitOn, split_eq sep r]
    cases splitOn sep r <;> rfl

theorem split_ne_nil (sep : Char) (s : List Char) : split sep s ≠ [] := by
  rw [split_eq]; exact splitOn_ne_nil sep s

theorem isDigit_iff (c : Char) : isDigit c = c.isDigit := by
  simp only [isDigit, Char.isDigit]
  rfl

theorem decVal_eq (s : List Char) : decVal s = valOf 0 s := rfl

theorem valOf_eq_ofDigitChars (s : List Char) (n : Nat) : valOf n s = Nat.ofDigitChars 10 s n := by
  induction s generalizing n with
  | nil => rfl
  | cons c r ih =>
    rw [valOf_cons, Nat.ofDigitChars_cons, ih, Nat.mul_comm]
    rfl

theorem renderNat_ne_nil (n : Nat) : renderNat n ≠ [] := by
  rw [renderNat_eq]; exact Nat.toDigits_ne_nil

theorem renderNat_digits (n : Nat) : (renderNat n).all isDigit = true := by
  rw [renderNat_eq, List.all_eq_true]
  intro c hc
  rw [isDigit_iff]
  exact Nat.isDigit_of_mem_toDigits (by decide) (by decide) hc

theorem renderNat_val (n : Nat) : decVal (renderNat n) = n := by
  rw [decVal_eq, valOf_eq_ofDigitChars, renderNat_eq, Nat.ofDigitChars_ten_toDigits]

theorem renderNat_allDigits (n : Nat) : allDigits (renderNat n) = true := by
  unfold allDigits
  rw [renderNat_digits]
  cases h : renderNat n with
  | nil => exact absurd h (renderNat_ne_nil n)
  | cons c r => rfl

theorem renderNat_not_mem (n : Nat) (c : Char) (hc : isDigit c = false) : c ∉ renderNat n := by
  intro hm
  rw [List.all_eq_true.1 (renderNat_digits n) c hm] at hc
  cases hc

/-! ### outcome plumbing -/

/-- the value of a successful outcome -/
def okOnly {α} : Res α → Option α
  | .ok r => some r
  | _ => none

theorem okOnly_eq_some {α} (r : Res α) (v : α) : okOnly r = some v ↔ r = .ok v := by
  cases r <;> simp [okOnly]

theorem collect_ok {α} : ∀ (l : List (Res α)) (v : List α),
    collect l = .ok v ↔ l.mapM okOnly = some v
  | [], v => by simp [collect, eq_comm]
  | .ok x :: rest, v => by
    have ih := collect_ok rest
    simp only [collect, List.mapM_cons, okOnly]
    cases hc : collect rest with
    | ok vs =>
      rw [(ih vs).1 hc]
      simp [eq_comm]
    | err =>
      cases hm : rest.mapM okOnly with
      | none => simp
      | some vs => rw [(ih vs).2 hm] at hc; cases hc
    | panic =>
      cases hm : rest.mapM okOnly with
      | none => simp
      | some vs => rw [(ih vs).2 hm] at hc; cases hc
  | .err :: rest, v => by
    simp only [collect, List.mapM_cons, okOnly]
    cases collect rest <;> simp
  | .panic :: rest, v => by
    simp [collect, okOnly]

theorem collect_map_ok {α β} (f : α → Res β) (l : List α) (v : List β) :
    collect (l.map f) = .ok v ↔ l.mapM (fun x => okOnly (f x)) = some v := by
  rw [collect_ok, List.mapM_map]
  rfl

theorem collect_no_panic {α} : ∀ (l : List (Res α)), (∀ r ∈ l, r ≠ .panic) → collect l ≠ .panic
  | [], _ => by simp [collect]
  | .ok x :: rest, h => by
    have ih := collect_no_panic rest (fun r hr => h r (List.mem_cons_of_mem _ hr))
    simp only [collect]
    cases hc : collect rest with
    | ok vs => simp
    | err => simp
    | panic => exact absurd hc ih
  | .err :: rest, h => by
    have ih := collect_no_panic rest (fun r hr => h r (List.mem_cons_of_mem _ hr))
    simp only [collect]
    cases hc : collect rest with
    | ok vs => simp
    | err => simp
    | panic => exact absurd hc ih
  | .panic :: rest, h => absurd rfl (h .panic (List.mem_cons_self))

theorem mapM_some_mem {α β} (f : α → Option β) : ∀ (l : List α) (v : List β),
    l.mapM f = some v → ∀ r ∈ v, ∃ x ∈ l, f x = some r
  | [], v, h => by
    simp at h; subst h; simp
  | a :: rest, v, h => by
    simp only [List.mapM_cons] at h
    cases hf : f a with
    | none => rw [hf] at h; simp at h
    | some b =>
      cases hm : rest.mapM f with
      | none => rw [hf, hm] at h; simp at h
      | some bs =>
        rw [hf, hm] at h
        simp at h
        subst h
        intro r hr
        rcases List.mem_cons.1 hr with rfl | hr
        · exact ⟨a, List.mem_cons_self, hf⟩
        · obtain ⟨x, hx, hfx⟩ := mapM_some_mem f rest bs hm r hr
          exact ⟨x, List.mem_cons_of_mem _ hx, hfx⟩

/-! ### `join` -/

theorem splitOn_join (sep : Char) : ∀ (ls : List (List Char)), ls ≠ [] → (∀ l ∈ ls, sep ∉ l) →
    splitOn sep (join sep ls) = ls
  | [], h, _ => absurd rfl h
  | [a], _, h => splitOn_noSep sep a (h a (by simp))
  | a :: b :: rest, _, h => by
    have hj : join sep (a :: b :: rest) = a ++ sep :: join sep (b :: rest) := rfl
    rw [hj, splitOn_append sep a _ (h a (by simp)),
      splitOn_join sep (b :: rest) (by simp) (fun l hl => h l (List.mem_cons_of_mem _ hl))]

theorem join_ne_nil (sep : Char) : ∀ (ls : List (List Char)), (∀ l ∈ ls, l ≠ []) → ls ≠ [] →
    join sep ls ≠ []
  | [], _, h => absurd rfl h
  | [a], h, _ => h a (by simp)
  | a :: b :: rest, _, _ => by
    have hj : join sep (a :: b :: rest) = a ++ sep :: join sep (b :: rest) := rfl
    rw [hj]; simp

end SxVerif.Proofs.Parse
