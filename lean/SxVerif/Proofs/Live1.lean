/-
Lemmas for C19, part 1 (order of the output): what one event does to `out`, and the two run
theorems built on it — equality with the concatenation of passes for cancel-free runs, and the
sublist bound for arbitrary runs.  Core Lean only.
-/
import SxVerif.Model.Live

namespace SxVerif.Proofs.Live
open SxVerif.Live

set_option linter.unnecessarySimpa false

variable {α : Type} (rescan : Nat) (passes : Nat → Option (List α))

/-- what the generator still holds of the current pass: the request in flight and the channel's rest -/
def rem (s : State α) : List α := inflight s ++ s.cur.getD []

theorem run_nil (s : State α) : run rescan passes [] s = s := rfl

theorem run_cons (e : Ev) (evs : List Ev) (s : State α) :
    run rescan passes (e :: evs) s = run rescan passes evs (step rescan passes e s) := rfl

theorem run_append (a b : List Ev) (s : State α) :
    run rescan passes (a ++ b) s = run rescan passes b (run rescan passes a s) := by
  simp [run, List.foldl_append]

/-! ### projections of `arm` and `regen` -/

@[simp] theorem arm_next (s : State α) : (arm rescan s).next = s.next := rfl
@[simp] theorem arm_out (s : State α) : (arm rescan s).out = s.out := rfl
@[simp] theorem arm_cur (s : State α) : (arm rescan s).cur = s.cur := rfl
@[simp] theorem arm_cancelled (s : State α) : (arm rescan s).cancelled = s.cancelled := rfl
@[simp] theorem arm_clock (s : State α) : (arm rescan s).clock = s.clock := rfl
@[simp] theorem arm_pc (s : State α) : (arm rescan s).pc = armPc rescan s := rfl
@[simp] theorem arm_log (s : State α) : (arm rescan s).log = armLog s := rfl

theorem armPc_cases (s : State α) :
    armPc rescan s = .both ∨ armPc rescan s = .wokenCtx ∨ armPc rescan s = .wokenTimer ∨
      armPc rescan s = .wait (s.clock + rescan) := by
  unfold armPc; split <;> split <;> simp

@[simp] theorem arm_inflight (s : State α) : inflight (arm rescan s) = [] := by
  simp only [inflight, arm_pc]
  rcases armPc_cases rescan s with h | h | h | h <;> rw [h]

@[simp] theorem regen_next (s : State α) : (regen passes s).next = s.next + 1 := rfl
@[simp] theorem regen_out (s : State α) : (regen passes s).out = s.out := rfl
@[simp] theorem regen_pc (s : State α) : (regen passes s).pc = .read := rfl
@[simp] theorem regen_cancelled (s : State α) : (regen passes s).cancelled = s.cancelled := rfl
@[simp] theorem regen_clock (s : State α) : (regen passes s).clock = s.clock := rfl
@[simp] theorem regen_cur (s : State α) : (regen passes s).cur = passes s.next := rfl
@[simp] theorem regen_inflight (s : State α) : inflight (regen passes s) = [] := rfl

/-- one event: `out` only grows, by requests taken from what the generator held, and a new pass is
    only ever appended behind it -/
theorem step_out (e : Ev) (s : State α) :
    let s' := step rescan passes e s
    (s'.next = s.next ∨ s'.next = s.next + 1) ∧
    ∃ extra, s'.out = s.out ++ extra ∧
      (extra ++ rem s').Sublist (rem s ++ (if s'.next = s.next then [] else passList passes s.next)) := by
  intro s'
  cases e with
  | tick n =>
    refine ⟨Or.inl ?_, [], ?_, ?_⟩ <;>
      (simp only [s', step]; split <;> (try split) <;> simp_all [rem, inflight])
  | cancel =>
    refine ⟨Or.inl ?_, [], ?_, ?_⟩ <;>
      (simp only [s', step]; split <;> simp_all [rem, inflight])
  | drop =>
    have h : s'.next = s.next ∧ s'.out = s.out ∧ (rem s').Sublist (rem s) := by
      simp only [s', step]
      split
      · split
        · rename_i h; simp [rem, inflight, h]
        · simp
      · simp
    exact ⟨Or.inl h.1, [], by simp [h.2.1], by simp [h.1, h.2.2]⟩
  | proc c =>
    cases hpc : s.pc with
    | read =>
      cases hcur : s.cur with
      | none =>
        by_cases hc : s.cancelled
        · have : s' = arm rescan s := by simp [s', step, hpc, hcur, hc]
          exact ⟨Or.inl (by simp [this]), [], by simp [this], by simp [this, rem, hcur]⟩
        · have : s' = s := by simp [s', step, hpc, hcur, hc]
          exact ⟨Or.inl (by simp [this]), [], by simp [this], by simp [this]⟩
      | some l =>
        cases l with
        | nil =>
          have : s' = arm rescan s := by simp [s', step, hpc, hcur]
          exact ⟨Or.inl (by simp [this]), [], by simp [this], by simp [this, rem, hcur]⟩
        | cons x xs =>
          by_cases hc : (s.cancelled && c) = true
          · have : s' = arm rescan s := by simp only [s', step, hpc, hcur, hc]; simp
            exact ⟨Or.inl (by simp [this]), [], by simp [this], by simp [this, rem, hcur]⟩
          · have : s' = { s with cur := some xs, pc := .write x } := by
              simp only [s', step, hpc, hcur, hc]; simp
            exact ⟨Or.inl (by simp [this]), [], by simp [this], by simp [this, rem, hcur, inflight, hpc]⟩
    | write x =>
      by_cases hc : (s.cancelled && c) = true
      · have : s' = { s with pc := .read } := by simp only [s', step, hpc, hc]; simp
        exact ⟨Or.inl (by simp [this]), [], by simp [this], by simp [this, rem, inflight, hpc]⟩
      · have : s' = { s with pc := .read, out := s.out ++ [x] } := by simp only [s', step, hpc, hc]; simp
        exact ⟨Or.inl (by simp [this]), [x], by simp [this], by simp [this, rem, inflight, hpc]⟩
    | wait d =>
      have : s' = s := by simp [s', step, hpc]
      exact ⟨Or.inl (by simp [this]), [], by simp [this], by simp [this]⟩
    | both =>
      by_cases hc : c = true
      · have : s' = { s with pc := .done } := by simp [s', step, hpc, hc]
        exact ⟨Or.inl (by simp [this]), [], by simp [this], by simp [this, rem, inflight, hpc]⟩
      · have : s' = regen passes s := by simp [s', step, hpc, hc]
        exact ⟨Or.inr (by simp [this]), [], by simp [this], by simp [this, rem, passList]⟩
    | wokenTimer =>
      have : s' = regen passes s := by simp [s', step, hpc]
      exact ⟨Or.inr (by simp [this]), [], by simp [this], by simp [this, rem, passList]⟩
    | wokenCtx =>
      have : s' = { s with pc := .done } := by simp [s', step, hpc]
      exact ⟨Or.inl (by simp [this]), [], by simp [this], by simp [this, rem, inflight, hpc]⟩
    | done =>
      have : s' = s := by simp [s', step, hpc]
      exact ⟨Or.inl (by simp [this]), [], by simp [this], by simp [this]⟩

/-- any run from any state: `out` grows by a list `extra`, and `extra` followed by what the generator
    still holds is a sublist of what it held before followed by the passes requested meanwhile.
    Nothing is invented, repeated or reordered — with or without cancellation. -/
theorem run_out (evs : List Ev) (s : State α) :
    let s2 := run rescan passes evs s
    s.next ≤ s2.next ∧ ∃ extra, s2.out = s.out ++ extra ∧
      (extra ++ rem s2).Sublist
        (rem s ++ (List.range' s.next (s2.next - s.next)).flatMap (passList passes)) := by
  induction evs generalizing s with
  | nil => simp [run_nil]
  | cons e evs ih =>
    intro s2
    obtain ⟨hn, ex1, ho1, hs1⟩ := step_out rescan passes e s
    obtain ⟨hle, ex2, ho2, hs2⟩ := ih (step rescan passes e s)
    have hs2eq : s2 = run rescan passes evs (step rescan passes e s) := rfl
    rw [← hs2eq] at hle ho2 hs2
    refine ⟨by omega, ex1 ++ ex2, by rw [ho2, ho1, List.append_assoc], ?_⟩
    have h1 : (ex1 ++ (ex2 ++ rem s2)).Sublist
        (ex1 ++ (rem (step rescan passes e s) ++
          (List.range' (step rescan passes e s).next (s2.next - (step rescan passes e s).next)).flatMap
            (passList passes))) := List.Sublist.append (List.Sublist.refl _) hs2
    rw [← List.append_assoc ex1 (rem _)] at h1
    have h2 := List.Sublist.trans h1 (List.Sublist.append hs1 (List.Sublist.refl _))
    rw [List.append_assoc ex1 ex2]
    refine List.Sublist.trans h2 ?_
    rw [List.append_assoc]
    refine List.Sublist.append (List.Sublist.refl _) ?_
    rcases hn with hn | hn
    · simp [hn]
    · have : s2.next - s.next = (s2.next - (s.next + 1)) + 1 := by omega
      rw [hn, this, List.range'_succ]
      simp

/-! ### cancel-free runs: the output *is* the concatenation of passes -/

structure OrdInv (s : State α) : Prop where
  notCancelled : s.cancelled = false
  pos : 1 ≤ s.next
  split : ∃ pre, pre ++ rem s = passList passes (s.next - 1) ∧
    s.out = (List.range (s.next - 1)).flatMap (passList passes) ++ pre
  drained : (s.pc = .wokenTimer ∨ s.pc = .both ∨ ∃ d, s.pc = .wait d) → rem s = []

theorem ordInv_init (t0 : Nat) (s0 : State α) (h : init passes t0 = some s0) : OrdInv passes s0 := by
  unfold init at h
  split at h
  · cases h
  · rename_i l hl
    cases h
    exact ⟨rfl, by simp, ⟨[], by simp [rem, inflight, passList, hl], by simp⟩, by simp⟩

theorem ordInv_regen (s : State α) (h : OrdInv passes s) (hd : rem s = []) : OrdInv passes (regen passes s) := by
  obtain ⟨hc, hp, ⟨pre, hpre, hout⟩, _⟩ := h
  refine ⟨hc, by simp, ⟨[], ?_, ?_⟩, by simp⟩
  · simp [rem, passList]
  · rw [hd, List.append_nil] at hpre
    have : s.next - 1 + 1 = s.next := by omega
    simp only [regen_next, regen_out, Nat.add_sub_cancel, List.append_nil]
    rw [hout, hpre]
    conv => rhs; rw [← this, List.range_succ]
    simp

theorem ordInv_step (e : Ev) (he : e ≠ .cancel) (s : State α) (h : OrdInv passes s) :
    OrdInv passes (step rescan passes e s) := by
  have hnc := h.notCancelled
  cases e with
  | cancel => exact absurd rfl he
  | tick n =>
    obtain ⟨hc, hp, ⟨pre, hpre, hout⟩, hdr⟩ := h
    cases hpc : s.pc with
    | wait d =>
      have hr : rem s = [] := hdr (Or.inr (Or.inr ⟨d, hpc⟩))
      simp only [step, hpc]
      split
      · exact ⟨hc, hp, ⟨pre, by simpa [rem, inflight, hpc] using hpre, hout⟩, fun _ => by simpa [rem, inflight, hpc] using hr⟩
      · exact ⟨hc, hp, ⟨pre, by simpa [rem, inflight, hpc] using hpre, hout⟩, fun _ => by simpa [rem, inflight, hpc] using hr⟩
    | read | write _ | both | wokenTimer | wokenCtx | done =>
      simp only [step, hpc]
      exact ⟨hc, hp, ⟨pre, by simpa [rem, inflight, hpc] using hpre, hout⟩, by simpa [rem, inflight, hpc] using hdr⟩
  | drop =>
    have : step rescan passes .drop s = s := by simp [step, hnc]
    rw [this]; exact h
  | proc c =>
    obtain ⟨hc, hp, ⟨pre, hpre, hout⟩, hdr⟩ := h
    have hcc : (s.cancelled && c) = false := by simp [hc]
    cases hpc : s.pc with
    | read =>
      cases hcur : s.cur with
      | none =>
        have : step rescan passes (.proc c) s = s := by simp [step, hpc, hcur, hc]
        rw [this]; exact ⟨hc, hp, ⟨pre, hpre, hout⟩, hdr⟩
      | some l =>
        cases l with
        | nil =>
          have : step rescan passes (.proc c) s = arm rescan s := by simp [step, hpc, hcur]
          rw [this]
          have hr : rem s = [] := by simp [rem, inflight, hpc, hcur]
          refine ⟨hc, hp, ⟨pre, ?_, hout⟩, fun _ => ?_⟩
          · have hp' := hpre
            simp only [hr, List.append_nil] at hp'
            simp [rem, hcur, hp']
          · simp [rem, hcur]
        | cons x xs =>
          have : step rescan passes (.proc c) s = { s with cur := some xs, pc := .write x } := by
            simp only [step, hpc, hcur, hcc]; simp
          rw [this]
          refine ⟨hc, hp, ⟨pre, ?_, hout⟩, by simp⟩
          simpa [rem, hcur, inflight, hpc] using hpre
    | write x =>
      have : step rescan passes (.proc c) s = { s with pc := .read, out := s.out ++ [x] } := by
        simp only [step, hpc, hcc]; simp
      rw [this]
      refine ⟨hc, hp, ⟨pre ++ [x], ?_, ?_⟩, by simp⟩
      · simpa [rem, inflight, hpc] using hpre
      · simp [hout]
    | wait d =>
      have : step rescan passes (.proc c) s = s := by simp [step, hpc]
      rw [this]; exact ⟨hc, hp, ⟨pre, hpre, hout⟩, hdr⟩
    | both =>
      by_cases hcb : c = true
      · have : step rescan passes (.proc c) s = { s with pc := .done } := by simp [step, hpc, hcb]
        rw [this]
        exact ⟨hc, hp, ⟨pre, by simpa [rem, inflight, hpc] using hpre, hout⟩, by simp⟩
      · have : step rescan passes (.proc c) s = regen passes s := by simp [step, hpc, hcb]
        rw [this]
        exact ordInv_regen passes s ⟨hc, hp, ⟨pre, hpre, hout⟩, hdr⟩ (hdr (Or.inr (Or.inl hpc)))
    | wokenTimer =>
      have : step rescan passes (.proc c) s = regen passes s := by simp [step, hpc]
      rw [this]
      exact ordInv_regen passes s ⟨hc, hp, ⟨pre, hpre, hout⟩, hdr⟩ (hdr (Or.inl hpc))
    | wokenCtx =>
      have : step rescan passes (.proc c) s = { s with pc := .done } := by simp [step, hpc]
      rw [this]
      exact ⟨hc, hp, ⟨pre, by simpa [rem, inflight, hpc] using hpre, hout⟩, by simp⟩
    | done =>
      have : step rescan passes (.proc c) s = s := by simp [step, hpc]
      rw [this]; exact ⟨hc, hp, ⟨pre, hpre, hout⟩, hdr⟩

theorem ordInv_run (evs : List Ev) (he : Ev.cancel ∉ evs) (s : State α) (h : OrdInv passes s) :
    OrdInv passes (run rescan passes evs s) := by
  induction evs generalizing s with
  | nil => exact h
  | cons e evs ih =>
    rw [run_cons]
    simp only [List.mem_cons, not_or] at he
    exact ih he.2 _ (ordInv_step rescan passes e (fun h => he.1 h.symm) s h)

/-- **whole passes, in order**: as long as nobody cancels, the output is pass 0 ++ … ++ pass (k-1)
    followed by the part of pass k handed over so far; what is left of pass k is still held -/
theorem whole_in_order (t0 : Nat) (s0 : State α) (h0 : init passes t0 = some s0)
    (evs : List Ev) (hnc : Ev.cancel ∉ evs) :
    let s := run rescan passes evs s0
    ∃ pre, pre ++ inflight s ++ s.cur.getD [] = passList passes (s.next - 1) ∧
      s.out = (List.range (s.next - 1)).flatMap (passList passes) ++ pre := by
  obtain ⟨_, _, ⟨pre, hpre, hout⟩, _⟩ := ordInv_run rescan passes evs hnc s0 (ordInv_init passes t0 s0 h0)
  exact ⟨pre, by simpa [rem, List.append_assoc] using hpre, hout⟩

end SxVerif.Proofs.Live
