/-
Lemmas for C18, part 3: the payload (`strconv.Unquote`) round trips.
-/
import SxVerif.Proofs.ParseBasic

namespace SxVerif.Proofs.Parse
open SxVerif.Gen SxVerif.Parse SxVerif.NetParse
open SxVerif.Spec.Parse

theorem validUTF8_ascii : ∀ (s : List Char), (∀ c ∈ s, c.toNat < 128) → validUTF8 s = true
  | [], _ => rfl
  | c :: rest, h => by
    have hc : c.toNat < 128 := h c (by simp)
    have ih := validUTF8_ascii rest (fun x hx => h x (List.mem_cons_of_mem _ hx))
    unfold validUTF8
    simp only [hc, ↓reduceIte]
    exact ih

theorem unquoteLoop_nil (f : Nat) : unquoteLoop (f + 1) [] = some [] := by
  simp [unquoteLoop]

theorem unquoteLoop_plain (f : Nat) (c : Char) (rest : List Char)
    (h1 : c ≠ '\\') (h2 : c ≠ '"') (h3 : c ≠ '\n') :
    unquoteLoop (f + 1) (c :: rest) = (unquoteLoop f rest).map (c :: ·) := by
  simp [unquoteLoop, h1, h2, h3]

theorem unquoteLoop_hex (f : Nat) (h1 h2 : Char) (rest : List Char) :
    unquoteLoop (f + 1) ('\\' :: 'x' :: h1 :: h2 :: rest) =
      match hexRun [h1, h2] with
      | some v => (unquoteLoop f rest).map (Char.ofNat v :: ·)
      | none => none := by
  simp [unquoteLoop]
  cases hexRun [h1, h2] <;> rfl

/-! ### plain text -/

theorem unquoteLoop_plain_all : ∀ (s : List Char) (f : Nat), s.length + 1 ≤ f →
    (∀ c ∈ s, c ≠ '\\' ∧ c ≠ '"' ∧ c ≠ '\n') → unquoteLoop f s = some s
  | [], f, hf, _ => by
    obtain ⟨g, rfl⟩ : ∃ g, f = g + 1 := ⟨f - 1, by omega⟩
    exact unquoteLoop_nil g
  | c :: rest, f, hf, h => by
    obtain ⟨g, rfl⟩ : ∃ g, f = g + 1 := ⟨f - 1, by omega⟩
    simp only [List.length_cons] at hf
    obtain ⟨h1, h2, h3⟩ := h c (by simp)
    rw [unquoteLoop_plain g c rest h1 h2 h3,
      unquoteLoop_plain_all rest g (by omega) (fun x hx => h x (List.mem_cons_of_mem _ hx))]
    rfl

theorem payload_plain (s : List Char)
    (h : ∀ c ∈ s, c.toNat < 128 ∧ c ≠ '\\' ∧ c ≠ '"' ∧ c ≠ '\n') : parsePayload s = some s := by
  unfold parsePayload
  rw [validUTF8_ascii s (fun c hc => (h c hc).1)]
  simp only [Bool.not_true, Bool.false_eq_true, ↓reduceIte]
  exact unquoteLoop_plain_all s _ (Nat.le_refl _) (fun c hc => (h c hc).2)

/-! ### `\xHH` -/

theorem hexVal_hexDigitChar : ∀ n, n < 16 → hexVal (hexDigitChar n) = some n := by decide

theorem hexDigitChar_ascii : ∀ n, n < 16 → (hexDigitChar n).toNat < 128 := by decide

theorem hexRun_pair (a b : Nat) (ha : a < 16) (hb : b < 16) :
    hexRun [hexDigitChar a, hexDigitChar b] = some (a * 16 + b) := by
  simp [hexRun, hexVal_hexDigitChar a ha, hexVal_hexDigitChar b hb]

theorem char_ofNat_split (c : Char) : Char.ofNat (c.toNat / 16 * 16 + c.toNat % 16) = c := by
  rw [Nat.div_add_mod']
  exact Char.ofNat_toNat c

theorem renderPayload_cons (c : Char) (rest : List Char) :
    renderPayload (c :: rest) =
      '\\' :: 'x' :: hexDigitChar (c.toNat / 16) :: hexDigitChar (c.toNat % 16) :: renderPayload rest := by
  simp [renderPayload]

theorem renderPayload_ascii : ∀ (bytes : List Char), (∀ c ∈ bytes, c.toNat < 256) →
    ∀ x ∈ renderPayload bytes, x.toNat < 128
  | [], _, x, hx => by simp [renderPayload] at hx
  | c :: rest, h, x, hx => by
    have hc : c.toNat < 256 := h c (by simp)
    rw [renderPayload_cons] at hx
    simp only [List.mem_cons] at hx
    rcases hx with rfl | rfl | rfl | rfl | hx
    · decide
    · decide
    · exact hexDigitChar_ascii _ (by omega)
    · exact hexDigitChar_ascii _ (by omega)
    · exact renderPayload_ascii rest (fun y hy => h y (List.mem_cons_of_mem _ hy)) x hx

theorem renderPayload_length (bytes : List Char) : (renderPayload bytes).length = 4 * bytes.length := by
  induction bytes with
  | nil => rfl
  | cons c rest ih => rw [renderPayload_cons]; simp only [List.length_cons, ih]; omega

theorem unquoteLoop_render : ∀ (bytes : List Char) (f : Nat), bytes.length + 1 ≤ f →
    (∀ c ∈ bytes, c.toNat < 256) → unquoteLoop f (renderPayload bytes) = some bytes
  | [], f, hf, _ => by
    obtain ⟨g, rfl⟩ : ∃ g, f = g + 1 := ⟨f - 1, by omega⟩
    exact unquoteLoop_nil g
  | c :: rest, f, hf, h => by
    obtain ⟨g, rfl⟩ : ∃ g, f = g + 1 := ⟨f - 1, by omega⟩
    simp only [List.length_cons] at hf
    have hc : c.toNat < 256 := h c (by simp)
    rw [renderPayload_cons, unquoteLoop_hex, hexRun_pair _ _ (by omega) (by omega)]
    dsimp only
    rw [unquoteLoop_render rest g (by omega) (fun x hx => h x (List.mem_cons_of_mem _ hx)),
      char_ofNat_split]
    rfl

theorem payload_roundtrip (bytes : List Char) (hb : ∀ c ∈ bytes, c.toNat < 256) :
    parsePayload (renderPayload bytes) = some bytes := by
  unfold parsePayload
  rw [validUTF8_ascii _ (renderPayload_ascii bytes hb)]
  simp only [Bool.not_true, Bool.false_eq_true, ↓reduceIte]
  exact unquoteLoop_render bytes _ (by rw [renderPayload_length]; omega) hb

end SxVerif.Proofs.Parse
