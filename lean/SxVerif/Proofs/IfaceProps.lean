/-
C17 lemmas, part 4: the clauses of the property, derived from `scanRange_spec` and the loop lemmas.
-/
import SxVerif.Proofs.IfaceChoice

namespace SxVerif.Proofs.Iface
open SxVerif.Iface SxVerif.Spec.Iface

theorem ipScanOptions_unfold (h : Host) (o : Opts) :
    ipScanOptions h o = match scanRange h o with
      | .error e => .error e
      | .ok r => .ok ⟨r, r.srcMAC.isNone, if r.srcMAC.isNone then none else (defaultGatewayIP h r.iface).bind to4⟩ := by
  unfold ipScanOptions
  cases scanRange h o <;> rfl

/-- the whole property on the model's outcome -/
theorem choice (h : Host) (o : Opts) (hw : hostWF h = true) (ho : optsWF o = true)
    (hres : routesResolve h = true) : holds h o (outcomeOf (ipScanOptions h o)) = true := by
  obtain ⟨h1, h2⟩ := scanRange_spec h o hw ho hres
  unfold holds
  rw [ipScanOptions_unfold]
  cases he : expectedIface h o with
  | none =>
    obtain ⟨e, hee⟩ := h1 he
    simp [hee, outcomeOf]
  | some i =>
    obtain ⟨_, hs⟩ := h2 i he
    rw [hs]
    cases hsrc : expectedSrc o i with
    | none => simp [hsrc, outcomeOf]
    | some s => simp [hsrc, outcomeOf]

theorem arp_choice (h : Host) (o : Opts) (hw : hostWF h = true) (ho : optsWF o = true)
    (hres : routesResolve h = true) :
    holdsArp h o (match arpOptions h o with | .ok _ => true | .error _ => false) = true := by
  obtain ⟨h1, h2⟩ := scanRange_spec h o hw ho hres
  unfold holdsArp arpOptions
  cases he : expectedIface h o with
  | none =>
    obtain ⟨e, hee⟩ := h1 he
    simp [hee]
  | some i =>
    obtain ⟨_, hs⟩ := h2 i he
    rw [hs]
    cases hsrc : expectedSrc o i with
    | none => simp [hsrc]
    | some s =>
      cases hm : expectedMAC o i with
      | none => simp [hsrc, hm]
      | some m => simp [hsrc, hm]

/-! ### explicit clauses -/

theorem filter_first {α : Type} (p : α → Bool) (pre post : List α) (x : α)
    (hpre : ∀ y ∈ pre, p y = false) (hx : p x = true) :
    (pre ++ x :: post).filter p = x :: post.filter p := by
  rw [List.filter_append, List.filter_cons, if_pos hx]
  have : pre.filter p = [] := by
    rw [List.filter_eq_nil_iff]; intro y hy; simp [hpre y hy]
  rw [this]; rfl

theorem find?_first {α : Type} (p : α → Bool) (pre post : List α) (x : α)
    (hpre : ∀ y ∈ pre, p y = false) (hx : p x = true) :
    (pre ++ x :: post).find? p = some x := by
  induction pre with
  | nil => simp [hx]
  | cons y ys ih =>
    simp only [List.cons_append, List.find?_cons, hpre y (by simp)]
    exact ih (fun z hz => hpre z (by simp [hz]))

/-- (i) no flags: the first directly attached interface, its first address on the target subnet, its MAC -/
theorem clause_i (h : Host) (o : Opts) (t : Target) (pre post : List Iface) (i : Iface)
    (apre apost : List Addr) (a : Addr)
    (hw : hostWF h = true) (ho : optsWF o = true) (hres : routesResolve h = true)
    (hif : o.iface = none) (hsi : o.srcip = none) (hsm : o.srcmac = none) (htg : o.target = some t)
    (hsplit : h.ifaces = pre ++ i :: post)
    (hpre : ∀ j ∈ pre, ∀ b ∈ j.addrs, onTarget t b = false)
    (hasplit : i.addrs = apre ++ a :: apost)
    (hapre : ∀ b ∈ apre, onTarget t b = false)
    (ha : onTarget t a = true) :
    outcomeOf (ipScanOptions h o) = .chose i.name a.ip i.mac i.mac.isNone := by
  have hc := choice h o hw ho hres
  have hon : addrsOn t i = a :: apost.filter (onTarget t) := by
    unfold addrsOn; rw [hasplit]; exact filter_first _ _ _ _ hapre ha
  have hei : expectedIface h o = some i := by
    unfold expectedIface
    simp only [hif, htg, Option.map_some, Option.getD_some, attachedIfaces, hsplit]
    rw [filter_first (fun i => (addrsOn t i).isEmpty == false) pre post i]
    · intro j hj
      have : addrsOn t j = [] := by
        unfold addrsOn; rw [List.filter_eq_nil_iff]; intro b hb; simp [hpre j hj b hb]
      simp [this]
    · simp [hon]
  have hes : expectedSrc o i = some a.ip := by
    simp [expectedSrc, hsi, expectedAddr, htg, hon, onTarget_v4 ha]
  have hem : expectedMAC o i = i.mac := by simp [expectedMAC, hsm]
  simpa [holds, hei, hes, hem] using hc

/-- (ii-a) --iface names an interface that has no address on the target subnet: its first address -/
theorem clause_ii_iface (h : Host) (o : Opts) (n : String) (pre post : List Iface) (i : Iface)
    (a : Addr) (arest : List Addr)
    (hw : hostWF h = true) (ho : optsWF o = true) (hres : routesResolve h = true)
    (hif : o.iface = some n) (hsi : o.srcip = none) (hsm : o.srcmac = none)
    (hsplit : h.ifaces = pre ++ i :: post)
    (hpre : ∀ j ∈ pre, (j.name == n) = false) (hname : (i.name == n) = true)
    (hnot : ∀ t, o.target = some t → ∀ b ∈ i.addrs, onTarget t b = false)
    (haddrs : i.addrs = a :: arest) (hv4 : a.v6 = false) :
    outcomeOf (ipScanOptions h o) = .chose i.name a.ip i.mac i.mac.isNone := by
  have hc := choice h o hw ho hres
  have hei : expectedIface h o = some i := by
    unfold expectedIface
    simp only [hif, hsplit]
    exact find?_first _ _ _ _ hpre hname
  have hea : expectedAddr o i = some a := by
    unfold expectedAddr
    cases htg : o.target with
    | none => simp [haddrs]
    | some t =>
      have : addrsOn t i = [] := by
        unfold addrsOn; rw [List.filter_eq_nil_iff]; intro b hb; simp [hnot t htg b hb]
      simp [this, haddrs]
  have hes : expectedSrc o i = some a.ip := by simp [expectedSrc, hsi, hea, hv4]
  have hem : expectedMAC o i = i.mac := by simp [expectedMAC, hsm]
  simpa [holds, hei, hes, hem] using hc

/-- (ii-b) nothing attached, no --iface: the interface of the lowest-metric default route, its first address -/
theorem clause_ii_default (h : Host) (o : Opts) (rpre rpost : List Route) (r : Route)
    (pre post : List Iface) (i : Iface) (a : Addr) (arest : List Addr)
    (hw : hostWF h = true) (ho : optsWF o = true) (hres : routesResolve h = true)
    (hif : o.iface = none) (hsi : o.srcip = none) (hsm : o.srcmac = none)
    (hnot : ∀ t, o.target = some t → ∀ j ∈ h.ifaces, ∀ b ∈ j.addrs, onTarget t b = false)
    (hroutes : defaultRoutes h = rpre ++ r :: rpost)
    (hrpre : ∀ x ∈ rpre, r.prio < x.prio) (hrpost : ∀ x ∈ rpost, r.prio ≤ x.prio)
    (hsplit : h.ifaces = pre ++ i :: post)
    (hpre : ∀ j ∈ pre, (j.index == r.link) = false) (hidx : (i.index == r.link) = true)
    (haddrs : i.addrs = a :: arest) (hv4 : a.v6 = false) :
    outcomeOf (ipScanOptions h o) = .chose i.name a.ip i.mac i.mac.isNone := by
  have hc := choice h o hw ho hres
  have hlow : lowestDefault h = some r := by
    unfold lowestDefault
    rw [hroutes]
    apply find?_first
    · intro x hx
      have := hrpre x hx
      simp only [List.all_append, List.all_cons, Bool.and_eq_false_iff]
      right; left; simp; omega
    · simp only [List.all_append, List.all_cons, Bool.and_eq_true, List.all_eq_true, decide_eq_true_eq]
      refine ⟨fun x hx => by have := hrpre x hx; omega, Nat.le_refl _, fun x hx => hrpost x hx⟩
  have hnone : ∀ t, o.target = some t → attachedIfaces h t = [] := by
    intro t htg
    unfold attachedIfaces
    rw [List.filter_eq_nil_iff]
    intro j hj
    have : addrsOn t j = [] := by
      unfold addrsOn; rw [List.filter_eq_nil_iff]; intro b hb; simp [hnot t htg j hj b hb]
    simp [this]
  have him : i ∈ h.ifaces := by rw [hsplit]; simp
  have hei : expectedIface h o = some i := by
    unfold expectedIface
    have hfind : h.ifaces.find? (fun i => i.index == r.link) = some i := by
      rw [hsplit]; exact find?_first _ _ _ _ hpre hidx
    cases htg : o.target with
    | none => simp [hif, hlow, hfind]
    | some t => simp [hif, hnone t htg, hlow, hfind]
  have hea : expectedAddr o i = some a := by
    unfold expectedAddr
    cases htg : o.target with
    | none => simp [haddrs]
    | some t =>
      have : addrsOn t i = [] := by
        unfold addrsOn; rw [List.filter_eq_nil_iff]; intro b hb; simp [hnot t htg i him b hb]
      simp [this, haddrs]
  have hes : expectedSrc o i = some a.ip := by simp [expectedSrc, hsi, hea, hv4]
  have hem : expectedMAC o i = i.mac := by simp [expectedMAC, hsm]
  simpa [holds, hei, hes, hem] using hc

theorem getInterface_some_iface (h : Host) (i : Iface) (t : Option Target) :
    ∃ ip, getInterface h (some i) t = .ok (some i, ip) := by
  unfold getInterface
  cases t with
  | none => exact ⟨_, rfl⟩
  | some t =>
    simp only
    cases localSubnetInterfaceIP i t with
    | none => exact ⟨_, rfl⟩
    | some ip => exact ⟨_, rfl⟩

theorem to4_length {s r : IP} (h : to4 s = some r) : r.length = 4 := by
  unfold to4 at h
  split at h
  · cases h; assumption
  · split at h
    · cases h
      rename_i h16
      simp [h16.1]
    · cases h

/-- (iii) the three flags override the automatic choice (no hypothesis on the snapshot) -/
theorem clause_iii (h : Host) (o : Opts) (r : Range) (hr : scanRange h o = .ok r) :
    (∀ n, o.iface = some n → r.iface.name = n ∧ h.ifaces.find? (fun i => i.name == n) = some r.iface) ∧
    (∀ s, o.srcip = some s → asIPv4 s = some r.srcIP) ∧
    (∀ m, o.srcmac = some m → r.srcMAC = some m) := by
  rw [scanRange_unfold] at hr
  refine ⟨?_, ?_, ?_⟩
  · intro n hn
    unfold modelIface at hr
    simp only [hn] at hr
    cases hb : interfaceByName h n with
    | none => simp [hb] at hr
    | some i =>
      obtain ⟨ip, hip⟩ := getInterface_some_iface h i o.target
      simp only [hb, hip] at hr
      split at hr
      · cases hr
      · cases hr
        have := List.find?_some hb
        exact ⟨by simpa using this, hb⟩
  · intro s hs
    split at hr
    · cases hr
    · cases hr
    · simp only [hs, Option.bind_some] at hr
      split at hr
      · cases hr
      · rename_i s4 h4
        cases hr
        exact h4
  · intro m hm
    split at hr
    · cases hr
    · cases hr
    · split at hr
      · cases hr
      · cases hr
        simp [hm]

/-- (iv) no hardware address ⇔ raw-IP (VPN) framing; the ARP scan refuses such a range -/
theorem clause_iv (h : Host) (o : Opts) (s : IPScan) (hs : ipScanOptions h o = .ok s) :
    (s.vpn = true ↔ s.range.srcMAC = none) ∧
    s.range.srcMAC = (match o.srcmac with | some m => some m | none => s.range.iface.mac) ∧
    (s.vpn = true → arpOptions h o = .error .srcmac) ∧
    (s.vpn = false → arpOptions h o = .ok s.range) := by
  rw [ipScanOptions_unfold] at hs
  cases hr : scanRange h o with
  | error e => simp [hr] at hs
  | ok r =>
    simp only [hr, Except.ok.injEq] at hs
    subst hs
    have hmac : r.srcMAC = (match o.srcmac with | some m => some m | none => r.iface.mac) := by
      rw [scanRange_unfold] at hr
      split at hr
      · cases hr
      · cases hr
      · split at hr
        · cases hr
        · cases hr; rfl
    refine ⟨by simp, hmac, ?_, ?_⟩
    · intro hv
      simp only [arpOptions, hr]
      simp only at hv
      simp [hv]
    · intro hv
      simp only [arpOptions, hr]
      simp only at hv
      simp [hv]

/-- (v) an accepted range has a 4-byte source that is the user's IPv4 address or an IPv4 address of the chosen
    interface of this host, and that interface's (or the user's) MAC -/
theorem clause_v (h : Host) (o : Opts) (hw : hostWF h = true) (ho : optsWF o = true)
    (hres : routesResolve h = true) (r : Range) (hr : scanRange h o = .ok r) :
    r.srcIP.length = 4 ∧ r.iface ∈ h.ifaces ∧
    ((∃ s, o.srcip = some s ∧ asIPv4 s = some r.srcIP) ∨
     (o.srcip = none ∧ ∃ a ∈ r.iface.addrs, a.v6 = false ∧ a.ip = r.srcIP)) := by
  obtain ⟨h1, h2⟩ := scanRange_spec h o hw ho hres
  cases he : expectedIface h o with
  | none =>
    obtain ⟨e, hee⟩ := h1 he
    rw [hee] at hr; cases hr
  | some i =>
    obtain ⟨him, hs⟩ := h2 i he
    rw [hs] at hr
    cases hsrc : expectedSrc o i with
    | none => simp [hsrc] at hr
    | some s =>
      simp only [hsrc, Except.ok.injEq] at hr
      subst hr
      simp only
      have hw' : ∀ i ∈ h.ifaces, ∀ a ∈ i.addrs, addrWF a = true := by
        simpa [hostWF, List.all_eq_true] using hw
      unfold expectedSrc at hsrc
      cases hsi : o.srcip with
      | some x =>
        simp only [hsi] at hsrc
        exact ⟨to4_length hsrc, him, Or.inl ⟨x, rfl, hsrc⟩⟩
      | none =>
        simp only [hsi] at hsrc
        cases hea : expectedAddr o i with
        | none => simp [hea] at hsrc
        | some a =>
          simp only [hea, Option.bind_some] at hsrc
          cases hv : a.v6 with
          | true => simp [hv] at hsrc
          | false =>
            simp only [hv, Bool.false_eq_true, if_false, Option.some.injEq] at hsrc
            have hmem := autoAddr_mem o.target i a hea
            have h4 : a.ip.length = 4 := by
              have := hw' i him a hmem
              simpa [addrWF, hv] using this
            exact ⟨by rw [← hsrc]; exact h4, him, Or.inr ⟨rfl, a, hmem, hv, hsrc⟩⟩

/-- if the Spec sees no usable interface or no IPv4 source, the scan fails -/
theorem clause_v_fails (h : Host) (o : Opts) (hw : hostWF h = true) (ho : optsWF o = true)
    (hres : routesResolve h = true)
    (hno : expectedIface h o = none ∨ ∃ i, expectedIface h o = some i ∧ expectedSrc o i = none) :
    ∃ e, scanRange h o = .error e := by
  obtain ⟨h1, h2⟩ := scanRange_spec h o hw ho hres
  rcases hno with hn | ⟨i, hi, hs⟩
  · exact h1 hn
  · obtain ⟨_, hsr⟩ := h2 i hi
    rw [hsr, hs]; exact ⟨_, rfl⟩

/-! ### the pkg/ip functions on their own -/

theorem local_spec (h : Host) (t : Target) (hw : hostWF h = true) (ht : t.ip.length = 4) :
    holdsLocal h t ((localSubnetInterface t h.ifaces).map (fun p => (p.1.name, p.2))) = true := by
  have hw' : ∀ i ∈ h.ifaces, ∀ a ∈ i.addrs, addrWF a = true := by
    simpa [hostWF, List.all_eq_true] using hw
  unfold holdsLocal attachedIfaces
  rw [localSubnetInterface_spec t ht h.ifaces hw']
  cases hf : List.filter (fun i => (addrsOn t i).isEmpty == false) h.ifaces with
  | nil => simp
  | cons i rest =>
    simp only
    cases (addrsOn t i).head? <;> simp

theorem default_spec (h : Host) (hres : routesResolve h = true) :
    holdsDefault h (match defaultInterface h with
      | .error _ => none
      | .ok (none, _) => some none
      | .ok (some i, ip) => some (some (i.name, ip))) = true := by
  unfold holdsDefault
  rw [defaultInterface_spec h hres]
  cases hl : lowestDefault h with
  | none => simp
  | some r =>
    have hr : r ∈ defaultRoutes h := by
      rw [lowestDefault_eq] at hl; exact find?_mem' hl
    have hany : (h.ifaces.any (fun i => i.index == r.link)) = true := by
      have : ∀ r ∈ defaultRoutes h, (h.ifaces.any (fun i => i.index == r.link)) = true := by
        simpa [routesResolve, List.all_eq_true] using hres
      exact this r hr
    obtain ⟨i, hib⟩ := interfaceByIndex_some_of_any h r.link hany
    have hib' : h.ifaces.find? (fun i => i.index == r.link) = some i := hib
    simp [hib, hib', interfaceIP_eq]

theorem gateway_spec (h : Host) (i : Iface) : holdsGateway h i (defaultGatewayIP h i) = true := by
  unfold holdsGateway
  rw [defaultGatewayIP_spec]
  simp only [firstMin]
  cases List.find? (fun r => ((defaultRoutes h).filter (fun r => r.link == i.index)).all (fun r' => decide (r.prio ≤ r'.prio)))
      ((defaultRoutes h).filter (fun r => r.link == i.index)) <;> simp

end SxVerif.Proofs.Iface
