/-
Lemmas for C03, part 4: the three processors, exactly — for every prior state, the record a processor emits
for a frame is a function of the frame's flat header chain (`emitted_*`).  One direction is C06
(`Proofs/Frame.lean`: a record implies the chain), the other is the forward decoding of `Reply2`.
-/
import SxVerif.Proofs.Reply2

namespace SxVerif.Proofs.Reply
open SxVerif.Frame SxVerif.Proc SxVerif.Spec.Frame SxVerif.Spec.Reply SxVerif.Proofs.Frame

/-- what reaches the result channel for one frame -/
def emitted (scan : Scan) (st : State) (f : Bytes) : Option Record :=
  match (process scan st f).2 with
  | .record r => some r
  | _ => none

theorem emitted_eq_some {scan : Scan} {st : State} {f : Bytes} {r : Record} :
    emitted scan st f = some r ↔ (process scan st f).2 = .record r := by
  unfold emitted
  cases (process scan st f).2 <;> simp

/-! ### the IPv4 options the decoder accepted are well-formed in the spec's sense -/

theorem wf_of_decodeIPv4 {vpn : Bool} {f : Bytes} {o : Nat} {st1 st2 : State} {n : LT} {p : Bytes}
    (ho : ipOffset vpn f = some o) (h : decodeIPv4 st1 (f.drop o) = .ok st2 n p) : ipOptsWF vpn f = true := by
  obtain ⟨-, b0, -, -, -, -, -, hb0, -, -, -, -, -, -, -, -, -, hopts, -, -, -⟩ := decodeIPv4_ok h
  rw [u8_drop, Nat.add_zero] at hb0
  rw [window_drop, ipOptionsOK_eq_strict] at hopts
  unfold ipOptsWF
  simp only [ho, hb0]
  exact hopts

theorem wf_of_layers {reg : List LT} {vpn : Bool} {proto : LT} {st st' : State} {f : Bytes} {dec : List LT}
    (h : decodeLayers reg (firstLayer vpn) st f = .ok st' dec) (hvalid : validChain proto dec = true) :
    ipOptsWF vpn f = true := by
  rcases decodeLayers_chain h with rfl | hc
  · simp [validChain] at hvalid
  rcases validChain_cases hvalid with rfl | rfl
  · obtain ⟨hf, st1, p1, st2, p2, n, p3, h1, h2, -⟩ := chain3 hc
    cases vpn with
    | true => cases hf
    | false =>
      obtain ⟨ho, rfl⟩ := eth_ipv4 h1
      exact wf_of_decodeIPv4 ho h2
  · obtain ⟨hf, st2, p2, n, p3, h2, -⟩ := chain2 hc
    cases vpn with
    | false => cases hf
    | true =>
      have ho : ipOffset true f = some 0 := rfl
      rw [← List.drop_zero (l := f)] at h2
      exact wf_of_decodeIPv4 ho h2

/-! ### forward: chain ⇒ decoded layers -/

theorem strict_of_wf {vpn : Bool} {f : Bytes} {o b0 : Nat} (hw : ipOptsWF vpn f = true) (ho : ipOffset vpn f = some o)
    (hb0 : u8 f o = some b0) :
    ipOptionsStrict (((f.drop (o + 20)).take (b0 % 16 * 4 - 20)).length + 1)
      ((f.drop (o + 20)).take (b0 % 16 * 4 - 20)) = true := by
  unfold ipOptsWF at hw
  simpa only [ho, hb0] using hw

/-- link layer + IPv4 layer of the loop, for either link mode: the loop continues with the transport decoder
    on the datagram's payload -/
theorem link_ip_forward (reg : List LT) (hE : reg.contains .ethernet = true) (hI : reg.contains .ipv4 = true)
    {vpn : Bool} (st : State) {f : Bytes} {o : Nat} {ip : IPv4View}
    (ho : ipOffset vpn f = some o) (hip : ipv4At f o = some ip) (hw : ipOptsWF vpn f = true)
    {next : LT} (hnext : ipNext ip.proto = next) (hreg : reg.contains next = true) (hseg : 0 < ip.dgEnd - (o + ip.hlen)) :
    ∃ ttl fuel acc, u8 f (o + 8) = some ttl ∧ o + ip.hlen ≤ ip.dgEnd ∧ ip.dgEnd ≤ f.length ∧
      (acc = [.ethernet, .ipv4] ∨ acc = [.ipv4]) ∧
      decodeLayers reg (firstLayer vpn) st f =
        decodeLoop reg (fuel + 1) next { st with ipVersion := 4, ipSrc := (f.drop (o + 12)).take 4, ipTTL := ttl }
          ((f.drop (o + ip.hlen)).take (ip.dgEnd - (o + ip.hlen))) acc := by
  obtain ⟨h20, b0, -, -, -, -, hb0, -⟩ := ipv4At_some hip
  obtain ⟨ttl, httl, hhl, hle1, hle2, hdec⟩ := ipv4_forward st hip hb0 (strict_of_wf hw ho hb0)
  have hplen : ((f.drop (o + ip.hlen)).take (ip.dgEnd - (o + ip.hlen))).isEmpty = false :=
    isEmpty_false_of_length (by simp only [List.length_take, List.length_drop]; omega)
  rcases ipOffset_some ho with ⟨rfl, rfl⟩ | ⟨rfl, rfl, h14, het⟩
  · refine ⟨ttl, f.length - 1, [.ipv4], httl, hle1, hle2, .inr rfl, ?_⟩
    unfold decodeLayers
    simp only [firstLayer, if_true, hI, Bool.not_true, Bool.false_eq_true, if_false]
    have hf : f.length + 1 = (f.length - 1 + 1) + 1 := by omega
    rw [hf]
    rw [List.drop_zero] at hdec
    have hd : decodeLayer .ipv4 st f = _ := hdec
    rw [hnext] at hd
    rw [decodeLoop_cont [] hd hplen hreg]
    rfl
  · refine ⟨ttl, f.length - 2, [.ethernet, .ipv4], httl, hle1, hle2, .inl rfl, ?_⟩
    unfold decodeLayers
    simp only [firstLayer, Bool.false_eq_true, if_false, hE, Bool.not_true]
    have hf : f.length + 1 = ((f.length - 2 + 1) + 1) + 1 := by omega
    rw [hf]
    have he : decodeLayer .ethernet st f = .ok st .ipv4 (f.drop 14) :=
      decodeEthernet_intro st h14 het (by decide)
    have hne : (f.drop 14).isEmpty = false := isEmpty_false_of_length (by simp only [List.length_drop]; omega)
    rw [decodeLoop_cont [] he hne hI]
    have hd : decodeLayer .ipv4 st (f.drop 14) = _ := hdec
    rw [hnext] at hd
    rw [decodeLoop_cont _ hd hplen hreg]
    rfl

theorem tcp_forward (vpn : Bool) (st : State) {f : Bytes} {v : TcpView} (hc : tcpChain vpn f = some v)
    (hw : ipOptsWF vpn f = true) :
    ∃ st' dec, decodeLayers [.ethernet, .ipv4, .tcp] (firstLayer vpn) st f = .ok st' dec ∧
      validChain .tcp dec = true ∧ st'.ipVersion = 4 ∧ st'.ipSrc = v.src ∧ st'.tcpSrcPort = v.sport ∧
      st'.tcpFlags = v.flags := by
  obtain ⟨o, ip, b12, b13, sport, ho, hip, hproto, hseg, hb12, hb13, hsp, hdoff, hdoff', hopts, rfl⟩ := tcpChain_some hc
  have hnext : ipNext ip.proto = .tcp := by rw [hproto]; rfl
  obtain ⟨ttl, fuel, acc, -, hle1, hle2, hacc, hdl⟩ :=
    link_ip_forward [.ethernet, .ipv4, .tcp] (by decide) (by decide) st ho hip hw hnext (by decide) (by omega)
  have hplen : ((f.drop (o + ip.hlen)).take (ip.dgEnd - (o + ip.hlen))).length = ip.dgEnd - (o + ip.hlen) := by
    simp only [List.length_take, List.length_drop]; omega
  have htcp := decodeTCP_intro { st with ipVersion := 4, ipSrc := (f.drop (o + 12)).take 4, ipTTL := ttl }
    (d := (f.drop (o + ip.hlen)).take (ip.dgEnd - (o + ip.hlen))) (sp := sport) (b12 := b12) (b13 := b13)
    (by omega) (by rw [window_u16 _ (by omega), Nat.add_zero]; exact hsp)
    (by rw [window_u8 _ (by omega)]; exact hb12) (by rw [window_u8 _ (by omega)]; exact hb13) hdoff (by omega)
    (by rw [List.take_take, Nat.min_eq_left hdoff', window_drop, tcpOptionsOK_eq_spec]; exact hopts)
  have hd : decodeLayer .tcp _ _ = _ := htcp
  rw [decodeLoop_stop acc hd (.inr (by decide))] at hdl
  refine ⟨_, _, hdl, ?_, rfl, rfl, rfl, rfl⟩
  rcases hacc with rfl | rfl <;> decide

theorem icmp_forward (vpn : Bool) (st : State) {f : Bytes} {v : IcmpView} (hc : icmpChain vpn f = some v)
    (hw : ipOptsWF vpn f = true) :
    ∃ st' dec, decodeLayers [.ethernet, .ipv4, .icmpv4] (firstLayer vpn) st f = .ok st' dec ∧
      validChain .icmpv4 dec = true ∧ st'.ipVersion = 4 ∧ st'.ipSrc = v.src ∧ st'.ipTTL = v.ttl ∧
      st'.icmpType = v.typ ∧ st'.icmpCode = v.code := by
  obtain ⟨o, ip, ttl, typ, code, ho, hip, hproto, hseg, httl, htyp, hcode, rfl⟩ := icmpChain_some hc
  have hnext : ipNext ip.proto = .icmpv4 := by rw [hproto]; rfl
  obtain ⟨ttl', fuel, acc, httl', hle1, hle2, hacc, hdl⟩ :=
    link_ip_forward [.ethernet, .ipv4, .icmpv4] (by decide) (by decide) st ho hip hw hnext (by decide) (by omega)
  rw [httl] at httl'
  injection httl' with e
  subst e
  have hplen : ((f.drop (o + ip.hlen)).take (ip.dgEnd - (o + ip.hlen))).length = ip.dgEnd - (o + ip.hlen) := by
    simp only [List.length_take, List.length_drop]; omega
  have hicmp := decodeICMPv4_intro { st with ipVersion := 4, ipSrc := (f.drop (o + 12)).take 4, ipTTL := ttl }
    (d := (f.drop (o + ip.hlen)).take (ip.dgEnd - (o + ip.hlen))) (ty := typ) (co := code)
    (by omega) (by rw [window_u8 _ (by omega), Nat.add_zero]; exact htyp) (by rw [window_u8 _ (by omega)]; exact hcode)
  have hd : decodeLayer .icmpv4 _ _ = _ := hicmp
  rw [decodeLoop_stop acc hd (.inr (by decide))] at hdl
  refine ⟨_, _, hdl, ?_, rfl, rfl, rfl, rfl, rfl⟩
  rcases hacc with rfl | rfl <;> decide

theorem arp_forward (st : State) {f : Bytes} {v : ArpView} (hc : arpChain f = some v) :
    ∃ st', decodeLayers [.ethernet, .arp] .ethernet st f = .ok st' [.ethernet, .arp] ∧
      st'.arpAddrType = 1 ∧ st'.arpProtocol = 0x0800 ∧ st'.arpHwSize = 6 ∧ st'.arpProtSize = 4 ∧
      st'.arpSrcProt = v.ip ∧ st'.arpSrcHw = v.mac ∧ v.mac.length = 6 := by
  obtain ⟨h42, het, hht, hpt, hhw, hpr, rfl⟩ := arpChain_some hc
  have he : decodeLayer .ethernet st f = .ok st .arp (f.drop 14) := decodeEthernet_intro st (by omega) het (by decide)
  have hne : (f.drop 14).isEmpty = false := isEmpty_false_of_length (by simp only [List.length_drop]; omega)
  have harp := decodeARP_intro st (d := f.drop 14) (ht := 1) (pt := 0x0800)
    (by simp only [List.length_drop]; omega) (by rw [u16_drop]; exact hht) (by rw [u16_drop]; exact hpt)
    (by rw [u8_drop]; exact hhw) (by rw [u8_drop]; exact hpr)
  have hd : decodeLayer .arp st (f.drop 14) = _ := harp
  have hdl : decodeLayers [.ethernet, .arp] .ethernet st f =
      .ok { st with arpAddrType := 1, arpProtocol := 0x0800, arpHwSize := 6, arpProtSize := 4,
                    arpSrcHw := ((f.drop 14).take 14).drop 8, arpSrcProt := ((f.drop 14).take 18).drop 14 }
        [.ethernet, .arp] := by
    unfold decodeLayers
    have hf : f.length + 1 = ((f.length - 1) + 1) + 1 := by omega
    rw [hf]
    simp only [show ([LT.ethernet, LT.arp].contains LT.ethernet) = true from by decide, Bool.not_true,
      Bool.false_eq_true, if_false]
    rw [decodeLoop_cont [] he hne (by decide), decodeLoop_stop _ hd (.inr (by decide))]
    rfl
  refine ⟨_, hdl, rfl, rfl, rfl, rfl, ?_, ?_, ?_⟩
  · simp only [window_drop]
  · simp only [window_drop]
  · simp only [List.length_take, List.length_drop]; omega

/-! ### the processors, exactly -/

def tcpPass (flt : TcpFilter) (flags : Nat) : Bool :=
  match flt with
  | .all => true
  | .synack => bit flags 0x02 && bit flags 0x10

def tcpRecord (cfg : TcpCfg) (v : TcpView) : Record :=
  .tcp cfg.scanType v.src v.sport (match cfg.flagsFn with | .allFlags => allFlags v.flags | .empty => "")

theorem emitted_tcp (cfg : TcpCfg) (st : State) (f : Bytes) :
    emitted (.tcp cfg) st f =
      match tcpChain cfg.vpn f with
      | none => none
      | some v => if ipOptsWF cfg.vpn f && tcpPass cfg.filter v.flags then some (tcpRecord cfg v) else none := by
  cases hc : tcpChain cfg.vpn f with
  | none =>
    simp only
    cases he : emitted (.tcp cfg) st f with
    | none => rfl
    | some r =>
      obtain ⟨v, hv, -⟩ := (processTCP_faithful cfg st f).2 r (emitted_eq_some.mp he)
      rw [hc] at hv
      cases hv
  | some v =>
    simp only
    by_cases hw : ipOptsWF cfg.vpn f = true
    · obtain ⟨st', dec, hdl, hvalid, hver, e1, e2, e3⟩ := tcp_forward cfg.vpn st hc hw
      unfold emitted
      simp only [process, processTCP, hdl, hvalid, hver, hw, Bool.true_and, Bool.not_true, bne_self_eq_false,
        Bool.or_self, Bool.false_eq_true, if_false]
      obtain ⟨scanType, filter, flagsFn, vpn⟩ := cfg
      simp only [e1, e2, e3]
      cases filter with
      | all => cases flagsFn <;> simp [tcpPass, tcpRecord]
      | synack =>
        by_cases hp : (bit v.flags 0x02 && bit v.flags 0x10) = true
        · cases flagsFn <;> simp [tcpPass, tcpRecord, hp]
        · cases flagsFn <;> simp [tcpPass, hp]
    · have hwf : ipOptsWF cfg.vpn f = false := by simpa using hw
      simp only [hwf, Bool.false_and, Bool.false_eq_true, if_false]
      cases he : emitted (.tcp cfg) st f with
      | none => rfl
      | some r =>
        exfalso
        have hp := emitted_eq_some.mp he
        simp only [process, processTCP] at hp
        cases hdl : decodeLayers [.ethernet, .ipv4, .tcp] (firstLayer cfg.vpn) st f with
        | err st' => simp [hdl] at hp
        | ok st' dec =>
          simp only [hdl] at hp
          split at hp
          · simp at hp
          · rename_i hcond
            simp only [Bool.or_eq_true, Bool.not_eq_true', not_or, Bool.not_eq_false] at hcond
            exact hw (wf_of_layers hdl hcond.1)

def icmpRecord (name : String) (v : IcmpView) : Record := .icmp name v.src v.ttl v.typ v.code

theorem emitted_icmp (name : String) (vpn : Bool) (st : State) (f : Bytes) :
    emitted (.icmp name vpn) st f =
      match icmpChain vpn f with
      | none => none
      | some v => if ipOptsWF vpn f then some (icmpRecord name v) else none := by
  cases hc : icmpChain vpn f with
  | none =>
    simp only
    cases he : emitted (.icmp name vpn) st f with
    | none => rfl
    | some r =>
      obtain ⟨v, hv, -⟩ := (processICMP_faithful name vpn st f).2 r (emitted_eq_some.mp he)
      rw [hc] at hv
      cases hv
  | some v =>
    simp only
    by_cases hw : ipOptsWF vpn f = true
    · obtain ⟨st', dec, hdl, hvalid, hver, e1, e2, e3, e4⟩ := icmp_forward vpn st hc hw
      unfold emitted
      simp only [process, processICMP, hdl, hvalid, hver, hw, Bool.not_true, bne_self_eq_false,
        Bool.or_self, Bool.false_eq_true, if_false, if_true, icmpRecord, e1, e2, e3, e4]
    · have hwf : ipOptsWF vpn f = false := by simpa using hw
      simp only [hwf, Bool.false_eq_true, if_false]
      cases he : emitted (.icmp name vpn) st f with
      | none => rfl
      | some r =>
        exfalso
        have hp := emitted_eq_some.mp he
        simp only [process, processICMP] at hp
        cases hdl : decodeLayers [.ethernet, .ipv4, .icmpv4] (firstLayer vpn) st f with
        | err st' => simp [hdl] at hp
        | ok st' dec =>
          simp only [hdl] at hp
          split at hp
          · simp at hp
          · rename_i hcond
            simp only [Bool.or_eq_true, Bool.not_eq_true', not_or, Bool.not_eq_false] at hcond
            exact hw (wf_of_layers hdl hcond.1)

theorem emitted_arp (st : State) (f : Bytes) :
    emitted .arp st f = (arpChain f).map (fun v => Record.arp v.ip v.mac) := by
  cases hc : arpChain f with
  | none =>
    simp only [Option.map_none]
    cases he : emitted .arp st f with
    | none => rfl
    | some r =>
      obtain ⟨v, hv, -⟩ := (processARP_faithful st f).2 r (emitted_eq_some.mp he)
      rw [hc] at hv
      cases hv
  | some v =>
    obtain ⟨st', hdl, h1, h2, h3, h4, e1, e2, hl⟩ := arp_forward st hc
    unfold emitted
    have hl' : ¬ v.mac.length < 3 := by rw [hl]; omega
    simp only [process, processARP, hdl, h1, h2, h3, h4, bne_self_eq_false, Bool.or_self, Bool.false_eq_true,
      if_false, e1, e2, hl', Option.map_some]

end SxVerif.Proofs.Reply
