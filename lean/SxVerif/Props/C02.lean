/-
C02 — Confinement: nothing outside the target set or inside exclusions is probed; non-IPv4 targets are
refused.  Property theorems only (lemmas: `Proofs/Net.lean`, `Proofs/Gen.lean`).
-/
import SxVerif.Generated.CyclicGroups
import SxVerif.Generated.Constants
import SxVerif.Generated.Problems
import SxVerif.Spec.Net
import SxVerif.Spec.Gen
import SxVerif.Proofs.Net
import SxVerif.Proofs.GenCover
import SxVerif.Props.C04

namespace SxVerif.C02
open SxVerif.Gen SxVerif.NetParse SxVerif.Generated

theorem translator_clean : translatorProblems = [] := by decide

/-! ### target strings -/

/-- every IPv6 textual form (it contains a colon) is refused -/
theorem C02_ipv6_refused (s : List Char) (h : ':' ∈ s) : parseIPNet s = none :=
  Proofs.Net.colon_refused s h

/-- exactness: an accepted target is an IPv4 network (4-byte address and mask, prefix ≤ 32, aligned
    base, whole block inside the IPv4 space) and it is exactly the network the string denotes -/
theorem C02_parse_exact (s : List Char) (net : Net) (h : parseIPNet s = some net) :
    Spec.Net.denote s = some (net.base, net.ones) ∧ Spec.Gen.NetOK net :=
  Proofs.Net.parse_exact s net h

/-- round trip: every canonical rendering of every IPv4 host / network is accepted with its value -/
theorem C02_parse_roundtrip_host (v : Nat) (hv : v < 2 ^ 32) :
    parseIPNet (Spec.Net.renderQuad v) = some { bytes := 4, base := v, ones := 32, bits := 32 } :=
  Proofs.Net.roundtrip_host v hv

theorem C02_parse_roundtrip_cidr (v ones : Nat) (hv : v < 2 ^ 32) (ho : ones ≤ 32) :
    parseIPNet (Spec.Net.renderCIDR v ones)
      = some { bytes := 4, base := v / 2 ^ (32 - ones) * 2 ^ (32 - ones), ones := ones, bits := 32 } :=
  Proofs.Net.roundtrip_cidr v ones hv ho

/-- the Spec verdict used by the correspondence harness holds of the model on every string -/
theorem C02_parse_spec (s : List Char) : Spec.Net.holds s (parseIPNet s) = true :=
  Proofs.Net.holds_model s

/-- never a crash: an accepted target never drives the address generator into its panic branch,
    and never makes it fail -/
theorem C02_no_panic (s : List Char) (net : Net) (h : parseIPNet s = some net) (d : Nat × Nat) :
    ∃ l, ipGen cyclicGroups (some net) d = .ok l ∧ ∀ it ∈ l, ∃ a, it = .ip (.v4 a false) ∧ a < 2 ^ 32 :=
  Proofs.Gen.ipGen_ok cyclicGroups C04.table_ok C04.table_sorted C04.Pmax_value net (C02_parse_exact s net h).2 d

/-! ### confinement of the generated requests (any target file content, valid or not) -/

/-- source addresses of a specification: the subnet's addresses or the addresses written in the file -/
def sourceAddrs (s : Spec) (content : List Line) : List Addr := Spec.Gen.denoteAddrs s content

/-- (address, port) commands, packet engines: every probe of every engine run goes to a source
    address that is not excluded, on a port inside the requested ranges (or the line's own port) -/
theorem C02_confined_port_scan (s : Spec) (content : List Line)
    (hsrc : match s.src with
      | .subnet net => ∃ n, net = some n ∧ Spec.Gen.NetOK n
      | .file openFile => ∀ k, openFile k = some content ∨ openFile k = none)
    (dp di : Nat → Draws) :
    ∀ run ∈ portScanRuns cyclicGroups s chunkSize emptyRunsOnce dp di, ∀ rs, run = .ok rs →
      ∀ ap ∈ Spec.Gen.probes rs,
        ap.1 ∈ sourceAddrs s content ∧ Spec.Gen.isExcluded s.excl ap.1 = false ∧
        (ap.2 ∈ Spec.Gen.portsOf s.ports ∨ (s.ports = [] ∧ (ap.1, ap.2) ∈ content.filterMap Spec.Gen.linePair)) :=
  Proofs.Gen.confined_port_scan cyclicGroups C04.table_ok C04.table_sorted C04.Pmax_value s content hsrc
    chunkSize emptyRunsOnce dp di

/-- application scans -/
theorem C02_confined_generic (s : Spec) (content : List Line)
    (hsrc : match s.src with
      | .subnet net => ∃ n, net = some n ∧ Spec.Gen.NetOK n
      | .file openFile => ∀ k, openFile k = some content ∨ openFile k = none)
    (dp di : Draws) (rs : List Req) (h : genericRun cyclicGroups s dp di = .ok rs) :
    ∀ ap ∈ Spec.Gen.probes rs,
      ap.1 ∈ sourceAddrs s content ∧ Spec.Gen.isExcluded s.excl ap.1 = false ∧
      (ap.2 ∈ Spec.Gen.portsOf s.ports ∨ (s.ports = [] ∧ (ap.1, ap.2) ∈ content.filterMap Spec.Gen.linePair)) :=
  Proofs.Gen.confined_generic cyclicGroups C04.table_ok C04.table_sorted C04.Pmax_value s content hsrc dp di rs h

/-- port-less scans (arp, icmp) -/
theorem C02_confined_ip_scan (s : Spec) (content : List Line)
    (hsrc : match s.src with
      | .subnet net => ∃ n, net = some n ∧ Spec.Gen.NetOK n
      | .file openFile => openFile 0 = some content ∨ openFile 0 = none)
    (d : Nat × Nat) (rs : List Req) (h : ipRequests cyclicGroups s d = .ok rs) :
    ∀ ap ∈ Spec.Gen.probes rs, ap.1 ∈ sourceAddrs s content ∧ Spec.Gen.isExcluded s.excl ap.1 = false :=
  Proofs.Gen.confined_ip_scan cyclicGroups C04.table_ok C04.table_sorted C04.Pmax_value s content hsrc d rs h

/-- exclusion never removes an address it does not cover: the model's membership test (division
    by the block size) is exactly block membership -/
theorem C02_exclusion_exact (excl : List (Nat × Nat)) (a : Nat) (w : Bool) :
    excluded excl (.v4 a w) = Spec.Gen.isExcluded (some excl) (.v4 a w) :=
  Proofs.Gen.excluded_iff_covered excl a w

-- non-vacuity (tests, labelled as such)
example : parseIPNet "10.1.2.3/24".toList = some { bytes := 4, base := 167838208, ones := 24, bits := 32 } := by decide
example : parseIPNet "::ffff:1.2.3.4".toList = none := by decide
example : parseIPNet "2001:db8::/120".toList = none := by decide
example : parseIPNet "010.1.2.3".toList = none := by decide

end SxVerif.C02
