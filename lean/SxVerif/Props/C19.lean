/-
C19 — Live mode: complete passes repeat until cancelled.
Property theorems only (lemmas: `Proofs/Live1..5.lean`; model: `Model/Live.lean`).

The model is a small-step process: a schedule is a list of events — time passing, the cancel, the
delegate giving up a request after the cancel, the generator goroutine running to its next control
point (with the outcome of a racing `select`).  "For every schedule" therefore means: every timing,
every cancel point, every consumer speed, every outcome of every race.  `passes k` is what the
delegate's `k`-th call delivers (`none` = the call returns an error).
-/
import SxVerif.Generated.Live
import SxVerif.Generated.Problems
import SxVerif.Generated.Constants
import SxVerif.Proofs.Live5
import SxVerif.Props.C01

namespace SxVerif.C19
open SxVerif.Live SxVerif.Proofs.Live SxVerif.Generated

theorem translator_clean : translatorProblems = [] := by decide

/-- the live-generator translator (sxfacts/live.go) keeps its own problem list, so that a rewrite of
    this code breaks C19's obligations only -/
theorem live_translator_clean : liveTranslatorProblems = [] := by decide

/-- (T) "a pass has ended" means its last probe has been handed on: the arp wiring's delegate
    (`ipRequestGenerator`) makes an UNBUFFERED request channel, and the filter and the live generator size
    their outputs as `cap(requests)`, so the rescan timer is armed only after the consumer has taken the last
    request of the pass (with a buffered delegate the timer would start while up to that many requests of the
    pass are still waiting to be sent — measured by the `livechain` cases of component `live`) -/
theorem arp_stream_unbuffered : capIPRequestChan = 0 := by decide

/-- **T**: `liveRequestGenerator.GenerateRequests`, `readRequest`, `writeRequest` and the constructor,
    regenerated from pkg/scan/request.go, have exactly the shape `Model/Live.lean` transcribes: pass 0
    before the goroutine and its error returned; `out` closed by the goroutine's only `defer`; the loop
    `read → write → continue`, else `select { ctx.Done → return | time.After(rescanTimeout) → requests, _ = … }`;
    and the channel variable that may become nil is only received from and re-bound (no operation that
    panics on a nil or closed channel is applied to it). -/
theorem C19_shape : liveDesc = modelledDesc ∧ liveDesc.nilSafe = true := by decide

/-- **T**: the `arp --live` wiring regenerated from command/arp.go: address generator, then the
    exclusion filter (if any) *inside*, then the live generator *outermost*, installed exactly when
    `--live > 0` with that duration as the rescan interval (so `rescan > 0`); the packet source gets
    that generator; the logger is the unique logger under the same condition. -/
theorem C19_wiring :
    arpWiring = modelledWiring ∧
    arpWiring.rows.map (·.2) = [.ipRequest, .filter, .live] ∧
    arpWiring.rows.getLast? = some (.livePositive, .live) ∧
    arpWiring.uniqueLoggerCond = .livePositive := by decide

/-- the generator fails to start exactly when pass 0 does (the caller gets the error; nothing runs) -/
theorem C19_start (α : Type) (passes : Nat → Option (List α)) (t0 : Nat) :
    init passes t0 = none ↔ passes 0 = none :=
  init_none_iff passes t0

/-- **complete passes, whole and in order**: for every delegate, every rescan interval and every
    schedule in which nobody cancels, the output is `pass 0 ++ pass 1 ++ … ++ pass (k-1)` followed by
    the part of the current pass `k` handed over so far, and the rest of pass `k` is still held by the
    generator (in flight or in the channel): nothing lost, repeated or reordered; a pass begins only
    after the previous one has been delivered completely. -/
theorem C19_passes_whole_in_order (α : Type) (rescan : Nat) (passes : Nat → Option (List α)) (t0 : Nat)
    (s0 : State α) (h0 : init passes t0 = some s0) (evs : List Ev) (hnc : Ev.cancel ∉ evs) :
    let s := run rescan passes evs s0
    ∃ pre, pre ++ inflight s ++ s.cur.getD [] = passList passes (s.next - 1) ∧
      s.out = (List.range (s.next - 1)).flatMap (passList passes) ++ pre :=
  whole_in_order rescan passes t0 s0 h0 evs hnc

/-- **up to the cancel point and after it**: from every state `s0` (in particular the initial one), for every schedule split anywhere into `pre ++ post` (in
    particular at a cancel), the output after `post` is the output after `pre` plus `extra`, where
    `extra` followed by what the generator then holds is a sublist of what it held after `pre`
    followed by the passes requested meanwhile: whatever trickles out after a cancel is neither
    invented, repeated nor reordered, and what was delivered before stays a prefix. -/
theorem C19_nothing_invented (α : Type) (rescan : Nat) (passes : Nat → Option (List α))
    (s0 : State α) (pre post : List Ev) :
    let s1 := run rescan passes pre s0
    let s2 := run rescan passes (pre ++ post) s0
    s1.next ≤ s2.next ∧
    ∃ extra, s2.out = s1.out ++ extra ∧
      (extra ++ inflight s2 ++ s2.cur.getD []).Sublist
        (inflight s1 ++ s1.cur.getD [] ++ (List.range' s1.next (s2.next - s1.next)).flatMap (passList passes)) :=
  nothing_invented rescan passes s0 pre post

/-- **rescan interval**: for every schedule — cancelled or not — call `k+1` of the delegate happens at
    a clock value at least `rescan` after the one at which the generator stopped reading pass `k`
    (which is logged); logged times concern calls already made and never lie in the future. -/
theorem C19_rescan_interval (α : Type) (rescan : Nat) (passes : Nat → Option (List α)) (t0 : Nat)
    (s0 : State α) (h0 : init passes t0 = some s0) (evs : List Ev) :
    let s := run rescan passes evs s0
    (∀ k t', callOf s.log (k + 1) = some t' → (passes k).isSome →
      ∃ t, endOf s.log k = some t ∧ t + rescan ≤ t') ∧
    (∀ k t, (callOf s.log k = some t ∨ endOf s.log k = some t) → k < s.next ∧ t ≤ s.clock) :=
  gap rescan passes t0 s0 h0 evs

/-- **passes keep coming until the scan is cancelled**: if every pass starts, then in every infinite
    schedule without a cancel in which the goroutine is scheduled again and again and time keeps
    flowing, the number of passes requested exceeds every bound (and by `C19_passes_whole_in_order`
    all but the last of them have been delivered completely). -/
theorem C19_passes_unbounded (α : Type) (rescan : Nat) (passes : Nat → Option (List α))
    (hall : ∀ k, (passes k).isSome = true) (t0 : Nat) (s0 : State α) (h0 : init passes t0 = some s0)
    (sched : Nat → Ev) (hf : Fair sched) (n : Nat) :
    ∃ m, n ≤ (run rescan passes (prefixOf sched m) s0).next :=
  passes_unbounded rescan passes hall t0 s0 h0 sched hf n

/-- **cancellation ends the stream**, within a bounded number of the generator's own steps: with
    `rescan > 0`, from *any* state, once the context is cancelled the output is closed as soon as the
    goroutine has been scheduled `rankC` times — at most `2·max(rest of the current pass, next pass) + 3`
    — whatever the timing and the races; at most one more pass is requested (only if its timer had
    already fired). -/
theorem C19_cancel_closes (α : Type) (rescan : Nat) (hr : 0 < rescan) (passes : Nat → Option (List α))
    (s : State α) (post : List Ev)
    (hn : rankC passes (step rescan passes .cancel s) ≤ countProc post) :
    closed (run rescan passes post (step rescan passes .cancel s)) = true ∧
    rankC passes (step rescan passes .cancel s) ≤
      2 * max (s.cur.getD []).length (passList passes s.next).length + 3 ∧
    (run rescan passes post (step rescan passes .cancel s)).next ≤ s.next + 1 :=
  ⟨cancel_closes rescan passes hr s post hn,
   by have := rankC_le passes (step rescan passes .cancel s)
      cases hpc : s.pc <;> simp_all [step],
   by have := crun_next rescan passes hr post _ (cinv_cancel rescan passes s)
      have hb : budget (step rescan passes .cancel s) ≤ 1 := by unfold budget; split <;> omega
      have hn' : (step rescan passes .cancel s).next = s.next := by cases hpc : s.pc <;> simp [step, hpc]
      omega⟩

/-- … and a closed output stays closed: nothing more is sent, no further pass is requested -/
theorem C19_closed_is_final (α : Type) (rescan : Nat) (passes : Nat → Option (List α)) (s : State α)
    (h : s.pc = .done) (evs : List Ev) :
    (run rescan passes evs s).pc = .done ∧ (run rescan passes evs s).out = s.out ∧
      (run rescan passes evs s).next = s.next :=
  done_stable_run rescan passes evs s h

/-- **a pass that fails to start** (call `k` of the delegate returns an error): no crash and no busy
    loop — as long as nobody cancels, the goroutine makes no further call of the delegate, and once
    the failing call has been made it sits in `readRequest` on the nil channel with none of its steps
    enabled (by `C19_shape` that receive is the only operation ever applied to the nil channel); the
    passes before `k` have been delivered (`C19_passes_whole_in_order`).
    OBSERVATION, stated openly: live mode does not resume — no pass `k+1` is ever attempted; the
    generator parks until the cancel, which then closes the output in two steps. -/
theorem C19_failed_pass_parks (α : Type) (rescan : Nat) (passes : Nat → Option (List α)) (k : Nat)
    (hk : passes k = none) (t0 : Nat) (s0 : State α) (h0 : init passes t0 = some s0)
    (evs : List Ev) (hnc : Ev.cancel ∉ evs) :
    let s := run rescan passes evs s0
    s.next ≤ k + 1 ∧
    (s.next = k + 1 → s.pc = .read ∧ s.cur = none ∧ procEnabled s = false ∧
      (∀ c, step rescan passes (.proc c) s = s) ∧
      (0 < rescan → ∀ post, 2 ≤ countProc post →
        closed (run rescan passes post (step rescan passes .cancel s)) = true)) := by
  intro s
  obtain ⟨h1, h2⟩ := failed_pass_parks rescan passes k hk t0 s0 h0 evs hnc
  refine ⟨h1, fun hn => ?_⟩
  obtain ⟨a, b, c, d⟩ := h2 hn
  exact ⟨a, b, c, d, fun hr post hp => parked_cancel_closes rescan passes hr s a b post hp⟩

/-! ### the `arp --live` wiring: every pass is a C01 pass with fresh draws -/

/-- the delegate `newARPScanMethod` hands to the live generator (`C19_wiring`): pass `k` is one run of
    `ipRequestGenerator(ipGenerator)` through the exclusion filter, with its own pair of draws `d k` -/
def arpPasses (s : Gen.Spec) (d : Nat → Nat × Nat) (k : Nat) : Option (List Gen.Req) :=
  (Gen.ipRequests cyclicGroups s (d k)).toOption

/-- **C01 per pass**: for every valid ARP target specification, every exclusion list and every family
    of random draws (a fresh pair per pass), every pass of live mode starts — so the parked state of
    `C19_failed_pass_parks` cannot arise in this wiring — and requests each denoted, non-excluded
    address exactly once (`C01_ip_scan`); the live generator starts, and whenever nobody has cancelled
    its output is those complete passes in order followed by a prefix of the current one. -/
theorem C19_arp_live (s : Gen.Spec) (content : List Gen.Line) (h : Spec.Gen.AddrSpecOK s content)
    (d : Nat → Nat × Nat) (rescan t0 : Nat) :
    (∀ k, (arpPasses s d k).isSome = true ∧
      ((passList (arpPasses s d) k).map (·.dst)).Perm ((Spec.Gen.expectedAddrs s content).map some)) ∧
    ∃ s0, init (arpPasses s d) t0 = some s0 ∧
      ∀ evs, Ev.cancel ∉ evs →
        let st := run rescan (arpPasses s d) evs s0
        ∃ pre, pre ++ inflight st ++ st.cur.getD [] = passList (arpPasses s d) (st.next - 1) ∧
          st.out = (List.range (st.next - 1)).flatMap (passList (arpPasses s d)) ++ pre :=
  compose rescan (arpPasses s d)
    (fun rs => (rs.map (·.dst)).Perm ((Spec.Gen.expectedAddrs s content).map some))
    (fun k => by
      obtain ⟨rs, hrs, hp, _⟩ := C01.C01_ip_scan s content h (d k)
      exact ⟨rs, by simp [arpPasses, hrs, Except.toOption], hp⟩) t0

/-! ### non-vacuity (tests, labelled as such) -/

/-- three passes, the third fails to start -/
def demoPasses : Nat → Option (List Nat)
  | 0 => some [1, 2]
  | 1 => some [3]
  | 2 => none
  | _ => some [9]

/-- what a run of the demo from the initial state shows -/
def demoView (evs : List Ev) : Option (List Nat × Nat × Bool × Bool × List (Option Nat)) :=
  (init demoPasses 0).map (fun s0 =>
    ((run 5 demoPasses evs s0).out, (run 5 demoPasses evs s0).next, procEnabled (run 5 demoPasses evs s0),
      closed (run 5 demoPasses evs s0),
      [callOf (run 5 demoPasses evs s0).log 1, endOf (run 5 demoPasses evs s0).log 0,
       callOf (run 5 demoPasses evs s0).log 2, endOf (run 5 demoPasses evs s0).log 1]))

def demoSchedule : List Ev :=
  [.proc false, .proc false, .proc false, .proc false, .proc false, .tick 5, .proc false,
   .proc false, .proc false, .proc false, .tick 7, .proc false, .proc false, .tick 100, .proc false, .proc true]

/-- rescan 5: pass 0, wait, pass 1, wait, failing call 2, parked; nothing more however often the
    goroutine is scheduled and however much time passes; then cancel → closed -/
example : demoView demoSchedule = some ([1, 2, 3], 3, false, false, [some 5, some 0, some 12, some 5]) := by decide

example : demoView (demoSchedule ++ [.cancel, .proc false, .proc false])
    = some ([1, 2, 3], 3, false, true, [some 5, some 0, some 12, some 5]) := by decide

/-- a cancel inside pass 0 with a race lost: request 1 delivered, request 2 dropped, closed -/
example : demoView [.proc false, .proc false, .proc false, .cancel, .proc true, .proc true, .proc false]
    = some ([1], 1, false, true, [none, some 0, none, none]) := by decide

example : Fair (fun i => if i % 2 = 0 then .proc false else .tick 1) :=
  ⟨fun i => by split <;> simp, fun i => ⟨2 * i, by omega, false, by simp⟩,
   fun i => ⟨2 * i + 1, by omega, 1, by omega, by simp⟩⟩

end SxVerif.C19
