/-
C18 — Option parsing is total, and exact on everything it accepts.
Property theorems only (lemmas: `Proofs/Parse.lean`).
-/
import SxVerif.Generated.Flags
import SxVerif.Generated.Problems
import SxVerif.Spec.Parse
import SxVerif.Proofs.Parse
import SxVerif.Proofs.Net

namespace SxVerif.C18
open SxVerif.Gen SxVerif.Parse SxVerif.Generated
open SxVerif.Spec.Parse (denotePortRange denotePorts renderPorts renderRange denoteRate denoteCount
  renderPayload flagBits entryLines hasLongLine join)
open SxVerif.Spec.Net (renderNat)

theorem translator_clean : translatorProblems = [] := by decide

/-! ### never a crash -/

theorem C18_total_ports (s : List Char) : parsePortRanges s ≠ .panic ∧ parsePortRange s ≠ .panic :=
  Proofs.Parse.ports_no_panic s

theorem C18_total_rate (dur : List Char → Option Int) (s : List Char) : parseRateLimit dur s ≠ .panic :=
  Proofs.Parse.rate_no_panic dur s

theorem C18_total_files (data : List Char) : parsePortsFile data ≠ .panic ∧ parseExcludeFile data ≠ .panic :=
  Proofs.Parse.files_no_panic data

/-! ### port lists -/

/-- exactness: what is accepted is what is written -/
theorem C18_ports_exact (s : List Char) (v : List PortRange) (h : parsePortRanges s = .ok v) :
    denotePorts s = some v ∧ ∀ r ∈ v, r.lo ≤ 65535 ∧ r.hi ≤ 65535 :=
  Proofs.Parse.ports_exact s v h

/-- round trip: every non-empty list of ranges with bounds ≤ 65535 parses back from its rendering -/
theorem C18_ports_roundtrip (rs : List PortRange) (hne : rs ≠ [])
    (hb : ∀ r ∈ rs, r.lo ≤ 65535 ∧ r.hi ≤ 65535) : parsePortRanges (renderPorts rs) = .ok rs :=
  Proofs.Parse.ports_roundtrip rs hne hb

/-- the explicit form `a-b` parses back too (also when `a = b`) -/
theorem C18_range_roundtrip (lo hi : Nat) (h1 : lo ≤ 65535) (h2 : hi ≤ 65535) :
    parsePortRange (renderNat lo ++ '-' :: renderNat hi) = .ok ⟨lo, hi⟩ :=
  Proofs.Parse.range_roundtrip lo hi h1 h2

/-! ### rate limit -/

theorem C18_rate_exact (dur : List Char → Option Int) (s : List Char) (n : Nat) (w : Int)
    (h : parseRateLimit dur s = .ok (n, w)) : denoteRate dur s = some (n, w) ∧ 0 ≤ w ∧ n < 2 ^ 31 :=
  Proofs.Parse.rate_exact dur s n w h

/-- round trip for the forms the help text shows: `N`, `N/<unit>`, `N/<number><unit>` -/
theorem C18_rate_roundtrip (dur : List Char → Option Int) (n : Nat) (hn : n < 2 ^ 31) :
    parseRateLimit dur (renderNat n) = .ok (n, 1000000000) ∧
    (∀ (w : List Char) (d : Int), '/' ∉ w → dur (if Spec.Parse.startsNumber w then w else '1' :: w) = some d → 0 ≤ d →
      parseRateLimit dur (renderNat n ++ '/' :: w) = .ok (n, d)) :=
  Proofs.Parse.rate_roundtrip dur n hn

/-! ### payload -/

/-- every byte string is the payload of its `\xHH` rendering -/
theorem C18_payload_roundtrip (bytes : List Char) (hb : ∀ c ∈ bytes, c.toNat < 256) :
    parsePayload (renderPayload bytes) = some bytes :=
  Proofs.Parse.payload_roundtrip bytes hb

/-- text without escapes, quotes, newlines and non-ASCII bytes is its own payload -/
theorem C18_payload_plain (s : List Char)
    (h : ∀ c ∈ s, c.toNat < 128 ∧ c ≠ '\\' ∧ c ≠ '"' ∧ c ≠ '\n') : parsePayload s = some s :=
  Proofs.Parse.payload_plain s h

/-- a raw byte sequence that is not UTF-8 is refused, never silently rewritten -/
theorem C18_payload_invalid_refused (s : List Char) (h : validUTF8 s = false) : parsePayload s = none := by
  simp [parsePayload, h]

/-! ### flag lists (tables regenerated from command/config.go and command/tcp.go) -/

/-- the regenerated tables are what the documentation says: each TCP flag name drives the header
    field of the same name, each IP flag name its RFC 791 / RFC 3514 bit -/
theorem flag_tables :
    tcpFlagTable = [("syn", "SYN", "SYN"), ("ack", "ACK", "ACK"), ("fin", "FIN", "FIN"), ("rst", "RST", "RST"),
      ("psh", "PSH", "PSH"), ("urg", "URG", "URG"), ("ece", "ECE", "ECE"), ("cwr", "CWR", "CWR"), ("ns", "NS", "NS")] ∧
    ipFlagTable = [("df", 2), ("evil", 4), ("mf", 1)] := by decide

/-- IP flags: any comma-separated list of table names (any order, repeats; letter case is handled by
    the lower-casing that precedes) yields exactly the union of their bits, and nothing else is accepted -/
theorem C18_ipflags_roundtrip (names : List String) (hne : names ≠ []) (h : ∀ n ∈ names, n ∈ ipFlagTable.map (·.1)) :
    parseIPFlags ipFlagTable (join ',' (names.map String.toList)) = flagBits ipFlagTable names ∧
    (flagBits ipFlagTable names).isSome :=
  Proofs.Parse.ipflags_roundtrip names hne h

theorem C18_ipflags_exact (lowered : List Char) (v : Nat) (h : parseIPFlags ipFlagTable lowered = some v) :
    lowered = [] ∧ v = 0 ∨
    ∃ names : List String, (∀ n ∈ names, n ∈ ipFlagTable.map (·.1)) ∧
      Spec.Net.splitOn ',' lowered = names.map String.toList ∧ flagBits ipFlagTable names = some v :=
  Proofs.Parse.ipflags_exact lowered v h

/-- TCP flags: the accepted lists are exactly the lists of table names; the result names them in order -/
theorem C18_tcpflags_roundtrip (names : List String) (hne : names ≠ []) (h : ∀ n ∈ names, n ∈ tcpFlagTable.map (·.1)) :
    parseTCPFlags (tcpFlagTable.map (·.1)) (join ',' (names.map String.toList)) = some names :=
  Proofs.Parse.tcpflags_roundtrip names hne h

theorem C18_tcpflags_exact (lowered : List Char) (v : List String)
    (h : parseTCPFlags (tcpFlagTable.map (·.1)) lowered = some v) :
    (∀ n ∈ v, n ∈ tcpFlagTable.map (·.1)) ∧ (lowered = [] ∧ v = [] ∨ Spec.Net.splitOn ',' lowered = v.map String.toList) :=
  Proofs.Parse.tcpflags_exact lowered v h

/-! ### ports file and exclusion file -/

/-- a ports file is accepted iff no line is over-long and every entry line denotes a range; the
    result is those ranges in file order -/
theorem C18_ports_file (data : List Char) (v : List PortRange) :
    parsePortsFile data = .ok v ↔
      hasLongLine data = false ∧
      (entryLines data).mapM (fun l => match parsePortRange l with
        | .ok r => some r
        | _ => none) = some v :=
  Proofs.Parse.ports_file data v

/-- an exclusion file is accepted iff no line is over-long and every entry line is an IPv4 host or
    CIDR block; the result is those networks in file order (IPv6 lines are refused: C02) -/
theorem C18_exclude_file (data : List Char) (v : List (Nat × Nat)) :
    parseExcludeFile data = .ok v ↔
      hasLongLine data = false ∧
      (entryLines data).mapM (fun l => (NetParse.parseIPNet l).map (fun n => (n.base, n.ones))) = some v :=
  Proofs.Parse.exclude_file data v

/-- a ports or exclusion file whose reading fails part-way is refused as a whole, whatever was read
    before the fault: never a silently truncated port list or exclusion set (C02 depends on this) -/
theorem C18_read_fault (delivered : List Char) :
    (∀ v, withReadFault parsePortsFile delivered ≠ .ok v) ∧ (∀ v, withReadFault parseExcludeFile delivered ≠ .ok v) := by
  constructor <;> intro v <;> unfold withReadFault <;> split <;> simp

-- non-vacuity (tests, labelled as such)
example : parsePortRanges "22,80-443,65535".toList = .ok [⟨22, 22⟩, ⟨80, 443⟩, ⟨65535, 65535⟩] := by decide
example : parsePortRanges "1-2-3".toList = .err := by decide
example : parsePayload "a\\n".toList = some ['a', '\n'] := by decide
example : parsePayload "\\377".toList = some [Char.ofNat 255] := by decide
example : parseRateLimit (fun w => if w = ".5s".toList then some 500000000 else none) "10/.5s".toList
    = .ok (10, 500000000) := by decide

end SxVerif.C18
