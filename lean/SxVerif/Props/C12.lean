/-
C12 — Cancellation at any moment ends the scan cleanly and promptly (generic-engine side).
Property theorems only.  `cancelCmd` (Ctrl-C: command ctx and, with it, the derived ctx) is a step
enabled in EVERY state of `Model/Engine.lean`; all theorems below quantify over every reachable state
of every schedule, i.e. over every cancellation point: before the first probe, between any two
probes, with results or errors queued, with full buffers, during the exit delay.

The packet side (sender / receiver / generator workers / merge stages) is the transition system of C07
(`Model/Pipe.lean`, `Proofs/ConcPacket*.lean`); its two cancellation theorems are at the end of this file.
-/
import SxVerif.Proofs.EngineTerm
import SxVerif.Props.C07
import SxVerif.Generated.StagesEngine
import SxVerif.Generated.Constants
import SxVerif.Generated.Problems
import SxVerif.Generated.Wiring
import SxVerif.Generated.Limiter
import SxVerif.Generated.Blocking
import SxVerif.Spec.Blocking
import SxVerif.Proofs.CaptureSource

namespace SxVerif.C12
open SxVerif.Engine SxVerif.Generated SxVerif.StageDesc

theorem translator_clean : translatorProblems = [] := by decide

/-- (T) the capture socket is not torn down under a reader: the receiver goroutine of a packet scan is not
    interrupted by the context (it sits in poll) and outlives the engine run that started it, while
    `startPacketScanEngine` closes the socket — unmapping its ring — as soon as the run is over (after the exit
    delay, after Ctrl-C, and once per port chunk).  `afpacket.Source` serialises reads with `Close`, answers
    io.EOF afterwards and hands out copies, so no read touches unmapped memory (before the fix a reply arriving
    at that moment was a SIGSEGV; the dynamic side is the reply-flood case of component `e2e`). -/
theorem capture_source_safe_against_close : readSafeAgainstClose = true := by decide

/-- (T) a worker of an application scan is not held by the rate limiter after Ctrl-C: `rateLimitScanner.Scan` makes
    `limiter.Take()` — an uninterruptible sleep until the next slot, a whole rate window with `--rate 1/m` — in a
    goroutine and awaits it against `ctx.Done()`; cancelled, it returns `ctx.Err()` at once.  (Before the fix every
    worker slept out its slot, one after the other: D28; dynamic side: the slow-rate cases of `e2esigint`.) -/
theorem rate_limited_probe_interruptible :
    SxVerif.Limiter.takeInterruptible SxVerif.Generated.Limiter.scanWrapper "Scan" = true := by decide

/-- (T) nothing in the tree can block a goroutine without the cancellation argument knowing about it: the unguarded
    part of the regenerated inventory of blocking operations (channel sends / receives / ranges outside a select
    with a `ctx.Done()` or `default` case, Take / Sleep / Wait / Lock calls, every `go` statement — of EVERY non-test
    file of sx) is exactly the hand-classified table `Blocking.accounted`.  A goroutine, an unguarded send, a sleep or
    a limiter call added anywhere breaks this theorem until it has been classified. -/
theorem blocking_ops_accounted :
    SxVerif.Blocking.needsAccount SxVerif.Generated.blockingOps = SxVerif.Blocking.accounted.map (·.1) := by decide

/-- nothing in the table is there for no reason: the only operations classified as possibly blocking after a
    cancellation (`abandoned`) stand in the packet sender, its rate-limit wrapper and the ARP-cache stage, which the
    return path does not wait for -/
theorem abandoned_only_on_send_path :
    ∀ p ∈ SxVerif.Blocking.accounted, p.2 = .abandoned →
      p.1.fn = "sender.SendPackets" ∨ p.1.fn = "rateLimitReadWriter.WritePacketData" ∨
      p.1.fn = "cacheReqGenerator.GenerateRequests" := by decide

/-- the target list on stdin is waited for in exactly one place, a `Read` (called by the generator goroutine), never
    while the engine is being started -/
theorem stdin_wait_only_in_read :
    ∀ p ∈ SxVerif.Blocking.accounted, p.2 = .inputRead → p.1.fn = "stdinReader.Read" := by decide

/-- (T) the side conditions of the generic theorems, decided on the regenerated stage descriptors:
    `SingleCloser`, `CloseAfterSenders`, `GuardedOnReturnPath`, the guards the transition system
    assumes (which ctx ends which blocking operation), one `Write` per received result -/
theorem side_conditions :
    complete engineStages = true ∧ singleCloser engineStages = true ∧ closeAfterSenders engineStages = true ∧
    guardedOnReturnPath engineStages = true ∧ guardsAsModelled engineStages = true ∧
    controllerShape controllerOrder = true ∧ workerBodyShape = true := by decide

variable {c : Cfg} {reqs : List Req} {ext : List (Nat × Nat)} {s : Sys}

/-- Ctrl-C can arrive in every state, and cancels both contexts -/
theorem C12_cancel_anywhere (s : Sys) :
    ∃ s', next c s .cancelCmd = some s' ∧ s'.cmdCtx = true ∧ s'.derCtx = true := ⟨_, rfl, rfl, rfl⟩

/-- **safety**: no reachable state — whatever was cancelled whenever — has seen a send on a closed
    channel or a second close; every channel is closed by one process, after its senders:
    `errc` closed ⇒ supervisor past `wg.Wait()` ⇒ all `W` workers returned; `results` closed ⇔ the copier
    returned; `done` closed ⇒ `errc` closed -/
theorem C12_no_panic (hr : Reachable c (init reqs ext) s) :
    s.panicked = false ∧
    (s.errcClosed = true → allExited s.workers = true ∧ s.workers.length = c.W) ∧
    (s.resClosed = true ↔ s.cop = .exited) ∧ (s.doneClosed = true → s.errcClosed = true) := by
  have h0 := inv0 hr
  refine ⟨h0.noPanic, ?_, h0.resClosed, ?_⟩
  · intro he
    have := h0.errcClosed.mp he
    have := h0.supDone (by rcases this with h | h <;> simp [h])
    exact ⟨this.2, this.1⟩
  · intro hd
    exact h0.errcClosed.mpr (Or.inr (h0.doneClosed.mp hd))

/-- **no deadlock**: once the derived ctx is cancelled and `startScanEngine` has not returned, one of the
    processes it (transitively) waits for — logger, drain, supervisor, a worker, main — has an enabled step.
    (Every blocking operation on that path is guarded by a ctx that Ctrl-C cancels, or is the drain's
    receive on `errc`, which the supervisor closes after the workers.) -/
theorem C12_progress (hr : Reachable c (init reqs ext) s) (hd : s.derCtx = true) (hm : s.main = .waiting) :
    ∃ l, isRP l = true ∧ (next c s l).isSome = true := progress (inv0 hr) (inv1 hr) hd hm

/-- **bounded return** (ranking function): along EVERY execution from a state in which the derived ctx
    is cancelled, the return-path processes take at most `rank c s` of their own steps in total, no matter
    what generator, copier, controller, external producer and clock do in between -/
theorem C12_bounded_return (hr : Reachable c (init reqs ext) s) (hd : s.derCtx = true)
    (ls : List Label) (s' : Sys) (h : exec c s ls = some s') :
    (ls.filter isRP).length + rank c s' ≤ rank c s :=
  exec_rp_bound (fun _ h => inv0 h) ls s hr hd h

/-- every single return-path step strictly decreases the rank (in every reachable state) and no other
    step increases it once the derived ctx is cancelled -/
theorem C12_rank_step (hr : Reachable c (init reqs ext) s) {l : Label} {s' : Sys} (hn : next c s l = some s') :
    (isRP l = true → rank c s' < rank c s) ∧ (s.derCtx = true → rank c s' ≤ rank c s) :=
  ⟨fun hl => rank_next (inv0 hr) hl hn, fun hd => rank_stepR (inv0 hr) hd (next_stepR hn)⟩

/-- **the bound is a closed expression** in the capacities, the worker count and the number of targets
    the generator has not handed out yet (a worker's `select` may still take a request after the
    cancellation — Go picks any ready case; each such request costs at most 5 steps):
    `rank ≤ 4·capRes + 2·capErr + 7·W + 5·|pending| + 12`.  With the rate limiter on, a step `scan`
    includes the wait in `limiter.Take()` (not ctx-aware): bounded time per step, not modelled here. -/
theorem C12_rank_bound (hr : Reachable c (init reqs ext) s) :
    rank c s ≤ 4 * c.capRes + 2 * c.capErr + 7 * c.W + 5 * s.pending.length + 12 := rank_bound (inv0 hr)

/-- with the capacities and the default worker count of the source: at most 4912 + 5·|pending| steps -/
theorem C12_rank_bound_value :
    rankBound { W := defaultWorkerCount, capErr := capEngineErrChan, capRes := resultChanCap, delay := 0 } 0 = 4912 := by
  decide

/-- **the streams end**: when `startScanEngine` has returned, the logger and the error drain have
    returned, `errc` is closed and empty, every error that was sent has been logged exactly once and in
    order, and the derived ctx is cancelled -/
theorem C12_streams_end (hr : Reachable c (init reqs ext) s) (hm : s.main = .returned) :
    s.log = .exited ∧ s.drain = .exited ∧ s.errc = [] ∧ s.errcClosed = true ∧ s.errLogged = s.errSent := by
  have h := (inv1 hr).mainRet hm
  have hd := drainExited hr h.2
  exact ⟨h.1, h.2, hd.1, hd.2, errLogged_all hr h.2⟩

/-- **complete records**: the output changes only by the logger's `Write` step, which appends exactly one
    whole record (the one it received); whatever is in the output was handed to `Put` — on every path,
    cancelled at any point -/
theorem C12_whole_records (hr : Reachable c (init reqs ext) s) {l : Label} {s' : Sys}
    (hn : next c s l = some s') :
    ((l = .logWrite ∧ ∃ v, s.log = .writing v ∧ s'.printed = s.printed ++ [v]) ∨
     (l ≠ .logWrite ∧ s'.printed = s.printed)) ∧ (∀ v ∈ s.printed, v ∈ s.puts) :=
  ⟨printed_only_logWrite hn, printed_sub hr⟩

/-- **the run can always return**: from every reachable state in which the derived ctx is cancelled there is a
    continuation made of return-path steps ONLY (no step of the generator, the copier, the controller, an external
    producer or the clock is needed) that ends with `startScanEngine` returned, and it is no longer than the rank.
    (`C12_progress` iterated along the ranking function; this is the statement that was kept as the unproved
    `C12_full` in earlier rounds.) -/
theorem C12_return_exists (hr : Reachable c (init reqs ext) s) (hd : s.derCtx = true) :
    ∃ ls s', exec c s ls = some s' ∧ s'.main = .returned ∧ (∀ l ∈ ls, isRP l = true) ∧ ls.length ≤ rank c s :=
  return_exists hr hd

/-- the statement formerly left open, as it was written -/
theorem C12_full : ∀ (c : Cfg) (reqs : List Req) (ext : List (Nat × Nat)) (s : Sys), Reachable c (init reqs ext) s →
    s.derCtx = true → ∃ ls s', exec c s ls = some s' ∧ s'.main = .returned ∧ (ls.filter isRP).length ≤ rank c s := by
  intro c reqs ext s hr hd
  obtain ⟨ls, s', he, hm, _, hlen⟩ := return_exists hr hd
  exact ⟨ls, s', he, hm, Nat.le_trans (List.length_filter_le _ _) hlen⟩

/-- **the only way not to return is starvation**: an execution that has come to a state (after the cancellation) in
    which no return-path step is enabled has returned.  Together with `C12_bounded_return` (at most `rank` return-path
    steps can ever be taken) this is termination under weak fairness — an enabled return-path step is eventually
    taken — which is what is asked of the Go scheduler; that every fair INFINITE schedule ends is not stated in Lean
    (schedules here are finite lists), and `Scan` / `Write` returning is C09/C10's bound. -/
theorem C12_quiescent_returned (hr : Reachable c (init reqs ext) s) (hd : s.derCtx = true)
    (hq : ∀ l, isRP l = true → next c s l = none) : s.main = .returned :=
  quiescent_returned hr hd hq

/-! ### non-vacuity (tests): Ctrl-C while a result is queued, an error is queued and a worker is inside
    `Put`; the run returns, nothing panics -/

def exCfg : Cfg := { W := 2, capErr := 1, capRes := 1, delay := 5 }
def exReqs : List Req := [⟨0, false, .result⟩, ⟨1, false, .error⟩, ⟨2, false, .result⟩, ⟨3, false, .result⟩]
def exSched : List Label :=
  [.spawn, .spawn, .worker 0 .recv, .worker 1 .recv, .worker 0 .scan, .worker 1 .scan, .worker 0 .put,
   .worker 1 .sendErr, .worker 0 .recv, .worker 0 .scan, .cancelCmd,
   .worker 0 .putCtx, .worker 1 .ctxExit, .worker 0 .ctxExit, .wgWait, .closeErrc, .closeDone, .copCtx,
   .logCtx, .drainRecv, .drainLog, .drainExit, .mainReturn]
def exView (s : Sys) : MainPc × Bool × List Nat × List Nat × Nat × Bool :=
  (s.main, s.panicked, s.printed, s.errLogged, s.pending.length, s.resClosed)

example : (exec exCfg (init exReqs []) exSched).map exView = some (.returned, false, [], [1], 1, true) := by rfl

/-! ### packet side (packet scans: generator workers, multiplexers, sender, receiver, error merge)

The transition system is `Pipe.step` (Model/Pipe.lean) over the configuration read off the regenerated
stage descriptors (`C07.cfg`); its `cancel` step is enabled in every state, so `Reachable` ranges over every
cancellation point. -/

/-- packet pipeline: no send on a closed channel and no double close, whenever the cancellation comes -/
theorem C12_packet_no_panic (inp : Pipe.Input) (s : Pipe.Sys) (h : Pipe.Reachable C07.cfg inp s) :
    s.panic = false :=
  C07.C07_no_panic inp s h

/-- packet pipeline: once cancelled, the error stream `startScanEngine` is draining comes to an end within
    8 steps of the error-merge goroutines alone (every blocking operation on that path is ctx-guarded), so
    the scan call's error drain — and with it the scan call — is not held up by the sender, the receiver or
    the generator workers -/
theorem C12_packet_errc_closes (inp : Pipe.Input) (s : Pipe.Sys) (h : Pipe.Reachable C07.cfg inp s)
    (hc : s.ctx = true) :
    ∃ evs s', evs.length ≤ 8 ∧ (∀ e ∈ evs, Pipe.isReturnEv e = true) ∧ Pipe.run C07.cfg inp s evs = some s' ∧
      s'.merr.closed = true :=
  C07.C07_errc_closes_after_cancel inp s h hc


/-- packet pipeline: whenever (and however often) the cancellation comes, the goroutines of the pipeline take at most
    `22·|requests| + 4·|receiver errors| + 4·N + 13` steps in all — none of them can spin after a cancellation (or
    before): every loop iteration consumes something that is not replenished -/
theorem C12_packet_steps_bounded (inp : Pipe.Input) (evs : List Pipe.Event) (s : Pipe.Sys)
    (h : Pipe.run C07.cfg inp (Pipe.init inp) evs = some s) :
    Pipe.nonCancel evs ≤ 22 * inp.reqs.length + 4 * inp.rcvErrs.length + 4 * inp.n + 13 :=
  C07.C07_steps_bounded inp evs s h

/-- (T) the capture source follows the lock protocol of `Model/CaptureSource.lean`: `Close` = lock, deferred unlock,
    `closed = true`, unmap; one read = lock, EOF if closed, read-and-copy, unlock (regenerated from
    pkg/packet/afpacket/readwriter.go) -/
theorem capture_source_protocol : SxVerif.Generated.sourceDesc = SxVerif.CaptureSource.modelled := by decide

/-- **no read ever touches an unmapped ring**: any number of receiver goroutines (one is left behind by every engine
    run / port chunk) and any number of `Close` calls, interleaved in any way — the D25 crash cannot happen -/
theorem capture_source_never_faults (s : SxVerif.CaptureSource.Sys) (h : SxVerif.CaptureSource.Reachable s) :
    s.fault = false := (SxVerif.CaptureSource.inv_reachable h).noFault

/-- once closed, always closed: a receiver that is left behind can only get io.EOF out of the source -/
theorem capture_source_closed_stays {s t : SxVerif.CaptureSource.Sys} (hs : SxVerif.CaptureSource.Step s t)
    (hc : s.closed = true) : t.closed = true := SxVerif.CaptureSource.closed_mono hs hc

end SxVerif.C12
