/-
C01 — Coverage: every specified target is probed exactly once per pass.
Property theorems only (lemmas: `Proofs/Gen.lean`; the iterator facts come from C04).

"Puts on the wire" is closed by C07 (requests → frames written, multiset-preserving) for the packet
commands and by C08 (requests → Scan calls) for the application commands; this file proves the claim
at the request stream, for the composition of generators each command actually wires
(`newIPPortGenerator` mode choice, exclusion filter, ARP-cache stage, chunk loop).
-/
import SxVerif.Generated.CyclicGroups
import SxVerif.Generated.Constants
import SxVerif.Generated.Problems
import SxVerif.Spec.Gen
import SxVerif.Proofs.GenCover
import SxVerif.Props.C04

namespace SxVerif.C01
open SxVerif.Gen SxVerif.Spec.Gen SxVerif.Generated

theorem translator_clean : translatorProblems = [] := by decide

/-- facts about `startPortScanEngine` regenerated from command/root.go: positive chunk size, and a
    scan without port ranges (ip/port pairs file) still runs one engine -/
theorem chunk_facts : 0 < chunkSize ∧ emptyRunsOnce = true := by decide

/-- all engine runs succeeded: their requests, concatenated in run order -/
def allOk : List (Except Cause (List Req)) → Option (List Req)
  | [] => some []
  | .ok rs :: rest => (allOk rest).map (rs ++ ·)
  | .error _ :: _ => none

/-- destination and port of every request, probe or not (the ARP-cache stage may turn a probe into a
    "no MAC" error but keeps its destination and port) -/
def targets (rs : List Req) : List (Option Addr × Nat) := rs.map (fun r => (r.dst, r.port))

def wanted (s : Spec) (content : List Line) : List (Option Addr × Nat) :=
  (expectedPairs s content).map (fun ap => (some ap.1, ap.2))

/-- **C01 for tcp (syn/fin/null/xmas/flags) and udp**: for every valid specification — any subnet
    /0../32, any list of valid port ranges (any number of chunks), a pairs file, or an address file ×
    ranges, read from a file or through the buffering stdin opener — and every family of random
    draws, the engine runs of one scan pass all start, and together request exactly the denoted
    (address, port) multiset minus exclusions.  Errors can only be "no MAC", and there are none when
    no ARP-cache stage is stacked or a gateway MAC is known. -/
theorem C01_port_scan (s : Spec) (content : List Line) (h : PairSpecOK s content) (dp di : Nat → Draws) :
    ∃ rs, allOk (portScanRuns cyclicGroups s chunkSize emptyRunsOnce dp di) = some rs ∧
      (targets rs).Perm (wanted s content) ∧
      (∀ r ∈ rs, r.err = none ∨ r.err = some .noMAC) ∧
      ((s.cache = none ∨ ∃ c g, s.cache = some (c, some g)) → ∀ r ∈ rs, r.err = none) :=
  Proofs.Gen.port_scan_cover cyclicGroups C04.table_ok C04.table_sorted C04.Pmax_value s content h
    chunkSize emptyRunsOnce chunk_facts.1 chunk_facts.2 dp di allOk rfl (fun _ _ => rfl)

/-- **C01 for socks / docker / elastic** (one engine run over all ranges, no ARP stage) -/
theorem C01_generic (s : Spec) (content : List Line) (h : PairSpecOK s content) (dp di : Draws) :
    ∃ rs, genericRun cyclicGroups s dp di = .ok rs ∧
      (probes rs).Perm (expectedPairs s content) ∧ ∀ r ∈ rs, r.err = none :=
  Proofs.Gen.generic_cover cyclicGroups C04.table_ok C04.table_sorted C04.Pmax_value s content h dp di

/-- **C01 for arp and icmp** (port-less): exactly one request per denoted, non-excluded address -/
theorem C01_ip_scan (s : Spec) (content : List Line) (h : AddrSpecOK s content) (d : Nat × Nat) :
    ∃ rs, ipRequests cyclicGroups s d = .ok rs ∧
      (rs.map (·.dst)).Perm ((expectedAddrs s content).map some) ∧
      (∀ r ∈ rs, r.err = none ∨ r.err = some .noMAC) ∧
      ((s.cache = none ∨ ∃ c g, s.cache = some (c, some g)) → ∀ r ∈ rs, r.err = none) :=
  Proofs.Gen.ip_scan_cover cyclicGroups C04.table_ok C04.table_sorted C04.Pmax_value s content h d

/-- the chunk loop neither loses nor repeats a range: the chunks concatenate to the range list, each
    has between 1 and `chunkSize` ranges (or it is the single empty chunk of a pairs-file scan) -/
theorem C01_chunks (ports : List PortRange) :
    (chunks chunkSize emptyRunsOnce ports).flatten = ports ∧
    (∀ c ∈ chunks chunkSize emptyRunsOnce ports, c.length ≤ chunkSize ∧ (c = [] → ports = [])) ∧
    (ports = [] → chunks chunkSize emptyRunsOnce ports = [[]]) :=
  Proofs.Gen.chunks_spec chunkSize emptyRunsOnce chunk_facts.1 chunk_facts.2 ports

-- non-vacuity: a concrete valid specification meets the hypotheses (test, labelled as such)
example : PairSpecOK
    { src := .subnet (some { bytes := 4, base := 167772160, ones := 30, bits := 32 }),
      ports := [⟨22, 23⟩, ⟨80, 80⟩], excl := some [(167772161, 32)], cache := none } [] :=
  ⟨by intro r hr; simp at hr; rcases hr with rfl | rfl <;> decide,
   ⟨⟨_, rfl, by unfold NetOK; decide⟩, by decide⟩⟩

end SxVerif.C01
