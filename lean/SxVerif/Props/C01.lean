/-
C01 — Coverage: every specified target is probed exactly once per pass.
Property theorems only (lemmas: `Proofs/Gen.lean`; the iterator facts come from C04).

First the claim at the request stream, for the composition of generators each command actually wires
(`newIPPortGenerator` mode choice, exclusion filter, ARP-cache stage, chunk loop): `C01_port_scan`,
`C01_generic`, `C01_ip_scan`.  Then "puts on the wire" as theorems: `C01_wire_*` compose the request-stream
statement with C05 (every filler's frame reads back to the request's destination) and C07 (the packet pipeline
hands exactly the frames of the error-free requests to the writer, byte for byte, under every schedule) over the
embedding `Compose.pipeReqs` of a request list into a pipeline input (Model/Compose.lean; lemmas:
Proofs/Compose*.lean).
-/
import SxVerif.Generated.CyclicGroups
import SxVerif.Generated.Constants
import SxVerif.Generated.Problems
import SxVerif.Generated.Wiring
import SxVerif.Spec.Gen
import SxVerif.Proofs.GenCover
import SxVerif.Props.C04
import SxVerif.Props.C07
import SxVerif.Spec.Compose
import SxVerif.Proofs.ComposeWire
import SxVerif.Proofs.ComposeScan
import SxVerif.Proofs.CaptureSource

namespace SxVerif.C01
open SxVerif.Gen SxVerif.Spec.Gen SxVerif.Generated SxVerif.Compose SxVerif.Spec.Compose

theorem translator_clean : translatorProblems = [] := by decide

/-- (T) a port scan with more than `chunkSize` ranges closes and re-opens its capture socket per chunk while
    replies may still be arriving: the capture source is safe against that (`Props/C12.capture_source_safe_against_close`
    has the details); without it the scan died with a SIGSEGV at a chunk boundary and the remaining chunks were
    never probed -/
theorem chunk_boundary_safe : readSafeAgainstClose = true := by decide

/-- facts about `startPortScanEngine` regenerated from command/root.go: positive chunk size, and a
    scan without port ranges (ip/port pairs file) still runs one engine -/
theorem chunk_facts : 0 < chunkSize ∧ emptyRunsOnce = true := by decide

/-- all engine runs succeeded: their requests, concatenated in run order -/
def allOk : List (Except Cause (List Req)) → Option (List Req)
  | [] => some []
  | .ok rs :: rest => (allOk rest).map (rs ++ ·)
  | .error _ :: _ => none

/-- destination and port of every request, probe or not (the ARP-cache stage may turn a probe into a
    "no MAC" error but keeps its destination and port) -/
def targets (rs : List Req) : List (Option Addr × Nat) := rs.map (fun r => (r.dst, r.port))

def wanted (s : Spec) (content : List Line) : List (Option Addr × Nat) :=
  (expectedPairs s content).map (fun ap => (some ap.1, ap.2))

/-- **C01 for tcp (syn/fin/null/xmas/flags) and udp**: for every valid specification — any subnet
    /0../32, any list of valid port ranges (any number of chunks), a pairs file, or an address file ×
    ranges, read from a file or through the buffering stdin opener — and every family of random
    draws, the engine runs of one scan pass all start, and together request exactly the denoted
    (address, port) multiset minus exclusions.  Errors can only be "no MAC", and there are none when
    no ARP-cache stage is stacked or a gateway MAC is known. -/
theorem C01_port_scan (s : Spec) (content : List Line) (h : PairSpecOK s content) (dp di : Nat → Draws) :
    ∃ rs, allOk (portScanRuns cyclicGroups s chunkSize emptyRunsOnce dp di) = some rs ∧
      (targets rs).Perm (wanted s content) ∧
      (∀ r ∈ rs, r.err = none ∨ r.err = some .noMAC) ∧
      ((s.cache = none ∨ ∃ c g, s.cache = some (c, some g)) → ∀ r ∈ rs, r.err = none) :=
  Proofs.Gen.port_scan_cover cyclicGroups C04.table_ok C04.table_sorted C04.Pmax_value s content h
    chunkSize emptyRunsOnce chunk_facts.1 chunk_facts.2 dp di allOk rfl (fun _ _ => rfl)

/-- **C01 for socks / docker / elastic** (one engine run over all ranges, no ARP stage) -/
theorem C01_generic (s : Spec) (content : List Line) (h : PairSpecOK s content) (dp di : Draws) :
    ∃ rs, genericRun cyclicGroups s dp di = .ok rs ∧
      (probes rs).Perm (expectedPairs s content) ∧ ∀ r ∈ rs, r.err = none :=
  Proofs.Gen.generic_cover cyclicGroups C04.table_ok C04.table_sorted C04.Pmax_value s content h dp di

/-- **C01 for arp and icmp** (port-less): exactly one request per denoted, non-excluded address -/
theorem C01_ip_scan (s : Spec) (content : List Line) (h : AddrSpecOK s content) (d : Nat × Nat) :
    ∃ rs, ipRequests cyclicGroups s d = .ok rs ∧
      (rs.map (·.dst)).Perm ((expectedAddrs s content).map some) ∧
      (∀ r ∈ rs, r.err = none ∨ r.err = some .noMAC) ∧
      ((s.cache = none ∨ ∃ c g, s.cache = some (c, some g)) → ∀ r ∈ rs, r.err = none) :=
  Proofs.Gen.ip_scan_cover cyclicGroups C04.table_ok C04.table_sorted C04.Pmax_value s content h d

/-! ### C01 at the wire (packet commands)

Read as: take any valid specification, any family of iterator draws, any link mode / source addresses the scan
range provides (`LinkOK`, C17), any filler options in the ranges the flag parsers enforce (`FillerOK`, C18), any
`math/rand` draws of the fillers in their ranges (`RndOK`, C05_draws), any number `inp.n ≥ 1` of generator
workers, any receiver errors, any writer failure pattern, and ANY interleaving of the pipeline's goroutines
(`ReachableNC C07.cfg`) that is not cancelled and has come to its end (all goroutines returned and the error
stream drained, or `done` closed) — one such observation `PacketRun` per engine run of the pass.  Then the byte
strings handed to `WritePacketData`, each read with the independent RFC readers of Spec/Fill.lean
(`probeTarget` / `probeAddr`), give — as a multiset, every frame readable — exactly the probes of the request
stream; and those are the denoted targets minus exclusions whenever no request can lose its MAC.

Hypotheses that remain, all named: (1) the run ends and is not cancelled (`PacketRunOf`; progress is
`C07_progress_full`, fairness is the runtime's); (2) `hv4`: the denoted, non-excluded targets are IPv4 addresses —
a theorem for subnet sources (`C01_wire_subnet_ipv4`), a condition on the file's content otherwise (a non-IPv4
line is a `Fill` error, not a probe); (3) `hmac`: on an Ethernet link the IP probes pass through the ARP-cache
stage; a target with neither a cache entry nor a gateway MAC becomes a `noMAC` ERROR request, which is not a
probe (first conclusion: frames ≈ `probes`), and with a gateway MAC or in VPN mode there is none (second
conclusion: frames ≈ denoted − excluded); (4) "handed to the writer" is "on the wire" for the writes that did
not fail: `C01_wire_no_write_failure`. -/

/-- **C01 at the wire for tcp (syn/fin/null/xmas/flags) and udp**: over all engine runs of one pass (one per
    chunk of port ranges), the (destination address, destination port) pairs read off the frames handed to the
    writer are, with multiplicity, the probes of the pass — none missing, none extra, none repeated, none
    unreadable. -/
theorem C01_wire_port_scan (l : Link) (hl : LinkOK l) (fl : Filler) (hfl : FillerOK fl)
    (hk : (∃ f, fl = .tcp f) ∨ ∃ o, fl = .udp o)
    (s : Spec) (content : List Line) (h : PairSpecOK s content)
    (hv4 : ∀ ap ∈ expectedPairs s content, IsIPv4 ap.1)
    (hmac : l.vpn = false → s.cache.isSome = true) (dp di : Nat → Draws) :
    ∃ rss : List (List Req),
      portScanRuns cyclicGroups s chunkSize emptyRunsOnce dp di = rss.map Except.ok ∧
      (targets rss.flatten).Perm (wanted s content) ∧
      (∀ r ∈ rss.flatten, r.err = none ∨ r.err = some .noMAC) ∧
      ∀ obs : List PacketRun, List.Forall₂ (PacketRunOf C07.cfg l fl) rss obs →
        (obs.flatMap (fun o => (handed o.st).map (probeTarget l.vpn fl))).Perm
          ((probes rss.flatten).map (fun ap => some (addrVal ap.1, ap.2))) ∧
        ((s.cache = none ∨ ∃ c g, s.cache = some (c, some g)) →
          (obs.flatMap (fun o => (handed o.st).map (probeTarget l.vpn fl))).Perm
            ((expectedPairs s content).map (fun ap => some (addrVal ap.1, ap.2)))) :=
  Proofs.Compose.wire_port_scan cyclicGroups C04.table_ok C04.table_sorted C04.Pmax_value chunkSize emptyRunsOnce
    chunk_facts.1 chunk_facts.2 (Pipe.wf_of_sideConds C07.side_conditions) l hl fl hfl hk s content h hv4 hmac dp di

/-- **C01 at the wire for icmp and arp** (port-less, one engine run): the destination addresses read off the
    frames handed to the writer (RFC 791 destination / RFC 826 target protocol address) are, with
    multiplicity, the probes of the pass.  `arp` runs on an Ethernet link without ARP-cache stage (`s.cache =
    none`: every denoted, non-excluded address is probed); `icmp` is an IP probe and needs the stage there. -/
theorem C01_wire_ip_scan (l : Link) (hl : LinkOK l) (fl : Filler) (hfl : FillerOK fl)
    (hk : (∃ o t c, fl = .icmp o t c) ∨ (fl = .arp ∧ l.vpn = false))
    (s : Spec) (content : List Line) (h : AddrSpecOK s content)
    (hv4 : ∀ a ∈ expectedAddrs s content, IsIPv4 a)
    (hmac : fl ≠ .arp → l.vpn = false → s.cache.isSome = true) (d : Nat × Nat) :
    ∃ rs : List Req, ipRequests cyclicGroups s d = .ok rs ∧
      (rs.map (·.dst)).Perm ((expectedAddrs s content).map some) ∧
      (∀ r ∈ rs, r.err = none ∨ r.err = some .noMAC) ∧
      ∀ o : PacketRun, PacketRunOf C07.cfg l fl rs o →
        ((handed o.st).map (probeAddr l.vpn fl)).Perm ((probes rs).map (fun ap => some (addrVal ap.1))) ∧
        ((s.cache = none ∨ ∃ c g, s.cache = some (c, some g)) →
          ((handed o.st).map (probeAddr l.vpn fl)).Perm
            ((expectedAddrs s content).map (fun a => some (addrVal a)))) :=
  Proofs.Compose.wire_ip_scan cyclicGroups C04.table_ok C04.table_sorted C04.Pmax_value
    (Pipe.wf_of_sideConds C07.side_conditions) l hl fl hfl hk s content h hv4 hmac d

/-- hypothesis `hv4` is a theorem when the target is a subnet: every address a valid subnet denotes is IPv4 -/
theorem C01_wire_subnet_ipv4 (s : Spec) (content : List Line) (net : Option Net) (hs : s.src = .subnet net) :
    (PairSpecOK s content → ∀ ap ∈ expectedPairs s content, IsIPv4 ap.1) ∧
    (AddrSpecOK s content → ∀ a ∈ expectedAddrs s content, IsIPv4 a) :=
  ⟨fun h ap hap => Proofs.Compose.subnet_pairs_ipv4 s content h net hs ap (List.mem_filter.mp hap).1,
   fun h a ha => Proofs.Compose.subnet_addrs_ipv4 s content h net hs a (List.mem_filter.mp ha).1⟩

/-- without write failures, handed to the writer = on the wire, and the writer contributes no error record -/
theorem C01_wire_no_write_failure (st : Pipe.Sys) (h : ∀ w ∈ st.written, w.2 = false) :
    onWire st = handed st ∧ Pipe.writeErrs st.written = [] :=
  Proofs.Compose.no_write_failure st h

/-! ### C01 at the `Scan` calls (application commands) -/

/-- **C01 for socks / docker / elastic, at the scanner**: for every valid specification and all draws the single
    engine run starts, its request stream has no error entry, and for the generic engine (`Model/Engine.lean`)
    started on the embedding of that stream (`Compose.engReqs`: identity = position, `Scan`'s answers an
    arbitrary oracle `orc`) with ANY number of workers `c.W ≥ 1`, any capacities and exit delay, in EVERY state
    reachable under ANY interleaving without Ctrl-C: the targets handed to `Scan` so far (each `Scan` call
    looked up by the identity of its request, `targetAt`) are a sub-multiset of the denoted (address, port)
    multiset minus exclusions — none extra, none repeated, at every moment — and once `done` is closed they
    are exactly that multiset — none missing (C08_scan_once / C08_complete composed with C01_generic).
    Remaining hypotheses: the run is not interrupted (`cmdCtx = false`) and reaches `done` (progress: C12). -/
theorem C01_scan_targets (s : Spec) (content : List Line) (h : PairSpecOK s content) (dp di : Draws) :
    ∃ rs, genericRun cyclicGroups s dp di = .ok rs ∧ (probes rs).Perm (expectedPairs s content) ∧
      (∀ r ∈ rs, r.err = none) ∧
      ∀ (c : Engine.Cfg) (orc : Nat → Engine.Outcome) (st : Engine.Sys), 0 < c.W →
        Engine.Reachable c (Engine.init (engReqs orc rs) []) st → st.cmdCtx = false →
        ((st.scans.map (fun e => targetAt rs e.id)).Subperm ((expectedPairs s content).map some)) ∧
        (st.doneClosed = true →
          (st.scans.map (fun e => targetAt rs e.id)).Perm ((expectedPairs s content).map some)) :=
  Proofs.Compose.scan_targets cyclicGroups C04.table_ok C04.table_sorted C04.Pmax_value s content h dp di

/-- the chunk loop neither loses nor repeats a range: the chunks concatenate to the range list, each
    has between 1 and `chunkSize` ranges (or it is the single empty chunk of a pairs-file scan) -/
theorem C01_chunks (ports : List PortRange) :
    (chunks chunkSize emptyRunsOnce ports).flatten = ports ∧
    (∀ c ∈ chunks chunkSize emptyRunsOnce ports, c.length ≤ chunkSize ∧ (c = [] → ports = [])) ∧
    (ports = [] → chunks chunkSize emptyRunsOnce ports = [[]]) :=
  Proofs.Gen.chunks_spec chunkSize emptyRunsOnce chunk_facts.1 chunk_facts.2 ports

-- non-vacuity: a concrete valid specification meets the hypotheses (test, labelled as such)
example : PairSpecOK
    { src := .subnet (some { bytes := 4, base := 167772160, ones := 30, bits := 32 }),
      ports := [⟨22, 23⟩, ⟨80, 80⟩], excl := some [(167772161, 32)], cache := none } [] :=
  ⟨by intro r hr; simp at hr; rcases hr with rfl | rfl <;> decide,
   ⟨⟨_, rfl, by unfold NetOK; decide⟩, by decide⟩⟩

-- the hypotheses of the wire theorems are satisfiable: an Ethernet link, a VPN link, filler options, draws
example : LinkOK { vpn := false, srcIP := [10, 0, 0, 1], srcMAC := [2, 0, 0, 0, 0, 1] } := ⟨rfl, fun _ => rfl⟩
example : LinkOK { vpn := true, srcIP := [10, 0, 0, 1], srcMAC := [] } := ⟨rfl, fun h => by cases h⟩
example : FillerOK (.tcp 2) ∧ FillerOK (.udp { ttl := 64, len := 0, proto := 17, flags := 2, payload := [1, 2, 3], vpn := false }) ∧
    FillerOK (.icmp { ttl := 64, len := 0, proto := 1, flags := 2, payload := [], vpn := false } 8 0) ∧ FillerOK .arp := by
  simp [FillerOK]
example : RndOK { ipId := 52054, sport := 18705, seq := 1905190105, icmpId := 7 } := by simp [RndOK]
-- the embedding on a probe, an error request and a probe the filler refuses (no MAC on an Ethernet link), and the
-- reader on the first frame: 10.0.0.2 port 443 (test, labelled as such)
example : (pipeReqs { vpn := true, srcIP := [10, 0, 0, 1], srcMAC := [] } (.tcp 2) (fun _ => ⟨1, 2, 3, 4⟩)
      [{ dst := some (.v4 167772162 true), port := 443 }, { err := some .ip }]).map (·.kind) = [.ok, .reqErr] ∧
    (pipeReqs { vpn := false, srcIP := [10, 0, 0, 1], srcMAC := [2, 0, 0, 0, 0, 1] } (.tcp 2) (fun _ => ⟨1, 2, 3, 4⟩)
      [{ dst := some (.v4 167772162 false), port := 443 }]).map (·.kind) = [.fillErr] ∧
    (pipeReqs { vpn := true, srcIP := [10, 0, 0, 1], srcMAC := [] } (.tcp 2) (fun _ => ⟨1, 2, 3, 4⟩)
      [{ dst := some (.v4 167772162 true), port := 443 }]).map (fun q => probeTarget true (.tcp 2) q.frame)
      = [some (167772162, 443)] := by decide

/-! a complete engine run of the packet pipeline as the wire theorems quantify over it (`PacketRunOf` is
    satisfiable): VPN link, `tcp syn`, the stream [probe of 10.0.0.2:443, error request], one worker, no failures;
    the trace is accepted by the step function of the CURRENT topology, ends terminated, and the one frame handed
    to the writer reads back as 10.0.0.2:443 (tests, labelled as such) -/
def exLink : Link := { vpn := true, srcIP := [10, 0, 0, 1], srcMAC := [] }
def exRnd : Nat → Rnd := fun _ => ⟨1, 2, 3, 4⟩
def exRs : List Req := [{ dst := some (.v4 167772162 false), port := 443 }, { err := some .ip }]
def exInp : Pipe.Input :=
  { n := 1, reqs := pipeReqs exLink (.tcp 2) exRnd exRs, rcvErrs := [], wfail := fun _ _ => false }
def exEvs : List Pipe.Event :=
  [.envSend, .envSend, .envClose, .worker 0 .recv, .worker 0 (.get 0), .worker 0 .fill, .worker 0 .send,
   .worker 0 .recv, .worker 0 .send, .worker 0 .recv, .worker 0 .close,
   .mux 0 .recv, .mux 0 .send, .mux 0 .recv, .mux 0 .send, .mux 0 .recv, .mux 0 .done, .closer .wait, .closer .close,
   .sender .recv, .sender .call, .sender .call, .sender .recv, .sender .report, .sender .recv, .sender .close1,
   .sender .close2, .rcvClose, .emux false .recv, .emux false .send, .emux false .recv, .emux false .done,
   .emux true .recv, .emux true .done, .ecloser .wait, .ecloser .close, .consume]
def exSt : Pipe.Sys := (Pipe.run C07.cfg exInp (Pipe.init exInp) exEvs).getD (Pipe.init exInp)

example : (Pipe.run C07.cfg exInp (Pipe.init exInp) exEvs).isSome = true ∧ (∀ e ∈ exEvs, e ≠ Pipe.Event.cancel) ∧
    Pipe.Terminated exSt ∧ (∀ w ∈ exSt.written, w.2 = false) ∧
    (handed exSt).map (probeTarget true (.tcp 2)) = [some (167772162, 443)] ∧
    reqCauses exRs exSt.errsOut = [some Cause.ip] := by decide

example : PacketRunOf C07.cfg exLink (.tcp 2) exRs ⟨exRnd, exInp, exSt⟩ :=
  ⟨fun _ => by simp [RndOK, exRnd], rfl, by decide,
   Proofs.Compose.reachableNC_run exEvs _ _ (by decide) .init (by
     have h : (Pipe.run C07.cfg exInp (Pipe.init exInp) exEvs).isSome = true := by decide
     unfold exSt
     cases hr : Pipe.run C07.cfg exInp (Pipe.init exInp) exEvs with
     | none => simp [hr] at h
     | some s => rfl),
   Or.inl (by decide)⟩


/-- (T) the capture source follows the lock protocol of `Model/CaptureSource.lean`: `Close` = lock, deferred unlock,
    `closed = true`, unmap; one read = lock, EOF if closed, read-and-copy, unlock (regenerated from
    pkg/packet/afpacket/readwriter.go) -/
theorem capture_source_protocol : SxVerif.Generated.sourceDesc = SxVerif.CaptureSource.modelled := by decide

/-- **no read ever touches an unmapped ring**: any number of receiver goroutines (one is left behind by every engine
    run / port chunk) and any number of `Close` calls, interleaved in any way — the D25 crash cannot happen -/
theorem capture_source_never_faults (s : SxVerif.CaptureSource.Sys) (h : SxVerif.CaptureSource.Reachable s) :
    s.fault = false := (SxVerif.CaptureSource.inv_reachable h).noFault

/-- once closed, always closed: a receiver that is left behind can only get io.EOF out of the source -/
theorem capture_source_closed_stays {s t : SxVerif.CaptureSource.Sys} (hs : SxVerif.CaptureSource.Step s t)
    (hc : s.closed = true) : t.closed = true := SxVerif.CaptureSource.closed_mono hs hc


/-- (T) the engine runs of a chunked port scan (one per 200 port ranges, each with its own socket and receiver
    goroutine) share ONE scan method, and the receiver of a finished run is not waited for: it may still be decoding
    its last frame when the next run's receiver decodes its first.  `startPortScanEngine` hands every run the method
    behind one mutex (`lockedPacketMethod`: lock, deferred unlock, the method's own `ProcessPacketData`), so the
    processors run one frame at a time — which is what `C06_history` assumes of a history of frames (D31; dynamic side:
    the reply-flood run of `e2e` from a race-enabled build of sx). -/
theorem chunk_receivers_serialised : SxVerif.Generated.chunksShareLockedMethod = true := by decide

end SxVerif.C01
