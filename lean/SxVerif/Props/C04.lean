/-
C04 — Randomised iteration is a permutation for every range size up to 2^32.

Property theorems only (helper lemmas: `Proofs/Pratt.lean`, `Proofs/RangeIter.lean`).
Everything is stated over `Generated.cyclicGroups`, i.e. over the table as it stands in
/repo/pkg/scan/range.go at the time of this build.
-/
import SxVerif.Generated.CyclicGroups
import SxVerif.Generated.Problems
import SxVerif.Proofs.Pratt
import SxVerif.Proofs.RangeIter

namespace SxVerif.C04
open SxVerif.RangeIter SxVerif.Generated SxVerif.Pratt

/-- the translator recognised every shape it was asked about -/
theorem translator_clean : translatorProblems = [] := by decide

/-- every proposed Pratt certificate checks (kernel evaluation of the `Bool` checker) -/
theorem certs_ok : checkCerts prattCerts = true := by decide +kernel

/-- every table row: `P` prime, `G` a primitive root mod `P`, `N` coprime to `P - 1` -/
theorem table_ok : ∀ r ∈ cyclicGroups, RowOK r := by
  have h : cyclicGroups.all (rowBacked prattCerts) = true := by decide
  intro r hr
  exact rowBacked_sound prattCerts certs_ok r (List.all_eq_true.mp h r hr)

/-- the table is strictly increasing in `P` (what makes Go's `sort.Search` find the right row) -/
theorem table_sorted : List.Pairwise (fun a b : Group => a.P < b.P) cyclicGroups := by decide

/-- the largest modulus of the table; sizes `n < Pmax` are served, others rejected -/
def Pmax : Nat := (cyclicGroups.map (·.P)).foldl max 0

/-- the table is not empty and `Pmax` is what the property says: 2^32 + 61 -/
theorem Pmax_value : Pmax = 2 ^ 32 + 61 := by decide

/-- **C04, permutation**: for every size `1 ≤ n < Pmax` (in particular every `n ≤ 2^32`) and every
    pair of random draws, the iteration terminates and hands out each of `1..n` exactly once. -/
theorem C04_perm (n : Nat) (r1 r2 : Nat) (h1 : 1 ≤ n) (h2 : n < Pmax) :
    ∃ l, run cyclicGroups (n : Int) r1 r2 = .ok l ∧ l.Perm (List.range' 1 n) :=
  run_perm cyclicGroups table_ok table_sorted n r1 r2 h1 (by simpa [Pmax] using h2)

/-- **C04, rejection**: sizes outside `1 .. Pmax-1` (= outside `1 .. 2^32+60`) are refused. -/
theorem C04_reject (n : Int) (r1 r2 : Nat) (h : n ≤ 0 ∨ (Pmax : Int) ≤ n) :
    run cyclicGroups n r1 r2 = .rangeSizeErr :=
  run_reject cyclicGroups n r1 r2 (by simpa [Pmax] using h)

/-- corollary in the property's own words -/
theorem C04_upto_2_32 (n r1 r2 : Nat) (h1 : 1 ≤ n) (h2 : n ≤ 2 ^ 32) :
    ∃ l, run cyclicGroups (n : Int) r1 r2 = .ok l ∧ l.Perm (List.range' 1 n) :=
  C04_perm n r1 r2 h1 (by rw [Pmax_value]; omega)

-- non-vacuity: concrete runs (tests, labelled as such)
example : run cyclicGroups 5 7 11 = .ok [5, 3, 1, 2, 4] := by decide +kernel
example : ∃ l, run cyclicGroups 10 123456789 987654321 = .ok l ∧ l.length = 10 :=
  ⟨[7, 9, 10, 5, 8, 4, 2, 1, 6, 3], by decide +kernel, by decide⟩

end SxVerif.C04
