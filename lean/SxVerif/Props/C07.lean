/-
C07 — Packet pipeline: nothing lost, duplicated or altered before the wire.
Property theorems only.  The system is `Pipe.step` (Model/Pipe.lean) instantiated with the configuration
read off the stage descriptors that sxfacts regenerates from generator.go / engine.go / sender.go /
memory.go (`Generated.packetTopology`); the side conditions are decided on that data.
-/
import SxVerif.Proofs.ConcPacket
import SxVerif.Generated.StagesPacket
import SxVerif.Generated.Problems

namespace SxVerif.C07
open SxVerif.Pipe SxVerif.Pipe.Desc SxVerif.Generated

theorem translator_clean : translatorProblems = [] := by decide

/-- SingleCloser, CloseAfterSenders, FreeAfterWrite, GetBeforeFill, CapsPositive, GuardedOnReturnPath and
    the shape of every goroutine, decided on the descriptors of the current tree -/
theorem side_conditions : SideConds packetTopology := by decide

/-- the model instance for the current tree -/
abbrev cfg : Cfg := cfgOf packetTopology

/-- errors a request list must produce by itself -/
def failErrs (reqs : List Req) : List Err :=
  reqs.filterMap fun r => match r.kind with
    | .reqErr => some (.req r) | .fillErr => some (.fill r) | .ok => none

def okFrames (reqs : List Req) : List Bytes := (reqs.filter (·.kind = .ok)).map (·.frame)

/-- **Conserve** (invariant): in every state of every run that is not cancelled — any number of workers,
    any request list, any writer failure pattern, any receiver errors, any interleaving, any number of
    steps — what reached the writer and the error consumer, plus what is in flight in any goroutine or
    channel, is exactly what entered: one token per consumed request (a frame, or its error), one error per
    failed write, one per receiver error.  Nothing is lost and nothing is duplicated. -/
theorem C07_conserve_partial (inp : Input) (s : Sys) (h : ReachableNC cfg inp s) (t : Tok) :
    (doneToks s).count t + (inflight s).count t = (sourceToks s).count t :=
  reachableNC_conserve (wf_of_sideConds side_conditions) h t

/-- no send on a closed channel and no double close, under every schedule, with `cancel` enabled in every
    state (so also in runs that are not cancelled) -/
theorem C07_no_panic (inp : Input) (s : Sys) (h : Reachable cfg inp s) : s.panic = false :=
  packet_no_panic_under_cancel (wf_of_sideConds side_conditions) h

/-- packet side of C12: after cancel the merged error channel can be closed by at most 8 steps of the
    mergeErrChan goroutines alone -/
theorem C07_errc_closes_after_cancel (inp : Input) (s : Sys) (h : Reachable cfg inp s) (hc : s.ctx = true) :
    ∃ evs s', evs.length ≤ 8 ∧ (∀ e ∈ evs, isReturnEv e = true) ∧ run cfg inp s evs = some s' ∧
      s'.merr.closed = true :=
  packet_errc_closes_after_cancel (wf_of_sideConds side_conditions) (returnGuarded_of_sideConds side_conditions) h hc

/-- **C07_final** (terminal form, partial): every uncancelled run with N ≥ 1 workers that has terminated
    (all goroutines returned, error stream drained) delivered, as a multiset, exactly one frame per
    error-free request to the writer and exactly one error per error request, failed build, failed write
    and receiver error to the error consumer — any N, any request list, any failure pattern, any schedule.
    Partial: frames are identified by the request the written packet was made for (`writtenG`); that the
    BYTES the writer saw are that request's bytes is `C07_bytes_full` (buffer exclusivity), not proved. -/
theorem C07_final_partial (inp : Input) (s : Sys) (h : ReachableNC cfg inp s) (hn : 0 < inp.n)
    (ht : Terminated s) :
    (s.writtenG.map Tok.frame ++ s.errsOut.map pktTok).Perm
      (inp.reqs.map tokOf ++ (writeErrs s.written).map Tok.err ++ inp.rcvErrs.map Tok.err) :=
  packet_final (wf_of_sideConds side_conditions) h hn ht

/-- **C07_done** (partial in the same sense): in every state of every uncancelled run in which `done` is
    closed, every error-free request of the input has already been handed to the writer (as many writes
    for it as it occurs in the input): completion is signalled only after the last frame. -/
theorem C07_done_partial (inp : Input) (s : Sys) (h : ReachableNC cfg inp s) (hn : 0 < inp.n)
    (hdone : s.done = true) (r : Req) :
    (s.writtenG.map Tok.frame).count (.frame r) = (inp.reqs.map tokOf).count (.frame r) :=
  packet_done (wf_of_sideConds side_conditions) h hn hdone r

/-! Full statements not yet proved (no proof claimed): byte exactness needs `BufInv` (buffer exclusivity,
    Proofs/ConcPacketDefs.lean), whose preservation proof is not written; progress is not written. -/

/-- terminal form: all goroutines returned and the error stream drained ⇒ the writer received exactly the
    frames built for the error-free requests, byte for byte, and the error stream carried exactly one
    error per failed request, failed build, failed write and receiver error -/
def C07_final_full : Prop :=
  ∀ (inp : Input) (s : Sys), ReachableNC cfg inp s → Terminated s →
    (s.written.map (·.1)).Perm (okFrames inp.reqs) ∧
    s.errsOut.Perm ((failErrs inp.reqs ++ writeErrs s.written ++ inp.rcvErrs).map Pkt.err)

/-- `done` closed ⇒ every frame has already been handed to the writer -/
def C07_done_full : Prop :=
  ∀ (inp : Input) (s : Sys), ReachableNC cfg inp s → s.done = true →
    (s.written.map (·.1)).Perm (okFrames inp.reqs) ∧ s.doneAt = some s.written.length

/-- the bytes the writer saw are the bytes built for the request the packet was made for (buffer
    exclusivity: pool, in-flight packets and workers never share a buffer identity) -/
def C07_bytes_full : Prop :=
  ∀ (inp : Input) (s : Sys), Reachable cfg inp s → s.written.map (·.1) = s.writtenG.map (·.frame)

/-- no deadlock given an error consumer (`consume` is a step of the system) -/
def C07_progress_full : Prop :=
  ∀ (inp : Input) (s : Sys), ReachableNC cfg inp s →
    Terminated s ∨ ∃ ev, ev ≠ Event.cancel ∧ (step cfg inp s ev).isSome = true

-- non-vacuity: the reference topology satisfies the side conditions, and a concrete run (2 workers, a good
-- request, an error request, a failing build; the write fails) is accepted by the step function and ends
-- terminated with the expected logs (tests, labelled as such)
example : SideConds reference := by decide

end SxVerif.C07
