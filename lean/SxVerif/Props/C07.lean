/-
C07 — Packet pipeline: nothing lost, duplicated or altered before the wire.
Property theorems only.  The system is `Pipe.step` (Model/Pipe.lean) instantiated with the configuration
read off the stage descriptors that sxfacts regenerates from generator.go / engine.go / sender.go /
memory.go (`Generated.packetTopology`); the side conditions are decided on that data.
-/
import SxVerif.Proofs.ConcPacketTerm
import SxVerif.Proofs.ConcPacket
import SxVerif.Proofs.ConcPacketBytes
import SxVerif.Proofs.ConcPacketProgress
import SxVerif.Generated.StagesPacket
import SxVerif.Generated.Problems
import SxVerif.Generated.JsonWriter

namespace SxVerif.C07
open SxVerif.Pipe SxVerif.Pipe.Desc SxVerif.Generated

theorem translator_clean : translatorProblems = [] := by decide

/-- SingleCloser, CloseAfterSenders, FreeAfterWrite, GetBeforeFill, CapsPositive, GuardedOnReturnPath and
    the shape of every goroutine, decided on the descriptors of the current tree -/
theorem side_conditions : SideConds packetTopology := by decide

/-- the model instance for the current tree -/
abbrev cfg : Cfg := cfgOf packetTopology

/-- **Conserve** (invariant): in every state of every run that is not cancelled — any number of workers,
    any request list, any writer failure pattern, any receiver errors, any interleaving, any number of
    steps — what reached the writer and the error consumer, plus what is in flight in any goroutine or
    channel, is exactly what entered: one token per consumed request (a frame, or its error), one error per
    failed write, one per receiver error.  Nothing is lost and nothing is duplicated. -/
theorem C07_conserve (inp : Input) (s : Sys) (h : ReachableNC cfg inp s) (t : Tok) :
    (doneToks s).count t + (inflight s).count t = (sourceToks s).count t :=
  reachableNC_conserve (wf_of_sideConds side_conditions) h t

/-- no send on a closed channel and no double close, under every schedule, with `cancel` enabled in every
    state (so also in runs that are not cancelled) -/
theorem C07_no_panic (inp : Input) (s : Sys) (h : Reachable cfg inp s) : s.panic = false :=
  packet_no_panic_under_cancel (wf_of_sideConds side_conditions) h

/-- packet side of C12: after cancel the merged error channel can be closed by at most 8 steps of the
    mergeErrChan goroutines alone -/
theorem C07_errc_closes_after_cancel (inp : Input) (s : Sys) (h : Reachable cfg inp s) (hc : s.ctx = true) :
    ∃ evs s', evs.length ≤ 8 ∧ (∀ e ∈ evs, isReturnEv e = true) ∧ run cfg inp s evs = some s' ∧
      s'.merr.closed = true :=
  packet_errc_closes_after_cancel (wf_of_sideConds side_conditions) (returnGuarded_of_sideConds side_conditions) h hc

/-- **buffer exclusivity** (`BufInv`, Proofs/ConcPacketDefs.lean), in every state of every run, cancellation
    included: the buffer identities held by in-flight packets (in a worker, a channel, a multiplexer, the
    sender), by workers that have taken but not yet filled one, and by the pool are pairwise distinct
    (`allBufs s` has no duplicates: a held buffer is not in the pool and is held once), all were handed out by
    the pool, and the memory of every buffer referenced by an in-flight packet holds the bytes `Fill` wrote
    for that packet's request.  Uses the side conditions FreeAfterWrite (sender: WritePacketData before
    FreeSerializeBuffer) and GetBeforeFill; `free_before_write_breaks_bytes` (Proofs/ConcPacketBytes.lean)
    shows that with the two sender calls swapped a reachable state violates `C07_bytes_full`. -/
theorem C07_buffer_exclusive (inp : Input) (s : Sys) (h : Reachable cfg inp s) : BufInv s :=
  reachable_bufInv (wf_of_sideConds side_conditions) h

/-- **byte exactness**: in every reachable state, under every schedule (cancelled or not), the k-th byte
    string handed to `WritePacketData` is, byte for byte, the frame `Fill` built for the request the k-th
    written packet was made for — no buffer is refilled, cleared or reused between `Fill` and the write. -/
theorem C07_bytes_full (inp : Input) (s : Sys) (h : Reachable cfg inp s) :
    s.written.map (·.1) = s.writtenG.map (·.frame) :=
  packet_bytes (wf_of_sideConds side_conditions) h

/-- **C07_final** (terminal form): every uncancelled run with N ≥ 1 workers (sx passes runtime.NumCPU()) that
    has terminated (all goroutines returned, error stream drained) handed to the writer, as a multiset of BYTE
    STRINGS, exactly the frames built for the error-free requests, and delivered to the error consumer, as a
    multiset, exactly one error per error request, failed build, failed write and receiver error — any N,
    any request list, any writer failure pattern, any schedule. -/
theorem C07_final_full (inp : Input) (s : Sys) (h : ReachableNC cfg inp s) (hn : 0 < inp.n) (ht : Terminated s) :
    (s.written.map (·.1)).Perm (okFrames inp.reqs) ∧
    s.errsOut.Perm ((failErrs inp.reqs ++ writeErrs s.written ++ inp.rcvErrs).map Pkt.err) :=
  packet_final_bytes (wf_of_sideConds side_conditions) h hn ht

/-- **C07_done**: in every state of every uncancelled run (N ≥ 1) in which `done` is closed, the byte strings
    handed to the writer so far are already exactly the frames of ALL error-free requests of the input, and
    `done` was closed at the current number of writes (no write after it): completion is signalled only
    after the last frame has been handed to the wire. -/
theorem C07_done_full (inp : Input) (s : Sys) (h : ReachableNC cfg inp s) (hn : 0 < inp.n) (hdone : s.done = true) :
    (s.written.map (·.1)).Perm (okFrames inp.reqs) ∧ s.doneAt = some s.written.length :=
  ⟨packet_done_bytes (wf_of_sideConds side_conditions) h hn hdone,
   packet_doneAt (wf_of_sideConds side_conditions) (reachableNC_reachable h) hdone⟩

/-- also in cancelled runs nothing is written after `done` was closed -/
theorem C07_no_write_after_done (inp : Input) (s : Sys) (h : Reachable cfg inp s) (hdone : s.done = true) :
    s.doneAt = some s.written.length :=
  packet_doneAt (wf_of_sideConds side_conditions) h hdone

/-- **progress**: an uncancelled run never deadlocks, given the error consumer: `Event.consume` (the drain
    loop of startScanEngine taking one item off the merged error channel) is a step of the system, enabled
    whenever that channel is non-empty — that is the whole consumer assumption.  In every reachable state
    either everything has returned and the stream is drained, or some step other than `cancel` is enabled. -/
theorem C07_progress_full (inp : Input) (s : Sys) (h : ReachableNC cfg inp s) :
    Terminated s ∨ ∃ ev, ev ≠ Event.cancel ∧ (step cfg inp s ev).isSome = true :=
  packet_progress (wf_of_sideConds side_conditions) (capsPos_of_sideConds side_conditions) h

/-- the weight of the sender's calls on a good packet in the current tree (`WritePacketData`, then
    `FreeSerializeBuffer`): 7 -/
theorem sender_calls_weight : callsW cfg.senderCalls = 7 := by decide

/-- **every execution is finite, with an explicit bound** — no fairness, no hypothesis on the schedule: along ANY
    event sequence the step function accepts from the initial state (any interleaving of the N workers, the
    multiplexers, the closers, the sender, the receiver, the error consumer and the garbage collector; cancelled
    anywhere, any number of times, or never), the number of steps other than `cancel` is at most
    `22·|requests| + 4·|receiver errors| + 4·N + 13`.  A potential (`Proofs/ConcPacketTerm.pot`) drops with every
    such step, in every state.  So no process of the packet pipeline can spin: what does not end is blocked. -/
theorem C07_steps_bounded (inp : Input) (evs : List Event) (s : Sys) (h : run cfg inp (init inp) evs = some s) :
    nonCancel evs ≤ 22 * inp.reqs.length + 4 * inp.rcvErrs.length + 4 * inp.n + 13 := by
  have hb := run_bound evs (init inp) s h
  have hi := pot_init cfg inp
  rw [sender_calls_weight] at hi
  omega

/-- **an uncancelled run ends, and ends complete**: an execution without `cancel` that cannot be extended (no step
    other than `cancel` is enabled where it stopped) has at most `22·|requests| + 4·|receiver errors| + 4·N + 13`
    steps and has `Terminated`: every process returned, every stream drained — and then (`C07_final_full`) every good
    request's frame has been written once and every error consumed.  `C07_progress_full` says such an execution is
    never stuck earlier; this is the liveness half of "it does exit" with the number of steps in closed form.
    (Steps, not time: that an enabled step is taken is the scheduler's part; that `WritePacketData` returns is the
    kernel's.) -/
theorem C07_uncancelled_run_ends (inp : Input) (evs : List Event) (s : Sys) (hnc : Event.cancel ∉ evs)
    (h : run cfg inp (init inp) evs = some s) (hmax : ∀ ev, ev ≠ Event.cancel → step cfg inp s ev = none) :
    Terminated s ∧ evs.length ≤ 22 * inp.reqs.length + 4 * inp.rcvErrs.length + 4 * inp.n + 13 := by
  refine ⟨?_, ?_⟩
  · rcases C07_progress_full inp s (reachableNC_run evs _ s ReachableNC.init hnc h) with ht | ⟨ev, hne, hs⟩
    · exact ht
    · simp [hmax ev hne] at hs
  · have := C07_steps_bounded inp evs s h
    rwa [nonCancel_of_not_mem evs hnc] at this

-- non-vacuity: the reference topology satisfies the side conditions, and a concrete run (2 workers, a good
-- request, an error request, a failing build; the write fails) is accepted by the step function and ends
-- terminated with the expected logs (tests, labelled as such)
example : SideConds reference := by decide

-- the hypothesis FreeAfterWrite is needed: the topology with the sender's calls swapped fails it, and its
-- system reaches a state where the writer saw another request's bytes
example : ¬ FreeAfterWrite swappedTopology := swapped_not_freeAfterWrite
example : ∃ s, Reachable (cfgOf swappedTopology) swappedInput s ∧
    s.written.map (·.1) = [[2]] ∧ s.writtenG.map (·.frame) = [[1]] := free_before_write_breaks_bytes


/-- (T) every error handed to the logger becomes one record at once, however many there are: the zap logger is the
    production configuration with sampling switched off and no further option (its sink is the process's stderr,
    locked, unbuffered: one `write(2)` per record, nothing kept in memory that a later `Sync` would have to save), and
    `(*logger).Error` is one call of it.  (zap itself is trusted; the dynamic side are the `…/mass`, `…/slowerr` and
    `…/errflood` cases of `e2eapp` and component `e2eerr`.) -/
theorem error_records_written_through :
    SxVerif.Generated.errorLoggerConfig = "zap.NewProductionConfig()" ∧
    SxVerif.Generated.errorLoggerConfAssigns = [("Sampling", "nil")] ∧
    SxVerif.Generated.errorLoggerCtor = ("conf.Build", 0) ∧
    SxVerif.Generated.loggerErrorBody = ["l.zapl.Error(l.label, zap.Error(err))"] := by decide

end SxVerif.C07
