/-
C03 — Detection exactness: a frame is reported iff it is a reply-shaped frame.
Property theorems only (lemmas: `Proofs/Bpf.lean`, `Proofs/Reply*.lean`, and C06's `Proofs/Frame*.lean`).

How the hypotheses of the property text enter.  `Spec.Reply.ReplyShape = WellFormedUnfragmented ∧ Shape`: being a
well-formed, unfragmented frame of the scanned protocol is a *conjunct* of the reply shape, and `C03_exact` /
`C03_iff` are unconditional — they also say that a malformed or fragmented frame is never reported, which is more
than the property demands.  `C03_property_form` is the statement in the property's own conditional form.
"Arrives before the scan exits" is C16's clause: `reported` is about a frame that is read while the engine runs.
-/
import SxVerif.Model.Wiring
import SxVerif.Spec.Reply
import SxVerif.Generated.Wiring
import SxVerif.Generated.Constants
import SxVerif.Generated.Problems
import SxVerif.Proofs.Reply
import SxVerif.Proofs.Snap

namespace SxVerif.C03
open SxVerif.Frame SxVerif.Proc SxVerif.Bpf SxVerif.Wiring SxVerif.Spec.Reply SxVerif.Generated

/-- the translator recognised every shape it read -/
theorem translator_clean : translatorProblems = [] := by decide

/-- `startPacketScanEngine` installs the filter of the very range it scans (per chunk: the chunk's copy) on a
    socket whose link type is Ethernet, or raw IPv4 exactly under `--vpn`, and runs the command's scan method
    behind it -/
theorem engine_facts : engineInstallsFilterOfItsRange = true ∧ linkTypeFollowsVpn = true := by decide

/-- each of the eight packet-scan commands has exactly one row -/
theorem wiring_complete :
    ∀ c ∈ [Cmd.arp, .icmp, .udp, .tcpSyn, .tcpFin, .tcpNull, .tcpXmas, .tcpFlags],
      (wiring.filter (fun row => row.cmd == c)).length = 1 := by decide

/-- every row is wired as the reply kind of its command demands (`Proofs.Reply.Compatible`: the filter function and
    processor of that kind, the prescribed flag printer, a packet filter implied by the BPF clause, `--vpn` reaching
    both the socket and the processor) — decided on the regenerated table -/
theorem wiring_compatible : ∀ row ∈ wiring, Proofs.Reply.Compatible row = true := by decide

/-- **C03, one frame.**  For every row of the regenerated wiring table, with or without `--vpn`, every range a
    scan can run with (any subnet or none, any list of port ranges — in particular every chunk), every prior
    contents of the processor's reused decoder structs and every byte string `f` on the wire: the row's
    processor exists, and what the installed filter followed by that processor puts on the result channel is
    exactly `replyRecord`: the record `fieldsOf f` if `f` is reply-shaped, nothing otherwise. -/
theorem C03_exact : ∀ row ∈ wiring, ∀ (vpn : Bool) (r : Range), RangeOK r = true → ∀ (st : State) (f : Bytes),
    ∃ scan, scanOf row vpn = some scan ∧
      reported (filterOf row.bpf r) (linkOf row vpn) scan st f =
        replyRecord row.scanName (kindOf row.cmd) r vpn f :=
  fun row hrow vpn _ hr st f =>
    Proofs.Reply.compatible_exact row (wiring_compatible row hrow) vpn hr st f

/-- **C03 in the words of the property**: a frame yields a record iff it has the reply shape of that scan; then it
    yields exactly one (`reported` is an `Option`), and that record carries the frame's own source address, source
    port and TCP flags / ICMP type, code and TTL / sender MAC; no other frame yields a record. -/
theorem C03_iff : ∀ row ∈ wiring, ∀ (vpn : Bool) (r : Range), RangeOK r = true → ∀ (st : State) (f : Bytes),
    ∃ scan, scanOf row vpn = some scan ∧
      ((∃ rec, reported (filterOf row.bpf r) (linkOf row vpn) scan st f = some rec) ↔
        ReplyShape (kindOf row.cmd) r vpn f = true) ∧
      (∀ rec, reported (filterOf row.bpf r) (linkOf row vpn) scan st f = some rec →
        fieldsOf row.scanName (kindOf row.cmd) vpn f = some rec) :=
  fun row hrow vpn _ hr st f =>
    Proofs.Reply.compatible_iff row (wiring_compatible row hrow) vpn hr st f

/-- the property's conditional form: for an unfragmented well-formed frame of the scanned protocol, reported iff
    the source address lies in the target subnet when one was given, the source port in the port ranges being
    scanned when ports were given, byte 13 is exactly SYN+ACK for the SYN scan, and the ICMP type is not
    echo-request -/
theorem C03_property_form : ∀ row ∈ wiring, ∀ (vpn : Bool) (r : Range), RangeOK r = true → ∀ (st : State) (f : Bytes),
    WellFormedUnfragmented (kindOf row.cmd) vpn f = true →
    ∃ scan, scanOf row vpn = some scan ∧
      ((reported (filterOf row.bpf r) (linkOf row vpn) scan st f).isSome = true ↔
        Shape (kindOf row.cmd) r vpn f = true) :=
  fun row hrow vpn _ hr st f hwf =>
    Proofs.Reply.compatible_property_form row (wiring_compatible row hrow) vpn hr st f hwf

/-- **C03, a whole capture**: frames in arrival order, the processor seeing only what the filter lets through and
    carrying its decoder structs from frame to frame, from any initial state: the i-th frame is reported iff it is
    reply-shaped, independently of everything that came before -/
theorem C03_history : ∀ row ∈ wiring, ∀ (vpn : Bool) (r : Range), RangeOK r = true → ∀ (st : State) (fs : List Bytes),
    ∃ scan, scanOf row vpn = some scan ∧
      reportedAll (filterOf row.bpf r) (linkOf row vpn) scan st fs =
        fs.map (replyRecord row.scanName (kindOf row.cmd) r vpn) :=
  fun row hrow vpn _ hr st fs =>
    Proofs.Reply.compatible_history row (wiring_compatible row hrow) vpn hr st fs

/-- libpcap compiles the filter of every row for the link type that row's socket has (it would refuse `arp` on a
    raw-IP socket, "expression rejects all packets"; the arp command has no `--vpn`), so `SetBPFFilter` succeeds and
    the scan starts -/
theorem C03_filters_compile : ∀ row ∈ wiring, ∀ (vpn : Bool) (r : Range),
    compiles (filterOf row.bpf r) (linkOf row vpn) = true :=
  fun row hrow vpn r => Proofs.Reply.compatible_compiles row (wiring_compatible row hrow) vpn r

/-- every chunk `Ports[i : min (i + chunkSize) len]` of a valid range is a valid range, so the theorems above apply to
    each engine run of `startPortScanEngine` with the ports *of that run* -/
theorem C03_chunks (r : Range) (hr : RangeOK r = true) (i : Nat) :
    RangeOK { r with ports := (r.ports.drop i).take chunkSize } = true :=
  Proofs.Reply.rangeOK_chunk r hr i chunkSize

/-! ### the capture length

The kernel runs the filter on the whole frame and copies only the first `n` bytes of an accepted frame into the ring,
`n` being the program's return value: the `maxPacketLength` the row's filter function returns (`snapLens`,
regenerated: 1518 for the tcp/icmp filters, 64 for arp).  `reportedSnap` is `reported` with that cut. -/

/-- the capture lengths read from the tree are the ones the model (and the `bpfr` correspondence) uses, one per
    filter function; they reach the socket unchanged; each covers the longest header chain its scan reads
    (Ethernet 14 + IPv4 60 + TCP 60 = 134; Ethernet 14 + ARP 28 = 42) and fits 16 bits -/
theorem snaplen_facts :
    snapLens = [FilterFn.tcp, .synack, .icmp, .arp].map (fun fn => (fn, snaplen fn)) ∧ snaplenReachesSocket = true ∧
    ∀ p ∈ snapLens, Proofs.Snap.minCapture p.1 ≤ p.2 ∧ p.2 ≤ 65535 := by decide

/-- **C03 with the capture length, in terms of what was captured** — every frame of every length, no side
    condition: what the filter (on the whole frame) followed by the processor (on the captured bytes) reports is
    exactly the reply record of the captured bytes. -/
theorem C03_snaplen_captured : ∀ row ∈ wiring, ∀ n, (row.bpf, n) ∈ snapLens →
    ∀ (vpn : Bool) (r : Range), RangeOK r = true → ∀ (st : State) (f : Bytes),
    ∃ scan, scanOf row vpn = some scan ∧
      reportedSnap (filterOf row.bpf r) (linkOf row vpn) n scan st f =
        replyRecord row.scanName (kindOf row.cmd) r vpn (captured n f) :=
  fun row hrow n hn vpn _ hr st f =>
    Proofs.Snap.compatible_snap_captured row (wiring_compatible row hrow) vpn hr st f (snaplen_facts.2.2 _ hn).1

/-- **C03 with the capture length, in terms of the frame on the wire** (the former `def C03_snaplen_full`, now
    without a length bound): for every frame of any length — jumbo frames, frames whose IPv4 total length exceeds
    what was captured, TCP payload cut off, ARP frames with trailing padding — the record reported is exactly
    `replyRecord` of the *whole* frame.  The one hypothesis `offloadWrap … f = false` excludes only a frame whose IPv4
    total-length field is 0 (segmentation offload) *and* that carries 65536 or more bytes behind the link header:
    `Spec/Frame.lean` reads the datagram length of such a frame modulo 65536 (gopacket's `uint16(len(data))`), which
    the processor never does because it sees at most 1518 bytes; for it `C03_snaplen_captured` is the statement.
    It is an explicit, decidable predicate, false of every frame an interface with an MTU below 65522 can deliver. -/
theorem C03_snaplen_full : ∀ row ∈ wiring, ∀ n, (row.bpf, n) ∈ snapLens →
    ∀ (vpn : Bool) (r : Range), RangeOK r = true → ∀ (st : State) (f : Bytes),
    offloadWrap (kindOf row.cmd) vpn f = false →
    ∃ scan, scanOf row vpn = some scan ∧
      reportedSnap (filterOf row.bpf r) (linkOf row vpn) n scan st f =
        replyRecord row.scanName (kindOf row.cmd) r vpn f :=
  fun row hrow n hn vpn _ hr st f hw =>
    Proofs.Snap.compatible_snap row (wiring_compatible row hrow) vpn hr st f (snaplen_facts.2.2 _ hn).1
      (snaplen_facts.2.2 _ hn).2 hw

/-- a whole capture with the cut: frames in arrival order, the processor seeing the captured bytes of what the
    filter lets through and carrying its decoder structs along, from any initial state -/
theorem C03_snaplen_history : ∀ row ∈ wiring, ∀ n, (row.bpf, n) ∈ snapLens →
    ∀ (vpn : Bool) (r : Range), RangeOK r = true → ∀ (st : State) (fs : List Bytes),
    (∀ f ∈ fs, offloadWrap (kindOf row.cmd) vpn f = false) →
    ∃ scan, scanOf row vpn = some scan ∧
      reportedAllSnap (filterOf row.bpf r) (linkOf row vpn) n scan st fs =
        fs.map (replyRecord row.scanName (kindOf row.cmd) r vpn) :=
  fun row hrow n hn vpn _ hr st fs hw =>
    Proofs.Snap.compatible_snap_history row (wiring_compatible row hrow) vpn hr st fs (snaplen_facts.2.2 _ hn).1
      (snaplen_facts.2.2 _ hn).2 hw

/-- **C03 from the wire.**  Linux removes an outer 802.1Q / 802.1ad tag from a received frame before a packet socket
    sees it, so the filter and the processor would take a tagged frame — of any VLAN on a trunk port — for an
    untagged one (defect found by the end-to-end component `e2ereply`; `kernelRx` models that step).
    `afpacket.Source.ReadPacketData` now skips frames that carried a tag (`dropsVlanTagged`, regenerated).  With
    that: for every frame `f` as it is *on the wire* — tagged or not, any length — kernel receive path, installed
    filter, cut to the capture length, tag check and processor together report exactly `replyRecord` of `f`. -/
theorem C03_wire : dropsVlanTagged = true ∧ ∀ row ∈ wiring, ∀ n, (row.bpf, n) ∈ snapLens →
    ∀ (vpn : Bool) (r : Range), RangeOK r = true → ∀ (st : State) (f : Bytes),
    offloadWrap (kindOf row.cmd) vpn f = false →
    ∃ scan, scanOf row vpn = some scan ∧
      reportedWire dropsVlanTagged (filterOf row.bpf r) (linkOf row vpn) n scan st f =
        replyRecord row.scanName (kindOf row.cmd) r vpn f :=
  ⟨by decide, fun row hrow n hn vpn _ hr st f hw =>
    Proofs.Snap.compatible_wire row (wiring_compatible row hrow) vpn hr st f (snaplen_facts.2.2 _ hn).1
      (snaplen_facts.2.2 _ hn).2 hw⟩

/-! ### non-vacuity (tests, labelled as such) -/

private def synAck : Bytes :=
  [0,0,0,0,0,1, 0,0,0,0,0,2, 8,0,
   0x46,0,0,44, 0,1,0x40,0, 64,6,0,0, 10,0,0,1, 10,0,0,2, 1,1,1,0,
   0,80, 0x80,0, 0,0,0,1, 0,0,0,2, 0x50,0x12,0xff,0xff, 0,0,0,0]
private def range1 : Range := { subnet := some ⟨0x0a000000, 24⟩, ports := [(22, 22), (80, 90)] }

example : RangeOK range1 = true := by decide
example : ReplyShape (.tcp true) range1 false synAck = true := by decide
example : ReplyShape (.tcp true) { range1 with ports := [(22, 22)] } false synAck = false := by decide
example : ReplyShape (.tcp true) { range1 with subnet := some ⟨0x0a000100, 24⟩ } false synAck = false := by decide
example : accepts (synackBPFFilter range1) .ethernet synAck = true := by decide
example : render (synackBPFFilter range1) =
    "tcp and ip src net 10.0.0.0/24 and (src portrange 22-22 or src portrange 80-90) and tcp[13] == 18" := by decide

/-- an ARP reply padded to 100 bytes: longer than the 64 bytes the arp filter captures -/
private def paddedArp : Bytes :=
  [0,0,0,0,0,1, 0,0,0,0,0,2, 8,6,
   0,1, 8,0, 6,4, 0,2, 2,0,0,0,0,2, 10,0,0,7, 2,0,0,0,0,1, 10,0,0,1] ++ List.replicate 58 0x55

example : paddedArp.length = 100 ∧ (captured 64 paddedArp).length = 64 := by decide
example : (.synack, 1518) ∈ snapLens ∧ (.arp, 64) ∈ snapLens := by decide
example : offloadWrap (.tcp true) false synAck = false ∧ offloadWrap .arp false paddedArp = false := by decide
example : ReplyShape .arp range1 false paddedArp = true ∧ ReplyShape .arp range1 false (captured 64 paddedArp) = true := by
  decide
example : replyRecord "" .arp range1 false paddedArp = some (.arp [10,0,0,7] [2,0,0,0,0,2]) := by decide
/-- the SYN-ACK above behind an 802.1Q tag (VLAN 1791): not reply-shaped on the wire; the socket would see `synAck` -/
private def taggedSynAck : Bytes := synAck.take 12 ++ [0x81, 0x00, 0x06, 0xff] ++ synAck.drop 12

example : kernelRx .ethernet taggedSynAck = .frame true synAck := by decide
example : ReplyShape (.tcp true) range1 false taggedSynAck = false := by decide
example : (reportedWire false (synackBPFFilter range1) .ethernet 1518
    (.tcp { scanType := "tcpsyn", filter := .synack, flagsFn := .empty, vpn := false }) {} taggedSynAck).isSome = true := by
  decide
example : reportedWire true (synackBPFFilter range1) .ethernet 1518
    (.tcp { scanType := "tcpsyn", filter := .synack, flagsFn := .empty, vpn := false }) {} taggedSynAck = none := by decide


/-- (T) the filter is applied to EVERY frame the processors see — also to the frames that reached the capture socket
    between its creation and the moment the filter was attached (at the start of the scan and of every port chunk; a
    SYN+ACK of any other host on the link arriving in that window was reported as an open port: D30):
    `afpacket.Source.ReadPacketData` runs the program that `SetBPFFilter` attached on each frame once more, in user
    space, and skips what it rejects.  `C03_wire` models exactly this: filter, then processor, for every frame. -/
theorem capture_filter_applied_to_every_frame : SxVerif.Generated.userSpaceFilter = true := by decide

end SxVerif.C03
