/-
C03 — Detection exactness: a frame is reported iff it is a reply-shaped frame.
Property theorems only (lemmas: `Proofs/Bpf.lean`, `Proofs/Reply*.lean`, and C06's `Proofs/Frame*.lean`).

How the hypotheses of the property text enter.  `Spec.Reply.ReplyShape = WellFormedUnfragmented ∧ Shape`: being a
well-formed, unfragmented frame of the scanned protocol is a *conjunct* of the reply shape, and `C03_exact` /
`C03_iff` are unconditional — they also say that a malformed or fragmented frame is never reported, which is more
than the property demands.  `C03_property_form` is the statement in the property's own conditional form.
"Arrives before the scan exits" is C16's clause: `reported` is about a frame that is read while the engine runs.
-/
import SxVerif.Model.Wiring
import SxVerif.Spec.Reply
import SxVerif.Generated.Wiring
import SxVerif.Generated.Constants
import SxVerif.Generated.Problems
import SxVerif.Proofs.Reply

namespace SxVerif.C03
open SxVerif.Frame SxVerif.Proc SxVerif.Bpf SxVerif.Wiring SxVerif.Spec.Reply SxVerif.Generated

/-- the translator recognised every shape it read -/
theorem translator_clean : translatorProblems = [] := by decide

/-- `startPacketScanEngine` installs the filter of the very range it scans (per chunk: the chunk's copy) on a
    socket whose link type is Ethernet, or raw IPv4 exactly under `--vpn`, and runs the command's scan method
    behind it -/
theorem engine_facts : engineInstallsFilterOfItsRange = true ∧ linkTypeFollowsVpn = true := by decide

/-- each of the eight packet-scan commands has exactly one row -/
theorem wiring_complete :
    ∀ c ∈ [Cmd.arp, .icmp, .udp, .tcpSyn, .tcpFin, .tcpNull, .tcpXmas, .tcpFlags],
      (wiring.filter (fun row => row.cmd == c)).length = 1 := by decide

/-- every row is wired as the reply kind of its command demands (`Proofs.Reply.Compatible`: the filter function and
    processor of that kind, the prescribed flag printer, a packet filter implied by the BPF clause, `--vpn` reaching
    both the socket and the processor) — decided on the regenerated table -/
theorem wiring_compatible : ∀ row ∈ wiring, Proofs.Reply.Compatible row = true := by decide

/-- **C03, one frame.**  For every row of the regenerated wiring table, with or without `--vpn`, every range a
    scan can run with (any subnet or none, any list of port ranges — in particular every chunk), every prior
    contents of the processor's reused decoder structs and every byte string `f` on the wire: the row's
    processor exists, and what the installed filter followed by that processor puts on the result channel is
    exactly `replyRecord`: the record `fieldsOf f` if `f` is reply-shaped, nothing otherwise. -/
theorem C03_exact : ∀ row ∈ wiring, ∀ (vpn : Bool) (r : Range), RangeOK r = true → ∀ (st : State) (f : Bytes),
    ∃ scan, scanOf row vpn = some scan ∧
      reported (filterOf row.bpf r) (linkOf row vpn) scan st f =
        replyRecord row.scanName (kindOf row.cmd) r vpn f :=
  fun row hrow vpn _ hr st f =>
    Proofs.Reply.compatible_exact row (wiring_compatible row hrow) vpn hr st f

/-- **C03 in the words of the property**: a frame yields a record iff it has the reply shape of that scan; then it
    yields exactly one (`reported` is an `Option`), and that record carries the frame's own source address, source
    port and TCP flags / ICMP type, code and TTL / sender MAC; no other frame yields a record. -/
theorem C03_iff : ∀ row ∈ wiring, ∀ (vpn : Bool) (r : Range), RangeOK r = true → ∀ (st : State) (f : Bytes),
    ∃ scan, scanOf row vpn = some scan ∧
      ((∃ rec, reported (filterOf row.bpf r) (linkOf row vpn) scan st f = some rec) ↔
        ReplyShape (kindOf row.cmd) r vpn f = true) ∧
      (∀ rec, reported (filterOf row.bpf r) (linkOf row vpn) scan st f = some rec →
        fieldsOf row.scanName (kindOf row.cmd) vpn f = some rec) :=
  fun row hrow vpn _ hr st f =>
    Proofs.Reply.compatible_iff row (wiring_compatible row hrow) vpn hr st f

/-- the property's conditional form: for an unfragmented well-formed frame of the scanned protocol, reported iff
    the source address lies in the target subnet when one was given, the source port in the port ranges being
    scanned when ports were given, byte 13 is exactly SYN+ACK for the SYN scan, and the ICMP type is not
    echo-request -/
theorem C03_property_form : ∀ row ∈ wiring, ∀ (vpn : Bool) (r : Range), RangeOK r = true → ∀ (st : State) (f : Bytes),
    WellFormedUnfragmented (kindOf row.cmd) vpn f = true →
    ∃ scan, scanOf row vpn = some scan ∧
      ((reported (filterOf row.bpf r) (linkOf row vpn) scan st f).isSome = true ↔
        Shape (kindOf row.cmd) r vpn f = true) :=
  fun row hrow vpn _ hr st f hwf =>
    Proofs.Reply.compatible_property_form row (wiring_compatible row hrow) vpn hr st f hwf

/-- **C03, a whole capture**: frames in arrival order, the processor seeing only what the filter lets through and
    carrying its decoder structs from frame to frame, from any initial state: the i-th frame is reported iff it is
    reply-shaped, independently of everything that came before -/
theorem C03_history : ∀ row ∈ wiring, ∀ (vpn : Bool) (r : Range), RangeOK r = true → ∀ (st : State) (fs : List Bytes),
    ∃ scan, scanOf row vpn = some scan ∧
      reportedAll (filterOf row.bpf r) (linkOf row vpn) scan st fs =
        fs.map (replyRecord row.scanName (kindOf row.cmd) r vpn) :=
  fun row hrow vpn _ hr st fs =>
    Proofs.Reply.compatible_history row (wiring_compatible row hrow) vpn hr st fs

/-- libpcap compiles the filter of every row for the link type that row's socket has (it would refuse `arp` on a
    raw-IP socket, "expression rejects all packets"; the arp command has no `--vpn`), so `SetBPFFilter` succeeds and
    the scan starts -/
theorem C03_filters_compile : ∀ row ∈ wiring, ∀ (vpn : Bool) (r : Range),
    compiles (filterOf row.bpf r) (linkOf row vpn) = true :=
  fun row hrow vpn r => Proofs.Reply.compatible_compiles row (wiring_compatible row hrow) vpn r

/-- every chunk `Ports[i : min (i + chunkSize) len]` of a valid range is a valid range, so the theorems above apply to
    each engine run of `startPortScanEngine` with the ports *of that run* -/
theorem C03_chunks (r : Range) (hr : RangeOK r = true) (i : Nat) :
    RangeOK { r with ports := (r.ports.drop i).take chunkSize } = true :=
  Proofs.Reply.rangeOK_chunk r hr i chunkSize

/-- NOT PROVED (a definition: nothing is claimed).  The kernel hands the processor only the first `snaplen` bytes of an
    accepted frame (the program's return value: 1518 for the tcp/icmp filters, 64 for arp), while the filter ran on the
    whole frame.  Every byte the processors and the reply shape read lies within the first 14 + 60 + 60 = 134 (arp: 42)
    bytes, so for frames of at most 65535 bytes behind the link header the truncation should change nothing; the
    theorems above are about the untruncated frame and the evidence lists "frames are not longer than the snap length,
    or truncation to it is harmless" as an assumption.  What is missing is `chain (f.take n) = chain f` for the three
    chains of `Spec/Frame.lean` and `n ≥ 134` (resp. 42). -/
def C03_snaplen_full : Prop :=
  ∀ row ∈ wiring, ∀ (vpn : Bool) (r : Range), RangeOK r = true → ∀ (st : State) (f : Bytes), f.length ≤ 65535 →
    ∃ scan, scanOf row vpn = some scan ∧
      (if accepts (filterOf row.bpf r) (linkOf row vpn) f
       then Proofs.Reply.emitted scan st (f.take (snaplen row.bpf)) else none) =
        replyRecord row.scanName (kindOf row.cmd) r vpn f

/-! ### non-vacuity (tests, labelled as such) -/

private def synAck : Bytes :=
  [0,0,0,0,0,1, 0,0,0,0,0,2, 8,0,
   0x46,0,0,44, 0,1,0x40,0, 64,6,0,0, 10,0,0,1, 10,0,0,2, 1,1,1,0,
   0,80, 0x80,0, 0,0,0,1, 0,0,0,2, 0x50,0x12,0xff,0xff, 0,0,0,0]
private def range1 : Range := { subnet := some ⟨0x0a000000, 24⟩, ports := [(22, 22), (80, 90)] }

example : RangeOK range1 = true := by decide
example : ReplyShape (.tcp true) range1 false synAck = true := by decide
example : ReplyShape (.tcp true) { range1 with ports := [(22, 22)] } false synAck = false := by decide
example : ReplyShape (.tcp true) { range1 with subnet := some ⟨0x0a000100, 24⟩ } false synAck = false := by decide
example : accepts (synackBPFFilter range1) .ethernet synAck = true := by decide
example : render (synackBPFFilter range1) =
    "tcp and ip src net 10.0.0.0/24 and (src portrange 22-22 or src portrange 80-90) and tcp[13] == 18" := by decide

end SxVerif.C03
