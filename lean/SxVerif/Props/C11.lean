/-
C11 — ARP output is a valid ARP cache; probes use the right destination MAC.
Property theorems only (proofs: Proofs/ArpCache.lean, on top of C14's Proofs/Json*.lean).
-/
import SxVerif.Model.ArpCache
import SxVerif.Spec.ArpCache
import SxVerif.Generated.Problems
import SxVerif.Generated.ArpCacheFacts
import SxVerif.Proofs.ArpCache
import SxVerif.Proofs.ComposeArp

namespace SxVerif.C11
open SxVerif.Json SxVerif.Gen SxVerif.ArpCache SxVerif.Compose

theorem translator_clean : Generated.translatorProblems = [] := by decide

/-- **tie (regenerated from the tree)**: the only writer of an ARP cache is `FillCache`, which only
    `parseARPCache` calls (option parsing, before any engine starts); nothing deletes.  So during the scan
    the cache is read-only and concurrent `Get`s (under the RWMutex) commute: the stage is a function of
    the loaded cache (`cacheStage`). -/
theorem C11_cache_immutable_during_scan :
    Generated.cachePutCallers = ["pkg/scan/arp/cache.go:FillCache"] ∧ Generated.cacheDeleteCallers = [] ∧
    Generated.fillCacheCallers = ["parseARPCache"] := by decide

/-- dotted-quad rendering parses back, all 2^32 addresses -/
theorem C11_ip_roundtrip (a b c d : UInt8) : parseIP (fmtIP a b c d) = some (ipNat a b c d) :=
  Proofs.ArpCache.parseIP_fmtIP a b c d

/-- MAC rendering parses back, all 2^48 addresses -/
theorem C11_mac_roundtrip (b0 b1 b2 b3 b4 b5 : UInt8) :
    parseMAC (fmtMAC b0 b1 b2 b3 b4 b5) = some [b0, b1, b2, b3, b4, b5] :=
  Proofs.ArpCache.parseMAC_fmtMAC b0 b1 b2 b3 b4 b5

/-- **every line the ARP scan prints is accepted by the loader and maps exactly the printed address to the
    printed MAC**, for every address, every MAC and every vendor string (any bytes) -/
theorem C11_line_loads (a b c d m0 m1 m2 m3 m4 m5 : UInt8) (vendor : GoStr) :
    fillCache [arpLine a b c d m0 m1 m2 m3 m4 m5 vendor]
      = some [(.v4 (ipNat a b c d) false, macNat [m0, m1, m2, m3, m4, m5])] := by
  simp [fillCache, Proofs.ArpCache.lineEntry_arpLine]

/-- **C11 ∘ C06 — what the ARP scan prints is a valid cache of what was on the wire**: for every byte string
    `f` handed to the ARP processor MODEL (`Model/Proc.lean`), in every prior state `st` of its reused decoder
    structs (so for every history of earlier frames), and for every vendor string: if a record is emitted,
    then `f` itself holds the Ethernet → ARP chain with hardware type 1, protocol 0x0800, sizes 6/4
    (`arpChain`, flat offsets, C06's `Faithful`), the record renders to a line (`arpRecordLine`:
    `net.IP.String()` / `HardwareAddr.String()` / `MarshalJSON` as modelled for C14), and `fillCache` accepts
    that line and loads exactly {sender protocol address of `f` (bytes 28..31) ↦ sender hardware address of
    `f` (bytes 22..27)} — nothing else, nothing from an earlier frame. -/
theorem C11_printed_line_loads (st : Frame.State) (f : Frame.Bytes) (r : Proc.Record) (vendor : GoStr)
    (h : (Proc.process .arp st f).2 = .record r) :
    ∃ v line, Spec.Frame.arpChain f = some v ∧ arpRecordLine r vendor = some line ∧
      fillCache [line] = some [(.v4 (macNat v.ip) false, macNat v.mac)] :=
  Proofs.Compose.printed_line_loads st f r vendor h

/-- a file is loaded line by line, in order: loading `l₁ ++ l₂` = loading `l₁`, then `l₂` on top -/
theorem C11_load_in_order (l1 l2 : List (List Char)) :
    fillCache (l1 ++ l2) = (fillCache l1).bind (fun c1 => (fillCache l2).map (c1 ++ ·)) :=
  Proofs.ArpCache.fillCache_append l1 l2

/-- the last entry for an address wins, under either spelling (4- or 16-byte) of stored and asked address -/
theorem C11_last_wins (c1 c2 : Cache) (a : Nat) (w w' : Bool) (m : Nat)
    (h2 : ∀ kv ∈ c2, kv.1.same (.v4 a w') = false) :
    cacheGet (c1 ++ (.v4 a w, m) :: c2) (.v4 a w') = some m :=
  Proofs.ArpCache.cacheGet_last c1 c2 a w w' m h2

/-- unknown extra fields, whatever their value, are skipped -/
theorem C11_unknown_fields_skipped (e : Entry) (key : List Char) (v : Spec.Json.JVal)
    (t : List (List Char × Spec.Json.JVal))
    (h1 : key ≠ ['i', 'p']) (h2 : key ≠ ['m', 'a', 'c']) (h3 : key ≠ ['v', 'e', 'n', 'd', 'o', 'r']) :
    decodeFields e ((key, v) :: t) = decodeFields e t :=
  Proofs.ArpCache.decodeFields_skip e key v t h1 h2 h3

/-- the request stage, request by request: own entry, else gateway, else error; error requests untouched -/
theorem C11_stage_choice (cache : Cache) (gw : Option Nat) (rs : List Req) :
    cacheStage cache gw rs = rs.map (fun r =>
      match r.err, r.dst with
      | some _, _ => r
      | none, none => { r with err := some .noMAC }
      | none, some a =>
        match cacheGet cache a, gw with
        | some m, _ => { r with dstMAC := some m }
        | none, some g => { r with dstMAC := some g }
        | none, none => { r with err := some .noMAC }) :=
  Proofs.ArpCache.cacheStage_choice cache gw rs

/-- never another host's MAC: the MAC a probe leaves with belongs to an entry for its own destination
    address, or is the gateway's when there is no such entry -/
theorem C11_never_foreign_mac (cache : Cache) (gw : Option Nat) (r : Req) (a : Addr) (m : Nat)
    (he : r.err = none) (hd : r.dst = some a) (hm : r.dstMAC = none) :
    ∀ q ∈ cacheStage cache gw [r], q.dstMAC = some m →
      (∃ kv ∈ cache, kv.1.same a = true ∧ kv.2 = m) ∨ (cacheGet cache a = none ∧ gw = some m) :=
  Proofs.ArpCache.cacheStage_never_foreign cache gw r a m he hd hm

-- non-vacuity (tests, labelled as such)
example : String.ofList (fmtIP 10 0 200 9) = "10.0.200.9" := by decide
example : String.ofList (fmtMAC 0 0x1b 0x21 0xa0 0x0f 0xff) = "00:1b:21:a0:0f:ff" := by decide
example : parseIP "01.2.3.4".toList = none ∧ parseIP "1.2.3.256".toList = none ∧ parseIP "::ffff:1.2.3.4".toList = some 16909060 := by
  decide
example : cacheGet [(.v4 5 false, 1), (.v4 6 false, 2), (.v4 5 true, 3)] (.v4 5 false) = some 3 := by decide

-- an ARP reply from 10.0.0.7 / 02:00:00:00:00:07 is reported, so the hypothesis of `C11_printed_line_loads` is met
example : (Proc.process .arp {}
    [0,0,0,0,0,1, 2,0,0,0,0,7, 8,6,  0,1, 8,0, 6,4, 0,2,  2,0,0,0,0,7, 10,0,0,7,  0,0,0,0,0,1, 10,0,0,1]).2
    = .record (.arp [10,0,0,7] [2,0,0,0,0,7]) := by decide

end SxVerif.C11
