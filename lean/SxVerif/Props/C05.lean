/-
C05 — Probe frames carry exactly the requested fields and are well formed.
Property theorems only (lemmas: `Proofs/Fill.lean` and its parts).  The decoder side (`ipFields`,
`tcpFields`, …, `csumValid`, `LinkOK`, `datagram`) is `Spec/Fill.lean`: RFC field offsets and the RFC 1071
sum, written without reference to the encoders of `Model/Fill.lean`.
-/
import SxVerif.Generated.Flags
import SxVerif.Generated.Fill
import SxVerif.Generated.Problems
import SxVerif.Model.Fill
import SxVerif.Spec.Fill
import SxVerif.Spec.Parse
import SxVerif.Proofs.Fill

namespace SxVerif.C05
open SxVerif.Frame (Bytes u16)
open SxVerif.Fill SxVerif.Spec.Fill SxVerif.Generated

theorem translator_clean : translatorProblems = [] := by decide

/-- the `math/rand` draws of the four fillers, regenerated from the source on every run, are the advertised
    ones: IP id `1 + Intn(65535)`, source port `32768 + Intn(28232)`, any 32-bit sequence number, ICMP id
    `1 + Intn(65535)`; nothing else is random.  These are the ranges `hid`, `hp`, `hs`, `hi` below. -/
theorem C05_draws :
    fillDraws = [("tcp", "IPv4.Id", "uint16", 1, 65535), ("tcp", "TCP.SrcPort", "TCPPort", 32768, 28232),
      ("tcp", "TCP.Seq", "uint32", 0, 4294967296), ("udp", "IPv4.Id", "uint16", 1, 65535),
      ("udp", "UDP.SrcPort", "UDPPort", 32768, 28232), ("icmp", "IPv4.Id", "uint16", 1, 65535),
      ("icmp", "ICMPv4.Id", "uint16", 1, 65535)] := by decide

/-- **C05, TCP**: for all 2^9 flag sets, all addresses/MACs/ports and all values of the three random
    draws, both link modes: the frame decodes (independent reader) to exactly the requested fields; IPv4
    header checksum and TCP checksum (over the pseudo-header) are valid; total length, IHL and data offset
    are consistent; IP id is non-zero and the source port lies in 32768..60999.  In VPN mode nothing is
    asked of the MACs. -/
theorem C05_tcp (vpn : Bool) (flags : Nat) (r : Req) (rndId rndPort rndSeq : Nat)
    (hr : ReqOK vpn r.srcIP r.dstIP r.srcMAC r.dstMAC r.dstPort) (hf : flags < 512)
    (hid : rndId < 65535) (hp : rndPort < 28232) (hs : rndSeq < 2 ^ 32) :
    ∃ frame, fillTCP vpn flags r rndId rndPort rndSeq = .ok frame ∧
      let dg := datagram vpn frame 52
      (vpn = false → LinkOK frame r.dstMAC r.srcMAC 0x0800 52) ∧
      dg.length = 52 ∧
      ipFields dg = some {
        version := 4, ihl := 5, totalLen := 52, id := 1 + rndId, flags := 2, fragOff := 0,
        ttl := 64, proto := 6, src := r.srcIP, dst := r.dstIP } ∧
      csumValid (dg.take 20) ∧
      tcpFields (dg.drop 20) = some {
        sport := 32768 + rndPort, dport := r.dstPort, seq := rndSeq, ack := 0,
        dataOff := 8, flags := flags, window := 64240, urgent := 0,
        options := [2, 4, 0x05, 0xb4, 4, 2, 3, 3, 7, 0, 0, 0], payload := [] } ∧
      csumValid (dg.drop 20) (pseudoSum r.srcIP r.dstIP 6 32) ∧
      1 ≤ 1 + rndId ∧ 1 + rndId ≤ 65535 ∧ 32768 ≤ 32768 + rndPort ∧ 32768 + rndPort ≤ 60999 :=
  Proofs.Fill.tcp_ok vpn flags r rndId rndPort rndSeq hr hf hid hp hs

/-- **C05, UDP**: all payloads (any length that fits an IPv4 datagram, odd lengths included), all
    TTL / IP-flag / protocol values; with `--iplen` the override appears verbatim and every other field
    is as without it (in particular the UDP length stays 8 + payload). -/
theorem C05_udp (o : IPOpts) (r : Req) (rndId rndPort : Nat)
    (hr : ReqOK o.vpn r.srcIP r.dstIP r.srcMAC r.dstMAC r.dstPort)
    (ho : o.ttl < 256 ∧ o.len < 65536 ∧ o.proto < 256 ∧ o.flags < 8 ∧ o.payload.length ≤ 65507)
    (hid : rndId < 65535) (hp : rndPort < 28232) :
    ∃ frame, fillUDP o r rndId rndPort = .ok frame ∧
      let n := 28 + o.payload.length
      let dg := datagram o.vpn frame n
      (o.vpn = false → LinkOK frame r.dstMAC r.srcMAC 0x0800 n) ∧
      dg.length = n ∧
      ipFields dg = some {
        version := 4, ihl := 5, totalLen := if o.len = 0 then n else o.len, id := 1 + rndId,
        flags := o.flags, fragOff := 0, ttl := o.ttl, proto := o.proto, src := r.srcIP, dst := r.dstIP } ∧
      csumValid (dg.take 20) ∧
      udpFields (dg.drop 20) = some {
        sport := 32768 + rndPort, dport := r.dstPort, len := 8 + o.payload.length, payload := o.payload } ∧
      csumValid (dg.drop 20) (pseudoSum r.srcIP r.dstIP 17 (8 + o.payload.length)) ∧
      1 ≤ 1 + rndId ∧ 1 + rndId ≤ 65535 ∧ 32768 ≤ 32768 + rndPort ∧ 32768 + rndPort ≤ 60999 :=
  Proofs.Fill.udp_ok o r rndId rndPort hr ho hid hp

/-- **C05, ICMP**: all types, codes and payloads; both ids non-zero -/
theorem C05_icmp (o : IPOpts) (typ code : Nat) (r : Req) (rndId rndIcmpId : Nat)
    (hr : ReqOK o.vpn r.srcIP r.dstIP r.srcMAC r.dstMAC r.dstPort)
    (ho : o.ttl < 256 ∧ o.len < 65536 ∧ o.proto < 256 ∧ o.flags < 8 ∧ o.payload.length ≤ 65507)
    (ht : typ < 256 ∧ code < 256) (hid : rndId < 65535) (hi : rndIcmpId < 65535) :
    ∃ frame, fillICMP o typ code r rndId rndIcmpId = .ok frame ∧
      let n := 28 + o.payload.length
      let dg := datagram o.vpn frame n
      (o.vpn = false → LinkOK frame r.dstMAC r.srcMAC 0x0800 n) ∧
      dg.length = n ∧
      ipFields dg = some {
        version := 4, ihl := 5, totalLen := if o.len = 0 then n else o.len, id := 1 + rndId,
        flags := o.flags, fragOff := 0, ttl := o.ttl, proto := o.proto, src := r.srcIP, dst := r.dstIP } ∧
      csumValid (dg.take 20) ∧
      icmpFields (dg.drop 20) = some {
        typ := typ, code := code, id := 1 + rndIcmpId, seq := 1, payload := o.payload } ∧
      csumValid (dg.drop 20) ∧
      1 ≤ 1 + rndId ∧ 1 + rndId ≤ 65535 ∧ 1 ≤ 1 + rndIcmpId ∧ 1 + rndIcmpId ≤ 65535 :=
  Proofs.Fill.icmp_ok o typ code r rndId rndIcmpId hr ho ht hid hi

/-- **C05, ARP**: a broadcast who-has for the requested address from the requested source -/
theorem C05_arp (r : Req) (hr : ArpReqOK r.srcIP r.dstIP r.srcMAC) :
    ∃ frame, fillARP r = .ok frame ∧
      LinkOK frame [0xff, 0xff, 0xff, 0xff, 0xff, 0xff] r.srcMAC 0x0806 28 ∧
      arpFields (frame.drop 14) = some {
        htype := 1, ptype := 0x0800, hlen := 6, plen := 4, oper := 1,
        sha := r.srcMAC, spa := r.srcIP, tha := [0, 0, 0, 0, 0, 0], tpa := r.dstIP } :=
  Proofs.Fill.arp_ok r hr

/-- in VPN mode the frame is the same datagram without the Ethernet header (and without the padding
    that only Ethernet adds); all draws, no range needed -/
theorem C05_vpn_same_datagram (flags : Nat) (r : Req) (a b c : Nat)
    (hr : ReqOK false r.srcIP r.dstIP r.srcMAC r.dstMAC r.dstPort) :
    ∃ dg frame, fillTCP true flags r a b c = .ok dg ∧ fillTCP false flags r a b c = .ok frame ∧
      (frame.drop 14).take dg.length = dg :=
  Proofs.Fill.vpn_same_tcp flags r a b c hr

theorem C05_vpn_same_datagram_udp (o : IPOpts) (r : Req) (a b : Nat)
    (hr : ReqOK false r.srcIP r.dstIP r.srcMAC r.dstMAC r.dstPort) :
    ∃ dg frame, fillUDP { o with vpn := true } r a b = .ok dg ∧ fillUDP { o with vpn := false } r a b = .ok frame ∧
      (frame.drop 14).take dg.length = dg :=
  Proofs.Fill.vpn_same_udp o r a b hr

theorem C05_vpn_same_datagram_icmp (o : IPOpts) (t c : Nat) (r : Req) (a b : Nat)
    (hr : ReqOK false r.srcIP r.dstIP r.srcMAC r.dstMAC r.dstPort) :
    ∃ dg frame, fillICMP { o with vpn := true } t c r a b = .ok dg ∧ fillICMP { o with vpn := false } t c r a b = .ok frame ∧
      (frame.drop 14).take dg.length = dg :=
  Proofs.Fill.vpn_same_icmp o t c r a b hr

/-- a request without a usable IPv4 source or destination, or (with an Ethernet header) without 6-byte
    MACs, never yields a frame -/
theorem C05_refused_tcp (vpn : Bool) (flags : Nat) (r : Req) (a b c : Nat)
    (h : to4 r.srcIP = none ∨ to4 r.dstIP = none ∨ (vpn = false ∧ (r.srcMAC.length ≠ 6 ∨ r.dstMAC.length ≠ 6))) :
    ∃ e, fillTCP vpn flags r a b c = .error e :=
  Proofs.Fill.refused_tcp vpn flags r a b c h

theorem C05_refused_udp (o : IPOpts) (r : Req) (a b : Nat)
    (h : to4 r.srcIP = none ∨ to4 r.dstIP = none ∨ (o.vpn = false ∧ (r.srcMAC.length ≠ 6 ∨ r.dstMAC.length ≠ 6))) :
    ∃ e, fillUDP o r a b = .error e :=
  Proofs.Fill.refused_udp o r a b h

theorem C05_refused_icmp (o : IPOpts) (t c : Nat) (r : Req) (a b : Nat)
    (h : to4 r.srcIP = none ∨ to4 r.dstIP = none ∨ (o.vpn = false ∧ (r.srcMAC.length ≠ 6 ∨ r.dstMAC.length ≠ 6))) :
    ∃ e, fillICMP o t c r a b = .error e :=
  Proofs.Fill.refused_icmp o t c r a b h

/-- the fillers see the addresses of a request only through `To4`: the 16-byte IPv4-mapped form of an
    address gives the same frame as its 4-byte form, so the theorems above cover both -/
theorem C05_addr_form (vpn : Bool) (flags : Nat) (o : IPOpts) (t c : Nat) (r r' : Req) (x y z : Nat)
    (hs : to4 r.srcIP = to4 r'.srcIP) (hd : to4 r.dstIP = to4 r'.dstIP)
    (hm : r.srcMAC = r'.srcMAC ∧ r.dstMAC = r'.dstMAC ∧ r.dstPort = r'.dstPort) :
    fillTCP vpn flags r x y z = fillTCP vpn flags r' x y z ∧ fillUDP o r x y = fillUDP o r' x y ∧
    fillICMP o t c r x y = fillICMP o t c r' x y :=
  ⟨Proofs.Fill.addr_form_tcp vpn flags r r' x y z hs hd hm, Proofs.Fill.addr_form_udp o r r' x y hs hd hm,
   Proofs.Fill.addr_form_icmp o t c r r' x y hs hd ⟨hm.1, hm.2.1⟩⟩

theorem C05_mapped (a : Bytes) (h : a.length = 4) : to4 ([0, 0, 0, 0, 0, 0, 0, 0, 0, 0, 0xff, 0xff] ++ a) = some a ∧ to4 a = some a :=
  ⟨Proofs.Fill.to4_mapped a h, Proofs.Fill.to4_of_len4 h⟩

/-! ### CLI side: the value parsed is the value the filler receives -/

/-- `--flags`: for every list of names the parser accepts (C18_tcpflags_exact: exactly the lists of table
    names), the flag set the command's filler is built with — each name through its row of the table
    regenerated from `tcpPacketFlagOptions`, the `WithXXX` options and the `layers.TCP` literal in `Fill` —
    is the set of RFC 793/3168/3540 bits the names denote, and it fits the 9 bits -/
theorem C05_cli_tcp_flags (names : List String) (h : ∀ n ∈ names, n ∈ tcpFlagTable.map (·.1)) :
    flagsOfNames tcpFlagTable names = flagSet names ∧ flagSet names < 512 :=
  Proofs.Fill.cli_flags names h

/-- composition with `C05_tcp`: the probe of `tcp --flags names` carries exactly the named flags -/
theorem C05_tcp_cli (vpn : Bool) (names : List String) (r : Req) (rndId rndPort rndSeq : Nat)
    (h : ∀ n ∈ names, n ∈ tcpFlagTable.map (·.1))
    (hr : ReqOK vpn r.srcIP r.dstIP r.srcMAC r.dstMAC r.dstPort)
    (hid : rndId < 65535) (hp : rndPort < 28232) (hs : rndSeq < 2 ^ 32) :
    ∃ frame t, fillTCP vpn (flagsOfNames tcpFlagTable names) r rndId rndPort rndSeq = .ok frame ∧
      tcpFields ((datagram vpn frame 52).drop 20) = some t ∧ t.flags = flagSet names :=
  Proofs.Fill.tcp_cli vpn names r rndId rndPort rndSeq h hr hid hp hs

/-- the fixed-flag subcommands (`tcp syn`, `tcp fin`, `tcp null`, `tcp xmas`): the flag set their filler options
    give the header, over the option lists regenerated from command/tcp_*.go, is the set that defines the
    scan type: SYN; FIN; none; FIN+PSH+URG -/
theorem C05_subcommand_flags :
    tcpSubcommandFlags.map (fun e => (e.1, e.2.foldl (fun acc f => acc ||| tcpFieldBit f) 0)) =
      [("syn", 2), ("fin", 1), ("null", 0), ("xmas", 1 + 8 + 32)] := by decide

/-- `--ipflags`: every value the parser can return (C18_ipflags_exact: the union of the table bits of the
    names) fits the 3-bit field, i.e. satisfies the `o.flags < 8` hypothesis of `C05_udp` / `C05_icmp`;
    `--ttl`, `--ipproto`, `--type`, `--code` are `uint8` flags and `--iplen` a `uint16` flag, which gives the
    other bounds -/
theorem C05_cli_ipflags (names : List String) (v : Nat) (h : Spec.Parse.flagBits ipFlagTable names = some v) : v < 8 :=
  Proofs.Fill.cli_ipflags names v h

/-! ### non-vacuity (tests, labelled as such) -/

-- a frame captured from the real filler with these draws, reproduced byte for byte by the model
example : fillTCP true 0 { srcIP := [221, 241, 88, 26], dstIP := [182, 149, 37, 226], srcMAC := [], dstMAC := [], dstPort := 7826 } 52054 18705 1905190105
    = .ok [69, 0, 0, 52, 203, 87, 64, 0, 64, 6, 92, 233, 221, 241, 88, 26, 182, 149, 37, 226, 201, 17, 30, 146, 113, 142, 228, 217, 0, 0, 0, 0, 128, 0, 250, 240, 30, 155, 0, 0, 2, 4, 5, 180, 4, 2, 3, 3, 7, 0, 0, 0] := by rfl

-- the hypotheses are satisfiable: a VPN request with empty MACs, an Ethernet request, an ARP request
example : ReqOK true [10, 0, 0, 1] [10, 0, 0, 2] [] [] 443 := ⟨rfl, rfl, by decide, by simp⟩
example : ReqOK false [10, 0, 0, 1] [10, 0, 0, 2] [2, 0, 0, 0, 0, 1] [2, 0, 0, 0, 0, 2] 65535 := ⟨rfl, rfl, by decide, by simp⟩
example : ArpReqOK [10, 0, 0, 1] [10, 0, 0, 2] [2, 0, 0, 0, 0, 1] := ⟨rfl, rfl, rfl⟩
example : flagSet ["syn", "ack", "ns"] = 274 := by decide
-- odd payload: the checksum of a 3-byte UDP payload checks
example : ∃ f, fillUDP { ttl := 64, len := 0, proto := 17, flags := 2, payload := [1, 2, 3], vpn := true }
    { srcIP := [10, 0, 0, 1], dstIP := [10, 0, 0, 2], srcMAC := [], dstMAC := [], dstPort := 53 } 0 0 = .ok f ∧
    csumValid (f.drop 20) (pseudoSum [10, 0, 0, 1] [10, 0, 0, 2] 17 11) := ⟨_, rfl, by decide⟩

end SxVerif.C05
