/-
C05 — Probe frames carry exactly the requested fields and are well formed.
Property theorems only (lemmas: `Proofs/Fill.lean`).  The flag-name → header-bit half (CLI side) is
C18's `flag_tables` + `C18_tcpflags_*`; here the filler takes the 9-bit flag set.
-/
import SxVerif.Model.Fill
import SxVerif.Spec.Fill
import SxVerif.Proofs.Fill

namespace SxVerif.C05
open SxVerif.Frame (Bytes u16) SxVerif.Fill SxVerif.Spec.Fill

/-- the IP datagram inside a frame: the frame itself in VPN mode, else what follows the Ethernet header
    (cut to the IP total length, i.e. without Ethernet padding) -/
def datagram (vpn : Bool) (frame : Bytes) (len : Nat) : Bytes :=
  if vpn then frame else (frame.drop 14).take len

/-- link layer of a non-VPN frame: requested MACs, EtherType, padded to the 60-byte minimum with zeros -/
def LinkOK (frame : Bytes) (dstMAC srcMAC : Bytes) (etherType dgLen : Nat) : Prop :=
  frame.take 6 = dstMAC ∧ (frame.drop 6).take 6 = srcMAC ∧ u16 frame 12 = some etherType ∧
  frame.length = max 60 (14 + dgLen) ∧ ∀ b ∈ frame.drop (14 + dgLen), b = 0

/-- **C05, TCP**: for all 2^9 flag sets, all addresses/MACs/ports and all values of the three random
    draws, both link modes: the frame decodes (independent reader) to exactly the requested fields; IPv4
    header checksum and TCP checksum (over the pseudo-header) are valid; total length, IHL and data offset
    are consistent; IP id is non-zero and the source port lies in 32768..60999. -/
theorem C05_tcp (vpn : Bool) (flags : Nat) (r : Req) (rndId rndPort rndSeq : Nat)
    (hr : ReqOK r.srcIP r.dstIP r.srcMAC r.dstMAC r.dstPort) (hf : flags < 512)
    (hid : rndId < 65535) (hp : rndPort < 28232) (hs : rndSeq < 2 ^ 32) :
    ∃ frame, fillTCP vpn flags r rndId rndPort rndSeq = .ok frame ∧
      let dg := datagram vpn frame 52
      (vpn = false → LinkOK frame r.dstMAC r.srcMAC 0x0800 52) ∧
      dg.length = 52 ∧
      ipFields dg = some { version := 4, ihl := 5, totalLen := 52, id := 1 + rndId, flags := 2, fragOff := 0,
                           ttl := 64, proto := 6, src := r.srcIP, dst := r.dstIP } ∧
      csumValid (dg.take 20) ∧
      tcpFields (dg.drop 20) = some { sport := 32768 + rndPort, dport := r.dstPort, seq := rndSeq, ack := 0,
        dataOff := 8, flags := flags, window := 64240, urgent := 0,
        options := [2, 4, 0x05, 0xb4, 4, 2, 3, 3, 7, 0, 0, 0], payload := [] } ∧
      csumValid (dg.drop 20) (pseudoSum r.srcIP r.dstIP 6 32) ∧
      1 ≤ 1 + rndId ∧ 1 + rndId ≤ 65535 ∧ 32768 ≤ 32768 + rndPort ∧ 32768 + rndPort ≤ 60999 :=
  Proofs.Fill.tcp_ok vpn flags r rndId rndPort rndSeq hr hf hid hp hs

/-- **C05, UDP**: all payloads (any length that fits an IPv4 datagram, odd lengths included), all
    TTL / IP-flag / protocol values; with `--iplen` the override appears verbatim and every other field
    is as without it (in particular the UDP length stays 8 + payload). -/
theorem C05_udp (o : IPOpts) (r : Req) (rndId rndPort : Nat)
    (hr : ReqOK r.srcIP r.dstIP r.srcMAC r.dstMAC r.dstPort)
    (ho : o.ttl < 256 ∧ o.len < 65536 ∧ o.proto < 256 ∧ o.flags < 8 ∧ o.payload.length ≤ 65507)
    (hid : rndId < 65535) (hp : rndPort < 28232) :
    ∃ frame, fillUDP o r rndId rndPort = .ok frame ∧
      let n := 28 + o.payload.length
      let dg := datagram o.vpn frame n
      (o.vpn = false → LinkOK frame r.dstMAC r.srcMAC 0x0800 n) ∧
      dg.length = n ∧
      ipFields dg = some { version := 4, ihl := 5, totalLen := if o.len = 0 then n else o.len, id := 1 + rndId,
                           flags := o.flags, fragOff := 0, ttl := o.ttl, proto := o.proto, src := r.srcIP, dst := r.dstIP } ∧
      csumValid (dg.take 20) ∧
      udpFields (dg.drop 20) = some { sport := 32768 + rndPort, dport := r.dstPort, len := 8 + o.payload.length,
                                      payload := o.payload } ∧
      csumValid (dg.drop 20) (pseudoSum r.srcIP r.dstIP 17 (8 + o.payload.length)) ∧
      1 ≤ 1 + rndId ∧ 1 + rndId ≤ 65535 ∧ 32768 ≤ 32768 + rndPort ∧ 32768 + rndPort ≤ 60999 :=
  Proofs.Fill.udp_ok o r rndId rndPort hr ho hid hp

/-- **C05, ICMP**: all types, codes and payloads -/
theorem C05_icmp (o : IPOpts) (typ code : Nat) (r : Req) (rndId rndIcmpId : Nat)
    (hr : ReqOK r.srcIP r.dstIP r.srcMAC r.dstMAC r.dstPort)
    (ho : o.ttl < 256 ∧ o.len < 65536 ∧ o.proto < 256 ∧ o.flags < 8 ∧ o.payload.length ≤ 65507)
    (ht : typ < 256 ∧ code < 256) (hid : rndId < 65535) (hi : rndIcmpId < 65535) :
    ∃ frame, fillICMP o typ code r rndId rndIcmpId = .ok frame ∧
      let n := 28 + o.payload.length
      let dg := datagram o.vpn frame n
      (o.vpn = false → LinkOK frame r.dstMAC r.srcMAC 0x0800 n) ∧
      dg.length = n ∧
      ipFields dg = some { version := 4, ihl := 5, totalLen := if o.len = 0 then n else o.len, id := 1 + rndId,
                           flags := o.flags, fragOff := 0, ttl := o.ttl, proto := o.proto, src := r.srcIP, dst := r.dstIP } ∧
      csumValid (dg.take 20) ∧
      icmpFields (dg.drop 20) = some { typ := typ, code := code, id := 1 + rndIcmpId, seq := 1, payload := o.payload } ∧
      csumValid (dg.drop 20) :=
  Proofs.Fill.icmp_ok o typ code r rndId rndIcmpId hr ho ht hid hi

/-- **C05, ARP**: a broadcast who-has for the requested address from the requested source -/
theorem C05_arp (r : Req) (hr : ReqOK r.srcIP r.dstIP r.srcMAC r.dstMAC r.dstPort) :
    ∃ frame, fillARP r = .ok frame ∧
      LinkOK frame [0xff, 0xff, 0xff, 0xff, 0xff, 0xff] r.srcMAC 0x0806 28 ∧
      arpFields (frame.drop 14) = some { htype := 1, ptype := 0x0800, hlen := 6, plen := 4, oper := 1,
        sha := r.srcMAC, spa := r.srcIP, tha := [0, 0, 0, 0, 0, 0], tpa := r.dstIP } :=
  Proofs.Fill.arp_ok r hr

/-- in VPN mode the frame is the same datagram without the Ethernet header (and without the padding
    that only Ethernet adds) -/
theorem C05_vpn_same_datagram (flags : Nat) (r : Req) (a b c : Nat)
    (hr : ReqOK r.srcIP r.dstIP r.srcMAC r.dstMAC r.dstPort) :
    ∃ dg frame, fillTCP true flags r a b c = .ok dg ∧ fillTCP false flags r a b c = .ok frame ∧
      (frame.drop 14).take dg.length = dg :=
  Proofs.Fill.vpn_same_tcp flags r a b c hr

theorem C05_vpn_same_datagram_udp (o : IPOpts) (r : Req) (a b : Nat)
    (hr : ReqOK r.srcIP r.dstIP r.srcMAC r.dstMAC r.dstPort) :
    ∃ dg frame, fillUDP { o with vpn := true } r a b = .ok dg ∧ fillUDP { o with vpn := false } r a b = .ok frame ∧
      (frame.drop 14).take dg.length = dg :=
  Proofs.Fill.vpn_same_udp o r a b hr

theorem C05_vpn_same_datagram_icmp (o : IPOpts) (t c : Nat) (r : Req) (a b : Nat)
    (hr : ReqOK r.srcIP r.dstIP r.srcMAC r.dstMAC r.dstPort) :
    ∃ dg frame, fillICMP { o with vpn := true } t c r a b = .ok dg ∧ fillICMP { o with vpn := false } t c r a b = .ok frame ∧
      (frame.drop 14).take dg.length = dg :=
  Proofs.Fill.vpn_same_icmp o t c r a b hr

/-- a request without a usable IPv4 source or destination never yields a frame -/
theorem C05_bad_addresses_refused (vpn : Bool) (flags : Nat) (r : Req) (a b c : Nat)
    (h : to4 r.srcIP = none ∨ to4 r.dstIP = none) : ∃ e, fillTCP vpn flags r a b c = .error e := by
  unfold fillTCP
  rcases h with h | h
  · simp [h]
  · cases hs : to4 r.srcIP <;> simp [h]

-- non-vacuity (test, labelled as such): a frame captured from the real filler with these draws,
-- reproduced byte for byte by the model
example : fillTCP true 0 { srcIP := [221, 241, 88, 26], dstIP := [182, 149, 37, 226], srcMAC := [], dstMAC := [], dstPort := 7826 } 52054 18705 1905190105
    = .ok [69, 0, 0, 52, 203, 87, 64, 0, 64, 6, 92, 233, 221, 241, 88, 26, 182, 149, 37, 226, 201, 17, 30, 146, 113, 142, 228, 217, 0, 0, 0, 0, 128, 0, 250, 240, 30, 155, 0, 0, 2, 4, 5, 180, 4, 2, 3, 3, 7, 0, 0, 0] := by decide

end SxVerif.C05
