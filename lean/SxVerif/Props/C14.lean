/-
C14 — JSON output: one complete, faithful JSON object per result, in order.
Property theorems only (proofs: Proofs/Json*.lean).
-/
import SxVerif.Model.Json
import SxVerif.Spec.Json
import SxVerif.Generated.Problems
import SxVerif.Generated.JsonWriter
import SxVerif.Proofs.JsonLog

namespace SxVerif.C14
open SxVerif.Json SxVerif.Spec.Json

theorem translator_clean : Generated.translatorProblems = [] := by decide

/-- **tie (generated from command/log on every run)**: `JSONResultWriter.Write` hands its writer to exactly
    one call, `fmt.Fprintf(w, "%s\n", data)` with `data` = the result's `MarshalJSON()`, outside any loop — so
    one result is one write of `render r ++ "\n"` (`Json.line`); `LogResults` calls the writer exactly once,
    in the select case that received a result, with the sink and that result, and uses the sink for nothing
    else but constructing the (never written-to) bufio wrapper. -/
theorem C14_one_write_per_result :
    Generated.jsonWriterSinkCalls = [("fmt.Fprintf", "%s\n", "result.MarshalJSON")] ∧
    Generated.jsonWriterLoops = 0 ∧
    Generated.logResultsWriteCalls = [("recv results", "recv.w", "received")] ∧
    Generated.logResultsOtherSinkUses = ["bufio.NewWriter"] ∧
    Generated.logResultsSelects = 1 := by decide

/-- strings, easyjson (`jwriter.String`): for EVERY Go string — any bytes, valid UTF-8 or not — the
    independent reader, started after the opening quote, returns the string (an invalid byte read as
    U+FFFD) and stops exactly after the closing quote, whatever follows. -/
theorem C14_string_easyjson (s : GoStr) (rest : List Char) :
    readStrBody none (escEasy s ++ '"' :: rest) = some (sanitize s, rest) :=
  Proofs.Json.read_escEasy s rest

/-- the same for `encoding/json`'s escaper (HTML-escaping on) -/
theorem C14_string_encodingjson (s : GoStr) (rest : List Char) :
    readStrBody none (escStd s ++ '"' :: rest) = some (sanitize s, rest) :=
  Proofs.Json.read_escStd s rest

/-- a valid-UTF-8 string is read back exactly -/
theorem C14_valid_string_exact (s : List Char) : sanitize (ofChars s) = s :=
  Proofs.Json.sanitize_ofChars s

/-- numbers: `strconv` decimal rendering read back to the same integer, for every integer -/
theorem C14_integer (i : Int) : readIntLit (intDigits i) = some i :=
  Proofs.Json.readIntLit_int i

/-- server-supplied values (elastic maps, docker Info/Version): for every well-formed value tree of any
    depth and size, the rendered text reads back as the same tree (Go maps as their members in key order) -/
theorem C14_value (v : GoVal) (hw : wf v = true) (rest : List Char) (hr : rest = [] ∨ rest = ['}']) :
    readValue ((renderVal v ++ rest).length + 1) (renderVal v ++ rest) = some (meaning v, rest) := by
  have hwn := Proofs.Json.wf_norm v hw
  apply Proofs.Json.reads_val (norm v) hwn
  · have := Proofs.Json.cost_le (norm v) hwn
    simp only [renderVal, List.length_append]; omega
  · rcases hr with rfl | rfl
    · exact Proofs.Json.restOk_nil
    · exact Proofs.Json.restOk_of_head _ _ (by decide)

/-- writing a Go map in key order loses and invents no member -/
theorem C14_map_members (m : List (List Char × GoVal)) : (sortKV m).Perm m :=
  Proofs.Json.sortKV_perm m

/-- **ARP** line, valid strings: exactly the documented keys with exactly the field values -/
theorem C14_arp (ip mac vendor : List Char) :
    readObject (render (.arp ⟨ofChars ip, ofChars mac, ofChars vendor⟩))
      = some [(k "ip", .str ip), (k "mac", .str mac), (k "vendor", .str vendor)] := by
  have := (Proofs.Json.arp_ok ⟨ofChars ip, ofChars mac, ofChars vendor⟩).1
  simpa [fieldsOf, Proofs.Json.sanitize_ofChars] using this

/-- **TCP** line (`flags` present iff non-empty) -/
theorem C14_tcp (scan ip flags : List Char) (port : UInt16) :
    readObject (render (.tcp ⟨ofChars scan, ofChars ip, port, ofChars flags⟩))
      = some ([(k "scan", .str scan), (k "ip", .str ip), (k "port", .int port.toNat)]
          ++ (if flags.isEmpty then [] else [(k "flags", .str flags)])) := by
  have := (Proofs.Json.tcp_ok ⟨ofChars scan, ofChars ip, port, ofChars flags⟩).1
  simp only [fieldsOf, Proofs.Json.sanitize_ofChars] at this
  cases flags with
  | nil => simpa [ofChars] using this
  | cons c t => simpa [ofChars] using this

/-- **ICMP / UDP** line (`icmp` is `null` or the `{type, code}` object) -/
theorem C14_icmp (scan ip : List Char) (ttl : UInt8) (icmp : Option (UInt8 × UInt8)) :
    readObject (render (.icmp ⟨ofChars scan, ofChars ip, ttl, icmp⟩))
      = some [(k "scan", .str scan), (k "ip", .str ip), (k "ttl", .int ttl.toNat),
              (k "icmp", match icmp with
                | none => .null
                | some (t, c) => .obj [(k "type", .int t.toNat), (k "code", .int c.toNat)])] := by
  have := (Proofs.Json.icmp_ok ⟨ofChars scan, ofChars ip, ttl, icmp⟩).1
  cases icmp <;> simpa [fieldsOf, Proofs.Json.sanitize_ofChars] using this

/-- **SOCKS5** line (`auth` present iff true) -/
theorem C14_socks (scan ip : List Char) (version : Int) (port : UInt16) (auth : Bool) :
    readObject (render (.socks ⟨ofChars scan, version, ofChars ip, port, auth⟩))
      = some ([(k "scan", .str scan), (k "version", .int version), (k "ip", .str ip), (k "port", .int port.toNat)]
          ++ (if auth then [(k "auth", .bool true)] else [])) := by
  have := (Proofs.Json.socks_ok ⟨ofChars scan, version, ofChars ip, port, auth⟩).1
  simpa [fieldsOf, Proofs.Json.sanitize_ofChars] using this

/-- **Elasticsearch** line: the two server-supplied maps, whatever they contain -/
theorem C14_elastic (scan proto host : List Char) (info indexes : GoVal) (h1 : wf info = true) (h2 : wf indexes = true) :
    readObject (render (.elastic ⟨ofChars scan, ofChars proto, ofChars host, info, indexes⟩))
      = some [(k "scan", .str scan), (k "proto", .str proto), (k "host", .str host),
              (k "info", meaning info), (k "indexes", meaning indexes)] := by
  have := (Proofs.Json.elastic_ok ⟨ofChars scan, ofChars proto, ofChars host, info, indexes⟩ ⟨h1, h2⟩).1
  simpa [fieldsOf, Proofs.Json.sanitize_ofChars] using this

/-- **Docker** line: Info and Version trees, whatever they contain -/
theorem C14_docker (scan proto host : List Char) (info version : GoVal) (h1 : wf info = true) (h2 : wf version = true) :
    readObject (render (.docker ⟨ofChars scan, ofChars proto, ofChars host, info, version⟩))
      = some [(k "scan", .str scan), (k "proto", .str proto), (k "host", .str host),
              (k "info", meaning info), (k "version", meaning version)] := by
  have := (Proofs.Json.docker_ok ⟨ofChars scan, ofChars proto, ofChars host, info, version⟩ ⟨h1, h2⟩).1
  simpa [fieldsOf, Proofs.Json.sanitize_ofChars] using this

/-- the full statement for arbitrary BYTE strings in the flat fields would ask for the exact bytes back,
    i.e. that the line determines the fields.  Both encoders replace every invalid byte by U+FFFD, so this
    is false of the code for strings that are not valid UTF-8 (and no decoder producing these fields can
    yield such bytes).  Not claimed. -/
def C14_full : Prop :=
  ∀ a b : ArpResult, render (.arp a) = render (.arp b) → a.ip = b.ip ∧ a.mac = b.mac ∧ a.vendor = b.vendor

/-- **`C14_full` does not hold**: the byte strings `ff` and `fe` in the address field render to the same line
    (each invalid byte becomes U+FFFD), so the line does not determine arbitrary bytes — which is why the
    statement for arbitrary bytes is `C14_any_bytes_partial` (the sanitised value is read back). -/
theorem C14_full_fails : ¬ C14_full := by
  intro h
  have := (h ⟨[.bad 0xff], [], []⟩ ⟨[.bad 0xfe], [], []⟩ (by decide)).1
  revert this
  decide

/-- **any bytes** (`_partial`: for strings that are not valid UTF-8 the value read back is the sanitised
    string — each invalid byte as U+FFFD — not the original bytes): every result of every type, with
    arbitrary byte strings in every string field, is still one complete object with the documented keys -/
theorem C14_any_bytes_partial (r : Result) (hw : resultWf r = true) :
    readObject (render r) = some (fieldsOf r) :=
  (Proofs.Json.result_ok r hw).1

/-- a rendered result never contains a newline: one result is one line -/
theorem C14_single_line (r : Result) (hw : resultWf r = true) : '\n' ∉ render r :=
  fun h => (Proofs.Json.result_ok r hw).2 '\n' h rfl

/-- the writes issued for a run are the results' lines, one write each, in channel order (`n` = number of
    results received before cancellation was seen; `n ≥ length` = channel closed) -/
theorem C14_writes_in_order (rs : List Result) (n : Nat) :
    logWrites rs n = (rs.take n).map (fun r => render r ++ ['\n']) := rfl

/-- … so the output, cut at newlines, is exactly the rendered results in order: never merged, never split -/
theorem C14_output_lines (rs : List Result) (hw : ∀ r ∈ rs, resultWf r = true) (n : Nat) :
    linesOf (logOutput rs n) = some ((rs.take n).map render) :=
  Proofs.Json.log_lines rs hw n

/-- de-duplication = first occurrences by ID, for every input sequence -/
theorem C14_uniq_first_occurrences {α κ : Type} [DecidableEq κ] (id : α → κ) (l : List α) :
    uniq id l = firstOccurrences id l :=
  Proofs.Json.uniq_eq id l

/-- every ID that occurs is printed, and printed once (no ID twice in the output) -/
theorem C14_uniq_exactly_once {α κ : Type} [DecidableEq κ] (id : α → κ) (l : List α) :
    ((uniq id l).map id).Nodup ∧ ∀ x ∈ l, id x ∈ (uniq id l).map id := by
  rw [Proofs.Json.uniq_eq]
  exact ⟨Proofs.Json.first_nodup id l, Proofs.Json.first_covers id l⟩

/-- order is preserved, and what is printed for an ID is its first sighting -/
theorem C14_uniq_order_first_sighting {α κ : Type} [DecidableEq κ] (id : α → κ) (l : List α) :
    (uniq id l).Sublist l ∧
    ∀ r ∈ uniq id l, ∃ pre post, l = pre ++ r :: post ∧ ∀ q ∈ pre, id q ≠ id r := by
  rw [Proofs.Json.uniq_eq]
  exact ⟨Proofs.Json.first_sublist id l, Proofs.Json.first_is_first id l⟩

-- non-vacuity (tests, labelled as such)
example : String.ofList (render (.arp ⟨ofChars "10.0.0.1".toList, ofChars "aa:bb".toList, [.ch '<', .bad 0xff, .ch '"']⟩))
    = "{\"ip\":\"10.0.0.1\",\"mac\":\"aa:bb\",\"vendor\":\"\\u003c\\ufffd\\\"\"}" := by decide
example : wf (.map [(['b'], .arr [.null, .num ['1', '.', '5']]), (['a'], .int (-5))]) = true := by decide
example : String.ofList (renderVal (.map [(['b'], .arr [.null, .num ['1', '.', '5']]), (['a'], .int (-5))]))
    = "{\"a\":-5,\"b\":[null,1.5]}" := by decide
example : (uniq (fun (x : Nat × Nat) => x.1) [(1, 10), (2, 20), (1, 30), (3, 40), (2, 50)]) = [(1, 10), (2, 20), (3, 40)] := by
  decide

end SxVerif.C14
