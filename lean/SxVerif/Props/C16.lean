/-
C16 — Exit delay is honoured: late replies are still reported, then it exits.
Property theorems only.  Transition system: `Model/Engine.lean`, here with an EXTERNAL producer
(`ext`, the packet receiver: it reads a frame only while the derived ctx is live and then `Put`s it) and
the `startScanEngine` controller with a logical clock (`tick`).  All theorems hold for every request
list, every `ext` script, every W and every schedule (induction over `Reachable`).
-/
import SxVerif.Proofs.EngineC12
import SxVerif.Generated.StagesEngine
import SxVerif.Generated.Constants
import SxVerif.Generated.Receiver
import SxVerif.Generated.Problems

namespace SxVerif.C16
open SxVerif.Engine SxVerif.Generated SxVerif.StageDesc

theorem translator_clean : translatorProblems = [] := by decide

/-- (T) `--exit-delay` (default `defaultExitDelay` = 300 ms) is a flag of both option structs, reaches
    `withExitDelay` in every one of the 11 commands, `newEngineConfig` starts from the default and
    `withExitDelay` assigns it; the controller is `<-done; <-time.After(conf.exitDelay); cancel()` in this
    order, with unguarded receives, and it is the only caller of `cancel` besides `main`'s deferred one -/
theorem exit_delay_wired :
    exitDelayWiring.map (·.1) = ["arp", "docker", "elastic", "icmp", "socks", "tcp", "tcp_fin", "tcp_null",
      "tcp_syn", "tcp_xmas", "udp"] ∧ exitDelayWiring.all (·.2) = true ∧
    exitDelayFlags.length = 2 ∧ exitDelayFlags.all (·.2) = true ∧ exitDelayConfig = true ∧
    defaultExitDelayNs = 300000000 ∧ controllerShape controllerOrder = true ∧
    guardsAsModelled engineStages = true ∧ guardedOnReturnPath engineStages = true := by decide

/-- (T) a reply that arrives during the exit delay is read in time only if the receive loop is not
    asleep: its pause after an unknown read error is a constant of the source (regenerated from
    receiver.go; a back-off or any other non-constant wait is a translator problem), and that constant is
    at most a tenth of the default exit delay -/
theorem receiver_pause_small : 0 < recvErrorPauseNs ∧ recvErrorPauseNs * 10 ≤ defaultExitDelayNs := by decide

variable {c : Cfg} {reqs : List Req} {ext : List (Nat × Nat)} {s : Sys}

/-- **not before the delay**: whenever the controller has cancelled (at clock `tc`), `done` was closed at
    some `td` with `td + delay ≤ tc` — on every path, Ctrl-C or not -/
theorem C16_delay_respected (hr : Reachable c (init reqs ext) s) (tc : Nat) (h : s.cancelAt = some tc) :
    ∃ td, s.doneAt = some td ∧ td + c.delay ≤ tc ∧ tc ≤ s.clock := by
  have := (inv1 hr).cancelAt (by simp [h])
  obtain ⟨h1, h2, h3⟩ := this
  cases hd : s.doneAt with
  | none => simp [hd] at h1
  | some td => exact ⟨td, rfl, by simpa [hd, h] using h2, by simpa [h] using h3⟩

/-- **nobody else cancels**: the derived ctx is cancelled only by the controller (after done + delay) or
    because the command ctx (Ctrl-C) fired; in particular without Ctrl-C, `derCtx` ⇒ `clock ≥ doneAt + delay` -/
theorem C16_cancel_provenance (hr : Reachable c (init reqs ext) s) (hd : s.derCtx = true) :
    s.cmdCtx = true ∨ ∃ td tc, s.doneAt = some td ∧ s.cancelAt = some tc ∧ td + c.delay ≤ tc ∧ tc ≤ s.clock := by
  rcases (inv1 hr).derProv hd with h | h
  · exact Or.inl h
  · right
    cases hc : s.cancelAt with
    | none => simp [hc] at h
    | some tc =>
      obtain ⟨td, h1, h2, h3⟩ := C16_delay_respected hr tc hc
      exact ⟨td, tc, h1, rfl, h2, h3⟩

/-- **a late reply is taken**: while the derived ctx is live the receiver can read the next frame that
    has arrived, and a frame that was read can always be enqueued as soon as there is room — the
    cancellation of the derived ctx does not disable the `Put` -/
theorem C16_late_reply_accepted (t v : Nat) (rest : List (Nat × Nat)) (hpc : s.extPc = .idle)
    (he : s.ext = (t, v) :: rest) (hd : s.derCtx = false) (ht : t ≤ s.clock) :
    (next c s .extRead).isSome = true ∧
    ∀ s₁, next c s .extRead = some s₁ → ∀ s₂, s₂.extPc = s₁.extPc → s₂.intRes.length < c.capRes →
      (next c s₂ .extPut).isSome = true := by
  refine ⟨by simp [next, hpc, he, hd, ht], ?_⟩
  intro s₁ h1 s₂ h2 h3
  simp [next, hpc, he, hd, ht] at h1
  subst h1
  simp at h2
  simp [next, h2, h3]

/-- **… and not lost**: without Ctrl-C every frame the receiver read is enqueued or in its hand; the
    result path is FIFO and lossless also across the controller's cancel (`printed ++ inflight = puts`),
    and the Puts are the detections of the engine plus the receiver's records -/
theorem C16_late_reply_enqueued (hW : 0 < c.W) (hr : Reachable c (init reqs ext) s) (hnc : s.cmdCtx = false) :
    s.extReads = s.extPuts ++ extHand s.extPc ∧ s.printed ++ s.inflight = s.puts ∧
    (s.puts ++ holdPut s.workers).Perm ((s.scans.filter isPos).map (·.id) ++ s.extPuts) := by
  have h2 := inv2 hW hr hnc
  refine ⟨h2.ext, ?_, puts_perm_ext h2⟩
  simpa [Sys.inflight, List.append_assoc] using h2.fifo

/-- the controller's `cancel()` itself touches no channel, no record and not the receiver's hand -/
theorem C16_controller_drops_nothing {s' : Sys} (hn : next c s .ctlCancel = some s') :
    s'.inflight = s.inflight ∧ s'.puts = s.puts ∧ s'.printed = s.printed ∧ s'.extPc = s.extPc ∧
    s'.intRes = s.intRes ∧ s'.results = s.results := ctlCancel_keeps hn

/-- **then it does exit**: once the derived ctx is cancelled (delay over, or Ctrl-C), (1) as long as
    `startScanEngine` has not returned some process it waits for can move, (2) along every execution
    these processes take at most `rank c s` steps in total, (3) `rank c s` is at most the closed expression
    `4·capRes + 2·capErr + 7·W + 5·|pending| + 12`; in application scans without Ctrl-C `pending = []`
    and all workers have returned, i.e. the bound is in the capacities alone -/
theorem C16_returns_bounded (hr : Reachable c (init reqs ext) s) (hd : s.derCtx = true) :
    (s.main = .waiting → ∃ l, isRP l = true ∧ (next c s l).isSome = true) ∧
    (∀ ls s', exec c s ls = some s' → (ls.filter isRP).length + rank c s' ≤ rank c s) ∧
    rank c s ≤ rankBound c s.pending.length :=
  ⟨progress (inv0 hr) (inv1 hr) hd, fun ls _ h => exec_rp_bound (fun _ h => inv0 h) ls s hr hd h,
   rank_bound (inv0 hr)⟩

/-- **every record it printed is complete**: the output changes only by `logWrite`, which appends exactly
    the one whole record the logger holds; everything printed was handed to `Put` -/
theorem C16_records_complete (hr : Reachable c (init reqs ext) s) {l : Label} {s' : Sys}
    (hn : next c s l = some s') :
    ((l = .logWrite ∧ ∃ v, s.log = .writing v ∧ s'.printed = s.printed ++ [v]) ∨
     (l ≠ .logWrite ∧ s'.printed = s.printed)) ∧ (∀ v ∈ s.printed, v ∈ s.puts) :=
  ⟨printed_only_logWrite hn, printed_sub hr⟩

/-- the part that is NOT claimed: that the enqueued late record is also *printed* needs the drain
    hypothesis of C08 (`C08.DrainedAtCancel`); see `C08_drain_partial`. -/
def C16_full : Prop :=
  ∀ (c : Cfg) (reqs : List Req) (ext : List (Nat × Nat)) (s : Sys), 0 < c.W → Reachable c (init reqs ext) s →
    s.cmdCtx = false → s.main = .returned → ∀ v ∈ s.extReads, v ∈ s.printed

/-! ### non-vacuity (test): done at 0, reply at tick 1 of a 2-tick delay, printed, cancel at 2, return -/

def exCfg : Cfg := { W := 1, capErr := 2, capRes := 2, delay := 2 }
def exSched : List Label :=
  [.spawn, .genClose, .worker 0 .closedExit, .wgWait, .closeErrc, .closeDone, .ctlDone, .tick, .extRead, .extPut,
   .copRecv, .copSend, .logRecv, .logWrite, .tick, .ctlTimer, .ctlCancel, .logCtx, .drainExit, .mainReturn]
def exView (s : Sys) : MainPc × List Nat × Option Nat × Option Nat × List Nat :=
  (s.main, s.printed, s.doneAt, s.cancelAt, s.extReads)

example : (exec exCfg (init [] [(1, 7)]) exSched).map exView = some (.returned, [7], some 0, some 2, [7]) := by rfl
/-- cancelling one tick early is not a step of the system -/
example : (exec exCfg (init [] []) [.spawn, .genClose, .worker 0 .closedExit, .wgWait, .closeErrc, .closeDone,
    .ctlDone, .tick, .ctlTimer]).isSome = false := by rfl

/-- a reply read and `Put` in the first tick of a two-tick delay; copier and logger are not scheduled before the
    controller cancels -/
def lateDropSched : List Label :=
  [.spawn, .genClose, .worker 0 .closedExit, .wgWait, .closeErrc, .closeDone, .ctlDone, .tick, .extRead, .extPut,
   .tick, .ctlTimer, .ctlCancel, .logCtx, .drainExit, .mainReturn]

/-- **`C16_full` does not hold** of the model: the late reply was read and handed to `Put` inside the delay
    (`C16_late_accepted`), yet a schedule that starves the copier/logger until the controller's `cancel()` ends with it
    not printed.  What C16 can promise without a scheduling hypothesis is therefore exactly what is proved above;
    printing needs `C08.DrainedAtCancel`. -/
theorem C16_full_fails : ¬ C16_full := by
  intro h
  have hex : exec exCfg (init [] [(1, 7)]) lateDropSched
      = some ((exec exCfg (init [] [(1, 7)]) lateDropSched).get (by decide)) := by simp
  have hr := exec_reachable (c := exCfg) lateDropSched _ Reachable.init hex
  have hp := h exCfg [] [(1, 7)] _ (by decide) hr (by decide) (by decide) 7 (by decide)
  revert hp
  decide

end SxVerif.C16
