/-
C20 — Receiver survives every sequence of read faults as specified.
Property theorems only.
-/
import SxVerif.Model.Recv
import SxVerif.Spec.Recv
import SxVerif.Generated.Problems
import SxVerif.Generated.Receiver

namespace SxVerif.C20
open SxVerif.Recv SxVerif.Spec.Recv

/-- (T) the translator recognised the shape of the receive loop of pkg/packet/receiver.go: it leaves in exactly
    four places (ctx at the loop head, a broken socket, ctx while reporting a read error, ctx while reporting a
    processing error), comes round early in exactly two (a temporary error; after the constant pause that follows an
    unknown error) and hands every frame that was read without an error to the processor — no count of failures and
    no property of the capture info ends the loop or skips a frame (`Model/Recv.loop` is that loop) -/
theorem translator_clean : SxVerif.Generated.translatorProblems = [] := by decide

/-- the code's two classification functions realise the property's three kinds on the vocabulary -/
theorem classify_matches_kind (e : Err) :
    classify e = (match kindOf e with
      | .transient => .temporary | .broken => .unrecoverable | .unknown => .unknown) := by
  cases e <;> rfl

private theorem positions_cons (p : Outcome → Bool) (o : Outcome) (rest : List Outcome) (n base : Nat) :
    (((o :: rest).take (n + 1)).zipIdx base |>.filter (fun (x, _) => p x)).map (·.2)
      = (if p o then [base] else []) ++ ((rest.take n).zipIdx (base + 1) |>.filter (fun (x, _) => p x)).map (·.2) := by
  simp only [List.take_succ_cons, List.zipIdx_cons, List.filter_cons]
  split <;> simp

/-- generalised statement: the loop from position `pos` -/
private theorem loop_spec (cancel : Option Nat) (outs : List Outcome) (pos : Nat)
    (hc : ∀ k, cancel = some k → pos ≤ k) :
    let n := (match cancel with
      | some k => min (k - pos) (match outs.findIdx? isBroken with | some i => i + 1 | none => outs.length)
      | none => (match outs.findIdx? isBroken with | some i => i + 1 | none => outs.length))
    loop cancel pos outs =
      ⟨((outs.take n).zipIdx pos |>.filter (fun (o, _) => isFrame o)).map (·.2),
       ((outs.take n).zipIdx pos |>.filter (fun (o, _) => isReported o)).map (·.2),
       pos + n⟩ := by
  induction outs generalizing pos with
  | nil => cases cancel <;> simp [loop]
  | cons o rest ih =>
    have ih' := ih (pos + 1)
    by_cases hcp : cancel = some pos
    · subst hcp; simp [loop]
    · have hc' : ∀ k, cancel = some k → pos + 1 ≤ k := by
        intro k hk
        have := hc k hk
        rcases Nat.lt_or_ge pos k with h | h
        · omega
        · have : k = pos := by omega
          subst this; exact absurd hk hcp
      specialize ih' hc'
      -- how the lifetime of `o :: rest` relates to that of `rest`
      cases o with
      | err e =>
        cases hcl : classify e with
        | temporary =>
          have hk : kindOf e = .transient := by cases e <;> simp_all [classify, isTemporary, isUnrecoverable, kindOf]
          have hb : isBroken (.err e) = false := by simp [isBroken, hk]
          have hr : isReported (.err e) = false := by simp [isReported, hk]
          simp only [loop, hcp, if_false, hcl]
          rw [ih']
          cases cancel with
          | none =>
            simp only [List.findIdx?_cons, hb]
            cases hfi : rest.findIdx? isBroken <;>
              simp [hfi, List.take_succ_cons, List.zipIdx_cons, isFrame, hr] <;> omega
          | some k =>
            have hk1 := hc' k rfl
            have hkk : k - pos = (k - (pos + 1)) + 1 := by omega
            simp only [List.findIdx?_cons, hb, hkk]
            cases hfi : rest.findIdx? isBroken <;>
              simp [hfi, Nat.succ_min_succ, List.take_succ_cons, List.zipIdx_cons, isFrame, hr] <;> omega
        | unrecoverable =>
          have hk : kindOf e = .broken := by cases e <;> simp_all [classify, isTemporary, isUnrecoverable, kindOf]
          have hb : isBroken (.err e) = true := by simp [isBroken, hk]
          have hr : isReported (.err e) = false := by simp [isReported, hk]
          simp only [loop, hcp, if_false, hcl]
          cases cancel with
          | none => simp [List.findIdx?_cons, hb, isFrame, hr]
          | some k =>
            have hk1 := hc' k rfl
            have : min (k - pos) 1 = 1 := by omega
            simp [List.findIdx?_cons, hb, this, isFrame, hr]
        | unknown =>
          have hk : kindOf e = .unknown := by cases e <;> simp_all [classify, isTemporary, isUnrecoverable, kindOf]
          have hb : isBroken (.err e) = false := by simp [isBroken, hk]
          have hr : isReported (.err e) = true := by simp [isReported, hk]
          simp only [loop, hcp, if_false, hcl]
          rw [ih']
          cases cancel with
          | none =>
            simp only [List.findIdx?_cons, hb]
            cases hfi : rest.findIdx? isBroken <;>
              simp [hfi, List.take_succ_cons, List.zipIdx_cons, isFrame, hr] <;> omega
          | some k =>
            have hk1 := hc' k rfl
            have hkk : k - pos = (k - (pos + 1)) + 1 := by omega
            simp only [List.findIdx?_cons, hb, hkk]
            cases hfi : rest.findIdx? isBroken <;>
              simp [hfi, Nat.succ_min_succ, List.take_succ_cons, List.zipIdx_cons, isFrame, hr] <;> omega
      | frame pe =>
        have hb : isBroken (.frame pe) = false := rfl
        simp only [loop, hcp, if_false]
        rw [ih']
        cases cancel with
        | none =>
          simp only [List.findIdx?_cons, hb]
          cases hfi : rest.findIdx? isBroken <;> cases pe <;>
            simp [hfi, List.take_succ_cons, List.zipIdx_cons, isFrame, isReported] <;> omega
        | some k =>
          have hk1 := hc' k rfl
          have hkk : k - pos = (k - (pos + 1)) + 1 := by omega
          simp only [List.findIdx?_cons, hb, hkk]
          cases hfi : rest.findIdx? isBroken <;> cases pe <;>
            simp [hfi, Nat.succ_min_succ, List.take_succ_cons, List.zipIdx_cons, isFrame, isReported] <;> omega

/-- **C20**: for every finite sequence of read outcomes and every cancellation point, the receiver
    processes exactly the frames read before it ended, each once and in order; reports exactly the
    unknown failures and processing errors, each once and in order; retries transient failures
    silently; and ends exactly at the first broken-socket outcome or at cancellation. -/
theorem C20 (outs : List Outcome) (cancel : Option Nat) :
    holds outs cancel (receive outs cancel) = true := by
  have h := loop_spec cancel outs 0 (by intro k _; omega)
  cases cancel with
  | none =>
    simp only [] at h
    simp only [receive, holds, lifetime, positions, h]
    cases hfi : List.findIdx? isBroken outs <;> simp
  | some k =>
    simp only [Nat.sub_zero] at h
    simp only [receive, holds, lifetime, positions, h]
    cases hfi : List.findIdx? isBroken outs <;> simp

-- non-vacuity: a history that exercises every clause (test, labelled as such)
example : receive [.frame false, .err .eagain, .err .other, .frame true, .err .netTimeout, .frame false,
                   .err .eof, .frame false] none
    = ⟨[0, 3, 5], [2, 3], 7⟩ := by decide
example : receive [.frame false, .err .other, .frame true, .frame false] (some 2) = ⟨[0], [1], 2⟩ := by decide

end SxVerif.C20
