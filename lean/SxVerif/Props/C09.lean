/-
C09 — SOCKS5 probe: reported iff the server answers 05 00; always time-bounded.
Property theorems only (lemmas: Proofs/SocksDecision.lean, Proofs/SocksTime.lean).

The model (`Model/Socks.lean`) is instantiated with the constants regenerated from
pkg/scan/socks5/{socks5.go,message.go} on every run (`genCfg`: request version/methods, the operands
of the decision, the `SetLinger` argument); the connect and data timeouts are universally quantified
("all timeout settings").  Every theorem quantifies over ALL scripts: every dial outcome, every write
outcome, every finite sequence of read events (any chunking of any bytes, delays, EOF, reset, silence),
every behaviour of the peer towards our FIN, and every cancellation instant.
-/
import SxVerif.Model.Socks
import SxVerif.Model.SocksGen
import SxVerif.Spec.Socks
import SxVerif.Proofs.SocksDecision
import SxVerif.Proofs.SocksTime
import SxVerif.Generated.Socks
import SxVerif.Generated.Problems

namespace SxVerif.C09
open SxVerif.Socks SxVerif.Spec.Socks SxVerif.Generated

theorem translator_clean : translatorProblems = [] := by decide

/-- The probe's request is the RFC 1928 greeting `05 01 00`: whenever `Scan` writes, it hands exactly
    these three bytes to `conn.Write` (one buffer, one call). -/
theorem C09_greeting (dialT dataT : Dur) (tgt : Target) (s : Script) :
    (scan (genCfg dialT dataT) tgt s).wrote = none ∨
    (scan (genCfg dialT dataT) tgt s).wrote = some rfcGreeting :=
  Proofs.Socks.scan_wrote (genCfg dialT dataT) tgt s

/-- `MethodRequest.WriteTo`, for ALL versions and method lists: the bytes written parse back, with an
    independent RFC 1928 reader, to the same version and methods exactly when the list has at most 255
    entries (`NMethods` is `byte(len(methods))`, it wraps beyond that). -/
theorem C09_method_request (ver : UInt8) (methods : List UInt8) :
    parseGreeting (greeting ver methods) = some (ver, methods) ↔ methods.length ≤ 255 :=
  Proofs.Socks.greeting_parses_iff ver methods

/-- **Decision.**  A record for the probed target is returned iff the TCP connection succeeded, the
    greeting was sent and the first two bytes of the reply are `05 00` — for every reply prefix, every
    split of it across reads, every delay pattern and every cancellation instant (`Spec.reply`:
    bytes with their arrival instants; a gap of a data timeout or more, EOF, reset or silence ends
    the reply; a cancellation before the second byte is there voids it). -/
theorem C09_decision (dialT dataT : Dur) (tgt : Target) (s : Script) :
    (scan (genCfg dialT dataT) tgt s).outcome = .reported tgt ↔ shouldReport dialT dataT s = true := by
  have h := Proofs.Socks.scan_reported_iff (genCfg dialT dataT) tgt s
  have hv : (genCfg dialT dataT).expectVer = 5 := by show UInt8.ofNat socksExpectVer = 5; decide
  have hm : (genCfg dialT dataT).expectMethod = 0 := by show UInt8.ofNat socksExpectMethod = 0; decide
  rw [hv, hm] at h
  rw [h]
  simp [shouldReport, genCfg]

/-- The record carries the probed address and port (no other record can come out). -/
theorem C09_record (dialT dataT : Dur) (tgt t : Target) (s : Script)
    (h : (scan (genCfg dialT dataT) tgt s).outcome = .reported t) : t = tgt :=
  Proofs.Socks.scan_record (genCfg dialT dataT) tgt t s h

/-- **Otherwise nothing or an error**, exactly: `nil, nil` iff two reply bytes were seen and they are
    not `05 00`; an error iff the reply was not seen (no connection, greeting not sent, fewer than two
    bytes before a timeout / EOF / reset / cancellation). -/
theorem C09_otherwise (dialT dataT : Dur) (tgt : Target) (s : Script) :
    ((scan (genCfg dialT dataT) tgt s).outcome = .nothing ↔
        ∃ a b, reply dialT dataT s = some (a, b) ∧ (a, b) ≠ (5, 0)) ∧
    ((∃ e, (scan (genCfg dialT dataT) tgt s).outcome = .error e) ↔ reply dialT dataT s = none) := by
  have h1 := Proofs.Socks.scan_nothing_iff (genCfg dialT dataT) tgt s
  have h2 := Proofs.Socks.scan_error_iff (genCfg dialT dataT) tgt s
  have hv : (genCfg dialT dataT).expectVer = 5 := by show UInt8.ofNat socksExpectVer = 5; decide
  have hm : (genCfg dialT dataT).expectMethod = 0 := by show UInt8.ofNat socksExpectMethod = 0; decide
  rw [hv, hm] at h1
  exact ⟨h1, h2⟩

/-- **At most two reads.**  Under the `io.Reader` contract of a TCP connection (no `0, nil` read),
    `binary.Read` of the two-byte reply issues at most two `Read` calls, however the server drips. -/
theorem C09_reads_le_two (dialT dataT : Dur) (tgt : Target) (s : Script)
    (hreader : noEmptyChunk s.reads = true) :
    (scan (genCfg dialT dataT) tgt s).reads ≤ 2 :=
  (Proofs.Socks.scan_bounds (genCfg dialT dataT) tgt s hreader).1

/-- **Time bound.**  With a connect timeout set, for every server behaviour the probe is over within
    the connect timeout plus three data timeouts (one write, at most two reads; every deadline is set
    anew before each call and fires at its instant; closing the socket does not block).
    The `SetLinger` argument is regenerated from the source: this theorem checks only while it is ≤ 0. -/
theorem C09_time_bound (dialT dataT : Dur) (tgt : Target) (s : Script)
    (hdial : 0 < dialT) (hreader : noEmptyChunk s.reads = true) :
    (scan (genCfg dialT dataT) tgt s).elapsed ≤ bound dialT dataT :=
  (Proofs.Socks.scan_bounds (genCfg dialT dataT) tgt s hreader).2 hdial (by show socksLingerSec ≤ 0; decide)

/-- **Cancellation is prompt.**  Whatever the server does — even with no deadline hypothesis at all —
    a probe whose context is cancelled at instant `c` is over by `c` (the watchdog closes the
    connection, the operation in flight returns, closing does not block). -/
theorem C09_cancel_prompt (dialT dataT : Dur) (tgt : Target) (s : Script) (c : Dur)
    (hc : s.cancel = some c) :
    (scan (genCfg dialT dataT) tgt s).elapsed ≤ c :=
  Proofs.Socks.scan_cancel (genCfg dialT dataT) tgt s c hc (by show socksLingerSec ≤ 0; decide)

/-- A cancellation that arrives after the probe is over changes nothing (result, time, reads). -/
theorem C09_cancel_late (dialT dataT : Dur) (tgt : Target) (s : Script) (c : Dur)
    (h : (scan (genCfg dialT dataT) tgt { s with cancel := none }).elapsed ≤ c) :
    scan (genCfg dialT dataT) tgt { s with cancel := some c }
      = scan (genCfg dialT dataT) tgt { s with cancel := none } :=
  Proofs.Socks.scan_late_cancel (genCfg dialT dataT) tgt s c h

/-- Why the close must not block: the same probe with `SetLinger(1)` (the value in the tree before the
    fix) against a peer that stops acknowledging after the handshake (tarpit, host gone) and a 40 ms
    timeout returns after 1.04 s, far beyond 40 ms + 3·40 ms; and a cancellation at 60 ms is only
    honoured at 1.06 s. -/
theorem C09_blocking_close_breaks_bound :
    let cfg : Cfg := { genCfg 40000 40000 with lingerSec := 1 }
    let s : Script := { dial := .ok 100, write := .ok 0, reads := [.stall], finAck := none, cancel := none }
    noEmptyChunk s.reads = true ∧
    ¬ (scan cfg ⟨2130706433, 1080⟩ s).elapsed ≤ bound 40000 40000 ∧
    ¬ (scan { cfg with dataTimeout := 1500000 } ⟨2130706433, 1080⟩ { s with cancel := some 60000 }).elapsed ≤ 60000 := by
  decide

-- non-vacuity (tests, labelled as such): concrete scripts through every clause
private def t0 : Target := ⟨2130706433, 1080⟩
private def T : Dur := 40000

-- the reply in one segment, with extra bytes: reported, one read
example : scan (genCfg T T) t0 { dial := .ok 100, write := .ok 0, reads := [.data [5, 0, 9, 9] 0], finAck := some 0, cancel := none }
    = ⟨.reported t0, 100, some [5, 1, 0], 1⟩ := by decide
-- drip feed, each byte just inside its own deadline: reported after two reads, 0.75 T + 0.75 T > T
example : scan (genCfg T T) t0 { dial := .ok 100, write := .ok 0, reads := [.data [5] 30000, .data [0] 30000, .data [7] 30000], finAck := some 0, cancel := none }
    = ⟨.reported t0, 60100, some [5, 1, 0], 2⟩ := by decide
-- second byte too late: read timeout at the second deadline
example : scan (genCfg T T) t0 { dial := .ok 100, write := .ok 0, reads := [.data [5] 30000, .data [0] 50000], finAck := some 0, cancel := none }
    = ⟨.error (.read .timeout), 70100, some [5, 1, 0], 2⟩ := by decide
-- wrong method: nothing
example : (scan (genCfg T T) t0 { dial := .ok 100, write := .ok 0, reads := [.data [5] 0, .data [2] 10], finAck := some 0, cancel := none }).outcome
    = .nothing := by decide
-- one byte then close / reset / silence; refused; never accepted
example : (scan (genCfg T T) t0 { dial := .ok 100, write := .ok 0, reads := [.data [5] 0, .eof 5], finAck := some 0, cancel := none }).outcome
    = .error .unexpectedEOF := by decide
example : (scan (genCfg T T) t0 { dial := .ok 100, write := .ok 0, reads := [.reset 5], finAck := some 0, cancel := none }).outcome
    = .error (.read .reset) := by decide
example : scan (genCfg T T) t0 { dial := .ok 100, write := .ok 0, reads := [.data [5] 0], finAck := some 0, cancel := none }
    = ⟨.error (.read .timeout), 40100, some [5, 1, 0], 2⟩ := by decide
example : scan (genCfg T T) t0 { dial := .silent 127000000, write := .ok 0, reads := [], finAck := some 0, cancel := none }
    = ⟨.error .dialTimeout, 40000, none, 0⟩ := by decide
-- cancellation in the middle of the second read, long timeouts: over at the cancellation instant
example : scan (genCfg 1500000 1500000) t0 { dial := .ok 100, write := .ok 0, reads := [.data [5] 0, .stall], finAck := some 0, cancel := some 33000 }
    = ⟨.error .closed, 33000, some [5, 1, 0], 2⟩ := by decide
-- the hypotheses of the bound are met by a script that takes the whole budget but one unit per step
example : noEmptyChunk [.data [5] 39999, .stall] = true ∧
    (scan (genCfg T T) t0 { dial := .ok 39999, write := .ok 39999, reads := [.data [5] 39999, .stall], finAck := none, cancel := none }).elapsed
      = bound T T - 3 := by decide
-- a reader that breaks the contract (empty reads) is why `hreader` is there: four reads
example : (scan (genCfg T T) t0 { dial := .ok 100, write := .ok 0, reads := [.data [] 10, .data [] 10, .data [5] 10, .data [0] 10], finAck := some 0, cancel := none }).reads
    = 4 := by decide

end SxVerif.C09
