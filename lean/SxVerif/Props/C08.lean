/-
C08 — Application scans: each target probed once, each outcome reported once.
Property theorems only.  The transition system is `Model/Engine.lean` (`next`); "for every schedule"
= for every state `Reachable` from `init reqs []`; "no Ctrl-C" = `s.cmdCtx = false` (the flag is
monotone, so this says that no `cancelCmd` step occurred on the path).
-/
import SxVerif.Proofs.EngineC08
import SxVerif.Generated.StagesEngine
import SxVerif.Generated.Constants
import SxVerif.Generated.Problems
import SxVerif.Generated.JsonWriter
import SxVerif.Proofs.Plain

namespace SxVerif.C08
open SxVerif.Engine SxVerif.Generated SxVerif.StageDesc

theorem translator_clean : translatorProblems = [] := by decide

/-- (T) the goroutines of engine.go / result.go / logger.go / root.go, regenerated from the source, have
    the channel operations, guards (which ctx), close order and WaitGroup discipline that
    `Model/Engine.lean` encodes; worker count and capacities are wired as modelled -/
theorem stages_as_modelled :
    complete engineStages = true ∧ singleCloser engineStages = true ∧ closeAfterSenders engineStages = true ∧
    guardsAsModelled engineStages = true ∧ guardedOnReturnPath engineStages = true ∧
    controllerShape controllerOrder = true ∧ workerBodyShape = true ∧ workerCountWired = true ∧
    workersValidated = true ∧ rateLimitWraps = true ∧
    0 < capEngineErrChan ∧ 0 < resultChanCap ∧ capEngineDoneChan = 0 := by decide

/-- (T) every error handed to the logger becomes one record at once, however many there are: the zap logger is the
    production configuration with sampling switched off and no further option (its sink is the process's stderr,
    locked, unbuffered: one `write(2)` per record, nothing kept in memory that a later `Sync` would have to save), and
    `(*logger).Error` is one call of it.  (zap itself is trusted; the dynamic side are the `…/mass`, `…/slowerr` and
    `…/errflood` cases of `e2eapp` and component `e2eerr`.) -/
theorem error_records_written_through :
    SxVerif.Generated.errorLoggerConfig = "zap.NewProductionConfig()" ∧
    SxVerif.Generated.errorLoggerConfAssigns = [("Sampling", "nil")] ∧
    SxVerif.Generated.errorLoggerCtor = ("conf.Build", 0) ∧
    SxVerif.Generated.loggerErrorBody = ["l.zapl.Error(l.label, zap.Error(err))"] := by decide

/-- the engine as the commands configure it: any `W`, capacities from the source -/
def cfg (W delay : Nat) : Cfg := { W := W, capErr := capEngineErrChan, capRes := resultChanCap, delay := delay }

variable {c : Cfg} {reqs : List Req} {s : Sys}

/-- **hand-off**: the receive events on `requests` (each performed by one worker) are, in order, a
    prefix of the generated stream, the rest is still pending — nothing is received twice or skipped -/
theorem C08_handoff (hW : 0 < c.W) (hr : Reachable c (init reqs []) s) (hnc : s.cmdCtx = false) :
    s.recvd ++ s.pending = reqs := (inv2 hW hr hnc).handoff

/-- **one probe per target**: the `Scan` calls made so far plus the requests held by workers that are
    about to call / inside `Scan` are a permutation of the ok requests received -/
theorem C08_scan_once (hW : 0 < c.W) (hr : Reachable c (init reqs []) s) (hnc : s.cmdCtx = false) :
    (s.scans ++ holdGot s.workers).Perm (s.recvd.filter isOk) := scans_perm (inv2 hW hr hnc)

/-- **one Put per detection**: values enqueued + values held by workers inside `Put` ≈ positive scans -/
theorem C08_put_once (hW : 0 < c.W) (hr : Reachable c (init reqs []) s) (hnc : s.cmdCtx = false) :
    (s.puts ++ holdPut s.workers).Perm ((s.scans.filter isPos).map (·.id)) :=
  puts_perm (inv2 hW hr hnc) (noExt hr).puts

/-- **one error per failure**: errors sent + errors held inside `writeError` ≈ error entries received
    + failed scans -/
theorem C08_err_once (hW : 0 < c.W) (hr : Reachable c (init reqs []) s) (hnc : s.cmdCtx = false) :
    (s.errSent ++ holdErr s.workers).Perm
      ((s.recvd.filter (·.isErr)).map (·.id) ++ (s.scans.filter isFail).map (·.id)) :=
  errs_perm (inv2 hW hr hnc)

/-- **completion is signalled only after all probes have finished**: `done` closed ⇒ all `W` workers
    have returned, the stream is exhausted, every request was received, no `Scan` / `Put` /
    `writeError` is in progress, and `errc` was closed first -/
theorem C08_done_after_all (hW : 0 < c.W) (hr : Reachable c (init reqs []) s) (hnc : s.cmdCtx = false)
    (hd : s.doneClosed = true) :
    allExited s.workers = true ∧ s.workers.length = c.W ∧ s.errcClosed = true ∧
    s.pending = [] ∧ s.recvd = reqs ∧ holdGot s.workers = [] ∧ holdPut s.workers = [] ∧ holdErr s.workers = [] := by
  have h0 := inv0 hr
  have hw := done_workers h0 hd
  have ha := done_all hW h0 (inv2 hW hr hnc) hd
  exact ⟨hw.1, hw.2, h0.errcClosed.mpr (Or.inr (h0.doneClosed.mp hd)), ha⟩

/-- **at completion**: probes ≈ ok targets, Puts ≈ detections, error sends ≈ error entries + failures
    (multisets; for every W ≥ 1, every request list, every oracle, every schedule) -/
theorem C08_complete (hW : 0 < c.W) (hr : Reachable c (init reqs []) s) (hnc : s.cmdCtx = false)
    (hd : s.doneClosed = true) :
    s.scans.Perm (reqs.filter isOk) ∧
    s.puts.Perm ((reqs.filter (fun r => isOk r && isPos r)).map (·.id)) ∧
    s.errSent.Perm ((reqs.filter (·.isErr)).map (·.id) ++ (reqs.filter (fun r => isOk r && isFail r)).map (·.id)) := by
  have h0 := inv0 hr
  have h2 := inv2 hW hr hnc
  exact ⟨scans_final hW h0 h2 hd, puts_final hW h0 h2 (noExt hr).puts hd, errs_final hW h0 h2 hd⟩

/-- **FIFO image**: what was printed, followed by what is in flight (logger's hand, `results`,
    copier's hand, `internalResults`), is exactly the sequence of Puts — also after the controller's
    cancel: nothing is dropped, duplicated or reordered on the result path -/
theorem C08_fifo (hW : 0 < c.W) (hr : Reachable c (init reqs []) s) (hnc : s.cmdCtx = false) :
    s.printed ++ s.inflight = s.puts := by
  have := (inv2 hW hr hnc).fifo
  simpa [Sys.inflight, List.append_assoc] using this

/-- **error records**: logged ++ in flight = sent, on every path (even cancelled ones); once the drain
    has returned every error sent has been logged exactly once, in order -/
theorem C08_err_fifo (hr : Reachable c (init reqs []) s) :
    s.errLogged ++ drainHand s.drain ++ s.errc = s.errSent ∧ (s.drain = .exited → s.errLogged = s.errSent) :=
  ⟨errFifo hr, errLogged_all hr⟩

/-- the hypothesis of the drain theorem: when the controller called `cancel()` nothing was in flight -/
def DrainedAtCancel (s : Sys) : Prop := s.inflightAtCancel = some 0

/-- **everything detected is printed** — partial: under `DrainedAtCancel` (the copier and the logger
    emptied the result path during the exit delay; wall-clock, measured by the harness, not provable)
    the output is exactly the Put sequence, hence ≈ the detections, in every later state incl. the
    one in which `startScanEngine` returns. -/
theorem C08_drain_partial (hW : 0 < c.W) (hr : Reachable c (init reqs []) s) (hnc : s.cmdCtx = false)
    (hdr : DrainedAtCancel s) :
    s.printed = s.puts ∧ s.printed.Perm ((reqs.filter (fun r => isOk r && isPos r)).map (·.id)) := by
  have h0 := inv0 hr
  have h1 := inv1 hr
  have h2 := inv2 hW hr hnc
  have hp := printed_all h2 (snap hr hnc hdr)
  have hc : s.cancelAt.isSome = true := by
    have := h1.snap
    simp [DrainedAtCancel] at hdr
    simpa [hdr] using this.symm
  have hd : s.doneClosed = true := by
    have := (h1.cancelAt hc).1
    rwa [h1.doneAtIff] at this
  exact ⟨hp, hp ▸ puts_final hW h0 h2 (noExt hr).puts hd⟩

/-- the full statement (not claimed): the same without the drain hypothesis -/
def C08_full : Prop :=
  ∀ (c : Cfg) (reqs : List Req) (s : Sys), 0 < c.W → Reachable c (init reqs []) s → s.cmdCtx = false →
    s.main = .returned → s.printed.Perm ((reqs.filter (fun r => isOk r && isPos r)).map (·.id))

/-- how much the hypothesis asks: each copier/logger step moves one record one stage on (`drainRank`
    drops by one), some such step is enabled while anything is in flight and no ctx is cancelled, and
    the rank never exceeds `6·cap + 4` — so at most 6004 copier/logger steps after `done` suffice -/
theorem C08_drain_steps (hr : Reachable c (init reqs []) s) :
    (∀ l ∈ drainLabels, ∀ s', next c s l = some s' → drainRank s' + 1 = drainRank s) ∧
    (0 < c.capRes → s.derCtx = false → 0 < drainRank s → ∃ l ∈ drainLabels, (next c s l).isSome = true) ∧
    drainRank s ≤ 6 * c.capRes + 4 ∧ (drainRank s = 0 → s.inflight = []) :=
  ⟨fun _ hl _ hn => drainRank_step (inv0 hr) hl hn, fun hc hd hp => drain_enabled (inv0 hr) (inv1 hr) hc hd hp,
   drainRank_bound (inv0 hr), drainRank_zero⟩

theorem C08_drain_bound_value : 6 * (cfg 100 300).capRes + 4 = 6004 := by decide

/-- no reachable state has panicked (send on closed channel / double close), no buffer over capacity -/
theorem C08_no_panic (hr : Reachable c (init reqs []) s) :
    s.panicked = false ∧ s.errc.length ≤ c.capErr ∧ s.intRes.length ≤ c.capRes ∧ s.results.length ≤ c.capRes ∧
    s.workers.length ≤ c.W :=
  ⟨(inv0 hr).noPanic, (inv0 hr).capErr, (inv0 hr).capInt, (inv0 hr).capRes, (inv0 hr).wlen⟩

/-! ### the drain hypothesis is necessary: `C08_full` is FALSE of the model (and of the code: see DESIGN I.5,
    observation "records still queued when the derived ctx is cancelled are dropped") -/

def dropCfg : Cfg := { W := 1, capErr := 2, capRes := 2, delay := 2 }
def dropReq : Req := { id := 5, isErr := false, out := .result }
/-- one worker detects target 5 and `Put`s the record; the copier and the logger are never scheduled
    during the two ticks of the exit delay; the controller cancels, the logger sees the derived ctx and
    returns, `startScanEngine` returns with the record still in the result buffer -/
def dropSched : List Label :=
  [.spawn, .worker 0 .recv, .worker 0 .scan, .worker 0 .put, .genClose, .worker 0 .closedExit, .wgWait,
   .closeErrc, .closeDone, .ctlDone, .tick, .tick, .ctlTimer, .ctlCancel, .logCtx, .drainExit, .mainReturn]

/-- **`C08_full` does not hold**: without `DrainedAtCancel` a schedule that starves the copier for the whole
    exit delay ends with the detection `Put` and not printed.  So the drain hypothesis of `C08_drain_partial`
    cannot be removed; `C08_drain_steps` says how little it asks (≤ 6·cap+4 copier/logger steps). -/
theorem C08_full_fails : ¬ C08_full := by
  intro h
  have hex : exec dropCfg (init [dropReq] []) dropSched = some ((exec dropCfg (init [dropReq] []) dropSched).get (by decide)) := by simp
  have hr := exec_reachable (c := dropCfg) dropSched _ Reachable.init hex
  have hp := h dropCfg [dropReq] _ (by decide) hr (by decide) (by decide)
  revert hp
  decide

/-! ### non-vacuity (tests, labelled as such): a complete run of one worker on
    [detects, fails, error entry, nothing]; the hypotheses are satisfiable and the conclusions non-trivial -/

def exReqs : List Req := [⟨0, false, .result⟩, ⟨1, false, .error⟩, ⟨2, true, .none⟩, ⟨3, false, .none⟩]
def exCfg : Cfg := { W := 1, capErr := 2, capRes := 2, delay := 1 }
def exSched : List Label :=
  [.spawn, .worker 0 .recv, .worker 0 .scan, .worker 0 .put, .worker 0 .recv, .worker 0 .scan, .worker 0 .sendErr,
   .worker 0 .recv, .worker 0 .sendErr, .worker 0 .recv, .worker 0 .scan, .genClose, .worker 0 .closedExit,
   .wgWait, .closeErrc, .closeDone, .copRecv, .copSend, .logRecv, .logWrite, .drainRecv, .drainLog, .drainRecv,
   .drainLog, .drainExit, .ctlDone, .tick, .ctlTimer, .ctlCancel, .logCtx, .mainReturn]

def exView (s : Sys) : MainPc × Bool × List Nat × List Nat × List Nat × Option Nat × Option Nat × Option Nat :=
  (s.main, s.cmdCtx, s.printed, s.errLogged, s.scans.map (·.id), s.inflightAtCancel, s.cancelAt, s.doneAt)

example : (exec exCfg (init exReqs []) exSched).map exView
    = some (.returned, false, [0], [1, 2], [0, 1, 3], some 0, some 1, some 0) := by rfl


/-- **one detection, one output record — also without `--json`**: the plain-text writer hands the sink
    `result.String()` and a newline in ONE write; for the arp / tcp / icmp(udp) / socks results that text is the padded
    columns of `Model/Plain.lean`, and if no string of the result holds a newline byte (addresses, MACs and flag
    letters never do) the text has none: the write is exactly one line.  (Tie: tag `jplain` of component `json`, the
    real logger in its default mode, byte for byte.) -/
theorem plain_one_line (r : SxVerif.Json.Result) (h : SxVerif.Plain.NoNewline r) (body : List UInt8)
    (hb : SxVerif.Plain.renderPlain r = some body) :
    (10 : UInt8) ∉ body ∧ SxVerif.Plain.plainLine r = some (body ++ [10]) :=
  SxVerif.Plain.plain_one_line r h body hb

end SxVerif.C08
