/-
C17 — Probes leave through the right interface with the right source.
Property theorems only; proofs in Proofs/Iface*.lean.

`Host` is the snapshot `net.Interfaces` / `Interface.Addrs` / `netlink.RouteList` report (lists of any
length); `Opts` the parsed flags.  Hypotheses: `hostWF` (an IPv4 address entry carries 4 bytes — what the Go
runtime returns), `optsWF` (the parsed target is a 4-byte address — C02), `routesResolve` (every default
route of the main table names an interface of the snapshot — true of unicast routes).
-/
import SxVerif.Model.Iface
import SxVerif.Spec.Iface
import SxVerif.Proofs.IfaceProps

namespace SxVerif.C17
open SxVerif.Iface SxVerif.Spec.Iface

/-- **C17, all clauses**: for every host snapshot and every combination of flags, the option code of the
    icmp/tcp/udp commands fails exactly when the Spec sees no usable interface or no IPv4 source, and
    otherwise chooses the Spec's interface (--iface, else first directly attached, else that of the
    lowest-metric default route), source address (--srcip, else the interface's IPv4 address on the target
    subnet, else its first address), MAC (--srcmac, else the interface's) and vpn mode (no MAC). -/
theorem C17_choice (h : Host) (o : Opts) (hw : hostWF h = true) (ho : optsWF o = true)
    (hres : routesResolve h = true) : holds h o (outcomeOf (ipScanOptions h o)) = true :=
  Proofs.Iface.choice h o hw ho hres

/-- the same for the arp command: it starts exactly when there is an interface, an IPv4 source and a MAC -/
theorem C17_arp (h : Host) (o : Opts) (hw : hostWF h = true) (ho : optsWF o = true)
    (hres : routesResolve h = true) :
    holdsArp h o (match arpOptions h o with | .ok _ => true | .error _ => false) = true :=
  Proofs.Iface.arp_choice h o hw ho hres

/-- **(i)** without flags, the first interface in kernel order that has an IPv4 address whose network contains
    the target base is used, with its first such address and its own MAC -/
theorem C17_i_attached (h : Host) (o : Opts) (t : Target) (pre post : List Iface) (i : Iface)
    (apre apost : List Addr) (a : Addr)
    (hw : hostWF h = true) (ho : optsWF o = true) (hres : routesResolve h = true)
    (hif : o.iface = none) (hsi : o.srcip = none) (hsm : o.srcmac = none) (htg : o.target = some t)
    (hsplit : h.ifaces = pre ++ i :: post)
    (hpre : ∀ j ∈ pre, ∀ b ∈ j.addrs, onTarget t b = false)
    (hasplit : i.addrs = apre ++ a :: apost)
    (hapre : ∀ b ∈ apre, onTarget t b = false)
    (ha : onTarget t a = true) :
    outcomeOf (ipScanOptions h o) = .chose i.name a.ip i.mac i.mac.isNone :=
  Proofs.Iface.clause_i h o t pre post i apre apost a hw ho hres hif hsi hsm htg hsplit hpre hasplit hapre ha

/-- **(ii-a)** --iface naming an interface without an address on the target subnet: its first address -/
theorem C17_ii_iface (h : Host) (o : Opts) (n : String) (pre post : List Iface) (i : Iface)
    (a : Addr) (arest : List Addr)
    (hw : hostWF h = true) (ho : optsWF o = true) (hres : routesResolve h = true)
    (hif : o.iface = some n) (hsi : o.srcip = none) (hsm : o.srcmac = none)
    (hsplit : h.ifaces = pre ++ i :: post)
    (hpre : ∀ j ∈ pre, (j.name == n) = false) (hname : (i.name == n) = true)
    (hnot : ∀ t, o.target = some t → ∀ b ∈ i.addrs, onTarget t b = false)
    (haddrs : i.addrs = a :: arest) (hv4 : a.v6 = false) :
    outcomeOf (ipScanOptions h o) = .chose i.name a.ip i.mac i.mac.isNone :=
  Proofs.Iface.clause_ii_iface h o n pre post i a arest hw ho hres hif hsi hsm hsplit hpre hname hnot haddrs hv4

/-- **(ii-b)** nothing attached and no --iface: the interface of the lowest-metric default route (the first
    in kernel order among equal metrics, whatever the metric and whether or not the route carries a preferred
    source), with its first address -/
theorem C17_ii_default (h : Host) (o : Opts) (rpre rpost : List Route) (r : Route)
    (pre post : List Iface) (i : Iface) (a : Addr) (arest : List Addr)
    (hw : hostWF h = true) (ho : optsWF o = true) (hres : routesResolve h = true)
    (hif : o.iface = none) (hsi : o.srcip = none) (hsm : o.srcmac = none)
    (hnot : ∀ t, o.target = some t → ∀ j ∈ h.ifaces, ∀ b ∈ j.addrs, onTarget t b = false)
    (hroutes : defaultRoutes h = rpre ++ r :: rpost)
    (hrpre : ∀ x ∈ rpre, r.prio < x.prio) (hrpost : ∀ x ∈ rpost, r.prio ≤ x.prio)
    (hsplit : h.ifaces = pre ++ i :: post)
    (hpre : ∀ j ∈ pre, (j.index == r.link) = false) (hidx : (i.index == r.link) = true)
    (haddrs : i.addrs = a :: arest) (hv4 : a.v6 = false) :
    outcomeOf (ipScanOptions h o) = .chose i.name a.ip i.mac i.mac.isNone :=
  Proofs.Iface.clause_ii_default h o rpre rpost r pre post i a arest hw ho hres hif hsi hsm hnot hroutes hrpre
    hrpost hsplit hpre hidx haddrs hv4

/-- **(iii)** --iface, --srcip and --srcmac always override the automatic choice (any snapshot, no hypothesis) -/
theorem C17_iii_overrides (h : Host) (o : Opts) (r : Range) (hr : scanRange h o = .ok r) :
    (∀ n, o.iface = some n → r.iface.name = n ∧ h.ifaces.find? (fun i => i.name == n) = some r.iface) ∧
    (∀ s, o.srcip = some s → asIPv4 s = some r.srcIP) ∧
    (∀ m, o.srcmac = some m → r.srcMAC = some m) :=
  Proofs.Iface.clause_iii h o r hr

/-- **(iv)** raw-IP (VPN) framing is selected exactly when there is no source hardware address (interface
    without one and no --srcmac); the arp command then refuses, and otherwise accepts the same range
    (any snapshot, no hypothesis) -/
theorem C17_iv_vpn (h : Host) (o : Opts) (s : IPScan) (hs : ipScanOptions h o = .ok s) :
    (s.vpn = true ↔ s.range.srcMAC = none) ∧
    s.range.srcMAC = (match o.srcmac with | some m => some m | none => s.range.iface.mac) ∧
    (s.vpn = true → arpOptions h o = .error .srcmac) ∧
    (s.vpn = false → arpOptions h o = .ok s.range) :=
  Proofs.Iface.clause_iv h o s hs

/-- **(v), soundness**: an accepted range has a 4-byte source address (C05's `ReqOK.src4`) that is the user's
    IPv4 address or an IPv4 address of the chosen interface, which is an interface of this host -/
theorem C17_v_source (h : Host) (o : Opts) (hw : hostWF h = true) (ho : optsWF o = true)
    (hres : routesResolve h = true) (r : Range) (hr : scanRange h o = .ok r) :
    r.srcIP.length = 4 ∧ r.iface ∈ h.ifaces ∧
    ((∃ s, o.srcip = some s ∧ asIPv4 s = some r.srcIP) ∨
     (o.srcip = none ∧ ∃ a ∈ r.iface.addrs, a.v6 = false ∧ a.ip = r.srcIP)) :=
  Proofs.Iface.clause_v h o hw ho hres r hr

/-- **(v), failure**: no usable interface, or no IPv4 source address ⇒ the scan fails with an error -/
theorem C17_v_fails (h : Host) (o : Opts) (hw : hostWF h = true) (ho : optsWF o = true)
    (hres : routesResolve h = true)
    (hno : expectedIface h o = none ∨ ∃ i, expectedIface h o = some i ∧ expectedSrc o i = none) :
    ∃ e, scanRange h o = .error e :=
  Proofs.Iface.clause_v_fails h o hw ho hres hno

/-- the code's byte-wise test `IPNet.Contains(target.IP.Mask(target.Mask))` on an IPv4 address entry is
    "the first `prefix` bits of the address and of the target base agree" -/
theorem C17_attached_is_prefix_match (t : Target) (a : Addr) (ht : t.ip.length = 4)
    (ha : a.v6 = false → a.ip.length = 4) : attached t.base a = onTarget t a :=
  Proofs.Iface.attached_eq_onTarget t a ht ha

/-- `GetLocalSubnetInterface`: first attached interface and its first attached address -/
theorem C17_local (h : Host) (t : Target) (hw : hostWF h = true) (ht : t.ip.length = 4) :
    holdsLocal h t ((localSubnetInterface t h.ifaces).map (fun p => (p.1.name, p.2))) = true :=
  Proofs.Iface.local_spec h t hw ht

/-- `GetDefaultInterface`: interface and first address of the lowest-metric default route -/
theorem C17_default (h : Host) (hres : routesResolve h = true) :
    holdsDefault h (match defaultInterface h with
      | .error _ => none
      | .ok (none, _) => some none
      | .ok (some i, ip) => some (some (i.name, ip))) = true :=
  Proofs.Iface.default_spec h hres

/-- `GetDefaultGatewayIP`: gateway of the lowest-metric default route through the interface -/
theorem C17_gateway (h : Host) (i : Iface) : holdsGateway h i (defaultGatewayIP h i) = true :=
  Proofs.Iface.gateway_spec h i

/-! ### non-vacuity (tests, labelled as such): a host that satisfies the hypotheses and exercises every clause -/

/-- ve0: 10.1.0.5/16 and 10.1.2.5/24; br1: 10.1.2.9/24; tn0 (no MAC): 10.8.0.2/32; default routes: metric 100 via br1,
    metric 50 via ve0 with a preferred source, metric 50 via ve0 again -/
private def demo : Host :=
  { ifaces := [⟨"lo", 1, none, []⟩,
               ⟨"ve0", 2, some [2, 0, 0, 0, 2, 1], [⟨[10, 1, 0, 5], 16, false⟩, ⟨[10, 1, 2, 5], 24, false⟩, ⟨[0xfd,0,0,0,0,0,0,0,0,0,0,0,0,0,0,1], 64, true⟩]⟩,
               ⟨"br1", 3, some [2, 0, 0, 0, 2, 3], [⟨[10, 1, 2, 9], 24, false⟩]⟩,
               ⟨"tn0", 4, none, [⟨[10, 8, 0, 2], 32, false⟩]⟩,
               ⟨"v6", 5, some [2, 0, 0, 0, 2, 5], [⟨[0xfd,0,0,0,0,0,0,0,0,0,0,0,0,0,0,2], 64, true⟩]⟩],
    routes := [⟨none, none, 100, 3, some [10, 1, 2, 254]⟩, ⟨some ([10, 1, 0, 0], 16), none, 0, 2, none⟩,
               ⟨none, some [10, 1, 0, 5], 50, 2, some [10, 1, 0, 1]⟩, ⟨none, none, 50, 2, some [10, 1, 0, 2]⟩] }

example : hostWF demo = true ∧ routesResolve demo = true := by decide
private def view (r : Except Err IPScan) : Option (Nat × List UInt8 × Option (List UInt8) × Bool × Option (List UInt8)) :=
  r.toOption.map (fun s => (s.range.iface.index, s.range.srcIP, s.range.srcMAC, s.vpn, s.gw))

private def errOf {α : Type} (r : Except Err α) : Option Err := match r with | .error e => some e | .ok _ => none

-- (i) overlapping subnets: first interface, first address whose network contains the base
example : view (ipScanOptions demo ⟨none, none, none, some ⟨[10, 1, 2, 0], 24⟩⟩)
    = some (2, [10, 1, 0, 5], some [2, 0, 0, 0, 2, 1], false, some [10, 1, 0, 1]) := by decide
-- (ii-b) nothing attached: lowest metric (50, first of the two, preferred source or not) -> ve0, first address
example : view (ipScanOptions demo ⟨none, none, none, some ⟨[8, 8, 8, 8], 32⟩⟩)
    = some (2, [10, 1, 0, 5], some [2, 0, 0, 0, 2, 1], false, some [10, 1, 0, 1]) := by decide
-- (ii-a)/(iii) --iface br1 for a foreign target, --srcip 16-byte form, --srcmac
example : view (ipScanOptions demo ⟨some "br1", some (v4in6 [10, 77, 0, 9]), some [2, 0xaa, 0xbb, 0xcc, 0xdd, 0xee], some ⟨[8, 8, 8, 8], 32⟩⟩)
    = some (3, [10, 77, 0, 9], some [2, 0xaa, 0xbb, 0xcc, 0xdd, 0xee], false, some [10, 1, 2, 254]) := by decide
-- (iv) tun interface: vpn mode, and the arp command refuses
example : view (ipScanOptions demo ⟨some "tn0", none, none, none⟩) = some (4, [10, 8, 0, 2], none, true, none) := by decide
example : errOf (arpOptions demo ⟨some "tn0", none, none, some ⟨[10, 8, 0, 1], 32⟩⟩) = some .srcmac := by decide
-- (v) IPv6 --srcip, IPv6-only interface, unknown interface, no default route
example : errOf (ipScanOptions demo ⟨none, some [0,0,0,0,0,0,0,0,0,0,0,0,0,0,0,1], none, none⟩) = some .srcip := by decide
example : errOf (ipScanOptions demo ⟨some "v6", none, none, none⟩) = some .srcip := by decide
example : errOf (ipScanOptions demo ⟨some "nope", none, none, none⟩) = some .nosuchif := by decide
example : errOf (ipScanOptions { demo with routes := [] } ⟨none, none, none, some ⟨[8, 8, 8, 8], 32⟩⟩) = some .srcif := by decide
example : holds demo ⟨none, none, none, some ⟨[10, 1, 2, 0], 24⟩⟩ (.chose "br1" [10, 1, 2, 9] (some [2, 0, 0, 0, 2, 3]) false) = false := by decide

end SxVerif.C17
