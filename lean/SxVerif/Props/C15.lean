/-
C15 — Rate limit: probes never leave faster than the configured rate.
Property theorems only (lemmas: `Proofs/Limiter.lean`, `Proofs/LimiterSet.lean`, `Proofs/LimiterMain.lean`).

`release c now j` is the time the `j`-th `Take` (0-based, in the order the limiter's compare-and-swap served
them) lets its probe go; `now j` is the clock reading of that `Take`.  `cfg N W` is what
`ratelimit.New(N, ratelimit.Per(W))` builds: `perRequest = W / N` (integer ns), burst allowance 10.
-/
import SxVerif.Generated.Limiter
import SxVerif.Generated.Problems
import SxVerif.Model.Limiter
import SxVerif.Spec.Limiter
import SxVerif.Proofs.Limiter
import SxVerif.Proofs.LimiterSet
import SxVerif.Proofs.LimiterMain

namespace SxVerif.C15
open SxVerif.Limiter SxVerif.Generated SxVerif.Generated.Limiter
open SxVerif.Proofs.Limiter (ClockOK nowFn specTrace)

theorem translator_clean : translatorProblems = [] := by decide

/-! ### the limiter -/

/-- **C15 (rate)**: for every rate `N ≥ 1`, every window `W ≥ 0` ns and every sequence of clock readings —
    monotone or not, as long as each lies after Go's zero `time.Time`, which the library uses as its "no
    request yet" mark — any `k ≥ 1` consecutive probes, starting at any probe `i`, take at least
    `(k-1-10)·⌊W/N⌋` to be released. -/
theorem C15_rate (N W : Int) (hN : 1 ≤ N) (hW : 0 ≤ W) (now : Nat → Int) (hclk : ClockOK now)
    (i k : Nat) (hk : 1 ≤ k) :
    release (cfg N W) now (i + k - 1) - release (cfg N W) now i ≥ ((k : Int) - 1 - 10) * (W / N) :=
  Proofs.Limiter.main_rate N W hN hW now hclk i k hk

/-- the same for any burst allowance `b ≥ 0` (`ratelimit.WithSlack(b)`; sx uses the default 10) -/
theorem C15_rate_slack (N W b : Int) (hN : 1 ≤ N) (hW : 0 ≤ W) (hb : 0 ≤ b) (now : Nat → Int) (hclk : ClockOK now)
    (i m : Nat) :
    release (cfg N W b) now (i + m) - release (cfg N W b) now i ≥ ((m : Int) - b) * (W / N) :=
  Proofs.Limiter.main_rate_slack N W b hN hW hb now hclk i m

/-- order-free reading: among ANY `k` distinct probes — however they are numbered, e.g. by several workers —
    the last and the first release are at least `(k-1-10)·⌊W/N⌋` apart -/
theorem C15_any_set (N W : Int) (hN : 1 ≤ N) (hW : 0 ≤ W) (now : Nat → Int) (hclk : ClockOK now)
    (S : List Nat) (hnd : S.Nodup) (hne : S ≠ []) :
    ∃ i ∈ S, ∃ j ∈ S,
      release (cfg N W) now j - release (cfg N W) now i ≥ ((S.length : Int) - 1 - 10) * (W / N) :=
  Proofs.Limiter.main_any_set N W hN hW now hclk S hnd hne

/-- a probe is never released before its `Take` read the clock, and `Take` sleeps exactly until the release
    time (so, if `Sleep` sleeps at least its argument, the probe does not leave before `release`) -/
theorem C15_held (N W : Int) (now : Nat → Int) (j : Nat) :
    now j ≤ release (cfg N W) now j ∧
    release (cfg N W) now j = now j + (outAt (cfg N W) now j).interval ∧ 0 ≤ (outAt (cfg N W) now j).interval :=
  ⟨(Proofs.Limiter.release_ge_now _ now j).1, (Proofs.Limiter.release_ge_now _ now j).2,
   (Proofs.Limiter.take_release_eq _ _ _).2⟩

/-- wire times: if probe `j` reaches the wire at `t j ∈ [release j, release j + ε]`, any `k` consecutive probes
    take at least `(k-1-10)·⌊W/N⌋ - ε` on the wire -/
theorem C15_wire (N W : Int) (hN : 1 ≤ N) (hW : 0 ≤ W) (now : Nat → Int) (hclk : ClockOK now)
    (t : Nat → Int) (ε : Int) (hlo : ∀ j, release (cfg N W) now j ≤ t j) (hhi : ∀ j, t j ≤ release (cfg N W) now j + ε)
    (i k : Nat) (hk : 1 ≤ k) :
    t (i + k - 1) - t i ≥ ((k : Int) - 1 - 10) * (W / N) - ε :=
  Proofs.Limiter.main_wire N W hN hW now hclk t ε hlo hhi i k hk

/-- sequential sender (one goroutine: `Take`, write, `Take`, write, …; the next `Take` reads the clock after
    the previous probe hit the wire): no assumption on the dispatch latency, one unit weaker -/
theorem C15_sequential (N W : Int) (hN : 1 ≤ N) (hW : 0 ≤ W) (now : Nat → Int) (hclk : ClockOK now)
    (t : Nat → Int) (hlo : ∀ j, release (cfg N W) now j ≤ t j) (hseq : ∀ j, t j ≤ now (j + 1))
    (i k : Nat) (hk : 1 ≤ k) :
    t (i + k - 1) - t i ≥ ((k : Int) - 2 - 10) * (W / N) :=
  Proofs.Limiter.main_sequential N W hN hW now hclk t hlo hseq i k hk

/-- what the harness evaluates on the real limiter's output is true of every finite model run -/
theorem C15_spec_verdict (N W : Int) (nows : List Int) :
    Spec.Limiter.holdsOrdered N W nows
      ((run (cfg N W) State.init nows).map (·.release)) ((run (cfg N W) State.init nows).map (·.interval)) = true :=
  Proofs.Limiter.main_spec_verdict N W nows

/-- `ratelimit.New` with a non-zero rate builds `cfg`; with rate 0 it panics (integer divide by zero) — the
    wiring never calls it with 0 (`C15_wiring`) -/
theorem C15_new (N W : Int) : (N ≠ 0 → Limiter.new N W defaultSlack = some (cfg N W)) ∧ Limiter.new 0 W defaultSlack = none :=
  ⟨fun h => Proofs.Limiter.new_eq_cfg N W defaultSlack h, by simp [Limiter.new]⟩

/-! ### the wrappers: every frame written / probe started is charged exactly once, reads never -/

/-- for every sequence of calls on a wrapper: each sending call takes from the limiter exactly once, before it
    hands the frame/probe on (once); receiving calls never take; so the `j`-th item handed on is preceded by
    exactly `j+1` charges and there are as many charges as items (charge `j` belongs to item `j`). -/
theorem C15_charged_once (ops : List Op) :
    Spec.Limiter.chargedOnce (specTrace ops) = true ∧ Spec.Limiter.bijective (specTrace ops) = true :=
  ⟨Proofs.Limiter.wrapper_chargedOnce ops, Proofs.Limiter.wrapper_bijective ops⟩

/-- the wrapper types of the current tree have the modelled shape: `WritePacketData` / `Scan` are
    "`Take()`; `return delegate.Same(args)`" and nothing else, `ReadPacketData` is not overridden, the
    constructors store the delegate and the limiter they are given -/
theorem C15_wrapper_shape :
    wrapperEvents packetWrapper "WritePacketData" = some (wrapperOp .send) ∧
    wrapperEvents packetWrapper "ReadPacketData" = some (wrapperOp .recv) ∧
    wrapperEvents scanWrapper "Scan" = some (wrapperOp .send) ∧
    ctorOK packetWrapper = true ∧ ctorOK scanWrapper = true := by decide

/-- both wiring sites install the wrapper exactly when `rateCount > 0`, around the object used otherwise, with
    `ratelimit.New(rateCount, ratelimit.Per(rateWindow))` and no further option (so the burst allowance is the
    library default), and hand only the wrapped object on -/
theorem C15_wiring :
    wiringOK packetWiring "packet.NewRateLimitReadWriter" "scan.SetupPacketEngine" = true ∧
    wiringOK scanWiring "scan.NewRateLimitScanner" "scan.NewScanEngine" = true := by decide

/-- the limiter library and the wrapper constructors are used at those two sites only; every packet command
    passes its parsed `rateCount`/`rateWindow` on; the two option functions store them; both option structs
    fill them from `parseRateLimit`; the library version is the one modelled -/
theorem C15_plumbing :
    limiterCallSites.all (fun s => s.2.1 == "startPacketScanEngine" || s.2.1 == "newScanEngine") = true ∧
    (limiterCallSites.filter (fun s => s.2.2 == "ratelimit.New")).length = 2 ∧
    packetConfigCalls.length = 8 ∧
    packetConfigCalls.all (fun c => match c.2.1, c.2.2 with
      | [pc], [pw] => pc.dropLast == pw.dropLast && pc.getLast? == some "rateCount" && pw.getLast? == some "rateWindow"
      | _, _ => false) = true ∧
    (match withRateCountFacts with | (lhs, rhs, cp, p) => lhs == [cp, "rateCount"] && rhs == p) = true ∧
    (match withRateWindowFacts with | (lhs, rhs, cp, p) => lhs == [cp, "rateWindow"] && rhs == p) = true ∧
    parseSites.length = 2 ∧
    parseSites.all (fun s => match s.1 with
      | [pc, pw, _] => pc.dropLast == pw.dropLast && pc.getLast? == some "rateCount" && pw.getLast? == some "rateWindow"
      | _ => false) = true ∧
    ratelimitVersion = "v0.2.0" := by decide

/-! ### non-vacuity and sharpness (tests, labelled as such) -/

/-- the idle-limiter example: 1 probe per 10 ns; probe 1 arrives after a long pause, its write returns 9 ns
    later, then the sender is back to back -/
def sharpClock : Nat → Int := fun j => if j = 0 then 1 else if j = 1 then 2000 else 2009

example : ClockOK sharpClock := by intro j; unfold sharpClock; split <;> (try split) <;> omega

-- the twelve probes 1..12 are released within exactly (12-1-10)·10 = 10 ns: the bound is attained
example : release (cfg 1 10) sharpClock 12 - release (cfg 1 10) sharpClock 1 = ((12 : Int) - 1 - 10) * (10 / 1) := by decide
-- … while their *wire* times (probe 1 hits the wire when its write returns, at 2009) span 1 ns only: the
-- bound on wire times needs ε (here 9 ns), the sequential bound (k-2-10)·p = 0 holds
example : release (cfg 1 10) sharpClock 12 - 2009 = 1 := by decide
example : (List.range 13).map (release (cfg 1 10) sharpClock)
    = [1, 2000, 2009, 2009, 2009, 2009, 2009, 2009, 2009, 2009, 2009, 2009, 2010] := by decide
-- a back-to-back sender on a fresh limiter is paced at exactly one probe per 10 ns (no burst was saved up)
example : (List.range 6).map (release (cfg 1 10) (fun _ => 5)) = [5, 15, 25, 35, 45, 55] := by decide
-- the hypothesis on the clock is needed: a clock stuck at Go's zero time never gets past the first-call branch
example : ¬ ((20 : Int) - 10) * (10 / 1) ≤ release (cfg 1 10) (fun _ => 0) 20 - release (cfg 1 10) (fun _ => 0) 0 := by decide
-- N > W[ns]: perRequest = 0, nothing is limited, and the statement says so
example : (cfg 2147483647 1000000000).perRequest = 0 := by decide
example : wrapperRun [.send, .recv, .send] = [(.send, [.take, .delegate]), (.recv, [.delegate]), (.send, [.take, .delegate])] := by decide

end SxVerif.C15
