/-
C13 — Bad target-list entries become one faithful error each, never a probe.
Property theorems only (lemmas: `Proofs/Gen.lean`).

Reading recorded in DESIGN.md: "one error per entry" is per *reading* of the list — the address ×
ports mode re-reads the list once per port (that is how C01 counts its probes, too).

First the generator level (`C13_pairs` … `C13_pipeline_addrs`), then the same at the engines' error streams
(`C13_error_stream_*`): the generator-level statements composed with C07 (packet pipeline: an error request ↦
exactly one record on the merged error stream and no frame) and C08 (generic engine: an error entry ↦ exactly
one error sent and no `Scan` call) over the embeddings of Model/Compose.lean (lemmas: Proofs/ComposeErr.lean).
-/
import SxVerif.Spec.Gen
import SxVerif.Spec.Compose
import SxVerif.Proofs.GenC13
import SxVerif.Proofs.ComposeErr
import SxVerif.Props.C07
import SxVerif.Generated.Problems
import SxVerif.Generated.JsonWriter

namespace SxVerif.C13
open SxVerif.Gen SxVerif.Spec.Gen SxVerif.Compose SxVerif.Spec.Compose
open scoped List   -- for the `<+` (`List.Sublist`) notation, which core Lean declares `scoped`

/-- the error-stream theorems are stated over the packet topology regenerated from the tree (`C07.cfg`) -/
theorem translator_clean : Generated.translatorProblems = [] := by decide

/-- pairs file: the generator's output is, line by line, the per-line expectation of the lines it
    handled — every line up to and including the first one at which it may stop (invalid JSON,
    over-long line).  Per-line means: no entry changes, duplicates or drops a neighbour. -/
theorem C13_pairs (ls : List Line) :
    filePairs ls = (ls.take (handled stopsPairs ls)).map expectPair :=
  Proofs.Gen.filePairs_spec ls

/-- address file (icmp, address × ports mode): same, with a bad address also a stopping point -/
theorem C13_addrs (ls : List Line) :
    fileIPs ls = (ls.take (handled stopsAddrs ls)).map expectAddr :=
  Proofs.Gen.fileIPs_spec ls

/-- a bad entry is never a probe, and its error states its own cause -/
theorem C13_bad_never_probe (l : Line) (h : (linePair l).isNone) :
    (expectPair l).dst = none ∧ (expectPair l).err =
      some (match l with
        | .badJson => .json | .tooLong => .tooLong | .entry none _ => .ip | .entry (some _) _ => .port) := by
  cases l with
  | badJson => simp [expectPair]
  | tooLong => simp [expectPair]
  | entry ip p =>
    cases ip with
    | none => simp [expectPair]
    | some a =>
      simp only [linePair] at h
      by_cases hp : 0 < p ∧ p ≤ 65535
      · simp [hp] at h
      · simp [expectPair, hp]

/-- the exclusion filter is a per-request stage that passes errors through untouched -/
theorem C13_filter_stage (excl : List (Nat × Nat)) : stageOK (filterStage excl) :=
  Proofs.Gen.filterStage_ok excl

/-- the ARP-cache stage is a per-request stage that passes errors through untouched -/
theorem C13_cache_stage (cache : List (Addr × Nat)) (gw : Option Nat) : stageOK (cacheStage cache gw) :=
  Proofs.Gen.cacheStage_ok cache gw

/-- stacking: whichever optional stages sit on top of a pairs file, every error the file produced
    comes out exactly once, with its cause, in order, and in the same position relative to the
    surviving probes; no error becomes a probe -/
theorem C13_errors_survive (stage : List Req → List Req) (h : stageOK stage) (rs : List Req) :
    (stage rs).filter (fun r => r.err.isSome && r.err != some .noMAC)
      = rs.filter (fun r => r.err.isSome && r.err != some .noMAC) ∧
    probes (stage rs) <+ probes rs :=
  Proofs.Gen.errors_survive stage h rs

/-- composition as the commands build it: one engine run over a pairs file (packet command: filter,
    then cache stage) -/
theorem C13_pipeline_pairs (ls : List Line) (excl : Option (List (Nat × Nat)))
    (cache : Option (List (Addr × Nat) × Option Nat)) (tbl) (dp di : Draws) :
    ∃ stage, stageOK stage ∧
      ipPortRequests tbl { src := .file (fun _ => some ls), ports := [], excl := excl, cache := cache } [] dp di 0
        = .ok (stage ((ls.take (handled stopsPairs ls)).map expectPair)) :=
  Proofs.Gen.pipeline_pairs ls excl cache tbl dp di

/-- … and the port-less address file (icmp) -/
theorem C13_pipeline_addrs (ls : List Line) (excl : Option (List (Nat × Nat)))
    (cache : Option (List (Addr × Nat) × Option Nat)) (tbl) (d : Nat × Nat) :
    ∃ stage, stageOK stage ∧
      ipRequests tbl { src := .file (fun _ => some ls), ports := [], excl := excl, cache := cache } d
        = .ok (stage (((ls.take (handled stopsAddrs ls)).map expectAddr).map (fun
            | .ip a => ({ dst := some a } : Req)
            | .err c => { err := some c }))) :=
  Proofs.Gen.pipeline_addrs ls excl cache tbl d

/-! ### C13 at the error streams

`(ls.take (handled …)).map expectPair` is the per-line expectation of the lines the generator handled (Spec/Gen);
`errors` of it lists, in file order, the cause of every bad entry among them (`C13_bad_never_probe`), `probes` of
it the targets of the good ones.  `reqCauses` / `sentCauses` (Spec/Compose) read the causes of the request-error
records off what the error consumer received, through the identity (= position in the stream) of the request a
record was made for.  `!= noMAC` sets aside the ARP-cache stage's own errors (a good entry whose target has no
MAC — C11), which are not bad entries. -/

/-- **packet commands over a pairs file** (`tcp`/`udp -f`): for every list of lines, whichever optional stages
    are stacked (exclusion filter, ARP-cache stage), every link mode and filler, every family of `Fill` draws,
    any number `n ≥ 1` of generator workers, any writer failure pattern and receiver errors, and EVERY
    interleaving of the pipeline that is not cancelled and has terminated (error stream drained): the
    request-error records consumed from the merged error stream carry, as a multiset, exactly the causes of
    the bad entries — one record per bad entry handled, with that entry's cause, none for a good entry — and
    the frames handed to the writer are exactly the frames `Fill` built for the requests WITHOUT error
    (`probeFrames`), whose targets are targets of good entries (`probes rs <+ …`): no probe was made for a bad
    entry.  Hypotheses that remain: termination without cancellation; `RcvErrsOK`. -/
theorem C13_error_stream_pairs (ls : List Line) (excl : Option (List (Nat × Nat)))
    (cache : Option (List (Addr × Nat) × Option Nat)) (tbl) (dp di : Draws) (l : Link) (fl : Filler) :
    ∃ rs, ipPortRequests tbl { src := .file (fun _ => some ls), ports := [], excl := excl, cache := cache }
        [] dp di 0 = .ok rs ∧
      probes rs <+ probes ((ls.take (handled stopsPairs ls)).map expectPair) ∧
      ∀ o : PacketRun, o.inp.reqs = pipeReqs l fl o.rnd rs → 0 < o.inp.n → Pipe.ReachableNC C07.cfg o.inp o.st →
        Pipe.Terminated o.st → RcvErrsOK o.inp →
        ((reqCauses rs o.st.errsOut).filter (· != some .noMAC)).Perm
          ((errors ((ls.take (handled stopsPairs ls)).map expectPair)).map some) ∧
        (handed o.st).Perm (probeFrames l fl o.rnd rs) :=
  Proofs.Compose.error_stream_pairs (Pipe.wf_of_sideConds C07.side_conditions) ls excl cache tbl dp di l fl

/-- **icmp over an address file**: the same for the port-less address list -/
theorem C13_error_stream_addrs (ls : List Line) (excl : Option (List (Nat × Nat)))
    (cache : Option (List (Addr × Nat) × Option Nat)) (tbl) (d : Nat × Nat) (l : Link) (fl : Filler) :
    ∃ rs, ipRequests tbl { src := .file (fun _ => some ls), ports := [], excl := excl, cache := cache } d = .ok rs ∧
      probes rs <+ probes (((ls.take (handled stopsAddrs ls)).map expectAddr).map (fun
            | .ip a => ({ dst := some a } : Req)
            | .err c => { err := some c })) ∧
      ∀ o : PacketRun, o.inp.reqs = pipeReqs l fl o.rnd rs → 0 < o.inp.n → Pipe.ReachableNC C07.cfg o.inp o.st →
        Pipe.Terminated o.st → RcvErrsOK o.inp →
        ((reqCauses rs o.st.errsOut).filter (· != some .noMAC)).Perm
          ((errors (((ls.take (handled stopsAddrs ls)).map expectAddr).map (fun
            | .ip a => ({ dst := some a } : Req)
            | .err c => { err := some c }))).map some) ∧
        (handed o.st).Perm (probeFrames l fl o.rnd rs) :=
  Proofs.Compose.error_stream_addrs (Pipe.wf_of_sideConds C07.side_conditions) ls excl cache tbl d l fl

/-- **application scans over a pairs file** (`socks`/`docker`/`elastic -f`): for every list of lines and
    exclusion setting the request stream carries exactly the bad entries' causes, and for the generic engine on
    its embedding — every worker count `W ≥ 1`, every oracle for `Scan`, every interleaving without Ctrl-C — no
    `Scan` call is EVER made for a request that carries an error (every scanned identity is an error-free
    request of the stream), and once `done` is closed the errors the workers sent carry exactly the bad entries'
    causes, one each (records of failed scans carry none of them); after the drain loop has returned, what was
    logged is what was sent, in order (`C08_err_fifo`). -/
theorem C13_error_stream_generic (ls : List Line) (excl : Option (List (Nat × Nat)))
    (cache : Option (List (Addr × Nat) × Option Nat)) (tbl) (dp di : Draws) :
    ∃ rs, genericRun tbl { src := .file (fun _ => some ls), ports := [], excl := excl, cache := cache } dp di = .ok rs ∧
      errors rs = errors ((ls.take (handled stopsPairs ls)).map expectPair) ∧
      probes rs <+ probes ((ls.take (handled stopsPairs ls)).map expectPair) ∧
      ∀ (c : Engine.Cfg) (orc : Nat → Engine.Outcome) (st : Engine.Sys), 0 < c.W →
        Engine.Reachable c (Engine.init (engReqs orc rs) []) st → st.cmdCtx = false →
        (∀ e ∈ st.scans, ∃ r, rs[e.id]? = some r ∧ r.err = none) ∧
        (st.doneClosed = true →
          (sentCauses rs st.errSent).Perm (errors ((ls.take (handled stopsPairs ls)).map expectPair)) ∧
          (st.drain = .exited → st.errLogged = st.errSent)) :=
  Proofs.Compose.error_stream_generic ls excl cache tbl dp di

-- non-vacuity (tests, labelled as such)
example : filePairs [.entry (some (.v4 1 true)) 80, .entry none 0, .entry (some (.v4 2 true)) 0, .badJson,
                     .entry (some (.v4 3 true)) 1]
    = [{ dst := some (.v4 1 true), port := 80 }, { err := some .ip }, { err := some .port }, { err := some .json }] := by
  decide

-- the causes and targets the error-stream theorems speak about, on the same file
example : errors (([.entry (some (.v4 1 true)) 80, .entry none 0, .entry (some (.v4 2 true)) 0, .badJson,
      .entry (some (.v4 3 true)) 1].take 4).map expectPair) = [.ip, .port, .json] ∧
    probes (([.entry (some (.v4 1 true)) 80, .entry none 0, .entry (some (.v4 2 true)) 0, .badJson,
      .entry (some (.v4 3 true)) 1].take 4).map expectPair) = [(.v4 1 true, 80)] := by decide


/-- (T) every error handed to the logger becomes one record at once, however many there are: the zap logger is the
    production configuration with sampling switched off and no further option (its sink is the process's stderr,
    locked, unbuffered: one `write(2)` per record, nothing kept in memory that a later `Sync` would have to save), and
    `(*logger).Error` is one call of it.  (zap itself is trusted; the dynamic side are the `…/mass`, `…/slowerr` and
    `…/errflood` cases of `e2eapp` and component `e2eerr`.) -/
theorem error_records_written_through :
    SxVerif.Generated.errorLoggerConfig = "zap.NewProductionConfig()" ∧
    SxVerif.Generated.errorLoggerConfAssigns = [("Sampling", "nil")] ∧
    SxVerif.Generated.errorLoggerCtor = ("conf.Build", 0) ∧
    SxVerif.Generated.loggerErrorBody = ["l.zapl.Error(l.label, zap.Error(err))"] := by decide

end SxVerif.C13
