/-
C13 — Bad target-list entries become one faithful error each, never a probe.
Property theorems only (lemmas: `Proofs/Gen.lean`).

Reading recorded in DESIGN.md: "one error per entry" is per *reading* of the list — the address ×
ports mode re-reads the list once per port (that is how C01 counts its probes, too).
-/
import SxVerif.Spec.Gen
import SxVerif.Proofs.GenC13

namespace SxVerif.C13
open SxVerif.Gen SxVerif.Spec.Gen
open scoped List   -- for the `<+` (`List.Sublist`) notation, which core Lean declares `scoped`

/-- pairs file: the generator's output is, line by line, the per-line expectation of the lines it
    handled — every line up to and including the first one at which it may stop (invalid JSON,
    over-long line).  Per-line means: no entry changes, duplicates or drops a neighbour. -/
theorem C13_pairs (ls : List Line) :
    filePairs ls = (ls.take (handled stopsPairs ls)).map expectPair :=
  Proofs.Gen.filePairs_spec ls

/-- address file (icmp, address × ports mode): same, with a bad address also a stopping point -/
theorem C13_addrs (ls : List Line) :
    fileIPs ls = (ls.take (handled stopsAddrs ls)).map expectAddr :=
  Proofs.Gen.fileIPs_spec ls

/-- a bad entry is never a probe, and its error states its own cause -/
theorem C13_bad_never_probe (l : Line) (h : (linePair l).isNone) :
    (expectPair l).dst = none ∧ (expectPair l).err =
      some (match l with
        | .badJson => .json | .tooLong => .tooLong | .entry none _ => .ip | .entry (some _) _ => .port) := by
  cases l with
  | badJson => simp [expectPair]
  | tooLong => simp [expectPair]
  | entry ip p =>
    cases ip with
    | none => simp [expectPair]
    | some a =>
      simp only [linePair] at h
      by_cases hp : 0 < p ∧ p ≤ 65535
      · simp [hp] at h
      · simp [expectPair, hp]

/-- the exclusion filter is a per-request stage that passes errors through untouched -/
theorem C13_filter_stage (excl : List (Nat × Nat)) : stageOK (filterStage excl) :=
  Proofs.Gen.filterStage_ok excl

/-- the ARP-cache stage is a per-request stage that passes errors through untouched -/
theorem C13_cache_stage (cache : List (Addr × Nat)) (gw : Option Nat) : stageOK (cacheStage cache gw) :=
  Proofs.Gen.cacheStage_ok cache gw

/-- stacking: whichever optional stages sit on top of a pairs file, every error the file produced
    comes out exactly once, with its cause, in order, and in the same position relative to the
    surviving probes; no error becomes a probe -/
theorem C13_errors_survive (stage : List Req → List Req) (h : stageOK stage) (rs : List Req) :
    (stage rs).filter (fun r => r.err.isSome && r.err != some .noMAC)
      = rs.filter (fun r => r.err.isSome && r.err != some .noMAC) ∧
    probes (stage rs) <+ probes rs :=
  Proofs.Gen.errors_survive stage h rs

/-- composition as the commands build it: one engine run over a pairs file (packet command: filter,
    then cache stage) -/
theorem C13_pipeline_pairs (ls : List Line) (excl : Option (List (Nat × Nat)))
    (cache : Option (List (Addr × Nat) × Option Nat)) (tbl) (dp di : Draws) :
    ∃ stage, stageOK stage ∧
      ipPortRequests tbl { src := .file (fun _ => some ls), ports := [], excl := excl, cache := cache } [] dp di 0
        = .ok (stage ((ls.take (handled stopsPairs ls)).map expectPair)) :=
  Proofs.Gen.pipeline_pairs ls excl cache tbl dp di

/-- … and the port-less address file (icmp) -/
theorem C13_pipeline_addrs (ls : List Line) (excl : Option (List (Nat × Nat)))
    (cache : Option (List (Addr × Nat) × Option Nat)) (tbl) (d : Nat × Nat) :
    ∃ stage, stageOK stage ∧
      ipRequests tbl { src := .file (fun _ => some ls), ports := [], excl := excl, cache := cache } d
        = .ok (stage (((ls.take (handled stopsAddrs ls)).map expectAddr).map (fun
            | .ip a => ({ dst := some a } : Req)
            | .err c => { err := some c }))) :=
  Proofs.Gen.pipeline_addrs ls excl cache tbl d

-- non-vacuity (tests, labelled as such)
example : filePairs [.entry (some (.v4 1 true)) 80, .entry none 0, .entry (some (.v4 2 true)) 0, .badJson,
                     .entry (some (.v4 3 true)) 1]
    = [{ dst := some (.v4 1 true), port := 80 }, { err := some .ip }, { err := some .port }, { err := some .json }] := by
  decide

end SxVerif.C13
