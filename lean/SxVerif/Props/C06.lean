/-
C06 — Receive path: arbitrary frames never crash it and never yield phantom data.
Property theorems only (lemmas: `Proofs/Frame.lean`).
-/
import SxVerif.Model.Proc
import SxVerif.Spec.Frame
import SxVerif.Spec.Faithful
import SxVerif.Proofs.Frame
import SxVerif.Generated.Wiring
import SxVerif.Proofs.CaptureSource
import SxVerif.Generated.Constants

namespace SxVerif.C06
open SxVerif.Frame SxVerif.Proc SxVerif.Spec.Frame

-- `Faithful scan f r` (what a record must be, given the frame it was emitted for) is defined in
-- `Spec/Faithful.lean` (namespace `SxVerif.Spec.Frame`), so that `Proofs/Frame.lean` can state its lemmas.

/-- **C06, one frame, any prior state**: processing any byte string, starting from *any* contents of
    the reused decoder structs, never crashes; and if it emits a record, the frame itself contains the
    well-formed header chain of the scanned protocol and the record is made of that frame's bytes. -/
theorem C06_step (scan : Scan) (st : State) (f : Bytes) :
    (process scan st f).2 ≠ .panic ∧ ∀ r, (process scan st f).2 = .record r → Faithful scan f r :=
  Proofs.Frame.process_faithful scan st f

/-- **C06, histories**: for every sequence of frames (from any initial state) the i-th output is
    determined as above by the i-th frame alone; at most one record per frame holds by construction
    (`Out` carries at most one). -/
theorem C06_history (scan : Scan) (st : State) (fs : List Bytes) :
    (run scan st fs).length = fs.length ∧
    ∀ i (hi : i < fs.length) (ho : i < (run scan st fs).length),
      (run scan st fs)[i] ≠ .panic ∧ ∀ r, (run scan st fs)[i] = .record r → Faithful scan fs[i] r :=
  Proofs.Frame.run_faithful scan st fs

/-- the decoding loop always ends within its fuel (termination is a theorem, not a modelling choice):
    more fuel never changes the result -/
theorem C06_terminates (registered : List LT) (first : LT) (st : State) (d : Bytes) (extra : Nat) :
    decodeLoop registered (d.length + 1 + extra) first st d [] = decodeLoop registered (d.length + 1) first st d [] :=
  Proofs.Frame.decodeLoop_fuel registered first st d extra

/-- (T) "never crash" below the processor: the frames come out of a memory-mapped ring that `Close` unmaps while
    the receiver goroutine is still reading (it outlives the engine run that started it).  `afpacket.Source` takes
    one mutex in `ReadPacketData` and `Close`, answers io.EOF once closed and hands out a copy of the frame, so
    whatever arrives — and whenever — the processor is given bytes it may read.  (Dynamic side: the reply-flood
    cases of component `e2e`.) -/
theorem capture_source_safe : SxVerif.Generated.readSafeAgainstClose = true := by decide

/-- (T) a frame the kernel delivered with its VLAN tag stripped (the tag travels beside the frame, the bytes look
    like an untagged answer) is not processed at all: no phantom record for a host of another VLAN -/
theorem vlan_tagged_skipped : SxVerif.Generated.dropsVlanTagged = true := by decide

-- non-vacuity and the two-frame history the property text mentions (tests, labelled as such)
private def synAck : Bytes :=
  [0,0,0,0,0,1, 0,0,0,0,0,2, 8,0,
   0x45,0,0,40, 0,1,0x40,0, 64,6,0,0, 10,0,0,1, 10,0,0,2,
   0,80, 0x80,0, 0,0,0,1, 0,0,0,2, 0x50,0x12,0xff,0xff, 0,0,0,0]
/-- Ethernet / IPv4 (proto 4) / IPv4 (proto 17): lacks a TCP header -/
private def nested : Bytes :=
  [0,0,0,0,0,1, 0,0,0,0,0,2, 8,0,
   0x45,0,0,48, 0,1,0x40,0, 64,4,0,0, 10,0,0,9, 10,0,0,2,
   0x45,0,0,28, 0,1,0x40,0, 64,17,0,0, 10,0,0,7, 10,0,0,2, 1,2,3,4,5,6,7,8]
private def synCfg : TcpCfg := { scanType := "tcpsyn", filter := .synack, flagsFn := .empty, vpn := false }

example : run (.tcp synCfg) {} [synAck, nested]
    = [.record (.tcp "tcpsyn" [10,0,0,1] 80 ""), .none] := by decide


/-- (T) the capture source follows the lock protocol of `Model/CaptureSource.lean`: `Close` = lock, deferred unlock,
    `closed = true`, unmap; one read = lock, EOF if closed, read-and-copy, unlock (regenerated from
    pkg/packet/afpacket/readwriter.go) -/
theorem capture_source_protocol : SxVerif.Generated.sourceDesc = SxVerif.CaptureSource.modelled := by decide

/-- **no read ever touches an unmapped ring**: any number of receiver goroutines (one is left behind by every engine
    run / port chunk) and any number of `Close` calls, interleaved in any way — the D25 crash cannot happen -/
theorem capture_source_never_faults (s : SxVerif.CaptureSource.Sys) (h : SxVerif.CaptureSource.Reachable s) :
    s.fault = false := (SxVerif.CaptureSource.inv_reachable h).noFault

/-- once closed, always closed: a receiver that is left behind can only get io.EOF out of the source -/
theorem capture_source_closed_stays {s t : SxVerif.CaptureSource.Sys} (hs : SxVerif.CaptureSource.Step s t)
    (hc : s.closed = true) : t.closed = true := SxVerif.CaptureSource.closed_mono hs hc


/-- (T) the filter is applied to EVERY frame the processors see — also to the frames that reached the capture socket
    between its creation and the moment the filter was attached (at the start of the scan and of every port chunk; a
    SYN+ACK of any other host on the link arriving in that window was reported as an open port: D30):
    `afpacket.Source.ReadPacketData` runs the program that `SetBPFFilter` attached on each frame once more, in user
    space, and skips what it rejects.  `C03_wire` models exactly this: filter, then processor, for every frame. -/
theorem capture_filter_applied_to_every_frame : SxVerif.Generated.userSpaceFilter = true := by decide


/-- (T) the engine runs of a chunked port scan (one per 200 port ranges, each with its own socket and receiver
    goroutine) share ONE scan method, and the receiver of a finished run is not waited for: it may still be decoding
    its last frame when the next run's receiver decodes its first.  `startPortScanEngine` hands every run the method
    behind one mutex (`lockedPacketMethod`: lock, deferred unlock, the method's own `ProcessPacketData`), so the
    processors run one frame at a time — which is what `C06_history` assumes of a history of frames (D31; dynamic side:
    the reply-flood run of `e2e` from a race-enabled build of sx). -/
theorem chunk_receivers_serialised : SxVerif.Generated.chunksShareLockedMethod = true := by decide

end SxVerif.C06
