import SxVerif.Spec.Limiter
import Driver.Util

/-!
End-to-end timing cases (harness/cmd/sxdiff/e2etime.go): the real `sx` binary observed on a veth pair.
The "model output" is an echo (there is nothing to differ from: the theorems behind the verdicts are
`C15_sequential` and `C16_delay_respected` / `C16_late_reply_enqueued`); the verdict is the Spec.
-/
namespace Driver.E2E
open Driver SxVerif

def parseIntListC (s : String) : Option (List Int) :=
  if s.isEmpty then some [] else (s.splitOn ",").mapM (·.toInt?)

/-- `limwire cmd N W count slack t=…`: wire times of consecutive probes of ONE sending goroutine:
    every window obeys the sequential bound `(k-2-10)·⌊W/N⌋` up to `slack` ns, and all `count` probes left -/
def handleLimWire : List String → Option String
  | [_cmd, n, w, count, slack, obs] => do
    let n ← parseInt? n; let w ← parseInt? w; let count ← parseNat? count; let slack ← parseInt? slack
    let v := match (if obs.startsWith "t=" then parseIntListC (obs.drop 2).toString else none) with
      | some ts => ts.length == count &&
          (n < 1 || w < 0 || Spec.Limiter.rateOKTol (Spec.Limiter.perProbe n w) (Spec.Limiter.burst + 1) slack ts)
      | none => false
    pure s!"{obs}\t{b2s v}"
  | _ => none

def kv (s : String) (k : String) : Option Int :=
  (s.splitOn ";").findSome? (fun p => match p.splitOn "=" with
    | [a, b] => if a == k then b.toInt? else none
    | _ => none)

/-- `e2edelay cmd delayMs injPct rep=R|exit=µs;inj=µs`: the process (or, in a chunked port scan, the engine run) did
    not end before (last probe) + delay (2 ms tolerance for comparing a user-level clock reading with a kernel stamp)
    and not later than 2.5 s after it ("when the delay is over it does exit, within bounded time"), and
    a reply injected at least 120 ms before the end of the delay is printed exactly once -/
def handleE2EDelay : List String → Option String
  | [_cmd, delayMs, _pct, obsAll] => do
    let d ← parseInt? delayMs
    match obsAll.splitOn "|" with
    | [canon, raw] =>
      let rep := (kv canon "rep").getD (-1)
      let v := match kv raw "exit", kv raw "inj" with
        | some ex, some inj =>
          decide (ex ≥ d * 1000 - 2000) && decide (ex ≤ d * 1000 + 2500000) &&
          (if inj ≥ 0 ∧ inj ≤ d * 1000 - 120000 then rep == 1 else (rep == 0 || rep == 1))
        | _, _ => false
      -- canonical part of the model: the expected report count when the injection is well inside the delay
      let m := match kv raw "inj" with
        | some inj => if inj ≥ 0 ∧ inj ≤ d * 1000 - 120000 then "rep=1" else canon
        | none => canon
      pure s!"{m}|{raw}\t{b2s v}"
    | _ => none
  | _ => none

/-- `e2earp base ones inj gw obs`: the ARP scan's own output, loaded by the real `FillCache`, maps every answering
    host to the LAST MAC it answered with and nothing else (`C11_printed_line_loads`, `C11_last_wins`); the TCP scan
    given that output addresses every probe to that MAC, and the probes for silent hosts to the gateway
    (`C11_stage_choice`, `C11_never_foreign_mac`) -/
def handleE2EArp : List String → Option String
  | [base, ones, inj, gw, obs] => do
    let base ← parseNat? base; let ones ← parseNat? ones
    let pairs : List (String × String) := if inj.isEmpty then [] else
      (inj.splitOn ",").filterMap (fun p => match p.splitOn "=" with
        | [a, b] => some (a, b)
        | _ => none)
    let n := 2 ^ (32 - ones)
    let sent := (List.range n).map (fun i =>
      let ip := toString (base + i)
      let mac := match pairs.find? (·.1 == ip) with
        | some (_, m) => m
        | none => gw
      s!"{ip}={mac}")
    let sortS (l : List String) : List String := (l.toArray.qsort (· < ·)).toList
    let m := "load=" ++ ",".intercalate (sortS (pairs.map (fun (a, b) => s!"{a}={b}"))) ++ "|sent=" ++ ",".intercalate (sortS sent)
    pure s!"{m}\t{b2s (obs == m)}"
  | _ => none

/-- `e2earpkill injected obs`: `sx arp --json` ended by a signal it does not handle while results were being printed.
    By `C11_printed_line_loads` every line the scan prints loads as (printed address ↦ printed MAC); what is on stdout at that
    (arbitrary) moment is made of such lines only: the loader accepts it, it is not empty, and every entry is an
    answer that was given. -/
def handleE2EArpKill : List String → Option String
  | [inj, obs] => do
    let pairs := if inj.isEmpty then [] else inj.splitOn ","
    let v := match obs.splitOn ";" with
      | [l, n] => l.startsWith "load=" && n != "lines=0" &&
          (((l.drop 5).toString.splitOn ",").all (fun p => pairs.contains p))
      | _ => false
    pure s!"{if v then obs else "load=<answers given>"}\t{b2s v}"
  | _ => none

/-- `e2elivesrc cmdline srcip srcmac obs` (harness/cmd/sxdiff/e2efill.go): a live ARP scan with `--srcip` / `--srcmac`
    over several passes.  By `C17_iii_overrides` the scan range carries the given values, and
    the range is what every pass is generated from (`C19_shape`: the live loop calls the delegate with its own argument): every request of every pass names them
    as its sender (ARP sender fields and Ethernet source), at least two passes were seen, and the process ended well. -/
def handleE2ELiveSrc : List String → Option String
  | [_cmd, ip, mac, obs] => do
    let want := s!"spa={ip};sha={mac}/{mac}"
    let v := match obs.splitOn ";" with
      | [a, b, p, e] => s!"{a};{b}" == want && e == "exit=0" &&
          (match (if p.startsWith "passes=" then (p.drop 7).toString.toNat? else none) with
            | some n => decide (2 ≤ n)
            | none => false)
      | _ => false
    pure s!"{if v then obs else want ++ ";passes>=2;exit=0"}\t{b2s v}"
  | _ => none

/-- `e2elive cmdline N rescanMs obs` (harness/cmd/sxdiff/e2elive.go): `sx arp --live` of the real binary over several
    passes.  By `C19_passes_whole_in_order` / `C19_nothing_invented` every pass is the delegate's whole pass (each address
    once: C01 per pass), by `C19_rescan_interval` the next pass starts no earlier than the rescan time after the previous
    one ended, by `C19_passes_unbounded` passes keep coming until the scan is cancelled: at least three complete passes
    were seen, none of them anything but a permutation of the N expected addresses, the shortest gap between two passes
    is at least the rescan time — less what the last frame of a pass and the first of the next spend in the packet
    pipeline behind the request stream the timer belongs to (15 % + 5 ms allowed on the wire) —, and the process ended
    well on SIGINT. -/
def handleE2ELive : List String → Option String
  | [_cmd, _n, rescan, obs] => do
    let d ← parseInt? rescan
    let v := match kv obs "passes", kv obs "bad", kv obs "mingap", kv obs "exit" with
      | some k, some b, some g, some e => decide (3 ≤ k) && b == 0 && decide (g ≥ d * 850 - 5000) && e == 0
      | _, _, _, _ => false
    pure s!"{if v then obs else "passes>=3;bad=0;mingap>=" ++ toString (d * 850 - 5000) ++ ";exit=0"}\t{b2s v}"
  | _ => none

/-- `e2eerr cmdline nFrames nErrors obs` (harness/cmd/sxdiff/e2eerr.go): a packet scan whose ARP cache knows only some of
    the hosts and no gateway.  By `C13_cache_stage` (one faithful error per request without a MAC, never a probe) composed with
    `C07_final_full` (every request is one frame or one error on the merged error stream; `C13_error_stream_addrs`) and the logger writing one
    record per error: at the process boundary `nFrames` probes on the wire and `nErrors` error records, each of them
    naming its cause, however slowly stderr is read. -/
def handleE2EErr : List String → Option String
  | [_cmd, nf, ne, obs] => do
    let nf ← parseNat? nf; let ne ← parseNat? ne
    let m := s!"frames={nf};err={ne};mac={ne};exit=0"
    pure s!"{m}\t{b2s (obs == m)}"
  | _ => none

/-- `e2esigint cmdline delayMs boundMs canon|raw` (harness/cmd/sxdiff/e2esig.go): a rate-limited run of the real binary
    that got SIGINT `delayMs` after its start.  By `C12_bounded_return` / `C12_no_panic` / `C12_whole_records` the scan call
    returns, nothing panics and the output holds whole records only; at the process boundary: the process was still
    scanning when the signal came, ended by itself, within the bound, with no panic text and complete lines. -/
def handleE2ESigint : List String → Option String
  | [_cmd, _delay, bound, obsAll] => do
    let bound ← parseInt? bound
    match obsAll.splitOn "|" with
    | [canon, raw] =>
      let want := "ended=1;panic=0;lines=ok;running=1"
      let v := canon == want && (match kv raw "ms" with
        | some ms => decide (ms ≤ bound)
        | none => false)
      pure s!"{want}|{raw}\t{b2s v}"
    | _ => none
  | _ => none

end Driver.E2E
