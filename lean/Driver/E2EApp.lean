import SxVerif.Spec.AppRun
import Driver.Util

/-!
End-to-end application-scan cases (harness/cmd/sxdiff/e2eapp.go): the real `sx socks | elastic | docker`
binary against scripted servers in a network namespace.  As for the other end-to-end tags the "model output" is
the one observation the property allows (apprec) or an echo (apptime); the verdict is the Spec
(`Spec/AppRun.lean`).  The theorems behind the verdicts: `C08_complete` / `C08_err_fifo` / `C08_drain_partial`
(records ≈ detections, errors ≈ failures, all printed at the default exit delay), `C09_decision` / `C09_record` /
`C09_time_bound`, `C10_*_reported_iff` / `C10_*_record` / `C10_*_time_partial`.
-/
namespace Driver.E2EApp
open Driver SxVerif SxVerif.Spec.AppRun

def parseBeh : String → Option Beh
  | "ok" => some .ok | "neg" => some .neg | "refused" => some .refused
  | "tarpit" => some .tarpit | "garbage" => some .garbage | "drop" => some .drop
  | "slowok" => some .ok          -- answers positively, a few hundred milliseconds late (well within the timeout)
  | "badline" => some .badline
  | _ => none

/-- `a.b.c.d:port:beh:x` -/
def parseTarget (s : String) : Option Target :=
  match s.splitOn ":" with
  | [ip, port, beh, x] => do
    let b ← parseBeh beh
    let _ ← port.toNat?
    if x != "0" && x != "1" then none
    pure ⟨s!"{ip}:{port}", b, x == "1"⟩
  | _ => none

/-- a target token, or `badlines*N` (N bad target-list lines in a row) -/
def parseTargets (s : String) : Option (List Target) :=
  match s.splitOn "*" with
  | ["badlines", n] => do
    let n ← n.toNat?
    pure (List.replicate n ⟨"-", .badline, false⟩)
  | _ => do pure [← parseTarget s]

/-- `appdelay cmd exitMs us=…;exit=…`: a run whose stdout refuses every write (a full disk) still waits its exit delay -/
def handleAppDelay : List String → Option String
  | [_cmd, exitMs, obs] => do
    let exitMs ← parseNat? exitMs
    let v := match obs.splitOn ";" with
      | [u, e] => e == "exit=0" && (match (if u.startsWith "us=" then (u.drop 3).toString.toNat? else none) with
          | some us => delayOK exitMs us
          | none => false)
      | _ => false
    pure s!"{obs}\t{b2s v}"
  | _ => none

/-- `apprec cmd proto cfg targets observed` -/
def handleAppRec : List String → Option String
  | [cmd, proto, _cfg, targets, obs] => do
    let ts ← (if targets.isEmpty then some [] else ((targets.splitOn ",").mapM parseTargets).map List.flatten)
    if !(cmd == "socks" || cmd == "elastic" || cmd == "docker") then none
    -- a negative answer exists for socks only
    if cmd != "socks" && ts.any (fun t => t.beh == .neg) then none
    pure s!"{expected cmd proto ts}\t{b2s (holds cmd proto ts obs)}"
  | _ => none

/-- `apptime cmd kind tflag tMs mult exitMs slackMs us=…` -/
def handleAppTime : List String → Option String
  | [cmd, _kind, _tflag, tMs, mult, exitMs, slackMs, obs] => do
    let tMs ← parseNat? tMs; let mult ← parseNat? mult; let exitMs ← parseNat? exitMs; let slackMs ← parseNat? slackMs
    if mult != timeouts cmd then none
    let v := match (if obs.startsWith "us=" then (obs.drop 3).toString.toNat? else none) with
      | some us => tMs > 0 && timeOK cmd tMs exitMs slackMs us
      | none => false
    pure s!"{obs}\t{b2s v}"
  | _ => none

end Driver.E2EApp
