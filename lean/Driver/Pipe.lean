import SxVerif.Model.Pipe
import SxVerif.Model.PipeDesc
import SxVerif.Spec.Pipe
import SxVerif.Generated.StagesPacket
import Driver.Util

/-!
`pipe` cases: N, kinds, wfail, rcvK, opts, observed.

model output  = the Spec expectation for that input in the observed format (`w=…;e=…;d=1;c=1;s=1;t=…`);
the `t=` part repeats the observed trace when the model's step function accepts it (after completing it
with the internal steps, see `complete`), else `rejected@<k>`.
verdict       = `Spec.Pipe.holds` on the observed output ∧ the observed trace is accepted.
-/
namespace Driver
open SxVerif SxVerif.Pipe

def pipeCfg : Cfg := Desc.cfgOf Generated.packetTopology

/-- bytes the harness's filler writes for request `i` -/
def pipeFrame (i : Nat) : Bytes :=
  let l := 6 + i % 5
  [0xA5, UInt8.ofNat (i >>> 24), UInt8.ofNat (i >>> 16), UInt8.ofNat (i >>> 8), UInt8.ofNat i, UInt8.ofNat l] ++
    (List.range (l - 6)).map (fun j => UInt8.ofNat (i + j + 1))

def frameId (bs : Bytes) : Option Nat :=
  match bs with
  | _ :: a :: b :: c :: d :: _ => some (a.toNat * 16777216 + b.toNat * 65536 + c.toNat * 256 + d.toNat)
  | _ => none

def kindOfChar : Char → Option Kind
  | 'o' => some .ok | 'r' => some .reqErr | 'f' => some .fillErr | _ => none

def errName : Err → String
  | .req r => s!"req:{r.id}"
  | .fill r => s!"fill:{r.id}"
  | .write f => s!"write:{Spec.Pipe.bytesKey f}"
  | .rcv k => s!"rcv:{k}"

def pktName : Pkt → String
  | .err e => errName e
  | .buf b _ => s!"buf:{b}"

def parseCause (s : String) : Spec.Pipe.Cause :=
  if s.startsWith "req:" then ((s.drop 4).toString.toNat?.map .request).getD (.unknown s)
  else if s.startsWith "fill:" then ((s.drop 5).toString.toNat?.map .build).getD (.unknown s)
  else if s.startsWith "rcv:" then ((s.drop 4).toString.toNat?.map .receiver).getD (.unknown s)
  else if s.startsWith "write:" then
    (match unhex (s.drop 6).toString with | some b => if b.isEmpty then .unknown s else .wire b | none => .unknown s)
  else .unknown s

def splitList (s : String) : List String := if s == "-" then [] else s.splitOn ","

/-! ### completing a visible trace with the internal steps -/

def internalEvents (n : Nat) : List Event :=
  (List.range n).flatMap (fun i =>
    [.worker i .recv, .worker i .send, .worker i .close, .mux i .recv, .mux i .send, .mux i .done]) ++
  [.closer .wait, .closer .close, .sender .recv, .sender .report, .sender .close1, .sender .close2,
   .emux false .recv, .emux false .send, .emux false .done, .emux true .recv, .emux true .send, .emux true .done,
   .ecloser .wait, .ecloser .close]

def senderAtFree (s : Sys) : Bool :=
  match s.snd with
  | .work _ _ (.free :: _) => true
  | _ => false

/-- run internal steps (fixed priority) until none is enabled -/
def quiesce (cfg : Cfg) (inp : Input) : Nat → Sys → List Event → Sys × List Event
  | 0, s, acc => (s, acc)
  | fuel + 1, s, acc =>
    let cands := (if senderAtFree s then [Event.sender .call] else []) ++ internalEvents inp.n
    match cands.findSome? (fun e => (step cfg inp s e).map (fun s' => (e, s'))) with
    | some (e, s') => quiesce cfg inp fuel s' (e :: acc)
    | none => (s, acc)

def findGot (lanes : List Lane) (id : Nat) : Option Nat :=
  lanes.findIdx? (fun l => match l.w with | .got r => r.id == id | _ => false)

/-- the model events (and an after-check) a visible token stands for -/
def tokenEvents (s : Sys) (tok : String) : Option (List Event × (Sys → Bool)) :=
  let rest := (tok.drop 1).toString
  match tok.front with
  | 'S' => some ([.envSend], fun _ => true)
  | 'X' => some ([.envClose], fun _ => true)
  | 'R' => some ([.rcvSend], fun _ => true)
  | 'Q' => some ([.rcvClose], fun _ => true)
  | 'D' => some ([], fun s => s.done)
  | 'C' => some ([], fun s => s.merr.closed && s.merr.buf.isEmpty)
  | 'F' =>
    match rest.splitOn ":" with
    | [ids, bs] => do
      let id ← ids.toNat?
      let b ← bs.toNat?
      let i ← findGot s.lanes id
      pure ([.worker i (.get b), .worker i .fill], fun _ => true)
    | _ => none
  | 'W' =>
    match rest.splitOn ":" with
    | [hx, f] => do
      let bytes ← unhex hx
      pure ([.sender .call], fun s' => s'.written.length == s.written.length + 1 &&
        s'.written.getLast? == some (bytes, f == "1"))
    | _ => none
  | 'E' => some ([.consume], fun s' => (s'.errsOut.getLast?.map pktName) == some rest)
  | _ => none

/-- full event list for a visible trace, or the index of the token that cannot happen -/
def complete (cfg : Cfg) (inp : Input) (toks : List String) : Except Nat (List Event) :=
  let rec go (k : Nat) (s : Sys) (acc : List Event) : List String → Except Nat (List Event)
    | [] => .ok acc.reverse
    | t :: ts =>
      match tokenEvents s t with
      | none => .error k
      | some (evs, chk) =>
        match run cfg inp s evs with
        | none => .error k
        | some s' =>
          if chk s' then
            let (s'', acc') := quiesce cfg inp 100000 s' (evs.reverse ++ acc)
            go (k + 1) s'' acc' ts
          else .error k
  let (s0, acc0) := quiesce cfg inp 100000 (init inp) []
  go 0 s0 acc0 toks

structure PipeObs where
  w : List String
  e : List String
  d : Bool
  c : Bool
  s : Bool
  t : String

def parsePipeObs (o : String) : Option PipeObs :=
  match o.splitOn ";" with
  | [w, e, d, c, s, t] =>
    if w.startsWith "w=" && e.startsWith "e=" && t.startsWith "t=" then
      some ⟨splitList (w.drop 2).toString, splitList (e.drop 2).toString, d == "d=1", c == "c=1", s == "s=1",
            (t.drop 2).toString⟩
    else none
  | _ => none

def showList (l : List String) : String := if l.isEmpty then "-" else ",".intercalate l

def handlePipe : List String → Option String
  | [ns, kinds, wfailS, rcvS, _opts, obs] => do
    let n ← parseNat? ns
    let ks ← (if kinds == "-" then some [] else kinds.toList.mapM kindOfChar)
    let wf ← (splitList wfailS).mapM (·.toNat?)
    let rcvK ← parseNat? rcvS
    let items : List Spec.Pipe.Item := ks.zipIdx.map (fun (k, i) => ⟨i, k, pipeFrame i, wf.contains i⟩)
    let expW := Spec.Pipe.sortKeys ((Spec.Pipe.expectedFrames items).map Spec.Pipe.bytesKey)
    let expE := Spec.Pipe.sortKeys ((Spec.Pipe.expectedErrors items rcvK).map Spec.Pipe.causeKey)
    let inp : Input := { n := n, reqs := ks.zipIdx.map (fun (k, i) => ⟨i, k, pipeFrame i⟩),
                         rcvErrs := (List.range rcvK).map .rcv,
                         wfail := fun _ bytes => match frameId bytes with | some i => wf.contains i | none => false }
    let po := parsePipeObs obs
    let trace := (po.map (·.t)).getD "-"
    let (tOut, tOk) :=
      if trace == "-" then ("-", true) else
      match complete pipeCfg inp (trace.splitOn ",") with
      | .ok evs => if accepts pipeCfg inp evs then (trace, true) else ("rejected@replay", false)
      | .error k => (s!"rejected@{k}", false)
    let v := match po with
      | some o => tOk && Spec.Pipe.holds items rcvK
          ⟨o.w.filterMap (fun h => if h == "-" then some [] else unhex h), o.e.map parseCause, o.d, o.c, o.s⟩ &&
          o.w.all (fun h => (unhex h).isSome)
      | none => false
    pure s!"w={showList expW};e={showList expE};d=1;c=1;s=1;t={tOut}\t{b2s v}"
  | _ => none

end Driver
