import SxVerif.Model.Pipe
import SxVerif.Model.PipeDesc
import SxVerif.Spec.Pipe
import SxVerif.Generated.StagesPacket
import Driver.Util
import Std.Data.HashSet

/-!
`pipe` cases: N, kinds, wfail, rcvK, opts, observed.

model output  = the Spec expectation for that input in the observed format (`w=…;e=…;d=1;c=1;s=1;t=…`);
the `t=` part repeats the observed trace when the model's step function accepts it (after completing it
with the internal steps, see `complete`), else `rejected@<k>`.
verdict       = `Spec.Pipe.holds` on the observed output ∧ the observed trace is accepted.
-/
namespace Driver
open SxVerif SxVerif.Pipe

def pipeCfg : Cfg := Desc.cfgOf Generated.packetTopology

/-- bytes the harness's filler writes for request `i` -/
def pipeFrame (i : Nat) : Bytes :=
  let l := 6 + i % 5
  [0xA5, UInt8.ofNat (i >>> 24), UInt8.ofNat (i >>> 16), UInt8.ofNat (i >>> 8), UInt8.ofNat i, UInt8.ofNat l] ++
    (List.range (l - 6)).map (fun j => UInt8.ofNat (i + j + 1))

def frameId (bs : Bytes) : Option Nat :=
  match bs with
  | _ :: a :: b :: c :: d :: _ => some (a.toNat * 16777216 + b.toNat * 65536 + c.toNat * 256 + d.toNat)
  | _ => none

def kindOfChar : Char → Option Kind
  | 'o' => some .ok | 'r' => some .reqErr | 'f' => some .fillErr | _ => none

def errName : Err → String
  | .req r => s!"req:{r.id}"
  | .fill r => s!"fill:{r.id}"
  | .write f => s!"write:{Spec.Pipe.bytesKey f}"
  | .rcv k => s!"rcv:{k}"

def pktName : Pkt → String
  | .err e => errName e
  | .buf b _ => s!"buf:{b}"

def parseCause (s : String) : Spec.Pipe.Cause :=
  if s.startsWith "req:" then ((s.drop 4).toString.toNat?.map .request).getD (.unknown s)
  else if s.startsWith "fill:" then ((s.drop 5).toString.toNat?.map .build).getD (.unknown s)
  else if s.startsWith "rcv:" then ((s.drop 4).toString.toNat?.map .receiver).getD (.unknown s)
  else if s.startsWith "write:" then
    (match unhex (s.drop 6).toString with | some b => if b.isEmpty then .unknown s else .wire b | none => .unknown s)
  else .unknown s

def splitList (s : String) : List String := if s == "-" then [] else s.splitOn ","

/-! ### completing a visible trace with the internal steps -/

def internalEvents (n : Nat) : List Event :=
  (List.range n).flatMap (fun i =>
    [.worker i .recv, .worker i .send, .worker i .close, .mux i .recv, .mux i .send, .mux i .done]) ++
  [.closer .wait, .closer .close, .sender .recv, .sender .report, .sender .close1, .sender .close2,
   .emux false .recv, .emux false .send, .emux false .done, .emux true .recv, .emux true .send, .emux true .done,
   .ecloser .wait, .ecloser .close]

def senderAtFree (s : Sys) : Bool :=
  match s.snd with
  | .work _ _ (.free :: _) => true
  | _ => false

/-- run internal steps (fixed priority) until none is enabled -/
def quiesce (cfg : Cfg) (inp : Input) : Nat → Sys → List Event → Sys × List Event
  | 0, s, acc => (s, acc)
  | fuel + 1, s, acc =>
    let cands := (if senderAtFree s then [Event.sender .call] else []) ++ internalEvents inp.n
    match cands.findSome? (fun e => (step cfg inp s e).map (fun s' => (e, s'))) with
    | some (e, s') => quiesce cfg inp fuel s' (e :: acc)
    | none => (s, acc)

def findGot (lanes : List Lane) (id : Nat) : Option Nat :=
  lanes.findIdx? (fun l => match l.w with | .got r => r.id == id | _ => false)

/-- the model events (and an after-check) a visible token stands for -/
def tokenEvents (s : Sys) (tok : String) : Option (List Event × (Sys → Bool)) :=
  let rest := (tok.drop 1).toString
  match tok.front with
  | 'S' => some ([.envSend], fun _ => true)
  | 'X' => some ([.envClose], fun _ => true)
  | 'R' => some ([.rcvSend], fun _ => true)
  | 'Q' => some ([.rcvClose], fun _ => true)
  | 'D' => some ([], fun s => s.done)
  | 'C' => some ([], fun s => s.merr.closed && s.merr.buf.isEmpty)
  | 'F' =>
    match rest.splitOn ":" with
    | [ids, bs] => do
      let id ← ids.toNat?
      let b ← bs.toNat?
      let i ← findGot s.lanes id
      pure ([.worker i (.get b), .worker i .fill], fun _ => true)
    | _ => none
  | 'W' =>
    match rest.splitOn ":" with
    | [hx, f] => do
      let bytes ← unhex hx
      pure ([.sender .call], fun s' => s'.written.length == s.written.length + 1 &&
        s'.written.getLast? == some (bytes, f == "1"))
    | _ => none
  | 'E' => some ([.consume], fun s' => (s'.errsOut.getLast?.map pktName) == some rest)
  | _ => none

/-- full event list for a visible trace, or the index of the token that cannot happen -/
def complete (cfg : Cfg) (inp : Input) (toks : List String) : Except Nat (List Event) :=
  let rec go (k : Nat) (s : Sys) (acc : List Event) : List String → Except Nat (List Event)
    | [] => .ok acc.reverse
    | t :: ts =>
      match tokenEvents s t with
      | none => .error k
      | some (evs, chk) =>
        match run cfg inp s evs with
        | none => .error k
        | some s' =>
          if chk s' then
            let (s'', acc') := quiesce cfg inp 100000 s' (evs.reverse ++ acc)
            go (k + 1) s'' acc' ts
          else .error k
  let (s0, acc0) := quiesce cfg inp 100000 (init inp) []
  go 0 s0 acc0 toks

structure PipeObs where
  w : List String
  e : List String
  d : Bool
  c : Bool
  s : Bool
  t : String

def parsePipeObs (o : String) : Option PipeObs :=
  match o.splitOn ";" with
  | [w, e, d, c, s, t] =>
    if w.startsWith "w=" && e.startsWith "e=" && t.startsWith "t=" then
      some ⟨splitList (w.drop 2).toString, splitList (e.drop 2).toString, d == "d=1", c == "c=1", s == "s=1",
            (t.drop 2).toString⟩
    else none
  | _ => none

def showList (l : List String) : String := if l.isEmpty then "-" else ",".intercalate l

/-! ### cancelled runs: acceptance by search

After the cancel every blocking operation of the real code is a `select` that may take either branch, and
the harness no longer waits for the consequence of each action, so the internal steps between two visible
tokens are not determined (and a choice made early, e.g. which of two lanes the merge forwards first, may
only be refuted many tokens later).  The acceptor therefore searches the product of the model's state space
and the position in the trace, depth first with a memo of the nodes already refuted: from `(s, k)` either
token `k` happens in `s` (visible step), or one internal step is taken.  Internal steps never include a
visible one (a write, a consume, an environment send/close, `cancel`).  `ctx` exits are offered only where the
next token needs them (`D`: the sender, `C`: the error multiplexers); if that search fails, a second one
offers every step everywhere. -/

def hN (h : UInt64) (n : Nat) : UInt64 := mixHash h (UInt64.ofNat n)
def hB (h : UInt64) (b : Bool) : UInt64 := mixHash h (if b then 1 else 2)
def hBytes (h : UInt64) (bs : Bytes) : UInt64 := bs.foldl (fun h x => mixHash h x.toUInt64) (hN h bs.length)

def hErr (h : UInt64) : Err → UInt64
  | .req r => hN (hN h 1) r.id
  | .fill r => hN (hN h 2) r.id
  | .write f => hBytes (hN h 3) f
  | .rcv k => hN (hN h 4) k

def hPkt (h : UInt64) : Pkt → UInt64
  | .err e => hErr (hN h 5) e
  | .buf b r => hN (hN (hN h 6) b) r.id

def hChan (h : UInt64) (c : Chan Pkt) : UInt64 := hB (c.buf.foldl hPkt (hN h c.buf.length)) c.closed

def hW (h : UInt64) : WState → UInt64
  | .idle => hN h 10 | .got r => hN (hN h 11) r.id | .have b r => hN (hN (hN h 12) b) r.id
  | .sending p => hPkt (hN h 13) p | .closing => hN h 14 | .finished => hN h 15

def hM (h : UInt64) : MState → UInt64
  | .idle => hN h 20 | .holding p => hPkt (hN h 21) p | .exiting => hN h 22 | .finished => hN h 23

def hC (h : UInt64) : CState → UInt64
  | .waiting => hN h 30 | .closing => hN h 31 | .finished => hN h 32

def hS (h : UInt64) : SState → UInt64
  | .idle => hN h 40 | .work b r todo => hN (hN (hN (hN h 41) b) r.id) todo.length
  | .report e k => hS (hErr (hN h 42) e) k | .exit1 => hN h 43 | .exit2 => hN h 44 | .finished => hN h 45

/-- identifies a state (64-bit hash) up to everything internal steps can change or depend on -/
def sysKey (s : Sys) : UInt64 :=
  let h := hN 7 s.todo.length
  let h := hB (s.inp.buf.foldl (fun h r => hN h r.id) (hN h s.inp.buf.length)) s.inp.closed
  let h := s.lanes.foldl (fun h l => hM (hChan (hW h l.w) l.out) l.m) h
  let h := hS (hC (hN (hChan h s.merged) s.wg) s.closer) s.snd
  let h := hM (hM (hChan (hChan (hB h s.done) s.errc1) s.errc2) s.em1) s.em2
  let h := hC (hN (hChan h s.merr) s.ewg) s.ecloser
  let h := hN (s.pool.foldl hN (hN (hN h s.rcvTodo.length) s.pool.length)) s.nextId
  let h := (List.range s.nextId).foldl (fun h b => hBytes h (s.mem b)) h
  hB (hB h s.ctx) s.panic

/-- internal steps offered in state `s`, consumer side first; `lvl` 1 = forwarding steps and item drops,
    2 = + ctx exits of the sender and the error multiplexers, 3 = + ctx exits of workers and packet
    multiplexers -/
def tauEvents (n lvl : Nat) (s : Sys) : List Event :=
  [Event.ecloser .close, .ecloser .wait, .emux false .send, .emux true .send, .emux false .recv, .emux true .recv,
   .emux false .done, .emux true .done, .sender .report] ++
  (if senderAtFree s then [Event.sender .call] else []) ++
  [Event.sender .recv, .sender .close2, .sender .close1, .closer .close, .closer .wait] ++
  (List.range n).flatMap (fun i =>
    [Event.mux i .send, .mux i .recv, .mux i .done, .worker i .send, .worker i .recv, .worker i .close]) ++
  (if s.ctx then [Event.emux false .drop, .emux true .drop, .sender .drop] ++
    (List.range n).map (fun i => Event.worker i .drop) else []) ++
  (if s.ctx && lvl ≥ 2 then [Event.emux false .ctx, .emux true .ctx, .sender .ctx] else []) ++
  (if s.ctx && lvl ≥ 3 then (List.range n).flatMap (fun i => [Event.worker i .ctx, .mux i .drop, .mux i .ctx]) else [])

/-- internal steps that lose no behaviour when taken at once (partial-order reduction): steps of a process
    that has no alternative in that state and whose effect no other process can observe differently later —
    closes and WaitGroup steps, the sender's report (unless it is ctx-guarded and ctx is cancelled) and free;
    before the cancel also every single-producer / single-consumer hand-over that commits no order between
    lanes and no visible action (a worker's send into its own channel, a multiplexer's receive, the sender
    taking an ERROR item).  What stays for the search: which worker takes a request, which lane the merge
    forwards next, which error multiplexer writes next, the sender taking a frame, and after the cancel every
    `select` that has a ctx branch. -/
def eagerEvents (cfg : Cfg) (n : Nat) (s : Sys) : List Event :=
  [Event.ecloser .close, .ecloser .wait, .emux false .done, .emux true .done, .sender .close2, .sender .close1,
   .closer .close, .closer .wait] ++
  (if senderAtFree s then [Event.sender .call] else []) ++
  (if s.ctx && cfg.gSenderErr then [] else [Event.sender .report]) ++
  (List.range n).flatMap (fun i => [Event.mux i .done, .worker i .close]) ++
  (if s.ctx then [] else
    -- a multiplexer may take an item early only if it can still drop it after the cancel (guarded send)
    (if cfg.gEMuxSend then [Event.emux false .recv, .emux true .recv] else []) ++
    (match s.merged.buf with
      | .buf _ _ :: _ => []
      | _ => [Event.sender .recv]) ++
    (List.range n).flatMap (fun i => (if cfg.gMuxSend then [Event.mux i .recv] else []) ++ [Event.worker i .send]) ++
    (if s.inp.buf.isEmpty then (List.range n).map (fun i => Event.worker i .recv) else []))

/-- apply eager steps until none is enabled; `acc` = events so far, reversed -/
def normalize (cfg : Cfg) (inp : Input) : Nat → Sys → List Event → Sys × List Event
  | 0, s, acc => (s, acc)
  | fuel + 1, s, acc =>
    match (eagerEvents cfg inp.n s).findSome? (fun e => (step cfg inp s e).map (fun s' => (e, s'))) with
    | some (e, s') => normalize cfg inp fuel s' (e :: acc)
    | none => (s, acc)

def tokenEventsC (s : Sys) (tok : String) : Option (List Event × (Sys → Bool)) :=
  if tok == "K" then some ([.cancel], fun _ => true) else tokenEvents s tok

/-- the token happens in `s`: the (normalized) state after it and the events, reversed, put before `acc` -/
def tryToken (cfg : Cfg) (inp : Input) (s : Sys) (tok : String) (acc : List Event) : Option (Sys × List Event) :=
  match tokenEventsC s tok with
  | none => none
  | some (evs, chk) =>
    match run cfg inp s evs with
    | some s' => if chk s' then some (normalize cfg inp 100000 s' (evs.reverse ++ acc)) else none
    | none => none

def tokenLevel (tok : String) : Nat := if tok == "D" || tok == "C" then 2 else 1

/-- names of the errors past the sender (reported, or being reported) -/
def pastSender (s : Sys) : List String :=
  (match s.snd with | .report e _ => [errName e] | _ => []) ++
  (s.errc1.buf ++ mPkts' s.em1 ++ s.merr.buf ++ s.errsOut).map pktName
where mPkts' : MState → List Pkt
  | .holding p => [p]
  | _ => []

/-- necessary for acceptance (prunes the search): the errors that travel sender → errc1 → multiplexer → merged
    error channel are consumed in the order the sender took them from the packet merge, which is the order
    the packet multiplexers put them there.  `eord` = the sender-path errors in the order of their `E` tokens.
    An internal step that puts error `x` into the packet merge (or hands it to the sender) while an error
    consumed before `x` is still behind it can never lead to the observed trace. -/
def orderOk (eord : List String) (s : Sys) (e : Event) : Bool :=
  let moved : Option (Pkt × Bool) :=
    match e with
    | .mux i .send => match s.lanes[i]? with
      | some l => (match l.m with | .holding p => some (p, true) | _ => none)
      | none => none
    | .sender .recv => (match s.snd, s.merged.buf with | .idle, p :: _ => some (p, false) | _, _ => none)
    | _ => none
  match moved with
  | some (.err x, atMerge) =>
    let nx := errName x
    if eord.contains nx then
      let ahead := pastSender s ++ (if atMerge then s.merged.buf.map pktName else [])
      (eord.takeWhile (· != nx)).all ahead.contains
    else true
  | _ => true

def sndAlive (s : Sys) : Bool :=
  match s.snd with
  | .exit1 | .exit2 | .finished => false
  | _ => true

def muxAlive : MState → Bool
  | .idle | .holding _ => true
  | _ => false

/-- necessary for acceptance of the rest of the trace (prunes the search): an error that is consumed later
    must still be able to reach the consumer, and a later write needs the sender.  `futE` / `futR` = names of
    the sender-path / receiver errors consumed from here on, `futW` = a write happens from here on. -/
def futureOk (futE futR : List String) (futW : Bool) (s : Sys) : Bool :=
  let inMerr := s.merr.buf.map pktName
  (!futW || sndAlive s) &&
  (sndAlive s || futE.all fun n => inMerr.contains n ||
      (s.errc1.buf ++ pastSender.mPkts' s.em1).any (fun p => pktName p == n)) &&
  (muxAlive s.em1 || futE.all inMerr.contains) &&
  (muxAlive s.em2 || futR.all inMerr.contains)

/-- positions of the tokens that time-stamp an item: `W` of the frame of request `id`, `E` of an error, `K` -/
structure Hints where
  wpos : List (Nat × Nat)
  epos : List (String × Nat)
  kpos : Option Nat

def mkHints (toks : List String) : Hints :=
  let it := toks.zipIdx
  { wpos := it.filterMap fun (t, i) =>
      if t.startsWith "W" then
        ((unhex (((t.drop 1).toString.splitOn ":").headD "")).bind frameId).map fun id => (id, i)
      else none,
    epos := it.filterMap fun (t, i) => if t.startsWith "E" then some ((t.drop 1).toString, i) else none,
    kpos := (it.find? fun (t, _) => t == "K").map (·.2) }

/-- necessary for acceptance (prunes the search): everything between one lane and the sender is FIFO (worker →
    lane channel → multiplexer → packet merge → sender), so if `x` is ahead of `y` there, `x` passes the
    sender first: a frame `x` is written before `y` is written / consumed; an error `x` is consumed before an
    error `y` is, unless `x` is never consumed and the cancel (after which the error multiplexer may drop it)
    comes before `y` is consumed -/
def fifoOk (h : Hints) (s : Sys) : Bool :=
  let deadline : Pkt → Option Nat
    | .buf _ r => (h.wpos.find? (·.1 == r.id)).map (·.2)
    | .err e => (h.epos.find? (·.1 == errName e)).map (·.2)
  let okPair (x y : Pkt) : Bool :=
    match deadline y with
    | none => true
    | some dy =>
      match x, y with
      | .buf _ _, _ => (match deadline x with | some dx => dx < dy | none => false)
      | .err _, .buf _ _ => true
      | .err _, .err _ =>
        match deadline x with
        | some dx => dx < dy
        | none => (match h.kpos with | some pk => pk < dy | none => false)
  let rec okSeq : List Pkt → Bool
    | [] => true
    | x :: rest => rest.all (okPair x) && okSeq rest
  let inSender : List Pkt := match s.snd with
    | .work b r (.write :: _) => [.buf b r]
    | _ => []
  s.lanes.all fun l =>
    okSeq (inSender ++ s.merged.buf ++ pastSender.mPkts' l.m ++ l.out.buf ++
      (match l.w with | .sending p => [p] | _ => []))

/-- the same for the error a failing write produces: it enters the error path at the `W` token -/
def writeOrderOk (eord : List String) (s : Sys) (tok : String) : Bool :=
  if tok.startsWith "W" && tok.endsWith ":1" then
    let nx := "write:" ++ ((tok.drop 1).toString.splitOn ":").headD ""
    if eord.contains nx then (eord.takeWhile (· != nx)).all (pastSender s).contains else true
  else true

structure Memo where
  refuted : Std.HashSet (UInt64 × Nat) := {}   -- nodes (state, position) from which the rest of the trace cannot happen
  best : Nat := 0                      -- furthest position reached
  work : Nat := 0                      -- states expanded
  budget : Nat

mutual
/-- from `(s, k)`: the nearest states (over internal steps, breadth first) in which token `k` can happen are
    tried first, further ones on backtracking; `acc` = events so far, reversed -/
partial def solveTrace (cfg : Cfg) (inp : Input) (all : Bool) (h : Hints) (eord : List String) (toks : Array String) (k : Nat) (s : Sys)
    (acc : List Event) (m : Memo) : Option (Sys × List Event) × Memo :=
  if k ≥ toks.size then (some (s, acc.reverse), m) else
  let key := (sysKey s, k)
  if m.refuted.contains key then (none, m) else
  let m := { m with best := max m.best k }
  let seen : Std.HashSet UInt64 := (∅ : Std.HashSet UInt64).insert (sysKey s)
  match solveLayer cfg inp all h eord toks k [(s, acc)] seen m with
  | (some x, m) => (some x, m)
  | (none, m) => (none, if m.work ≥ m.budget then m else { m with refuted := m.refuted.insert key })

partial def solveLayer (cfg : Cfg) (inp : Input) (all : Bool) (h : Hints) (eord : List String) (toks : Array String) (k : Nat)
    (frontier : List (Sys × List Event)) (seen : Std.HashSet UInt64) (m : Memo) :
    Option (Sys × List Event) × Memo :=
  if frontier.isEmpty then (none, m) else
  let tok := toks[k]!
  let rest := (toks.extract (k + 1) toks.size).toList
  let futE := rest.filterMap fun t =>
    if t.startsWith "E" && !t.startsWith "Ercv:" then some (t.drop 1).toString else none
  let futR := rest.filterMap fun t => if t.startsWith "Ercv:" then some (t.drop 1).toString else none
  let futW := rest.any (·.startsWith "W")
  let futE0 := if tok.startsWith "E" && !tok.startsWith "Ercv:" then (tok.drop 1).toString :: futE else futE
  let futR0 := if tok.startsWith "Ercv:" then (tok.drop 1).toString :: futR else futR
  let futW0 := futW || tok.startsWith "W"
  let (r, m) := frontier.foldl (fun (r, m) (u, a) =>
    match r with
    | some x => (some x, m)
    | none =>
      match (if writeOrderOk eord u tok then
          (tryToken cfg inp u tok a).filter (fun x => futureOk futE futR futW x.1 && fifoOk h x.1) else none) with
      | some (u', a') => solveTrace cfg inp all h eord toks (k + 1) u' a' m
      | none => (none, m)) (none, m)
  match r with
  | some x => (some x, m)
  | none =>
    if m.work ≥ m.budget then (none, m) else
    let lvl := if all then 3 else tokenLevel tok
    let (next, seen', cnt) := frontier.foldl (fun (nx, sn, c) (u, a) =>
      (tauEvents inp.n lvl u).foldl (fun (nx, sn, c) e =>
        match (if orderOk eord u e then
            ((step cfg inp u e).map fun u1 => normalize cfg inp 100000 u1 (e :: a)).filter
              (fun x => futureOk futE0 futR0 futW0 x.1 && fifoOk h x.1) else none) with
        | some (u', a') =>
          let ku := sysKey u'
          if sn.contains ku then (nx, sn, c) else ((u', a') :: nx, sn.insert ku, c + 1)
        | none => (nx, sn, c)) (nx, sn, c)) ([], seen, 0)
    solveLayer cfg inp all h eord toks k next.reverse seen' { m with work := m.work + cnt }
end

/-- final state and full event list for a visible trace of a cancelled run, or the furthest position any
    run of the model reaches -/
def completeSearch (cfg : Cfg) (inp : Input) (toks : List String) : Except Nat (Sys × List Event) :=
  let ta := toks.toArray
  let eord := toks.filterMap fun t =>
    if t.startsWith "E" && !t.startsWith "Ercv:" then some (t.drop 1).toString else none
  let h := mkHints toks
  match solveTrace cfg inp false h eord ta 0 (init inp) [] { budget := 60000 } with
  | (some r, _) => .ok r
  | (none, m1) =>
    match solveTrace cfg inp true h eord ta 0 (init inp) [] { budget := 120000 } with
    | (some r, _) => .ok r
    | (none, m2) => .error (max m1.best m2.best)

def sortedKeys (l : List String) : String := showList (Spec.Pipe.sortKeys l)

/-- cancel cases (`opts` starts with `cancel=`).
model output = what the model's run of the observed trace wrote and delivered (`w=`, `e=` from the final model
state), `d=` whether the trace has `D` (accepted only in a state where `done` is closed), `c=1;s=1`, and the
trace itself when accepted; without a trace (`fullerr`) the nondeterministic parts are echoed.
verdict = trace accepted ∧ `Spec.Pipe.holdsCancel` on the observed output. -/
def handlePipeCancel (items : List Spec.Pipe.Item) (rcvK : Nat) (inp : Input) (obs : String) : String :=
  match parsePipeObs obs with
  | none => "BAD-OBS\t0"
  | some o =>
    let spec := Spec.Pipe.holdsCancel items rcvK
        ⟨o.w.filterMap (fun h => if h == "-" then some [] else unhex h), o.e.map parseCause, o.d, o.c, o.s⟩ &&
        o.w.all (fun h => (unhex h).isSome)
    if o.t == "-" then
      s!"w={showList o.w};e={showList o.e};d={b2s o.d};c=1;s=1;t=-\t{b2s spec}"
    else
      let toks := o.t.splitOn ","
      match completeSearch pipeCfg inp toks with
      | .ok (sf, evs) =>
        let ok := accepts pipeCfg inp evs && !sf.panic
        let w := sortedKeys (sf.written.map fun p => hex p.1)
        let e := sortedKeys (sf.errsOut.map pktName)
        let t := if ok then o.t else "rejected@replay"
        s!"w={w};e={e};d={b2s (toks.contains "D")};c=1;s=1;t={t}\t{b2s (ok && spec)}"
      | .error k => s!"w=?;e=?;d=?;c=1;s=1;t=rejected@{k}\t0"

def handlePipe : List String → Option String
  | [ns, kinds, wfailS, rcvS, opts, obs] => do
    let n ← parseNat? ns
    let ks ← (if kinds == "-" then some [] else kinds.toList.mapM kindOfChar)
    let wf ← (splitList wfailS).mapM (·.toNat?)
    let rcvK ← parseNat? rcvS
    let items : List Spec.Pipe.Item := ks.zipIdx.map (fun (k, i) => ⟨i, k, pipeFrame i, wf.contains i⟩)
    let expW := Spec.Pipe.sortKeys ((Spec.Pipe.expectedFrames items).map Spec.Pipe.bytesKey)
    let expE := Spec.Pipe.sortKeys ((Spec.Pipe.expectedErrors items rcvK).map Spec.Pipe.causeKey)
    let inp : Input := { n := n, reqs := ks.zipIdx.map (fun (k, i) => ⟨i, k, pipeFrame i⟩),
                         rcvErrs := (List.range rcvK).map .rcv,
                         wfail := fun _ bytes => match frameId bytes with | some i => wf.contains i | none => false }
    if opts.startsWith "cancel=" then return handlePipeCancel items rcvK inp obs
    let po := parsePipeObs obs
    let trace := (po.map (·.t)).getD "-"
    let (tOut, tOk) :=
      if trace == "-" then ("-", true) else
      match complete pipeCfg inp (trace.splitOn ",") with
      | .ok evs => if accepts pipeCfg inp evs then (trace, true) else ("rejected@replay", false)
      | .error k => (s!"rejected@{k}", false)
    let v := match po with
      | some o => tOk && Spec.Pipe.holds items rcvK
          ⟨o.w.filterMap (fun h => if h == "-" then some [] else unhex h), o.e.map parseCause, o.d, o.c, o.s⟩ &&
          o.w.all (fun h => (unhex h).isSome)
      | none => false
    pure s!"w={showList expW};e={showList expE};d=1;c=1;s=1;t={tOut}\t{b2s v}"
  | _ => none

end Driver
