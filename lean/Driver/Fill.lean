import SxVerif.Model.Fill
import SxVerif.Spec.Fill
import Driver.Util

namespace Driver
open SxVerif SxVerif.Frame SxVerif.Fill SxVerif.Spec.Fill

def kvOf (s : String) : List (String × String) :=
  (s.splitOn ";").filterMap (fun p => match p.splitOn "=" with
    | [k, v] => some (k, v)
    | _ => none)

def kvNat (kv : List (String × String)) (k : String) : Nat :=
  ((kv.find? (·.1 == k)).bind (·.2.toNat?)).getD 0

def kvBytes (kv : List (String × String)) (k : String) : Bytes :=
  ((kv.find? (·.1 == k)).bind (fun e => unhex e.2)).getD []

def showFill : Except FillErr Bytes → String
  | .ok b => "OK " ++ hex b
  | .error _ => "ERR"

/-- the 4-byte form of an address given as 4 bytes or as 16-byte IPv4-mapped (C05_mapped / C05_addr_form) -/
def v4 (a : Bytes) : Bytes :=
  if a.length == 16 && a.take 12 == [0, 0, 0, 0, 0, 0, 0, 0, 0, 0, 0xff, 0xff] then a.drop 12 else a

/-- the conclusion of the C05 theorems, as a check on an observed frame (inputs: requested fields and the
    three random fields read back from the frame) -/
def specFill (kind : String) (kv : List (String × String)) (payload : Bytes) (r : Req) (rnd : List Nat) (frame : Bytes) : Bool :=
  let vpn := kvNat kv "vpn" == 1
  match kind, rnd with
  | "tcp", [id, p, sq] =>
    let dg := datagram vpn frame 52
    (vpn || decide (LinkOK frame r.dstMAC r.srcMAC 0x0800 52)) && dg.length == 52 &&
    ipFields dg == some { version := 4, ihl := 5, totalLen := 52, id := 1 + id, flags := 2, fragOff := 0, ttl := 64,
                          proto := 6, src := r.srcIP, dst := r.dstIP } &&
    decide (csumValid (dg.take 20)) &&
    tcpFields (dg.drop 20) == some (TCPFields.mk (32768 + p) r.dstPort sq 0 8 (kvNat kv "flags") 64240 0
      [2, 4, 0x05, 0xb4, 4, 2, 3, 3, 7, 0, 0, 0] []) &&
    decide (csumValid (dg.drop 20) (pseudoSum r.srcIP r.dstIP 6 32)) &&
    1 ≤ 1 + id && 1 + id ≤ 65535 && 32768 + p ≤ 60999
  | "udp", [id, p, _] =>
    let n := 28 + payload.length
    let dg := datagram vpn frame n
    let iplen := kvNat kv "iplen"
    (vpn || decide (LinkOK frame r.dstMAC r.srcMAC 0x0800 n)) && dg.length == n &&
    ipFields dg == some { version := 4, ihl := 5, totalLen := if iplen == 0 then n else iplen, id := 1 + id,
                          flags := kvNat kv "ipflags", fragOff := 0, ttl := kvNat kv "ttl", proto := kvNat kv "proto",
                          src := r.srcIP, dst := r.dstIP } &&
    decide (csumValid (dg.take 20)) &&
    udpFields (dg.drop 20) == some { sport := 32768 + p, dport := r.dstPort, len := 8 + payload.length, payload := payload } &&
    decide (csumValid (dg.drop 20) (pseudoSum r.srcIP r.dstIP 17 (8 + payload.length))) &&
    1 ≤ 1 + id && 1 + id ≤ 65535 && 32768 + p ≤ 60999
  | "icmp", [id, icmpId, _] =>
    let n := 28 + payload.length
    let dg := datagram vpn frame n
    let iplen := kvNat kv "iplen"
    (vpn || decide (LinkOK frame r.dstMAC r.srcMAC 0x0800 n)) && dg.length == n &&
    ipFields dg == some { version := 4, ihl := 5, totalLen := if iplen == 0 then n else iplen, id := 1 + id,
                          flags := kvNat kv "ipflags", fragOff := 0, ttl := kvNat kv "ttl", proto := kvNat kv "proto",
                          src := r.srcIP, dst := r.dstIP } &&
    decide (csumValid (dg.take 20)) &&
    icmpFields (dg.drop 20) == some { typ := kvNat kv "type", code := kvNat kv "code", id := 1 + icmpId, seq := 1, payload := payload } &&
    decide (csumValid (dg.drop 20)) &&
    1 ≤ 1 + id && 1 + id ≤ 65535 && 1 ≤ 1 + icmpId && 1 + icmpId ≤ 65535
  | "arp", _ =>
    decide (LinkOK frame [0xff, 0xff, 0xff, 0xff, 0xff, 0xff] r.srcMAC 0x0806 28) &&
    arpFields (frame.drop 14) == some { htype := 1, ptype := 0x0800, hlen := 6, plen := 4, oper := 1, sha := r.srcMAC,
                                        spa := r.srcIP, tha := [0, 0, 0, 0, 0, 0], tpa := r.dstIP }
  | _, _ => false

def handleFill : List String → Option String
  | [kind, opts, req, rnd, aux, obs] => do
    let kv := kvOf opts
    let r : Req ← match req.splitOn "," with
      | [s, d, sm, dm, p] => do
        let a ← unhex s; let b ← unhex d; let c ← unhex sm; let e ← unhex dm; let q ← p.toNat?
        pure ({ srcIP := a, dstIP := b, srcMAC := c, dstMAC := e, dstPort := q } : Req)
      | _ => none
    let rnd ← (rnd.splitOn ",").mapM (·.toNat?)
    let vpn := kvNat kv "vpn" == 1
    -- icmp without --payload: the filler draws 48 bytes itself; they come back in `aux`
    let requested := kvBytes kv "payload"
    let selfChosen := kind == "icmp" && requested.isEmpty
    let payload ← if selfChosen then (if aux == "-" then some [] else unhex ((aux.drop 1).toString)) else some requested
    let o : IPOpts := { ttl := kvNat kv "ttl", len := kvNat kv "iplen", proto := kvNat kv "proto", flags := kvNat kv "ipflags",
                        payload := payload, vpn := vpn }
    let model := match kind, rnd with
      | "tcp", [id, p, seq] => fillTCP vpn (kvNat kv "flags") r id p seq
      | "udp", [id, p, _] => fillUDP o r id p
      | "icmp", [id, iid, _] => fillICMP o (kvNat kv "type") (kvNat kv "code") r id iid
      | "arp", _ => fillARP r
      | _, _ => .error .srcIP
    -- Spec: a request inside the hypotheses of the C05 theorems (ReqOK / ArpReqOK after reading IPv4-mapped
    -- addresses as their 4-byte form, payload within the IPv4 maximum) must yield a frame with the
    -- conclusion of the theorem; a request with a non-IPv4 address or (Ethernet) a MAC that is not 6 bytes
    -- must be refused (C05_refused_*)
    let r4 : Req := if kind == "arp" then r else { r with srcIP := v4 r.srcIP, dstIP := v4 r.dstIP }
    let addrOK := r4.srcIP.length == 4 && r4.dstIP.length == 4
    let macsOK := r.srcMAC.length == 6 && r.dstMAC.length == 6
    let inHyp :=
      if kind == "arp" then addrOK && r.srcMAC.length == 6
      else addrOK && (vpn || macsOK) && (kind == "tcp" || payload.length ≤ 65507)
    let mustRefuse := kind != "arp" && (!addrOK || (!vpn && !macsOK))
    let verdict :=
      if obs == "PANIC" then false
      else if obs == "ERR" then !inHyp
      else match (obs.drop 3).toString |> unhex with
        | some frame =>
          if mustRefuse then false
          else if inHyp then specFill kind kv payload r4 rnd frame && (!selfChosen || payload.length == 48)
          else true
        | none => false
    pure s!"{showFill model}\t{b2s verdict}"
  | _ => none

/-- `e2efill cmdline kind opts req rnd aux obs` (harness/cmd/sxdiff/e2efill.go): a frame captured on the wire from a run
    of the real binary, with what its command line denotes; judged exactly like a `fill` case (byte-exact model and the
    independent readers of `Spec/Fill.lean`).  `MISSING` / `EXTRA …` / `FAIL …` are not frames: verdict 0. -/
def handleE2EFill : List String → Option String
  | _cmdline :: rest => handleFill rest
  | _ => none

end Driver
