import SxVerif.Model.Engine
import SxVerif.Spec.Engine
import SxVerif.Generated.Constants
import Driver.Util

/-!
Handlers of the components `engine` (C08), `exitdelay` (C16), `cancel` (C12).
The model answer is the final state of `Engine.run` (a schedule of `Engine.next`) in canonical form;
the verdict is the Spec predicate on what was observed from the real code.
-/
namespace Driver
open SxVerif SxVerif.Engine

def parseKinds (s : String) : Option (List Spec.Engine.Kind) :=
  if s == "-" then some [] else s.toList.mapM Spec.Engine.Kind.ofChar

def kindReq (i : Nat) : Spec.Engine.Kind → Req
  | .result => ⟨i, false, .result⟩
  | .none => ⟨i, false, .none⟩
  | .error => ⟨i, false, .error⟩
  | .errReq => ⟨i, true, .none⟩

def mkReqs (ks : List Spec.Engine.Kind) : List Req := ks.zipIdx.map fun (k, i) => kindReq i k

/-- per-id counts `0..n-1` of a list of ids, as a digit string (capped at 9) -/
def ecountsOf (n : Nat) (ids : List Nat) : List Nat :=
  let arr := ids.foldl (fun (a : Array Nat) i => if i < a.size then a.modify i (· + 1) else a) (Array.replicate n 0)
  arr.toList

def edigits (l : List Nat) : String := String.ofList (l.map fun n => Char.ofNat ('0'.toNat + min n 9))

def eparseDigits (s : String) : Option (List Nat) :=
  s.toList.mapM fun c => if '0' ≤ c ∧ c ≤ '9' then some (c.toNat - '0'.toNat) else none

/-- `k1=v1;k2=v2;…` -/
def ekvs (s : String) : List (String × String) :=
  (s.splitOn ";").filterMap fun f =>
    match f.splitOn "=" with
    | [k, v] => some (k, v)
    | _ => none

def ekv (m : List (String × String)) (k : String) : Option String := (m.find? (·.1 == k)).map (·.2)

def ekvNat (m : List (String × String)) (k : String) : Option Nat := (ekv m k).bind (·.toNat?)
def ekvBool (m : List (String × String)) (k : String) : Option Bool := (ekv m k).map (· == "1")

def engineCfg (W delay : Nat) : Cfg :=
  { W := W, capErr := Generated.capEngineErrChan, capRes := Generated.resultChanCap, delay := delay }

def engineFuel (n W : Nat) : Nat := 60 * (n + W) + 4000

def showEngine (mode : String) (n : Nat) (c : Cfg) (s : Sys) : String :=
  let early := match s.cancelAt, s.doneAt with
    | some tc, some td => decide (tc < td + c.delay)
    | some _, none => true
    | none, _ => false
  let fifo := if mode.startsWith "direct" then b2s (s.printed == s.puts) else "-"
  s!"sc={edigits (ecountsOf n (s.scans.map (·.id)))};pr={edigits (ecountsOf n s.printed)};er={edigits (ecountsOf n s.errLogged)};nput={if mode.startsWith "direct" then toString s.puts.length else "-"};nout={s.printed.length};fifo={fifo};doneok={b2s (s.doneClosed && allExited s.workers)};conc={b2s (decide (s.workers.length ≤ c.W))};ret={b2s (s.main == .returned)};early={b2s early};panic={b2s s.panicked}"

def parseEngineObs (s : String) : Option Spec.Engine.Obs := do
  let m := ekvs s
  let sc ← (ekv m "sc").bind eparseDigits
  let pr ← (ekv m "pr").bind eparseDigits
  let er ← (ekv m "er").bind eparseDigits
  let fifo ← (ekv m "fifo").map fun v => if v == "-" then none else some (v == "1")
  pure { sc, pr, er, fifo, doneok := ← ekvBool m "doneok", conc := ← ekvBool m "conc", ret := ← ekvBool m "ret",
         early := ← ekvBool m "early", panic := ← ekvBool m "panic" }

def handleEngine : List String → Option String
  | [mode, w, kinds, sched, obs] => do
    let W ← parseNat? w
    let ks ← parseKinds kinds
    let seed ← parseNat? sched
    if mode == "generr" then
      -- `Start` returns closed channels with the one error buffered: no goroutine of the engine runs
      let v := match parseEngineObs obs with
        | some o => Spec.Engine.holdsGenErr o
        | none => false
      pure s!"sc=;pr=;er=1;nput=-;nout=0;fifo=-;doneok=1;conc=1;ret=1;early=0;panic=0\t{b2s v}"
    else
      let c := engineCfg W 3
      let s := run c true none (engineFuel ks.length W) seed none 0 (init (mkReqs ks) [])
      let v := match parseEngineObs obs with
        | some o => Spec.Engine.holds ks o
        | none => false
      pure s!"{showEngine mode ks.length c s}\t{b2s v}"
  | _ => none

/-- output bytes → ids of the records `id=<n>\n`; `none` when the text is not a sequence of complete records -/
def eparseOut (bs : List UInt8) : Option (List Nat) :=
  let s := String.ofList (bs.map fun b => Char.ofNat b.toNat)
  if s.isEmpty then some []
  else if !s.endsWith "\n" then none
  else
    ((s.dropEnd 1).toString.splitOn "\n").mapM fun line =>
      if line.startsWith "id=" then (line.drop 3).toString.toNat? else none

def eparseTimed (s : String) : Option (List (Nat × Nat)) :=
  if s == "-" then some [] else
  (s.splitOn ",").mapM fun f =>
    match f.splitOn ":" with
    | [t, v] => do pure (← t.toNat?, ← v.toNat?)
    | _ => none

def esortNat (l : List Nat) : List Nat := (l.toArray.qsort (· < ·)).toList

def handleExitDelay : List String → Option String
  | [delay, slack, results, parent, obsAll] => do
    -- observed = canonical part (compared with the model) `|` raw measurements (judged by the Spec, echoed)
    let (obs, detail) ← (match obsAll.splitOn "|" with
      | [a, b] => some (a, b)
      | _ => none)
    let d ← parseNat? delay
    let sl ← parseNat? slack
    let rs ← eparseTimed results
    let par ← (if parent == "-" then some none else (parseNat? parent).map some)
    let c : Cfg := { engineCfg 1 d with }
    let fuel := 40 * rs.length + 20 * d + 4000 + (rs.foldl (fun a r => max a r.1) 0)
    let s := run c true par fuel 1 none 0 (init [] rs)
    let m := ekvs detail
    let om := ekvs obs
    -- with a Ctrl-C inside the delay, WHICH of the queued records still get printed depends on the schedule
    -- (the logger's select may take either branch): the model's deterministic schedule is one possibility,
    -- so the observed set is echoed there and judged by the Spec (subset, no duplicates) only
    let raced := match par with
      | some p => decide (p < d)
      | none => false
    let prStr := if raced then (ekv om "pr").getD "?" else natList (esortNat s.printed)
    let model := s!"pr={prStr};ret={b2s (s.main == .returned)};panic={b2s s.panicked}"
    let v := (do
      let out ← (ekv m "out").bind unhex
      let ids := eparseOut out
      let o : Spec.Engine.DelayObs :=
        { delay := d, slack := sl, results := rs, parent := par, tCancel := ← ekvNat m "tcancel", tRet := ← ekvNat m "tret",
          printed := ids.getD [], lines := ids.isSome, ret := ← ekvBool om "ret", panic := ← ekvBool om "panic" }
      -- the canonical field must be what the raw output says
      let pr ← (ekv om "pr").bind parseNatList
      pure (Spec.Engine.holdsDelay o && pr == esortNat o.printed)).getD false
    pure s!"{model}|{detail}\t{b2s v}"
  | _ => none

def handleCancel : List String → Option String
  | [w, kinds, _point, sched, obsAll] => do
    let (obs, detail) ← (match obsAll.splitOn "|" with
      | [a, b] => some (a, b)
      | _ => none)
    let W ← parseNat? w
    let ks ← parseKinds kinds
    let seed ← parseNat? sched
    let c := engineCfg W 3
    let n := ks.length
    let k := (lcg seed / 65536) % (8 * n + 2 * W + 12)
    let s := run c false none (engineFuel n W) seed (some k) 0 (init (mkReqs ks) [])
    let model := s!"ret={b2s (s.main == .returned)};panic={b2s s.panicked};lines=1"
    let m := ekvs detail
    let om := ekvs obs
    let v := (do
      let out ← (ekv m "out").bind unhex
      let ids := eparseOut out
      let o : Spec.Engine.CancelObs :=
        { kinds := ks, sc := ← (ekv m "sc").bind eparseDigits, pr := ← (ekv m "pr").bind eparseDigits,
          er := ← (ekv m "er").bind eparseDigits, tRet := ← ekvNat m "tret", bound := ← ekvNat m "bound",
          lines := ids.isSome, outIds := ids.getD [], ret := ← ekvBool om "ret", panic := ← ekvBool om "panic" }
      let lines ← ekvBool om "lines"
      pure (Spec.Engine.holdsCancel o && lines == o.lines)).getD false
    pure s!"{model}|{detail}\t{b2s v}"
  | _ => none

end Driver
