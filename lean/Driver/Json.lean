import SxVerif.Model.Json
import SxVerif.Spec.Json
import Driver.Util
import SxVerif.Model.Plain

/-!
Driver handlers of component `json` (C14).

`jres  <result> <observed-hex>`            one result through the real MarshalJSON
`jlog  <uniq 0|1> <r1|r2|…> <hex,hex,…>`   a result sequence through the real (Unique)Logger; observed = the
                                           sequence of Write calls the logger issued

result  = `arp:H:H:H` | `tcp:H:H:port:H` | `icmp:H:H:ttl:n` | `icmp:H:H:ttl:T,C` | `socks:H:int:H:port:0|1`
        | `elastic:H:H:H:V:V` | `docker:H:H:H:V:V`          (H = hex bytes of a Go string, `-` = empty)
V       = `n` | `t` | `f` | `i<int>.` | `d<hex literal>.` | `s<hex>.` | `a<count>.` V… | `m<count>.` (`<hexkey>.` V)… |
          `r<count>.` (`<hexkey>.` V)…
-/
namespace Driver.J
open Driver SxVerif SxVerif.Json

def bytesToChars (bs : List UInt8) : Option (List Char) :=
  (String.fromUTF8? (ByteArray.mk bs.toArray)).map (·.toList)

def charsToHex (cs : List Char) : String := hex (String.ofList cs).toUTF8.toList

def goStr (h : String) : Option GoStr := (unhex h).map decodeGo

def takeUntilDot (s : List Char) : Option (List Char × List Char) :=
  let a := s.takeWhile (· != '.')
  match s.dropWhile (· != '.') with
  | '.' :: r => some (a, r)
  | _ => none

def hexChars (h : List Char) : Option (List Char) := (unhex (String.ofList h)) >>= bytesToChars

mutual
def parseVal : Nat → List Char → Option (GoVal × List Char)
  | 0, _ => none
  | f + 1, s =>
    match s with
    | 'n' :: r => some (.null, r)
    | 't' :: r => some (.bool true, r)
    | 'f' :: r => some (.bool false, r)
    | 'i' :: r => do
      let (a, r) ← takeUntilDot r
      let i ← (String.ofList a).toInt?
      pure (.int i, r)
    | 'd' :: r => do
      let (a, r) ← takeUntilDot r
      let l ← hexChars a
      pure (.num l, r)
    | 's' :: r => do
      let (a, r) ← takeUntilDot r
      let l ← hexChars a
      pure (.str l, r)
    | 'a' :: r => do
      let (a, r) ← takeUntilDot r
      let n ← (String.ofList a).toNat?
      let (l, r) ← parseVals f n r
      pure (.arr l, r)
    | 'm' :: r => do
      let (a, r) ← takeUntilDot r
      let n ← (String.ofList a).toNat?
      let (l, r) ← parseMems f n r
      pure (.map l, r)
    | 'r' :: r => do
      let (a, r) ← takeUntilDot r
      let n ← (String.ofList a).toNat?
      let (l, r) ← parseMems f n r
      pure (.struct l, r)
    | _ => none
def parseVals : Nat → Nat → List Char → Option (List GoVal × List Char)
  | 0, _, _ => none
  | _ + 1, 0, s => some ([], s)
  | f + 1, n + 1, s => do
    let (v, r) ← parseVal f s
    let (l, r) ← parseVals f n r
    pure (v :: l, r)
def parseMems : Nat → Nat → List Char → Option (List (List Char × GoVal) × List Char)
  | 0, _, _ => none
  | _ + 1, 0, s => some ([], s)
  | f + 1, n + 1, s => do
    let (a, r) ← takeUntilDot s
    let k ← hexChars a
    let (v, r) ← parseVal f r
    let (l, r) ← parseMems f n r
    pure ((k, v) :: l, r)
end

def goVal (s : String) : Option GoVal :=
  match parseVal (s.length + 2) s.toList with
  | some (v, []) => some v
  | _ => none

def u8? (s : String) : Option UInt8 := s.toNat? >>= fun n => if n < 256 then some n.toUInt8 else none
def u16? (s : String) : Option UInt16 := s.toNat? >>= fun n => if n < 65536 then some n.toUInt16 else none

def parseResult (s : String) : Option Result :=
  match s.splitOn ":" with
  | ["arp", a, b, c] => do pure (.arp ⟨← goStr a, ← goStr b, ← goStr c⟩)
  | ["tcp", a, b, p, fl] => do pure (.tcp ⟨← goStr a, ← goStr b, ← u16? p, ← goStr fl⟩)
  | ["icmp", a, b, ttl, ic] => do
    let icmp ← (if ic == "n" then some none else
      match ic.splitOn "," with
      | [t, c] => do pure (some (← u8? t, ← u8? c))
      | _ => none)
    pure (.icmp ⟨← goStr a, ← goStr b, ← u8? ttl, icmp⟩)
  | ["socks", a, v, b, p, au] => do pure (.socks ⟨← goStr a, ← v.toInt?, ← goStr b, ← u16? p, au == "1"⟩)
  | ["elastic", a, b, c, x, y] => do pure (.elastic ⟨← goStr a, ← goStr b, ← goStr c, ← goVal x, ← goVal y⟩)
  | ["docker", a, b, c, x, y] => do pure (.docker ⟨← goStr a, ← goStr b, ← goStr c, ← goVal x, ← goVal y⟩)
  | _ => none

def handleJRes : List String → Option String
  | [res, obs] => do
    let r ← parseResult res
    let m := charsToHex (render r)
    let v := match (unhex obs) >>= bytesToChars with
      | some cs => Spec.Json.resultWf r && Spec.Json.holdsLine r cs
      | none => false
    pure s!"{m}\t{b2s v}"
  | _ => none

def chunksToStr (l : List (List Char)) : String :=
  if l.isEmpty then "-" else ",".intercalate (l.map charsToHex)

def handleJLog : List String → Option String
  | [u, rs, obs] => do
    let uniq := u == "1"
    let rs ← (if rs == "-" then some [] else (rs.splitOn "|").mapM parseResult)
    let m := if uniq then uniqLogWrites rs else logWrites rs rs.length
    let obsBytes ← (if obs == "-" then some [] else ((obs.splitOn ",").mapM unhex).map List.flatten)
    let v := match bytesToChars obsBytes with
      | some cs => rs.all Spec.Json.resultWf && Spec.Json.holdsLog uniq rs cs
      | none => false
    pure s!"{chunksToStr m}\t{b2s v}"
  | _ => none

/-- `e2ejson cmdline uniq r1|r2|… <stdout hex>` (harness/cmd/sxdiff/e2esig.go): stdout of a `--json` run of the real
    binary whose replies were put on the wire in the order `r1, r2, …` (`uniq` = 1 for `arp --live`, where de-duplication
    is wired).  Model = the bytes the (unique) logger writes for that sequence; Spec = `holdsLog`. -/
def handleE2EJson : List String → Option String
  | [_cmd, u, rs, obs] => do
    let uniq := u == "1"
    let rs ← (if rs == "-" then some [] else (rs.splitOn "|").mapM parseResult)
    let m := (if uniq then uniqLogWrites rs else logWrites rs rs.length).flatten
    let v := match (unhex obs) >>= bytesToChars with
      | some cs => rs.all Spec.Json.resultWf && Spec.Json.holdsLog uniq rs cs
      | none => false
    pure s!"{charsToHex m}\t{b2s v}"
  | _ => none

/-- `jplain r1|r2|… <writes>`: the results through the real logger in plain-text mode.  Model = one write per result,
    `Plain.plainLine`; the verdict is the equality (what `C08.plain_one_line` says about such a write is a theorem) -/
def handleJPlain : List String → Option String
  | [rs, obs] => do
    let rs ← (if rs == "-" then some [] else (rs.splitOn "|").mapM parseResult)
    let lines ← rs.mapM SxVerif.Plain.plainLine
    let m := if lines.isEmpty then "-" else ",".intercalate (lines.map hex)
    pure s!"{m}\t{b2s (obs == m)}"
  | _ => none

/-- N distinct hosts, then repeats of some of them: by `C14_uniq_first_occurrences` the printed lines are
    exactly the N hosts in first-sighting order (the harness counts and compares; too long to list) -/
def handleJUniqBig : List String → Option String
  | [n, _rep, obs] => do
    let n ← parseNat? n
    let m := s!"lines={n};first_sightings_in_order=1"
    pure s!"{m}\t{b2s (obs == m)}"
  | _ => none

end Driver.J
