import SxVerif.Model.Gen
import SxVerif.Model.Net
import SxVerif.Spec.GenRef
import SxVerif.Spec.Net
import SxVerif.Generated.CyclicGroups
import Driver.Util

namespace Driver
open SxVerif SxVerif.Gen SxVerif.Spec.GenRef

def causeName : Cause → String
  | .json => "json" | .ip => "ip" | .port => "port" | .tooLong => "tooLong" | .portRange => "portRange"
  | .subnet => "subnet" | .rangeSize => "rangeSize" | .noMAC => "noMAC" | .contains => "contains"
  | .open_ => "open_" | .panic => "panic"

def addrStr : Option Addr → String
  | none => "-"
  | some (.v4 a _) => s!"4:{a}"
  | some (.v6 i) => s!"6:{i}"

def optNat : Option Nat → String
  | none => "-"
  | some n => toString n

def viewStr (v : View) : String :=
  s!"{addrStr v.dst},{v.port},{optNat v.mac},{(v.cause.map causeName).getD "-"}"

def reqView (r : Req) : View := ⟨r.dst.map normAddr, r.port, r.dstMAC, r.err⟩

def sortStrs (l : List String) : List String := (l.toArray.qsort (· < ·)).toList

def parsePorts (s : String) : Option (List PortRange) :=
  if s == "-" then some [] else
  (s.splitOn ",").mapM (fun (p : String) => match p.splitOn "-" with
    | [lo, hi] => (do pure ⟨(← lo.toNat?), (← hi.toNat?)⟩ : Option PortRange)
    | _ => none)

def parseLine (s : String) : Option Line :=
  match s.splitOn "," with
  | ["J"] => some .badJson
  | ["L"] => some .tooLong
  | ["E", "-", p] => do pure (.entry none (← p.toInt?))
  | ["E", "4", v, p] => do pure (.entry (some (.v4 (← v.toNat?) true)) (← p.toInt?))
  | ["E", "6", i, p] => do pure (.entry (some (.v6 (← i.toNat?))) (← p.toInt?))
  | _ => none

/-- `(source, content)`; the content is what every open of the file yields -/
def parseSrc (s : String) : Option (Source × Option (List Line)) :=
  if s == "nonet" then some (.subnet none, none)
  else if s == "nofile" then some (.file (fun _ => none), none)
  else if s.startsWith "net:" then
    match (s.drop 4).toString.splitOn "/" with
    | [b, o] => do
      let b ← b.toNat?; let o ← o.toNat?
      pure (.subnet (some ⟨4, b, o, 32⟩), none)
    | _ => none
  else if s.startsWith "file:" then
    let body := (s.drop 7).toString
    let ls := if body.isEmpty then some [] else (body.splitOn ";").mapM parseLine
    ls.map (fun l => (.file (fun _ => some l), some l))
  else none

def parseExcl (s : String) : Option (Option (List (Nat × Nat))) :=
  if s == "none" then some none
  else if s == "-" then some (some [])
  else ((s.splitOn ",").mapM (fun (e : String) => match e.splitOn "/" with
    | [b, o] => (do pure ((← b.toNat?), (← o.toNat?)) : Option (Nat × Nat))
    | _ => none)).map some

def parseCache (c gw : String) : Option (Option (List (Addr × Nat) × Option Nat)) :=
  if c == "none" then some none else do
    let entries ← if c == "-" then some [] else (c.splitOn ",").mapM (fun (e : String) => match e.splitOn ":" with
      | [v, w, m] => (do pure (Addr.v4 (← v.toNat?) (w == "1"), (← m.toNat?)) : Option (Addr × Nat))
      | _ => none)
    let g ← if gw == "-" then some none else gw.toNat?.map some
    pure (some (entries, g))

def zeroDraws : Draws := fun _ => (0, 0)

def broadcastMAC : Nat := 281474976710655

/-- frame-level view: an error packet carries no target at all -/
def pktView (arp : Bool) (v : View) : View :=
  match v.cause with
  | some c => ⟨none, 0, none, some c⟩
  | none => if arp then { v with mac := some broadcastMAC } else v

def showResult (ord : String) (pkt arp : Bool) : Except Cause (List View) → String
  | .error c => s!"FAIL {causeName c}"
  | .ok vs =>
    let vs := if pkt then vs.map (pktView arp) else vs
    let strs := vs.map viewStr
    let strs := if ord == "S" then sortStrs strs else strs
    "OK " ++ "|".intercalate strs

def handleGen : List String → Option String
  | [kind, src, full, chunk, excl, cache, gw, ord, obs] => do
    let (source, content) ← parseSrc src
    let full ← parsePorts full
    let chunk ← parsePorts chunk
    let excl ← parseExcl excl
    let cache ← parseCache cache gw
    let pkt := kind.startsWith "pkt-"
    let arp := kind == "pkt-arp"
    let portLess := kind == "pkt-icmp" || arp
    let cache := if kind == "req-gen" || arp then none else cache
    let s : Spec := { src := source, ports := full, excl := excl, cache := cache }
    let tbl := Generated.cyclicGroups
    let model : Except Cause (List Req) :=
      if portLess then ipRequests tbl s (0, 0) else ipPortRequests tbl s chunk zeroDraws zeroDraws 0
    let modelStr := showResult ord pkt arp (model.map (·.map reqView))
    let ref : Ref := if portLess then refIpRun s content else refPortRun s content chunk
    let verdict := match ref with
      | .fail => obs.startsWith "FAIL"
      | .ok vs => obs == showResult ord pkt arp (.ok vs)
    pure s!"{modelStr}\t{b2s verdict}"
  | _ => none

/-! ### target strings -/

def bytesToChars (bs : List UInt8) : List Char := bs.map (fun b => Char.ofNat b.toNat)

def showNet : Option Net → String
  | none => "ERR"
  | some n => s!"OK {n.bytes} {n.base} {n.ones} {n.bits}"

def parseObsNet (s : String) : Option (Option Net) :=
  if s == "ERR" then some none else
  match s.splitOn " " with
  | ["OK", a, b, c, d] => do pure (some ⟨← a.toNat?, ← b.toNat?, ← c.toNat?, ← d.toNat?⟩)
  | _ => none

def handleNetParse : List String → Option String
  | [hexs, obs] => do
    let bs ← unhex hexs
    let s := bytesToChars bs
    let m := NetParse.parseIPNet s
    let v := match parseObsNet obs with
      | some o => Spec.Net.holds s o
      | none => false           -- PANIC or unparseable
    pure s!"{showNet m}\t{b2s v}"
  | _ => none

/-- `e2erefuse cmdline hex(target) exit=…;sent=…;panic=…` (harness/cmd/sxdiff/e2erefuse.go): one run of the real binary
    with this target argument.  `C02_parse_spec` / `C02_ipv6_refused` say what ParseIPNet makes of the string; at the process
    boundary a refused argument is a non-zero exit with nothing sent — whatever else the command line holds
    (--file, --exclude, --iface, an ARP cache) — and an accepted one (the controls) is a scan that runs. -/
def handleE2ERefuse : List String → Option String
  | [_cmd, hexs, obs] => do
    let bs ← unhex hexs
    let s := bytesToChars bs
    match NetParse.parseIPNet s with
    | none =>
      let m := "exit=refused;sent=0;panic=0"
      pure s!"{m}\t{b2s (obs == m)}"
    | some _ =>
      let v := obs == "exit=ok;sent=1;panic=0" || obs == "exit=ok;sent=0;panic=0"
      pure s!"{if v then obs else "exit=ok;sent=_;panic=0"}\t{b2s v}"
  | _ => none

end Driver
