import SxVerif.Model.Parse
import SxVerif.Spec.Parse
import SxVerif.Spec.Payload
import SxVerif.Generated.Flags
import Driver.Util
import Driver.Gen

namespace Driver
open SxVerif SxVerif.Gen SxVerif.Parse

def showPorts (rs : List PortRange) : String :=
  if rs.isEmpty then "OK -" else "OK " ++ ",".intercalate (rs.map (fun r => s!"{r.lo}-{r.hi}"))

def showRes {α} (f : α → String) : Res α → String
  | .ok v => f v
  | .err => "ERR"
  | .panic => "PANIC"

def hexToChars (h : String) : Option (List Char) := (unhex h).map bytesToChars

def charsHex (cs : List Char) : String := hex (cs.map (fun c => UInt8.ofNat c.toNat))

def parseObsPorts (obs : String) : Option (Option (List PortRange)) :=
  if obs == "ERR" then some none
  else if obs.startsWith "OK " then (parsePorts (obs.drop 3).toString).map some
  else none

def handlePPorts : List String → Option String
  | [h, obs] => do
    let s ← hexToChars h
    let m := parsePortRanges s
    let v := match parseObsPorts obs with
      | some (some rs) => Spec.Parse.denotePorts s == some rs && rs.all (fun r => r.lo ≤ 65535 && r.hi ≤ 65535)
      | some none => -- refusing is allowed unless `s` is the canonical rendering of what it denotes
        !(match Spec.Parse.denotePorts s with
          | some rs => !rs.isEmpty && Spec.Parse.renderPorts rs == s
          | none => false)
      | none => false
    pure s!"{showRes showPorts m}\t{b2s v}"
  | _ => none

def parseDurOut (s : String) : Option (Option Int) :=
  if s == "E" || s == "-" then some none else s.toInt?.map some

def handlePRate : List String → Option String
  | [h, dw, d1, obs] => do
    let s ← hexToChars h
    let dw ← parseDurOut dw
    let d1 ← parseDurOut d1
    let win := match split '/' s with
      | _ :: w :: _ => w
      | _ => []
    let dur : List Char → Option Int := fun x => if x == win then dw else if x == '1' :: win then d1 else none
    let m := parseRateLimit dur s
    let mStr := showRes (fun (p : Nat × Int) => s!"OK {p.1} {p.2}") m
    let v := match obs.splitOn " " with
      | ["OK", n, w] => (match n.toNat?, w.toInt? with
        | some n, some w => Spec.Parse.denoteRate dur s == some (n, w)
        | _, _ => false)
      | ["ERR"] => -- canonical forms `N`, `N/<unit…>` must be accepted
        !(match Spec.Parse.denoteRate dur s with
          | some (n, _) => (match Spec.Net.splitOn '/' s with
              | c :: _ => Spec.Net.renderNat n == c
              | [] => false)
          | none => false)
      | _ => false
    pure s!"{mStr}\t{b2s v}"
  | _ => none

def handlePPayload : List String → Option String
  | [h, obs] => do
    let s ← hexToChars h
    let m := parsePayload s
    let mStr := match m with
      | some b => "OK " ++ charsHex b
      | none => "ERR"
    let d := Spec.Payload.denote s
    let v := match obs.splitOn " " with
      | ["OK", hb] => (match hexToChars hb with
        | some b => d == some b
        | none => false)
      | ["ERR"] => d.isNone
      | _ => false
    pure s!"{mStr}\t{b2s v}"
  | _ => none

def handlePIPFlags : List String → Option String
  | [_, hl, obs] => do
    let lowered ← hexToChars hl
    let m := parseIPFlags Generated.ipFlagTable lowered
    let mStr := match m with
      | some v => s!"OK {v}"
      | none => "ERR"
    -- Spec: documented names and bits (RFC 791 DF/MF, RFC 3514 evil bit), each name its own bit
    let doc : List (String × Nat) := [("df", 2), ("mf", 1), ("evil", 4)]
    let parts := if lowered.isEmpty then [] else (Spec.Net.splitOn ',' lowered).map String.ofList
    let want := Spec.Parse.flagBits doc parts
    let v := match obs.splitOn " " with
      | ["OK", n] => n.toNat? == want && want.isSome
      | ["ERR"] => want.isNone
      | _ => false
    pure s!"{mStr}\t{b2s v}"
  | _ => none

/-- bit of each TCP header flag field in `NS<<8 | byte 13` (RFC 793 / RFC 3168 / RFC 3540; gopacket
    `layers.TCP.SerializeTo`) -/
def tcpHeaderBit : String → Option Nat
  | "FIN" => some 0x01 | "SYN" => some 0x02 | "RST" => some 0x04 | "PSH" => some 0x08 | "ACK" => some 0x10
  | "URG" => some 0x20 | "ECE" => some 0x40 | "CWR" => some 0x80 | "NS" => some 0x100
  | _ => none

def handlePTCPFlags : List String → Option String
  | [_, hl, obs] => do
    let lowered ← hexToChars hl
    let tbl := Generated.tcpFlagTable
    let m := parseTCPFlags (tbl.map (·.1)) lowered
    let bitsOf (names : List String) : Option Nat :=
      names.foldl (fun acc n => match acc, tbl.find? (·.1 == n) with
        | some v, some e => (tcpHeaderBit e.2.2).map (v ||| ·)
        | _, _ => none) (some 0)
    let mStr := match m with
      | some names => (match bitsOf names with
        | some b => s!"OK {if names.isEmpty then "-" else ",".intercalate names} {b}"
        | none => "ERR-TABLE")
      | none => "ERR"
    -- Spec: the documented flag letters, each its own RFC bit
    let doc : List (String × Nat) := [("fin", 1), ("syn", 2), ("rst", 4), ("psh", 8), ("ack", 16), ("urg", 32),
      ("ece", 64), ("cwr", 128), ("ns", 256)]
    let parts := if lowered.isEmpty then [] else (Spec.Net.splitOn ',' lowered).map String.ofList
    let want := Spec.Parse.flagBits doc parts
    let v := match obs.splitOn " " with
      | ["OK", names, bits] =>
        let ns := if names == "-" then [] else names.splitOn ","
        ns == parts && bits.toNat? == want && want.isSome
      | ["ERR"] => want.isNone
      | _ => false
    pure s!"{mStr}\t{b2s v}"
  | _ => none

def handlePPortsFile : List String → Option String
  | [h, obs] => do
    let data ← hexToChars h
    let m := parsePortsFile data
    let want : Option (List PortRange) :=
      if Spec.Parse.hasLongLine data then none
      else (Spec.Parse.entryLines data).mapM Spec.Parse.denotePortRange
    let v := match parseObsPorts obs with
      | some (some rs) => want == some rs
      | some none => -- refusal allowed unless every entry line is canonical
        !(match want with
          | some rs => (Spec.Parse.entryLines data) == rs.map Spec.Parse.renderRange
          | none => false)
      | none => false
    pure s!"{showRes showPorts m}\t{b2s v}"
  | _ => none

def showNets (l : List (Nat × Nat)) : String :=
  if l.isEmpty then "OK -" else "OK " ++ ",".intercalate (sortStrs (l.map (fun e => s!"{e.1}/{e.2}")))

def handlePExclFile : List String → Option String
  | [h, obs] => do
    let data ← hexToChars h
    let m := parseExcludeFile data
    let want : Option (List (Nat × Nat)) :=
      if Spec.Parse.hasLongLine data then none
      else (Spec.Parse.entryLines data).mapM (fun l => if l.contains ':' then none else Spec.Net.denote l)
    -- cidranger keeps one entry per distinct network
    let dedup (l : List (Nat × Nat)) : List (Nat × Nat) := l.eraseDups
    let mStr := showRes (fun l => showNets (dedup l)) m
    let v :=
      if obs == "ERR" then
        !(match want with
          | some nets => (Spec.Parse.entryLines data).all Spec.Net.isCanonical && !nets.isEmpty
          | none => false)
      else match want with
        | some nets => obs == showNets (dedup nets)
        | none => false
    pure s!"{mStr}\t{b2s v}"
  | _ => none

/-- read fault after `at` bytes: the only acceptable answer is an error (never a truncated list) -/
def handlePFault (ports : Bool) : List String → Option String
  | [h, atS, obs] => do
    let data ← hexToChars h
    let atN ← parseNat? atS
    let delivered := data.take atN      -- ASCII data: bytes = chars
    let m : String :=
      if ports then (match withReadFault parsePortsFile delivered with | .panic => "PANIC" | .ok _ => "OK" | .err => "ERR")
      else (match withReadFault parseExcludeFile delivered with | .panic => "PANIC" | .ok _ => "OK" | .err => "ERR")
    pure s!"{m}\t{b2s (obs == "ERR")}"
  | _ => none

end Driver
