import SxVerif.Model.RangeIter
import SxVerif.Spec.RangeIter
import SxVerif.Generated.CyclicGroups
import Driver.Util

namespace Driver
open SxVerif SxVerif.RangeIter

/-- first `k` values (or all, if fewer): mirrors what the harness collects from the real iterator -/
def drainK (fuel : Nat) : It → Nat → Option (List Nat × Bool)
  | _, 0 => some ([], false)
  | it, k + 1 =>
    match it.next fuel with
    | none => none
    | some (it', true) =>
      if k = 0 then some ([], false) else (drainK fuel it' k).map (fun (l, c) => (it'.I :: l, c))
    | some (_, false) => some ([], true)

def iterModel (n : Int) (r1 r2 k : Nat) : String :=
  match newIter Generated.cyclicGroups n r1 r2 with
  | .rangeSizeErr => "E_RANGESIZE"
  | .invalidGroupErr => "E_GROUP"
  | .diverge => "DIVERGE"
  | .ok it =>
    match drainK it.P it k with
    | none => "DIVERGE"
    | some (l, complete) => s!"OK {b2s complete} {natList (it.I :: l)}"

/-- Spec verdict on the output observed from the real code -/
def iterSpec (n : Int) (observed : String) : Bool :=
  let pmax := (Generated.cyclicGroups.map (·.P)).foldl max 0
  if n ≤ 0 ∨ (pmax : Int) ≤ n then observed == "E_RANGESIZE"
  else
    match observed.splitOn " " with
    | ["OK", c, vals] =>
      match parseNatList vals with
      | some l => if c == "1" then Spec.RangeIter.isPerm1N l n.toNat else Spec.RangeIter.isPrefix1N l n.toNat
      | none => false
    | _ => false

def handleIter : List String → Option String
  | [n, _seed, r1, r2, k, obs] => do
    let n ← parseInt? n; let r1 ← parseNat? r1; let r2 ← parseNat? r2; let k ← parseNat? k
    pure s!"{iterModel n r1 r2 k}\t{b2s (iterSpec n obs)}"
  | _ => none

/-- `Next` driven from a given state for up to `k` calls (hook `VerifRangeIteratorAt`) -/
def stepK (fuel : Nat) : It → Nat → Option (List Nat × Bool)
  | _, 0 => some ([], false)
  | it, k + 1 =>
    match it.next fuel with
    | none => none
    | some (it', true) => (stepK fuel it' k).map (fun (l, c) => (it'.I :: l, c))
    | some (_, false) => some ([], true)

def handleIterStep : List String → Option String
  | [p, g, i, s, lim, k, obs] => do
    let p ← parseNat? p; let g ← parseNat? g; let i ← parseNat? i; let s ← parseNat? s
    let lim ← parseNat? lim; let k ← parseNat? k
    let it : It := { P := p, G := g, I := i, startI := s, limit := lim, stop := false }
    let m := match stepK p it k with
      | none => "DIVERGE"
      | some (l, c) => s!"OK {b2s c} {natList l}"
    -- Spec on the observed values: in range, no repeats (a prefix of a rearrangement of 1..limit)
    let v := match obs.splitOn " " with
      | ["OK", _, vals] => match parseNatList vals with
        | some l => Spec.RangeIter.isPrefix1N l lim
        | none => false
      | _ => false
    pure s!"{m}\t{b2s v}"
  | _ => none

/-- complete iteration, counted by the harness: by `C04_perm` the model's answer is "n values, all
    distinct and in range"; the driver does not re-run millions of steps -/
def handleIterCount : List String → Option String
  | [n, _seed, _r1, _r2, obs] => do
    let n ← parseInt? n
    let pmax := (Generated.cyclicGroups.map (·.P)).foldl max 0
    let m := if n ≤ 0 ∨ (pmax : Int) ≤ n then "E_RANGESIZE" else s!"{n} 1"
    pure s!"{m}\t{b2s (obs == m)}"
  | _ => none

/-- `iterpass kind n script obs`: passes taken one after the other from one generator instance; by `C04_perm`
    (every iteration, whatever the draws) each drained pass (`F`) yields `n` values, every element once -/
def handleIterPass : List String → Option String
  | [_kind, n, script, obs] => do
    let n ← parseNat? n
    let drained := (script.splitOn ",").filter (· == "F")
    let m := ",".intercalate (drained.map (fun _ => s!"{n}:1"))
    pure s!"{m}\t{b2s (obs == m)}"
  | _ => none

end Driver
