import SxVerif.Model.Bpf
import SxVerif.Model.Wiring
import SxVerif.Spec.Reply
import Driver.Util
import Driver.Proc

namespace Driver
open SxVerif SxVerif.Frame SxVerif.Proc SxVerif.Bpf SxVerif.Wiring

def parseFn : String → Option FilterFn
  | "tcp" => some .tcp
  | "synack" => some .synack
  | "icmp" => some .icmp
  | "arp" => some .arp
  | _ => none

def parseCmd : String → Option Cmd
  | "arp" => some .arp
  | "icmp" => some .icmp
  | "udp" => some .udp
  | "tcpSyn" => some .tcpSyn
  | "tcpFin" => some .tcpFin
  | "tcpNull" => some .tcpNull
  | "tcpXmas" => some .tcpXmas
  | "tcpFlags" => some .tcpFlags
  | _ => none

/-- subnet: "-" | "<u32>/<bits>"; ports: "-" | "lo-hi,lo-hi" -/
def parseRange (subnet ports : String) : Option Range := do
  let sn ← if subnet == "-" then some none else
    match subnet.splitOn "/" with
    | [a, b] => do pure (some { addr := (← a.toNat?), bits := (← b.toNat?) : Net })
    | _ => none
  let ps ← if ports == "-" then some [] else
    (ports.splitOn ",").mapM (fun p => match p.splitOn "-" with
      | [a, b] => do pure ((← a.toNat?), (← b.toNat?))
      | _ => none)
  pure { subnet := sn, ports := ps }

def handleBpfr : List String → Option String
  | [fn, subnet, ports, _obs] => do
    let fn ← parseFn fn
    let r ← parseRange subnet ports
    pure s!"{hex (render (filterOf fn r)).toUTF8.toList}:{snaplen fn}\t1"
  | _ => none

def scanName : Scan → String
  | .tcp cfg => cfg.scanType
  | .icmp n _ => n
  | .arp => ""

def handleC03 : List String → Option String
  | [cmd, vpn, proccfg, fn, link, subnet, ports, framesHex, obs] => do
    let cmd ← parseCmd cmd
    let scan ← parseScan proccfg
    let fn ← parseFn fn
    let r ← parseRange subnet ports
    let m := if link == "raw" then LinkMode.rawIPv4 else LinkMode.ethernet
    let vpn := vpn == "1"
    let frames ← if framesHex == "-" then some [] else (framesHex.splitOn ",").mapM unhex
    let e := filterOf fn r
    let kind := Spec.Reply.kindOf cmd
    let spec := frames.map (fun f => (Spec.Reply.replyRecord (scanName scan) kind r vpn f).map (fun x => outStr (.record x)))
    if !compiles e m then
      -- SetBPFFilter fails, the scan does not start: nothing can be reported
      return s!"CE\t{b2s (obs == "CE" && spec.all (·.isNone))}"
    -- the filter sees the frame, the processor the bytes the ring holds of it
    let outs := run scan {} (frames.map (captured (snaplen fn)))
    let modelStr := if frames.isEmpty then "-" else
      "|".intercalate ((List.zip frames outs).map (fun (f, o) => (if accepts e m f then "A;" else "D;") ++ outStr o))
    let obsL := if obs == "-" then [] else obs.splitOn "|"
    let verdict :=
      if !Spec.Reply.RangeOK r then true       -- outside the ranges a scan can run with: correspondence only
      else if obs == "CE" then spec.all (·.isNone)
      else obsL.length == frames.length &&
        (List.zip spec obsL).all (fun (sp, o) =>
          match o.splitOn ";" with
          | [a, p] =>
            if p == "P" || p == "MULTI" || a == "VMERR" then false
            else (if a == "A" && p.startsWith "R:" then some p else none) == sp
          | _ => false)
    pure s!"{modelStr}\t{b2s verdict}"
  | _ => none

/-- sorted as Go's `sort.Strings` does (ASCII) -/
def sortRecs (l : List String) : List String := (l.toArray.qsort (· < ·)).toList

/-- end-to-end receive side (component e2ereply): per engine run the port ranges of that run and the frames put on
    the wire while it ran; observed = the sorted multiset of records the real binary printed -/
def handleC03e : List String → Option String
  | [cmd, vpn, proccfg, fn, link, drops, subnet, batches, obs] => do
    let cmd ← parseCmd cmd
    let scan ← parseScan proccfg
    let fn ← parseFn fn
    let drops := drops == "1"
    let m := if link == "raw" then LinkMode.rawIPv4 else LinkMode.ethernet
    let vpn := vpn == "1"
    let kind := Spec.Reply.kindOf cmd
    let bs ← (if batches == "" then some [] else
      (batches.splitOn ";").mapM (fun b => match b.splitOn "@" with
        | [ports, framesHex] => do
          let r ← parseRange subnet ports
          let frames ← if framesHex == "" then some [] else (framesHex.splitOn ",").mapM unhex
          pure (r, frames)
        | _ => none))
    let render (recs : List (Option Record)) : List String := recs.filterMap (fun o => o.map (fun x => outStr (.record x)))
    let fmt (l : List String) : String := "OK " ++ "|".intercalate (sortRecs l)
    if bs.any (fun (r, _) => !compiles (filterOf fn r) m) then
      -- SetBPFFilter fails, the scan does not start
      return s!"FAIL\t{b2s (obs.startsWith "FAIL")}"
    -- every engine run opens a fresh socket and constructs a fresh processor
    let model := bs.flatMap (fun (r, frames) => render (reportedAllWire drops (filterOf fn r) m (snaplen fn) scan {} frames))
    let spec := bs.flatMap (fun (r, frames) => render (frames.map (Spec.Reply.replyRecord (scanName scan) kind r vpn)))
    let ok := bs.all (fun (r, _) => Spec.Reply.RangeOK r)
    pure s!"{fmt model}\t{b2s (!ok || obs == fmt spec)}"
  | _ => none

end Driver
