import SxVerif.Model.Iface
import SxVerif.Spec.Iface
import Driver.Util

namespace Driver
open SxVerif SxVerif.Iface

def optHex (s : String) : Option (Option (List UInt8)) :=
  if s == "-" then some none else (unhex s).map some

def parseAddr (s : String) : Option Addr :=
  match s.splitOn "/" with
  | [ip, ones, fam] => do
    let ip ← unhex ip
    let ones ← parseNat? ones
    let v6 ← (if fam == "6" then some true else if fam == "4" then some false else none)
    pure ⟨ip, ones, v6⟩
  | _ => none

def parseIface (s : String) : Option Iface :=
  match s.splitOn ":" with
  | [idx, name, mac, addrs] => do
    let idx ← parseNat? idx
    let mac ← optHex mac
    let addrs ← (if addrs == "-" then some [] else (addrs.splitOn ",").mapM parseAddr)
    pure ⟨name, idx, mac, addrs⟩
  | _ => none

def parseDst (s : String) : Option (Option (IP × Nat)) :=
  if s == "-" then some none else
  match s.splitOn "/" with
  | [ip, ones] => do
    let ip ← unhex ip
    let ones ← parseNat? ones
    pure (some (ip, ones))
  | _ => none

def parseRoute (s : String) : Option Route :=
  match s.splitOn ":" with
  | [dst, src, prio, link, gw] => do
    let dst ← parseDst dst
    let src ← optHex src
    let prio ← parseNat? prio
    let link ← parseNat? link
    let gw ← optHex gw
    pure ⟨dst, src, prio, link, gw⟩
  | _ => none

def parseHost (si sr : String) : Option Host := do
  let ifs ← (if si == "-" then some [] else (si.splitOn ";").mapM parseIface)
  let rs ← (if sr == "-" then some [] else (sr.splitOn ";").mapM parseRoute)
  pure ⟨ifs, rs⟩

def parseTarget (s : String) : Option (Option Target) :=
  if s == "-" then some none else
  match s.splitOn "/" with
  | [ip, ones] => do
    let ip ← unhex ip
    let ones ← parseNat? ones
    pure (some ⟨ip, ones⟩)
  | _ => none

def showErr : Err → String
  | .srcif => "err=srcif" | .srcip => "err=srcip" | .srcmac => "err=srcmac" | .nosuchif => "err=nosuchif"

def hexO (o : Option (List UInt8)) : String :=
  match o with
  | none => "-"
  | some b => hex b

def showRange (r : Range) : String :=
  s!"ok if={r.iface.name} ip={hex r.srcIP} mac={hexO r.srcMAC}"

/-- "k=v" → v -/
def kv (key : String) (s : String) : Option String :=
  if s.startsWith (key ++ "=") then some (s.drop (key.length + 1)).toString else none

/-- observed `ok if=… ip=… mac=… vpn=… gw=…` or `err=…` -/
def parseObsOpts (s : String) : Option Spec.Iface.Outcome :=
  if s.startsWith "err=" then some .failed else
  match s.splitOn " " with
  | ["ok", i, ip, mac, vpn, _gw] => do
    let i ← kv "if" i
    let ip ← (kv "ip" ip) >>= unhex
    let mac ← (kv "mac" mac) >>= optHex
    let vpn ← kv "vpn" vpn
    pure (.chose i ip mac (vpn == "1"))
  | _ => none

def parseIfIP (s : String) : Option (String × Option IP) :=
  match s.splitOn " " with
  | [i, ip] => do
    let i ← kv "if" i
    let ip ← (kv "ip" ip) >>= optHex
    pure (i, ip)
  | _ => none

def handleIface : List String → Option String
  | [kind, _recipe, si, sr, ifname, srcip, srcmac, _target, parsed, obs] => do
    let h ← parseHost si sr
    let srcip ← optHex srcip
    let srcmac ← optHex srcmac
    let t ← parseTarget parsed
    let o : Opts := ⟨if ifname == "-" then none else some ifname, srcip, srcmac, t⟩
    match kind with
    | "opts" | "optsf" =>
      -- `optsf` = the same options with an address file given as well: the positional target selects as before
      let m := match ipScanOptions h o with
        | .error e => showErr e
        | .ok r => s!"{showRange r.range} vpn={b2s r.vpn} gw={hexO r.gw}"
      let v := match parseObsOpts obs with
        | some out => Spec.Iface.holds h o out
        | none => false
      pure s!"{m}\t{b2s v}"
    | "arp" =>
      let stage := match arpOptions h o with
        | .error e => showErr e
        | .ok _ => "passed"
      let rng := match scanRange h o with
        | .error e => showErr e
        | .ok r => showRange r
      -- the stage outcome against holdsArp, the in-process range against holds (vpn = no MAC)
      let v := match obs.splitOn " range:" with
        | [st, rg] =>
          let vs := if st == "passed" then Spec.Iface.holdsArp h o true
                    else if st.startsWith "err=" then Spec.Iface.holdsArp h o false else false
          let vr := if rg.startsWith "err=" then Spec.Iface.holds h o .failed
            else match rg.splitOn " " with
              | ["ok", i, ip, mac] =>
                match kv "if" i, (kv "ip" ip) >>= unhex, (kv "mac" mac) >>= optHex with
                | some i, some ip, some mac => Spec.Iface.holds h o (.chose i ip mac mac.isNone)
                | _, _, _ => false
              | _ => false
          vs && vr
        | _ => false
      pure s!"{stage} range:{rng}\t{b2s v}"
    | "loc" =>
      let t ← t
      let m := match localSubnetInterface t h.ifaces with
        | none => "none"
        | some (i, ip) => s!"if={i.name} ip={hex ip}"
      let v := if obs == "none" then Spec.Iface.holdsLocal h t none
        else match parseIfIP obs with
          | some (i, some ip) => Spec.Iface.holdsLocal h t (some (i, ip))
          | _ => false
      pure s!"{m}\t{b2s v}"
    | "def" =>
      let m := match defaultInterface h with
        | .error e => showErr e
        | .ok (none, _) => "none"
        | .ok (some i, ip) => s!"if={i.name} ip={hexO ip}"
      let v := if obs == "none" then Spec.Iface.holdsDefault h (some none)
        else if obs.startsWith "err=" then Spec.Iface.holdsDefault h none
        else match parseIfIP obs with
          | some (i, ip) => Spec.Iface.holdsDefault h (some (some (i, ip)))
          | none => false
      pure s!"{m}\t{b2s v}"
    | "gw" =>
      match interfaceByName h ifname with
      | none => pure s!"err=nosuchif\t{b2s (obs.startsWith "err=")}"
      | some i =>
        let m := s!"gw={hexO (defaultGatewayIP h i)}"
        let v := match (kv "gw" obs) >>= optHex with
          | some g => Spec.Iface.holdsGateway h i g
          | none => false
        pure s!"{m}\t{b2s v}"
    | _ => none
  | _ => none

end Driver
