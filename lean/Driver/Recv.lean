import SxVerif.Model.Recv
import SxVerif.Spec.Recv
import SxVerif.Generated.Receiver
import Driver.Util

namespace Driver
open SxVerif SxVerif.Recv

def symOutcome : Char → Option Outcome
  | 'F' => some (.frame false) | 'P' => some (.frame true)
  | 'a' => some (.err .eagain) | 'r' => some (.err .econnreset) | 'o' => some (.err .opEagain)
  | 's' => some (.err .sysConnreset) | 't' => some (.err .netTimeout) | 'n' => some (.err .netNoTimeout)
  | 'e' => some (.err .eof) | 'u' => some (.err .unexpectedEOF) | 'g' => some (.err .noProgress)
  | 'c' => some (.err .closedPipe) | 'b' => some (.err .shortBuffer) | 'd' => some (.err .ebadf)
  | 'f' => some (.err .closedFile) | 'w' => some (.err .wrappedEOF) | 'x' => some (.err .other)
  | 'p' => some (.err .afPoll)
  | _ => none

def showRecv (r : Result) : String :=
  s!"p={natList r.processed};r={natList r.reported};c={r.consumed};closed=1"

def parseRecv (s : String) : Option (Result × Bool) :=
  match s.splitOn ";" with
  | [p, r, c, cl] => do
    let p ← parseNatList (p.drop 2).toString
    let r ← parseNatList (r.drop 2).toString
    let c ← parseNat? (c.drop 2).toString
    pure (⟨p, r, c⟩, cl == "closed=1")
  | _ => none

def handleRecv : List String → Option String
  | [syms, cancel, obs] => do
    let outs ← (if syms == "-" then some [] else syms.toList.mapM symOutcome)
    let cancel ← (if cancel == "-" then some none else (parseNat? cancel).map some)
    let m := receive outs cancel
    let v := match parseRecv obs with
      | some (r, closed) => closed && Spec.Recv.holds outs cancel r
      | none => false
    pure s!"{showRecv m}\t{b2s v}"
  | _ => none

/-- longest pause of the receive loop after a read error: at most the constant regenerated from
    receiver.go plus 100 ms of scheduling slack -/
def handleRecvPause : List String → Option String
  | [_syms, obs] => do
    let v := match obs.splitOn "=" with
      | ["maxpause_us", n] => match n.toNat? with
        | some us => decide (us * 1000 ≤ Generated.recvErrorPauseNs + 100000000)
        | none => false
      | _ => false
    pure s!"{obs}\t{b2s v}"
  | _ => none

end Driver
