import SxVerif.Model.Socks
import SxVerif.Model.SocksGen
import SxVerif.Spec.Socks
import Driver.Util

/-!
Driver for the `socks` component (C09).

`socks`   : one real `Scanner.Scan` against a scripted loopback server.
            fields: dialT dataT ip port dial write reads fin cancel rg observed       (times in µs)
            observed / model output: `out=<outcome>;us=<elapsed>;g=<greeting hex|->`
            The measured `us` is echoed by the model when it lies in [predicted − early, predicted + slack];
            otherwise the model prints its own prediction, which shows up as a disagreement.
`socksio` : `MethodRequest.WriteTo` + `MethodReply.ReadFrom` over the real `socksConn` wrapped around a
            scripted in-memory `net.Conn` that records every call.
            fields: ver methods-hex write-script read-script observed
            observed / model output: call trace `dw,w050100,dr,r2,dr,r1,=0500` / `…,!eof`
-/
namespace Driver
open SxVerif SxVerif.Socks

/-- scheduling slack granted to the real code (µs) -/
def socksSlack : Nat := 250000
/-- the real code may not return earlier than predicted by more than this (µs; timer granularity) -/
def socksEarly : Nat := 5000

def parseIPv4 (s : String) : Option Nat :=
  match (s.splitOn ".").mapM (·.toNat?) with
  | some [a, b, c, d] => if a < 256 ∧ b < 256 ∧ c < 256 ∧ d < 256 then some (((a * 256 + b) * 256 + c) * 256 + d) else none
  | _ => none

def showIPv4 (n : Nat) : String :=
  s!"{n / 16777216 % 256}.{n / 65536 % 256}.{n / 256 % 256}.{n % 256}"

def parseDialEv (s : String) : Option DialEv :=
  match s.splitOn ":" with
  | ["ok", d] => d.toNat?.map .ok
  | ["refused", d] => d.toNat?.map .refused
  | ["silent", g] => g.toNat?.map .silent
  | _ => none

def parseWriteEv (s : String) : Option WriteEv :=
  match s.splitOn ":" with
  | ["ok", d] => d.toNat?.map .ok
  | ["reset", d] => d.toNat?.map .reset
  | ["stall"] => some .stall
  | _ => none

/-- `d<hex>@<us>` (empty hex = empty chunk), `e@<us>`, `r@<us>`, `s` -/
def parseReadEv (s : String) : Option ReadEv :=
  if s == "s" then some .stall else
  match s.splitOn "@" with
  | [k, d] => do
    let d ← d.toNat?
    if k == "e" then pure (.eof d)
    else if k == "r" then pure (.reset d)
    else if k.startsWith "d" then
      let h := (k.drop 1).toString
      let bs ← (if h.isEmpty then some [] else unhex h)
      pure (.data bs d)
    else none
  | _ => none

def parseReads (s : String) : Option (List ReadEv) :=
  if s == "-" then some [] else (s.splitOn ",").mapM parseReadEv

def parseFin (s : String) : Option (Option Dur) :=
  if s == "never" then some none
  else if s.startsWith "a" then ((s.drop 1).toString.toNat?).map some
  else none

def showIoErr : IoErr → String
  | .timeout => "timeout" | .reset => "reset"

def showSocksErr : Err → String
  | .dialRefused => "dial-refused"
  | .dialTimeout => "dial-timeout"
  | .dialCancelled => "dial-canceled"
  | .linger => "linger"
  | .write e => "write-" ++ showIoErr e
  | .read e => "read-" ++ showIoErr e
  | .eof => "eof"
  | .unexpectedEOF => "unexpected-eof"
  | .closed => "closed"

def showOutcome : Outcome → String
  | .reported t => s!"rep:{showIPv4 t.ip}:{t.port}"
  | .nothing => "none"
  | .error e => "err:" ++ showSocksErr e

/-- `out=…;us=…;g=…` -/
def parseSocksObs (s : String) : Option (String × Nat × String) :=
  match s.splitOn ";" with
  | [o, u, g] =>
    if o.startsWith "out=" ∧ u.startsWith "us=" ∧ g.startsWith "g=" then do
      let us ← (u.drop 3).toString.toNat?
      pure ((o.drop 4).toString, us, (g.drop 2).toString)
    else none
  | _ => none

def parseReported (o : String) : Option Target :=
  match o.splitOn ":" with
  | ["rep", ip, port] => do
    let ip ← parseIPv4 ip
    let port ← port.toNat?
    pure ⟨ip, port⟩
  | _ => none

def handleSocks : List String → Option String
  | [dialT, dataT, ip, port, dial, write, reads, fin, cancel, rg, obs] => do
    let dialT ← dialT.toNat?
    let dataT ← dataT.toNat?
    let ip ← parseIPv4 ip
    let port ← port.toNat?
    let tgt : Target := ⟨ip, port⟩
    let dial ← parseDialEv dial
    let write ← parseWriteEv write
    let reads ← parseReads reads
    let fin ← parseFin fin
    let cancel ← (if cancel == "-" then some none else cancel.toNat?.map some)
    let s : Script := { dial := dial, write := write, reads := reads, finAck := fin, cancel := cancel }
    let r := scan (genCfg dialT dataT) tgt s
    -- the greeting as the server sees it: only if the server reads (rg = 1) and the write went through
    let sent := match r.outcome with
      | .error (.write _) => false
      | .error .closed => r.reads > 0
      | _ => r.wrote.isSome
    let g := if rg == "1" && sent then hex (r.wrote.getD []) else "-"
    let po := parseSocksObs obs
    let us := match po with
      | some (_, m, _) => if r.elapsed ≤ m + socksEarly ∧ m ≤ r.elapsed + socksSlack then m else r.elapsed
      | none => r.elapsed
    let v := match po with
      | some (o, m, og) =>
        let rep := parseReported o
        let wellFormed := rep.isSome || o == "none" || o.startsWith "err:"
        let greetingOK := og == "-" || unhex og == some Spec.Socks.rfcGreeting
        wellFormed && greetingOK &&
          Spec.Socks.holds dialT dataT socksSlack tgt s ⟨rep, o.startsWith "err:", m⟩
      | none => false
    pure s!"out={showOutcome r.outcome};us={us};g={g}\t{b2s v}"
  | _ => none

/-- read script of the in-memory conn: `d<hex>` (`d` alone = empty chunk), `e`, `r`, `s` -/
def parseIoRead (s : String) : Option ReadEv :=
  if s == "s" then some .stall
  else if s == "e" then some (.eof 0)
  else if s == "r" then some (.reset 0)
  else if s.startsWith "d" then
    let h := (s.drop 1).toString
    (if h.isEmpty then some [] else unhex h).map (fun bs => .data bs 0)
  else none

/-- is every `r…`/`w…` call immediately preceded by its own deadline call, and how many reads are there -/
def ioTraceShape : List String → Bool × Nat
  | [] => (true, 0)
  | "dr" :: x :: rest => if x.startsWith "r" then let (ok, n) := ioTraceShape rest; (ok, n + 1) else (false, 0)
  | "dw" :: x :: rest => if x.startsWith "w" then ioTraceShape rest else (false, 0)
  | x :: rest =>
    if x.startsWith "=" || x.startsWith "!" then ioTraceShape rest else (false, 0)

def handleSocksIO : List String → Option String
  | [ver, methods, wscript, rscript, obs] => do
    let ver ← ver.toNat?
    let methods ← unhex methods
    let evs ← (if rscript == "-" then some [] else (rscript.splitOn ",").mapM parseIoRead)
    let g := greeting (UInt8.ofNat ver) methods
    let pre := ["dw", "w" ++ (if g.isEmpty then "" else hex g)]
    let trace :=
      if wscript == "ok" then
        let r := readLoop 1 none 2 evs 0 [] 0 []
        let calls := r.caps.foldr (fun c acc => "dr" :: s!"r{c}" :: acc) []
        let fin := match r.res with
          | .ok buf => "=" ++ hex buf
          | .error e => "!" ++ showSocksErr e
        pre ++ calls ++ [fin]
      else pre ++ ["!write-reset"]
    -- Spec side, on the observed trace
    let ot := obs.splitOn ","
    let (shapeOK, nreads) := ioTraceShape ot
    let written := ot.filter (·.startsWith "w")
    let greetOK := methods.length > 255 ||
      (match written with
       | [w] => (unhex (w.drop 1).toString).bind Spec.Socks.parseGreeting == some (UInt8.ofNat ver, methods)
       | _ => false)
    let readsOK := !Spec.Socks.noEmptyChunk evs || nreads ≤ 2
    pure s!"{",".intercalate trace}\t{b2s (shapeOK && greetOK && readsOK)}"
  | _ => none

end Driver
