import SxVerif.Model.HttpProbe
import SxVerif.Spec.HttpProbe
import Driver.Util

namespace Driver
open SxVerif SxVerif.HttpProbe

def hpClass : String → Option BodyClass
  | "object" => some .object | "objectEmpty" => some .objectEmpty | "objectWs" => some .objectWs
  | "objectTrailing" => some .objectTrailing | "objectIllTyped" => some .objectIllTyped
  | "null" => some .null | "nullTail" => some .nullTail | "array" => some .array | "scalar" => some .scalar
  | "truncated" => some .truncated | "garbage" => some .garbage | "empty" => some .empty
  | _ => none

def hpEnding : String → Option Ending
  | "eof" => some .eof | "stall" => some .stall | "endless" => some .endless
  | _ => none

/-- `delay` is written as a percentage of the timeout -/
def hpHop (T : Nat) (s : String) : Option Hop :=
  match s.splitOn ":" with
  | ["refused"] => some .refused | ["tlsfail"] => some .tlsfail | ["close"] => some .close
  | ["rst"] => some .rst | ["junk"] => some .junk | ["hstall"] => some .hstall | ["phstall"] => some .phstall
  | [k, st, d, cls, id, e, _framing, _variant] => do
    let redirect ← (if k == "resp" then some false else if k == "redir" then some true else none)
    let st ← parseNat? st
    let d ← parseNat? d
    let cls ← hpClass cls
    let id ← parseNat? id
    let e ← hpEnding e
    pure (.resp redirect st (T * d / 100) ⟨cls, id, e⟩)
  | _ => none

def hpExchange (T : Nat) (s : String) : Option Exchange := (s.splitOn ">").mapM (hpHop T)

def hpField (docker : Bool) : Field → String
  | .obj (some n) => s!"obj:{n}"
  | .obj none => "obj:empty"
  | .null => if docker then "zero" else "null"

def hpParseField (s : String) : Option Field :=
  if s == "null" || s == "zero" then some .null
  else if s == "obj:empty" then some (.obj none)
  else match s.splitOn ":" with
    | ["obj", n] => (parseNat? n).map (fun n => .obj (some n))
    | _ => none

def hpShow (docker : Bool) : ScanOut → String
  | .err => "err"
  | .record r =>
    let second := if docker then "ver" else "idx"
    s!"rec;proto={r.proto};host={r.host};info={hpField docker r.info};{second}={hpField docker r.second}"

def hpKV (key : String) (s : String) : Option String :=
  match s.splitOn "=" with
  | k :: rest => if k == key && !rest.isEmpty then some ("=".intercalate rest) else none
  | _ => none

/-- observed string → (outcome, elapsed ms) -/
def hpParseObserved (docker : Bool) (s : String) : Option (ScanOut × Nat) :=
  match s.splitOn ";" with
  | ["err", ms] => do
    let ms ← (hpKV "ms" ms).bind parseNat?
    pure (.err, ms)
  | ["rec", proto, host, info, second, ms] => do
    let proto ← hpKV "proto" proto
    let host ← hpKV "host" host
    let info ← (hpKV "info" info).bind hpParseField
    let second ← (hpKV (if docker then "ver" else "idx") second).bind hpParseField
    let ms ← (hpKV "ms" ms).bind parseNat?
    pure (.record ⟨proto, host, info, second⟩, ms)
  | _ => none

/-- the measured duration is not something the model predicts: it is echoed, and judged by the Spec -/
def hpObservedMs (s : String) : String :=
  match (s.splitOn ";").getLast? with
  | some l => l
  | none => "ms=?"

def handleHttpProbe : List String → Option String
  | [kind, scheme, ip, timeout, script, obs] => do
    let T ← parseNat? timeout
    let docker := kind == "docker"
    let xs ← (script.splitOn "|").mapM (hpExchange T)
    match kind, xs with
    | "elastic", [x1, x2] =>
      let m := (elasticScan scheme ip T x1 x2).1
      let v := match hpParseObserved docker obs with
        | some (o, ms) => Spec.HttpProbe.elasticHolds scheme ip T x1 x2 o ms
        | none => false
      pure s!"{hpShow docker m};{hpObservedMs obs}\t{b2s v}"
    | "docker", [ping, info, ver] =>
      let m := (dockerScan scheme ip T ping info ver).1
      let v := match hpParseObserved docker obs with
        | some (o, ms) => Spec.HttpProbe.dockerHolds scheme ip T ping info ver o ms
        | none => false
      pure s!"{hpShow docker m};{hpObservedMs obs}\t{b2s v}"
    | _, _ => none
  | _ => none

end Driver
