import SxVerif.Model.Limiter
import SxVerif.Spec.Limiter
import Driver.Util

/-!
Driver for component `limiter` (C15).

* `lim  N W slack epoch nows observed` — the real `ratelimit.New(N, Per(W)[, WithSlack])` under a scripted
  clock; `nows` = the clock readings of the successful CAS iterations in CAS order, relative to `epoch`
  (`z` = Go's zero time, `u` = Unix epoch); observed `r=<release times>;s=<Sleep arguments>` or `PANIC`.
  Model column: the same rendering of `Limiter.run`.  Verdict: `Spec.Limiter.holds`.
* `limconc N W goroutines each mode seed observed` — concurrent Takes on one real limiter; observed = per
  goroutine, in program order, `reading/release/sleep` of every Take.  The CAS order is not observable, so
  the model column echoes the observation iff an interleaving exists that `Limiter.run` reproduces exactly
  (`NO-LINEARISATION` otherwise); the harness proposes the interleaving after `#` (untrusted hint, checked
  here; without a usable hint the driver searches itself); verdict: `Spec.Limiter.holds` in that order and order-free.
* `limwrap kind ops observed` — the real wrapper around a counting limiter and a recording delegate;
  observed = per wrapper call `<op>:<calls made, T|D>:<arguments and results passed through unchanged>`.
* `limrt workers N W count observed` — the real `genericScanCmdOpts.newScanEngine` wiring run in real time;
  observed = start time of every `Scan` in ns.  There is no model prediction for wall-clock times: the
  model column echoes the observation and only the Spec bound (sequential sender, no tolerance) is judged.
-/
namespace Driver
open SxVerif SxVerif.Limiter

def intList (l : List Int) : String := if l.isEmpty then "-" else ",".intercalate (l.map toString)

def parseIntList (s : String) : Option (List Int) :=
  if s == "-" || s.isEmpty then some [] else (s.splitOn ",").mapM (·.toInt?)

/-- ns between Go's zero `time.Time` (0001-01-01T00:00:00Z) and the Unix epoch -/
def unixToZero : Int := 62135596800 * 1000000000

def epochOffset : String → Option Int
  | "z" => some 0
  | "u" => some unixToZero
  | _ => none

def showLim (off : Int) (outs : List Out) : String :=
  s!"r={intList (outs.map (·.release - off))};s={intList (outs.map (·.interval))}"

def parseLimObs (s : String) : Option (List Int × List Int) :=
  match s.splitOn ";" with
  | [r, sl] =>
    if r.startsWith "r=" && sl.startsWith "s=" then do
      let r ← parseIntList (r.drop 2).toString
      let sl ← parseIntList (sl.drop 2).toString
      pure (r, sl)
    else none
  | _ => none

def handleLim : List String → Option String
  | [n, w, slack, epoch, nows, obs] => do
    let n ← parseInt? n
    let w ← parseInt? w
    let slack ← (if slack == "d" then some defaultSlack else parseInt? slack)
    let off ← epochOffset epoch
    let nows ← parseIntList nows
    let absNows := nows.map (· + off)
    match Limiter.new n w slack with
    | none =>
      -- `ratelimit.New(0, …)` divides by zero; the property speaks about N ≥ 1 only
      pure s!"PANIC\t{b2s (obs == "PANIC" && n == 0)}"
    | some c =>
      let m := run c State.init absNows
      let v := match parseLimObs obs with
        | some (rel, sleeps) =>
          -- the property's burst allowance is the library default; runs with another slack are
          -- correspondence-only
          slack != defaultSlack || Spec.Limiter.holds n w absNows (rel.map (· + off)) sleeps
        | none => false
      pure s!"{showLim off m}\t{b2s v}"
  | _ => none

/-! concurrent Takes: linearisation search -/

structure TakeObs where
  now : Int
  rel : Int
  sleep : Int
  deriving Repr

def parseTakeObs (s : String) : Option TakeObs :=
  match s.splitOn "/" with
  | [a, b, c] => do pure ⟨← a.toInt?, ← b.toInt?, ← c.toInt?⟩
  | _ => none

def takeMatches (c : Cfg) (st : State) (o : TakeObs) : Bool :=
  let r := takeFull c st o.now
  -- `interval` is declared outside the CAS loop and only assigned in the sleep branch: after a failed
  -- iteration that wanted to sleep, a successful iteration that does not sleep still passes the stale
  -- value to `Sleep` (longer than needed, never shorter)
  r.2.release == o.rel && (r.2.interval == o.sleep || (r.2.interval == 0 && o.sleep > 0))

/-- all ways to pop the head of one non-empty queue -/
def popHeads : List (List TakeObs) → List (TakeObs × List (List TakeObs))
  | [] => []
  | q :: qs =>
    let rest := (popHeads qs).map (fun (o, qs') => (o, q :: qs'))
    match q with
    | [] => rest
    | o :: q' => (o, q' :: qs) :: rest

def insertByNow (x : TakeObs × List (List TakeObs)) :
    List (TakeObs × List (List TakeObs)) → List (TakeObs × List (List TakeObs))
  | [] => [x]
  | y :: ys => if x.1.now ≤ y.1.now then x :: y :: ys else y :: insertByNow x ys

/-- depth-first search for an interleaving of the goroutines' sequences that the sequential model
    reproduces exactly (release time and Sleep argument of every Take).  Returns the interleaving and the
    fuel left; `none` with fuel left = there is none. -/
partial def linearise (c : Cfg) (fuel : Nat) (st : State) (qs : List (List TakeObs)) (acc : List TakeObs) :
    Option (List TakeObs) × Nat :=
  if fuel == 0 then (none, 0) else
  if qs.all List.isEmpty then (some acc.reverse, fuel - 1) else
  let choices := ((popHeads qs).filter fun (o, _) => takeMatches c st o).foldr insertByNow []
  let rec tryAll (fuel : Nat) : List (TakeObs × List (List TakeObs)) → Option (List TakeObs) × Nat
    | [] => (none, fuel)
    | (o, qs') :: more =>
      match linearise c fuel (takeFull c st o.now).1 qs' (o :: acc) with
      | (some l, f) => (some l, f)
      | (none, f) => if f == 0 then (none, 0) else tryAll f more
  tryAll (fuel - 1) choices

/-- pop the head of queue number `g` -/
def popAt : List (List TakeObs) → Nat → Option (TakeObs × List (List TakeObs))
  | [], _ => none
  | (o :: q) :: qs, 0 => some (o, q :: qs)
  | [] :: _, 0 => none
  | q :: qs, g + 1 => (popAt qs g).map (fun (o, qs') => (o, q :: qs'))

/-- CHECK a proposed CAS order (sequence of goroutine indices): it must consume every goroutine's
    sequence in program order and the model must reproduce every Take along it -/
def checkOrder (c : Cfg) : State → List (List TakeObs) → List Nat → List TakeObs → Option (List TakeObs)
  | _, qs, [], acc => if qs.all List.isEmpty then some acc.reverse else none
  | st, qs, g :: rest, acc =>
    match popAt qs g with
    | none => none
    | some (o, qs') =>
      if takeMatches c st o then checkOrder c (takeFull c st o.now).1 qs' rest (o :: acc) else none

def handleLimConc : List String → Option String
  | [n, w, _g, _each, _mode, _seed, obsAll] => do
    let n ← parseInt? n
    let w ← parseInt? w
    let c ← Limiter.new n w defaultSlack
    let (obs, hint) ← (match obsAll.splitOn "#" with
      | [o, h] => some (o, h)
      | _ => none)
    let qs ← (obs.splitOn ";").mapM (fun q => if q.isEmpty then some [] else (q.splitOn ",").mapM parseTakeObs)
    let all := qs.flatten
    let orderFree :=
      !(decide (1 ≤ n) && decide (0 ≤ w) && Spec.Limiter.clockOK (all.map (·.now))) ||
      (Spec.Limiter.heldOK (all.map (·.now)) (all.map (·.rel)) (all.map (·.sleep)) &&
       Spec.Limiter.rateOK (Spec.Limiter.perProbe n w) Spec.Limiter.burst (Spec.Limiter.sort (all.map (·.rel))))
    let lin : Option (List TakeObs) × Nat :=
      match (if hint == "-" then none else parseNatList hint) with
      | some order =>
        (match checkOrder c State.init qs order [] with
         | some l => (some l, 1)
         | none => linearise c 300000 State.init qs [])
      | none => linearise c 300000 State.init qs []
    match lin with
    | (some l, _) =>
      let v := Spec.Limiter.holds n w (l.map (·.now)) (l.map (·.rel)) (l.map (·.sleep))
      pure s!"{obsAll}\t{b2s (v && orderFree)}"
    | (none, f) =>
      pure s!"{if f == 0 then "NO-LINEARISATION-FOUND(search exhausted)" else "NO-LINEARISATION"}\t{b2s orderFree}"
  | _ => none

/-! wrappers -/

def opOfChar : Char → Option Op
  | 'S' => some .send
  | 'R' => some .recv
  | _ => none

def showEv : Ev → String
  | .take => "T"
  | .delegate => "D"

def showWrap (tr : List (Op × List Ev)) : String :=
  if tr.isEmpty then "-" else
  ";".intercalate (tr.map fun (o, evs) =>
    (match o with | .send => "S" | .recv => "R") ++ ":" ++ String.join (evs.map showEv) ++ ":1")

def parseCall : Char → Option Spec.Limiter.Call
  | 'T' => some .take
  | 'D' => some .delegate
  | _ => none

/-- one observed wrapper call: kind, calls made, pass-through flag -/
def parseWrapCall (s : String) : Option (Spec.Limiter.Kind × List Spec.Limiter.Call × Bool) :=
  match s.splitOn ":" with
  | [o, evs, p] => do
    let k ← (if o == "S" then some Spec.Limiter.Kind.send else if o == "R" then some Spec.Limiter.Kind.recv else none)
    let evs ← evs.toList.mapM parseCall
    pure (k, evs, p == "1")
  | _ => none

def handleLimWrap : List String → Option String
  | [kind, ops, obs] => do
    let ops ← (if ops == "-" then some [] else ops.toList.mapM opOfChar)
    -- the scanner wrapper has no receiving side
    if kind == "scan" && ops.any (· == .recv) then none
    if kind != "scan" && kind != "rw" then none
    let m := wrapperRun ops
    let obsCalls := if obs == "-" then some [] else (obs.splitOn ";").mapM parseWrapCall
    let v := match obsCalls with
      | some cs =>
        let tr := cs.map (fun c => (c.1, c.2.1))
        -- the observed calls answer the calls that were made, in order
        tr.map (·.1) == ops.map (fun o => match o with | .send => Spec.Limiter.Kind.send | .recv => .recv) &&
        Spec.Limiter.chargedOnce tr && Spec.Limiter.bijective tr && cs.all (·.2.2)
      | none => false
    pure s!"{showWrap m}\t{b2s v}"
  | _ => none

/-! real-time run of the generic engine wiring -/

def handleLimRT : List String → Option String
  | [workers, n, w, count, obs] => do
    let workers ← parseNat? workers
    let n ← parseInt? n
    let w ← parseInt? w
    let count ← parseNat? count
    let v := match (if obs.startsWith "t=" then parseIntList (obs.drop 2).toString else none) with
      | some ts =>
        ts.length == count &&
        (n < 1 || w < 0 || workers != 1 ||
          Spec.Limiter.seqWireOK (Spec.Limiter.perProbe n w) Spec.Limiter.burst ts)
      | none => false
    pure s!"{obs}\t{b2s v}"
  | _ => none

end Driver
