import SxVerif.Model.Proc
import SxVerif.Spec.Frame
import Driver.Util

namespace Driver
open SxVerif SxVerif.Frame SxVerif.Proc

def parseScan (s : String) : Option Scan :=
  match s.splitOn ":" with
  | ["tcp", name, filt, fl, vpn] =>
    some (.tcp { scanType := name, filter := if filt == "synack" then .synack else .all,
                 flagsFn := if fl == "empty" then .empty else .allFlags, vpn := vpn == "1" })
  | ["icmp", name, vpn] => some (.icmp name (vpn == "1"))
  | ["arp"] => some .arp
  | _ => none

def outStr : Out → String
  | .none => "N"
  | .error => "E"
  | .panic => "P"
  | .record (.tcp n src port fl) => s!"R:tcp:{n}:{hex src}:{port}:{if fl.isEmpty then "-" else fl}"
  | .record (.icmp n src ttl t c) => s!"R:icmp:{n}:{hex src}:{ttl}:{t}:{c}"
  | .record (.arp ip mac) => s!"R:arp:{hex ip}:{hex mac}"

/-- executable form of `Faithful`: the record the Spec allows for this frame, if any -/
def specRecord (scan : Scan) (f : Bytes) : Option Out :=
  match scan with
  | .tcp cfg => (Spec.Frame.tcpChain cfg.vpn f).bind (fun v =>
      if cfg.filter == .synack && !(bit v.flags 0x02 && bit v.flags 0x10) then none
      else some (.record (.tcp cfg.scanType v.src v.sport
        (match cfg.flagsFn with | .allFlags => allFlags v.flags | .empty => ""))))
  | .icmp name vpn => (Spec.Frame.icmpChain vpn f).map (fun v => .record (.icmp name v.src v.ttl v.typ v.code))
  | .arp => (Spec.Frame.arpChain f).map (fun v => .record (.arp v.ip v.mac))

def handleProc : List String → Option String
  | [cfg, framesHex, obs] => do
    let scan ← parseScan cfg
    let frames ← if framesHex == "-" then some [] else (framesHex.splitOn ",").mapM unhex
    let outs := run scan {} frames
    let modelStr := if frames.isEmpty then "-" else "|".intercalate (outs.map outStr)
    let obsL := if obs == "-" then [] else obs.splitOn "|"
    -- C06 on the observed outputs: no panic, and a record only if the Spec allows exactly that record
    let verdict := obsL.length == frames.length &&
      (List.zip frames obsL).all (fun (f, o) =>
        if o == "P" || o == "MULTI" then false
        else if o.startsWith "R:" then (specRecord scan f).map outStr == some o
        else true)
    pure s!"{modelStr}\t{b2s verdict}"
  | _ => none

end Driver
