import SxVerif.Model.ArpCache
import SxVerif.Spec.ArpCache
import Driver.Json

/-!
`arpc <hex line,hex line,…|-> <gw hex12|-> <req,req,…|->  <observed>`
req = `a.b.c.d` | `w:a.b.c.d` (16-byte spelling of the destination) | `e` (an error request)
observed / model = `ERR` | outcomes joined by `,` : `m<hex12>` | `n` (no MAC: error) | `e`
-/
namespace Driver.A
open Driver Driver.J SxVerif SxVerif.Json SxVerif.ArpCache SxVerif.Gen

def hex12 (n : Nat) : String :=
  hex [UInt8.ofNat (n / 2^40), UInt8.ofNat (n / 2^32), UInt8.ofNat (n / 2^24), UInt8.ofNat (n / 2^16), UInt8.ofNat (n / 2^8), UInt8.ofNat n]

def parseReq (s : String) : Option (Option (Nat × Bool)) :=
  if s == "e" then some none else
  let (w, body) := if s.startsWith "w:" then (true, (s.drop 2).toString) else (false, s)
  match (body.splitOn ".").mapM String.toNat? with
  | some [a, b, c, d] => some (some (((a * 256 + b) * 256 + c) * 256 + d, w))
  | _ => none

def showOut (r : Req) : String :=
  match r.err with
  | some .noMAC => "n"
  | some _ => "e"
  | none => match r.dstMAC with | some m => "m" ++ hex12 m | none => "?"

def parseObs (s : String) : Option (Option (List Spec.ArpCache.Outcome)) :=
  if s == "ERR" then some none
  else if s == "-" then some (some [])
  else ((s.splitOn ",").mapM (fun o =>
    if o == "n" then some Spec.ArpCache.Outcome.noMac
    else if o == "e" then some .passErr
    else if o.startsWith "m" then (unhex (o.drop 1).toString).map (fun bs => .mac (macNat bs))
    else none)).map some

def handleArpC : List String → Option String
  | [ls, gw, reqs, obs] => do
    let lines ← (if ls == "-" then some [] else (ls.splitOn ",").mapM (fun h => unhex h >>= bytesToChars))
    let gw ← (if gw == "-" then some none else (unhex gw).map (fun bs => some (macNat bs)))
    let reqs ← (if reqs == "-" then some [] else (reqs.splitOn ",").mapM parseReq)
    let rs : List Req := reqs.map (fun q => match q with
      | none => { err := some .ip }
      | some (a, w) => { dst := some (.v4 a w), port := 80 })
    let m := match fillCache lines with
      | none => "ERR"
      | some c =>
        let outs := cacheStage c gw rs
        if outs.isEmpty then "-" else ",".intercalate (outs.map showOut)
    let v := match parseObs obs with
      | some o => Spec.ArpCache.holds lines gw (reqs.map (·.map (·.1))) o
      | none => false
    pure s!"{m}\t{b2s v}"
  | _ => none

/-- a cache file with IPv6 neighbours among its lines: it loads, and "no address" has no entry (the lookup
    `getGatewayMAC` makes when the interface has no default route) -/
def handleArpNil : List String → Option String
  | [_ls, obs] => pure s!"nilhit=0\t{b2s (obs == "nilhit=0")}"
  | _ => none

end Driver.A
