/- line-protocol helpers for the driver (core-only) -/
namespace Driver

def splitTabs (s : String) : List String := s.splitOn "\t"

def parseNat? (s : String) : Option Nat := s.toNat?

def parseInt? (s : String) : Option Int := s.toInt?

def hexDigit (c : Char) : Option Nat :=
  if '0' ≤ c ∧ c ≤ '9' then some (c.toNat - '0'.toNat)
  else if 'a' ≤ c ∧ c ≤ 'f' then some (c.toNat - 'a'.toNat + 10)
  else if 'A' ≤ c ∧ c ≤ 'F' then some (c.toNat - 'A'.toNat + 10)
  else none

/-- "-" is the empty byte string; otherwise lowercase hex pairs -/
def unhex (s : String) : Option (List UInt8) :=
  if s == "-" then some [] else
  let rec go : List Char → List UInt8 → Option (List UInt8)
    | [], acc => some acc.reverse
    | [_], _ => none
    | a :: b :: rest, acc =>
      match hexDigit a, hexDigit b with
      | some x, some y => go rest (UInt8.ofNat (x * 16 + y) :: acc)
      | _, _ => none
  go s.toList []

def hexNibble (n : Nat) : Char :=
  if n < 10 then Char.ofNat ('0'.toNat + n) else Char.ofNat ('a'.toNat + n - 10)

def hex (bs : List UInt8) : String :=
  if bs.isEmpty then "-" else
  String.ofList (bs.foldr (fun b acc => hexNibble (b.toNat / 16) :: hexNibble (b.toNat % 16) :: acc) [])

def joinWith (sep : String) (l : List String) : String := sep.intercalate l

def natList (l : List Nat) : String := ",".intercalate (l.map toString)

def parseNatList (s : String) : Option (List Nat) :=
  if s.isEmpty then some [] else (s.splitOn ",").mapM (·.toNat?)

def b2s (b : Bool) : String := if b then "1" else "0"

end Driver
