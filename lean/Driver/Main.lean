import Driver.Util
import Driver.Iter
import Driver.Recv
import Driver.Gen
import Driver.Parse
import Driver.Proc
import Driver.Fill
import Driver.Pipe

/-!
Line-protocol driver: one case per input line, `tag \t fields… \t observed`, one answer per line,
`model-output \t spec-verdict` (`1` = the Spec predicate holds of the *observed* output).
-/
open Driver

def dispatch (line : String) : String :=
  match splitTabs line with
  | "iter" :: rest => (handleIter rest).getD "BAD-CASE\t0"
  | "recv" :: rest => (handleRecv rest).getD "BAD-CASE\t0"
  | "gen" :: rest => (handleGen rest).getD "BAD-CASE\t0"
  | "netparse" :: rest => (handleNetParse rest).getD "BAD-CASE\t0"
  | "proc" :: rest => (handleProc rest).getD "BAD-CASE\t0"
  | "fill" :: rest => (handleFill rest).getD "BAD-CASE\t0"
  | "pipe" :: rest => (handlePipe rest).getD "BAD-CASE\t0"
  | "pports" :: rest => (handlePPorts rest).getD "BAD-CASE\t0"
  | "prate" :: rest => (handlePRate rest).getD "BAD-CASE\t0"
  | "ppayload" :: rest => (handlePPayload rest).getD "BAD-CASE\t0"
  | "pipflags" :: rest => (handlePIPFlags rest).getD "BAD-CASE\t0"
  | "ptcpflags" :: rest => (handlePTCPFlags rest).getD "BAD-CASE\t0"
  | "pportsfile" :: rest => (handlePPortsFile rest).getD "BAD-CASE\t0"
  | "pexclfile" :: rest => (handlePExclFile rest).getD "BAD-CASE\t0"
  | _ => "BAD-TAG\t0"

partial def loop (h : IO.FS.Stream) (out : IO.FS.Stream) : IO Unit := do
  let line ← h.getLine
  if line.isEmpty then return ()
  let line := if line.endsWith "\n" then (line.dropEnd 1).toString else line
  out.putStrLn (dispatch line)
  loop h out

def main : IO Unit := do
  let stdin ← IO.getStdin
  let stdout ← IO.getStdout
  loop stdin stdout
