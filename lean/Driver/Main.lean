import Driver.Util
import Driver.Iter
import Driver.Recv
import Driver.Gen
import Driver.Parse
import Driver.Proc
import Driver.Fill
import Driver.Live
import Driver.Json
import Driver.ArpCache
import Driver.Iface
import Driver.Socks
import Driver.Bpf
import Driver.Limiter
import Driver.E2E
import Driver.E2EApp
import Driver.HttpProbe
import Driver.Engine
import Driver.Pipe

/-!
Line-protocol driver: one case per input line, `tag \t fields… \t observed`, one answer per line,
`model-output \t spec-verdict` (`1` = the Spec predicate holds of the *observed* output).
-/
open Driver Driver.J Driver.A

def dispatch (line : String) : String :=
  match splitTabs line with
  | "iter" :: rest => (handleIter rest).getD "BAD-CASE\t0"
  | "itercount" :: rest => (handleIterCount rest).getD "BAD-CASE\t0"
  | "iterpass" :: rest => (handleIterPass rest).getD "BAD-CASE\t0"
  | "iterstep" :: rest => (handleIterStep rest).getD "BAD-CASE\t0"
  | "recvpause" :: rest => (handleRecvPause rest).getD "BAD-CASE\t0"
  | "recv" :: rest => (handleRecv rest).getD "BAD-CASE\t0"
  | "gen" :: rest => (handleGen rest).getD "BAD-CASE\t0"
  | "e2erefuse" :: rest => (handleE2ERefuse rest).getD "BAD-CASE\t0"
  | "netparse" :: rest => (handleNetParse rest).getD "BAD-CASE\t0"
  | "proc" :: rest => (handleProc rest).getD "BAD-CASE\t0"
  | "e2efill" :: rest => (handleE2EFill rest).getD "BAD-CASE\t0"
  | "fill" :: rest => (handleFill rest).getD "BAD-CASE\t0"
  | "livechain" :: rest => (handleLiveChain rest).getD "BAD-CASE\t0"
  | "live" :: rest => (handleLive rest).getD "BAD-CASE\t0"
  | "iface" :: rest => (handleIface rest).getD "BAD-CASE\t0"
  | "bpfr" :: rest => (handleBpfr rest).getD "BAD-CASE\t0"
  | "c03" :: rest => (handleC03 rest).getD "BAD-CASE\t0"
  | "c03e" :: rest => (handleC03e rest).getD "BAD-CASE\t0"
  | "httpprobe" :: rest => (handleHttpProbe rest).getD "BAD-CASE\t0"
  | "pipe" :: rest => (handlePipe rest).getD "BAD-CASE\t0"
  | "pports" :: rest => (handlePPorts rest).getD "BAD-CASE\t0"
  | "prate" :: rest => (handlePRate rest).getD "BAD-CASE\t0"
  | "ppayload" :: rest => (handlePPayload rest).getD "BAD-CASE\t0"
  | "pipflags" :: rest => (handlePIPFlags rest).getD "BAD-CASE\t0"
  | "ptcpflags" :: rest => (handlePTCPFlags rest).getD "BAD-CASE\t0"
  | "pportsfile" :: rest => (handlePPortsFile rest).getD "BAD-CASE\t0"
  | "pportsfault" :: rest => (handlePFault true rest).getD "BAD-CASE\t0"
  | "pexclfault" :: rest => (handlePFault false rest).getD "BAD-CASE\t0"
  | "pexclfile" :: rest => (handlePExclFile rest).getD "BAD-CASE\t0"
  | "jres" :: rest => (handleJRes rest).getD "BAD-CASE\t0"
  | "jplain" :: rest => (handleJPlain rest).getD "BAD-CASE\t0"
  | "juniqbig" :: rest => (handleJUniqBig rest).getD "BAD-CASE\t0"
  | "juniqstall" :: rest => (handleJUniqBig rest).getD "BAD-CASE\t0"
  | "jlog" :: rest => (handleJLog rest).getD "BAD-CASE\t0"
  | "arpnil" :: rest => (handleArpNil rest).getD "BAD-CASE\t0"
  | "arpc" :: rest => (handleArpC rest).getD "BAD-CASE\t0"
  | "socks" :: rest => (handleSocks rest).getD "BAD-CASE\t0"
  | "socksio" :: rest => (handleSocksIO rest).getD "BAD-CASE\t0"
  | "lim" :: rest => (handleLim rest).getD "BAD-CASE\t0"
  | "limconc" :: rest => (handleLimConc rest).getD "BAD-CASE\t0"
  | "limwrap" :: rest => (handleLimWrap rest).getD "BAD-CASE\t0"
  | "limwire" :: rest => (Driver.E2E.handleLimWire rest).getD "BAD-CASE\t0"
  | "e2earp" :: rest => (Driver.E2E.handleE2EArp rest).getD "BAD-CASE\t0"
  | "e2elivesrc" :: rest => (Driver.E2E.handleE2ELiveSrc rest).getD "BAD-CASE\t0"
  | "e2elive" :: rest => (Driver.E2E.handleE2ELive rest).getD "BAD-CASE\t0"
  | "e2eerr" :: rest => (Driver.E2E.handleE2EErr rest).getD "BAD-CASE\t0"
  | "e2earpkill" :: rest => (Driver.E2E.handleE2EArpKill rest).getD "BAD-CASE\t0"
  | "e2esigint" :: rest => (Driver.E2E.handleE2ESigint rest).getD "BAD-CASE\t0"
  | "e2ejson" :: rest => (handleE2EJson rest).getD "BAD-CASE\t0"
  | "e2edelay" :: rest => (Driver.E2E.handleE2EDelay rest).getD "BAD-CASE\t0"
  | "apprec" :: rest => (Driver.E2EApp.handleAppRec rest).getD "BAD-CASE\t0"
  | "apptime" :: rest => (Driver.E2EApp.handleAppTime rest).getD "BAD-CASE\t0"
  | "appdelay" :: rest => (Driver.E2EApp.handleAppDelay rest).getD "BAD-CASE\t0"
  | "limrt" :: rest => (handleLimRT rest).getD "BAD-CASE\t0"
  | "engine" :: rest => (handleEngine rest).getD "BAD-CASE\t0"
  | "exitdelay" :: rest => (handleExitDelay rest).getD "BAD-CASE\t0"
  | "cancel" :: rest => (handleCancel rest).getD "BAD-CASE\t0"
  | _ => "BAD-TAG\t0"

partial def loop (h : IO.FS.Stream) (out : IO.FS.Stream) : IO Unit := do
  let line ← h.getLine
  if line.isEmpty then return ()
  let line := if line.endsWith "\n" then (line.dropEnd 1).toString else line
  out.putStrLn (dispatch line)
  loop h out

def main : IO Unit := do
  let stdin ← IO.getStdin
  let stdout ← IO.getStdout
  loop stdin stdout
