import SxVerif.Model.Live
import SxVerif.Spec.Live
import Driver.Util

/-!
`live` cases: `live \t script \t rescanUs \t cancel \t mode \t observed`.

* script: comma list, one token per delegate call: `3` / `3d5` (three requests, 5 ms apart) / `x` (fails)
* cancel: `i<n>` | `b<n>` | `w<k>` | `f<ms>` (see `Spec.Live.Cancel`)
* observed: `starterr` or `o=<k.i,…>;c=<calls>;cl=<0|1>;s=<µs,…>;e=<µs|-,…>`

The model is a timed nondeterministic process; the environment's part of a run (how long things took) is
taken from the observation: the driver builds the canonical schedule of the case, with `tick`s up to
the observed call / close times, runs the model on it and prints the model's own log in the observed
format.  If the real run did something the model cannot do at those times (a pass started before
`end + rescan`, a further call after a failed one, …) the two strings differ.
-/
namespace Driver
open SxVerif SxVerif.Live

abbrev LItem := Nat × Nat

def parsePassTok (t : String) : Option (Option Nat) :=
  if t == "x" then some none
  else match t.splitOn "d" with
    | n :: _ => (parseNat? n).map some
    | [] => none

def parseScript (s : String) : Option Spec.Live.Script :=
  if s == "-" then some [] else (s.splitOn ",").mapM parsePassTok

def parseCancel (s : String) : Option Spec.Live.Cancel :=
  let rest := (s.drop 1).toString
  match s.toList.head?, parseNat? rest with
  | some 'i', some n => some (.afterItems n)
  | some 'b', some n => some (.blocked n)
  | some 'w', some n => some (.inWait n)
  | some 'f', some n => some (.afterFail n)
  | _, _ => none

def parseOptNatList (s : String) : Option (List (Option Nat)) :=
  if s.isEmpty then some [] else
    (s.splitOn ",").mapM (fun t => if t == "-" then some none else (parseNat? t).map some)

def parseItem (t : String) : Option LItem :=
  match t.splitOn "." with
  | [k, i] => do pure ((← parseNat? k), (← parseNat? i))
  | _ => none

def parseItems (s : String) : Option (List LItem) :=
  if s.isEmpty then some [] else (s.splitOn ",").mapM parseItem

def parseLiveObs (s : String) : Option Spec.Live.Obs :=
  if s == "starterr" then some ⟨true, [], 1, false, [], []⟩ else
  match s.splitOn ";" with
  | [o, c, cl, st, en] => do
    let o ← parseItems (o.drop 2).toString
    let c ← parseNat? (c.drop 2).toString
    let st ← parseNatList (st.drop 2).toString
    let en ← parseOptNatList (en.drop 2).toString
    pure ⟨false, o, c, cl == "cl=1", st, en⟩
  | _ => none

def scriptPasses (sc : Spec.Live.Script) (k : Nat) : Option (List LItem) :=
  (sc.getD k (some 0)).map (fun n => (List.range n).map (fun i => (k, i)))

structure Drv where
  s : State LItem
  sent : Nat := 0
  fin : Bool := false

/-- advance the clock to the observed time `t` (never backwards) -/
def tickTo (t : Nat) (s : State LItem) : Ev := .tick (t - s.clock)

/-- the canonical schedule of a case, executed on the fly.  `fuel` bounds the number of passes. -/
def drive (rescan : Nat) (passes : Nat → Option (List LItem)) (c : Spec.Live.Cancel)
    (starts : List Nat) (ends : List (Option Nat)) : Nat → State LItem → Nat → State LItem
  | 0, s, _ => s
  | fuel + 1, s, sent =>
    let st := step rescan passes
    let k := s.next - 1
    let endT := (ends.getD k none).getD s.clock
    -- finish after a cancel: the delegate gives up the rest of its pass, closes; the generator sees it
    let finish (s : State LItem) : State LItem :=
      let s := (List.range ((s.cur.getD []).length)).foldl (fun s _ => st .drop s) s
      let s := st (tickTo endT s) s
      st (.proc false) (st (.proc false) s)
    match s.cur with
    | none =>
      -- the pass failed to start: the process is parked; only a cancel moves it
      let s := st (.proc false) s
      let s := st .cancel s
      st (.proc false) (st (.proc false) s)
    | some [] =>
      match c with
      | .afterItems n =>
        if sent == n then finish (st .cancel s) else
        let s := st (.proc false) (st (tickTo endT s) s)
        let s := st (.proc false) (st (tickTo (starts.getD (k + 1) s.clock) s) s)
        drive rescan passes c starts ends fuel s sent
      | .inWait kk =>
        let s := st (.proc false) (st (tickTo endT s) s)
        if kk == k + 1 then st (.proc false) (st .cancel s) else
        let s := st (.proc false) (st (tickTo (starts.getD (k + 1) s.clock) s) s)
        drive rescan passes c starts ends fuel s sent
      | _ =>
        let s := st (.proc false) (st (tickTo endT s) s)
        let s := st (.proc false) (st (tickTo (starts.getD (k + 1) s.clock) s) s)
        drive rescan passes c starts ends fuel s sent
    | some (_ :: _) =>
      match c with
      | .afterItems n =>
        if sent == n then finish (st .cancel s) else
        drive rescan passes c starts ends fuel (st (.proc false) (st (.proc false) s)) (sent + 1)
      | .blocked n =>
        if sent == n then
          -- the generator holds the next request, blocked on the consumer; cancel; the ctx case fires
          let s := st (.proc false) s
          let s := st .cancel s
          finish (st (.proc true) s)
        else drive rescan passes c starts ends fuel (st (.proc false) (st (.proc false) s)) (sent + 1)
      | _ => drive rescan passes c starts ends fuel (st (.proc false) (st (.proc false) s)) (sent + 1)

def showItems (l : List LItem) : String := ",".intercalate (l.map (fun (k, i) => s!"{k}.{i}"))

def showLive (s : State LItem) : String :=
  let ks := List.range s.next
  let starts := ks.map (fun k => match startOf s.log k, failOf s.log k with
    | some t, _ => toString t
    | none, some t => toString t
    | none, none => "?")
  let ends := ks.map (fun k => match endOf s.log k with
    | some t => toString t
    | none => "-")
  s!"o={showItems s.out};c={s.next};cl={b2s (closed s)};s={",".intercalate starts};e={",".intercalate ends}"

def handleLive : List String → Option String
  | [script, rescan, cancel, _mode, obs] => do
    let sc ← parseScript script
    let rescan ← parseNat? rescan
    let c ← parseCancel cancel
    let o := parseLiveObs obs
    let passes := scriptPasses sc
    let (starts, ends) := match o with
      | some o => (o.starts, o.ends)
      | none => ([], [])
    let m := match init passes (starts.getD 0 0) with
      | none => "starterr"
      | some s0 =>
        let total := (sc.map (fun (p : Option Nat) => p.getD 0)).foldl (· + ·) 0
        showLive (drive rescan passes c starts ends (2 * total + 2 * sc.length + 8) s0 0)
    let v := match o with
      | some o => Spec.Live.holds sc rescan c o
      | none => false
    pure s!"{m}\t{b2s v}"
  | _ => none

/-- the real arp --live generator chain under a slow consumer: the consumer-side gap between the last request
    of a pass and the first of the next is at least the rescan interval (2 ms tolerance for reading the
    clock on two sides of a channel operation) -/
def handleLiveChain : List String → Option String
  | [_ones, rescanMs, _perReq, _passes, _filter, obs] => do
    let rescan ← rescanMs.toNat?
    let v := match obs.splitOn "=" with
      | ["mingap_us", g] => match g.toInt? with
        | some us => decide (us + 2000 ≥ (rescan : Int) * 1000)
        | none => false
      | _ => false
    pure s!"{obs}\t{if v then "1" else "0"}"
  | _ => none

end Driver
