import SxVerif.Model.RangeIter
