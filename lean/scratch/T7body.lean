
theorem orbit_isOrbit (c : Group) (hc : RowOK c) (r1 r2 : Nat) :
    Orbit c.P (c.G ^ (c.N ^ (r1 + 1) % (c.P - 1)) % c.P)
      (orbit c.P (c.G ^ (c.N ^ (r1 + 1) % (c.P - 1)) % c.P)
        ((c.G ^ (c.N ^ (r1 + 1) % (c.P - 1)) % c.P) ^ (r2 + 1) % c.P)) := by
  have hf := orbit_facts c hc r1 r2
  exact
    { two_le := hc.prime.two_le
      step := fun k => orbit_succ _ _ _ k
      pos := fun k => (hf.1 k).1
      lt := fun k => (hf.1 k).2
      inj := hf.2 }

/-- **permutation**: on a sorted table of certified rows, every size `1 ≤ n < max P` is served and
    the values handed out are a permutation of `1 .. n`. -/
theorem run_perm (tbl : List Group) (htbl : ∀ r ∈ tbl, SxVerif.Pratt.RowOK r)
    (hsorted : List.Pairwise (fun a b : Group => a.P < b.P) tbl) (n r1 r2 : Nat)
    (h1 : 1 ≤ n) (h2 : n < (tbl.map (·.P)).foldl max 0) :
    ∃ l, run tbl (n : Int) r1 r2 = .ok l ∧ l.Perm (List.range' 1 n) := by
  obtain ⟨hlt, hmem, hnP⟩ := selIdx_accept tbl hsorted n h2
  have hc := htbl _ hmem
  have horb := orbit_isOrbit _ hc r1 r2
  rw [run_eq_runTail, newIter_eq tbl n r1 r2 h1 (Nat.ne_of_lt hlt) _ rfl _ rfl (by omega)]
  exact run_core horb n h1 hnP

/-- **rejection**: sizes `≤ 0` or `≥ max P` are refused (no sortedness needed). -/
theorem run_reject (tbl : List Group) (n : Int) (r1 r2 : Nat)
    (h : n ≤ 0 ∨ (((tbl.map (·.P)).foldl max 0 : Nat) : Int) ≤ n) :
    run tbl n r1 r2 = .rangeSizeErr := by
  rw [run_eq_runTail]
  by_cases hn : n ≤ 0
  · simp only [newIter, hn, if_true, runTail]
  · have hmax : (tbl.map (·.P)).foldl max 0 ≤ n.toNat := by
      rcases h with h | h
      · exact absurd h hn
      · omega
    have hidx := selIdx_reject tbl n.toNat hmax
    unfold selIdx at hidx
    simp only [newIter, hn, if_false, hidx, if_true, runTail]

end SxVerif.RangeIter
