import Mathlib.GroupTheory.OrderOfElement
import Mathlib.Data.ZMod.Basic
import Mathlib.Data.Nat.ModEq
import SxVerif.Proofs.Pratt

namespace SxVerif.RangeIter
open SxVerif.Pratt

/-- the orbit `k ↦ x0 * g^k mod P` -/
def orbit (P g x0 k : Nat) : Nat := x0 * g ^ k % P

theorem orbit_zero (P g x0 : Nat) (h : x0 < P) : orbit P g x0 0 = x0 := by
  simp [orbit, Nat.mod_eq_of_lt h]

theorem orbit_succ (P g x0 k : Nat) : orbit P g x0 (k + 1) = orbit P g x0 k * g % P := by
  unfold orbit
  rw [pow_succ, ← mul_assoc, Nat.mod_mul_mod]

theorem coprime_mod_self (a m : Nat) (h : Nat.Coprime a m) : Nat.Coprime m (a % m) := by
  unfold Nat.Coprime at *
  rw [Nat.gcd_comm, ← Nat.gcd_rec, Nat.gcd_comm]; exact h

theorem orbit_facts_aux (p : Nat) [Fact p.Prime] (g r2 : Nat)
    (hord : orderOf (g : ZMod p) = p - 1) :
    (∀ k, 1 ≤ orbit p g (g ^ (r2 + 1) % p) k ∧ orbit p g (g ^ (r2 + 1) % p) k < p) ∧
    (∀ i j, orbit p g (g ^ (r2 + 1) % p) i = orbit p g (g ^ (r2 + 1) % p) j ↔
      i ≡ j [MOD p - 1]) := by
  have hp : p.Prime := Fact.out
  have hP2 : 2 ≤ p := hp.two_le
  have hfin : IsOfFinOrder (g : ZMod p) := by
    rw [← orderOf_pos_iff, hord]; omega
  have hcast : ∀ k, ((orbit p g (g ^ (r2 + 1) % p) k : ℕ) : ZMod p) = (g : ZMod p) ^ (r2 + 1 + k) := by
    intro k
    simp only [orbit, ZMod.natCast_mod, Nat.cast_mul, Nat.cast_pow, pow_add]
  have hγne : ∀ m, (g : ZMod p) ^ m ≠ 0 := fun m => (hfin.isUnit.pow m).ne_zero
  have hlt : ∀ k, orbit p g (g ^ (r2 + 1) % p) k < p := fun k => Nat.mod_lt _ (by omega)
  refine ⟨fun k => ⟨?_, hlt k⟩, fun i j => ?_⟩
  · rcases Nat.eq_zero_or_pos (orbit p g (g ^ (r2 + 1) % p) k) with h0 | h0
    · exfalso
      have := hcast k
      rw [h0, Nat.cast_zero] at this
      exact hγne _ this.symm
    · exact h0
  · rw [← hord, ← (Nat.ModEq.refl (r2 + 1)).add_iff_left, ← hfin.pow_eq_pow_iff_modEq,
      ← hcast, ← hcast]
    constructor
    · intro h; rw [h]
    · intro h
      rw [ZMod.natCast_eq_natCast_iff'] at h
      rwa [Nat.mod_eq_of_lt (hlt i), Nat.mod_eq_of_lt (hlt j)] at h

theorem orbit_facts (c : Group) (hc : RowOK c) (r1 r2 : Nat) :
    let g := c.G ^ (c.N ^ (r1 + 1) % (c.P - 1)) % c.P
    let x0 := g ^ (r2 + 1) % c.P
    (∀ k, 1 ≤ orbit c.P g x0 k ∧ orbit c.P g x0 k < c.P) ∧
    (∀ i j, orbit c.P g x0 i = orbit c.P g x0 j ↔ i ≡ j [MOD c.P - 1]) := by
  intro g x0
  have : Fact c.P.Prime := ⟨hc.prime⟩
  have hcop : Nat.Coprime (c.P - 1) (c.N ^ (r1 + 1) % (c.P - 1)) :=
    coprime_mod_self _ _ (Nat.Coprime.pow_left _ hc.coprime)
  have hgγ : ((g : ℕ) : ZMod c.P) = (c.G : ZMod c.P) ^ (c.N ^ (r1 + 1) % (c.P - 1)) := by
    simp only [g, ZMod.natCast_mod, Nat.cast_pow]
  have hord : orderOf ((g : ℕ) : ZMod c.P) = c.P - 1 := by
    rw [hgγ, Nat.Coprime.orderOf_pow (by rw [hc.gen]; exact hcop), hc.gen]
  exact orbit_facts_aux c.P g r2 hord

end SxVerif.RangeIter
