import Mathlib.GroupTheory.OrderOfElement
import Mathlib.Data.ZMod.Basic
import Mathlib.Data.Nat.ModEq
import SxVerif.Proofs.Pratt
import Mathlib.Data.List.Nodup
import Mathlib.Data.List.Range
import Mathlib.Data.List.GetD
import Mathlib.Data.List.Perm.Subperm

namespace SxVerif.RangeIter
open SxVerif.Pratt

/-- the orbit `k ↦ x0 * g^k mod P` -/
def orbit (P g x0 k : Nat) : Nat := x0 * g ^ k % P

theorem orbit_zero (P g x0 : Nat) (h : x0 < P) : orbit P g x0 0 = x0 := by
  simp [orbit, Nat.mod_eq_of_lt h]

theorem orbit_succ (P g x0 k : Nat) : orbit P g x0 (k + 1) = orbit P g x0 k * g % P := by
  unfold orbit
  rw [pow_succ, ← mul_assoc, Nat.mod_mul_mod]

theorem coprime_mod_self (a m : Nat) (h : Nat.Coprime a m) : Nat.Coprime m (a % m) := by
  unfold Nat.Coprime at *
  rw [Nat.gcd_comm, ← Nat.gcd_rec, Nat.gcd_comm]; exact h

theorem orbit_facts_aux (p : Nat) [Fact p.Prime] (g r2 : Nat)
    (hord : orderOf (g : ZMod p) = p - 1) :
    (∀ k, 1 ≤ orbit p g (g ^ (r2 + 1) % p) k ∧ orbit p g (g ^ (r2 + 1) % p) k < p) ∧
    (∀ i j, orbit p g (g ^ (r2 + 1) % p) i = orbit p g (g ^ (r2 + 1) % p) j ↔
      i ≡ j [MOD p - 1]) := by
  have hp : p.Prime := Fact.out
  have hP2 : 2 ≤ p := hp.two_le
  have hfin : IsOfFinOrder (g : ZMod p) := by
    rw [← orderOf_pos_iff, hord]; omega
  have hcast : ∀ k, ((orbit p g (g ^ (r2 + 1) % p) k : ℕ) : ZMod p) = (g : ZMod p) ^ (r2 + 1 + k) := by
    intro k
    simp only [orbit, ZMod.natCast_mod, Nat.cast_mul, Nat.cast_pow, pow_add]
  have hγne : ∀ m, (g : ZMod p) ^ m ≠ 0 := fun m => (hfin.isUnit.pow m).ne_zero
  have hlt : ∀ k, orbit p g (g ^ (r2 + 1) % p) k < p := fun k => Nat.mod_lt _ (by omega)
  refine ⟨fun k => ⟨?_, hlt k⟩, fun i j => ?_⟩
  · rcases Nat.eq_zero_or_pos (orbit p g (g ^ (r2 + 1) % p) k) with h0 | h0
    · exfalso
      have := hcast k
      rw [h0, Nat.cast_zero] at this
      exact hγne _ this.symm
    · exact h0
  · rw [← hord, ← (Nat.ModEq.refl (r2 + 1)).add_iff_left, ← hfin.pow_eq_pow_iff_modEq,
      ← hcast, ← hcast]
    constructor
    · intro h; rw [h]
    · intro h
      rw [ZMod.natCast_eq_natCast_iff'] at h
      rwa [Nat.mod_eq_of_lt (hlt i), Nat.mod_eq_of_lt (hlt j)] at h

theorem orbit_facts (c : Group) (hc : RowOK c) (r1 r2 : Nat) :
    let g := c.G ^ (c.N ^ (r1 + 1) % (c.P - 1)) % c.P
    let x0 := g ^ (r2 + 1) % c.P
    (∀ k, 1 ≤ orbit c.P g x0 k ∧ orbit c.P g x0 k < c.P) ∧
    (∀ i j, orbit c.P g x0 i = orbit c.P g x0 j ↔ i ≡ j [MOD c.P - 1]) := by
  intro g x0
  have : Fact c.P.Prime := ⟨hc.prime⟩
  have hcop : Nat.Coprime (c.P - 1) (c.N ^ (r1 + 1) % (c.P - 1)) :=
    coprime_mod_self _ _ (Nat.Coprime.pow_left _ hc.coprime)
  have hgγ : ((g : ℕ) : ZMod c.P) = (c.G : ZMod c.P) ^ (c.N ^ (r1 + 1) % (c.P - 1)) := by
    simp only [g, ZMod.natCast_mod, Nat.cast_pow]
  have hord : orderOf ((g : ℕ) : ZMod c.P) = c.P - 1 := by
    rw [hgγ, Nat.Coprime.orderOf_pow (by rw [hc.gen]; exact hcop), hc.gen]
  exact orbit_facts_aux c.P g r2 hord


/-! ### binary search -/

theorem goSearchF_spec (f : Nat → Bool) (N : Nat) :
    ∀ fuel i j, i ≤ j → j - i < fuel → (j < N → f j = true) → (0 < i → f (i - 1) = false) →
      i ≤ goSearchF f fuel i j ∧ goSearchF f fuel i j ≤ j ∧
      (goSearchF f fuel i j < N → f (goSearchF f fuel i j) = true) ∧
      (0 < goSearchF f fuel i j → f (goSearchF f fuel i j - 1) = false) := by
  intro fuel
  induction fuel with
  | zero => intro i j _ h; omega
  | succ fuel ih =>
    intro i j hij hfuel hj hi
    unfold goSearchF
    by_cases hlt : i < j
    · simp only [hlt, if_true]
      have hm1 : i ≤ (i + j) / 2 := by omega
      have hm2 : (i + j) / 2 < j := by omega
      cases hfm : f ((i + j) / 2) with
      | false =>
        simp only [Bool.not_false, if_true]
        have := ih ((i + j) / 2 + 1) j (by omega) (by omega) hj (by intro _; simpa using hfm)
        refine ⟨by omega, this.2.1, this.2.2.1, this.2.2.2⟩
      | true =>
        simp only [Bool.not_true, Bool.false_eq_true, if_false]
        have := ih i ((i + j) / 2) hm1 (by omega) (fun _ => hfm) hi
        refine ⟨this.1, by omega, this.2.2.1, this.2.2.2⟩
    · simp only [hlt, if_false]
      have : i = j := by omega
      subst this
      exact ⟨le_refl _, le_refl _, hj, hi⟩

theorem goSearch_spec (f : Nat → Bool) (n : Nat) :
    goSearch f n ≤ n ∧ (goSearch f n < n → f (goSearch f n) = true) ∧
      (0 < goSearch f n → f (goSearch f n - 1) = false) := by
  have := goSearchF_spec f n (n + 1) 0 n (Nat.zero_le _) (by omega) (by omega) (by omega)
  exact ⟨this.2.1, this.2.2.1, this.2.2.2⟩

/-! ### the table -/

theorem foldl_max_le_iff (l : List Nat) (a b : Nat) :
    l.foldl max a ≤ b ↔ a ≤ b ∧ ∀ x ∈ l, x ≤ b := by
  induction l generalizing a with
  | nil => simp
  | cons x l ih =>
    simp only [List.foldl_cons, ih, List.mem_cons, forall_eq_or_imp, Nat.max_le]
    tauto

theorem le_maxP (tbl : List Group) (r : Group) (hr : r ∈ tbl) :
    r.P ≤ (tbl.map (·.P)).foldl max 0 :=
  ((foldl_max_le_iff _ 0 _).mp (le_refl _)).2 r.P (List.mem_map_of_mem hr)

theorem getD_mem (tbl : List Group) (i : Nat) (h : i < tbl.length) :
    tbl.getD i default ∈ tbl := by
  rw [List.getD_eq_getElem _ _ h]; exact List.getElem_mem h

/-- the index `newIter` selects -/
def selIdx (tbl : List Group) (nn : Nat) : Nat :=
  goSearch (fun i => decide ((tbl.getD i default).P > nn)) tbl.length

theorem selIdx_reject (tbl : List Group) (nn : Nat)
    (h : (tbl.map (·.P)).foldl max 0 ≤ nn) : selIdx tbl nn = tbl.length := by
  have hs := goSearch_spec (fun i => decide ((tbl.getD i default).P > nn)) tbl.length
  rcases Nat.lt_or_ge (selIdx tbl nn) tbl.length with hlt | hge
  · have h1 := hs.2.1 hlt
    simp only [decide_eq_true_eq] at h1
    have h2 := le_maxP tbl _ (getD_mem tbl _ hlt)
    unfold selIdx at *
    omega
  · exact le_antisymm hs.1 hge

theorem selIdx_accept (tbl : List Group)
    (hsorted : List.Pairwise (fun a b : Group => a.P < b.P) tbl) (nn : Nat)
    (h : nn < (tbl.map (·.P)).foldl max 0) :
    selIdx tbl nn < tbl.length ∧ tbl.getD (selIdx tbl nn) default ∈ tbl ∧
      nn < (tbl.getD (selIdx tbl nn) default).P := by
  have hs := goSearch_spec (fun i => decide ((tbl.getD i default).P > nn)) tbl.length
  have hlt : selIdx tbl nn < tbl.length := by
    rcases Nat.lt_or_ge (selIdx tbl nn) tbl.length with hlt | hge
    · exact hlt
    · exfalso
      have heq : selIdx tbl nn = tbl.length := le_antisymm hs.1 hge
      have hpos : 0 < tbl.length := by
        rcases Nat.eq_zero_or_pos tbl.length with h0 | h0
        · rw [List.length_eq_zero_iff] at h0; subst h0; simp at h
        · exact h0
      have h1 := hs.2.2 (by unfold selIdx at heq; omega)
      simp only [decide_eq_false_iff_not, not_lt] at h1
      change (tbl.getD (selIdx tbl nn - 1) default).P ≤ nn at h1
      rw [heq, List.getD_eq_getElem _ _ (by omega)] at h1
      have : (tbl.map (·.P)).foldl max 0 ≤ nn := by
        rw [foldl_max_le_iff]
        refine ⟨Nat.zero_le _, ?_⟩
        intro x hx
        rw [List.mem_map] at hx
        obtain ⟨r, hr, rfl⟩ := hx
        obtain ⟨i, hi, rfl⟩ := List.getElem_of_mem hr
        rcases Nat.lt_or_ge i (tbl.length - 1) with hi' | hi'
        · have := List.pairwise_iff_getElem.mp hsorted i (tbl.length - 1) hi (by omega) hi'
          omega
        · have : i = tbl.length - 1 := by omega
          subst this; exact h1
      omega
  refine ⟨hlt, getD_mem tbl _ hlt, ?_⟩
  have h1 := hs.2.1 hlt
  simp only [decide_eq_true_eq] at h1
  exact h1


/-- abstract facts about the orbit `σ` the iterator walks along (`M = P - 1` is its period) -/
structure Orbit (P g : Nat) (σ : Nat → Nat) : Prop where
  two_le : 2 ≤ P
  step : ∀ k, σ (k + 1) = σ k * g % P
  pos : ∀ k, 1 ≤ σ k
  lt : ∀ k, σ k < P
  inj : ∀ i j, σ i = σ j ↔ i ≡ j [MOD P - 1]

/-- iterator at position `k` whose start position is `k0` -/
def mkIt (P g n : Nat) (σ : Nat → Nat) (k k0 : Nat) (stop : Bool) : It :=
  { P := P, G := g, I := σ k, startI := σ k0, limit := n, stop := stop }

variable {P g : Nat} {σ : Nat → Nat}

theorem Orbit.ne_start (h : Orbit P g σ) {k k0 : Nat} (h1 : k0 < k) (h2 : k < k0 + (P - 1)) :
    σ k ≠ σ k0 := by
  intro he
  rw [h.inj] at he
  have := (Nat.modEq_iff_dvd' (le_of_lt h1)).mp he.symm
  have := Nat.eq_zero_of_dvd_of_lt this (by omega)
  omega

theorem Orbit.period (h : Orbit P g σ) (k : Nat) : σ (k + (P - 1)) = σ k := by
  rw [h.inj]; simp [Nat.ModEq]

theorem Orbit.injOn (h : Orbit P g σ) (s : Nat) {i j : Nat} (hi : s ≤ i) (hi' : i < s + (P - 1))
    (hj : s ≤ j) (hj' : j < s + (P - 1)) (he : σ i = σ j) : i = j := by
  rw [h.inj] at he
  rcases Nat.le_total i j with hij | hij
  · have := (Nat.modEq_iff_dvd' hij).mp he
    have := Nat.eq_zero_of_dvd_of_lt this (by omega)
    omega
  · have := (Nat.modEq_iff_dvd' hij).mp he.symm
    have := Nat.eq_zero_of_dvd_of_lt this (by omega)
    omega

/-- any window of `P - 1` consecutive orbit points is a permutation of `1 .. P-1` -/
theorem Orbit.window_perm (h : Orbit P g σ) (s : Nat) :
    ((List.range' s (P - 1)).map σ).Perm (List.range' 1 (P - 1)) := by
  have hnd : ((List.range' s (P - 1)).map σ).Nodup := by
    apply List.Nodup.map_on _ (List.nodup_range' (step := 1) (by omega))
    intro x hx y hy he
    simp only [List.mem_range'_1] at hx hy
    exact h.injOn s hx.1 hx.2 hy.1 hy.2 he
  have hsub : (List.range' s (P - 1)).map σ ⊆ List.range' 1 (P - 1) := by
    intro x hx
    simp only [List.mem_map] at hx
    obtain ⟨k, _, rfl⟩ := hx
    simp only [List.mem_range'_1]
    have := h.pos k; have := h.lt k
    omega
  exact (List.subperm_of_subset hnd hsub).perm_of_length_le (by simp)

theorem filter_le_range' (n M : Nat) (h : n ≤ M) :
    (List.range' 1 M).filter (· ≤ n) = List.range' 1 n := by
  have : List.range' 1 M = List.range' 1 n ++ List.range' (1 + n) (M - n) := by
    rw [List.range'_append_1]; congr 1; omega
  rw [this, List.filter_append]
  have h1 : (List.range' 1 n).filter (· ≤ n) = List.range' 1 n := by
    rw [List.filter_eq_self]; intro a ha; simp only [List.mem_range'_1] at ha; simp; omega
  have h2 : (List.range' (1 + n) (M - n)).filter (· ≤ n) = [] := by
    rw [List.filter_eq_nil_iff]; intro a ha; simp only [List.mem_range'_1] at ha; simp; omega
  rw [h1, h2, List.append_nil]

/-- the values handed out over a full window are a permutation of `1 .. n` -/
theorem Orbit.window_filter_perm (h : Orbit P g σ) (s n : Nat) (hn : n < P) :
    (((List.range' s (P - 1)).map σ).filter (· ≤ n)).Perm (List.range' 1 n) := by
  have := (h.window_perm s).filter (· ≤ n)
  rwa [filter_le_range' n (P - 1) (by omega)] at this


/-! ### the loops -/

theorem stepLoop_first (h : Orbit P g σ) (n k0 : Nat) :
    ∀ d k fuel, k + d + 1 = k0 + (P - 1) → k0 ≤ k → d + 1 ≤ fuel →
      (∃ j, k < j ∧ j < k0 + (P - 1) ∧ σ j ≤ n ∧
          stepLoop (mkIt P g n σ k k0 false) fuel = some (mkIt P g n σ j k0 false, true)) ∨
        ((∀ i, k < i → i < k0 + (P - 1) → n < σ i) ∧
          stepLoop (mkIt P g n σ k k0 false) fuel =
            some (mkIt P g n σ (k0 + (P - 1)) k0 true, false)) := by
  intro d
  induction d with
  | zero =>
    intro k fuel hk hk0 hfuel
    obtain ⟨fuel, rfl⟩ : ∃ f, fuel = f + 1 := ⟨fuel - 1, by omega⟩
    right
    refine ⟨fun i h1 h2 => by omega, ?_⟩
    have hk' : k + 1 = k0 + (P - 1) := by omega
    have hI : σ k * g % P = σ k0 := by rw [← h.step, hk', h.period]
    simp only [stepLoop, mkIt, hI, if_true, ← hk', h.step]
  | succ d ih =>
    intro k fuel hk hk0 hfuel
    obtain ⟨fuel, rfl⟩ : ∃ f, fuel = f + 1 := ⟨fuel - 1, by omega⟩
    have hne : σ k * g % P ≠ σ k0 := by
      rw [← h.step]; exact h.ne_start (by omega) (by omega)
    by_cases hle : σ (k + 1) ≤ n
    · left
      refine ⟨k + 1, by omega, by omega, hle, ?_⟩
      have hle' : σ k * g % P ≤ n := by rw [← h.step]; exact hle
      simp only [stepLoop, mkIt, hne, if_false, hle', if_true, h.step]
    · have hle' : ¬ σ k * g % P ≤ n := by rw [← h.step]; exact hle
      have hrec : stepLoop (mkIt P g n σ k k0 false) (fuel + 1) =
          stepLoop (mkIt P g n σ (k + 1) k0 false) fuel := by
        simp only [stepLoop, mkIt, hne, if_false, hle', h.step]
      rw [hrec]
      rcases ih (k + 1) fuel (by omega) (by omega) (by omega) with ⟨j, h1, h2, h3, h4⟩ | ⟨h1, h2⟩
      · left; exact ⟨j, by omega, h2, h3, h4⟩
      · right
        refine ⟨fun i hi1 hi2 => ?_, h2⟩
        by_cases he : i = k + 1
        · subst he; omega
        · exact h1 i (by omega) hi2

/-- what `drain` does with the result of one `Next` -/
def cont (P F : Nat) : Option (It × Bool) → Option (List Nat)
  | none => none
  | some (it', true) => (drain P it' F).map (it'.I :: ·)
  | some (_, false) => some []

theorem drain_succ (fuel : Nat) (it : It) (F : Nat) :
    drain fuel it (F + 1) = cont fuel F (it.next fuel) := by
  unfold drain cont
  rcases it.next fuel with _ | ⟨it', _ | _⟩ <;> rfl

theorem cont_stepLoop (h : Orbit P g σ) (n k0 : Nat) :
    ∀ d k fuel F, k + d + 1 = k0 + (P - 1) → k0 ≤ k → d + 1 ≤ fuel →
      (((List.range' (k + 1) d).map σ).filter (· ≤ n)).length < F →
      cont P F (stepLoop (mkIt P g n σ k k0 false) fuel) =
        some (((List.range' (k + 1) d).map σ).filter (· ≤ n)) := by
  intro d
  induction d with
  | zero =>
    intro k fuel F hk hk0 hfuel _
    obtain ⟨fuel, rfl⟩ : ∃ f, fuel = f + 1 := ⟨fuel - 1, by omega⟩
    have hk' : k + 1 = k0 + (P - 1) := by omega
    have hI : σ k * g % P = σ k0 := by rw [← h.step, hk', h.period]
    simp only [stepLoop, mkIt, hI, if_true, cont, List.range'_zero, List.map_nil, List.filter_nil]
  | succ d ih =>
    intro k fuel F hk hk0 hfuel hF
    obtain ⟨fuel, rfl⟩ : ∃ f, fuel = f + 1 := ⟨fuel - 1, by omega⟩
    have hne : σ k * g % P ≠ σ k0 := by
      rw [← h.step]; exact h.ne_start (by omega) (by omega)
    rw [List.range'_succ, List.map_cons] at hF ⊢
    by_cases hle : σ (k + 1) ≤ n
    · have hle' : σ k * g % P ≤ n := by rw [← h.step]; exact hle
      rw [List.filter_cons_of_pos (by simpa using hle)] at hF ⊢
      rw [List.length_cons] at hF
      obtain ⟨F, rfl⟩ : ∃ f, F = f + 1 := ⟨F - 1, by omega⟩
      have hstep : stepLoop (mkIt P g n σ k k0 false) (fuel + 1) =
          some (mkIt P g n σ (k + 1) k0 false, true) := by
        simp only [stepLoop, mkIt, hne, if_false, hle', if_true, h.step]
      rw [hstep]
      simp only [cont]
      rw [drain_succ]
      have hnext : (mkIt P g n σ (k + 1) k0 false).next P =
          stepLoop (mkIt P g n σ (k + 1) k0 false) P := by
        simp [It.next, mkIt]
      rw [hnext, ih (k + 1) P F (by omega) (by omega) (by omega) (by omega)]
      simp [mkIt]
    · have hle' : ¬ σ k * g % P ≤ n := by rw [← h.step]; exact hle
      rw [List.filter_cons_of_neg (by simpa using hle)] at hF ⊢
      have hrec : stepLoop (mkIt P g n σ k k0 false) (fuel + 1) =
          stepLoop (mkIt P g n σ (k + 1) k0 false) fuel := by
        simp only [stepLoop, mkIt, hne, if_false, hle', h.step]
      rw [hrec]
      exact ih (k + 1) fuel F (by omega) (by omega) (by omega) hF

theorem drain_window (h : Orbit P g σ) (n k F : Nat)
    (hF : (((List.range' (k + 1) (P - 2)).map σ).filter (· ≤ n)).length < F) :
    drain P (mkIt P g n σ k k false) (F + 1) =
      some (((List.range' (k + 1) (P - 2)).map σ).filter (· ≤ n)) := by
  have := h.two_le
  rw [drain_succ]
  have hnext : (mkIt P g n σ k k false).next P = stepLoop (mkIt P g n σ k k false) P := by
    simp [It.next, mkIt]
  rw [hnext]
  exact cont_stepLoop h n k (P - 2) k P F (by omega) (le_refl _) (by omega) hF


/-! ### `newIter` and `run`, given an orbit -/

/-- the tail of `newIter` after the first `Next` -/
def finish (nn : Nat) : Option (It × Bool) → NewResult
  | none => .diverge
  | some (it', found) =>
    if !found && nn > 1 then .invalidGroupErr else .ok { it' with startI := it'.I }

/-- `run` after `newIter` -/
def runTail : NewResult → Outcome
  | .rangeSizeErr => .rangeSizeErr
  | .invalidGroupErr => .invalidGroupErr
  | .diverge => .diverge
  | .ok it =>
    match drain it.P it (it.limit + 1) with
    | none => .diverge
    | some l => .ok (it.I :: l)

theorem run_eq_runTail (tbl : List Group) (n : Int) (r1 r2 : Nat) :
    run tbl n r1 r2 = runTail (newIter tbl n r1 r2) := by
  unfold run runTail
  rcases newIter tbl n r1 r2 with _ | _ | _ | _ <;> rfl

theorem run_core (h : Orbit P g σ) (n : Nat) (hn1 : 1 ≤ n) (hn : n < P) :
    ∃ l, runTail (finish n (stepLoop (mkIt P g n σ 0 0 false) P)) = .ok l ∧
      l.Perm (List.range' 1 n) := by
  have hP := h.two_le
  have hsplit : ∀ s, List.range' s (P - 1) = s :: List.range' (s + 1) (P - 2) := by
    intro s
    have : P - 1 = (P - 2) + 1 := by omega
    rw [this, List.range'_succ]
  rcases stepLoop_first h n 0 (P - 2) 0 P (by omega) (le_refl _) (by omega) with
    ⟨j, _, _, hjn, hst⟩ | ⟨hall, hst⟩
  · have hperm := h.window_filter_perm j n hn
    rw [hsplit j, List.map_cons, List.filter_cons_of_pos (by simpa using hjn)] at hperm
    have hlen := hperm.length_eq
    rw [List.length_cons, List.length_range'] at hlen
    have hdr := drain_window h n j n (by omega)
    refine ⟨_, ?_, hperm⟩
    rw [hst]
    simp only [finish, runTail, mkIt, Bool.not_true, Bool.false_and, Bool.false_eq_true, if_false]
    simp only [mkIt] at hdr
    rw [hdr]
  · have hperm := h.window_filter_perm 0 n hn
    have hnil : ((List.range' (0 + 1) (P - 2)).map σ).filter (· ≤ n) = [] := by
      rw [List.filter_eq_nil_iff]
      intro a ha
      simp only [List.mem_map, List.mem_range'_1] at ha
      obtain ⟨i, ⟨hi1, hi2⟩, rfl⟩ := ha
      have := hall i (by omega) (by omega)
      simp; omega
    rw [hsplit 0, List.map_cons] at hperm
    by_cases h0 : σ 0 ≤ n
    · rw [List.filter_cons_of_pos (by simpa using h0), hnil] at hperm
      have hlen := hperm.length_eq
      rw [List.length_range'] at hlen
      have hn' : n = 1 := by simpa using hlen.symm
      subst hn'
      have hσ0 : σ 0 = 1 := by
        have := h.pos 0
        omega
      have hσM : σ (0 + (P - 1)) = 1 := by rw [h.period, hσ0]
      refine ⟨[1], ?_, List.Perm.refl _⟩
      rw [hst]
      simp only [finish, runTail, mkIt, hσM, drain, It.next]
      simp
    · exfalso
      rw [List.filter_cons_of_neg (by simpa using h0), hnil] at hperm
      have hlen := hperm.length_eq
      rw [List.length_range'] at hlen
      simp at hlen
      omega


/-! ### the two theorems -/

theorem newIter_eq (tbl : List Group) (n r1 r2 : Nat) (hn : 1 ≤ n)
    (hidx : selIdx tbl n ≠ tbl.length) (c : Group) (hc : c = tbl.getD (selIdx tbl n) default)
    (g : Nat) (hg : g = c.G ^ (c.N ^ (r1 + 1) % (c.P - 1)) % c.P) (hP : 0 < c.P) :
    newIter tbl (n : Int) r1 r2 =
      finish n (stepLoop (mkIt c.P g n (orbit c.P g (g ^ (r2 + 1) % c.P)) 0 0 false) c.P) := by
  have hn' : ¬ ((n : Int) ≤ 0) := by omega
  have h0 : orbit c.P g (g ^ (r2 + 1) % c.P) 0 = g ^ (r2 + 1) % c.P :=
    orbit_zero _ _ _ (Nat.mod_lt _ hP)
  unfold selIdx at hidx hc
  subst hc hg
  unfold newIter
  simp only [hn', if_false, Int.toNat_natCast, hidx, powMod_eq, It.next, Bool.false_eq_true,
    mkIt, h0]
  rfl


theorem orbit_isOrbit (c : Group) (hc : RowOK c) (r1 r2 : Nat) :
    Orbit c.P (c.G ^ (c.N ^ (r1 + 1) % (c.P - 1)) % c.P)
      (orbit c.P (c.G ^ (c.N ^ (r1 + 1) % (c.P - 1)) % c.P)
        ((c.G ^ (c.N ^ (r1 + 1) % (c.P - 1)) % c.P) ^ (r2 + 1) % c.P)) := by
  have hf := orbit_facts c hc r1 r2
  exact
    { two_le := hc.prime.two_le
      step := fun k => orbit_succ _ _ _ k
      pos := fun k => (hf.1 k).1
      lt := fun k => (hf.1 k).2
      inj := hf.2 }

/-- **permutation**: on a sorted table of certified rows, every size `1 ≤ n < max P` is served and
    the values handed out are a permutation of `1 .. n`. -/
theorem run_perm (tbl : List Group) (htbl : ∀ r ∈ tbl, SxVerif.Pratt.RowOK r)
    (hsorted : List.Pairwise (fun a b : Group => a.P < b.P) tbl) (n r1 r2 : Nat)
    (h1 : 1 ≤ n) (h2 : n < (tbl.map (·.P)).foldl max 0) :
    ∃ l, run tbl (n : Int) r1 r2 = .ok l ∧ l.Perm (List.range' 1 n) := by
  obtain ⟨hlt, hmem, hnP⟩ := selIdx_accept tbl hsorted n h2
  have hc := htbl _ hmem
  have horb := orbit_isOrbit _ hc r1 r2
  rw [run_eq_runTail, newIter_eq tbl n r1 r2 h1 (Nat.ne_of_lt hlt) _ rfl _ rfl (by omega)]
  exact run_core horb n h1 hnP

/-- **rejection**: sizes `≤ 0` or `≥ max P` are refused (no sortedness needed). -/
theorem run_reject (tbl : List Group) (n : Int) (r1 r2 : Nat)
    (h : n ≤ 0 ∨ (((tbl.map (·.P)).foldl max 0 : Nat) : Int) ≤ n) :
    run tbl n r1 r2 = .rangeSizeErr := by
  rw [run_eq_runTail]
  by_cases hn : n ≤ 0
  · simp only [newIter, hn, if_true, runTail]
  · have hmax : (tbl.map (·.P)).foldl max 0 ≤ n.toNat := by
      rcases h with h | h
      · exact absurd h hn
      · omega
    have hidx := selIdx_reject tbl n.toNat hmax
    unfold selIdx at hidx
    simp only [newIter, hn, if_false, hidx, if_true, runTail]

end SxVerif.RangeIter
