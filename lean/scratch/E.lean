import SxVerif.Generated.CyclicGroups
open SxVerif.RangeIter SxVerif.Generated
#eval run cyclicGroups 10 123456789 987654321
#eval run cyclicGroups 5 7 11
