import Mathlib.Data.Nat.ModEq
import Mathlib.Data.List.Nodup
import Mathlib.Data.List.Range
import Mathlib.Data.List.Perm.Subperm
import SxVerif.Model.RangeIter

namespace SxVerif.RangeIter

/-- abstract facts about the orbit `σ` the iterator walks along (`M = P - 1` is its period) -/
structure Orbit (P g : Nat) (σ : Nat → Nat) : Prop where
  two_le : 2 ≤ P
  step : ∀ k, σ (k + 1) = σ k * g % P
  pos : ∀ k, 1 ≤ σ k
  lt : ∀ k, σ k < P
  inj : ∀ i j, σ i = σ j ↔ i ≡ j [MOD P - 1]

/-- iterator at position `k` whose start position is `k0` -/
def mkIt (P g n : Nat) (σ : Nat → Nat) (k k0 : Nat) (stop : Bool) : It :=
  { P := P, G := g, I := σ k, startI := σ k0, limit := n, stop := stop }

variable {P g : Nat} {σ : Nat → Nat}

theorem Orbit.ne_start (h : Orbit P g σ) {k k0 : Nat} (h1 : k0 < k) (h2 : k < k0 + (P - 1)) :
    σ k ≠ σ k0 := by
  intro he
  rw [h.inj] at he
  have := (Nat.modEq_iff_dvd' (le_of_lt h1)).mp he.symm
  have := Nat.eq_zero_of_dvd_of_lt this (by omega)
  omega

theorem Orbit.period (h : Orbit P g σ) (k : Nat) : σ (k + (P - 1)) = σ k := by
  rw [h.inj]; simp [Nat.ModEq]

theorem Orbit.injOn (h : Orbit P g σ) (s : Nat) {i j : Nat} (hi : s ≤ i) (hi' : i < s + (P - 1))
    (hj : s ≤ j) (hj' : j < s + (P - 1)) (he : σ i = σ j) : i = j := by
  rw [h.inj] at he
  rcases Nat.le_total i j with hij | hij
  · have := (Nat.modEq_iff_dvd' hij).mp he
    have := Nat.eq_zero_of_dvd_of_lt this (by omega)
    omega
  · have := (Nat.modEq_iff_dvd' hij).mp he.symm
    have := Nat.eq_zero_of_dvd_of_lt this (by omega)
    omega

/-- any window of `P - 1` consecutive orbit points is a permutation of `1 .. P-1` -/
theorem Orbit.window_perm (h : Orbit P g σ) (s : Nat) :
    ((List.range' s (P - 1)).map σ).Perm (List.range' 1 (P - 1)) := by
  have hnd : ((List.range' s (P - 1)).map σ).Nodup := by
    apply List.Nodup.map_on _ (List.nodup_range' (step := 1) (by omega))
    intro x hx y hy he
    simp only [List.mem_range'_1] at hx hy
    exact h.injOn s hx.1 hx.2 hy.1 hy.2 he
  have hsub : (List.range' s (P - 1)).map σ ⊆ List.range' 1 (P - 1) := by
    intro x hx
    simp only [List.mem_map] at hx
    obtain ⟨k, _, rfl⟩ := hx
    simp only [List.mem_range'_1]
    have := h.pos k; have := h.lt k
    omega
  exact (List.subperm_of_subset hnd hsub).perm_of_length_le (by simp)

theorem filter_le_range' (n M : Nat) (h : n ≤ M) :
    (List.range' 1 M).filter (· ≤ n) = List.range' 1 n := by
  have : List.range' 1 M = List.range' 1 n ++ List.range' (1 + n) (M - n) := by
    rw [List.range'_append_1]; congr 1; omega
  rw [this, List.filter_append]
  have h1 : (List.range' 1 n).filter (· ≤ n) = List.range' 1 n := by
    rw [List.filter_eq_self]; intro a ha; simp only [List.mem_range'_1] at ha; simp; omega
  have h2 : (List.range' (1 + n) (M - n)).filter (· ≤ n) = [] := by
    rw [List.filter_eq_nil_iff]; intro a ha; simp only [List.mem_range'_1] at ha; simp; omega
  rw [h1, h2, List.append_nil]

/-- the values handed out over a full window are a permutation of `1 .. n` -/
theorem Orbit.window_filter_perm (h : Orbit P g σ) (s n : Nat) (hn : n < P) :
    (((List.range' s (P - 1)).map σ).filter (· ≤ n)).Perm (List.range' 1 n) := by
  have := (h.window_perm s).filter (· ≤ n)
  rwa [filter_le_range' n (P - 1) (by omega)] at this

end SxVerif.RangeIter
