
/-! ### `newIter` and `run`, given an orbit -/

/-- the tail of `newIter` after the first `Next` -/
def finish (nn : Nat) : Option (It × Bool) → NewResult
  | none => .diverge
  | some (it', found) =>
    if !found && nn > 1 then .invalidGroupErr else .ok { it' with startI := it'.I }

/-- `run` after `newIter` -/
def runTail : NewResult → Outcome
  | .rangeSizeErr => .rangeSizeErr
  | .invalidGroupErr => .invalidGroupErr
  | .diverge => .diverge
  | .ok it =>
    match drain it.P it (it.limit + 1) with
    | none => .diverge
    | some l => .ok (it.I :: l)

theorem run_eq_runTail (tbl : List Group) (n : Int) (r1 r2 : Nat) :
    run tbl n r1 r2 = runTail (newIter tbl n r1 r2) := by
  unfold run runTail
  rcases newIter tbl n r1 r2 with _ | _ | _ | _ <;> rfl

theorem run_core (h : Orbit P g σ) (n : Nat) (hn1 : 1 ≤ n) (hn : n < P) :
    ∃ l, runTail (finish n (stepLoop (mkIt P g n σ 0 0 false) P)) = .ok l ∧
      l.Perm (List.range' 1 n) := by
  have hP := h.two_le
  have hsplit : ∀ s, List.range' s (P - 1) = s :: List.range' (s + 1) (P - 2) := by
    intro s
    have : P - 1 = (P - 2) + 1 := by omega
    rw [this, List.range'_succ]
  rcases stepLoop_first h n 0 (P - 2) 0 P (by omega) (le_refl _) (by omega) with
    ⟨j, _, _, hjn, hst⟩ | ⟨hall, hst⟩
  · have hperm := h.window_filter_perm j n hn
    rw [hsplit j, List.map_cons, List.filter_cons_of_pos (by simpa using hjn)] at hperm
    have hlen := hperm.length_eq
    rw [List.length_cons, List.length_range'] at hlen
    have hdr := drain_window h n j n (by omega)
    refine ⟨_, ?_, hperm⟩
    rw [hst]
    simp only [finish, runTail, mkIt, Bool.not_true, Bool.false_and, Bool.false_eq_true, if_false]
    simp only [mkIt] at hdr
    rw [hdr]
  · have hperm := h.window_filter_perm 0 n hn
    have hnil : ((List.range' (0 + 1) (P - 2)).map σ).filter (· ≤ n) = [] := by
      rw [List.filter_eq_nil_iff]
      intro a ha
      simp only [List.mem_map, List.mem_range'_1] at ha
      obtain ⟨i, ⟨hi1, hi2⟩, rfl⟩ := ha
      have := hall i (by omega) (by omega)
      simp; omega
    rw [hsplit 0, List.map_cons] at hperm
    by_cases h0 : σ 0 ≤ n
    · rw [List.filter_cons_of_pos (by simpa using h0), hnil] at hperm
      have hlen := hperm.length_eq
      rw [List.length_range'] at hlen
      have hn' : n = 1 := by simpa using hlen.symm
      subst hn'
      have hσ0 : σ 0 = 1 := by
        have := h.pos 0
        omega
      have hσM : σ (0 + (P - 1)) = 1 := by rw [h.period, hσ0]
      refine ⟨[1], ?_, List.Perm.refl _⟩
      rw [hst]
      simp only [finish, runTail, mkIt, hσM, drain, It.next]
      simp
    · exfalso
      rw [List.filter_cons_of_neg (by simpa using h0), hnil] at hperm
      have hlen := hperm.length_eq
      rw [List.length_range'] at hlen
      simp at hlen
      omega

end SxVerif.RangeIter
