import Mathlib.Data.Nat.ModEq
import Mathlib.Data.List.Nodup
import Mathlib.Data.List.Range
import Mathlib.Data.List.Perm.Subperm
import SxVerif.Model.RangeIter

namespace SxVerif.RangeIter

/-- abstract facts about the orbit `σ` the iterator walks along (`M = P - 1` is its period) -/
structure Orbit (P g : Nat) (σ : Nat → Nat) : Prop where
  two_le : 2 ≤ P
  step : ∀ k, σ (k + 1) = σ k * g % P
  pos : ∀ k, 1 ≤ σ k
  lt : ∀ k, σ k < P
  inj : ∀ i j, σ i = σ j ↔ i ≡ j [MOD P - 1]

/-- iterator at position `k` whose start position is `k0` -/
def mkIt (P g n : Nat) (σ : Nat → Nat) (k k0 : Nat) (stop : Bool) : It :=
  { P := P, G := g, I := σ k, startI := σ k0, limit := n, stop := stop }

variable {P g : Nat} {σ : Nat → Nat}

theorem Orbit.ne_start (h : Orbit P g σ) {k k0 : Nat} (h1 : k0 < k) (h2 : k < k0 + (P - 1)) :
    σ k ≠ σ k0 := by
  intro he
  rw [h.inj] at he
  have := (Nat.modEq_iff_dvd' (le_of_lt h1)).mp he.symm
  have := Nat.eq_zero_of_dvd_of_lt this (by omega)
  omega

theorem Orbit.period (h : Orbit P g σ) (k : Nat) : σ (k + (P - 1)) = σ k := by
  rw [h.inj]; simp [Nat.ModEq]

theorem Orbit.injOn (h : Orbit P g σ) (s : Nat) {i j : Nat} (hi : s ≤ i) (hi' : i < s + (P - 1))
    (hj : s ≤ j) (hj' : j < s + (P - 1)) (he : σ i = σ j) : i = j := by
  rw [h.inj] at he
  rcases Nat.le_total i j with hij | hij
  · have := (Nat.modEq_iff_dvd' hij).mp he
    have := Nat.eq_zero_of_dvd_of_lt this (by omega)
    omega
  · have := (Nat.modEq_iff_dvd' hij).mp he.symm
    have := Nat.eq_zero_of_dvd_of_lt this (by omega)
    omega

/-- any window of `P - 1` consecutive orbit points is a permutation of `1 .. P-1` -/
theorem Orbit.window_perm (h : Orbit P g σ) (s : Nat) :
    ((List.range' s (P - 1)).map σ).Perm (List.range' 1 (P - 1)) := by
  have hnd : ((List.range' s (P - 1)).map σ).Nodup := by
    apply List.Nodup.map_on _ (List.nodup_range' (step := 1) (by omega))
    intro x hx y hy he
    simp only [List.mem_range'_1] at hx hy
    exact h.injOn s hx.1 hx.2 hy.1 hy.2 he
  have hsub : (List.range' s (P - 1)).map σ ⊆ List.range' 1 (P - 1) := by
    intro x hx
    simp only [List.mem_map] at hx
    obtain ⟨k, _, rfl⟩ := hx
    simp only [List.mem_range'_1]
    have := h.pos k; have := h.lt k
    omega
  exact (List.subperm_of_subset hnd hsub).perm_of_length_le (by simp)

theorem filter_le_range' (n M : Nat) (h : n ≤ M) :
    (List.range' 1 M).filter (· ≤ n) = List.range' 1 n := by
  have : List.range' 1 M = List.range' 1 n ++ List.range' (1 + n) (M - n) := by
    rw [List.range'_append_1]; congr 1; omega
  rw [this, List.filter_append]
  have h1 : (List.range' 1 n).filter (· ≤ n) = List.range' 1 n := by
    rw [List.filter_eq_self]; intro a ha; simp only [List.mem_range'_1] at ha; simp; omega
  have h2 : (List.range' (1 + n) (M - n)).filter (· ≤ n) = [] := by
    rw [List.filter_eq_nil_iff]; intro a ha; simp only [List.mem_range'_1] at ha; simp; omega
  rw [h1, h2, List.append_nil]

/-- the values handed out over a full window are a permutation of `1 .. n` -/
theorem Orbit.window_filter_perm (h : Orbit P g σ) (s n : Nat) (hn : n < P) :
    (((List.range' s (P - 1)).map σ).filter (· ≤ n)).Perm (List.range' 1 n) := by
  have := (h.window_perm s).filter (· ≤ n)
  rwa [filter_le_range' n (P - 1) (by omega)] at this


/-! ### the loops -/

theorem stepLoop_first (h : Orbit P g σ) (n k0 : Nat) :
    ∀ d k fuel, k + d + 1 = k0 + (P - 1) → k0 ≤ k → d + 1 ≤ fuel →
      (∃ j, k < j ∧ j < k0 + (P - 1) ∧ σ j ≤ n ∧
          stepLoop (mkIt P g n σ k k0 false) fuel = some (mkIt P g n σ j k0 false, true)) ∨
        ((∀ i, k < i → i < k0 + (P - 1) → n < σ i) ∧
          stepLoop (mkIt P g n σ k k0 false) fuel =
            some (mkIt P g n σ (k0 + (P - 1)) k0 true, false)) := by
  intro d
  induction d with
  | zero =>
    intro k fuel hk hk0 hfuel
    obtain ⟨fuel, rfl⟩ : ∃ f, fuel = f + 1 := ⟨fuel - 1, by omega⟩
    right
    refine ⟨fun i h1 h2 => by omega, ?_⟩
    have hk' : k + 1 = k0 + (P - 1) := by omega
    have hI : σ k * g % P = σ k0 := by rw [← h.step, hk', h.period]
    simp only [stepLoop, mkIt, hI, if_true, ← hk', h.step]
  | succ d ih =>
    intro k fuel hk hk0 hfuel
    obtain ⟨fuel, rfl⟩ : ∃ f, fuel = f + 1 := ⟨fuel - 1, by omega⟩
    have hne : σ k * g % P ≠ σ k0 := by
      rw [← h.step]; exact h.ne_start (by omega) (by omega)
    by_cases hle : σ (k + 1) ≤ n
    · left
      refine ⟨k + 1, by omega, by omega, hle, ?_⟩
      have hle' : σ k * g % P ≤ n := by rw [← h.step]; exact hle
      simp only [stepLoop, mkIt, hne, if_false, hle', if_true, h.step]
    · have hle' : ¬ σ k * g % P ≤ n := by rw [← h.step]; exact hle
      have hrec : stepLoop (mkIt P g n σ k k0 false) (fuel + 1) =
          stepLoop (mkIt P g n σ (k + 1) k0 false) fuel := by
        simp only [stepLoop, mkIt, hne, if_false, hle', h.step]
      rw [hrec]
      rcases ih (k + 1) fuel (by omega) (by omega) (by omega) with ⟨j, h1, h2, h3, h4⟩ | ⟨h1, h2⟩
      · left; exact ⟨j, by omega, h2, h3, h4⟩
      · right
        refine ⟨fun i hi1 hi2 => ?_, h2⟩
        by_cases he : i = k + 1
        · subst he; omega
        · exact h1 i (by omega) hi2

/-- what `drain` does with the result of one `Next` -/
def cont (P F : Nat) : Option (It × Bool) → Option (List Nat)
  | none => none
  | some (it', true) => (drain P it' F).map (it'.I :: ·)
  | some (_, false) => some []

theorem drain_succ (fuel : Nat) (it : It) (F : Nat) :
    drain fuel it (F + 1) = cont fuel F (it.next fuel) := by
  unfold drain cont
  rcases it.next fuel with _ | ⟨it', _ | _⟩ <;> rfl

theorem cont_stepLoop (h : Orbit P g σ) (n k0 : Nat) :
    ∀ d k fuel F, k + d + 1 = k0 + (P - 1) → k0 ≤ k → d + 1 ≤ fuel →
      (((List.range' (k + 1) d).map σ).filter (· ≤ n)).length < F →
      cont P F (stepLoop (mkIt P g n σ k k0 false) fuel) =
        some (((List.range' (k + 1) d).map σ).filter (· ≤ n)) := by
  intro d
  induction d with
  | zero =>
    intro k fuel F hk hk0 hfuel _
    obtain ⟨fuel, rfl⟩ : ∃ f, fuel = f + 1 := ⟨fuel - 1, by omega⟩
    have hk' : k + 1 = k0 + (P - 1) := by omega
    have hI : σ k * g % P = σ k0 := by rw [← h.step, hk', h.period]
    simp only [stepLoop, mkIt, hI, if_true, cont, List.range'_zero, List.map_nil, List.filter_nil]
  | succ d ih =>
    intro k fuel F hk hk0 hfuel hF
    obtain ⟨fuel, rfl⟩ : ∃ f, fuel = f + 1 := ⟨fuel - 1, by omega⟩
    have hne : σ k * g % P ≠ σ k0 := by
      rw [← h.step]; exact h.ne_start (by omega) (by omega)
    rw [List.range'_succ, List.map_cons] at hF ⊢
    by_cases hle : σ (k + 1) ≤ n
    · have hle' : σ k * g % P ≤ n := by rw [← h.step]; exact hle
      rw [List.filter_cons_of_pos (by simpa using hle)] at hF ⊢
      rw [List.length_cons] at hF
      obtain ⟨F, rfl⟩ : ∃ f, F = f + 1 := ⟨F - 1, by omega⟩
      have hstep : stepLoop (mkIt P g n σ k k0 false) (fuel + 1) =
          some (mkIt P g n σ (k + 1) k0 false, true) := by
        simp only [stepLoop, mkIt, hne, if_false, hle', if_true, h.step]
      rw [hstep]
      simp only [cont]
      rw [drain_succ]
      have hnext : (mkIt P g n σ (k + 1) k0 false).next P =
          stepLoop (mkIt P g n σ (k + 1) k0 false) P := by
        simp [It.next, mkIt]
      rw [hnext, ih (k + 1) P F (by omega) (by omega) (by omega) (by omega)]
      simp [mkIt]
    · have hle' : ¬ σ k * g % P ≤ n := by rw [← h.step]; exact hle
      rw [List.filter_cons_of_neg (by simpa using hle)] at hF ⊢
      have hrec : stepLoop (mkIt P g n σ k k0 false) (fuel + 1) =
          stepLoop (mkIt P g n σ (k + 1) k0 false) fuel := by
        simp only [stepLoop, mkIt, hne, if_false, hle', h.step]
      rw [hrec]
      exact ih (k + 1) fuel F (by omega) (by omega) (by omega) hF

theorem drain_window (h : Orbit P g σ) (n k F : Nat)
    (hF : (((List.range' (k + 1) (P - 2)).map σ).filter (· ≤ n)).length < F) :
    drain P (mkIt P g n σ k k false) (F + 1) =
      some (((List.range' (k + 1) (P - 2)).map σ).filter (· ≤ n)) := by
  have := h.two_le
  rw [drain_succ]
  have hnext : (mkIt P g n σ k k false).next P = stepLoop (mkIt P g n σ k k false) P := by
    simp [It.next, mkIt]
  rw [hnext]
  exact cont_stepLoop h n k (P - 2) k P F (by omega) (le_refl _) (by omega) hF


/-! ### `newIter` and `run`, given an orbit -/

/-- the tail of `newIter` after the first `Next` -/
def finish (nn : Nat) : Option (It × Bool) → NewResult
  | none => .diverge
  | some (it', found) =>
    if !found && nn > 1 then .invalidGroupErr else .ok { it' with startI := it'.I }

/-- `run` after `newIter` -/
def runTail : NewResult → Outcome
  | .rangeSizeErr => .rangeSizeErr
  | .invalidGroupErr => .invalidGroupErr
  | .diverge => .diverge
  | .ok it =>
    match drain it.P it (it.limit + 1) with
    | none => .diverge
    | some l => .ok (it.I :: l)

theorem run_eq_runTail (tbl : List Group) (n : Int) (r1 r2 : Nat) :
    run tbl n r1 r2 = runTail (newIter tbl n r1 r2) := by
  unfold run runTail
  rcases newIter tbl n r1 r2 with _ | _ | _ | _ <;> rfl

theorem run_core (h : Orbit P g σ) (n : Nat) (hn1 : 1 ≤ n) (hn : n < P) :
    ∃ l, runTail (finish n (stepLoop (mkIt P g n σ 0 0 false) P)) = .ok l ∧
      l.Perm (List.range' 1 n) := by
  have hP := h.two_le
  have hsplit : ∀ s, List.range' s (P - 1) = s :: List.range' (s + 1) (P - 2) := by
    intro s
    have : P - 1 = (P - 2) + 1 := by omega
    rw [this, List.range'_succ]
  rcases stepLoop_first h n 0 (P - 2) 0 P (by omega) (le_refl _) (by omega) with
    ⟨j, _, _, hjn, hst⟩ | ⟨hall, hst⟩
  · have hperm := h.window_filter_perm j n hn
    rw [hsplit j, List.map_cons, List.filter_cons_of_pos (by simpa using hjn)] at hperm
    have hlen := hperm.length_eq
    rw [List.length_cons, List.length_range'] at hlen
    have hdr := drain_window h n j n (by omega)
    refine ⟨_, ?_, hperm⟩
    rw [hst]
    simp only [finish, runTail, mkIt, Bool.not_true, Bool.false_and, Bool.false_eq_true, if_false]
    simp only [mkIt] at hdr
    rw [hdr]
  · have hperm := h.window_filter_perm 0 n hn
    have hnil : ((List.range' (0 + 1) (P - 2)).map σ).filter (· ≤ n) = [] := by
      rw [List.filter_eq_nil_iff]
      intro a ha
      simp only [List.mem_map, List.mem_range'_1] at ha
      obtain ⟨i, ⟨hi1, hi2⟩, rfl⟩ := ha
      have := hall i (by omega) (by omega)
      simp; omega
    rw [hsplit 0, List.map_cons] at hperm
    by_cases h0 : σ 0 ≤ n
    · rw [List.filter_cons_of_pos (by simpa using h0), hnil] at hperm
      have hlen := hperm.length_eq
      rw [List.length_range'] at hlen
      have hn' : n = 1 := by simpa using hlen.symm
      subst hn'
      have hσ0 : σ 0 = 1 := by
        have := h.pos 0
        omega
      have hσM : σ (0 + (P - 1)) = 1 := by rw [h.period, hσ0]
      refine ⟨[1], ?_, List.Perm.refl _⟩
      rw [hst]
      simp only [finish, runTail, mkIt, hσM, drain, It.next]
      simp
    · exfalso
      rw [List.filter_cons_of_neg (by simpa using h0), hnil] at hperm
      have hlen := hperm.length_eq
      rw [List.length_range'] at hlen
      simp at hlen
      omega

end SxVerif.RangeIter
