import Mathlib.Data.Nat.ModEq
import Mathlib.Data.List.Nodup
import Mathlib.Data.List.Range
import Mathlib.Data.List.GetD
import SxVerif.Model.RangeIter

namespace SxVerif.RangeIter

/-! ### binary search -/

theorem goSearchF_spec (f : Nat → Bool) (N : Nat) :
    ∀ fuel i j, i ≤ j → j - i < fuel → (j < N → f j = true) → (0 < i → f (i - 1) = false) →
      i ≤ goSearchF f fuel i j ∧ goSearchF f fuel i j ≤ j ∧
      (goSearchF f fuel i j < N → f (goSearchF f fuel i j) = true) ∧
      (0 < goSearchF f fuel i j → f (goSearchF f fuel i j - 1) = false) := by
  intro fuel
  induction fuel with
  | zero => intro i j _ h; omega
  | succ fuel ih =>
    intro i j hij hfuel hj hi
    unfold goSearchF
    by_cases hlt : i < j
    · simp only [hlt, if_true]
      have hm1 : i ≤ (i + j) / 2 := by omega
      have hm2 : (i + j) / 2 < j := by omega
      cases hfm : f ((i + j) / 2) with
      | false =>
        simp only [Bool.not_false, if_true]
        have := ih ((i + j) / 2 + 1) j (by omega) (by omega) hj (by intro _; simpa using hfm)
        refine ⟨by omega, this.2.1, this.2.2.1, this.2.2.2⟩
      | true =>
        simp only [Bool.not_true, Bool.false_eq_true, if_false]
        have := ih i ((i + j) / 2) hm1 (by omega) (fun _ => hfm) hi
        refine ⟨this.1, by omega, this.2.2.1, this.2.2.2⟩
    · simp only [hlt, if_false]
      have : i = j := by omega
      subst this
      exact ⟨le_refl _, le_refl _, hj, hi⟩

theorem goSearch_spec (f : Nat → Bool) (n : Nat) :
    goSearch f n ≤ n ∧ (goSearch f n < n → f (goSearch f n) = true) ∧
      (0 < goSearch f n → f (goSearch f n - 1) = false) := by
  have := goSearchF_spec f n (n + 1) 0 n (Nat.zero_le _) (by omega) (by omega) (by omega)
  exact ⟨this.2.1, this.2.2.1, this.2.2.2⟩

/-! ### the table -/

theorem foldl_max_le_iff (l : List Nat) (a b : Nat) :
    l.foldl max a ≤ b ↔ a ≤ b ∧ ∀ x ∈ l, x ≤ b := by
  induction l generalizing a with
  | nil => simp
  | cons x l ih =>
    simp only [List.foldl_cons, ih, List.mem_cons, forall_eq_or_imp, Nat.max_le]
    tauto

theorem le_maxP (tbl : List Group) (r : Group) (hr : r ∈ tbl) :
    r.P ≤ (tbl.map (·.P)).foldl max 0 :=
  ((foldl_max_le_iff _ 0 _).mp (le_refl _)).2 r.P (List.mem_map_of_mem hr)

theorem getD_mem (tbl : List Group) (i : Nat) (h : i < tbl.length) :
    tbl.getD i default ∈ tbl := by
  rw [List.getD_eq_getElem _ _ h]; exact List.getElem_mem h

/-- the index `newIter` selects -/
def selIdx (tbl : List Group) (nn : Nat) : Nat :=
  goSearch (fun i => decide ((tbl.getD i default).P > nn)) tbl.length

theorem selIdx_reject (tbl : List Group) (nn : Nat)
    (h : (tbl.map (·.P)).foldl max 0 ≤ nn) : selIdx tbl nn = tbl.length := by
  have hs := goSearch_spec (fun i => decide ((tbl.getD i default).P > nn)) tbl.length
  rcases Nat.lt_or_ge (selIdx tbl nn) tbl.length with hlt | hge
  · have h1 := hs.2.1 hlt
    simp only [decide_eq_true_eq] at h1
    have h2 := le_maxP tbl _ (getD_mem tbl _ hlt)
    unfold selIdx at *
    omega
  · exact le_antisymm hs.1 hge

theorem selIdx_accept (tbl : List Group)
    (hsorted : List.Pairwise (fun a b : Group => a.P < b.P) tbl) (nn : Nat)
    (h : nn < (tbl.map (·.P)).foldl max 0) :
    selIdx tbl nn < tbl.length ∧ tbl.getD (selIdx tbl nn) default ∈ tbl ∧
      nn < (tbl.getD (selIdx tbl nn) default).P := by
  have hs := goSearch_spec (fun i => decide ((tbl.getD i default).P > nn)) tbl.length
  have hlt : selIdx tbl nn < tbl.length := by
    rcases Nat.lt_or_ge (selIdx tbl nn) tbl.length with hlt | hge
    · exact hlt
    · exfalso
      have heq : selIdx tbl nn = tbl.length := le_antisymm hs.1 hge
      have hpos : 0 < tbl.length := by
        rcases Nat.eq_zero_or_pos tbl.length with h0 | h0
        · rw [List.length_eq_zero_iff] at h0; subst h0; simp at h
        · exact h0
      have h1 := hs.2.2 (by unfold selIdx at heq; omega)
      simp only [decide_eq_false_iff_not, not_lt] at h1
      change (tbl.getD (selIdx tbl nn - 1) default).P ≤ nn at h1
      rw [heq, List.getD_eq_getElem _ _ (by omega)] at h1
      have : (tbl.map (·.P)).foldl max 0 ≤ nn := by
        rw [foldl_max_le_iff]
        refine ⟨Nat.zero_le _, ?_⟩
        intro x hx
        rw [List.mem_map] at hx
        obtain ⟨r, hr, rfl⟩ := hx
        obtain ⟨i, hi, rfl⟩ := List.getElem_of_mem hr
        rcases Nat.lt_or_ge i (tbl.length - 1) with hi' | hi'
        · have := List.pairwise_iff_getElem.mp hsorted i (tbl.length - 1) hi (by omega) hi'
          omega
        · have : i = tbl.length - 1 := by omega
          subst this; exact h1
      omega
  refine ⟨hlt, getD_mem tbl _ hlt, ?_⟩
  have h1 := hs.2.1 hlt
  simp only [decide_eq_true_eq] at h1
  exact h1

end SxVerif.RangeIter
