
/-! ### the two theorems -/

theorem newIter_eq (tbl : List Group) (n r1 r2 : Nat) (hn : 1 ≤ n)
    (hidx : selIdx tbl n ≠ tbl.length) (c : Group) (hc : c = tbl.getD (selIdx tbl n) default)
    (g : Nat) (hg : g = c.G ^ (c.N ^ (r1 + 1) % (c.P - 1)) % c.P) (hP : 0 < c.P) :
    newIter tbl (n : Int) r1 r2 =
      finish n (stepLoop (mkIt c.P g n (orbit c.P g (g ^ (r2 + 1) % c.P)) 0 0 false) c.P) := by
  have hn' : ¬ ((n : Int) ≤ 0) := by omega
  have h0 : orbit c.P g (g ^ (r2 + 1) % c.P) 0 = g ^ (r2 + 1) % c.P :=
    orbit_zero _ _ _ (Nat.mod_lt _ hP)
  unfold selIdx at hidx hc
  subst hc hg
  unfold newIter
  simp only [hn', if_false, Int.toNat_natCast, hidx, powMod_eq, It.next, Bool.false_eq_true,
    mkIt, h0]
  rfl

end SxVerif.RangeIter
