
/-! ### the loops -/

theorem stepLoop_first (h : Orbit P g σ) (n k0 : Nat) :
    ∀ d k fuel, k + d + 1 = k0 + (P - 1) → k0 ≤ k → d + 1 ≤ fuel →
      (∃ j, k < j ∧ j < k0 + (P - 1) ∧ σ j ≤ n ∧
          stepLoop (mkIt P g n σ k k0 false) fuel = some (mkIt P g n σ j k0 false, true)) ∨
        ((∀ i, k < i → i < k0 + (P - 1) → n < σ i) ∧
          stepLoop (mkIt P g n σ k k0 false) fuel =
            some (mkIt P g n σ (k0 + (P - 1)) k0 true, false)) := by
  intro d
  induction d with
  | zero =>
    intro k fuel hk hk0 hfuel
    obtain ⟨fuel, rfl⟩ : ∃ f, fuel = f + 1 := ⟨fuel - 1, by omega⟩
    right
    refine ⟨fun i h1 h2 => by omega, ?_⟩
    have hk' : k + 1 = k0 + (P - 1) := by omega
    have hI : σ k * g % P = σ k0 := by rw [← h.step, hk', h.period]
    simp only [stepLoop, mkIt, hI, if_true, ← hk', h.step]
  | succ d ih =>
    intro k fuel hk hk0 hfuel
    obtain ⟨fuel, rfl⟩ : ∃ f, fuel = f + 1 := ⟨fuel - 1, by omega⟩
    have hne : σ k * g % P ≠ σ k0 := by
      rw [← h.step]; exact h.ne_start (by omega) (by omega)
    by_cases hle : σ (k + 1) ≤ n
    · left
      refine ⟨k + 1, by omega, by omega, hle, ?_⟩
      have hle' : σ k * g % P ≤ n := by rw [← h.step]; exact hle
      simp only [stepLoop, mkIt, hne, if_false, hle', if_true, h.step]
    · have hle' : ¬ σ k * g % P ≤ n := by rw [← h.step]; exact hle
      have hrec : stepLoop (mkIt P g n σ k k0 false) (fuel + 1) =
          stepLoop (mkIt P g n σ (k + 1) k0 false) fuel := by
        simp only [stepLoop, mkIt, hne, if_false, hle', h.step]
      rw [hrec]
      rcases ih (k + 1) fuel (by omega) (by omega) (by omega) with ⟨j, h1, h2, h3, h4⟩ | ⟨h1, h2⟩
      · left; exact ⟨j, by omega, h2, h3, h4⟩
      · right
        refine ⟨fun i hi1 hi2 => ?_, h2⟩
        by_cases he : i = k + 1
        · subst he; omega
        · exact h1 i (by omega) hi2

/-- what `drain` does with the result of one `Next` -/
def cont (P F : Nat) : Option (It × Bool) → Option (List Nat)
  | none => none
  | some (it', true) => (drain P it' F).map (it'.I :: ·)
  | some (_, false) => some []

theorem drain_succ (fuel : Nat) (it : It) (F : Nat) :
    drain fuel it (F + 1) = cont fuel F (it.next fuel) := by
  unfold drain cont
  rcases it.next fuel with _ | ⟨it', _ | _⟩ <;> rfl

theorem cont_stepLoop (h : Orbit P g σ) (n k0 : Nat) :
    ∀ d k fuel F, k + d + 1 = k0 + (P - 1) → k0 ≤ k → d + 1 ≤ fuel →
      (((List.range' (k + 1) d).map σ).filter (· ≤ n)).length < F →
      cont P F (stepLoop (mkIt P g n σ k k0 false) fuel) =
        some (((List.range' (k + 1) d).map σ).filter (· ≤ n)) := by
  intro d
  induction d with
  | zero =>
    intro k fuel F hk hk0 hfuel _
    obtain ⟨fuel, rfl⟩ : ∃ f, fuel = f + 1 := ⟨fuel - 1, by omega⟩
    have hk' : k + 1 = k0 + (P - 1) := by omega
    have hI : σ k * g % P = σ k0 := by rw [← h.step, hk', h.period]
    simp only [stepLoop, mkIt, hI, if_true, cont, List.range'_zero, List.map_nil, List.filter_nil]
  | succ d ih =>
    intro k fuel F hk hk0 hfuel hF
    obtain ⟨fuel, rfl⟩ : ∃ f, fuel = f + 1 := ⟨fuel - 1, by omega⟩
    have hne : σ k * g % P ≠ σ k0 := by
      rw [← h.step]; exact h.ne_start (by omega) (by omega)
    rw [List.range'_succ, List.map_cons] at hF ⊢
    by_cases hle : σ (k + 1) ≤ n
    · have hle' : σ k * g % P ≤ n := by rw [← h.step]; exact hle
      rw [List.filter_cons_of_pos (by simpa using hle)] at hF ⊢
      rw [List.length_cons] at hF
      obtain ⟨F, rfl⟩ : ∃ f, F = f + 1 := ⟨F - 1, by omega⟩
      have hstep : stepLoop (mkIt P g n σ k k0 false) (fuel + 1) =
          some (mkIt P g n σ (k + 1) k0 false, true) := by
        simp only [stepLoop, mkIt, hne, if_false, hle', if_true, h.step]
      rw [hstep]
      simp only [cont]
      rw [drain_succ]
      have hnext : (mkIt P g n σ (k + 1) k0 false).next P =
          stepLoop (mkIt P g n σ (k + 1) k0 false) P := by
        simp [It.next, mkIt]
      rw [hnext, ih (k + 1) P F (by omega) (by omega) (by omega) (by omega)]
      simp [mkIt]
    · have hle' : ¬ σ k * g % P ≤ n := by rw [← h.step]; exact hle
      rw [List.filter_cons_of_neg (by simpa using hle)] at hF ⊢
      have hrec : stepLoop (mkIt P g n σ k k0 false) (fuel + 1) =
          stepLoop (mkIt P g n σ (k + 1) k0 false) fuel := by
        simp only [stepLoop, mkIt, hne, if_false, hle', h.step]
      rw [hrec]
      exact ih (k + 1) fuel F (by omega) (by omega) (by omega) hF

theorem drain_window (h : Orbit P g σ) (n k F : Nat)
    (hF : (((List.range' (k + 1) (P - 2)).map σ).filter (· ≤ n)).length < F) :
    drain P (mkIt P g n σ k k false) (F + 1) =
      some (((List.range' (k + 1) (P - 2)).map σ).filter (· ≤ n)) := by
  have := h.two_le
  rw [drain_succ]
  have hnext : (mkIt P g n σ k k false).next P = stepLoop (mkIt P g n σ k k false) P := by
    simp [It.next, mkIt]
  rw [hnext]
  exact cont_stepLoop h n k (P - 2) k P F (by omega) (le_refl _) (by omega) hF

end SxVerif.RangeIter
