module sxverif/harness

go 1.19

require (
	github.com/google/gopacket v1.1.20-0.20210304165259-20562ffb40f8
	github.com/v-byte-cpu/sx v0.0.0
)

require (
	github.com/josharian/intern v1.0.0 // indirect
	github.com/mailru/easyjson v0.7.7 // indirect
)

replace github.com/v-byte-cpu/sx => /repo
