module sxverif/harness

go 1.19

require (
	github.com/andres-erbsen/clock v0.0.0-20160526145045-9e14626cd129
	github.com/docker/docker v20.10.7+incompatible
	github.com/google/gopacket v1.1.20-0.20210304165259-20562ffb40f8
	github.com/v-byte-cpu/sx v0.0.0
	github.com/vishvananda/netlink v1.1.0
	github.com/yl2chen/cidranger v1.0.2
	go.uber.org/ratelimit v0.2.0
	golang.org/x/net v0.0.0-20210813160813-60bc85c4be6d
)

require (
	github.com/containerd/containerd v1.4.4 // indirect
	github.com/docker/distribution v2.7.1+incompatible // indirect
	github.com/docker/go-connections v0.4.0 // indirect
	github.com/docker/go-units v0.4.0 // indirect
	github.com/gogo/protobuf v1.3.2 // indirect
	github.com/golang/protobuf v1.5.2 // indirect
	github.com/josharian/intern v1.0.0 // indirect
	github.com/mailru/easyjson v0.7.7 // indirect
	github.com/moby/moby v20.10.7+incompatible // indirect
	github.com/opencontainers/go-digest v1.0.0 // indirect
	github.com/opencontainers/image-spec v1.0.1 // indirect
	github.com/pkg/errors v0.9.1 // indirect
	github.com/sirupsen/logrus v1.4.2 // indirect
	github.com/spf13/cobra v1.5.0 // indirect
	github.com/spf13/pflag v1.0.5 // indirect
	github.com/vishvananda/netns v0.0.0-20191106174202-0a2b9b5464df // indirect
	go.uber.org/atomic v1.7.0 // indirect
	go.uber.org/multierr v1.6.0 // indirect
	go.uber.org/zap v1.23.0 // indirect
	golang.org/x/sys v0.0.0-20211205182925-97ca703d548d // indirect
	google.golang.org/genproto v0.0.0-20211208223120-3a66f561d7aa // indirect
	google.golang.org/grpc v1.42.0 // indirect
	google.golang.org/protobuf v1.27.1 // indirect
)

replace github.com/v-byte-cpu/sx => /repo
