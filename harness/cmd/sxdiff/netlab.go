package main

// netlab — a private network namespace with a veth pair, the REAL sx binary built from the current
// tree, a raw capture/injection socket on the far end of the pair, and loopback listeners.  Used by
// the end-to-end components (e2e, …): they observe what the whole program — CLI parsing, interface
// choice, generator wiring, chunk loop, engine, sender, afpacket socket, kernel BPF — puts on the
// wire, which no in-process hook reaches.
//
// Layout inside the namespace:
//   veth0  10.0.0.1/24   (sx sends here; default route via 10.0.0.254)
//   veth1  no address    (the "wire": everything sx sends arrives here; frames written here reach sx)
//   lo     127.0.0.1/8   (application scans)

import (
	"os/signal"
	"io"
	"bytes"
	"encoding/binary"
	"fmt"
	"net"
	"os"
	"os/exec"
	"path/filepath"
	"runtime"
	"sync"
	"syscall"
	"time"
	"unsafe"
)

func htons(v uint16) uint16 { return v<<8 | v>>8 }

// enterNetlab re-executes the harness inside `unshare -n` unless we are already inside.  The outer
// process builds the sx binary first.  It returns true in the inner process.
func enterNetlab() bool {
	if os.Getenv("SXNET_INNER") == "1" {
		return true
	}
	work := os.Getenv("VERIF_WORK")
	if work == "" {
		work = os.TempDir()
	}
	repo := os.Getenv("VERIF_REPO")
	if repo == "" {
		repo = "/repo"
	}
	bin := filepath.Join(work, "sx-e2e")
	os.Remove(bin)
	b := exec.Command("go", "build", "-o", bin, ".")
	if os.Getenv("VERIF_COVER") != "" {
		// tools/coverage.sh: which statements of sx do the end-to-end components execute (GOCOVERDIR is inherited)
		b = exec.Command("go", "build", "-cover", "-coverpkg=github.com/v-byte-cpu/sx/...", "-o", bin, ".")
	}
	b.Dir = repo
	b.Env = append(os.Environ(), "GOFLAGS=-mod=mod", "GOPROXY=off", "GOSUMDB=off", "GOTOOLCHAIN=local", "CGO_ENABLED=1")
	if out, err := b.CombinedOutput(); err != nil {
		fmt.Fprintf(os.Stderr, "netlab: cannot build sx from %s: %v\n%s\n", repo, err, out)
		os.Exit(3)
	}
	// the same binary with the Go race detector compiled in (sxOpt.race: the reply-flood runs over several port
	// chunks, where goroutines of one engine run meet those of the next)
	rbin := filepath.Join(work, "sx-e2e-race")
	os.Remove(rbin)
	rb := exec.Command("go", "build", "-race", "-o", rbin, ".")
	rb.Dir = repo
	rb.Env = b.Env
	if out, err := rb.CombinedOutput(); err != nil {
		fmt.Fprintf(os.Stderr, "netlab: no race-enabled sx (%v): %s\n", err, out)
		rbin = ""
	}
	self, _ := os.Executable()
	c := exec.Command("unshare", append([]string{"-n", self}, os.Args[1:]...)...)
	c.Env = append(os.Environ(), "SXNET_INNER=1", "SX_BIN="+bin, "SX_BIN_RACE="+rbin)
	c.Stdout, c.Stderr, c.Stdin = os.Stdout, os.Stderr, nil
	err := c.Run()
	os.Remove(bin)
	if err != nil {
		if ee, ok := err.(*exec.ExitError); ok {
			os.Exit(ee.ExitCode())
		}
		// no namespace available: fail closed
		fmt.Fprintf(os.Stderr, "netlab: unshare -n failed: %v (the end-to-end correspondence cannot run)\n", err)
		os.Exit(4)
	}
	os.Exit(0)
	return false
}

func ipCmd(args ...string) {
	if out, err := exec.Command("ip", args...).CombinedOutput(); err != nil {
		panic(fmt.Sprintf("ip %v: %v %s", args, err, out))
	}
}

type netlab struct {
	fd      int
	ifindex int
	srcMAC  net.HardwareAddr // MAC of veth0 (what sx uses as source)
	mu      sync.Mutex
	frames  [][]byte
	stamps  []int64 // kernel receive timestamp of each frame (SO_TIMESTAMPNS, ns since the epoch)
	stop    chan struct{}
	done    chan struct{}

	// sentinel frames (EtherType 0x88b5, local experimental) sent out of veth0 by the harness itself: once the
	// capture has seen sentinel k, every frame that left veth0 before it has been captured too, however far
	// behind the capture goroutine was (a loaded machine)
	txfd     int
	txif     int
	sentSeq  uint64
	seenSeq  uint64
}

func newNetlab() *netlab {
	exec.Command("sysctl", "-qw", "net.ipv6.conf.all.disable_ipv6=1", "net.ipv6.conf.default.disable_ipv6=1").Run()
	ipCmd("link", "set", "lo", "up")
	ipCmd("link", "add", "veth0", "type", "veth", "peer", "name", "veth1")
	ipCmd("link", "set", "veth0", "address", "02:00:00:00:00:01")
	ipCmd("link", "set", "veth1", "address", "02:00:00:00:00:02")
	ipCmd("addr", "add", "10.0.0.1/24", "dev", "veth0")
	ipCmd("link", "set", "veth1", "up")
	ipCmd("link", "set", "veth0", "up")
	ipCmd("route", "add", "default", "via", "10.0.0.254", "dev", "veth0")
	ifi, err := net.InterfaceByName("veth1")
	if err != nil {
		panic(err)
	}
	fd, err := syscall.Socket(syscall.AF_PACKET, syscall.SOCK_RAW, int(htons(syscall.ETH_P_ALL)))
	if err != nil {
		panic(err)
	}
	if err := syscall.Bind(fd, &syscall.SockaddrLinklayer{Protocol: htons(syscall.ETH_P_ALL), Ifindex: ifi.Index}); err != nil {
		panic(err)
	}
	syscall.SetsockoptInt(fd, syscall.SOL_SOCKET, 33 /* SO_RCVBUFFORCE */, 256<<20)
	syscall.SetsockoptInt(fd, syscall.SOL_SOCKET, 35 /* SO_TIMESTAMPNS */, 1)
	tv := syscall.Timeval{Usec: 20000}
	syscall.SetsockoptTimeval(fd, syscall.SOL_SOCKET, syscall.SO_RCVTIMEO, &tv)
	n := &netlab{fd: fd, ifindex: ifi.Index, srcMAC: net.HardwareAddr{2, 0, 0, 0, 0, 1},
		stop: make(chan struct{}), done: make(chan struct{})}
	if ifi0, err := net.InterfaceByName("veth0"); err == nil {
		if tx, err := syscall.Socket(syscall.AF_PACKET, syscall.SOCK_RAW, int(htons(syscall.ETH_P_ALL))); err == nil {
			n.txfd, n.txif = tx, ifi0.Index
		}
	}
	go n.capture()
	// let the link settle
	time.Sleep(100 * time.Millisecond)
	return n
}

func (n *netlab) capture() {
	defer close(n.done)
	buf := make([]byte, 1<<16)
	oob := make([]byte, 256)
	for {
		select {
		case <-n.stop:
			return
		default:
		}
		k, oobn, _, from, err := syscall.Recvmsg(n.fd, buf, oob, 0)
		if err != nil || k <= 0 {
			continue
		}
		if ll, ok := from.(*syscall.SockaddrLinklayer); ok && ll.Pkttype == 4 /* PACKET_OUTGOING */ {
			continue
		}
		stamp := time.Now().UnixNano()
		if msgs, err := syscall.ParseSocketControlMessage(oob[:oobn]); err == nil {
			for _, m := range msgs {
				if m.Header.Level == syscall.SOL_SOCKET && m.Header.Type == 35 && len(m.Data) >= 16 {
					sec := int64(binary.LittleEndian.Uint64(m.Data[0:8]))
					nsec := int64(binary.LittleEndian.Uint64(m.Data[8:16]))
					stamp = sec*1e9 + nsec
				}
			}
		}
		if k >= 22 && buf[12] == 0x88 && buf[13] == 0xb5 {
			n.mu.Lock()
			if q := binary.BigEndian.Uint64(buf[14:22]); q > n.seenSeq {
				n.seenSeq = q
			}
			n.mu.Unlock()
			continue
		}
		f := make([]byte, k)
		copy(f, buf[:k])
		n.mu.Lock()
		n.frames = append(n.frames, f)
		n.stamps = append(n.stamps, stamp)
		n.mu.Unlock()
	}
}

// take returns (and forgets) everything captured so far
func (n *netlab) take() [][]byte {
	n.mu.Lock()
	defer n.mu.Unlock()
	f := n.frames
	n.frames, n.stamps = nil, nil
	return f
}

// takeStamped returns (and forgets) the frames captured so far with their kernel receive timestamps
func (n *netlab) takeStamped() ([][]byte, []int64) {
	n.mu.Lock()
	defer n.mu.Unlock()
	f, t := n.frames, n.stamps
	n.frames, n.stamps = nil, nil
	return f, t
}

// peek returns a copy of the current capture without forgetting it
func (n *netlab) peek() ([][]byte, []int64) {
	n.mu.Lock()
	defer n.mu.Unlock()
	return append([][]byte(nil), n.frames...), append([]int64(nil), n.stamps...)
}

func (n *netlab) count() int {
	n.mu.Lock()
	defer n.mu.Unlock()
	return len(n.frames)
}

// inject writes a frame on the wire towards sx
func (n *netlab) inject(frame []byte) error {
	return syscall.Sendto(n.fd, frame, 0, &syscall.SockaddrLinklayer{Ifindex: n.ifindex, Halen: 6})
}

func (n *netlab) close() {
	close(n.stop)
	<-n.done
	syscall.Close(n.fd)
}

// settle waits until no new frame has arrived for `quiet`
func (n *netlab) settle(quiet time.Duration) {
	n.flush()
	last := n.count()
	t := time.Now()
	for time.Since(t) < quiet {
		time.Sleep(5 * time.Millisecond)
		if c := n.count(); c != last {
			last, t = c, time.Now()
		}
	}
}

// flush sends a sentinel out of veth0 and waits until the capture has seen it
func (n *netlab) flush() {
	if n.txfd == 0 {
		return
	}
	n.mu.Lock()
	n.sentSeq++
	q := n.sentSeq
	n.mu.Unlock()
	f := make([]byte, 60)
	copy(f[0:6], []byte{0xff, 0xff, 0xff, 0xff, 0xff, 0xff})
	copy(f[6:12], []byte{2, 0, 0, 0, 0, 0xfd})
	f[12], f[13] = 0x88, 0xb5
	binary.BigEndian.PutUint64(f[14:22], q)
	deadline := time.Now().Add(15 * time.Second)
	for time.Now().Before(deadline) {
		syscall.Sendto(n.txfd, f, 0, &syscall.SockaddrLinklayer{Ifindex: n.txif, Halen: 6})
		for i := 0; i < 40; i++ {
			n.mu.Lock()
			ok := n.seenSeq >= q
			n.mu.Unlock()
			if ok {
				return
			}
			time.Sleep(5 * time.Millisecond)
		}
	}
}

type sxRun struct {
	stdout, stderr string
	exit           int
	dur            time.Duration
	timedOut       bool
}

// runSX runs the real binary; stdin may be nil
func runSX(stdin []byte, timeout time.Duration, args ...string) sxRun {
	return runSXOn(false, stdin, timeout, args...)
}

// runSXOn: oneCPU = the process sees exactly one CPU (runtime.NumCPU() == 1), as on a single-vCPU machine
func runSXOn(oneCPU bool, stdin []byte, timeout time.Duration, args ...string) sxRun {
	p, err := startSX(oneCPU, stdin, args...)
	if err != nil {
		return sxRun{stderr: err.Error(), exit: -1}
	}
	return p.wait(timeout)
}

// decoy: ONE listener that is never a target.  Every sx process the harness starts runs in an environment whose
// proxy / docker-client variables point at it (as an operator's shell may have them set); whatever connects to it
// was sent to a destination outside the target set.
var (
	decoyOnce sync.Once
	decoyAddr string
	decoyMu   sync.Mutex
	decoyN    int
)

func startDecoy() {
	decoyOnce.Do(func() {
		l, err := net.Listen("tcp4", "127.0.0.1:0")
		if err != nil {
			return
		}
		decoyAddr = l.Addr().String()
		go func() {
			for {
				c, err := l.Accept()
				if err != nil {
					return
				}
				decoyMu.Lock()
				decoyN++
				decoyMu.Unlock()
				c.Close()
			}
		}()
	})
}

// decoyHits returns (and resets) the number of connections the decoy has seen
func decoyHits() int {
	decoyMu.Lock()
	defer decoyMu.Unlock()
	n := decoyN
	decoyN = 0
	return n
}

func hostileEnv() []string {
	startDecoy()
	if decoyAddr == "" {
		return nil
	}
	return []string{"HTTP_PROXY=http://" + decoyAddr, "http_proxy=http://" + decoyAddr, "HTTPS_PROXY=http://" + decoyAddr,
		"https_proxy=http://" + decoyAddr, "ALL_PROXY=socks5://" + decoyAddr, "all_proxy=socks5://" + decoyAddr,
		"NO_PROXY=", "no_proxy=", "DOCKER_HOST=tcp://" + decoyAddr}
}

// a running sx process
type sxProc struct {
	cmd    *exec.Cmd
	so, se bytes.Buffer
	t0     time.Time
	donec  chan error
	gone   chan struct{} // closed when the process has ended
}

// firstAllowedCPU: the lowest CPU number in this process's affinity mask (-1 if it cannot be read)
func firstAllowedCPU() int {
	var mask [128]uint64
	n, _, e := syscall.RawSyscall(syscall.SYS_SCHED_GETAFFINITY, 0, uintptr(len(mask)*8), uintptr(unsafe.Pointer(&mask[0])))
	if e != 0 {
		return -1
	}
	for i := 0; i < int(n)/8 && i < len(mask); i++ {
		for b := 0; b < 64; b++ {
			if mask[i]&(1<<uint(b)) != 0 {
				return i*64 + b
			}
		}
	}
	return -1
}

func startSX(oneCPU bool, stdin []byte, args ...string) (*sxProc, error) {
	return startSXOpt(sxOpt{}, oneCPU, stdin, args...)
}

// sxOpt: the environment of one sx process, as an operator's shell may set it up
//
//	nofile     > 0: RLIMIT_NOFILE of the process (`ulimit -n`)
//	slowStderr > 0: stderr is a pipe whose reader takes its first reads this far apart (a paused terminal, `2>&1 | less`)
type sxOpt struct {
	nofile     int
	slowStderr time.Duration
	merge      bool   // stderr goes where stdout goes (`2>&1`): one pipe, one reader
	stdinFile  string // stdin is this regular file (`sx … < file`)
	stdinHold  bool   // stdin is a pipe that stays open after the given bytes (a producer that has not finished)
	stdoutPath string // stdout is this file (e.g. /dev/full: every write fails with ENOSPC)
	race       bool // the race-enabled build (exit status 66 and a report on stderr at the first data race)
}

// sxRaceRuns: while set, every sx process is the race-enabled build (cases run one after the other)
var sxRaceRuns bool

// slowWriter: the far end of a pipe that lags (the first `n` reads only, so that every run ends)
type slowWriter struct {
	w     io.Writer
	pause time.Duration
	n     int
}

func (s *slowWriter) Write(p []byte) (int, error) {
	if s.n > 0 {
		s.n--
		time.Sleep(s.pause)
	}
	return s.w.Write(p)
}

func runSXOpt(o sxOpt, stdin []byte, timeout time.Duration, args ...string) sxRun {
	p, err := startSXOpt(o, false, stdin, args...)
	if err != nil {
		return sxRun{stderr: err.Error(), exit: -1}
	}
	return p.wait(timeout)
}

// childSigintDefault: a check started as a background job of a non-interactive shell (`./check … &`, nohup, a CI
// runner) inherits SIGINT as IGNORED, and so would every sx process started from here: Go leaves an inherited
// SIG_IGN alone until the program calls signal.Notify, so a SIGINT that reaches sx (or the taskset / sh that execs
// it) before `signal.NotifyContext` would be dropped silently and the scan would run on — an artefact of how the
// harness was started, not a behaviour of sx.  exec resets HANDLED signals to their default action, ignored ones stay
// ignored: with a handler installed here every child starts with SIGINT at its default, as under a terminal.
var sigintOnce sync.Once

func childSigintDefault() {
	sigintOnce.Do(func() {
		c := make(chan os.Signal, 1)
		signal.Notify(c, syscall.SIGINT)
		go func() {
			<-c
			os.Exit(130)
		}()
	})
}

func startSXOpt(o sxOpt, oneCPU bool, stdin []byte, args ...string) (*sxProc, error) {
	childSigintDefault()
	bin := os.Getenv("SX_BIN")
	if rb := os.Getenv("SX_BIN_RACE"); (o.race || sxRaceRuns) && rb != "" {
		bin = rb
	}
	if o.nofile > 0 {
		// the shell execs the program: same process, so signals reach sx itself
		args = append([]string{"-c", fmt.Sprintf(`ulimit -n %d; exec "$0" "$@"`, o.nofile), bin}, args...)
		bin = "/bin/sh"
	}
	p := &sxProc{donec: make(chan error, 1), gone: make(chan struct{})}
	cpu := -1
	if oneCPU {
		cpu = firstAllowedCPU()
	}
	taskset, terr := exec.LookPath("taskset")
	inherit := false // no taskset: the child inherits the affinity of the (locked) thread that forks it
	switch {
	case cpu >= 0 && terr == nil && os.Getenv("SXNET_NO_TASKSET") == "":
		// taskset execs the program: same process, so signals reach sx itself
		p.cmd = exec.Command(taskset, append([]string{"-c", fmt.Sprint(cpu), bin}, args...)...)
	case cpu >= 0:
		inherit = true
		p.cmd = exec.Command(bin, args...)
	default:
		p.cmd = exec.Command(bin, args...)
	}
	p.cmd.Stdout, p.cmd.Stderr = &p.so, &p.se
	if o.slowStderr > 0 {
		p.cmd.Stderr = &slowWriter{w: &p.se, pause: o.slowStderr, n: 12}
	}
	if o.merge {
		p.cmd.Stderr = p.cmd.Stdout
	}
	if o.stdoutPath != "" {
		if f, err := os.OpenFile(o.stdoutPath, os.O_WRONLY, 0); err == nil {
			p.cmd.Stdout = f
			defer f.Close()
		}
	}
	p.cmd.Env = append(append(os.Environ(), hostileEnv()...), "GORACE=halt_on_error=1 exitcode=66")
	if o.stdinFile != "" {
		if f, err := os.Open(o.stdinFile); err == nil {
			p.cmd.Stdin = f
			defer f.Close()
		}
	} else if stdin != nil && o.stdinHold {
		if pr, pw, err := os.Pipe(); err == nil {
			p.cmd.Stdin = pr
			go func() {
				pw.Write(stdin)
				<-p.gone // the write end is closed only when the process has ended
				pw.Close()
				pr.Close()
			}()
		}
	} else if stdin != nil {
		p.cmd.Stdin = bytes.NewReader(stdin)
	}
	p.t0 = time.Now()
	var err error
	if inherit {
		err = startPinned(p.cmd, cpu)
	} else {
		err = p.cmd.Start()
	}
	if err != nil {
		return nil, err
	}
	go func() {
		// (Wait itself waits for the stdin copy of a bytes.Reader; a held pipe is a *os.File and is not waited for)
		err := p.cmd.Wait()
		close(p.gone)
		p.donec <- err
	}()
	return p, nil
}

// startPinned starts c from an OS thread whose affinity is {cpu}; the thread's own mask is restored afterwards
func startPinned(c *exec.Cmd, cpu int) error {
	runtime.LockOSThread()
	defer runtime.UnlockOSThread()
	var old, one [128]uint64
	n, _, e := syscall.RawSyscall(syscall.SYS_SCHED_GETAFFINITY, 0, uintptr(len(old)*8), uintptr(unsafe.Pointer(&old[0])))
	if e != 0 {
		return e
	}
	one[cpu/64] = 1 << uint(cpu%64)
	if _, _, e := syscall.RawSyscall(syscall.SYS_SCHED_SETAFFINITY, 0, n, uintptr(unsafe.Pointer(&one[0]))); e != 0 {
		return e
	}
	err := c.Start()
	syscall.RawSyscall(syscall.SYS_SCHED_SETAFFINITY, 0, n, uintptr(unsafe.Pointer(&old[0])))
	return err
}

func (p *sxProc) signal(sig syscall.Signal) { p.cmd.Process.Signal(sig) }

// exited reports whether the process has ended (without consuming the result)
func (p *sxProc) exited() bool {
	select {
	case err := <-p.donec:
		p.donec <- err
		return true
	default:
		return false
	}
}

func (p *sxProc) wait(timeout time.Duration) sxRun {
	var r sxRun
	select {
	case err := <-p.donec:
		if ee, ok := err.(*exec.ExitError); ok {
			r.exit = ee.ExitCode()
		} else if err != nil {
			r.exit = -1
		}
	case <-time.After(timeout):
		p.cmd.Process.Kill()
		<-p.donec
		r.timedOut = true
		r.exit = -2
	}
	r.dur = time.Since(p.t0)
	r.stdout, r.stderr = p.so.String(), p.se.String()
	return r
}

var _ = unsafe.Sizeof(0)
