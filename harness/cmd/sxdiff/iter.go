package main

import (
	"fmt"
	"math/rand"
	"strconv"
	"strings"

	"github.com/v-byte-cpu/sx/pkg/scan"
	"sxverif/harness/internal/hx"
)

func init() {
	components["iter"] = iterComponent
	replayers["iter"] = func(f []string) string {
		n, _ := strconv.ParseInt(f[1], 10, 64)
		seed, _ := strconv.ParseInt(f[2], 10, 64)
		k, _ := strconv.Atoi(f[5])
		_, _, out := runIter(n, seed, k)
		return out
	}
}

// runIter drives the real iterator: the two draws are read off the global source after seeding it,
// then the source is re-seeded so that newRangeIterator sees exactly those draws.
func runIter(n int64, s int64, k int) (r1, r2 int64, out string) {
	rand.Seed(s)
	r1, r2 = rand.Int63(), rand.Int63()
	rand.Seed(s)
	it, err := scan.VerifNewRangeIterator(n)
	if err != nil {
		if err == scan.VerifErrRangeSize {
			return r1, r2, "E_RANGESIZE"
		}
		return r1, r2, "E_GROUP"
	}
	var vals []string
	complete := 0
	for {
		vals = append(vals, it.Int().String())
		if !it.Next() {
			complete = 1
			break
		}
		if len(vals) >= k {
			break
		}
	}
	return r1, r2, fmt.Sprintf("OK %d %s", complete, strings.Join(vals, ","))
}

func iterComponent(r *hx.Run) {
	r.Rule = "case = (n, seed→two draws, prefix length k); non-trivial class = (table row serving n, complete|prefix, n relative to row boundary); exhaustive small n × seeds, every row boundary P-2..P+1, random n up to 2^32+100, non-positive n"
	groups := scan.VerifCyclicGroups()
	rowOf := func(n int64) int {
		for i, g := range groups {
			if g[0] > n {
				return i
			}
		}
		return len(groups)
	}
	emit := func(n int64, seed int64, k int) {
		r1, r2, out := runIter(n, seed, k)
		class := ""
		if strings.HasPrefix(out, "OK") {
			kind := "prefix"
			if strings.HasPrefix(out, "OK 1") {
				kind = "full"
			}
			class = fmt.Sprintf("row%d/%s", rowOf(n), kind)
			r.Count("row" + strconv.Itoa(rowOf(n)))
		} else {
			class = "reject/" + out
			r.Count(out)
		}
		r.Case(class, "iter", hx.Itoa(n), hx.Itoa(seed), hx.Itoa(r1), hx.Itoa(r2), hx.Itoa(k), out)
	}
	full := 1 << 17
	smallMax, seedsPer, randomN := int64(200), 3, 300
	if r.Tier == "thorough" {
		smallMax, seedsPer, randomN = 1200, 6, 3000
	}
	for n := int64(-2); n <= smallMax; n++ {
		for j := 0; j < seedsPer; j++ {
			emit(n, r.Rng.Int63(), full)
		}
	}
	for _, g := range groups {
		for d := int64(-2); d <= 1; d++ {
			n := g[0] + d
			k := 1500
			if n <= 1<<16 || (r.Tier == "thorough" && n <= 1<<20) {
				k = 1 << 21
			}
			emit(n, r.Rng.Int63(), k)
		}
	}
	for i := 0; i < randomN; i++ {
		bits := uint(1 + r.Rng.Intn(33))
		n := r.Rng.Int63n(1<<bits) + 1
		k := 300
		if n <= 1<<14 {
			k = full
		}
		emit(n, r.Rng.Int63(), k)
	}
	for _, n := range []int64{1 << 32, 1<<32 + 60, 1<<32 + 61, 1<<32 + 62, 1 << 40, 1<<63 - 1, -1 << 63} {
		emit(n, r.Rng.Int63(), 500)
	}
}
