package main

import (
	"fmt"
	"math/big"
	"math/rand"
	"os"
	"strconv"
	"strings"

	"github.com/v-byte-cpu/sx/pkg/scan"
	"sxverif/harness/internal/hx"
)

func init() {
	components["iter"] = iterComponent
	replayers["itercount"] = func(f []string) string {
		n, _ := strconv.ParseInt(f[1], 10, 64)
		seed, _ := strconv.ParseInt(f[2], 10, 64)
		_, _, out := runIterCount(n, seed)
		return out
	}
	// iterfull: one complete turn of Next from a given state (startI = I), counted with a bitmap
	replayers["iterfull"] = func(f []string) string {
		v := make([]int64, 4)
		for i := range v {
			v[i], _ = strconv.ParseInt(f[1+i], 10, 64)
		}
		p, g, i, limit := v[0], v[1], v[2], v[3]
		it := scan.VerifRangeIteratorAt(p, g, i, i, limit)
		seen := make([]uint64, limit/64+1)
		count, ok := int64(0), 1
		if i <= limit {
			count = 1
			seen[i/64] |= 1 << uint(i%64)
		}
		for it.Next() {
			x := it.Int()
			if !x.IsInt64() || x.Int64() < 1 || x.Int64() > limit {
				ok = 0
			} else {
				w := x.Int64()
				if seen[w/64]&(1<<uint(w%64)) != 0 {
					ok = 0
				}
				seen[w/64] |= 1 << uint(w%64)
			}
			count++
			if count > limit+1 {
				break
			}
		}
		return fmt.Sprintf("%d %d", count, ok)
	}
	replayers["iterstep"] = func(f []string) string {
		v := make([]int64, 6)
		for i := range v {
			v[i], _ = strconv.ParseInt(f[1+i], 10, 64)
		}
		return runIterStep(v[0], v[1], v[2], v[3], v[4], int(v[5]))
	}
	replayers["iter"] = func(f []string) string {
		n, _ := strconv.ParseInt(f[1], 10, 64)
		seed, _ := strconv.ParseInt(f[2], 10, 64)
		k, _ := strconv.Atoi(f[5])
		_, _, out := runIter(n, seed, k)
		return out
	}
}

// runIter drives the real iterator: the two draws are read off the global source after seeding it,
// then the source is re-seeded so that newRangeIterator sees exactly those draws.
func runIter(n int64, s int64, k int) (r1, r2 int64, out string) {
	// a panic of the constructor or of Next is an outcome of this input (the property: "terminates, emits a
	// permutation"), not a crash of the component
	defer func() {
		if e := recover(); e != nil {
			out = "PANIC " + strings.Map(func(c rune) rune {
				if c == '\t' || c == '\n' {
					return ' '
				}
				return c
			}, fmt.Sprint(e))
		}
	}()
	rand.Seed(s)
	r1, r2 = rand.Int63(), rand.Int63()
	rand.Seed(s)
	it, err := scan.VerifNewRangeIterator(n)
	if err != nil {
		if err == scan.VerifErrRangeSize {
			return r1, r2, "E_RANGESIZE"
		}
		return r1, r2, "E_GROUP"
	}
	var vals []string
	complete := 0
	for {
		vals = append(vals, it.Int().String())
		if !it.Next() {
			complete = 1
			break
		}
		if len(vals) >= k {
			break
		}
	}
	return r1, r2, fmt.Sprintf("OK %d %s", complete, strings.Join(vals, ","))
}

func iterComponent(r *hx.Run) {
	r.Rule = "case = (n, seed→two draws, prefix length k); non-trivial class = (table row serving n, complete|prefix, n relative to row boundary); exhaustive small n × seeds, every row boundary P-2..P+1, random n up to 2^32+100, non-positive n"
	groups := scan.VerifCyclicGroups()
	rowOf := func(n int64) int {
		for i, g := range groups {
			if g[0] > n {
				return i
			}
		}
		return len(groups)
	}
	emit := func(n int64, seed int64, k int) {
		r1, r2, out := runIter(n, seed, k)
		class := ""
		if strings.HasPrefix(out, "OK") {
			kind := "prefix"
			if strings.HasPrefix(out, "OK 1") {
				kind = "full"
			}
			class = fmt.Sprintf("row%d/%s", rowOf(n), kind)
			r.Count("row" + strconv.Itoa(rowOf(n)))
		} else {
			class = "reject/" + out
			r.Count(out)
		}
		r.Case(class, "iter", hx.Itoa(n), hx.Itoa(seed), hx.Itoa(r1), hx.Itoa(r2), hx.Itoa(k), out)
	}
	full := 1 << 17
	smallMax, seedsPer, randomN := int64(200), 3, 300
	if r.Tier == "thorough" {
		smallMax, seedsPer, randomN = 1200, 6, 3000
	}
	for n := int64(-2); n <= smallMax; n++ {
		for j := 0; j < seedsPer; j++ {
			emit(n, r.Rng.Int63(), full)
		}
	}
	for _, g := range groups {
		for d := int64(-2); d <= 1; d++ {
			n := g[0] + d
			k := 1500
			if n <= 1<<16 || (r.Tier == "thorough" && n <= 1<<20) {
				k = 1 << 21
			}
			emit(n, r.Rng.Int63(), k)
		}
	}
	for i := 0; i < randomN; i++ {
		bits := uint(1 + r.Rng.Intn(33))
		n := r.Rng.Int63n(1<<bits) + 1
		k := 300
		if n <= 1<<14 {
			k = full
		}
		emit(n, r.Rng.Int63(), k)
	}
	for _, n := range []int64{1 << 32, 1<<32 + 60, 1<<32 + 61, 1<<32 + 62, 1 << 40, 1<<63 - 1, -1 << 63} {
		emit(n, r.Rng.Int63(), 500)
	}
	iterStepCases(r, groups)
	iterCountCases(r, groups)
}

// runIterCount runs one COMPLETE iteration through the real constructor and counts: how many values
// came out, whether all were in 1..n and pairwise distinct (bitmap).  Used for whole table rows, where
// listing the values would be too much for the line protocol.
func runIterCount(n int64, s int64) (r1, r2 int64, out string) {
	rand.Seed(s)
	r1, r2 = rand.Int63(), rand.Int63()
	rand.Seed(s)
	it, err := scan.VerifNewRangeIterator(n)
	if err != nil {
		if err == scan.VerifErrRangeSize {
			return r1, r2, "E_RANGESIZE"
		}
		return r1, r2, "E_GROUP"
	}
	seen := make([]uint64, n/64+1)
	count, ok := int64(0), 1
	for {
		v := it.Int()
		if !v.IsInt64() || v.Int64() < 1 || v.Int64() > n {
			ok = 0
		} else {
			w := v.Int64()
			if seen[w/64]&(1<<uint(w%64)) != 0 {
				ok = 0
			}
			seen[w/64] |= 1 << uint(w%64)
		}
		count++
		if !it.Next() || count > n+1 {
			break
		}
	}
	return r1, r2, fmt.Sprintf("%d %d", count, ok)
}

// iterCountCases: for every table row up to a size bound, the largest range it serves (n = P-1) and
// the smallest (previous P), iterated completely.  This is where a table row whose generator has a
// short orbit shows up as a concrete (n, draws) with values missing.
func iterCountCases(r *hx.Run, groups [][3]int64) {
	maxP := int64(1) << 22
	if r.Tier == "thorough" {
		maxP = 1 << 26
	}
	if os.Getenv("VERIF_SEARCH") == "1" {
		maxP = 1 << 28
	}
	prev := int64(1)
	for ri, g := range groups {
		if g[0] <= maxP+100 && g[0] > 1<<12 {
			for _, n := range []int64{g[0] - 1, prev} {
				seed := r.Rng.Int63()
				r1, r2, out := runIterCount(n, seed)
				r.Count("count-row" + strconv.Itoa(ri))
				r.Case(fmt.Sprintf("count/row%d", ri), "itercount", hx.Itoa(n), hx.Itoa(seed), hx.Itoa(r1), hx.Itoa(r2), out)
			}
		}
		prev = g[0]
	}
}

// runIterStep drives Next from a given state (hook VerifRangeIteratorAt) for up to k calls.
func runIterStep(p, g, i, startI, limit int64, k int) string {
	it := scan.VerifRangeIteratorAt(p, g, i, startI, limit)
	var vals []string
	complete := 0
	for j := 0; j < k; j++ {
		if !it.Next() {
			complete = 1
			break
		}
		vals = append(vals, it.Int().String())
	}
	return fmt.Sprintf("OK %d %s", complete, strings.Join(vals, ","))
}

// draws of the random source (r1) whose randomised generator of the 2^32+61 group lies within 61 of
// 2^32 — found once by exhaustive search over r1 < 4*10^8 on the pinned table; they are ordinary
// values of rand.Int63(), i.e. REACHABLE states, and they are the only ones in which a 64-bit product
// I*G can exceed 2^64.  The harness recomputes G' from the CURRENT table, so after a table edit they
// are simply some other reachable draws.
var nearWordDraws = []int64{43470407, 69884793, 108802508, 192938616, 213503244, 344285517, 362161937}

// iterStepCases: Next on boundary states.  Every state is reachable: G' = G^(N^(r1+1) mod (P-1)) mod P
// for a draw r1, I and startI are elements of the group (G' generates it), limit = n < P.
func iterStepCases(r *hx.Run, groups [][3]int64) {
	steps := 40
	perRow := 6
	scanK := 3000
	if r.Tier == "thorough" {
		perRow, scanK = 30, 200000
	}
	for ri, grp := range groups {
		if grp[0] < 16 {
			continue // tiny groups are enumerated exhaustively by the main cases
		}
		P, G, N := big.NewInt(grp[0]), big.NewInt(grp[1]), big.NewInt(grp[2])
		pm1 := new(big.Int).Sub(P, big.NewInt(1))
		gen := func(r1 int64) int64 {
			e := new(big.Int).Exp(N, big.NewInt(r1+1), pm1)
			return new(big.Int).Exp(G, e, P).Int64()
		}
		// draws: a few small ones, random ones, and the draw (among the first scanK) whose G' is largest
		draws := []int64{0, 1, 2}
		best, bestG := int64(0), int64(0)
		e := new(big.Int).Set(N)
		for k := int64(1); k <= int64(scanK); k++ {
			g := new(big.Int).Exp(G, e, P).Int64()
			if g > bestG {
				best, bestG = k-1, g
			}
			e.Mul(e, N).Mod(e, pm1)
		}
		draws = append(draws, best)
		for j := 0; j < perRow; j++ {
			draws = append(draws, r.Rng.Int63())
		}
		if ri == len(groups)-1 {
			draws = append(draws, nearWordDraws...)
		}
		for _, r1 := range draws {
			g := gen(r1)
			p := grp[0]
			// current elements: top of the group, around powers of two below P, random
			cur := []int64{p - 1, p - 2, p / 2, p/2 + 1, 1 + r.Rng.Int63n(p-1)}
			for _, b := range []uint{16, 31, 32} {
				if int64(1)<<b < p {
					cur = append(cur, int64(1)<<b, int64(1)<<b-1, int64(1)<<b-3)
				}
			}
			for _, i := range cur {
				limit := p - 1 - r.Rng.Int63n(3)
				if r.Rng.Intn(3) == 0 {
					limit = 1 + r.Rng.Int63n(p-1)
				}
				startI := 1 + r.Rng.Int63n(limit)
				out := runIterStep(p, g, i, startI, limit, steps)
				r.Count("step-row" + strconv.Itoa(ri))
				r.Case(fmt.Sprintf("step/row%d/g%d", ri, bitLen(g)), "iterstep", hx.Itoa(p), hx.Itoa(g), hx.Itoa(i), hx.Itoa(startI), hx.Itoa(limit), hx.Itoa(steps), out)
			}
		}
	}
}

func bitLen(v int64) int { return big.NewInt(v).BitLen() }
