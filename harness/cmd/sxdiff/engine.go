package main

// Components `engine` (C08), `exitdelay` (C16), `cancel` (C12): the REAL scan.NewScanEngine /
// GenericEngine / resultChan / logger.LogResults / startScanEngine (via command.VerifStartScanEngine)
// run with a recording Scanner, a scripted request generator and a recording io.Writer.
//
// A send on a closed channel or a double close panics in a goroutine of the code under test and would
// take the harness down with it, so the cases run in a CHILD process (same binary, SXDIFF_CHILD=1);
// when the child dies the unfinished cases are re-run one per process to find the crashing input, which
// is then reported as an observed outcome `panic=1` together with the head of the goroutine dump.

import (
	"bufio"
	"bytes"
	"context"
	"errors"
	"fmt"
	"math/rand"
	"net"
	"os"
	"os/exec"
	"sort"
	"strconv"
	"strings"
	"sync"
	"sync/atomic"
	"time"

	"github.com/v-byte-cpu/sx/command"
	"github.com/v-byte-cpu/sx/command/log"
	"github.com/v-byte-cpu/sx/pkg/scan"
	"sxverif/harness/internal/hx"
)

func init() {
	components["engine"] = func(r *hx.Run) { engineFamily(r, "engine") }
	components["exitdelay"] = func(r *hx.Run) { engineFamily(r, "exitdelay") }
	components["cancel"] = func(r *hx.Run) { engineFamily(r, "cancel") }
	replayers["engine"] = func(f []string) string { return runEngineJob(engJob{tag: "engine", f: f[1:]}) }
	replayers["exitdelay"] = func(f []string) string { return runEngineJob(engJob{tag: "exitdelay", f: f[1:]}) }
	replayers["cancel"] = func(f []string) string { return runEngineJob(engJob{tag: "cancel", f: f[1:]}) }
}

// ---------------------------------------------------------------- scripted pieces

type vResult struct{ id int }

func (r *vResult) String() string               { return "id=" + strconv.Itoa(r.id) }
func (r *vResult) MarshalJSON() ([]byte, error) { return []byte(`{"id":` + strconv.Itoa(r.id) + `}`), nil }
func (r *vResult) ID() string                   { return strconv.Itoa(r.id) }

type idErr struct{ id int }

func (e *idErr) Error() string { return "probe " + strconv.Itoa(e.id) + " failed" }

// engRec collects everything observable of one run.
type engRec struct {
	mu        sync.Mutex
	kinds     string
	lat       []time.Duration // per request
	scanCount []int
	errCount  []int
	errOther  int
	open      int // Scan calls in progress
	maxOpen   int
	doneSeen  bool
	openAtDone, scansAfterDone int
	putOrder  []int
	t0        time.Time
	tDone     time.Duration
	tCancel   time.Duration // derived ctx seen cancelled by the engine wrapper
	haveDone, haveCancel       bool
	out       bytes.Buffer
	writes    int
	events    map[string]int // scan / put / err / write counters for cancel injection
	cancelAt  string         // "kind:k" or ""
	cancelFn  context.CancelFunc
	tCmdCancel time.Time
	cmdCancelled bool
	slow      time.Duration // slow consumer: the output writer and logger.Error take this long per record
	tLastScanEnd time.Duration // taken by the worker itself just before Scan returns: <= time of close(done)
	anyScan   bool
	wiredBase uint32
	wiredPorts int
	wiredP0   int
}

// event: called with mu held
func (rc *engRec) event(kind string) {
	if rc.events == nil {
		rc.events = map[string]int{}
	}
	k := rc.events[kind]
	rc.events[kind] = k + 1
	if rc.cancelAt == kind+":"+strconv.Itoa(k) && rc.cancelFn != nil && !rc.cmdCancelled {
		rc.cmdCancelled = true
		rc.tCmdCancel = time.Now()
		rc.cancelFn()
	}
}

func (rc *engRec) idxOf(r *scan.Request) int {
	if v, ok := r.Meta["i"]; ok {
		return v.(int)
	}
	ip := r.DstIP.To4()
	a := uint32(ip[0])<<24 | uint32(ip[1])<<16 | uint32(ip[2])<<8 | uint32(ip[3])
	return int(a-rc.wiredBase)*rc.wiredPorts + int(r.DstPort) - rc.wiredP0
}

type recScanner struct{ rc *engRec }

func (s *recScanner) Scan(ctx context.Context, r *scan.Request) (scan.Result, error) {
	rc := s.rc
	i := rc.idxOf(r)
	rc.mu.Lock()
	if i < 0 || i >= len(rc.scanCount) {
		rc.errOther++
		rc.mu.Unlock()
		return nil, nil
	}
	rc.scanCount[i]++
	rc.open++
	if rc.open > rc.maxOpen {
		rc.maxOpen = rc.open
	}
	if rc.doneSeen {
		rc.scansAfterDone++
	}
	rc.event("scan")
	lat := rc.lat[i]
	kind := rc.kinds[i]
	rc.mu.Unlock()
	if lat > 0 {
		time.Sleep(lat)
	}
	rc.mu.Lock()
	rc.open--
	rc.tLastScanEnd = time.Since(rc.t0)
	rc.anyScan = true
	rc.mu.Unlock()
	switch kind {
	case 'r':
		return &vResult{i}, nil
	case 'e':
		return nil, &idErr{i}
	}
	return nil, nil
}

// scripted request generator: the requests of `kinds` in order ('x' = error entry), unbuffered channel
type scriptGen struct {
	rc     *engRec
	genErr bool
}

func (g *scriptGen) GenerateRequests(ctx context.Context, r *scan.Range) (<-chan *scan.Request, error) {
	if g.genErr {
		return nil, &idErr{0}
	}
	out := make(chan *scan.Request)
	go func() {
		defer close(out)
		for i := 0; i < len(g.rc.kinds); i++ {
			req := &scan.Request{Meta: map[string]interface{}{"i": i}, DstIP: net.IPv4(10, 0, 0, 1), DstPort: uint16(i)}
			if g.rc.kinds[i] == 'x' {
				req.Err = &idErr{i}
			}
			select {
			case <-ctx.Done():
				return
			case out <- req:
			}
		}
	}()
	return out, nil
}

// ResultChan wrapper recording the order of Put (the lock is held across the inner Put so that the
// recorded order IS the order of the sends on internalResults)
type recResultChan struct {
	inner scan.ResultChan
	rc    *engRec
	pmu   sync.Mutex
}

func (c *recResultChan) Put(r scan.Result) {
	c.pmu.Lock()
	defer c.pmu.Unlock()
	c.rc.mu.Lock()
	c.rc.putOrder = append(c.rc.putOrder, r.(*vResult).id)
	c.rc.event("put")
	c.rc.mu.Unlock()
	c.inner.Put(r)
}
func (c *recResultChan) Chan() <-chan scan.Result { return c.inner.Chan() }

// engine wrapper: observes `done` and the ctx handed to Start
type obsEngine struct {
	scan.EngineResulter
	rc *engRec
}

func (e *obsEngine) Start(ctx context.Context, r *scan.Range) (<-chan interface{}, <-chan error) {
	done, errc := e.EngineResulter.Start(ctx, r)
	go func() {
		<-done
		e.rc.mu.Lock()
		e.rc.doneSeen, e.rc.haveDone = true, true
		e.rc.openAtDone = e.rc.open
		e.rc.tDone = time.Since(e.rc.t0)
		e.rc.event("done")
		e.rc.mu.Unlock()
	}()
	go func() {
		<-ctx.Done()
		e.rc.mu.Lock()
		e.rc.haveCancel = true
		e.rc.tCancel = time.Since(e.rc.t0)
		e.rc.mu.Unlock()
	}()
	return done, errc
}

// spin keeps the consumer busy for d WITHOUT going to sleep: time.Sleep of a few microseconds costs a
// millisecond or more on a loaded machine, which made the "slow" consumer so slow that the exit delay was over before
// the queue was drained (the named hypothesis of C08, not a fault of the code)
func spin(d time.Duration) {
	for t := time.Now(); time.Since(t) < d; {
	}
}

type recWriter struct{ rc *engRec }

func (w *recWriter) Write(p []byte) (int, error) {
	if w.rc.slow > 0 {
		spin(w.rc.slow)
	}
	w.rc.mu.Lock()
	defer w.rc.mu.Unlock()
	w.rc.writes++
	w.rc.out.Write(p)
	w.rc.event("write")
	return len(p), nil
}

// the REAL logger for results; errors are recorded instead of going to zap/stderr
type recLogger struct {
	inner log.Logger
	rc    *engRec
}

func (l *recLogger) Error(err error) {
	if l.rc.slow > 0 {
		spin(l.rc.slow)
	}
	l.rc.mu.Lock()
	defer l.rc.mu.Unlock()
	var ie *idErr
	if errors.As(err, &ie) && ie.id < len(l.rc.errCount) {
		l.rc.errCount[ie.id]++
	} else if errors.As(err, &ie) {
		l.rc.errOther++ // generr: id 0 without requests
	} else {
		l.rc.errOther++
	}
	l.rc.event("err")
}
func (l *recLogger) LogResults(ctx context.Context, results <-chan scan.Result) {
	l.inner.LogResults(ctx, results)
}

func digitsOf(c []int) string {
	var sb strings.Builder
	for _, v := range c {
		if v > 9 {
			v = 9
		}
		sb.WriteByte(byte('0' + v))
	}
	return sb.String()
}

func b01(b bool) string {
	if b {
		return "1"
	}
	return "0"
}

// outLines: the output as ids of complete records "id=<n>\n"; ok=false when it is not such a sequence
func outLines(b []byte) (ids []int, ok bool) {
	if len(b) == 0 {
		return nil, true
	}
	if b[len(b)-1] != '\n' {
		return nil, false
	}
	for _, ln := range strings.Split(string(b[:len(b)-1]), "\n") {
		if !strings.HasPrefix(ln, "id=") {
			return nil, false
		}
		v, err := strconv.Atoi(ln[3:])
		if err != nil {
			return nil, false
		}
		ids = append(ids, v)
	}
	return ids, true
}

// ---------------------------------------------------------------- one run of the real code

type engJob struct {
	tag   string
	class string
	f     []string // input fields after the tag
}

func latencies(seed int64, n int, maxUs int) []time.Duration {
	rng := rand.New(rand.NewSource(seed))
	l := make([]time.Duration, n)
	for i := range l {
		switch rng.Intn(4) {
		case 0:
			l[i] = 0
		case 1:
			l[i] = time.Duration(rng.Intn(50)) * time.Microsecond
		default:
			l[i] = time.Duration(rng.Intn(maxUs+1)) * time.Microsecond
		}
	}
	return l
}

const engSlackMs = 3000

// runEngineJob dispatches on the tag and returns the observed field
func runEngineJob(j engJob) string {
	switch j.tag {
	case "engine":
		return runEngineCase(j.f[0], j.f[1], j.f[2], j.f[3], "")
	case "cancel":
		return runEngineCase("direct", j.f[0], j.f[1], j.f[3], j.f[2])
	case "exitdelay":
		return runExitDelayCase(j.f[0], j.f[1], j.f[2], j.f[3])
	}
	return "BAD-JOB"
}

// runEngineCase: mode direct|wired|wiredrate|generr; cancelAt "" or "kind:k"
func runEngineCase(mode, ws, kinds, sched, cancelAt string) string {
	if kinds == "-" {
		kinds = ""
	}
	W, _ := strconv.Atoi(ws)
	seed, _ := strconv.ParseInt(sched, 10, 64)
	n := len(kinds)
	maxUs := 1500
	if n > 500 {
		maxUs = 300
	}
	rc := &engRec{kinds: kinds, lat: latencies(seed, n, maxUs), scanCount: make([]int, n), errCount: make([]int, n),
		cancelAt: strings.TrimSuffix(cancelAt, "/slow"), t0: time.Now()}
	if strings.HasSuffix(mode, "-slow") || strings.HasSuffix(cancelAt, "/slow") {
		rc.slow = 20 * time.Microsecond
		mode = strings.TrimSuffix(mode, "-slow")
	}
	cmdCtx, cmdCancel := context.WithCancel(context.Background())
	defer cmdCancel()
	rc.cancelFn = cmdCancel
	if rc.cancelAt == "start:0" {
		rc.cmdCancelled, rc.tCmdCancel = true, time.Now()
		cmdCancel()
	}
	var engine scan.EngineResulter
	rng := &scan.Range{}
	switch mode {
	case "direct", "generr":
		results := &recResultChan{inner: scan.NewResultChan(cmdCtx, 1000), rc: rc}
		engine = scan.NewScanEngine(&scriptGen{rc: rc, genErr: mode == "generr"}, &recScanner{rc}, results,
			scan.WithScanWorkerCount(W))
	default: // wired / wiredrate: the engine exactly as `newScanEngine` of the commands builds it
		// mode = wired/<bits>/<nports>: 2^bits addresses x nports ports = len(kinds) targets
		mp := strings.Split(mode, "/")
		bits, _ := strconv.Atoi(mp[1])
		nports, _ := strconv.Atoi(mp[2])
		if (1<<uint(bits))*nports != n {
			return "BAD-WIRED-CASE"
		}
		rc.wiredBase = 10<<24 | 7<<16
		rc.wiredPorts = nports
		rc.wiredP0 = 2000
		rng.DstSubnet = &net.IPNet{IP: net.IPv4(10, 7, 0, 0).To4(), Mask: net.CIDRMask(32-bits, 32)}
		rng.Ports = []*scan.PortRange{{StartPort: 2000, EndPort: uint16(2000 + nports - 1)}}
		opts := &command.VerifOpts{Ports: rng.Ports, Workers: W}
		if mp[0] == "wiredrate" {
			opts.RateCount, opts.RateWindow = 20000, time.Second
		}
		engine = command.VerifGenericScanEngine(cmdCtx, opts, &recScanner{rc})
	}
	inner, err := log.NewLogger(&recWriter{rc}, "verif", log.Plain())
	if err != nil {
		return "logger-error"
	}
	lg := &recLogger{inner: inner, rc: rc}
	// the exit delay "at its default or larger": the default for short target lists, 1.5 s when thousands
	// of records may be queued at completion (the drain is wall-clock; the box may be loaded)
	delay := command.VerifDefaultExitDelay()
	if n > 200 && delay < 1500*time.Millisecond {
		delay = 1500 * time.Millisecond
	}
	if cancelAt != "" {
		// cancellation runs: an exit delay far above the allowed return time, so that a return path that
		// waits for the delay after Ctrl-C shows (point `done:0` = Ctrl-C during the exit delay)
		delay = 5 * time.Second
	}
	retc := make(chan struct{})
	var tRet time.Duration
	var tRetAbs time.Time
	go func() {
		command.VerifStartScanEngine(cmdCtx, &obsEngine{engine, rc}, lg, rng, delay)
		tRetAbs = time.Now()
		tRet = time.Since(rc.t0)
		close(retc)
	}()
	ret := true
	limit := 60 * time.Second
	if cancelAt != "" {
		limit = 12 * time.Second
	}
	select {
	case <-retc:
	case <-time.After(limit):
		ret = false
	}
	time.Sleep(2 * time.Millisecond) // let the observer goroutines record
	rc.mu.Lock()
	defer rc.mu.Unlock()
	ids, linesOK := outLines(rc.out.Bytes())
	pr := make([]int, n)
	for _, id := range ids {
		if id >= 0 && id < n {
			pr[id]++
		}
	}
	er := digitsOf(rc.errCount)
	if mode == "generr" {
		er = strconv.Itoa(rc.errOther)
	}
	if cancelAt != "" {
		tr := int64(1 << 40)
		if ret && rc.cmdCancelled {
			tr = tRetAbs.Sub(rc.tCmdCancel).Milliseconds()
			if tr < 0 {
				tr = 0
			}
		} else if ret {
			tr = 0 // the cancel point was never reached: the run completed
		}
		out := rc.out.Bytes()
		bound := engSlackMs + maxUs/1000 + 1
		return fmt.Sprintf("ret=%s;panic=0;lines=%s|sc=%s;pr=%s;er=%s;tret=%d;bound=%d;out=%s", b01(ret), b01(linesOK),
			digitsOf(rc.scanCount), digitsOf(pr), er, tr, bound, hx.Hex(out))
	}
	fifo := "-"
	if mode == "direct" {
		same := len(ids) == len(rc.putOrder)
		for i := 0; same && i < len(ids); i++ {
			same = ids[i] == rc.putOrder[i]
		}
		fifo = b01(same && linesOK)
	}
	doneok := rc.haveDone && rc.openAtDone == 0 && rc.scansAfterDone == 0
	// early: the engine's ctx was cancelled / the call returned clearly before completion + exit delay
	// (tDone is read by an observer goroutine, i.e. possibly late: tolerate two thirds of the delay)
	early := false
	if rc.haveDone {
		min := rc.tDone + delay/3
		if rc.anyScan {
			// exact: completion cannot precede the return of the last probe
			min = rc.tLastScanEnd + delay - time.Millisecond
		}
		if rc.haveCancel && rc.tCancel < min {
			early = true
		}
		if ret && tRet < min {
			early = true
		}
	} else if ret {
		early = true
	}
	conc := rc.maxOpen <= W && rc.errOther == 0 || mode == "generr"
	nput := "-"
	if mode == "direct" {
		nput = strconv.Itoa(len(rc.putOrder))
	}
	return fmt.Sprintf("sc=%s;pr=%s;er=%s;nput=%s;nout=%d;fifo=%s;doneok=%s;conc=%s;ret=%s;early=%s;panic=0", digitsOf(rc.scanCount),
		digitsOf(pr), er, nput, len(ids), fifo, b01(doneok), b01(conc), b01(ret), b01(early))
}

// ---------------------------------------------------------------- exit delay with a fake engine

// fakeEngine: done closes at once; "replies" arrive at scripted times and are Put like the packet
// receiver does (ctx checked before each blocking read); errc closes when the ctx is cancelled.
type fakeEngine struct {
	results scan.ResultChan
	timed   [][2]int // (ms after done, id)
	tDone   time.Time
	tCancel time.Time
	mu      sync.Mutex
	started chan struct{} // closed when Start has taken tDone: the scripted Ctrl-C counts from there
}

func (e *fakeEngine) Results() <-chan scan.Result { return e.results.Chan() }
func (e *fakeEngine) Start(ctx context.Context, r *scan.Range) (<-chan interface{}, <-chan error) {
	done := make(chan interface{})
	errc := make(chan error, 100)
	e.tDone = time.Now()
	if e.started != nil {
		close(e.started)
	}
	close(done)
	go func() {
		defer close(errc)
		for _, tv := range e.timed {
			wait := time.Until(e.tDone.Add(time.Duration(tv[0]) * time.Millisecond))
			if wait > 0 {
				select {
				case <-ctx.Done():
					e.mu.Lock()
					e.tCancel = time.Now()
					e.mu.Unlock()
					return
				case <-time.After(wait):
				}
			}
			if ctx.Err() != nil {
				break
			}
			e.results.Put(&vResult{tv[1]})
		}
		<-ctx.Done()
		e.mu.Lock()
		e.tCancel = time.Now()
		e.mu.Unlock()
	}()
	return done, errc
}

func runExitDelayCase(delayS, slackS, resultsS, parentS string) string {
	delayMs, _ := strconv.Atoi(delayS)
	var timed [][2]int
	if resultsS != "-" {
		for _, f := range strings.Split(resultsS, ",") {
			p := strings.Split(f, ":")
			t, _ := strconv.Atoi(p[0])
			v, _ := strconv.Atoi(p[1])
			timed = append(timed, [2]int{t, v})
		}
	}
	rc := &engRec{t0: time.Now()}
	cmdCtx, cmdCancel := context.WithCancel(context.Background())
	defer cmdCancel()
	fe := &fakeEngine{results: scan.NewResultChan(cmdCtx, 1000), timed: timed, started: make(chan struct{})}
	inner, err := log.NewLogger(&recWriter{rc}, "verif", log.Plain())
	if err != nil {
		return "logger-error"
	}
	lg := &recLogger{inner: inner, rc: rc}
	retc := make(chan struct{})
	var tRetAbs time.Time
	go func() {
		command.VerifStartScanEngine(cmdCtx, fe, lg, &scan.Range{}, time.Duration(delayMs)*time.Millisecond)
		tRetAbs = time.Now()
		close(retc)
	}()
	if parentS != "-" {
		p, _ := strconv.Atoi(parentS)
		go func() {
			// "p ms after completion": the clock of the case starts when the engine reports completion (tDone), not
			// when this goroutine starts — on a starved machine the two are milliseconds apart
			<-fe.started
			time.Sleep(time.Until(fe.tDone.Add(time.Duration(p) * time.Millisecond)))
			cmdCancel()
		}()
	}
	ret := true
	select {
	case <-retc:
	case <-time.After(60 * time.Second):
		ret = false
	}
	time.Sleep(2 * time.Millisecond)
	rc.mu.Lock()
	out := append([]byte(nil), rc.out.Bytes()...)
	rc.mu.Unlock()
	ids, _ := outLines(out)
	sort.Ints(ids)
	var ss []string
	for _, v := range ids {
		ss = append(ss, strconv.Itoa(v))
	}
	fe.mu.Lock()
	tc := int64(-1)
	if !fe.tCancel.IsZero() {
		tc = fe.tCancel.Sub(fe.tDone).Milliseconds()
	}
	fe.mu.Unlock()
	tr := int64(-1)
	if ret {
		tr = tRetAbs.Sub(fe.tDone).Milliseconds()
	}
	if tc < 0 {
		tc = 1 << 40
	}
	if tr < 0 {
		tr = 1 << 40
	}
	return fmt.Sprintf("pr=%s;ret=%s;panic=0|tcancel=%d;tret=%d;out=%s", strings.Join(ss, ","), b01(ret), tc, tr, hx.Hex(out))
}

// ---------------------------------------------------------------- case generation

func randKinds(rng *rand.Rand, n int, weights string) string {
	b := make([]byte, n)
	for i := range b {
		b[i] = weights[rng.Intn(len(weights))]
	}
	return string(b)
}

func engineJobs(rng *rand.Rand, tier, comp string) []engJob {
	var jobs []engJob
	thorough := tier == "thorough"
	seedOf := func() string { return strconv.FormatInt(rng.Int63n(1<<40), 10) }
	switch comp {
	case "engine":
		add := func(mode string, W int, kinds, class string) {
			if kinds == "" {
				kinds = "-"
			}
			jobs = append(jobs, engJob{tag: "engine", class: class, f: []string{mode, strconv.Itoa(W), kinds, seedOf()}})
		}
		Ws := []int{1, 2, 7, 100, 1000}
		// small, every mix, every W
		reps := 8
		if thorough {
			reps = 80
		}
		for _, W := range Ws {
			add("direct", W, "", fmt.Sprintf("W%d/empty", W))
			for _, k := range []string{"r", "n", "e", "x", "rnex", "xxrrnnee"} {
				add("direct", W, k, fmt.Sprintf("W%d/tiny", W))
			}
			for i := 0; i < reps; i++ {
				n := 5 + rng.Intn(120)
				add("direct", W, randKinds(rng, n, "rrrnnex"), fmt.Sprintf("W%d/mixed", W))
				add("direct", W, randKinds(rng, n, "rrrrrrrn"), fmt.Sprintf("W%d/positives", W))
				add("direct", W, randKinds(rng, n, "eexxn"), fmt.Sprintf("W%d/failures", W))
			}
		}
		// more results than the 1000-slot buffers, more errors than the 100-slot buffer
		big := 1
		if thorough {
			big = 8
		}
		for i := 0; i < big; i++ {
			for _, W := range Ws {
				if W == 1 && i > 0 {
					continue
				}
				add("direct", W, randKinds(rng, 2300+rng.Intn(900), "rrrrrrrrne"), fmt.Sprintf("W%d/>2cap-results", W))
				add("direct", W, randKinds(rng, 300+rng.Intn(300), "eeexxrn"), fmt.Sprintf("W%d/>cap-errors", W))
				add("direct", W, strings.Repeat("r", 1200)+strings.Repeat("e", 150)+strings.Repeat("x", 150), fmt.Sprintf("W%d/bursts", W))
				if W >= 100 {
					add("direct-slow", W, randKinds(rng, 2300+rng.Intn(400), "rrrrrrrrre"), fmt.Sprintf("W%d/>2cap-results/slow-consumer", W))
					add("direct-slow", W, randKinds(rng, 400+rng.Intn(200), "eeexxr"), fmt.Sprintf("W%d/>cap-errors/slow-consumer", W))
					// a hand-over that goes wrong only while the consumer takes a record in the middle of it is a matter of
					// schedule: several such runs, several thousand records beyond what the buffers hold
					for k := 0; k < 3; k++ {
						add("direct-slow", W, randKinds(rng, 3200+rng.Intn(1500), "rrrrrrrrrrrrrrrrrrre"), fmt.Sprintf("W%d/>3cap-results/slow-consumer", W))
					}
				}
			}
		}
		// the engine exactly as the commands wire it (real generator chain, worker option, limiter on/off)
		wreps := 4
		if thorough {
			wreps = 40
		}
		for i := 0; i < wreps; i++ {
			for _, W := range []int{1, 7, 100} {
				bits := rng.Intn(5)
				np := 1 + rng.Intn(9)
				n := (1 << uint(bits)) * np
				add(fmt.Sprintf("wired/%d/%d", bits, np), W, randKinds(rng, n, "rrnne"), fmt.Sprintf("W%d/wired", W))
				add(fmt.Sprintf("wiredrate/%d/%d", bits, np), W, randKinds(rng, n, "rrnne"), fmt.Sprintf("W%d/wired+limiter", W))
			}
		}
		add("wired/6/36", 50, randKinds(rng, 64*36, "rrrrrne"), "W50/wired/>2cap-results")
		for _, W := range []int{1, 100} {
			add("generr", W, "", "generr")
		}
	case "exitdelay":
		n := 120
		if thorough {
			n = 1200
		}
		for i := 0; i < n; i++ {
			delay := []int{150, 200, 300, 400, 600}[rng.Intn(5)]
			if i == 0 {
				delay = 300
			}
			var rs []string
			id := 0
			var ts []int
			for k := rng.Intn(6); k > 0; k-- {
				ts = append(ts, rng.Intn(delay*7/10+1)) // inside the delay, away from the boundary
			}
			if i%3 == 0 {
				ts = append(ts, delay/2) // "result at 0.5*delay"
			}
			for k := rng.Intn(3); k > 0; k-- {
				ts = append(ts, delay*3+1000+rng.Intn(1000)) // long after: never waited for
			}
			parent := "-"
			class := fmt.Sprintf("delay%d", delay)
			pv := -1
			switch rng.Intn(5) {
			case 0:
				pv = 70 + rng.Intn(delay*6/10-70+1)
				parent = strconv.Itoa(pv)
				class += "/parent-before"
			case 1:
				parent = strconv.Itoa(delay*2 + rng.Intn(300))
				class += "/parent-after"
			}
			// replies racing with a Ctrl-C are neither required nor forbidden: keep 60 ms away from it
			var keep []int
			for _, t := range ts {
				if pv >= 0 && t > pv-60 && t < pv+400 {
					continue
				}
				keep = append(keep, t)
			}
			ts = keep
			class += fmt.Sprintf("/results%d", len(ts))
			sort.Ints(ts)
			for _, t := range ts {
				rs = append(rs, fmt.Sprintf("%d:%d", t, id))
				id++
			}
			r := "-"
			if len(rs) > 0 {
				r = strings.Join(rs, ",")
			}
			jobs = append(jobs, engJob{tag: "exitdelay", class: class, f: []string{strconv.Itoa(delay), strconv.Itoa(engSlackMs), r, parent}})
		}
	case "cancel":
		add := func(W int, kinds, point, class string) {
			jobs = append(jobs, engJob{tag: "cancel", class: class, f: []string{strconv.Itoa(W), kinds, point, seedOf()}})
		}
		runs := 24
		if thorough {
			runs = 300
		}
		for i := 0; i < runs; i++ {
			n := 4 + rng.Intn(9)
			kinds := randKinds(rng, n, "rrrnex")
			W := []int{1, 2, 7, 100}[rng.Intn(4)]
			add(W, kinds, "start:0", "start")
			add(W, kinds, "done:0", "during-exit-delay")
			cnt := map[string]int{"scan": 0, "put": 0, "err": 0, "write": 0}
			for _, c := range kinds {
				switch c {
				case 'r':
					cnt["scan"]++
					cnt["put"]++
					cnt["write"]++
				case 'n':
					cnt["scan"]++
				case 'e':
					cnt["scan"]++
					cnt["err"]++
				case 'x':
					cnt["err"]++
				}
			}
			for _, kind := range []string{"scan", "put", "err", "write"} {
				for k := 0; k < cnt[kind]; k++ {
					add(W, kinds, fmt.Sprintf("%s:%d", kind, k), fmt.Sprintf("W%d/%s", W, kind))
				}
			}
		}
		// full buffers: > cap results / errors queued when the cancellation arrives
		heavy := 3
		if thorough {
			heavy = 30
		}
		for i := 0; i < heavy; i++ {
			W := []int{2, 100, 1000}[rng.Intn(3)]
			kinds := randKinds(rng, 2400, "rrrrrrre")
			add(W, kinds, fmt.Sprintf("write:%d", 1+rng.Intn(1500)), "full-buffers/write")
			add(W, kinds, fmt.Sprintf("put:%d", 900+rng.Intn(1200)), "full-buffers/put")
			add(W, randKinds(rng, 600, "eeexr"), fmt.Sprintf("err:%d", 50+rng.Intn(300)), "full-buffers/err")
			add(W, kinds, fmt.Sprintf("scan:%d", rng.Intn(2400)), "full-buffers/scan")
			if W >= 100 {
				// enough detections to fill results (1000) AND internalResults (1000) behind a slow logger,
				// with workers blocked inside Put when the cancellation arrives
				long := randKinds(rng, 3800, "rrrrrrrrrrrre")
				add(W, long, fmt.Sprintf("write:%d/slow", 200+rng.Intn(300)), "full-buffers/slow-consumer/write")
				add(W, long, fmt.Sprintf("scan:%d/slow", 3300+rng.Intn(400)), "full-buffers/slow-consumer/scan")
				add(W, randKinds(rng, 700, "eeeexr"), fmt.Sprintf("err:%d/slow", 20+rng.Intn(100)), "full-buffers/slow-consumer/err")
			}
		}
	}
	return jobs
}

// ---------------------------------------------------------------- parent / child plumbing

func engineFamily(r *hx.Run, comp string) {
	switch comp {
	case "engine":
		r.Rule = "case = (wiring mode, worker count W in {1,2,7,100,1000}, scripted target list over {detects, nothing, fails, error entry}, latency seed); REAL engine + resultChan + LogResults + startScanEngine at the default exit delay; non-trivial class = (W, mix/size class: tiny, mixed, positives, failures, >2x1000 results, >100 errors, bursts, wired, wired+limiter, generr)"
	case "exitdelay":
		r.Rule = "case = (exit delay, reply arrival times relative to completion, optional Ctrl-C time); REAL startScanEngine + resultChan + LogResults with a fake engine (done at 0); class = (delay, number of replies, parent cancel before/after/none)"
	case "cancel":
		r.Rule = "case = (W, target list, cancellation point = k-th Scan / Put / error record / output write, or before start), every k of short runs plus runs with full buffers; REAL engine + startScanEngine; class = (W, kind of cancel point)"
	}
	jobs := engineJobs(r.Rng, r.Tier, comp)
	outPath := os.Getenv("SXDIFF_OUT")
	if os.Getenv("SXDIFF_CHILD") == "1" {
		engineChild(jobs, outPath, os.Getenv("SXDIFF_ONLY"))
		return
	}
	work := os.Getenv("VERIF_WORK")
	if work == "" {
		work = os.TempDir()
	}
	outPath = fmt.Sprintf("%s/%s.child.%d.out", work, comp, os.Getpid())
	defer os.Remove(outPath)
	got := map[int]string{}
	dump := runChild(comp, r, outPath, "", got)
	if len(got) < len(jobs) {
		// the child died: find the crashing input among the unfinished cases, one process per case
		r.Notes = append(r.Notes, "child process died; goroutine dump head: "+dump)
		tried := 0
		for i := range jobs {
			if _, ok := got[i]; ok {
				continue
			}
			if tried >= 24 {
				break
			}
			tried++
			d := runChild(comp, r, outPath, strconv.Itoa(i), got)
			if _, ok := got[i]; !ok {
				d = strings.Map(func(c rune) rune {
					if c == '\t' || c == '\n' || c == ';' || c == '|' || c == '=' {
						return ' '
					}
					return c
				}, d)
				switch comp {
				case "engine":
					got[i] = "sc=;pr=;er=;nput=-;nout=0;fifo=-;doneok=0;conc=0;ret=0;early=0;panic=1;dump=" + d
				case "exitdelay":
					got[i] = "pr=;ret=0;panic=1|tcancel=0;tret=0;out=-;dump=" + d
				case "cancel":
					got[i] = "ret=0;panic=1;lines=0|sc=;pr=;er=;tret=0;bound=0;out=-;dump=" + d
				}
			}
		}
	}
	for i, j := range jobs {
		obs, ok := got[i]
		if !ok {
			continue // not run (child died before it and the retry budget is spent)
		}
		r.Count(strings.SplitN(j.class, "/", 2)[0])
		fields := append([]string{j.tag}, j.f...)
		fields = append(fields, obs)
		r.Case(j.class, fields...)
	}
}

// runChild runs the component's cases (all, or only index `only`) in a child process and merges the
// finished ones into got; returns the head of the child's stderr when it died.
func runChild(comp string, r *hx.Run, outPath, only string, got map[int]string) string {
	os.Remove(outPath)
	cmd := exec.Command(os.Args[0], comp, "-seed", strconv.FormatInt(r.Seed, 10), "-tier", r.Tier, "-cases", os.DevNull, "-stats", os.DevNull)
	cmd.Env = append(os.Environ(), "SXDIFF_CHILD=1", "SXDIFF_OUT="+outPath, "SXDIFF_ONLY="+only)
	var stderr bytes.Buffer
	cmd.Stderr = &stderr
	err := cmd.Run()
	if f, e := os.Open(outPath); e == nil {
		sc := bufio.NewScanner(f)
		sc.Buffer(make([]byte, 1<<20), 1<<26)
		for sc.Scan() {
			p := strings.SplitN(sc.Text(), "\t", 2)
			if len(p) == 2 {
				i, _ := strconv.Atoi(p[0])
				got[i] = p[1]
			}
		}
		f.Close()
	}
	if err != nil {
		s := stderr.String()
		if len(s) > 600 {
			s = s[:600]
		}
		return s
	}
	return ""
}

func engineChild(jobs []engJob, outPath, only string) {
	f, err := os.OpenFile(outPath, os.O_CREATE|os.O_WRONLY|os.O_APPEND, 0o644)
	if err != nil {
		panic(err)
	}
	var fmu sync.Mutex
	emit := func(i int, obs string) {
		fmu.Lock()
		fmt.Fprintf(f, "%d\t%s\n", i, obs)
		fmu.Unlock()
	}
	if only != "" {
		i, _ := strconv.Atoi(only)
		emit(i, runEngineJob(jobs[i]))
		f.Close()
		return
	}
	par := 10
	var wg sync.WaitGroup
	sem := make(chan struct{}, par)
	var next int64 = -1
	for w := 0; w < par; w++ {
		wg.Add(1)
		go func() {
			defer wg.Done()
			for {
				i := int(atomic.AddInt64(&next, 1))
				if i >= len(jobs) {
					return
				}
				sem <- struct{}{}
				emit(i, runEngineJob(jobs[i]))
				<-sem
			}
		}()
	}
	wg.Wait()
	f.Close()
}
