package main

// Component `limiter` (C15).
//
//  lim      the REAL go.uber.org/ratelimit limiter (the version /repo's go.mod selects) under a scripted
//           clock: arbitrary readings (monotone or not, near Go's zero time, bursts, idle periods), the
//           andres-erbsen mock clock driven as a sequential sender, and concurrent Takes from several
//           goroutines whose CAS order is reconstructed from the (unique, increasing) readings.
//  limwrap  the REAL wrappers packet.NewRateLimitReadWriter / scan.NewRateLimitScanner around a counting
//           limiter and a recording delegate.
//  limrt    the REAL wiring genericScanCmdOpts.newScanEngine (hook VerifGenericScanEngine) run in real time.

import (
	"bytes"
	"context"
	"fmt"
	"math"
	"math/rand"
	"net"
	"runtime"
	"strconv"
	"strings"
	"sync"
	"sync/atomic"
	"time"

	"github.com/andres-erbsen/clock"
	"github.com/google/gopacket"
	"github.com/v-byte-cpu/sx/command"
	"github.com/v-byte-cpu/sx/pkg/packet"
	"github.com/v-byte-cpu/sx/pkg/scan"
	"go.uber.org/ratelimit"
	"sxverif/harness/internal/hx"
)

func init() {
	components["limiter"] = limiterComponent
	replayers["lim"] = func(f []string) string {
		return runLimScripted(atoi64(f[1]), atoi64(f[2]), f[3], f[4], parseI64s(f[5]))
	}
	replayers["limconc"] = func(f []string) string {
		return runLimConcurrent(atoi64(f[1]), atoi64(f[2]), int(atoi64(f[3])), int(atoi64(f[4])), int(atoi64(f[5])), atoi64(f[6]))
	}
	replayers["limwrap"] = func(f []string) string { return runLimWrap(f[1], f[2]) }
	replayers["limrt"] = func(f []string) string {
		return runLimRT(int(atoi64(f[1])), int(atoi64(f[2])), time.Duration(atoi64(f[3])), int(atoi64(f[4])))
	}
}

func atoi64(s string) int64 {
	v, err := strconv.ParseInt(s, 10, 64)
	if err != nil {
		panic(err)
	}
	return v
}

func parseI64s(s string) []int64 {
	if s == "-" || s == "" {
		return nil
	}
	parts := strings.Split(s, ",")
	out := make([]int64, len(parts))
	for i, p := range parts {
		out[i] = atoi64(p)
	}
	return out
}

func joinI64s(v []int64) string {
	if len(v) == 0 {
		return "-"
	}
	var sb strings.Builder
	for i, x := range v {
		if i > 0 {
			sb.WriteByte(',')
		}
		sb.WriteString(strconv.FormatInt(x, 10))
	}
	return sb.String()
}

// ---------------------------------------------------------------- lim: scripted clock

func epochTime(epoch string) time.Time {
	if epoch == "z" {
		return time.Time{}
	}
	return time.Unix(0, 0).UTC()
}

// scriptClock hands out the scripted readings in order and records the Sleep arguments.
type scriptClock struct {
	base     time.Time
	readings []int64
	i        int
	sleeps   []int64
	overrun  bool
}

func (c *scriptClock) Now() time.Time {
	if c.i >= len(c.readings) {
		c.overrun = true
		return c.base
	}
	t := c.base.Add(time.Duration(c.readings[c.i]))
	c.i++
	return t
}

func (c *scriptClock) Sleep(d time.Duration) { c.sleeps = append(c.sleeps, int64(d)) }

func limOptions(w int64, slack string, clk ratelimit.Clock) []ratelimit.Option {
	opts := []ratelimit.Option{ratelimit.Per(time.Duration(w)), ratelimit.WithClock(clk)}
	if slack != "d" {
		opts = append(opts, ratelimit.WithSlack(int(atoi64(slack))))
	}
	return opts
}

// runLimScripted: one Take per reading, single goroutine (each Take reads the clock exactly once).
func runLimScripted(n, w int64, slack, epoch string, nows []int64) string {
	base := epochTime(epoch)
	clk := &scriptClock{base: base, readings: nows}
	var rel []int64
	panicked, _ := hx.Recover(func() {
		lim := ratelimit.New(int(n), limOptions(w, slack, clk)...)
		for range nows {
			t := lim.Take()
			rel = append(rel, int64(t.Sub(base)))
		}
	})
	if panicked {
		return "PANIC"
	}
	out := "r=" + joinI64s(rel) + ";s=" + joinI64s(clk.sleeps)
	if clk.overrun || clk.i != len(nows) {
		out += ";clock-reads=" + strconv.Itoa(clk.i)
	}
	return out
}

// seqMockClock: the andres-erbsen mock clock as a sequential sender sees it — sleeping advances the
// clock (the mock's own Sleep blocks until another goroutine advances it).
type seqMockClock struct {
	m      *clock.Mock
	nows   []int64
	sleeps []int64
}

func (c *seqMockClock) Now() time.Time {
	t := c.m.Now()
	c.nows = append(c.nows, int64(t.Sub(time.Unix(0, 0))))
	return t
}

func (c *seqMockClock) Sleep(d time.Duration) {
	c.sleeps = append(c.sleeps, int64(d))
	if d > 0 {
		c.m.Add(d)
	}
}

// runLimMock: gaps[j] = think time before Take j.  Returns the readings the limiter saw and the output.
func runLimMock(n, w int64, gaps []int64) ([]int64, string) {
	clk := &seqMockClock{m: clock.NewMock()}
	lim := ratelimit.New(int(n), ratelimit.Per(time.Duration(w)), ratelimit.WithClock(clk))
	var rel []int64
	for _, g := range gaps {
		if g > 0 {
			clk.m.Add(time.Duration(g))
		}
		t := lim.Take()
		rel = append(rel, int64(t.Sub(time.Unix(0, 0))))
	}
	return clk.nows, "r=" + joinI64s(rel) + ";s=" + joinI64s(clk.sleeps)
}

// ---- concurrent Takes: shared clock with unique increasing readings, CAS order reconstructed

func goid() int64 {
	var buf [64]byte
	n := runtime.Stack(buf[:], false)
	// "goroutine 123 [running]:"
	f := strings.Fields(string(buf[:n]))
	if len(f) < 2 {
		return -1
	}
	id, _ := strconv.ParseInt(f[1], 10, 64)
	return id
}

type concClock struct {
	prefix []int64 // strictly increasing readings (ns since the Unix epoch)
	next   int64
	mu     sync.Mutex
	last   map[int64]int64 // goroutine -> most recent reading
	sleep  map[int64]int64 // goroutine -> most recent Sleep argument
	over   bool
}

func (c *concClock) Now() time.Time {
	i := atomic.AddInt64(&c.next, 1) - 1
	g := goid()
	c.mu.Lock()
	defer c.mu.Unlock()
	if int(i) >= len(c.prefix) {
		c.over = true
		i = int64(len(c.prefix) - 1)
	}
	c.last[g] = c.prefix[i]
	return time.Unix(0, 0).Add(time.Duration(c.prefix[i]))
}

func (c *concClock) Sleep(d time.Duration) {
	g := goid()
	c.mu.Lock()
	c.sleep[g] = int64(d)
	c.mu.Unlock()
}

// limIncs: the increments between consecutive clock readings of a concurrent run, from its own seed
func limIncs(cseed int64, mode int, p int64, count int) []int64 {
	rng := rand.New(rand.NewSource(cseed))
	incs := make([]int64, count)
	unit := p
	if unit == 0 {
		unit = 1000
	}
	for j := range incs {
		switch mode {
		case 0:
			incs[j] = 1 + rng.Int63n(unit/4+1)
		case 1:
			incs[j] = 1 + rng.Int63n(2*unit+1)
		default:
			incs[j] = 1
			if rng.Intn(20) == 0 {
				incs[j] = 1 + 12*unit
			}
		}
	}
	return incs
}

// runLimConcurrent: `goroutines` goroutines take `each` times from one real limiter.  The clock hands
// out unique, strictly increasing readings; a reading may be stale by the time its CAS succeeds (the
// clock is read before the state is loaded) and failed CAS iterations read the clock again, so the CAS
// order is NOT observable from here.  Observed: per goroutine, in program order, the reading of the
// successful iteration, the returned release time and the Sleep argument; the driver looks for a
// linearisation (an interleaving of the goroutines' sequences the sequential model reproduces exactly).
func runLimConcurrent(n, w int64, goroutines, each, mode int, cseed int64) string {
	incs := limIncs(cseed, mode, w/n, goroutines*each*40)
	prefix := make([]int64, len(incs))
	var acc int64 = 1_000_000_000
	for i, d := range incs {
		acc += d
		prefix[i] = acc
	}
	clk := &concClock{prefix: prefix, last: map[int64]int64{}, sleep: map[int64]int64{}}
	lim := ratelimit.New(int(n), ratelimit.Per(time.Duration(w)), ratelimit.WithClock(clk))
	recs := make([][]string, goroutines)
	var wg sync.WaitGroup
	start := make(chan struct{})
	for g := 0; g < goroutines; g++ {
		wg.Add(1)
		go func(g int) {
			defer wg.Done()
			id := goid()
			<-start
			for k := 0; k < each; k++ {
				t := lim.Take()
				clk.mu.Lock()
				recs[g] = append(recs[g], fmt.Sprintf("%d/%d/%d", clk.last[id], int64(t.Sub(time.Unix(0, 0))), clk.sleep[id]))
				clk.mu.Unlock()
				if k%3 == 0 {
					runtime.Gosched()
				}
			}
		}(g)
	}
	close(start)
	wg.Wait()
	if clk.over {
		return "OUT-OF-READINGS"
	}
	parts := make([]string, goroutines)
	for g := range recs {
		parts[g] = strings.Join(recs[g], ",")
	}
	obs := strings.Join(parts, ";")
	hint, verdict := limLineariseHint(w/n, recs)
	switch verdict {
	case "found":
		return obs + "#" + hint
	case "none":
		return obs + "#-"
	}
	return "SEARCH-EXHAUSTED"
}

// limLineariseHint proposes a CAS order (a sequence of goroutine indices) for the driver to CHECK against
// the Lean model; nothing here is trusted: a wrong or missing hint makes the driver search itself and
// report NO-LINEARISATION.  The search uses the transition function of Take in potential form
// (psi = last + sleepFor), depth first, earliest reading first, with memoisation and dead-end pruning.
func limLineariseHint(p int64, recs [][]string) (string, string) {
	type obs struct{ now, rel, sleep int64 }
	qs := make([][]obs, len(recs))
	total := 0
	for g, q := range recs {
		for _, t := range q {
			f := strings.Split(t, "/")
			qs[g] = append(qs[g], obs{atoi64(f[0]), atoi64(f[1]), atoi64(f[2])})
			total++
		}
	}
	pos := make([]int, len(qs))
	order := make([]string, 0, total)
	memo := map[string]struct{}{}
	budget := 3_000_000
	exhausted := false
	var dfs func(first bool, psi int64, placed int) bool
	dfs = func(first bool, psi int64, placed int) bool {
		if placed == total {
			return true
		}
		if budget == 0 {
			exhausted = true
			return false
		}
		budget--
		var kb strings.Builder
		for _, x := range pos {
			kb.WriteByte(byte(x))
			kb.WriteByte(byte(x >> 8))
		}
		kb.WriteString(strconv.FormatInt(psi, 36))
		key := kb.String()
		if _, seen := memo[key]; seen {
			return false
		}
		memo[key] = struct{}{}
		if !first {
			for g := range qs {
				for _, o := range qs[g][pos[g]:] {
					if o.rel > o.now { // slept: needs psi_before = rel - p exactly
						if o.rel-p < psi {
							return false
						}
					} else if o.now < psi+p {
						return false
					}
				}
			}
		}
		type cand struct {
			g   int
			now int64
			psi int64
		}
		var cands []cand
		for g := range qs {
			if pos[g] == len(qs[g]) {
				continue
			}
			o := qs[g][pos[g]]
			switch {
			case first:
				if o.rel == o.now {
					cands = append(cands, cand{g, o.now, o.now})
				}
			case o.rel > o.now:
				if o.rel == psi+p && o.sleep == o.rel-o.now {
					cands = append(cands, cand{g, o.now, psi + p})
				}
			default:
				if o.now >= psi+p {
					np := psi + p
					if o.now-10*p > np {
						np = o.now - 10*p
					}
					cands = append(cands, cand{g, o.now, np})
				}
			}
		}
		for i := 1; i < len(cands); i++ {
			for j := i; j > 0 && cands[j].now < cands[j-1].now; j-- {
				cands[j], cands[j-1] = cands[j-1], cands[j]
			}
		}
		for _, c := range cands {
			pos[c.g]++
			order = append(order, strconv.Itoa(c.g))
			if dfs(false, c.psi, placed+1) {
				return true
			}
			order = order[:len(order)-1]
			pos[c.g]--
			if exhausted {
				return false
			}
		}
		return false
	}
	if dfs(true, 0, 0) {
		return strings.Join(order, ","), "found"
	}
	if exhausted {
		return "", "exhausted"
	}
	return "", "none"
}

// ---------------------------------------------------------------- limwrap

type wrapLog struct {
	mu  sync.Mutex
	evs []byte
}

func (l *wrapLog) add(b byte) {
	l.mu.Lock()
	l.evs = append(l.evs, b)
	l.mu.Unlock()
}

func (l *wrapLog) cut() string {
	l.mu.Lock()
	defer l.mu.Unlock()
	s := string(l.evs)
	l.evs = l.evs[:0]
	return s
}

type countingLimiter struct{ log *wrapLog }

func (c *countingLimiter) Take() time.Time { c.log.add('T'); return time.Time{} }

type recRW struct {
	log     *wrapLog
	gotPkt  []byte
	retErr  error
	retData []byte
	retCI   *gopacket.CaptureInfo
}

func (d *recRW) WritePacketData(pkt []byte) error {
	d.log.add('D')
	d.gotPkt = pkt
	return d.retErr
}

func (d *recRW) ReadPacketData() ([]byte, *gopacket.CaptureInfo, error) {
	d.log.add('D')
	return d.retData, d.retCI, d.retErr
}

type recResult struct{ id int }

func (r *recResult) String() string               { return "r" }
func (r *recResult) MarshalJSON() ([]byte, error) { return []byte("{}"), nil }
func (r *recResult) ID() string                   { return strconv.Itoa(r.id) }

type limRecScanner struct {
	log    *wrapLog
	gotCtx context.Context
	gotReq *scan.Request
	retRes scan.Result
	retErr error
}

func (s *limRecScanner) Scan(ctx context.Context, r *scan.Request) (scan.Result, error) {
	s.log.add('D')
	s.gotCtx, s.gotReq = ctx, r
	return s.retRes, s.retErr
}

type ctxKey struct{}

func runLimWrap(kind, ops string) string {
	if ops == "-" {
		ops = ""
	}
	log := &wrapLog{}
	var parts []string
	panicked, msg := hx.Recover(func() {
		switch kind {
		case "rw":
			d := &recRW{log: log}
			w := packet.NewRateLimitReadWriter(d, &countingLimiter{log})
			for i := 0; i < len(ops); i++ {
				pass := false
				// every third call the delegate fails: the error must come back unchanged
				d.retErr = nil
				if i%3 == 2 {
					d.retErr = fmt.Errorf("delegate error %d", i)
				}
				if ops[i] == 'S' {
					pkt := bytes.Repeat([]byte{byte(i), 0xa5}, 7+i%5)
					want := append([]byte(nil), pkt...)
					d.gotPkt = nil
					err := w.WritePacketData(pkt)
					pass = err == d.retErr && len(d.gotPkt) == len(pkt) && len(pkt) > 0 && &d.gotPkt[0] == &pkt[0] &&
						bytes.Equal(pkt, want)
				} else {
					d.retData = []byte{byte(i), 1, 2}
					d.retCI = &gopacket.CaptureInfo{Length: i}
					data, ci, err := w.ReadPacketData()
					pass = err == d.retErr && ci == d.retCI && len(data) == 3 && &data[0] == &d.retData[0]
				}
				parts = append(parts, fmt.Sprintf("%c:%s:%d", ops[i], log.cut(), b2i(pass)))
			}
		case "scan":
			d := &limRecScanner{log: log}
			s := scan.NewRateLimitScanner(d, &countingLimiter{log})
			for i := 0; i < len(ops); i++ {
				d.retErr, d.retRes = nil, &recResult{i}
				if i%3 == 2 {
					d.retErr, d.retRes = fmt.Errorf("scan error %d", i), nil
				}
				if i%4 == 1 {
					d.retRes = nil
				}
				ctx := context.WithValue(context.Background(), ctxKey{}, i)
				req := &scan.Request{DstIP: net.IPv4(10, 0, 0, byte(i)), DstPort: uint16(i)}
				d.gotCtx, d.gotReq = nil, nil
				res, err := s.Scan(ctx, req)
				pass := err == d.retErr && res == d.retRes && d.gotCtx == ctx && d.gotReq == req
				parts = append(parts, fmt.Sprintf("S:%s:%d", log.cut(), b2i(pass)))
			}
		}
	})
	if panicked {
		return "PANIC " + strings.ReplaceAll(strings.ReplaceAll(msg, "\t", " "), "\n", " ")
	}
	if len(parts) == 0 {
		return "-"
	}
	return strings.Join(parts, ";")
}

func b2i(b bool) int {
	if b {
		return 1
	}
	return 0
}

// ---------------------------------------------------------------- limrt

type stampScanner struct {
	mu     sync.Mutex
	t0     time.Time
	stamps []int64
}

func (s *stampScanner) Scan(ctx context.Context, r *scan.Request) (scan.Result, error) {
	now := time.Now() // carries the monotonic reading
	s.mu.Lock()
	s.stamps = append(s.stamps, int64(now.Sub(s.t0)))
	s.mu.Unlock()
	return nil, nil
}

// runLimRT: `count` requests through the engine the generic commands build, rate n per w.
func runLimRT(workers, n int, w time.Duration, count int) string {
	// count = hosts*ports with hosts a power of two
	hosts, ports := 1, count
	for ports%2 == 0 && hosts < 16 {
		hosts, ports = hosts*2, ports/2
	}
	ones := 32 - int(math.Log2(float64(hosts)))
	_, subnet, _ := net.ParseCIDR(fmt.Sprintf("10.9.0.0/%d", ones))
	pr := []*scan.PortRange{{StartPort: 1, EndPort: uint16(ports)}}
	sc := &stampScanner{t0: time.Now()}
	ctx, cancel := context.WithTimeout(context.Background(), 60*time.Second)
	defer cancel()
	var out string
	panicked, msg := hx.Recover(func() {
		eng := command.VerifGenericScanEngine(ctx, &command.VerifOpts{Ports: pr, Workers: workers, RateCount: n, RateWindow: w}, sc)
		done, errc := eng.Start(ctx, &scan.Range{DstSubnet: subnet, Ports: pr})
		var errs []error
		for done != nil || errc != nil {
			select {
			case _, ok := <-done:
				if !ok {
					done = nil
				}
			case e, ok := <-errc:
				if !ok {
					errc = nil
				} else {
					errs = append(errs, e)
				}
			}
		}
		if len(errs) > 0 {
			out = "ERR " + strings.ReplaceAll(fmt.Sprint(errs), "\n", " ")
		}
	})
	if panicked {
		return "PANIC " + strings.ReplaceAll(strings.ReplaceAll(msg, "\t", " "), "\n", " ")
	}
	if out != "" {
		return out
	}
	sc.mu.Lock()
	defer sc.mu.Unlock()
	return "t=" + joinI64s(sc.stamps)
}

// ---------------------------------------------------------------- generators

type limCfg struct {
	n, w int64
	name string
}

func pickCfg(r *hx.Run) limCfg {
	fixed := []limCfg{
		{1, 1_000_000_000, "1/s"}, {10, 1_000_000_000, "10/s"}, {1000, 1_000_000_000, "1000/s"},
		{3, 1_000_000_000, "3/s-inexact"}, {7, 1000, "7/us-inexact"}, {1, 0, "W=0"}, {5, 0, "W=0"},
		{100, 60_000_000_000, "100/min"}, {2147483647, 1_000_000_000, "N>W:p=0"}, {1000, 999, "N>W:p=0"},
		{1, 1, "p=1"}, {1, 7, "p=7"}, {999, 1_000_000, "inexact"}, {10000, 1_000_000_000, "10000/s"},
	}
	if r.Rng.Intn(3) > 0 {
		return fixed[r.Rng.Intn(len(fixed))]
	}
	n := int64(1 + r.Rng.Intn(5000))
	if r.Rng.Intn(6) == 0 {
		n = int64(1 + r.Rng.Int31())
	}
	w := []int64{0, 1, 999, 1_000_000, 1_000_000_000, 3_600_000_000_000}[r.Rng.Intn(6)]
	if r.Rng.Intn(2) == 0 {
		w = r.Rng.Int63n(10_000_000_000)
	}
	name := "random"
	if w/n == 0 {
		name = "random:p=0"
	} else if w%n != 0 {
		name = "random-inexact"
	}
	return limCfg{n, w, name}
}

// gaps between consecutive readings, by pattern; p = perRequest
func limGaps(r *hx.Run, pattern string, p int64, count int) []int64 {
	g := make([]int64, count)
	unit := p
	if unit == 0 {
		unit = 1000
	}
	frac := func(num, den int64) int64 { return unit * num / den }
	for i := range g {
		switch pattern {
		case "burst":
			g[i] = 0
		case "tiny":
			g[i] = int64(r.Rng.Intn(3))
		case "steady":
			g[i] = unit
		case "jitter":
			g[i] = frac(int64(50+r.Rng.Intn(101)), 100)
		case "slow":
			g[i] = frac(int64(100+r.Rng.Intn(2000)), 100)
		case "idle-burst":
			if i%25 == 0 {
				g[i] = frac(int64(5+r.Rng.Intn(40)), 1)
			} else {
				g[i] = int64(r.Rng.Intn(2)) * frac(1, 20)
			}
		case "sharp":
			// idle limiter, the first write returns 0.9p late, then back-to-back
			switch {
			case i == 0:
				g[i] = 0
			case i == 1:
				g[i] = frac(100, 1)
			case i == 2:
				g[i] = frac(9, 10)
			default:
				g[i] = 0
			}
		case "nonmono":
			g[i] = frac(int64(r.Rng.Intn(400)-150), 100)
		case "wild":
			g[i] = r.Rng.Int63n(4*unit+2) - 2*unit
			if r.Rng.Intn(10) == 0 {
				g[i] = -frac(int64(r.Rng.Intn(30)), 1)
			}
		default: // mixed
			g[i] = []int64{0, 0, frac(1, 10), frac(1, 2), unit - 1, unit, unit + 1, 2 * unit, 11 * unit, 15 * unit, 100 * unit}[r.Rng.Intn(11)]
		}
	}
	return g
}

var limPatterns = []string{"burst", "tiny", "steady", "jitter", "slow", "idle-burst", "sharp", "nonmono", "wild", "mixed"}

func limiterComponent(r *hx.Run) {
	r.Rule = "lim: case = (N, W, slack option, epoch, clock readings in CAS order) on the real ratelimit limiter; non-trivial class = (rate class {exact, inexact, p=0, W=0}, arrival pattern {burst, tiny, steady, jitter, slow, idle-burst, sharp, nonmono, wild, mixed, mock-seq, concurrent-G}, clock class {after-zero, zero-time-hit, before-zero}, slack, branches seen {first, sleep, nosleep, clip}); " +
		"limwrap: case = (wrapper, sequence of calls), exhaustive up to a length bound + random long; class = (wrapper, has-send, has-recv, delegate-error); " +
		"limrt: case = (workers, N, W, count) run in real time through the real newScanEngine wiring; class = (workers, limited?)"
	thorough := r.Tier == "thorough"

	emitLim := func(class string, n, w int64, slack, epoch string, nows []int64, obs string) {
		r.Case(class, "lim", strconv.FormatInt(n, 10), strconv.FormatInt(w, 10), slack, epoch, joinI64s(nows), obs)
	}
	// which branches of Take a run went through (from the observation alone)
	branches := func(nows []int64, obs string) string {
		if !strings.HasPrefix(obs, "r=") {
			return "panic"
		}
		f := strings.Split(obs, ";")
		if len(f) < 2 {
			return "?"
		}
		sl := parseI64s(strings.TrimPrefix(f[1], "s="))
		b := "first"
		sleep, nosleep := false, false
		for i, s := range sl {
			if s > 0 {
				sleep = true
			} else if i > 0 {
				nosleep = true
			}
		}
		if sleep {
			b += "+sleep"
		}
		if nosleep {
			b += "+nosleep"
		}
		return b
	}

	// ---- (A) scripted readings after the zero time (epoch u)
	nA := 1500
	if thorough {
		nA = 30000
	}
	for i := 0; i < nA; i++ {
		c := pickCfg(r)
		pat := limPatterns[r.Rng.Intn(len(limPatterns))]
		count := 1 + r.Rng.Intn(60)
		if r.Rng.Intn(12) == 0 {
			count = 100 + r.Rng.Intn(150)
		}
		slack := "d"
		if r.Rng.Intn(8) == 0 {
			slack = []string{"0", "1", "3", "100"}[r.Rng.Intn(4)]
		}
		gaps := limGaps(r, pat, c.w/c.n, count)
		base := int64(1_600_000_000)*1_000_000_000 + r.Rng.Int63n(1_000_000_000_000)
		nows := make([]int64, count)
		acc := base
		for j, g := range gaps {
			acc += g
			nows[j] = acc
		}
		obs := runLimScripted(c.n, c.w, slack, "u", nows)
		r.Count("pattern:" + pat)
		r.Count("rate:" + c.name)
		r.Count("slack:" + slack)
		emitLim(strings.Join([]string{c.name, pat, "after-zero", "slack=" + slack, branches(nows, obs)}, "/"), c.n, c.w, slack, "u", nows, obs)
	}

	// ---- (Z) readings around Go's zero time (epoch z): the first-call test `last.IsZero()`
	nZ := 300
	if thorough {
		nZ = 5000
	}
	for i := 0; i < nZ; i++ {
		c := pickCfg(r)
		p := c.w / c.n
		count := 2 + r.Rng.Intn(30)
		pat := []string{"burst", "steady", "nonmono", "wild", "mixed"}[r.Rng.Intn(5)]
		gaps := limGaps(r, pat, p, count)
		nows := make([]int64, count)
		var acc int64
		clockClass := "after-zero"
		switch r.Rng.Intn(4) {
		case 0: // strictly after zero, small values
			acc = 1 + int64(r.Rng.Intn(5))
			for j := range gaps {
				if gaps[j] < 0 {
					gaps[j] = -gaps[j]
				}
			}
		case 1: // a reading that is exactly the zero time somewhere
			acc = 0
			clockClass = "zero-time-hit"
		case 2: // starts before the zero time
			acc = -int64(r.Rng.Intn(int(2*p+5) + 1))
			clockClass = "before-zero"
		default:
			acc = int64(r.Rng.Intn(50))
			clockClass = "near-zero"
		}
		for j, g := range gaps {
			if j > 0 {
				acc += g
			}
			nows[j] = acc
		}
		if clockClass == "zero-time-hit" && count > 3 {
			nows[1+r.Rng.Intn(count-1)] = 0
		}
		obs := runLimScripted(c.n, c.w, "d", "z", nows)
		r.Count("clock:" + clockClass)
		emitLim(strings.Join([]string{c.name, pat, clockClass, branches(nows, obs)}, "/"), c.n, c.w, "d", "z", nows, obs)
	}

	// ---- rate 0: ratelimit.New divides by zero (the wiring never gets there: rateCount > 0)
	emitLim("N=0/panic", 0, 1_000_000_000, "d", "u", []int64{1}, runLimScripted(0, 1_000_000_000, "d", "u", []int64{1}))
	r.Count("rate:N=0")

	// ---- (M) the andres-erbsen mock clock as a sequential sender (each Add costs 1 ms of real time)
	nM := 25
	if thorough {
		nM = 250
	}
	for i := 0; i < nM; i++ {
		c := pickCfg(r)
		pat := []string{"burst", "steady", "jitter", "slow", "idle-burst", "sharp", "mixed"}[r.Rng.Intn(7)]
		count := 5 + r.Rng.Intn(36)
		gaps := limGaps(r, pat, c.w/c.n, count)
		for j := range gaps {
			if gaps[j] < 0 {
				gaps[j] = 0
			}
		}
		gaps[0] += 1 + int64(r.Rng.Intn(1000))
		nows, obs := runLimMock(c.n, c.w, gaps)
		r.Count("pattern:mock-seq")
		emitLim(strings.Join([]string{c.name, "mock-seq:" + pat, "after-zero", branches(nows, obs)}, "/"), c.n, c.w, "d", "u", nows, obs)
	}

	// ---- (C) concurrent Takes
	nC := 150
	if thorough {
		nC = 3000
	}
	for i := 0; i < nC; i++ {
		c := pickCfg(r)
		g := []int{2, 3, 4, 8, 16}[r.Rng.Intn(5)]
		each := 3 + r.Rng.Intn(20)
		mode := r.Rng.Intn(3)
		cseed := r.Rng.Int63()
		obs := runLimConcurrent(c.n, c.w, g, each, mode, cseed)
		if obs == "SEARCH-EXHAUSTED" || obs == "OUT-OF-READINGS" {
			r.Count("concurrent:dropped:" + obs)
			r.Notes = append(r.Notes, "concurrent case dropped ("+obs+"): no CAS-order hint could be proposed within the search budget")
			continue
		}
		r.Count("pattern:concurrent")
		r.Case(fmt.Sprintf("%s/concurrent-%d/mode%d", c.name, g, mode), "limconc", strconv.FormatInt(c.n, 10), strconv.FormatInt(c.w, 10),
			strconv.Itoa(g), strconv.Itoa(each), strconv.Itoa(mode), strconv.FormatInt(cseed, 10), obs)
	}

	// ---- wrappers
	emitWrap := func(kind, ops string) {
		obs := runLimWrap(kind, ops)
		cls := kind
		if strings.Contains(ops, "S") {
			cls += "+send"
		}
		if strings.Contains(ops, "R") {
			cls += "+recv"
		}
		if len(ops) >= 3 {
			cls += "+delegate-error"
		}
		if len(ops) > 20 {
			cls += "+long"
		}
		o := ops
		if o == "" {
			o, cls = "-", ""
		}
		r.Count("wrap:" + kind)
		r.Case(cls, "limwrap", kind, o, obs)
	}
	maxLen := 7
	if thorough {
		maxLen = 11
	}
	var gen func(prefix string, depth int)
	gen = func(prefix string, depth int) {
		emitWrap("rw", prefix)
		if depth == 0 {
			return
		}
		gen(prefix+"S", depth-1)
		gen(prefix+"R", depth-1)
	}
	gen("", maxLen)
	for n := 0; n <= 40; n++ {
		emitWrap("scan", strings.Repeat("S", n))
	}
	nW := 100
	if thorough {
		nW = 2000
	}
	for i := 0; i < nW; i++ {
		n := 20 + r.Rng.Intn(300)
		var sb strings.Builder
		bias := 1 + r.Rng.Intn(4)
		for j := 0; j < n; j++ {
			if r.Rng.Intn(bias+1) == 0 {
				sb.WriteByte('S')
			} else {
				sb.WriteByte('R')
			}
		}
		emitWrap("rw", sb.String())
		emitWrap("scan", strings.Repeat("S", n))
	}

	// ---- real-time runs of the generic engine wiring
	type rt struct {
		workers, n int
		w          time.Duration
		count      int
	}
	rts := []rt{
		{1, 2000, time.Second, 64}, {1, 50, 100 * time.Millisecond, 40}, {1, 0, time.Second, 64},
		{1, 2147483647, time.Second, 64}, {4, 2000, time.Second, 64}, {1, 30, 15 * time.Millisecond, 96},
	}
	if thorough {
		rts = append(rts, rt{1, 1000, time.Second, 512}, rt{1, 100, 50 * time.Millisecond, 256}, rt{8, 1000, time.Second, 256},
			rt{1, 5000, time.Second, 1024}, rt{1, 7, 3 * time.Millisecond, 192}, rt{1, 1, time.Millisecond, 320},
			rt{100, 4000, time.Second, 512}, rt{1, 3, 0, 64})
	}
	for _, c := range rts {
		obs := runLimRT(c.workers, c.n, c.w, c.count)
		cls := fmt.Sprintf("workers=%d/", c.workers)
		switch {
		case c.n == 0:
			cls += "unlimited"
		case int64(c.w)/int64(c.n) == 0:
			cls += "p=0"
		default:
			cls += "limited"
		}
		r.Count("rt:" + cls)
		r.Case(cls, "limrt", strconv.Itoa(c.workers), strconv.Itoa(c.n), strconv.FormatInt(int64(c.w), 10), strconv.Itoa(c.count), obs)
	}
}
