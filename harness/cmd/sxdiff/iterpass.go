package main

// iterpass (C04) — the randomised iteration as the generators USE it: several passes, one after the other, taken
// from ONE generator instance (scan.NewIPGenerator / scan.NewPortGenerator), some of them left unfinished the way
// ipPortGenerator leaves the extra pass it opens after the last port of an engine run (the consumer goes away, the
// producer has read ahead into its channel buffer), some cancelled half way.  Every pass that is drained must
// yield every element of the range exactly once and then stop, whatever happened to the passes before it.
//
//	iterpass kind n script obs
//	     kind   = ip | port
//	     script = F (drained) | A<k> (abandoned after k reads, context left alive) | C<k> (cancelled after k reads), comma separated
//	     obs    = per drained pass "<count>:<1 iff every element of the range exactly once>", comma separated

import (
	"context"
	"encoding/binary"
	"fmt"
	"net"
	"strings"
	"time"

	"github.com/v-byte-cpu/sx/pkg/scan"
	"sxverif/harness/internal/hx"
)

func init() {
	components["iterpass"] = iterPassComponent
	replayers["iterpass"] = func(f []string) string {
		var n int
		fmt.Sscan(f[2], &n)
		return runIterPass(f[1], n, f[3])
	}
}

// waitReadAhead: the producer of an unfinished pass keeps going until its channel buffer is full
func waitReadAhead(length func() int) {
	last, t := length(), time.Now()
	for time.Since(t) < 3*time.Millisecond {
		time.Sleep(200 * time.Microsecond)
		if l := length(); l != last {
			last, t = l, time.Now()
		}
	}
}

func runIterPass(kind string, n int, script string) string {
	root := context.Background()
	// unfinished passes are ended one at a time when the case is over (cancel, then read to the end of the
	// channel), so that no two producers of one generator ever run at the same time
	var finish []func()
	defer func() {
		for _, f := range finish {
			f()
		}
	}()
	var out []string
	bits := 0
	for 1<<uint(bits) < n {
		bits++
	}
	base := uint32(10<<24 | 77<<16)
	rg := &scan.Range{DstSubnet: &net.IPNet{IP: net.IPv4(10, 77, 0, 0).To4(), Mask: net.CIDRMask(32-bits, 32)},
		Ports: []*scan.PortRange{{StartPort: 1000, EndPort: uint16(1000 + n - 1)}}}
	ipgen, portgen := scan.NewIPGenerator(), scan.NewPortGenerator()
	if kind == "nest" {
		return runIterNest(root, rg, ipgen, portgen, n, base, len(strings.Split(script, ","))-1)
	}
	for _, step := range strings.Split(script, ",") {
		ctx, cancel := context.WithCancel(root)
		// next() = the next element's offset in the range, ok=false at the end of the pass
		var next func() (int, bool)
		var length func() int
		switch kind {
		case "ip":
			ch, err := ipgen.IPs(ctx, rg)
			if err != nil {
				cancel()
				return "ERR " + hx.HexS(err.Error())
			}
			length = func() int { return len(ch) }
			next = func() (int, bool) {
				g, ok := <-ch
				if !ok {
					return 0, false
				}
				ip, err := g.GetIP()
				if err != nil || len(ip) != 4 {
					return -1, true
				}
				return int(binary.BigEndian.Uint32(ip) - base), true
			}
		default:
			ch, err := portgen.Ports(ctx, rg)
			if err != nil {
				cancel()
				return "ERR " + hx.HexS(err.Error())
			}
			length = func() int { return len(ch) }
			next = func() (int, bool) {
				g, ok := <-ch
				if !ok {
					return 0, false
				}
				p, err := g.GetPort()
				if err != nil {
					return -1, true
				}
				return int(p) - 1000, true
			}
		}
		switch step[0] {
		case 'F':
			seen := make([]bool, n)
			count, ok := 0, 1
			for {
				v, more := next()
				if !more {
					break
				}
				count++
				if count > 2*n+2 {
					ok = 0
					break
				}
				if v < 0 || v >= n || seen[v] {
					ok = 0
				} else {
					seen[v] = true
				}
			}
			if count != n {
				ok = 0
			}
			out = append(out, fmt.Sprintf("%d:%d", count, ok))
			cancel()
		default:
			k := 0
			fmt.Sscan(step[1:], &k)
			for i := 0; i < k; i++ {
				if _, more := next(); !more {
					break
				}
			}
			waitReadAhead(length)
			end := func() {
				cancel()
				// a cancelled producer runs on without sending and closes its channel at the end of the pass
				for {
					if _, more := next(); !more {
						break
					}
				}
			}
			if step[0] == 'C' {
				end() // nothing of it is left running when the next pass starts
			} else {
				finish = append(finish, end)
			}
		}
	}
	return strings.Join(out, ",")
}

// runIterNest: two iterations of the SAME size alive at once, the way ipPortGenerator nests them — one pass over n
// ports stays open while, for each of its first `inner` elements, a complete pass over a subnet of n addresses is
// taken from the IP generator (`-p 1000-1255` on a /24).  Every inner pass and the outer pass must each be a
// permutation; obs = the inner passes, then the outer one.
func runIterNest(root context.Context, rg *scan.Range, ipgen scan.IPGenerator, portgen scan.PortGenerator, n int, base uint32, inner int) string {
	ctx, cancel := context.WithCancel(root)
	defer cancel()
	ports, err := portgen.Ports(ctx, rg)
	if err != nil {
		return "ERR " + hx.HexS(err.Error())
	}
	var out []string
	seenP := make([]bool, n)
	countP, okP := 0, 1
	for g := range ports {
		countP++
		if countP > 2*n+2 {
			okP = 0
			break
		}
		p, err := g.GetPort()
		if v := int(p) - 1000; err != nil || v < 0 || v >= n || seenP[v] {
			okP = 0
		} else {
			seenP[v] = true
		}
		if countP > inner {
			continue
		}
		ips, err := ipgen.IPs(ctx, rg)
		if err != nil {
			return "ERR " + hx.HexS(err.Error())
		}
		seen := make([]bool, n)
		count, ok := 0, 1
		for ig := range ips {
			count++
			if count > 2*n+2 {
				ok = 0
				break
			}
			ip, err := ig.GetIP()
			if err != nil || len(ip) != 4 {
				ok = 0
				continue
			}
			if v := int(binary.BigEndian.Uint32(ip) - base); v < 0 || v >= n || seen[v] {
				ok = 0
			} else {
				seen[v] = true
			}
		}
		if count != n {
			ok = 0
		}
		out = append(out, fmt.Sprintf("%d:%d", count, ok))
	}
	if countP != n {
		okP = 0
	}
	for len(out) < inner { // the outer pass ended before every inner pass had its turn
		out = append(out, "0:0")
	}
	out = append(out, fmt.Sprintf("%d:%d", countP, okP))
	return strings.Join(out, ",")
}

func iterPassComponent(r *hx.Run) {
	r.Rule = "case = (generator kind {ip: scan.NewIPGenerator over a subnet, port: scan.NewPortGenerator over one range}, range size n = 2^b for b in 0..12 (ip) or 1..3000 (port), script of 2-6 passes taken one after the other from ONE generator instance: drained | abandoned after k reads with its context alive (producer parked on a full channel) | cancelled after k reads); observed = for every drained pass (count, every element exactly once); non-trivial class = (kind, size class, shape of the script before the last drained pass)"
	rng := r.Rng
	n := 400
	if r.Tier == "thorough" {
		n = 6000
	}
	// two live iterations of one size (a port range as long as the subnet is large)
	for b := 0; b <= 11; b++ {
		reps := 2
		if r.Tier == "thorough" {
			reps = 8
		}
		for j := 0; j < reps; j++ {
			size := 1 << uint(b)
			inner := 1 + rng.Intn(4)
			if inner > size {
				inner = size
			}
			script := strings.Repeat("F,", inner) + "F"
			r.Count("kind:nest")
			r.Case(fmt.Sprintf("nest/2^%d", b), "iterpass", "nest", fmt.Sprint(size), script, runIterPass("nest", size, script))
		}
	}
	for i := 0; i < n; i++ {
		kind := "ip"
		size := 1 << uint(rng.Intn(13))
		if i%4 == 3 {
			kind = "port"
			size = 1 + rng.Intn(3000)
		}
		var steps []string
		shape := ""
		for j, np := 0, 1+rng.Intn(5); j < np; j++ {
			k := rng.Intn(size + 1)
			if rng.Intn(2) == 0 && size > 3 {
				k = rng.Intn(4)
			}
			switch rng.Intn(4) {
			case 0:
				steps = append(steps, fmt.Sprintf("A%d", k))
				shape += "A"
			case 1:
				steps = append(steps, fmt.Sprintf("C%d", k))
				shape += "C"
			default:
				steps = append(steps, "F")
				shape += "F"
			}
		}
		steps = append(steps, "F")
		sc := "le100"
		switch {
		case size > 1000:
			sc = "gt1000"
		case size > 101:
			sc = "gt101"
		}
		script := strings.Join(steps, ",")
		obs := runIterPass(kind, size, script)
		r.Count(kind + "/" + sc)
		r.Case(kind+"/"+sc+"/"+shape, "iterpass", kind, fmt.Sprint(size), script, obs)
	}
}
