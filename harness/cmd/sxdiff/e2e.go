package main

// e2e — the whole `sx` binary in a private network namespace (netlab.go).  A case is a complete
// command line (scan type, target specification, port list, exclusion file, ARP cache, input on a
// regular file or on stdin); the observation is what arrives on the far end of the veth pair (packet
// scans) or at loopback listeners (socks / elastic / docker).  Cases are emitted in the `gen` line
// format, so the Lean driver compares them with the same model (`ipPortRequests` over all chunks)
// and the same Spec reference (`refPortRun` = the denoted multiset minus exclusions) it uses for the
// in-process generator runs: C01 (coverage) and C02 (confinement) at the wire.

import (
	"encoding/binary"
	"fmt"
	"net"
	"os"
	"path/filepath"
	"sort"
	"strings"
	"sync"
	"time"

	"sxverif/harness/internal/hx"
)

func init() {
	components["e2e"] = e2eComponent
	components["e2ebig"] = e2eBigComponent
	components["e2eslow"] = e2eSlowComponent
}

const labNet = uint32(10<<24 | 0<<16 | 0<<8 | 0) // 10.0.0.0/24 lives on veth0

func labMAC(v uint32) uint64 { return 0x020000000000 | uint64(v&0xffffff) | 0x0000aa000000 }

func e2eMacText(m uint64) string {
	return fmt.Sprintf("%02x:%02x:%02x:%02x:%02x:%02x", byte(m>>40), byte(m>>32), byte(m>>24), byte(m>>16), byte(m>>8), byte(m))
}

type e2eCase struct {
	kind   string   // pkt-tcp pkt-udp pkt-icmp pkt-arp req-gen
	sub    []string // sub-command words, e.g. ["tcp","syn"]
	src    string   // gen encoding
	ports  string   // gen encoding ("-" = none)
	excl   string
	cache  string
	gw     string
	stdin  bool
	extra  []string
	listen bool // application scan on loopback
	tun    bool // on the tun device (no MAC address: sx puts itself in vpn mode, frames are bare IP datagrams)
	oneCPU bool // the process sees one CPU (runtime.NumCPU() == 1)
	split  int  // 0: draw {-p | --ports-file}; 1: -p; 2: --ports-file; 3: the list split between -p and --ports-file
	quiet  bool // no reply flood during a multi-chunk run
}

// rawView decodes one bare IPv4 datagram captured on the tun device into the gen view `4:<dst>,<port>,-,-`
func rawView(kind string, b []byte) (string, bool) {
	if len(b) < 20 || b[0]>>4 != 4 {
		return "", false
	}
	ihl := int(b[0]&0xf) * 4
	dst := binary.BigEndian.Uint32(b[16:20])
	switch kind {
	case "pkt-icmp":
		if b[9] != 1 {
			return "", false
		}
		return fmt.Sprintf("4:%d,0,-,-", dst), true
	case "pkt-tcp":
		if b[9] != 6 || len(b) < ihl+4 {
			return "", false
		}
	case "pkt-udp":
		if b[9] != 17 || len(b) < ihl+4 {
			return "", false
		}
	default:
		return "", false
	}
	return fmt.Sprintf("4:%d,%d,-,-", dst, binary.BigEndian.Uint16(b[ihl+2:ihl+4])), true
}

// frameView decodes one captured frame into the gen view `4:<dst>,<port>,<dstmac>,-`
func frameView(kind string, b []byte) (string, bool) {
	if len(b) < 14 {
		return "", false
	}
	et := binary.BigEndian.Uint16(b[12:14])
	mac := macCanon(b[0:6])
	switch kind {
	case "pkt-arp":
		if et != 0x0806 || len(b) < 42 {
			return "", false
		}
		return fmt.Sprintf("4:%d,0,%s,-", binary.BigEndian.Uint32(b[38:42]), mac), true
	}
	if et != 0x0800 || len(b) < 34 {
		return "", false
	}
	ihl := int(b[14]&0xf) * 4
	proto := b[23]
	dst := binary.BigEndian.Uint32(b[30:34])
	switch kind {
	case "pkt-icmp":
		if proto != 1 {
			return "", false
		}
		return fmt.Sprintf("4:%d,0,%s,-", dst, mac), true
	case "pkt-tcp":
		if proto != 6 || len(b) < 14+ihl+4 {
			return "", false
		}
	case "pkt-udp":
		if proto != 17 || len(b) < 14+ihl+4 {
			return "", false
		}
	}
	return fmt.Sprintf("4:%d,%d,%s,-", dst, binary.BigEndian.Uint16(b[14+ihl+2:14+ihl+4]), mac), true
}

// e2eEnv: the namespace, the wire(s) and the case generators shared by the end-to-end components of this file
type e2eEnv struct {
	r    *hx.Run
	lab  *netlab
	tun  *tunDev // nil unless asked for
	dir  string
	n    int            // cases run so far
	turn map[string]int // per command: whose turn it is to run on one CPU
}

func newE2EEnv(r *hx.Run, withTun bool) *e2eEnv {
	e := &e2eEnv{r: r, lab: newNetlab(), turn: map[string]int{}}
	if withTun {
		tun, err := newTun("tun0", "10.1.0.1/24")
		if err != nil {
			fmt.Fprintf(os.Stderr, "e2e: no tun device (%v): vpn-mode runs cannot be made\n", err)
			os.Exit(4)
		}
		e.tun = tun
		time.Sleep(50 * time.Millisecond)
	}
	work := os.Getenv("VERIF_WORK")
	if work == "" {
		work = os.TempDir()
	}
	dir, err := os.MkdirTemp(work, "e2e")
	if err != nil {
		panic(err)
	}
	e.dir = dir
	return e
}

func (e *e2eEnv) close() {
	os.RemoveAll(e.dir)
	if e.tun != nil {
		e.tun.close()
	}
	e.lab.close()
}

// oneCPU: every second run of a command is made under a one-CPU affinity (which half is drawn per command)
func (e *e2eEnv) oneCPU(sub []string) bool {
	k := strings.Join(sub, " ")
	if _, ok := e.turn[k]; !ok {
		e.turn[k] = e.r.Rng.Intn(2)
	}
	e.turn[k]++
	return e.turn[k]%2 == 0
}

var manyPortsCalls int

func (e *e2eEnv) randPorts(many bool) string {
	rng := e.r.Rng
	k := 1 + rng.Intn(3)
	if many {
		k = 601 + rng.Intn(3) // four engine runs
		manyPortsCalls++
		if manyPortsCalls%2 == 1 {
			k = 1801 + rng.Intn(3) // ten engine runs: nine moments at which one run's goroutines meet the next run's
		}
	}
	var ps []string
	for i := 0; i < k; i++ {
		lo := 1 + rng.Intn(65000)
		hi := lo
		if !many && rng.Intn(3) == 0 {
			hi = lo + rng.Intn(3)
		}
		if i > 0 && rng.Intn(5) == 0 { // duplicate / overlapping range
			ps = append(ps, ps[i-1])
			continue
		}
		ps = append(ps, fmt.Sprintf("%d-%d", lo, hi))
	}
	return strings.Join(ps, ",")
}

func (e *e2eEnv) randSubnetOf(net uint32) (uint32, int) {
	rng := e.r.Rng
	ones := 32 - rng.Intn(5)
	base := net | uint32(16+rng.Intn(200))
	base &= ^uint32(0) << uint(32-ones)
	return base, ones
}

func (e *e2eEnv) randSubnet() (uint32, int) { return e.randSubnetOf(labNet) }

func subnetAddrs(base uint32, ones int) []uint32 {
	var a []uint32
	for i := uint32(0); i < 1<<uint(32-ones); i++ {
		a = append(a, base+i)
	}
	return a
}

// randExcl never excludes every target: a run that may send nothing shows nothing
func (e *e2eEnv) randExcl(addrs []uint32) string {
	rng := e.r.Rng
	k := rng.Intn(3)
	if len(addrs) < 2 {
		return "none"
	}
	if len(addrs) < 4 && k == 2 {
		k = 1
	}
	switch k {
	case 0:
		return "none"
	case 1:
		return fmt.Sprintf("%d/32", addrs[rng.Intn(len(addrs))])
	}
	a := addrs[rng.Intn(len(addrs))] &^ 1
	return fmt.Sprintf("%d/31,%d/32", a, addrs[rng.Intn(len(addrs))])
}

// someExcl: an exclusion that is never "none"
func (e *e2eEnv) someExcl(addrs []uint32) string {
	for len(addrs) >= 2 {
		if x := e.randExcl(addrs); x != "none" {
			return x
		}
	}
	return "none"
}

func e2eComponent(r *hx.Run) {
	if !enterNetlab() {
		return
	}
	r.Rule = "case = one complete run of the real sx binary in a private network namespace: (sub-command, target spec {subnet | pairs file | address file x ports | stdin}, port list incl. > 200 ranges (several engine runs) given by -p, by --ports-file or split between the two, exclusion file, ARP cache file + gateway MAC, link {veth pair: Ethernet | tun device: no MAC address, vpn mode}, CPUs visible to the process {all | one}); observed = multiset of (destination, port, destination MAC) of the frames that arrive on the far end of the veth pair / at the tun device, or of connections/requests that arrive at loopback listeners; compared with the model over all chunks and with the Spec reference; non-trivial class = (sub-command, source kind, stdin, exclusion, chunks>1, ports split, tun, one CPU)"
	e := newE2EEnv(r, true)
	defer e.close()
	rng := r.Rng

	var cases []e2eCase
	add := func(c e2eCase) {
		c.oneCPU = e.oneCPU(c.sub)
		cases = append(cases, c)
	}
	tcpSubs := [][]string{{"tcp", "syn"}, {"tcp", "fin"}, {"tcp", "null"}, {"tcp", "xmas"}, {"tcp", "--flags", "syn,ack"}, {"tcp"}}
	nPer := 2
	if r.Tier == "thorough" {
		nPer = 12
	}
	for it := 0; it < nPer; it++ {
		// subnet x ports for every tcp flavour and udp
		for _, sub := range append(append([][]string{}, tcpSubs...), []string{"udp"}) {
			if r.Tier != "thorough" && it > 0 && sub[0] == "tcp" && !(len(sub) > 1 && sub[1] == "syn") {
				continue
			}
			base, ones := e.randSubnet()
			many := it == 0 && (len(sub) > 1 && sub[1] == "syn")
			if many && ones < 31 { // several engine runs (> 200 ranges) on one or two hosts
				ones = 31 + rng.Intn(2)
				base &= ^uint32(0) << uint(32-ones)
			}
			addrs := subnetAddrs(base, ones)
			kind := "pkt-tcp"
			if sub[0] == "udp" {
				kind = "pkt-udp"
			}
			add(e2eCase{kind: kind, sub: sub, src: fmt.Sprintf("net:%d/%d", base, ones),
				ports: e.randPorts(many), excl: e.randExcl(addrs)})
		}
		// pairs file; address file x ports; the same on stdin
		for _, stdin := range []bool{false, true} {
			base, ones := e.randSubnet()
			addrs := subnetAddrs(base, ones)
			var pairs, only []string
			var present []uint32
			for i, a := range addrs {
				if rng.Intn(4) == 0 && !(i == len(addrs)-1 && len(only) < 2) {
					continue
				}
				pairs = append(pairs, fmt.Sprintf("E,4,%d,%d", a, 1+rng.Intn(65535)))
				only = append(only, fmt.Sprintf("E,4,%d,0", a))
				present = append(present, a)
				if rng.Intn(5) == 0 { // a repeated line is probed twice
					pairs = append(pairs, pairs[len(pairs)-1])
				}
			}
			f := "0"
			if stdin {
				f = "1"
			}
			// `-f -` (stdin) is accepted only by the address-file x ports mode: the pairs-file mode and
			// icmp open the name as a file ("open -: no such file or directory"), so they are not
			// "where the command accepts it" and get a regular file here
			udpOrTcp := []string{"udp"}
			k := "pkt-udp"
			if rng.Intn(2) == 0 {
				udpOrTcp, k = tcpSubs[rng.Intn(len(tcpSubs))], "pkt-tcp"
			}
			add(e2eCase{kind: k, sub: udpOrTcp, src: "file:" + f + ":" + strings.Join(only, ";"),
				ports: e.randPorts(false), excl: e.randExcl(present), stdin: stdin})
			if stdin {
				continue
			}
			add(e2eCase{kind: "pkt-tcp", sub: []string{"tcp", "syn"}, src: "file:0:" + strings.Join(pairs, ";"),
				ports: "-", excl: e.randExcl(present)})
			add(e2eCase{kind: "pkt-icmp", sub: []string{"icmp"}, src: "file:0:" + strings.Join(only, ";"),
				ports: "-", excl: e.randExcl(present)})
		}
		// port-less scans on a subnet
		for _, k := range []string{"pkt-icmp", "pkt-arp"} {
			base, ones := e.randSubnet()
			addrs := subnetAddrs(base, ones)
			sub := []string{"icmp"}
			if k == "pkt-arp" {
				sub = []string{"arp"}
			}
			add(e2eCase{kind: k, sub: sub, src: fmt.Sprintf("net:%d/%d", base, ones), ports: "-", excl: e.randExcl(addrs)})
		}
		// the port list split between -p and --ports-file: one packet command and one generic command per round
		{
			sub, kind := []string{"udp"}, "pkt-udp"
			if rng.Intn(2) == 0 {
				sub, kind = tcpSubs[rng.Intn(len(tcpSubs))], "pkt-tcp"
			}
			base, ones := e.randSubnet()
			ports := e.randPorts(false)
			for strings.Count(ports, ",") == 0 {
				ports = e.randPorts(false)
			}
			add(e2eCase{kind: kind, sub: sub, src: fmt.Sprintf("net:%d/%d", base, ones), ports: ports,
				excl: e.randExcl(subnetAddrs(base, ones)), split: 3})
			// … and lists that overlap across the two options: a range of the file nested in a range of -p (and the
			// other way round): the ranges are appended as they are, each port of each range is probed
			p0 := 1 + rng.Intn(60000)
			nested := fmt.Sprintf("%d-%d,%d-%d", p0, p0+5+rng.Intn(3), p0+1+rng.Intn(2), p0+3)
			if rng.Intn(2) == 0 {
				nested = fmt.Sprintf("%d-%d,%d-%d", p0+2, p0+3, p0, p0+6)
			}
			b2 := (labNet | uint32(16+rng.Intn(200))) &^ 1
			add(e2eCase{kind: kind, sub: sub, src: fmt.Sprintf("net:%d/31", b2), ports: nested, excl: "none", split: 3})
		}
		// the tun device (an interface without a MAC address: vpn mode): subnet, and an address file with -i;
		// always with an exclusion (it is read on another path than on Ethernet), never with an ARP cache
		{
			tunSubs := [][]string{tcpSubs[rng.Intn(len(tcpSubs))], {"udp"}, {"icmp"}}
			if r.Tier != "thorough" {
				// two of the three per round, each of them within two rounds
				drop := (it + int(r.Seed)) % 3
				tunSubs = append(append([][]string{}, tunSubs[:drop]...), tunSubs[drop+1:]...)
			}
			for _, sub := range tunSubs {
				base, ones := e.randSubnetOf(tunNet)
				if ones == 32 {
					ones = 30 + rng.Intn(2)
					base &= ^uint32(0) << uint(32-ones)
				}
				addrs := subnetAddrs(base, ones)
				kind, ports := "pkt-"+sub[0], e.randPorts(false)
				if sub[0] == "icmp" {
					ports = "-"
				}
				c := e2eCase{kind: kind, sub: sub, src: fmt.Sprintf("net:%d/%d", base, ones), ports: ports, excl: e.someExcl(addrs), tun: true}
				if rng.Intn(3) == 0 {
					var only []string
					for _, a := range addrs {
						only = append(only, fmt.Sprintf("E,4,%d,0", a))
					}
					c.src = "file:0:" + strings.Join(only, ";")
					c.extra = []string{"-i", "tun0"}
				}
				add(c)
			}
		}
		// application scans on loopback
		for _, sub := range []string{"socks", "elastic", "docker"} {
			ones := 32 - rng.Intn(3)
			base := (uint32(127<<24) | uint32(1+rng.Intn(200))<<8 | uint32(rng.Intn(250))) & (^uint32(0) << uint(32-ones))
			addrs := subnetAddrs(base, ones)
			var ps []string
			nr := 1 + rng.Intn(2)
			split := 0
			if (it+len(sub))%3 == 0 { // each generic command in turn gets its list split between -p and --ports-file
				nr, split = 2, 3
			}
			for i := 0; i < nr; i++ {
				lo := 20000 + rng.Intn(20000)
				ps = append(ps, fmt.Sprintf("%d-%d", lo, lo+rng.Intn(2)))
			}
			src := fmt.Sprintf("net:%d/%d", base, ones)
			st := false
			switch rng.Intn(3) {
			case 1: // address file x ports (regular file or stdin)
				var only []string
				for _, a := range addrs {
					only = append(only, fmt.Sprintf("E,4,%d,0", a))
				}
				st = rng.Intn(2) == 0
				f := "0"
				if st {
					f = "1"
				}
				src = "file:" + f + ":" + strings.Join(only, ";")
			}
			add(e2eCase{kind: "req-gen", sub: []string{sub}, src: src,
				ports: strings.Join(ps, ","), excl: e.randExcl(addrs), listen: true, stdin: st, split: split})
		}
	}

	if os.Getenv("VERIF_SEARCH") == "1" {
		// a proof obligation is broken: look harder for a failing input at the chunk boundaries
		for i := 0; i < 6; i++ {
			base := labNet | uint32(20+i)
			cases = append(cases, e2eCase{kind: "pkt-tcp", sub: []string{"tcp", "syn"}, src: fmt.Sprintf("net:%d/32", base),
				ports: e.randPorts(true), excl: "none"})
		}
	}
	for _, c := range cases {
		e.run(c)
	}
}

// e2ebig — wide AND long: more than 200 port ranges (several engine runs over ONE generator) on a subnet of 128 or
// more addresses, so that every engine run makes hundreds of complete address passes and the passes of a later
// run start from whatever state the earlier runs left behind (C04: every pass is a permutation of the subnet,
// whatever happened before it; C01: over all chunks).  Tens of thousands of frames per run.
func e2eBigComponent(r *hx.Run) {
	if !enterNetlab() {
		return
	}
	r.Rule = "case = one run of the real sx binary (tcp flavour or udp) on a /25 or /24 with 201..405 port ranges (2-3 engine runs, 26 000..100 000 probes), optional exclusions, on the veth pair; observed = sorted multiset of (destination, port, destination MAC) of the frames on the wire; compared with the model over all chunks and with the Spec reference; non-trivial class = (sub-command, subnet size, number of chunks, exclusion)"
	e := newE2EEnv(r, false)
	defer e.close()
	rng := r.Rng
	n := 1
	if r.Tier == "thorough" {
		n = 5
	}
	subs := [][]string{{"tcp", "syn"}, {"udp"}, {"tcp", "fin"}, {"tcp"}, {"tcp", "--flags", "ack"}}
	for i := 0; i < n; i++ {
		sub := subs[rng.Intn(len(subs))]
		ones := 25
		base := labNet | uint32(rng.Intn(2))<<7
		nr := 201 + rng.Intn(5)
		if r.Tier == "thorough" && i%2 == 1 {
			if rng.Intn(2) == 0 {
				ones, base = 24, labNet
			} else {
				nr = 401 + rng.Intn(5)
			}
		}
		var ps []string
		lo := 1000 + rng.Intn(30000)
		for k := 0; k < nr; k++ {
			lo += 1 + rng.Intn(3)
			ps = append(ps, fmt.Sprintf("%d-%d", lo, lo))
		}
		kind := "pkt-tcp"
		if sub[0] == "udp" {
			kind = "pkt-udp"
		}
		c := e2eCase{kind: kind, sub: sub, src: fmt.Sprintf("net:%d/%d", base, ones), ports: strings.Join(ps, ","),
			excl: e.randExcl(subnetAddrs(base, ones)), quiet: true}
		c.oneCPU = e.oneCPU(c.sub)
		e.run(c)
	}
}

// e2eslow — a rate limit below one packet per second on a target of two or three probes: every probe still
// leaves (C07: a finished, uncancelled run has written everything), whatever is derived from the rate.
func e2eSlowComponent(r *hx.Run) {
	if !enterNetlab() {
		return
	}
	r.Rule = "case = one run of the real sx binary (tcp syn, udp, icmp, arp; veth pair or tun device) with --rate N/W where W/N is between 1.05 s and 1.3 s per packet, on a target of 2-3 probes; observed = sorted multiset of (destination, port, destination MAC) of the frames on the wire; compared with the model and with the Spec reference; non-trivial class = (sub-command, link, rate form)"
	e := newE2EEnv(r, true)
	defer e.close()
	rng := r.Rng
	type sc struct {
		kind string
		sub  []string
	}
	all := []sc{{"pkt-udp", []string{"udp"}}, {"pkt-tcp", []string{"tcp", "syn"}}, {"pkt-icmp", []string{"icmp"}}, {"pkt-arp", []string{"arp"}}}
	rounds := 1
	if r.Tier == "thorough" {
		rounds = 4
	}
	for it := 0; it < rounds; it++ {
		for _, s := range all {
			// the same budget per packet written three ways: N/Ws with W > N seconds, 1/<ms>, <per minute>/m
			var rate string
			ms := 1050 + rng.Intn(200)
			switch rng.Intn(3) {
			case 0:
				rate = fmt.Sprintf("1/%dms", ms)
			case 1:
				rate = fmt.Sprintf("%d/m", 60000/ms)
			default:
				rate = fmt.Sprintf("10/%ds", 10*ms/1000+1)
			}
			c := e2eCase{kind: s.kind, sub: s.sub, ports: "-", excl: "none", extra: []string{"--rate", rate}}
			c.tun = s.kind != "pkt-arp" && rng.Intn(3) == 0
			net := labNet
			if c.tun {
				net = tunNet
			}
			base := (net | uint32(16+rng.Intn(200))) &^ 1
			probes := 2
			if r.Tier == "thorough" {
				probes += rng.Intn(2)
			}
			switch s.kind {
			case "pkt-icmp", "pkt-arp":
				if probes == 3 { // three addresses of a /30, the fourth excluded
					base &^= 3
					c.src, c.excl = fmt.Sprintf("net:%d/30", base), fmt.Sprintf("%d/32", base+uint32(rng.Intn(4)))
				} else {
					c.src = fmt.Sprintf("net:%d/31", base)
				}
			default:
				p := 1 + rng.Intn(65000)
				c.src, c.ports = fmt.Sprintf("net:%d/32", base), fmt.Sprintf("%d-%d", p, p+probes-1)
			}
			c.oneCPU = e.oneCPU(c.sub)
			e.run(c)
		}
		if it == 0 {
			// … and a budget of more than five seconds per packet (`--rate 11/m`): the second probe still goes out, and the
			// run is not over before it has
			p := 1 + rng.Intn(65000)
			base := (labNet | uint32(16+rng.Intn(200))) &^ 1
			s := all[rng.Intn(2)]
			c := e2eCase{kind: s.kind, sub: s.sub, excl: "none", extra: []string{"--rate", []string{"11/m", "1/5400ms", "2/11s"}[rng.Intn(3)]},
				src: fmt.Sprintf("net:%d/32", base), ports: fmt.Sprintf("%d-%d", p, p+1)}
			e.run(c)
		}
	}
}

// run makes one case: builds the command line and its files, runs the real binary, emits the `gen` line
func (e *e2eEnv) run(c e2eCase) {
	r, rng, lab := e.r, e.r.Rng, e.lab
	ci := e.n
	e.n++
	if os.Getenv("E2E_DEBUG") != "" {
		t0 := time.Now()
		defer func() {
			fmt.Fprintf(os.Stderr, "e2e case %d %v %s tun=%v cpu1=%v: %v\n", ci, c.sub, c.src[:3], c.tun, c.oneCPU, time.Since(t0))
		}()
	}
	{
		cdir := filepath.Join(e.dir, fmt.Sprint(ci))
		os.MkdirAll(cdir, 0o755)
		args := append([]string{}, c.sub...)
		args = append(args, "--json", "--exit-delay", "40ms")
		args = append(args, c.extra...)
		var stdin []byte
		var targets []uint32 // every address named by the spec (for the ARP cache / listeners)
		switch {
		case strings.HasPrefix(c.src, "net:"):
			var base uint32
			var ones int
			fmt.Sscanf(c.src[4:], "%d/%d", &base, &ones)
			targets = subnetAddrs(base, ones)
			args = append(args, fmt.Sprintf("%s/%d", v4Text(base), ones))
		case strings.HasPrefix(c.src, "file:"):
			var sb strings.Builder
			for _, l := range decodeLines(c.src[7:]) {
				var fam, v uint32
				fmt.Sscanf(l.addr, "%d,%d", &fam, &v)
				targets = append(targets, v)
				if l.port == 0 {
					sb.WriteString(fmt.Sprintf("{\"ip\":\"%s\"}\n", v4Text(v)))
				} else {
					sb.WriteString(l.text + "\n")
				}
			}
			if c.stdin {
				stdin = []byte(sb.String())
				args = append(args, "-f", "-")
			} else {
				p := filepath.Join(cdir, "targets.jsonl")
				os.WriteFile(p, []byte(sb.String()), 0o644)
				args = append(args, "-f", p)
			}
			// a subnet argument next to the list (it selects the interface; the targets are still the list's, and the
			// exclusions still apply to them — also when they do not touch that subnet)
			if c.excl != "none" && !c.tun && ci%2 == 0 {
				if c.listen {
					args = append(args, "127.0.0.0/30")
				} else {
					args = append(args, "10.0.0.0/28")
				}
				r.Count("file+subnet+exclude")
			}
		}

		if c.listen && ci%3 != 1 {
			args = append(args, "-w", []string{"1", "2"}[ci%2]) // one or two workers probe them all
			r.Count("workers:1-2")
		}
		if c.ports != "-" {
			all := strings.Split(c.ports, ",")
			how := c.split
			if how == 0 {
				how = 1 + rng.Intn(2)
			}
			if len(all) > 50 && how == 1 {
				how = 2
			}
			if how == 3 && len(all) < 2 {
				how = 1
			}
			// -p takes the first nArg ranges, the file the rest (sx appends the file's ranges to those of -p)
			nArg := 0
			switch how {
			case 1:
				nArg = len(all)
			case 3:
				nArg = 1 + rng.Intn(len(all)-1)
			}
			if nArg > 0 {
				var ps []string
				for _, pr := range all[:nArg] {
					lh := strings.Split(pr, "-")
					if lh[0] == lh[1] && rng.Intn(2) == 0 {
						ps = append(ps, lh[0])
					} else {
						ps = append(ps, pr)
					}
				}
				args = append(args, "-p", strings.Join(ps, ","))
			}
			if nArg < len(all) {
				// ports file, one range per line (with a comment and a blank line)
				p := filepath.Join(cdir, "ports.txt")
				var sb strings.Builder
				sb.WriteString("# ports\n\n")
				for _, pr := range all[nArg:] {
					lh := strings.Split(pr, "-")
					if lh[0] == lh[1] {
						sb.WriteString(lh[0] + "\n")
					} else {
						sb.WriteString(pr + "\n")
					}
				}
				os.WriteFile(p, []byte(sb.String()), 0o644)
				args = append(args, "--ports-file", p)
			}
			if how == 3 {
				r.Count("ports:split")
			}
		}
		if c.excl != "none" {
			p := filepath.Join(cdir, "exclude.txt")
			var sb strings.Builder
			sb.WriteString("# excluded\n\n")
			for _, x := range strings.Split(c.excl, ",") {
				var b uint32
				var o int
				fmt.Sscanf(x, "%d/%d", &b, &o)
				if o == 32 {
					sb.WriteString(v4Text(b) + "\n")
				} else {
					sb.WriteString(fmt.Sprintf("%s/%d\n", v4Text(b), o))
				}
			}
			os.WriteFile(p, []byte(sb.String()), 0o644)
			args = append(args, "--exclude", p)
		}
		cache, gw := "none", "-"
		if !c.tun && (c.kind == "pkt-tcp" || c.kind == "pkt-udp" || c.kind == "pkt-icmp") {
			// ARP cache file: most targets have their own entry, the rest go to the gateway
			gwMAC := uint64(0x02000000fe00)
			var entries []string
			var sb strings.Builder
			seen := map[uint32]bool{}
			for _, t := range targets {
				if seen[t] || rng.Intn(4) == 0 {
					continue
				}
				seen[t] = true
				m := labMAC(t)
				entries = append(entries, fmt.Sprintf("%d:0:%d", t, m))
				sb.WriteString(fmt.Sprintf("{\"ip\":\"%s\",\"mac\":\"%s\",\"vendor\":\"x\"}\n", v4Text(t), e2eMacText(m)))
			}
			// the gateway's own entry (10.0.0.254) is what getGatewayMAC looks up
			sb.WriteString(fmt.Sprintf("{\"ip\":\"10.0.0.254\",\"mac\":\"%s\"}\n", e2eMacText(gwMAC)))
			entries = append(entries, fmt.Sprintf("%d:0:%d", labNet|254, gwMAC))
			p := filepath.Join(cdir, "arp.cache")
			os.WriteFile(p, []byte(sb.String()), 0o644)
			args = append(args, "-a", p)
			cache, gw = strings.Join(entries, ","), fmt.Sprint(gwMAC)
		}
		obs := ""
		if c.listen {
			obs = runAppScan(c, args, targets, stdin)
		} else {
			lab.settle(30 * time.Millisecond)
			lab.take()
			if c.tun {
				e.tun.take()
			}
			var res sxRun
			flood := !c.tun && c.kind == "pkt-tcp" && len(c.sub) > 1 && c.sub[1] == "syn" && strings.Count(c.ports, ",") >= 200 && !c.quiet
			if flood {
				// several engine runs (port chunks) WHILE the target keeps answering: replies to the first probe
				// are injected all the way through the chunk boundaries (a scanned host with an open port does
				// this).  Every port of every chunk must still be probed exactly once, and sx must not crash.
				// … with the race detector compiled in: what the receiver goroutine of one chunk and the goroutines of
				// the next do to the same memory is reported (exit 66) even when this run happened to get away with it
				sxRaceRuns = true
				res = runSXWithReplies(lab, c.oneCPU, stdin, args)
				sxRaceRuns = false
				if res.exit == 66 {
					res.stderr = "DATA RACE " + strings.Join(raceFrames(res.stderr), " ")
				}
				r.Count("reply-flood")
			} else {
				res = runSXOn(c.oneCPU, stdin, 60*time.Second, args...)
			}
			var frames [][]byte
			if c.tun {
				settleCount(e.tun.count, 60*time.Millisecond)
				frames = e.tun.take()
			} else {
				lab.settle(60 * time.Millisecond)
				frames = lab.take()
			}
			if flood {
				// the kernel answers the injected SYN-ACKs with RSTs of its own: only SYNs are probes
				var syn [][]byte
				for _, f := range frames {
					if len(f) >= 48 && f[12] == 8 && f[13] == 0 && f[23] == 6 {
						ihl := int(f[14]&0xf) * 4
						if len(f) >= 14+ihl+14 && f[14+ihl+13] == 0x02 {
							syn = append(syn, f)
						}
					}
				}
				frames = syn
			}
			if res.timedOut {
				obs = "TIMEOUT"
			} else if res.exit != 0 {
				obs = "FAIL exit=" + fmt.Sprint(res.exit) + " " + hx.HexS(lastLine(res.stderr))
			} else {
				var views []string
				for _, f := range frames {
					v, ok := "", false
					if c.tun {
						v, ok = rawView(c.kind, f)
					} else {
						v, ok = frameView(c.kind, f)
					}
					if ok {
						views = append(views, v)
					}
				}
				sort.Strings(views)
				obs = "OK " + strings.Join(views, "|")
				r.Count(fmt.Sprintf("frames:%d", e2eBucket(len(views))))
			}
		}
		class := strings.Join(c.sub, " ") + "/" + c.src[:3]
		if c.stdin {
			class += "/stdin"
		}
		if c.excl != "none" {
			class += "/excl"
		}
		if strings.Count(c.ports, ",") >= 200 {
			class += "/chunks"
		}
		if c.split == 3 {
			class += "/split"
		}
		if c.tun {
			class += "/tun"
			r.Count("link:tun")
		}
		if c.oneCPU {
			class += "/cpu1"
			r.Count("cpus:1")
		}
		r.Count("cmd:" + strings.Join(c.sub, " "))
		r.Case(class, "gen", c.kind, c.src, c.ports, c.ports, c.excl, cache, gw, "S", obs)
	}
}

// settleCount waits until count() has not changed for `quiet`
func settleCount(count func() int, quiet time.Duration) {
	last := count()
	t := time.Now()
	for time.Since(t) < quiet {
		time.Sleep(5 * time.Millisecond)
		if c := count(); c != last {
			last, t = c, time.Now()
		}
	}
}

// runSXWithReplies runs sx and, from its first TCP probe on, keeps injecting the SYN-ACK reply to that
// probe (10 000 per second) until the process has ended
func runSXWithReplies(lab *netlab, oneCPU bool, stdin []byte, args []string) sxRun {
	resc := make(chan sxRun, 1)
	go func() { resc <- runSXOn(oneCPU, stdin, 90*time.Second, args...) }()
	var first []byte
	deadline := time.Now().Add(10 * time.Second)
	for first == nil && time.Now().Before(deadline) {
		select {
		case res := <-resc:
			return res
		default:
		}
		frames, _ := lab.peek()
		for _, f := range frames {
			if _, ok := frameView("pkt-tcp", f); ok {
				first = f
				break
			}
		}
		time.Sleep(time.Millisecond)
	}
	// … and from then on to the most recent probe seen (every engine run gets answers to probes of its own)
	seen := 0
	for n := 0; ; n++ {
		select {
		case res := <-resc:
			return res
		default:
		}
		if n%20 == 0 {
			frames, _ := lab.peek()
			for i := len(frames) - 1; i >= seen && i >= 0; i-- {
				if _, ok := frameView("pkt-tcp", frames[i]); ok && len(frames[i]) >= 48 && frames[i][47] == 0x02 {
					first = frames[i]
					break
				}
			}
			seen = len(frames)
		}
		if first != nil {
			lab.inject(replyTo("pkt-tcp", first))
		}
		time.Sleep(100 * time.Microsecond)
	}
}

func e2eBucket(n int) int {
	switch {
	case n == 0:
		return 0
	case n < 10:
		return 1
	case n < 100:
		return 10
	case n < 1000:
		return 100
	}
	return 1000
}

func lastLine(s string) string {
	s = strings.TrimSpace(s)
	if i := strings.LastIndexByte(s, '\n'); i >= 0 {
		s = s[i+1:]
	}
	if len(s) > 200 {
		s = s[:200]
	}
	return s
}

// runAppScan: one listener per (target address, port); every accepted connection is recorded with the
// local address it was made to.  socks: answer 05 00.  elastic / docker: answer a tiny JSON object and
// count one probe per "primary" request (GET / for elastic, …/info for docker).
func runAppScan(c e2eCase, args []string, targets []uint32, stdin []byte) string {
	var mu sync.Mutex
	var seen []string
	var ls []net.Listener
	defer func() {
		for _, l := range ls {
			l.Close()
		}
	}()
	record := func(conn net.Conn) {
		la := conn.LocalAddr().(*net.TCPAddr)
		v := binary.BigEndian.Uint32(la.IP.To4())
		mu.Lock()
		seen = append(seen, fmt.Sprintf("4:%d,%d,-,-", v, la.Port))
		mu.Unlock()
	}
	sub := c.sub[0]
	for _, pr := range strings.Split(c.ports, ",") {
		var lo, hi int
		fmt.Sscanf(pr, "%d-%d", &lo, &hi)
		for p := lo; p <= hi; p++ {
			for _, t := range targets {
				l, err := net.Listen("tcp4", fmt.Sprintf("%s:%d", v4Text(t), p))
				if err != nil {
					continue // same (addr, port) twice in overlapping ranges: already listening
				}
				ls = append(ls, l)
				go func(l net.Listener) {
					for {
						conn, err := l.Accept()
						if err != nil {
							return
						}
						go func(conn net.Conn) {
							defer conn.Close()
							conn.SetDeadline(time.Now().Add(2 * time.Second))
							buf := make([]byte, 4096)
							switch sub {
							case "socks":
								record(conn)
								conn.Read(buf)
								conn.Write([]byte{5, 0})
							default:
								n, _ := conn.Read(buf)
								req := string(buf[:n])
								first := strings.SplitN(req, "\r\n", 2)[0]
								primary := (sub == "elastic" && strings.HasPrefix(first, "GET / ")) ||
									(sub == "docker" && strings.Contains(first, "/info"))
								if primary {
									record(conn)
								}
								body := "{}"
								if sub == "elastic" && !primary {
									body = "[]"
								}
								fmt.Fprintf(conn, "HTTP/1.1 200 OK\r\nContent-Type: application/json\r\nContent-Length: %d\r\nConnection: close\r\n\r\n%s", len(body), body)
							}
						}(conn)
					}
				}(l)
			}
		}
	}
	hasW := false
	for _, a := range args {
		hasW = hasW || a == "-w"
	}
	if !hasW {
		args = append(args, "-w", "7")
	}
	args = append(args, "-t", "1s")
	res := runSXOn(c.oneCPU, stdin, 90*time.Second, args...)
	time.Sleep(30 * time.Millisecond)
	if res.timedOut {
		return "TIMEOUT"
	}
	if res.exit != 0 {
		return "FAIL exit=" + fmt.Sprint(res.exit) + " " + hx.HexS(lastLine(res.stderr))
	}
	mu.Lock()
	defer mu.Unlock()
	sort.Strings(seen)
	return "OK " + strings.Join(seen, "|")
}

// raceFrames: the lines of a race report that name sx's own code
func raceFrames(report string) []string {
	var out []string
	for _, l := range strings.Split(report, "\n") {
		l = strings.TrimSpace(l)
		if strings.Contains(l, "v-byte-cpu/sx/") && len(out) < 8 {
			out = append(out, l)
		}
	}
	return out
}
