package main

// live — C19: the REAL scan.NewLiveRequestGenerator over a scripted delegate.
//
// case = (script of delegate calls, rescan interval, cancellation point, delegate mode)
//   script  comma list, one token per call: "3" / "3d5" (3 requests, 5 ms apart) / "x" (call fails)
//   cancel  i<n> right after the consumer received its n-th request
//           b<n> the consumer stops after n requests; cancel while the generator is blocked on it
//           w<k> after k passes have ended and been received, during the rescan wait
//           f<ms> ms milliseconds after the first failing call returned
//   mode    s      unbuffered delegate that waits for the consumer's ack of each request and looks at
//                  ctx before every send (so nothing trickles after a cancel: deterministic output)
//           u<cap> free-running delegate with channel capacity cap (only w / f cancels)
// observed = "starterr" | o=<k.i,…>;c=<calls>;cl=<0|1>;s=<µs,…>;e=<µs|-,…>
//   s: time of each delegate call; e: time each pass's channel was closed by the delegate (both taken
//   in the delegate, causally ordered with the generator's loop); cl: out seen closed within
//   liveCloseWindow after the cancel.

import (
	"context"
	"errors"
	"fmt"
	"strconv"
	"strings"
	"sync"
	"sync/atomic"
	"time"

	"github.com/v-byte-cpu/sx/pkg/scan"
	"sxverif/harness/internal/hx"
)

func init() {
	components["live"] = liveComponent
	replayers["live"] = func(f []string) string { return runLive(f[1], f[2], f[3], f[4]) }
}

const (
	liveCloseWindow = 1 * time.Second
	liveCaseTimeout = 8 * time.Second
	liveMaxCalls    = 200
)

type livePass struct {
	n     int // -1 = the call fails
	delay time.Duration
}

func parseLiveScript(s string) []livePass {
	if s == "-" || s == "" {
		return nil
	}
	var out []livePass
	for _, t := range strings.Split(s, ",") {
		if t == "x" {
			out = append(out, livePass{n: -1})
			continue
		}
		p := livePass{}
		if i := strings.IndexByte(t, 'd'); i >= 0 {
			ms, _ := strconv.Atoi(t[i+1:])
			p.delay = time.Duration(ms) * time.Millisecond
			t = t[:i]
		}
		p.n, _ = strconv.Atoi(t)
		out = append(out, p)
	}
	return out
}

type liveDelegate struct {
	script []livePass
	sync   bool
	capa   int
	t0     time.Time
	acks   chan struct{}

	mu       sync.Mutex
	calls    int
	starts   []int64
	ends     []int64 // -1 = not closed (failed call / still running)
	failedAt time.Time
	failed   int32
	closedN  int32 // number of passes whose channel has been closed
	wg       sync.WaitGroup
}

func (d *liveDelegate) us() int64 { return int64(time.Since(d.t0) / time.Microsecond) }

func (d *liveDelegate) GenerateRequests(ctx context.Context, _ *scan.Range) (<-chan *scan.Request, error) {
	d.mu.Lock()
	k := d.calls
	d.calls++
	if k < liveMaxCalls {
		d.starts = append(d.starts, d.us())
		d.ends = append(d.ends, -1)
	}
	d.mu.Unlock()
	p := livePass{}
	if k < len(d.script) {
		p = d.script[k]
	}
	if p.n < 0 {
		if atomic.CompareAndSwapInt32(&d.failed, 0, 1) {
			d.mu.Lock()
			d.failedAt = time.Now()
			d.mu.Unlock()
		}
		return nil, errors.New("scripted: pass fails to start")
	}
	ch := make(chan *scan.Request, d.capa)
	d.wg.Add(1)
	go func() {
		defer d.wg.Done()
		defer func() {
			d.mu.Lock()
			if k < liveMaxCalls {
				d.ends[k] = d.us()
			}
			d.mu.Unlock()
			close(ch)
			atomic.AddInt32(&d.closedN, 1)
		}()
		for i := 0; i < p.n; i++ {
			if p.delay > 0 {
				select {
				case <-ctx.Done():
					return
				case <-time.After(p.delay):
				}
			}
			if d.sync && ctx.Err() != nil {
				return
			}
			req := &scan.Request{Meta: map[string]interface{}{"k": k, "i": i}}
			select {
			case <-ctx.Done():
				return
			case ch <- req:
			}
			if d.sync {
				select {
				case <-ctx.Done():
					return
				case <-d.acks:
				}
			}
		}
	}()
	return ch, nil
}

func runLive(scriptS, rescanS, cancelS, modeS string) string {
	script := parseLiveScript(scriptS)
	rescanUs, _ := strconv.Atoi(rescanS)
	rescan := time.Duration(rescanUs) * time.Microsecond
	ckind := cancelS[0]
	carg, _ := strconv.Atoi(cancelS[1:])
	d := &liveDelegate{script: script, sync: modeS == "s", acks: make(chan struct{}, 1)}
	if !d.sync {
		d.capa, _ = strconv.Atoi(modeS[1:])
	}
	ctx, cancel := context.WithCancel(context.Background())
	defer cancel()
	var cancelledAt atomic.Value // time.Time
	doCancel := func() {
		cancelledAt.Store(time.Now())
		cancel()
	}

	d.t0 = time.Now()
	out, err := scan.NewLiveRequestGenerator(d, rescan).GenerateRequests(ctx, &scan.Range{})
	if err != nil {
		return "starterr"
	}
	if ckind == 'i' && carg == 0 {
		doCancel()
	}
	var received int32
	// requests expected before a `w<k>` cancel
	wantBeforeWait := 0
	if ckind == 'w' {
		for k := 0; k < carg && k < len(script); k++ {
			if script[k].n > 0 {
				wantBeforeWait += script[k].n
			}
		}
	}
	stopWatch := make(chan struct{})
	defer close(stopWatch)
	switch ckind {
	case 'w':
		// watcher: k passes closed by the delegate and everything of them received → a moment later, cancel
		go func() {
			for {
				if int(atomic.LoadInt32(&d.closedN)) >= carg && int(atomic.LoadInt32(&received)) >= wantBeforeWait {
					time.Sleep(5 * time.Millisecond)
					doCancel()
					return
				}
				select {
				case <-stopWatch:
					return
				case <-time.After(200 * time.Microsecond):
				}
			}
		}()
	case 'f':
		go func() {
			for {
				if atomic.LoadInt32(&d.failed) == 1 {
					d.mu.Lock()
					at := d.failedAt
					d.mu.Unlock()
					if w := time.Duration(carg)*time.Millisecond - time.Since(at); w > 0 {
						select {
						case <-stopWatch:
							return
						case <-time.After(w):
						}
					}
					doCancel()
					return
				}
				select {
				case <-stopWatch:
					return
				case <-time.After(200 * time.Microsecond):
				}
			}
		}()
	}

	var items []string
	closed := 0
	overall := time.After(liveCaseTimeout)
loop:
	for {
		if ckind == 'b' && len(items) == carg && cancelledAt.Load() == nil {
			// stop receiving; let the generator run into its blocked send; cancel; let the ctx case win
			time.Sleep(30 * time.Millisecond)
			doCancel()
			time.Sleep(30 * time.Millisecond)
		}
		select {
		case req, ok := <-out:
			if !ok {
				if ca, _ := cancelledAt.Load().(time.Time); !ca.IsZero() && time.Since(ca) <= liveCloseWindow {
					closed = 1
				}
				break loop
			}
			k, i := -1, -1
			if req != nil && req.Meta != nil {
				k, _ = req.Meta["k"].(int)
				i, _ = req.Meta["i"].(int)
			}
			items = append(items, fmt.Sprintf("%d.%d", k, i))
			atomic.AddInt32(&received, 1)
			if ckind == 'i' && len(items) == carg {
				doCancel()
			}
			if d.sync {
				select {
				case d.acks <- struct{}{}:
				default:
				}
			}
			if len(items) > 5000 {
				doCancel()
				break loop
			}
		case <-overall:
			break loop
		}
	}
	if ca, _ := cancelledAt.Load().(time.Time); ca.IsZero() {
		doCancel()
	}
	// every delegate goroutine has seen the cancel and recorded when it closed its channel
	d.wg.Wait()
	d.mu.Lock()
	calls := d.calls
	var ss, es []string
	for _, v := range d.starts {
		ss = append(ss, strconv.FormatInt(v, 10))
	}
	for _, v := range d.ends {
		if v < 0 {
			es = append(es, "-")
		} else {
			es = append(es, strconv.FormatInt(v, 10))
		}
	}
	d.mu.Unlock()
	return fmt.Sprintf("o=%s;c=%d;cl=%d;s=%s;e=%s", strings.Join(items, ","), calls, closed,
		strings.Join(ss, ","), strings.Join(es, ","))
}

type liveJob struct{ script, rescan, cancel, mode, class string }

func liveScriptString(p []livePass) string {
	var t []string
	for _, x := range p {
		switch {
		case x.n < 0:
			t = append(t, "x")
		case x.delay > 0:
			t = append(t, fmt.Sprintf("%dd%d", x.n, x.delay/time.Millisecond))
		default:
			t = append(t, strconv.Itoa(x.n))
		}
	}
	if len(t) == 0 {
		return "-"
	}
	return strings.Join(t, ",")
}

func liveTotal(p []livePass) int {
	n := 0
	for _, x := range p {
		if x.n < 0 {
			break
		}
		n += x.n
	}
	return n
}

func liveComponent(r *hx.Run) {
	r.Rule = "case = (script of delegate calls: lengths 0..5, slow passes, a failing call at position k; rescan 20-40 ms (longer where a cancel must land inside the wait); cancel point: after the n-th request for every n, while blocked on the consumer, inside the rescan wait after k passes, after a failed call; delegate unbuffered+acknowledged or free-running with capacity 0/1/100); non-trivial class = (cancel kind, number of passes started, has-empty-pass, has-slow-pass, has-failing-pass, mode)"
	var jobs []liveJob
	rescans := []int{20000, 25000, 30000, 40000}
	pick := func() string { return strconv.Itoa(rescans[r.Rng.Intn(len(rescans))]) }
	add := func(p []livePass, rescan, cancel, mode string) {
		jobs = append(jobs, liveJob{script: liveScriptString(p), rescan: rescan, cancel: cancel, mode: mode})
	}
	thorough := r.Tier == "thorough"

	// 1. exhaustive: scripts of 1..2 (quick) / 1..3 (thorough) passes with lengths 0..2, every `i<n>`
	maxP := 2
	if thorough {
		maxP = 3
	}
	var rec func(p []livePass)
	rec = func(p []livePass) {
		if len(p) > 0 {
			for n := 0; n <= liveTotal(p); n++ {
				add(p, pick(), "i"+strconv.Itoa(n), "s")
			}
		}
		if len(p) == maxP {
			return
		}
		for n := 0; n <= 2; n++ {
			rec(append(append([]livePass{}, p...), livePass{n: n}))
		}
	}
	rec(nil)

	// 2. random scripts, every kind of cancel
	nRand := 300
	if thorough {
		nRand = 5000
	}
	for j := 0; j < nRand; j++ {
		np := 1 + r.Rng.Intn(4)
		var p []livePass
		for k := 0; k < np; k++ {
			x := livePass{n: r.Rng.Intn(6)}
			if r.Rng.Intn(3) == 0 {
				x.n = 0
			}
			if x.n > 0 && r.Rng.Intn(3) == 0 {
				// slow pass: its duration is comparable to the rescan interval
				x.delay = time.Duration(3+r.Rng.Intn(8)) * time.Millisecond
			}
			p = append(p, x)
		}
		tot := liveTotal(p)
		switch r.Rng.Intn(4) {
		case 0: // after the n-th request (biased to pass boundaries and the end)
			n := r.Rng.Intn(tot + 1)
			if r.Rng.Intn(2) == 0 {
				n = tot
			}
			add(p, pick(), "i"+strconv.Itoa(n), "s")
		case 1: // blocked on the consumer, strictly inside a pass
			var inside []int
			acc := 0
			for k, x := range p {
				for i := 0; i < x.n; i++ {
					// acc+i requests received, request i of this pass is next; the generator must already
					// be inside the pass (i >= 1), or at the very start of the scan
					if i >= 1 || k == 0 {
						inside = append(inside, acc+i)
					}
				}
				acc += x.n
			}
			if len(inside) == 0 {
				add(p, pick(), "i0", "s")
			} else {
				add(p, pick(), "b"+strconv.Itoa(inside[r.Rng.Intn(len(inside))]), "s")
			}
		case 2: // inside the rescan wait after k passes; the interval is long so that the cancel lands inside it
			k := 1 + r.Rng.Intn(2)
			if k > len(p) {
				k = len(p)
			}
			rescan := "3000000"
			if k > 1 {
				rescan = "150000"
			}
			add(p, rescan, "w"+strconv.Itoa(k), []string{"s", "u0", "u1", "u100"}[r.Rng.Intn(4)])
		case 3: // a failing call at position k (0 = the generator itself fails to start)
			k := r.Rng.Intn(len(p) + 1)
			q := append(append(append([]livePass{}, p[:k]...), livePass{n: -1}), p[k:]...)
			rescan := pick()
			ri, _ := strconv.Atoi(rescan)
			add(q, rescan, "f"+strconv.Itoa(ri*5/2/1000), []string{"s", "u0", "u100"}[r.Rng.Intn(3)])
		}
	}
	// 3. fixed cases: many passes; slow passes longer than the interval; long pass
	add([]livePass{{n: 1}, {n: 0}, {n: 2}, {n: 0}, {n: 0}, {n: 1}}, "20000", "i4", "s")
	add([]livePass{{n: 3, delay: 10 * time.Millisecond}, {n: 3, delay: 10 * time.Millisecond}, {n: 2}}, "20000", "i8", "s")
	add([]livePass{{n: 2, delay: 15 * time.Millisecond}, {n: 1}, {n: 1}}, "150000", "w3", "u1")
	add([]livePass{{n: 200}, {n: 200}}, "20000", "i400", "s")
	add([]livePass{{n: 150}, {n: 150}, {n: 1}}, "150000", "w2", "u100")
	add([]livePass{{n: -1}}, "20000", "f10", "s")
	add([]livePass{{n: 2}, {n: -1}, {n: 2}}, "20000", "f100", "s")

	outs := make([]string, len(jobs))
	var wg sync.WaitGroup
	sem := make(chan struct{}, 24)
	for i := range jobs {
		wg.Add(1)
		sem <- struct{}{}
		go func(i int) {
			defer wg.Done()
			defer func() { <-sem }()
			j := jobs[i]
			outs[i] = runLive(j.script, j.rescan, j.cancel, j.mode)
		}(i)
	}
	wg.Wait()
	for i, j := range jobs {
		p := parseLiveScript(j.script)
		var parts []string
		parts = append(parts, string(j.cancel[0]))
		calls := 0
		if m := strings.Index(outs[i], ";c="); m >= 0 {
			fmt.Sscanf(outs[i][m+3:], "%d", &calls)
		}
		parts = append(parts, "calls"+strconv.Itoa(calls))
		empty, slow, fail := false, false, false
		for _, x := range p {
			empty = empty || x.n == 0
			slow = slow || x.delay > 0
			fail = fail || x.n < 0
		}
		if empty {
			parts = append(parts, "empty")
			r.Count("has-empty-pass")
		}
		if slow {
			parts = append(parts, "slow")
			r.Count("has-slow-pass")
		}
		if fail {
			parts = append(parts, "fail")
			r.Count("has-failing-pass")
		}
		parts = append(parts, j.mode)
		r.Count("cancel-" + string(j.cancel[0]))
		r.Count("mode-" + j.mode)
		r.Case(strings.Join(parts, "/"), "live", j.script, j.rescan, j.cancel, j.mode, outs[i])
	}
	liveChainCases(r)
}
