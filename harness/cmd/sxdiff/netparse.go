package main

import (
	"fmt"
	"math/big"
	"strings"

	"github.com/v-byte-cpu/sx/pkg/ip"
	"sxverif/harness/internal/hx"
)

func init() {
	components["netparse"] = netparseComponent
	replayers["netparse"] = func(f []string) string { return runNetParse(string(hx.UnHex(f[1]))) }
}

func runNetParse(s string) (out string) {
	defer func() {
		if e := recover(); e != nil {
			out = fmt.Sprintf("PANIC %v", e)
		}
	}()
	n, err := ip.ParseIPNet(s)
	if err != nil {
		return "ERR"
	}
	ones, bits := n.Mask.Size()
	base := new(big.Int).SetBytes(n.IP)
	return fmt.Sprintf("OK %d %s %d %d", len(n.IP), base.String(), ones, bits)
}

func netparseComponent(r *hx.Run) {
	r.Rule = "case = one target string through ip.ParseIPNet; grammar: IPv4 hosts and CIDRs (valid, leading zeros, out-of-range octets/prefixes, wrong field counts, whitespace, signs), every IPv6 family (compressed, full, zone, v4-mapped, CIDR with small and large host parts, bracketed), garbage, NUL/high bytes, long strings, mutations of valid strings; non-trivial class = (family, accepted|refused)"
	rng := r.Rng
	emit := func(family, s string) {
		out := runNetParse(s)
		verdict := "refused"
		if strings.HasPrefix(out, "OK") {
			verdict = "accepted"
		} else if strings.HasPrefix(out, "PANIC") {
			verdict = "panic"
		}
		r.Count(family)
		r.Count(verdict)
		r.Case(family+"/"+verdict, "netparse", hx.HexS(s), out)
	}
	quad := func() string {
		return fmt.Sprintf("%d.%d.%d.%d", rng.Intn(256), rng.Intn(256), rng.Intn(256), rng.Intn(256))
	}
	fixed := map[string][]string{
		"v4": {"0.0.0.0", "255.255.255.255", "10.0.0.1", "192.168.0.1/24", "10.0.0.0/8", "0.0.0.0/0", "1.2.3.4/32", "1.2.3.255/31"},
		"v4-odd": {"01.2.3.4", "1.2.3.04", "1.2.3.4/08", "1.2.3.4/+8", "1.2.3.4/-1", "1.2.3.4/33", "1.2.3.4/", "/24", "1.2.3/24", "1.2.3.4.5",
			"1.2.3", "1..2.3", ".1.2.3", "1.2.3.", "256.1.1.1", "1.2.3.4 ", " 1.2.3.4", "1.2.3.4\n", "1.2.3.4/24/8", "1.2.3.4/2 4",
			"0x7f.0.0.1", "127.1", "2130706433", "1.2.3.4/16777216", "1.2.3.4/99999999999999999999", "１.2.3.4", "1.2.3.4%eth0", "1.2.3.4/24%eth0", ""},
		"v6": {"::1", "::", "2001:db8::1", "fe80::1%eth0", "2001:db8::/120", "2001:db8::/32", "::/0", "::1/128", "2001:db8::/64", "2001:db8::/1",
			"[::1]", "[::1]/128", "1:2:3:4:5:6:7:8", "1:2:3:4:5:6:7:8/100", "::ffff:1.2.3.4", "::ffff:1.2.3.4/120", "::ffff:1.2.3.4/128", "::ffff:102:304",
			"::1.2.3.4", "64:ff9b::1.2.3.4/96", "::/128", ":", "1.2.3.4:80", "::1/129", "::g"},
		"garbage": {"localhost", "example.com", "a.b.c.d", "-1.2.3.4", "1,2,3,4", "\x00", "1.2.3.4\x00", "\xff\xfe", strings.Repeat("1", 5000), strings.Repeat("1.", 3000), "null", "{}", "*"},
	}
	for _, fam := range []string{"v4", "v4-odd", "v6", "garbage"} {
		for _, s := range fixed[fam] {
			emit(fam, s)
		}
	}
	n := 1500
	if r.Tier == "thorough" {
		n = 120000
	}
	for i := 0; i < n; i++ {
		switch rng.Intn(8) {
		case 0:
			emit("v4", quad())
		case 1:
			emit("v4", fmt.Sprintf("%s/%d", quad(), rng.Intn(33)))
		case 2:
			emit("v4-odd", fmt.Sprintf("%s/%d", quad(), rng.Intn(140)))
		case 3: // mutate a valid string
			s := []byte(fmt.Sprintf("%s/%d", quad(), rng.Intn(33)))
			if rng.Intn(2) == 0 {
				s = []byte(quad())
			}
			for k := 1 + rng.Intn(2); k > 0; k-- {
				pos := rng.Intn(len(s))
				switch rng.Intn(3) {
				case 0:
					const repl = ".:/0 9%-+\x00a"
					s[pos] = repl[rng.Intn(len(repl))]
				case 1:
					s = append(s[:pos], s[pos+1:]...)
				case 2:
					s = append(s[:pos], append([]byte{"0.:/5"[rng.Intn(5)]}, s[pos:]...)...)
				}
				if len(s) == 0 {
					s = []byte{'.'}
				}
			}
			emit("v4-mutated", string(s))
		case 4:
			var parts []string
			for j := 0; j < 8; j++ {
				parts = append(parts, fmt.Sprintf("%x", rng.Intn(65536)))
			}
			s := strings.Join(parts, ":")
			if rng.Intn(2) == 0 {
				k := rng.Intn(7)
				s = strings.Join(parts[:k], ":") + "::" + strings.Join(parts[k+1:], ":")
			}
			if rng.Intn(2) == 0 {
				s += fmt.Sprintf("/%d", rng.Intn(129))
			}
			emit("v6", s)
		case 5:
			s := "::ffff:" + quad()
			if rng.Intn(2) == 0 {
				s += fmt.Sprintf("/%d", 96+rng.Intn(33))
			}
			emit("v6-mapped", s)
		case 6:
			b := make([]byte, rng.Intn(12))
			for j := range b {
				const soup = "0123456789./: -ab\x00\xff%"
				b[j] = soup[rng.Intn(len(soup))]
			}
			emit("soup", string(b))
		case 7:
			emit("v4-leading-zero", fmt.Sprintf("%d.%02d.%d.%d/%d", rng.Intn(256), rng.Intn(100), rng.Intn(256), rng.Intn(256), rng.Intn(33)))
		}
	}
}
