// sxdiff — correspondence harness H.  Each component generates structured cases from one PRNG
// (VERIF_SEED), runs the REAL sx code (built from /repo with -tags verif) on each case in-process and
// writes `tag \t input… \t observed-output` lines.  The Lean driver re-computes the model's output for
// the same input and evaluates the Spec predicate on the observed output; tools/check.py diffs.
//
// usage: sxdiff <component> -seed S -tier quick|thorough -cases <file> -stats <file> [-replay <line-file>]
package main

import (
	"bufio"
	"flag"
	"fmt"
	"os"
	"sort"
	"strings"

	"sxverif/harness/internal/hx"
)

type component func(r *hx.Run)

var components = map[string]component{}

// replayers re-run the real code on one recorded case line (fields as emitted, without the output)
// and return the observed output.
var replayers = map[string]func(fields []string) string{}

func main() {
	if len(os.Args) < 2 {
		usage()
	}
	name := os.Args[1]
	fs := flag.NewFlagSet(name, flag.ExitOnError)
	seed := fs.Int64("seed", 1, "PRNG seed")
	tier := fs.String("tier", "quick", "quick|thorough")
	cases := fs.String("cases", "cases.txt", "output: case lines")
	stats := fs.String("stats", "stats.json", "output: statistics")
	fs.Parse(os.Args[2:])
	if name == "replay" {
		replayMain(*cases)
		return
	}
	c, ok := components[name]
	if !ok {
		usage()
	}
	r := hx.NewRun(name, *seed, *tier, *cases)
	c(r)
	r.Close(*stats)
}

func usage() {
	var names []string
	for k := range components {
		names = append(names, k)
	}
	sort.Strings(names)
	fmt.Fprintf(os.Stderr, "usage: sxdiff <component> [-seed S] [-tier quick|thorough] [-cases F] [-stats F]\ncomponents: %v\n", names)
	os.Exit(2)
}

// replayMain: stdin carries recorded case lines WITHOUT the observed output; the real code is run
// again on each and the completed line is written to the cases file.
func replayMain(casesPath string) {
	out, err := os.Create(casesPath)
	if err != nil {
		panic(err)
	}
	defer out.Close()
	sc := bufio.NewScanner(os.Stdin)
	sc.Buffer(make([]byte, 1<<20), 1<<28)
	for sc.Scan() {
		f := strings.Split(sc.Text(), "\t")
		rp, ok := replayers[f[0]]
		if !ok {
			fmt.Fprintf(os.Stderr, "no replayer for %q\n", f[0])
			os.Exit(2)
		}
		fmt.Fprintf(out, "%s\t%s\n", strings.Join(f, "\t"), rp(f))
	}
}

func sortStrings(x []string) { sort.Strings(x) }
