package main

// e2efill (C05, C18) — what the command line ASKS FOR against what is ON THE WIRE, with the real `sx` binary in
// the network namespace of netlab.go.  The in-process component `fill` builds the fillers through hooks below the
// cobra commands; here the whole path runs: flag parsing (cobra defaults, --flags / --ipflags name lists in any
// order and letter case, the empty list, --payload escapes), parseRawOptions, interface / vpn-mode choice
// (veth pair: Ethernet; tun device: no MAC address, bare IP datagrams), the command's own option wiring
// (getUDPOptions / getICMPOptions / tcp sub-command flag options + vpn-mode option), request generation with
// --srcip / --srcmac / ARP cache / gateway MAC, the packet engine, the AF_PACKET socket.
//
// A case is one captured frame:
//
//	e2efill cmdline kind opts req rnd aux obs        (kind … obs exactly as in component fill)
//	     opts = what the command line denotes (defaults for the options that were not given)
//	     obs  = "OK <frame hex>" | "MISSING" (a requested probe never arrived) | "EXTRA <hex>" | "FAIL …"
//
// The Lean driver judges it like a `fill` case: model frame (byte-exact, given the three random header fields read
// back from the frame) and the Spec verdict of Spec/Fill.lean's independent readers (`specFill`).

import (
	"syscall"
	"encoding/hex"
	"encoding/binary"
	"fmt"
	"math/rand"
	"os"
	"path/filepath"
	"sort"
	"strconv"
	"strings"
	"sync"
	"time"

	"sxverif/harness/internal/hx"
)

func init() {
	components["e2efill"] = e2eFillComponent
}

type fillRun struct {
	kind    string   // tcp udp icmp arp
	sub     []string // command words
	tun     bool
	args    []string
	opts    string
	targets []uint32
	ports   []int // nil for icmp / arp
	srcIP   uint32
	srcMAC  []byte // nil on the tun device
	dmac    map[uint32][]byte
	selfPay bool // icmp without --payload: 48 bytes drawn by the filler
	class   string
	res     sxRun
}

var ipFlagBits = map[string]int{"mf": 1, "df": 2, "evil": 4}

// a list of names in random order and letter case
func nameList(rng *rand.Rand, bits map[string]int, mask int) string {
	var names []string
	for n, b := range bits {
		if mask&b != 0 {
			names = append(names, n)
		}
	}
	sort.Strings(names)
	rng.Shuffle(len(names), func(i, j int) { names[i], names[j] = names[j], names[i] })
	for i, n := range names {
		switch rng.Intn(3) {
		case 0:
			names[i] = strings.ToUpper(n)
		case 1:
			names[i] = strings.ToUpper(n[:1]) + n[1:]
		}
	}
	return strings.Join(names, ",")
}

// payloadArg renders bytes as a --payload argument: literal printable characters, \xNN, octal, C escapes,
// a two-byte UTF-8 character written literally or as \\u00e9
func payloadArg(rng *rand.Rand, n int) (arg string, bytes []byte) {
	var sb strings.Builder
	for len(bytes) < n {
		switch k := rng.Intn(10); {
		case k < 3:
			c := byte(0x20 + rng.Intn(0x5f))
			if c == '"' || c == '\\' {
				sb.WriteByte('\\')
			}
			sb.WriteByte(c)
			bytes = append(bytes, c)
		case k < 7:
			c := byte(rng.Intn(256))
			switch rng.Intn(6) {
			case 0:
				c = 0
			case 1:
				c = 0xff
			}
			fmt.Fprintf(&sb, "\\x%02x", c)
			bytes = append(bytes, c)
		case k == 7:
			c := byte(rng.Intn(256))
			fmt.Fprintf(&sb, "\\%03o", c)
			bytes = append(bytes, c)
		case k == 8:
			e := []struct {
				s string
				b byte
			}{{`\n`, '\n'}, {`\t`, '\t'}, {`\r`, '\r'}, {`\a`, 7}, {`\v`, 11}, {`\\`, '\\'}, {`\"`, '"'}}[rng.Intn(7)]
			sb.WriteString(e.s)
			bytes = append(bytes, e.b)
		default:
			if len(bytes)+2 > n {
				continue
			}
			if rng.Intn(2) == 0 {
				sb.WriteString("é")
			} else {
				sb.WriteString(`\u00e9`)
			}
			bytes = append(bytes, 0xc3, 0xa9)
		}
	}
	return sb.String(), bytes
}

func e2eFillComponent(r *hx.Run) {
	if !enterNetlab() {
		return
	}
	r.Rule = "case = one frame of one run of the real sx binary (arp, icmp, udp, tcp, tcp syn/fin/null/xmas, tcp --flags <any subset of the 9 names, any order and letter case, also empty>) on the veth pair (Ethernet) or on a tun device (no MAC address: bare IP datagrams), with value options drawn per run: --ttl, --ipproto, --ipflags (any subset of df/mf/evil incl. the empty list), --iplen, --type, --code, --payload (literal / \\x / octal / C escapes / UTF-8), --srcip, --srcmac, ARP cache entry or gateway MAC; each option is given or left to its default; all-zero and all-max corner runs for udp and icmp on both links; observed = the frame captured on the far end (or MISSING / EXTRA for a probe that did not arrive / was not asked for); judged like component fill: byte-exact model given the three random header fields, and the Spec readers of Spec/Fill.lean on the wire frame; non-trivial class = (command, link, options given, corner)"
	lab := newNetlab()
	defer lab.close()
	tun, err := newTun("tun0", "10.1.0.1/24")
	if err != nil {
		fmt.Fprintf(os.Stderr, "e2efill: no tun device (%v): vpn-mode runs cannot be made\n", err)
		os.Exit(4)
	}
	defer tun.close()
	time.Sleep(50 * time.Millisecond)
	dir := e2eWorkDir()
	defer os.RemoveAll(dir)
	rng := r.Rng

	slot := 0
	// mk builds one run; corner: 0 = random, 1 = every value option zero / empty, 2 = every value option at its maximum
	mk := func(kind string, sub []string, onTun bool, corner int) *fillRun {
		f := &fillRun{kind: kind, sub: sub, tun: onTun, dmac: map[uint32][]byte{}}
		net := labNet
		f.srcIP, f.srcMAC = labNet|1, []byte{2, 0, 0, 0, 0, 1}
		if onTun {
			net, f.srcIP, f.srcMAC = tunNet, tunNet|1, nil
		}
		base := net | uint32(16+4*(slot%56))
		slot++
		nt := 1 + rng.Intn(2)
		for i := 0; i < nt; i++ {
			f.targets = append(f.targets, base+uint32(i))
		}
		args := append([]string{}, sub...)
		args = append(args, "--json", "--exit-delay", "40ms")
		var given []string
		give := func(name string) bool {
			if corner != 0 || rng.Intn(2) == 0 {
				given = append(given, name)
				return true
			}
			return false
		}
		byteVal := func() int {
			switch corner {
			case 1:
				return 0
			case 2:
				return 255
			}
			switch rng.Intn(6) {
			case 0:
				return 0
			case 1:
				return 255
			}
			return rng.Intn(256)
		}
		switch kind {
		case "tcp":
			flags := map[string]int{"syn": 2, "fin": 1, "null": 0, "xmas": 1 | 8 | 32}["syn"]
			if len(sub) > 1 {
				flags = map[string]int{"syn": 2, "fin": 1, "null": 0, "xmas": 1 | 8 | 32}[sub[1]]
			}
			if len(sub) == 1 && rng.Intn(8) > 0 {
				mask := rng.Intn(512)
				switch rng.Intn(6) {
				case 0:
					mask = 0 // `--flags ""`: the SYN scan
				case 1:
					mask = 511
				case 2:
					mask = 1 << uint(rng.Intn(9))
				}
				args = append(args, "--flags", nameList(rng, tcpFlagBits, mask))
				flags = mask
				if mask == 0 {
					flags = 2
				}
				given = append(given, "flags")
			}
			f.opts = fmt.Sprintf("vpn=%d;flags=%d", b2i(onTun), flags)
		case "udp", "icmp":
			ttl, proto, ipflags, iplen, typ, code := 64, map[string]int{"udp": 17, "icmp": 1}[kind], 2, 0, 8, 0
			if give("ttl") {
				ttl = byteVal()
				args = append(args, "--ttl", fmt.Sprint(ttl))
			}
			if give("ipproto") {
				proto = byteVal()
				args = append(args, "--ipproto", fmt.Sprint(proto))
			}
			if give("ipflags") {
				ipflags = rng.Intn(8)
				if corner == 1 || (corner == 0 && rng.Intn(4) == 0) {
					ipflags = 0
				} else if corner == 2 {
					ipflags = 7
				}
				if rng.Intn(2) == 0 {
					args = append(args, "--ipflags", nameList(rng, ipFlagBits, ipflags))
				} else {
					args = append(args, "--ipflags="+nameList(rng, ipFlagBits, ipflags))
				}
			}
			if corner != 1 && give("iplen") {
				iplen = 1 + rng.Intn(65535)
				if corner == 2 {
					iplen = 65535
				}
				args = append(args, "--iplen", fmt.Sprint(iplen))
			}
			if kind == "icmp" {
				if give("type") {
					typ = byteVal()
					args = append(args, []string{"--type", "-t"}[rng.Intn(2)], fmt.Sprint(typ))
				}
				if give("code") {
					code = byteVal()
					args = append(args, []string{"--code", "-c"}[rng.Intn(2)], fmt.Sprint(code))
				}
			}
			var payload []byte
			if corner == 0 && give("payload") || corner == 2 {
				plen := 1 + rng.Intn(40)
				switch rng.Intn(5) {
				case 0:
					plen = 1 + rng.Intn(3)
				case 1:
					plen = 200 + rng.Intn(1200)
				}
				var arg string
				arg, payload = payloadArg(rng, plen)
				opt := "--payload"
				if kind == "icmp" && rng.Intn(2) == 0 {
					opt = "-p"
				}
				args = append(args, opt, arg)
				if corner == 2 {
					given = append(given, "payload")
				}
			}
			f.selfPay = kind == "icmp" && len(payload) == 0
			f.opts = fmt.Sprintf("vpn=%d;ttl=%d;proto=%d;ipflags=%d;iplen=%d;payload=%s", b2i(onTun), ttl, proto, ipflags, iplen, hx.Hex(payload))
			if kind == "icmp" {
				f.opts += fmt.Sprintf(";type=%d;code=%d", typ, code)
			}
		case "arp":
			f.opts = "-"
		}
		if kind == "tcp" || kind == "udp" {
			np := 1 + rng.Intn(2)
			p0 := rng.Intn(65535 - np)
			switch rng.Intn(8) {
			case 0:
				p0 = 0
			case 1:
				p0 = 65535 - np + 1
			}
			for i := 0; i < np; i++ {
				f.ports = append(f.ports, p0+i)
			}
			if np == 1 {
				args = append(args, "-p", fmt.Sprint(p0))
			} else {
				args = append(args, "-p", fmt.Sprintf("%d-%d", p0, p0+np-1))
			}
		}
		if rng.Intn(3) == 0 {
			f.srcIP = uint32(1+rng.Intn(222))<<24 | uint32(rng.Intn(1<<24))
			args = append(args, "--srcip", v4Text(f.srcIP))
			given = append(given, "srcip")
		}
		if !onTun && rng.Intn(3) == 0 { // on the tun device a source MAC would turn vpn mode off
			f.srcMAC = []byte{byte(rng.Intn(128)) << 1, byte(rng.Intn(256)), byte(rng.Intn(256)), byte(rng.Intn(256)), byte(rng.Intn(256)), byte(rng.Intn(256))}
			args = append(args, "--srcmac", e2eMacText(macU64(f.srcMAC)))
			given = append(given, "srcmac")
		}
		if !onTun && kind != "arp" {
			// destination MACs: own ARP cache entry, else the gateway (from the cache or from --gwmac)
			gw := []byte{2, 0, 0, 0, 0xfe, 0}
			var sb strings.Builder
			for _, t := range f.targets {
				if rng.Intn(3) > 0 {
					m := macBytes(labMAC(t))
					f.dmac[t] = m
					sb.WriteString(fmt.Sprintf("{\"ip\":\"%s\",\"mac\":\"%s\"}\n", v4Text(t), e2eMacText(labMAC(t))))
				} else {
					f.dmac[t] = gw
				}
			}
			if rng.Intn(2) == 0 {
				gw2 := []byte{2, 0, 0, 0, 0xfd, byte(rng.Intn(256))}
				for t, m := range f.dmac {
					if string(m) == string(gw) {
						f.dmac[t] = gw2
					}
				}
				args = append(args, "--gwmac", e2eMacText(macU64(gw2)))
				given = append(given, "gwmac")
			} else {
				sb.WriteString("{\"ip\":\"10.0.0.254\",\"mac\":\"02:00:00:00:fe:00\"}\n")
			}
			p := filepath.Join(dir, fmt.Sprintf("arp-%d.cache", slot))
			os.WriteFile(p, []byte(sb.String()), 0o644)
			args = append(args, "-a", p)
		}
		if kind == "arp" {
			for _, t := range f.targets {
				f.dmac[t] = []byte{0xff, 0xff, 0xff, 0xff, 0xff, 0xff}
			}
		}
		// the target: one address, or the two of a /31
		if len(f.targets) == 1 {
			args = append(args, v4Text(f.targets[0]))
		} else {
			args = append(args, v4Text(f.targets[0])+"/31")
		}
		f.args = args
		link := "eth"
		if onTun {
			link = "tun"
		}
		f.class = strings.Join(sub, " ") + "/" + link + "/" + strings.Join(given, "+")
		if corner != 0 {
			f.class += fmt.Sprintf("/corner%d", corner)
		}
		return f
	}

	tcpSubs := [][]string{{"tcp", "syn"}, {"tcp", "fin"}, {"tcp", "null"}, {"tcp", "xmas"}, {"tcp"}, {"tcp"}}
	var runs []*fillRun
	rounds := 1
	if r.Tier == "thorough" {
		rounds = 12
	}
	for it := 0; it < rounds; it++ {
		for _, onTun := range []bool{false, true} {
			for _, sub := range tcpSubs {
				runs = append(runs, mk("tcp", sub, onTun, 0))
			}
			for _, kind := range []string{"udp", "icmp"} {
				runs = append(runs, mk(kind, []string{kind}, onTun, 1), mk(kind, []string{kind}, onTun, 2))
				for i := 0; i < 2; i++ {
					runs = append(runs, mk(kind, []string{kind}, onTun, 0))
				}
			}
		}
		runs = append(runs, mk("arp", []string{"arp"}, false, 0), mk("arp", []string{"arp"}, false, 0))
	}

	// runs are made four at a time (disjoint targets; frames are told apart by their destination)
	const par = 4
	for i := 0; i < len(runs); i += par {
		end := i + par
		if end > len(runs) {
			end = len(runs)
		}
		batch := runs[i:end]
		lab.settle(30 * time.Millisecond)
		lab.take()
		tun.take()
		var wg sync.WaitGroup
		for _, f := range batch {
			wg.Add(1)
			go func(f *fillRun) {
				defer wg.Done()
				f.res = runSX(nil, 60*time.Second, f.args...)
			}(f)
		}
		wg.Wait()
		lab.settle(60 * time.Millisecond)
		settleCount(tun.count, 30*time.Millisecond)
		eth, raw := lab.take(), tun.take()
		for _, f := range batch {
			emitFillRun(r, f, eth, raw)
		}
	}

	// the overrides hold for EVERY pass of a live scan, not only for the first: `sx arp --live <d> --srcip X --srcmac M`
	// over three or more passes, ended by SIGINT; every ARP request of every pass names X and M as its sender
	nLive := 2
	if r.Tier == "thorough" {
		nLive = 8
	}
	for i := 0; i < nLive; i++ {
		base := labNet | uint32(16+4*rng.Intn(56))
		x := uint32(10<<24 | 9<<16 | uint32(rng.Intn(250))<<8 | uint32(1+rng.Intn(250))) // not an address of the host
		if i%2 == 1 {
			x = labNet | uint32(200+rng.Intn(50)) // of the subnet, not of the host
		}
		m := []byte{byte(rng.Intn(128)) << 1, byte(rng.Intn(256)), byte(rng.Intn(256)), byte(rng.Intn(256)), byte(rng.Intn(256)), byte(rng.Intn(256))}
		args := []string{"arp", "--json", "--live", fmt.Sprintf("%dms", 100+rng.Intn(100)), "--srcip", v4Text(x)}
		withMAC := i%3 != 2
		if withMAC {
			args = append(args, "--srcmac", e2eMacText(macU64(m)))
		} else {
			m = []byte{2, 0, 0, 0, 0, 1}
		}
		args = append(args, fmt.Sprintf("%s/30", v4Text(base)))
		lab.settle(30 * time.Millisecond)
		lab.take()
		p, err := startSX(false, nil, args...)
		if err != nil {
			panic(err)
		}
		// three passes' worth of requests on the wire (12 frames), however long start-up takes on this machine — and
		// at least the drawn time, at most 8 s
		minWait := time.Duration(700+rng.Intn(300)) * time.Millisecond
		for t0 := time.Now(); time.Since(t0) < 8*time.Second; time.Sleep(10 * time.Millisecond) {
			if time.Since(t0) < minWait {
				continue
			}
			k := 0
			fs, _ := lab.peek()
			for _, b := range fs {
				if len(b) >= 42 && b[12] == 8 && b[13] == 6 && b[21] == 1 && binary.BigEndian.Uint32(b[38:42])&^3 == base {
					k++
				}
			}
			if k >= 12 {
				break
			}
		}
		p.signal(syscall.SIGINT)
		res := p.wait(20 * time.Second)
		lab.settle(40 * time.Millisecond)
		spa, sha := map[string]bool{}, map[string]bool{}
		n := 0
		for _, b := range lab.take() {
			if len(b) >= 42 && b[12] == 8 && b[13] == 6 && b[21] == 1 && binary.BigEndian.Uint32(b[38:42])&^3 == base {
				n++
				spa[fmt.Sprint(binary.BigEndian.Uint32(b[28:32]))] = true
				sha[hex.EncodeToString(b[22:28])+"/"+hex.EncodeToString(b[6:12])] = true
			}
		}
		keys := func(m map[string]bool) string {
			var ks []string
			for k := range m {
				ks = append(ks, k)
			}
			sort.Strings(ks)
			return strings.Join(ks, ",")
		}
		obs := fmt.Sprintf("spa=%s;sha=%s;passes=%d;exit=%d", keys(spa), keys(sha), n/4, res.exit)
		if res.timedOut {
			obs = "TIMEOUT"
		}
		r.Count("live-overrides")
		r.Case(fmt.Sprintf("arp-live/srcmac=%v", withMAC), "e2elivesrc", cmdText(args), fmt.Sprint(x), hex.EncodeToString(m), obs)
	}
}

func macU64(m []byte) uint64 {
	var v uint64
	for _, b := range m {
		v = v<<8 | uint64(b)
	}
	return v
}

func u32b(v uint32) []byte { return []byte{byte(v >> 24), byte(v >> 16), byte(v >> 8), byte(v)} }

// emitFillRun: one case per requested probe (its frame, or MISSING) and one per frame nobody asked for
func emitFillRun(r *hx.Run, f *fillRun, eth, raw [][]byte) {
	cmdline := cmdText(f.args)
	r.Count("cmd:" + strings.Join(f.sub, " ") + "/" + map[bool]string{false: "eth", true: "tun"}[f.tun])
	isTarget := map[uint32]bool{}
	for _, t := range f.targets {
		isTarget[t] = true
	}
	req := func(dst uint32, port int) string {
		return fmt.Sprintf("%s,%s,%s,%s,%d", hx.Hex(u32b(f.srcIP)), hx.Hex(u32b(dst)), hx.Hex(f.srcMAC), hx.Hex(f.dmac[dst]), port)
	}
	if f.res.timedOut || f.res.exit != 0 {
		r.Case(f.class+"/fail", "e2efill", cmdline, f.kind, f.opts, req(f.targets[0], 0), "0,0,0", "-",
			fmt.Sprintf("FAIL exit=%d %s", f.res.exit, hx.HexS(lastLine(f.res.stderr))))
		return
	}
	// the frames of this run: addressed (IP destination / ARP target) to one of its targets
	type got struct {
		b    []byte
		dst  uint32
		port int
	}
	var mine []got
	frames, off := eth, 14
	if f.tun {
		frames, off = raw, 0
	}
	for _, b := range frames {
		if !f.tun {
			if len(b) < 14 {
				continue
			}
			et := binary.BigEndian.Uint16(b[12:14])
			if f.kind == "arp" {
				if et == 0x0806 && len(b) >= 42 && isTarget[binary.BigEndian.Uint32(b[38:42])] {
					mine = append(mine, got{b, binary.BigEndian.Uint32(b[38:42]), 0})
				}
				continue
			}
			if et != 0x0800 {
				continue
			}
		}
		if len(b) < off+20 || b[off]>>4 != 4 {
			continue
		}
		dst := binary.BigEndian.Uint32(b[off+16 : off+20])
		if !isTarget[dst] {
			continue
		}
		port := 0
		if f.ports != nil && len(b) >= off+24 {
			port = int(binary.BigEndian.Uint16(b[off+22 : off+24]))
		}
		mine = append(mine, got{b, dst, port})
	}
	emit := func(tag string, dst uint32, port int, b []byte) {
		rnd, aux, obs := "0,0,0", "-", tag
		if b != nil {
			id, p1, seq := 0, 0, uint32(0)
			if f.kind != "arp" && len(b) >= off+28 {
				id = (int(binary.BigEndian.Uint16(b[off+4:])) - 1) & 0xffff
				switch f.kind {
				case "tcp":
					p1 = (int(binary.BigEndian.Uint16(b[off+20:])) - 32768) & 0xffff
					seq = binary.BigEndian.Uint32(b[off+24:])
				case "udp":
					p1 = (int(binary.BigEndian.Uint16(b[off+20:])) - 32768) & 0xffff
				case "icmp":
					p1 = (int(binary.BigEndian.Uint16(b[off+24:])) - 1) & 0xffff
				}
				if f.selfPay {
					aux = "x" + hx.Hex(b[off+28:])
				}
			}
			rnd = fmt.Sprintf("%d,%d,%d", id, p1, seq)
			if tag == "OK" {
				obs = "OK " + hx.Hex(b)
			} else {
				obs = tag + " " + hx.Hex(b)
			}
		}
		r.Case(f.class, "e2efill", cmdline, f.kind, f.opts, req(dst, port), rnd, aux, obs)
	}
	ports := f.ports
	if ports == nil {
		ports = []int{0}
	}
	used := make([]bool, len(mine))
	for _, t := range f.targets {
		for _, p := range ports {
			found := false
			for i, g := range mine {
				if !used[i] && g.dst == t && g.port == p {
					used[i], found = true, true
					emit("OK", t, p, g.b)
					break
				}
			}
			if !found {
				emit("MISSING", t, p, nil)
			}
		}
	}
	for i, g := range mine {
		if !used[i] {
			emit("EXTRA", g.dst, g.port, g.b)
		}
	}
}

// cmdText renders a command line readably in one field (arguments that are empty or hold a blank or a quote are quoted)
func cmdText(args []string) string {
	out := make([]string, len(args))
	for i, a := range args {
		if a == "" || strings.ContainsAny(a, " \"'\t\n") {
			a = strconv.Quote(a)
		}
		out[i] = a
	}
	return "sx " + strings.Join(out, " ")
}
