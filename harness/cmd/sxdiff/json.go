package main

// component `json` (C14): random results of every type, with hostile strings, through the REAL
// MarshalJSON (tag jres) and through the REAL command/log JSON logger / UniqueLogger (tag jlog, observed =
// the sequence of Write calls).  The model renders the same result; the Spec reader is evaluated on the
// real bytes.  Server-supplied parts (elastic maps, docker Info/Version) are handed to the model as the
// value tree encoding/json walks (`goVal`: a reflect walk that follows encoding/json's struct rules).

import (
	"bytes"
	"context"
	"encoding/base64"
	"encoding/json"
	"fmt"
	"math"
	"net"
	"reflect"
	"regexp"
	"sort"
	"strconv"
	"strings"
	"time"
	"unicode/utf8"

	"github.com/docker/docker/api/types"
	"github.com/docker/docker/api/types/registry"
	"github.com/v-byte-cpu/sx/command/log"
	"github.com/v-byte-cpu/sx/pkg/scan"
	"github.com/v-byte-cpu/sx/pkg/scan/arp"
	"github.com/v-byte-cpu/sx/pkg/scan/docker"
	"github.com/v-byte-cpu/sx/pkg/scan/elastic"
	"github.com/v-byte-cpu/sx/pkg/scan/icmp"
	"github.com/v-byte-cpu/sx/pkg/scan/socks5"
	"github.com/v-byte-cpu/sx/pkg/scan/tcp"
	"sxverif/harness/internal/hx"
)

func init() {
	components["json"] = jsonComponent
	replayers["jres"] = func(f []string) string { return runJRes(f[1]) }
	replayers["juniqbig"] = func(f []string) string {
		n, _ := strconv.Atoi(f[1])
		rep, _ := strconv.Atoi(f[2])
		return runUniqBig(n, rep)
	}
	replayers["juniqstall"] = func(f []string) string {
		n, _ := strconv.Atoi(f[1])
		rep, _ := strconv.Atoi(f[2])
		return runUniqStall(n, rep, 250*time.Millisecond)
	}
	replayers["jlog"] = func(f []string) string { return runJLog(f[1], f[2]) }
	replayers["jplain"] = func(f []string) string { return runJPlain(f[1]) }
}

// ------------------------------------------------------------------ value tree -> V encoding

var intLitRx = regexp.MustCompile(`^(0|-?[1-9][0-9]*)$`)

// floatLit: encoding/json's floatEncoder (64 bit), verbatim.
func floatLit(f float64) string {
	b := []byte{}
	abs := math.Abs(f)
	fmtc := byte('f')
	if abs != 0 {
		if abs < 1e-6 || abs >= 1e21 {
			fmtc = 'e'
		}
	}
	b = strconv.AppendFloat(b, f, fmtc, -1, 64)
	if fmtc == 'e' {
		n := len(b)
		if n >= 4 && b[n-4] == 'e' && (b[n-3] == '-' || b[n-3] == '+') && b[n-2] == '0' {
			b[n-2] = b[n-1]
			b = b[:n-1]
		}
	}
	return string(b)
}

func numV(lit string) string {
	if intLitRx.MatchString(lit) {
		return "i" + lit + "."
	}
	return "d" + hx.HexS(lit) + "."
}

func strV(s string) string {
	if !utf8.ValidString(s) {
		panic("goVal: invalid UTF-8 inside a server-supplied value (not modelled): " + strconv.Quote(s))
	}
	return "s" + hx.HexS(s) + "."
}

var (
	marshalerT = reflect.TypeOf((*json.Marshaler)(nil)).Elem()
	timeT      = reflect.TypeOf(time.Time{})
)

func isEmptyValue(v reflect.Value) bool {
	switch v.Kind() {
	case reflect.Array, reflect.Map, reflect.Slice, reflect.String:
		return v.Len() == 0
	case reflect.Bool:
		return !v.Bool()
	case reflect.Int, reflect.Int8, reflect.Int16, reflect.Int32, reflect.Int64:
		return v.Int() == 0
	case reflect.Uint, reflect.Uint8, reflect.Uint16, reflect.Uint32, reflect.Uint64, reflect.Uintptr:
		return v.Uint() == 0
	case reflect.Float32, reflect.Float64:
		return v.Float() == 0
	case reflect.Interface, reflect.Pointer:
		return v.IsNil()
	}
	return false
}

// anyV: a value decoded by encoding/json into interface{} (UseNumber) -> V
func anyV(x interface{}) string {
	switch t := x.(type) {
	case nil:
		return "n"
	case bool:
		if t {
			return "t"
		}
		return "f"
	case json.Number:
		return numV(string(t))
	case float64:
		return numV(floatLit(t))
	case string:
		return strV(t)
	case []interface{}:
		var sb strings.Builder
		fmt.Fprintf(&sb, "a%d.", len(t))
		for _, e := range t {
			sb.WriteString(anyV(e))
		}
		return sb.String()
	case map[string]interface{}:
		if t == nil {
			return "n"
		}
		var sb strings.Builder
		fmt.Fprintf(&sb, "m%d.", len(t))
		// Go's own (random) map iteration order: the MODEL does the sorting
		for k, e := range t {
			if !utf8.ValidString(k) {
				panic("goVal: invalid UTF-8 key")
			}
			sb.WriteString(hx.HexS(k) + ".")
			sb.WriteString(anyV(e))
		}
		return sb.String()
	}
	panic(fmt.Sprintf("anyV: %T", x))
}

type fieldV struct{ name, v string }

func structFields(v reflect.Value) []fieldV {
	var out []fieldV
	t := v.Type()
	for i := 0; i < t.NumField(); i++ {
		sf := t.Field(i)
		tag := sf.Tag.Get("json")
		if tag == "-" {
			continue
		}
		name, opts, _ := strings.Cut(tag, ",")
		if sf.Anonymous && name == "" && sf.Type.Kind() == reflect.Struct {
			out = append(out, structFields(v.Field(i))...)
			continue
		}
		if !sf.IsExported() {
			continue
		}
		if name == "" {
			name = sf.Name
		}
		if strings.Contains(","+opts+",", ",omitempty,") && isEmptyValue(v.Field(i)) {
			continue
		}
		if strings.Contains(","+opts+",", ",string,") {
			panic("goVal: ,string option not supported")
		}
		out = append(out, fieldV{name, goVal(v.Field(i))})
	}
	return out
}

// goVal: the tree encoding/json walks for v, as V.  Struct fields in declaration order (`r`), maps as
// `m` in Go's iteration order (the model sorts), nil map/slice/pointer/interface = n.
func goVal(v reflect.Value) string {
	if v.Kind() != reflect.Pointer && v.Kind() != reflect.Interface && v.CanAddr() && v.Addr().Type().Implements(marshalerT) ||
		v.Type().Implements(marshalerT) {
		if (v.Kind() == reflect.Pointer || v.Kind() == reflect.Interface) && v.IsNil() {
			return "n"
		}
		var m json.Marshaler
		if v.Type().Implements(marshalerT) {
			m = v.Interface().(json.Marshaler)
		} else {
			m = v.Addr().Interface().(json.Marshaler)
		}
		b, err := m.MarshalJSON()
		if err != nil {
			panic(err)
		}
		dec := json.NewDecoder(bytes.NewReader(b))
		dec.UseNumber()
		var x interface{}
		if err := dec.Decode(&x); err != nil {
			panic(err)
		}
		return anyV(x)
	}
	switch v.Kind() {
	case reflect.Bool:
		if v.Bool() {
			return "t"
		}
		return "f"
	case reflect.Int, reflect.Int8, reflect.Int16, reflect.Int32, reflect.Int64:
		return "i" + strconv.FormatInt(v.Int(), 10) + "."
	case reflect.Uint, reflect.Uint8, reflect.Uint16, reflect.Uint32, reflect.Uint64, reflect.Uintptr:
		return "i" + strconv.FormatUint(v.Uint(), 10) + "."
	case reflect.Float64:
		return numV(floatLit(v.Float()))
	case reflect.String:
		return strV(v.String())
	case reflect.Interface:
		if v.IsNil() {
			return "n"
		}
		return goVal(v.Elem())
	case reflect.Pointer:
		if v.IsNil() {
			return "n"
		}
		return goVal(v.Elem())
	case reflect.Slice:
		if v.IsNil() {
			return "n"
		}
		if v.Type().Elem().Kind() == reflect.Uint8 {
			return strV(base64.StdEncoding.EncodeToString(v.Bytes()))
		}
		fallthrough
	case reflect.Array:
		var sb strings.Builder
		fmt.Fprintf(&sb, "a%d.", v.Len())
		for i := 0; i < v.Len(); i++ {
			sb.WriteString(goVal(v.Index(i)))
		}
		return sb.String()
	case reflect.Map:
		if v.IsNil() {
			return "n"
		}
		if v.Type().Key().Kind() != reflect.String {
			panic("goVal: non-string map key")
		}
		var sb strings.Builder
		fmt.Fprintf(&sb, "m%d.", v.Len())
		it := v.MapRange()
		for it.Next() {
			ks := it.Key().String()
			if !utf8.ValidString(ks) {
				panic("goVal: invalid UTF-8 key")
			}
			sb.WriteString(hx.HexS(ks) + ".")
			sb.WriteString(goVal(it.Value()))
		}
		return sb.String()
	case reflect.Struct:
		fs := structFields(v)
		var sb strings.Builder
		fmt.Fprintf(&sb, "r%d.", len(fs))
		for _, f := range fs {
			sb.WriteString(hx.HexS(f.name) + ".")
			sb.WriteString(f.v)
		}
		return sb.String()
	}
	panic("goVal: unsupported kind " + v.Kind().String() + " of " + v.Type().String())
}

// ------------------------------------------------------------------ hostile strings

var validBits = []string{"\"", "\\", "\n", "\r", "\t", "\b", "\f", "\x00", "\x01", "\x1f", "\x7f", "<", ">", "&", "'", "/", " ",
	"\u2028", "\u2029", "\ufffd", "\u00e9", "\u4e16", "\U0001F600", "\u0080", "\u07ff", "\u0800", "\uffff", "\ufeff", "\U00010000",
	"\U0010ffff", "\ud7ff", "\ue000", "</script>", "\\u0041", "\\u0026", "\\u003c", "\\u003e", "\\u2028", "\\\\u0026", "\\\"", "\\n", "{\"a\":1}", "\u202e", "\u0085", ":", ",", "}", "]", "null"}

var invalidBits = []string{"\xff", "\xfe", "\xc0\x80", "\xc1\xbf", "\xed\xa0\x80", "\xed\xbf\xbf", "\xe2\x80", "\xf4\x90\x80\x80",
	"\x80", "\xbf", "\xc2", "\xf0\x9f\x98", "\xe0\x9f\xbf", "\xf0\x8f\xbf\xbf", "\xf5\x80\x80\x80", "\xe2\x28\xa1", "\xc3\x28"}

type strFeat map[string]bool

func note(ft strFeat, s string) {
	for i := 0; i < len(s); {
		c, n := utf8.DecodeRuneInString(s[i:])
		switch {
		case c == utf8.RuneError && n == 1:
			ft["inval"] = true
		case c == '"' || c == '\\':
			ft["quote"] = true
		case c < 0x20:
			ft["ctrl"] = true
		case c == '<' || c == '>' || c == '&':
			ft["html"] = true
		case c == 0x2028 || c == 0x2029:
			ft["lsep"] = true
		case c >= 0x10000:
			ft["astral"] = true
		case c >= 0x80:
			ft["nonascii"] = true
		}
		i += n
	}
	if len(s) > 1000 {
		ft["long"] = true
	}
}

func (g *jgen) str(allowInvalid bool) string {
	r := g.r.Rng
	switch r.Intn(10) {
	case 0:
		return ""
	case 1, 2:
		// plain
		n := 1 + r.Intn(12)
		b := make([]byte, n)
		for i := range b {
			const al = "abcdefghijklmnopqrstuvwxyzABCXYZ0123456789.-_: "
			b[i] = al[r.Intn(len(al))]
		}
		return string(b)
	}
	n := 1 + r.Intn(8)
	if r.Intn(40) == 0 {
		n = 300 + r.Intn(1500)
	}
	var sb strings.Builder
	for i := 0; i < n; i++ {
		switch k := r.Intn(10); {
		case k < 4:
			sb.WriteString(validBits[r.Intn(len(validBits))])
		case k < 6 && allowInvalid:
			sb.WriteString(invalidBits[r.Intn(len(invalidBits))])
		case k == 6 && allowInvalid:
			sb.WriteByte(byte(r.Intn(256)))
		case k == 7:
			sb.WriteRune(rune(r.Intn(0x80)))
		case k == 8:
			c := rune(r.Intn(0x110000))
			if c >= 0xd800 && c <= 0xdfff {
				c = 0xfffd
			}
			sb.WriteRune(c)
		default:
			sb.WriteByte("abcxyz019 "[r.Intn(10)])
		}
	}
	return sb.String()
}

type jgen struct {
	r  *hx.Run
	ft strFeat
}

func (g *jgen) s(allowInvalid bool) string {
	s := g.str(allowInvalid)
	note(g.ft, s)
	return s
}

func (g *jgen) ip() string {
	r := g.r.Rng
	if r.Intn(8) == 0 {
		return g.s(true)
	}
	return net.IPv4(byte(r.Intn(256)), byte(r.Intn(256)), byte(r.Intn(4)), byte(r.Intn(4))).String()
}

// ------------------------------------------------------------------ random server-supplied values

// jsonText: a random JSON document (object at the top) as a hostile server would send it
func (g *jgen) jsonText(depth int, top bool) string {
	r := g.r.Rng
	k := r.Intn(9)
	if top {
		k = 8
	} else if depth <= 0 && k >= 7 {
		k = r.Intn(7)
	}
	switch k {
	case 0:
		return "null"
	case 1:
		return []string{"true", "false"}[r.Intn(2)]
	case 2, 3:
		return g.numText()
	case 4, 5, 6:
		return g.strText()
	case 7:
		n := r.Intn(4)
		var el []string
		for i := 0; i < n; i++ {
			el = append(el, g.jsonText(depth-1, false))
		}
		return "[" + strings.Join(el, []string{",", " , ", ",\n"}[r.Intn(3)]) + "]"
	}
	n := r.Intn(5)
	var el []string
	for i := 0; i < n; i++ {
		el = append(el, g.strText()+":"+g.jsonText(depth-1, false))
	}
	return "{" + strings.Join(el, ",") + "}"
}

func (g *jgen) numText() string {
	r := g.r.Rng
	switch r.Intn(12) {
	case 0:
		return "0"
	case 1:
		return "-0"
	case 2:
		return strconv.Itoa(r.Intn(100000) - 50000)
	case 3:
		return strconv.FormatFloat(r.NormFloat64()*1000, 'f', r.Intn(6), 64)
	case 4:
		return strconv.FormatFloat(r.NormFloat64(), 'e', r.Intn(10), 64)
	case 5:
		return []string{"1e21", "1e20", "999999999999999999999", "1e-6", "1e-7", "0.000001", "123456789012345678", "1E+2", "1e400x"[:5], "2.5e-10",
			"9007199254740993", "-1e21", "1.0", "100", "1e2", "0.1e1", "4.9e-324", "1.7976931348623157e308"}[r.Intn(18)]
	case 6:
		return strconv.FormatUint(r.Uint64(), 10)
	case 7:
		return strconv.FormatInt(int64(r.Uint64()), 10)
	}
	return strconv.FormatFloat(math.Float64frombits(r.Uint64()&^(0x7ff<<52)|uint64(r.Intn(2046)+1)<<52), 'g', -1, 64)
}

// strText: a JSON string token; raw characters, escapes (incl. surrogate pairs and lone surrogates),
// occasionally raw invalid UTF-8 (the decoder turns it into U+FFFD)
func (g *jgen) strText() string {
	r := g.r.Rng
	var sb strings.Builder
	sb.WriteByte('"')
	n := r.Intn(7)
	for i := 0; i < n; i++ {
		switch r.Intn(8) {
		case 0:
			sb.WriteString([]string{`\"`, `\\`, `\/`, `\b`, `\f`, `\n`, `\r`, `\t`}[r.Intn(8)])
		case 1:
			sb.WriteString(fmt.Sprintf(`\u%04x`, []int{0, 0x1f, 0x22, 0x3c, 0x3e, 0x26, 0x2028, 0x2029, 0xfffd, 0xd800, 0xdc00, 0xffff, 0x7f, 0x41}[r.Intn(14)]))
		case 2:
			sb.WriteString(`\ud83d\ude00`)
		case 3:
			b := validBits[r.Intn(len(validBits))]
			for _, c := range b {
				if c < 0x20 || c == '"' || c == '\\' {
					sb.WriteString(fmt.Sprintf(`\u%04x`, c))
				} else {
					sb.WriteRune(c)
				}
			}
		case 4:
			if r.Intn(3) == 0 {
				sb.WriteString(invalidBits[r.Intn(len(invalidBits))])
			} else {
				sb.WriteString("x")
			}
		default:
			sb.WriteString([]string{"a", "b", "name", "cluster_name", "version", "<b>", "&amp;", "\u00e9", "\u4e16", "\U0001f600", "\u2028", " "}[r.Intn(12)])
		}
	}
	sb.WriteByte('"')
	return sb.String()
}

// serverMap: what elasticClient.Get leaves in `data` for a random body
func (g *jgen) serverMap() map[string]interface{} {
	r := g.r.Rng
	if r.Intn(10) == 0 {
		return nil
	}
	for try := 0; try < 20; try++ {
		txt := g.jsonText(1+r.Intn(3), true)
		var data map[string]interface{}
		if err := json.NewDecoder(strings.NewReader(txt)).Decode(&data); err == nil {
			g.noteVal(data)
			return data
		}
	}
	return map[string]interface{}{}
}

func (g *jgen) noteVal(x interface{}) {
	switch t := x.(type) {
	case string:
		note(g.ft, t)
	case float64:
		g.ft["num"] = true
	case []interface{}:
		g.ft["arr"] = true
		for _, e := range t {
			g.noteVal(e)
		}
	case map[string]interface{}:
		if len(t) > 1 {
			g.ft["map2"] = true
		}
		for k, e := range t {
			note(g.ft, k)
			g.noteVal(e)
		}
	}
}

// fill: random contents for an arbitrary docker API struct (strings are valid UTF-8: they come out of a
// JSON decoder in the real scan)
func (g *jgen) fill(v reflect.Value, depth int) {
	r := g.r.Rng
	if v.Type() == timeT {
		if r.Intn(2) == 0 {
			v.Set(reflect.ValueOf(time.Unix(int64(r.Intn(2000000000)), int64(r.Intn(1000000000))).UTC()))
		}
		return
	}
	if v.Type() == reflect.TypeOf(registry.NetIPNet{}) {
		v.Set(reflect.ValueOf(registry.NetIPNet{IP: net.IPv4(10, byte(r.Intn(256)), 0, 0).To4(), Mask: net.CIDRMask(8+r.Intn(17), 32)}))
		return
	}
	switch v.Kind() {
	case reflect.Bool:
		v.SetBool(r.Intn(2) == 0)
	case reflect.Int, reflect.Int8, reflect.Int16, reflect.Int32, reflect.Int64:
		x := int64(r.Intn(200)) - 50
		if r.Intn(6) == 0 {
			x = int64(r.Uint64())
		}
		if v.OverflowInt(x) {
			x = 1
		}
		v.SetInt(x)
	case reflect.Uint, reflect.Uint8, reflect.Uint16, reflect.Uint32, reflect.Uint64:
		x := uint64(r.Intn(200))
		if r.Intn(6) == 0 {
			x = r.Uint64()
		}
		if v.OverflowUint(x) {
			x = 1
		}
		v.SetUint(x)
	case reflect.Float64:
		v.SetFloat(r.NormFloat64() * 100)
	case reflect.String:
		if r.Intn(3) == 0 {
			v.SetString(g.s(false))
		} else if r.Intn(3) == 0 {
			v.SetString("v" + strconv.Itoa(r.Intn(100)))
		}
	case reflect.Pointer:
		if depth > 0 && r.Intn(2) == 0 {
			v.Set(reflect.New(v.Type().Elem()))
			g.fill(v.Elem(), depth-1)
		}
	case reflect.Slice:
		switch r.Intn(3) {
		case 0:
		case 1:
			v.Set(reflect.MakeSlice(v.Type(), 0, 0))
		default:
			n := 1 + r.Intn(3)
			if depth <= 0 {
				n = 0
			}
			v.Set(reflect.MakeSlice(v.Type(), n, n))
			for i := 0; i < n; i++ {
				g.fill(v.Index(i), depth-1)
			}
		}
	case reflect.Array:
		for i := 0; i < v.Len(); i++ {
			g.fill(v.Index(i), depth-1)
		}
	case reflect.Map:
		switch r.Intn(3) {
		case 0:
		case 1:
			v.Set(reflect.MakeMap(v.Type()))
		default:
			v.Set(reflect.MakeMap(v.Type()))
			n := 1 + r.Intn(4)
			if depth <= 0 {
				n = 0
			}
			for i := 0; i < n; i++ {
				k := reflect.New(v.Type().Key()).Elem()
				k.SetString(g.s(false))
				e := reflect.New(v.Type().Elem()).Elem()
				g.fill(e, depth-1)
				v.SetMapIndex(k, e)
			}
			if n > 1 {
				g.ft["map2"] = true
			}
		}
	case reflect.Struct:
		for i := 0; i < v.NumField(); i++ {
			if v.Type().Field(i).IsExported() {
				g.fill(v.Field(i), depth-1)
			}
		}
	case reflect.Interface:
		if r.Intn(2) == 0 {
			v.Set(reflect.ValueOf(g.s(false)))
		}
	default:
		panic("fill: " + v.Type().String())
	}
}

// ------------------------------------------------------------------ results

type jresult struct {
	enc string // encoding for the driver
	res scan.Result
	typ string
}

func encResult(res scan.Result) string {
	switch t := res.(type) {
	case *arp.ScanResult:
		return "arp:" + hx.HexS(t.IP) + ":" + hx.HexS(t.MAC) + ":" + hx.HexS(t.Vendor)
	case *tcp.ScanResult:
		return fmt.Sprintf("tcp:%s:%s:%d:%s", hx.HexS(t.ScanType), hx.HexS(t.IP), t.Port, hx.HexS(t.Flags))
	case *icmp.ScanResult:
		ic := "n"
		if t.ICMP != nil {
			ic = fmt.Sprintf("%d,%d", t.ICMP.Type, t.ICMP.Code)
		}
		return fmt.Sprintf("icmp:%s:%s:%d:%s", hx.HexS(t.ScanType), hx.HexS(t.IP), t.TTL, ic)
	case *socks5.ScanResult:
		au := "0"
		if t.Auth {
			au = "1"
		}
		return fmt.Sprintf("socks:%s:%d:%s:%d:%s", hx.HexS(t.ScanType), t.Version, hx.HexS(t.IP), t.Port, au)
	case *elastic.ScanResult:
		return fmt.Sprintf("elastic:%s:%s:%s:%s:%s", hx.HexS(t.ScanType), hx.HexS(t.Proto), hx.HexS(t.Host),
			goVal(reflect.ValueOf(t.Info)), goVal(reflect.ValueOf(t.Indexes)))
	case *docker.ScanResult:
		return fmt.Sprintf("docker:%s:%s:%s:%s:%s", hx.HexS(t.ScanType), hx.HexS(t.Proto), hx.HexS(t.Host),
			goVal(reflect.ValueOf(&t.Info).Elem()), goVal(reflect.ValueOf(&t.Version).Elem()))
	}
	panic("encResult")
}

// decResult: inverse of encResult for the flat types (replay); elastic/docker are rebuilt from V
func decResult(enc string) scan.Result {
	f := strings.Split(enc, ":")
	s := func(i int) string { return string(hx.UnHex(f[i])) }
	n := func(i int) int { v, _ := strconv.Atoi(f[i]); return v }
	switch f[0] {
	case "arp":
		return &arp.ScanResult{IP: s(1), MAC: s(2), Vendor: s(3)}
	case "tcp":
		return &tcp.ScanResult{ScanType: s(1), IP: s(2), Port: uint16(n(3)), Flags: s(4)}
	case "icmp":
		res := &icmp.ScanResult{ScanType: s(1), IP: s(2), TTL: uint8(n(3))}
		if f[4] != "n" {
			tc := strings.Split(f[4], ",")
			t, _ := strconv.Atoi(tc[0])
			c, _ := strconv.Atoi(tc[1])
			res.ICMP = &icmp.Response{Type: uint8(t), Code: uint8(c)}
		}
		return res
	case "socks":
		return &socks5.ScanResult{ScanType: s(1), Version: n(2), IP: s(3), Port: uint16(n(4)), Auth: f[5] == "1"}
	case "elastic":
		return &elastic.ScanResult{ScanType: s(1), Proto: s(2), Host: s(3), Info: vToMap(f[4]), Indexes: vToMap(f[5])}
	}
	return nil // docker: typed struct, not rebuilt from V
}

// vToMap: V -> map[string]interface{} (elastic replay)
func vToMap(v string) map[string]interface{} {
	x, _ := vParse(v)
	if x == nil {
		return nil
	}
	return x.(map[string]interface{})
}

func vParse(s string) (interface{}, string) {
	cut := func(s string) (string, string) { i := strings.IndexByte(s, '.'); return s[:i], s[i+1:] }
	switch s[0] {
	case 'n':
		return nil, s[1:]
	case 't':
		return true, s[1:]
	case 'f':
		return false, s[1:]
	case 'i':
		a, r := cut(s[1:])
		f, _ := strconv.ParseFloat(a, 64)
		return f, r
	case 'd':
		a, r := cut(s[1:])
		f, _ := strconv.ParseFloat(string(hx.UnHex(a)), 64)
		return f, r
	case 's':
		a, r := cut(s[1:])
		return string(hx.UnHex(a)), r
	case 'a':
		a, r := cut(s[1:])
		n, _ := strconv.Atoi(a)
		l := make([]interface{}, 0, n)
		for i := 0; i < n; i++ {
			var e interface{}
			e, r = vParse(r)
			l = append(l, e)
		}
		return l, r
	case 'm', 'r':
		a, r := cut(s[1:])
		n, _ := strconv.Atoi(a)
		m := map[string]interface{}{}
		for i := 0; i < n; i++ {
			var k string
			k, r = cut(r)
			var e interface{}
			e, r = vParse(r)
			m[string(hx.UnHex(k))] = e
		}
		return m, r
	}
	panic("vParse")
}

var scanTypes = []string{"syn", "fin", "null", "xmas", "udp", "icmp", "socks", "elastic", "docker"}

func (g *jgen) result(typ string) scan.Result {
	r := g.r.Rng
	st := func(dflt string) string {
		if r.Intn(4) == 0 {
			return g.s(true)
		}
		return dflt
	}
	switch typ {
	case "arp":
		mac := net.HardwareAddr{byte(r.Intn(256)), byte(r.Intn(256)), byte(r.Intn(256)), 1, 2, 3}.String()
		if r.Intn(8) == 0 {
			mac = g.s(true)
		}
		return &arp.ScanResult{IP: g.ip(), MAC: mac, Vendor: g.s(true)}
	case "tcp":
		fl := ""
		if r.Intn(2) == 0 {
			fl = []string{"sa", "r", "safrpuecn", "a"}[r.Intn(4)]
		} else if r.Intn(3) == 0 {
			fl = g.s(true)
		}
		return &tcp.ScanResult{ScanType: st(scanTypes[r.Intn(4)]), IP: g.ip(), Port: g.port(), Flags: fl}
	case "icmp", "udp":
		res := &icmp.ScanResult{ScanType: st(typ), IP: g.ip(), TTL: uint8(g.small(256))}
		if r.Intn(6) != 0 {
			res.ICMP = &icmp.Response{Type: uint8(g.small(256)), Code: uint8(g.small(256))}
		}
		return res
	case "socks":
		ver := 5
		if r.Intn(3) == 0 {
			ver = []int{0, -1, 4, 255, math.MaxInt64, math.MinInt64, -12345, 1000000}[r.Intn(8)]
		}
		return &socks5.ScanResult{ScanType: st("socks"), Version: ver, IP: g.ip(), Port: g.port(), Auth: r.Intn(2) == 0}
	case "elastic":
		return &elastic.ScanResult{ScanType: st("elastic"), Proto: st([]string{"http", "https"}[r.Intn(2)]),
			Host: g.ip() + ":" + strconv.Itoa(int(g.port())), Info: g.serverMap(), Indexes: g.serverMap()}
	case "docker":
		res := &docker.ScanResult{ScanType: st("docker"), Proto: st([]string{"http", "https"}[r.Intn(2)]),
			Host: "tcp://" + g.ip() + ":" + strconv.Itoa(int(g.port()))}
		if r.Intn(10) != 0 {
			g.fill(reflect.ValueOf(&res.Info).Elem(), 4)
		}
		if r.Intn(4) != 0 {
			g.fill(reflect.ValueOf(&res.Version).Elem(), 3)
		}
		_ = types.Info{}
		return res
	}
	panic(typ)
}

func (g *jgen) port() uint16 {
	r := g.r.Rng
	switch r.Intn(6) {
	case 0:
		return []uint16{0, 1, 9, 10, 99, 100, 65535, 65534, 10000, 9999}[r.Intn(10)]
	}
	return uint16(r.Intn(65536))
}

func (g *jgen) small(n int) int {
	r := g.r.Rng
	if r.Intn(4) == 0 {
		return []int{0, 9, 10, 99, 100, 255}[r.Intn(6)] % n
	}
	return r.Intn(n)
}

// ------------------------------------------------------------------ running the real code

func marshalReal(res scan.Result) string {
	var out string
	p, msg := hx.Recover(func() {
		b, err := res.MarshalJSON()
		if err != nil {
			out = "ERR"
			return
		}
		out = hx.Hex(b)
	})
	if p {
		return "PANIC " + strings.ReplaceAll(strings.ReplaceAll(msg, "\t", " "), "\n", " ")
	}
	return out
}

func runJRes(enc string) string {
	res := decResult(enc)
	if res == nil {
		return "NOT-REPLAYABLE"
	}
	return marshalReal(res)
}

type jsonRecWriter struct{ writes [][]byte }

func (w *jsonRecWriter) Write(p []byte) (int, error) {
	w.writes = append(w.writes, append([]byte(nil), p...))
	return len(p), nil
}

func logReal(uniq bool, rs []scan.Result) string {
	w := &jsonRecWriter{}
	l, err := log.NewLogger(w, "json", log.JSON())
	if err != nil {
		return "ERR " + err.Error()
	}
	if uniq {
		l = log.NewUniqueLogger(l)
	}
	ch := make(chan scan.Result, len(rs))
	for _, r := range rs {
		ch <- r
	}
	close(ch)
	done := make(chan struct{})
	go func() {
		defer close(done)
		l.LogResults(context.Background(), ch)
	}()
	select {
	case <-done:
	case <-time.After(20 * time.Second):
		return "TIMEOUT"
	}
	if len(w.writes) == 0 {
		return "-"
	}
	parts := make([]string, len(w.writes))
	for i, b := range w.writes {
		parts[i] = hx.Hex(b)
	}
	return strings.Join(parts, ",")
}

// runUniqBig: N distinct hosts (ARP results 10.a.b.c), then the first R of them again, then every third of
// them once more, through the real UniqueLogger.  Observed = number of lines written, whether they are
// exactly the N hosts in first-sighting order.  (Too long to list: counted.)
func runUniqBig(n, rep int) string { return runUniqStall(n, rep, 0) }

// runUniqStall: the same with an output that does not take anything for a while (a paused terminal, a pipe whose
// reader lags): the hosts sighted — and sighted again — in the meantime are still printed once each
func runUniqStall(n, rep int, stall time.Duration) string {
	w := &countWriter{stall: stall}
	l, err := log.NewLogger(w, "json", log.JSON())
	if err != nil {
		return "ERR " + err.Error()
	}
	l = log.NewUniqueLogger(l)
	host := func(i int) string { return fmt.Sprintf("10.%d.%d.%d", i>>16&255, i>>8&255, i&255) }
	ch := make(chan scan.Result, 1024)
	go func() {
		defer close(ch)
		for i := 0; i < n; i++ {
			ch <- &arp.ScanResult{IP: host(i), MAC: "02:00:00:00:00:01"}
		}
		for i := 0; i < rep && i < n; i++ {
			ch <- &arp.ScanResult{IP: host(i), MAC: "02:00:00:00:00:02"}
		}
		for i := 0; i < n; i += 3 {
			ch <- &arp.ScanResult{IP: host(i), MAC: "02:00:00:00:00:03"}
		}
	}()
	done := make(chan struct{})
	go func() { defer close(done); l.LogResults(context.Background(), ch) }()
	select {
	case <-done:
	case <-time.After(120 * time.Second):
		return "TIMEOUT"
	}
	inorder := 1
	if len(w.lines) != n {
		inorder = 0
	}
	for i, ln := range w.lines {
		if i < n && !strings.Contains(ln, "\""+host(i)+"\"") || !strings.Contains(ln, "02:00:00:00:00:01") {
			inorder = 0
			break
		}
	}
	return fmt.Sprintf("lines=%d;first_sightings_in_order=%d", len(w.lines), inorder)
}

type countWriter struct {
	lines []string
	stall time.Duration
}

func (w *countWriter) Write(p []byte) (int, error) {
	if w.stall > 0 && len(w.lines) == 3 {
		time.Sleep(w.stall)
	}
	w.lines = append(w.lines, string(p))
	return len(p), nil
}

// logRealPlain: the results through the real logger in its default (plain-text) mode; observed = the Write calls
func logRealPlain(rs []scan.Result) (out string) {
	defer func() {
		if e := recover(); e != nil {
			out = fmt.Sprintf("PANIC %v", e)
		}
	}()
	w := &jsonRecWriter{}
	l, err := log.NewLogger(w, "plain")
	if err != nil {
		return "ERR " + err.Error()
	}
	ch := make(chan scan.Result, len(rs))
	for _, r := range rs {
		ch <- r
	}
	close(ch)
	done := make(chan struct{})
	go func() {
		defer close(done)
		l.LogResults(context.Background(), ch)
	}()
	select {
	case <-done:
	case <-time.After(20 * time.Second):
		return "TIMEOUT"
	}
	if len(w.writes) == 0 {
		return "-"
	}
	parts := make([]string, len(w.writes))
	for i, b := range w.writes {
		parts[i] = hx.Hex(b)
	}
	return strings.Join(parts, ",")
}

func runJPlain(encs string) string {
	var rs []scan.Result
	if encs != "-" {
		for _, e := range strings.Split(encs, "|") {
			r := decResult(e)
			if r == nil {
				return "NOT-REPLAYABLE"
			}
			rs = append(rs, r)
		}
	}
	return logRealPlain(rs)
}

func runJLog(u, encs string) string {
	var rs []scan.Result
	if encs != "-" {
		for _, e := range strings.Split(encs, "|") {
			r := decResult(e)
			if r == nil {
				return "NOT-REPLAYABLE"
			}
			rs = append(rs, r)
		}
	}
	return logReal(u == "1", rs)
}

func featClass(typ string, ft strFeat) string {
	var ks []string
	for k := range ft {
		ks = append(ks, k)
	}
	sort.Strings(ks)
	return typ + "/" + strings.Join(ks, "+")
}

func jsonComponent(r *hx.Run) {
	r.Rule = "jres: one random result of each of the 7 kinds (arp, tcp, icmp, udp, socks, elastic, docker) through the real MarshalJSON; strings drawn from a hostile vocabulary (quotes, backslashes, controls, <>&, U+2028/9, U+FFFD, astral, DEL, invalid UTF-8 of every malformation class, long); elastic maps = real json.Decoder output on random hostile bodies; docker Info/Version = reflect-filled API structs. jlog: result sequences through the real JSON logger (observed = the Write calls) and the real UniqueLogger with colliding IDs. Non-trivial class = (kind, set of string features present {quote, ctrl, html, lsep, inval, astral, nonascii, long, num, arr, map2}) resp. (uniq?, #results bucket, #duplicate IDs bucket)"
	nRes, nLog := 500, 250
	if r.Tier == "thorough" {
		nRes, nLog = 8000, 4000
	}
	kinds := []string{"arp", "tcp", "icmp", "udp", "socks", "elastic", "docker"}
	// ---- single results
	for _, kind := range kinds {
		n := nRes
		if kind == "docker" {
			n = nRes / 4
		}
		for i := 0; i < n; i++ {
			g := &jgen{r: r, ft: strFeat{}}
			res := g.result(kind)
			for k := range g.ft {
				r.Count(kind + "." + k)
			}
			r.Count("kind." + kind)
			out := marshalReal(res)
			if b := hx.UnHex(strings.TrimPrefix(out, "PANIC")); out != "ERR" && !strings.HasPrefix(out, "PANIC") && !json.Valid(b) {
				r.Notes = append(r.Notes, "encoding/json.Valid rejects the output of a "+kind+" result")
			}
			r.Case(featClass(kind, g.ft), "jres", encResult(res), out)
		}
	}
	// every single byte 0..255 and every interesting rune alone, through both escapers
	for b := 0; b < 256; b++ {
		s := string([]byte{byte(b)})
		a := &arp.ScanResult{IP: "1.2.3.4", MAC: s, Vendor: "x" + s + "y"}
		r.Case("", "jres", encResult(a), marshalReal(a))
		so := &socks5.ScanResult{ScanType: s, Version: 5, IP: "x" + s + "y", Port: 1080}
		r.Case("", "jres", encResult(so), marshalReal(so))
	}
	for _, s := range append(append([]string{}, validBits...), invalidBits...) {
		a := &arp.ScanResult{IP: s, MAC: s + s, Vendor: "x" + s}
		r.Case("", "jres", encResult(a), marshalReal(a))
		so := &socks5.ScanResult{ScanType: s, Version: 5, IP: s + "y", Port: 1080}
		r.Case("", "jres", encResult(so), marshalReal(so))
		e := &elastic.ScanResult{ScanType: "elastic", Proto: s, Host: s}
		if utf8.ValidString(s) {
			e.Info = map[string]interface{}{s: s, "k": []interface{}{s, nil, 1.5}}
		}
		r.Case("", "jres", encResult(e), marshalReal(e))
	}
	// all ports / ttl values digit lengths
	for _, p := range []uint16{0, 1, 9, 10, 11, 99, 100, 101, 999, 1000, 9999, 10000, 65535} {
		t := &tcp.ScanResult{ScanType: "syn", IP: "10.0.0.1", Port: p}
		r.Case("", "jres", encResult(t), marshalReal(t))
	}
	// ---- logs
	for i := 0; i < nLog; i++ {
		g := &jgen{r: r, ft: strFeat{}}
		uniq := i%2 == 1
		n := r.Rng.Intn(12)
		if r.Rng.Intn(10) == 0 {
			n = 30 + r.Rng.Intn(60)
		}
		var rs []scan.Result
		var pool []string
		for j := 0; j < 1+r.Rng.Intn(5); j++ {
			pool = append(pool, g.ip())
		}
		for j := 0; j < n; j++ {
			var res scan.Result
			if uniq || r.Rng.Intn(2) == 0 {
				// ARP-like stream with colliding IDs (different MAC/vendor each time)
				k := []string{"arp", "arp", "arp", "tcp", "icmp", "socks"}[r.Rng.Intn(6)]
				res = g.result(k)
				ip := pool[r.Rng.Intn(len(pool))]
				switch t := res.(type) {
				case *arp.ScanResult:
					t.IP = ip
				case *tcp.ScanResult:
					t.IP = ip
					t.Port = uint16(r.Rng.Intn(3))
				case *icmp.ScanResult:
					t.IP = ip
					if t.ICMP == nil { // the processor always sets it; String() needs it
						t.ICMP = &icmp.Response{}
					}
				case *socks5.ScanResult:
					t.IP = ip
					t.Port = uint16(r.Rng.Intn(3))
				}
			} else {
				res = g.result(kinds[r.Rng.Intn(6)]) // docker excluded: not rebuildable on replay
			}
			rs = append(rs, res)
		}
		seen := map[string]bool{}
		dups := 0
		encs := make([]string, len(rs))
		for j, res := range rs {
			encs[j] = encResult(res)
			if seen[res.ID()] {
				dups++
			}
			seen[res.ID()] = true
		}
		u := "0"
		if uniq {
			u = "1"
			r.Count("log.uniq")
		} else {
			r.Count("log.plain")
		}
		if dups > 0 {
			r.Count("log.withDuplicates")
		}
		class := fmt.Sprintf("log/u%s/n%d/d%d", u, bucket(n), bucket(dups))
		e := strings.Join(encs, "|")
		if len(encs) == 0 {
			e = "-"
			class = ""
		}
		r.Case(class, "jlog", u, e, logReal(uniq, rs))
	}
	// records of every length around the sizes at which buffers end (128, 256, 512, 1024, 4096 bytes): each is still one
	// write of one whole line (three records per case: the one under test between two others)
	for _, edge := range []int{128, 256, 512, 1024, 4096} {
		step := 1
		if r.Tier != "thorough" && edge >= 1024 {
			step = 3
		}
		for total := edge - 6; total <= edge+6; total += step {
			ip := fmt.Sprintf("10.%d.%d.%d", r.Rng.Intn(256), r.Rng.Intn(256), r.Rng.Intn(256))
			mac := "02:00:00:00:00:01"
			fixed := len(`{"ip":"","mac":"","vendor":""}`) + len(ip) + len(mac)
			if total <= fixed {
				continue
			}
			mid := &arp.ScanResult{IP: ip, MAC: mac, Vendor: strings.Repeat("v", total-fixed)}
			rs := []scan.Result{&arp.ScanResult{IP: "10.0.0.1", MAC: mac, Vendor: "a"}, mid, &tcp.ScanResult{ScanType: "tcpsyn", IP: "10.0.0.2", Port: 80}}
			var encs []string
			for _, res := range rs {
				encs = append(encs, encResult(res))
			}
			r.Count("log.length-edge")
			r.Case(fmt.Sprintf("log/length-edge/%d", edge), "jlog", "0", strings.Join(encs, "|"), logReal(false, rs))
		}
	}
	// plain-text mode (no --json): the same results through the real logger with its default writer; one write per
	// result: the String() of the result and a newline (arp, tcp, icmp/udp, socks: padded columns)
	nPlain := 150
	if r.Tier == "thorough" {
		nPlain = 3000
	}
	for i := 0; i < nPlain; i++ {
		g := &jgen{r: r, ft: strFeat{}}
		n := 1 + r.Rng.Intn(5)
		var rs []scan.Result
		var encs []string
		kinds := map[string]bool{}
		for j := 0; j < n; j++ {
			typ := []string{"arp", "tcp", "icmp", "udp", "socks"}[r.Rng.Intn(5)]
			res := g.result(typ)
			if ir, ok := res.(*icmp.ScanResult); ok && ir.ICMP == nil {
				ir.ICMP = &icmp.Response{Type: uint8(r.Rng.Intn(256)), Code: uint8(r.Rng.Intn(256))} // the processors always set it
			}
			rs = append(rs, res)
			encs = append(encs, encResult(res))
			kinds[typ] = true
		}
		var ks []string
		for k := range kinds {
			ks = append(ks, k)
		}
		sort.Strings(ks)
		r.Count("plain")
		r.Case("plain/"+strings.Join(ks, "+"), "jplain", strings.Join(encs, "|"), logRealPlain(rs))
	}
	// de-duplication over MANY distinct hosts (a live scan of a large network): more than 2^16 of them
	// … and enough of them that any 32-bit digest of the ID would collide (n^2 / 2^33 ≈ 10 expected pairs)
	for _, n := range []int{65536 + 1 + r.Rng.Intn(50), 300000 + r.Rng.Intn(20000)} {
		rep := 1 + r.Rng.Intn(n)
		r.Count("uniqbig")
		r.Case("uniqbig", "juniqbig", strconv.Itoa(n), strconv.Itoa(rep), runUniqBig(n, rep))
	}
	// … and an output that stalls while hosts are sighted and sighted again (more of them than every buffer between
	// the capture loop and the writer holds)
	for i := 0; i < 2; i++ {
		n := 2500 + r.Rng.Intn(4000)
		rep := n/2 + r.Rng.Intn(n/2)
		r.Count("uniqstall")
		r.Case("uniqstall", "juniqstall", strconv.Itoa(n), strconv.Itoa(rep), runUniqStall(n, rep, 250*time.Millisecond))
	}
}

func bucket(n int) int {
	switch {
	case n == 0:
		return 0
	case n == 1:
		return 1
	case n < 5:
		return 2
	case n < 20:
		return 3
	}
	return 4
}
