package main

// Component `iface` (C17): the REAL interface / source selection of sx inside generated private network
// namespaces.  The component re-executes this binary under `unshare -n` ("iface-child" mode); the child builds
// a generated host (veth / bridge / ifb for Ethernet-like interfaces, tun for MAC-less ones, several addresses
// per interface incl. IPv6-only and v4-mapped ones, overlapping subnets, several default routes with metrics
// and preferred sources, none at all), reads the host snapshot back through net.Interfaces + netlink, runs the
// real option code through the hooks of command/export_iface_verif.go (and the real `sx arp` binary for the
// ARP rule) and reports what it chose.  The Lean model is evaluated on the snapshot the child read back.
//
// If `unshare -n` does not work the component exits non-zero: the correspondence is reported as not run and the
// check fails (fail closed).

import (
	"bytes"
	"encoding/hex"
	"encoding/json"
	"errors"
	"fmt"
	"math/rand"
	"net"
	"os"
	"os/exec"
	"path/filepath"
	"sort"
	"strconv"
	"strings"
	"sync"
	"time"

	"github.com/v-byte-cpu/sx/command"
	sxip "github.com/v-byte-cpu/sx/pkg/ip"
	"github.com/vishvananda/netlink"
	"github.com/vishvananda/netlink/nl"
	"sxverif/harness/internal/hx"
)

func init() {
	if len(os.Args) >= 4 && os.Args[1] == "iface-child" {
		ifaceChild(os.Args[2], os.Args[3])
		os.Exit(0)
	}
	components["iface"] = ifaceComponent
	replayers["iface"] = ifaceReplay
}

// ---------------------------------------------------------------------------------------------- job protocol

type ifQuery struct {
	Kind   string // opts | optsf (= opts with --file AND the positional target) | arp | loc | def | gw
	Iface  string // "-" = no --iface
	SrcIP  string // hex of the net.IP handed to the option code (4 or 16 bytes), "-" = none
	SrcMAC string // hex of the hardware address, "-" = none
	Target string // textual target, "-" = none (address file mode)
}

type ifJob struct {
	Recipe  []string
	Queries []ifQuery
	SxBin   string
	Dir     string
}

type ifAnswer struct {
	SnapI, SnapR string
	Parsed       []string // per query: parsed target "hex/ones" or "-"
	Observed     []string
	Notes        []string
	Attempts     int
}

// ---------------------------------------------------------------------------------------------- child

func run(name string, args ...string) (string, error) {
	out, err := exec.Command(name, args...).CombinedOutput()
	return string(out), err
}

func hexOrDash(b []byte) string {
	if len(b) == 0 {
		return "-"
	}
	return hex.EncodeToString(b)
}

// snapshot of the host as the Go runtime and netlink report it (the two sources the real code uses)
func ifaceSnapshot() (string, string, error) {
	ifs, err := net.Interfaces()
	if err != nil {
		return "", "", err
	}
	var parts []string
	for i := range ifs {
		it := &ifs[i]
		addrs, err := it.Addrs()
		if err != nil {
			return "", "", err
		}
		var as []string
		for _, a := range addrs {
			n, ok := a.(*net.IPNet)
			if !ok {
				return "", "", fmt.Errorf("address of unexpected type %T", a)
			}
			ones, bits := n.Mask.Size()
			switch bits {
			case 32:
				as = append(as, fmt.Sprintf("%s/%d/4", hexOrDash(n.IP.To4()), ones))
			case 128:
				as = append(as, fmt.Sprintf("%s/%d/6", hexOrDash(n.IP.To16()), ones))
			default:
				return "", "", fmt.Errorf("non-canonical mask %v", n.Mask)
			}
		}
		al := "-"
		if len(as) > 0 {
			al = strings.Join(as, ",")
		}
		parts = append(parts, fmt.Sprintf("%d:%s:%s:%s", it.Index, it.Name, hexOrDash(it.HardwareAddr), al))
	}
	snapI := "-"
	if len(parts) > 0 {
		snapI = strings.Join(parts, ";")
	}
	routes, err := netlink.RouteList(nil, nl.FAMILY_V4)
	if err != nil {
		return "", "", err
	}
	var rs []string
	for _, rt := range routes {
		dst := "-"
		if rt.Dst != nil {
			ones, _ := rt.Dst.Mask.Size()
			dst = fmt.Sprintf("%s/%d", hexOrDash(rt.Dst.IP.To4()), ones)
		}
		rs = append(rs, fmt.Sprintf("%s:%s:%d:%d:%s", dst, hexOrDash(rt.Src), rt.Priority, rt.LinkIndex, hexOrDash(rt.Gw)))
	}
	snapR := "-"
	if len(rs) > 0 {
		snapR = strings.Join(rs, ";")
	}
	return snapI, snapR, nil
}

func macText(b []byte) string { return net.HardwareAddr(b).String() }

func errClass(err error) string {
	switch {
	case errors.Is(err, command.VerifErrSrcInterface()):
		return "err=srcif"
	case errors.Is(err, command.VerifErrSrcIP()):
		return "err=srcip"
	case errors.Is(err, command.VerifErrSrcMAC()):
		return "err=srcmac"
	}
	msg := err.Error()
	if strings.Contains(msg, "no such network interface") || strings.Contains(msg, "invalid network interface") {
		return "err=nosuchif"
	}
	return "err=other:" + hx.HexS(msg)
}

// gateway MACs of the generated ARP cache are 02:00:<gateway IPv4>, so the MAC names the gateway
func gwFromMAC(m net.HardwareAddr) string {
	if len(m) != 6 {
		return "-"
	}
	return hex.EncodeToString(m[2:])
}

func ifaceAnswerOne(q ifQuery, job *ifJob, cacheFile string) (parsed, observed string) {
	parsed = "-"
	var dst *net.IPNet
	if q.Target != "-" {
		var err error
		if dst, err = sxip.ParseIPNet(q.Target); err != nil {
			return "-", "target-refused"
		}
		ones, _ := dst.Mask.Size()
		parsed = fmt.Sprintf("%s/%d", hexOrDash(dst.IP), ones)
	}
	rawIface, rawMAC := "", ""
	if q.Iface != "-" {
		rawIface = q.Iface
	}
	var srcIP net.IP
	if q.SrcIP != "-" {
		srcIP = net.IP(hx.UnHex(q.SrcIP))
	}
	if q.SrcMAC != "-" {
		rawMAC = macText(hx.UnHex(q.SrcMAC))
	}
	switch q.Kind {
	case "opts", "optsf":
		// icmp / tcp / udp: parseRawOptions + ipScanCmdOpts.parseOptions
		var args []string
		ipFile := "targets.jsonl"
		if q.Target != "-" {
			args, ipFile = []string{q.Target}, ""
			if q.Kind == "optsf" {
				// `-f targets.jsonl <subnet>`: the targets come from the file, the positional subnet still is
				// what selects the directly attached interface and its address on that subnet
				ipFile = "targets.jsonl"
			}
		}
		var res *command.VerifIfaceResult
		var err error
		if p, msg := hx.Recover(func() {
			res, err = command.VerifIPScanParseOptions(rawIface, srcIP, rawMAC, ipFile, cacheFile, args)
		}); p {
			return parsed, "panic:" + hx.HexS(msg)
		}
		if err != nil {
			return parsed, errClass(err)
		}
		r := res.Range
		vpn := "0"
		if res.VPNMode {
			vpn = "1"
		}
		return parsed, fmt.Sprintf("ok if=%s ip=%s mac=%s vpn=%s gw=%s", r.Interface.Name, hexOrDash(r.SrcIP),
			hexOrDash(r.SrcMAC), vpn, gwFromMAC(res.GatewayMAC))
	case "arp":
		// the arp command: the option stage of the real binary (the rule lives in a cobra closure)
		args := []string{"arp", q.Target, "--exit-delay", "1ms"}
		if rawIface != "" {
			args = append(args, "--iface", rawIface)
		}
		if srcIP != nil {
			args = append(args, "--srcip", srcIP.String())
		}
		if rawMAC != "" {
			args = append(args, "--srcmac", rawMAC)
		}
		cmd := exec.Command(job.SxBin, args...)
		var stderr bytes.Buffer
		cmd.Stderr = &stderr
		cmd.Stdout = nil
		done := make(chan error, 1)
		if err := cmd.Start(); err != nil {
			return parsed, "binary-failed:" + hx.HexS(err.Error())
		}
		go func() { done <- cmd.Wait() }()
		select {
		case <-done:
		case <-time.After(20 * time.Second):
			cmd.Process.Kill()
			<-done
		}
		msg := stderr.String()
		var r2 string
		switch {
		case strings.Contains(msg, "invalid source MAC"):
			r2 = "err=srcmac"
		case strings.Contains(msg, "invalid source interface"):
			r2 = "err=srcif"
		case strings.Contains(msg, "invalid source IP"):
			r2 = "err=srcip"
		case strings.Contains(msg, "no such network interface") || strings.Contains(msg, "invalid network interface"):
			r2 = "err=nosuchif"
		default:
			r2 = "passed" // the option stage let the scan start (whatever the engine did afterwards)
		}
		// the same stage in-process (getScanRange of the packet command options)
		rg, err := command.VerifPacketScanRange(rawIface, srcIP, rawMAC, dst)
		if err != nil {
			return parsed, r2 + " range:" + errClass(err)
		}
		return parsed, fmt.Sprintf("%s range:ok if=%s ip=%s mac=%s", r2, rg.Interface.Name, hexOrDash(rg.SrcIP), hexOrDash(rg.SrcMAC))
	case "loc":
		it, ip4, err := sxip.GetLocalSubnetInterface(dst)
		if err != nil {
			return parsed, errClass(err)
		}
		if it == nil {
			return parsed, "none"
		}
		return parsed, fmt.Sprintf("if=%s ip=%s", it.Name, hexOrDash(ip4))
	case "def":
		it, ip0, err := sxip.GetDefaultInterface()
		if err != nil {
			return parsed, errClass(err)
		}
		if it == nil {
			return parsed, "none"
		}
		// the address exactly as Go holds it (16 bytes, 4-in-16 for IPv4 entries)
		return parsed, fmt.Sprintf("if=%s ip=%s", it.Name, hexOrDash(ip0))
	case "gw":
		it, err := net.InterfaceByName(q.Iface)
		if err != nil {
			return parsed, errClass(err)
		}
		gw, err := sxip.GetDefaultGatewayIP(it)
		if err != nil {
			return parsed, errClass(err)
		}
		return parsed, "gw=" + hexOrDash(gw)
	}
	return parsed, "bad-kind"
}

func ifaceBuildHost(recipe []string) []string {
	var notes []string
	for _, line := range recipe {
		f := strings.Fields(line)
		if len(f) == 0 {
			continue
		}
		var out string
		var err error
		if f[0] == "sysctl" {
			out, err = run("sysctl", append([]string{"-q", "-w"}, f[1:]...)...)
		} else {
			out, err = run("ip", f...)
		}
		if err != nil {
			notes = append(notes, line+" => "+strings.TrimSpace(out))
		}
	}
	return notes
}

func writeARPCache(path, snapR string) error {
	var sb strings.Builder
	seen := map[string]bool{}
	if snapR != "-" {
		for _, r := range strings.Split(snapR, ";") {
			f := strings.Split(r, ":")
			gw := f[4]
			if gw == "-" || len(gw) != 8 || seen[gw] {
				continue
			}
			seen[gw] = true
			b, _ := hex.DecodeString(gw)
			mac := net.HardwareAddr(append([]byte{2, 0}, b...))
			fmt.Fprintf(&sb, "{\"ip\":%q,\"mac\":%q}\n", net.IP(b).String(), mac.String())
		}
	}
	return os.WriteFile(path, []byte(sb.String()), 0o644)
}

func ifaceChild(jobPath, outPath string) {
	data, err := os.ReadFile(jobPath)
	if err != nil {
		panic(err)
	}
	var job ifJob
	if err := json.Unmarshal(data, &job); err != nil {
		panic(err)
	}
	// must be a private namespace: refuse to touch a namespace that has anything but a down loopback
	ifs, err := net.Interfaces()
	if err != nil {
		panic(err)
	}
	if len(ifs) != 1 || ifs[0].Flags&net.FlagUp != 0 {
		fmt.Fprintln(os.Stderr, "iface-child: not inside a fresh network namespace, refusing")
		os.Exit(4)
	}
	ans := ifAnswer{}
	ans.Notes = ifaceBuildHost(job.Recipe)
	cacheFile := filepath.Join(job.Dir, "arpcache.jsonl")
	// link-local addresses appear asynchronously (carrier events): take the snapshot before and after the real
	// code ran and accept the run only if nothing moved in between
	for attempt := 1; attempt <= 8; attempt++ {
		ans.Attempts = attempt
		time.Sleep(time.Duration(5*attempt) * time.Millisecond)
		si, sr, err := ifaceSnapshot()
		if err != nil {
			panic(err)
		}
		if err := writeARPCache(cacheFile, sr); err != nil {
			panic(err)
		}
		ans.Parsed, ans.Observed = nil, nil
		for _, q := range job.Queries {
			p, o := ifaceAnswerOne(q, &job, cacheFile)
			ans.Parsed = append(ans.Parsed, p)
			ans.Observed = append(ans.Observed, o)
		}
		si2, sr2, err := ifaceSnapshot()
		if err != nil {
			panic(err)
		}
		ans.SnapI, ans.SnapR = si, sr
		if si == si2 && sr == sr2 {
			break
		}
		if attempt == 8 {
			ans.Notes = append(ans.Notes, "UNSTABLE-SNAPSHOT")
			ans.SnapI = "UNSTABLE"
		}
	}
	out, _ := json.Marshal(&ans)
	if err := os.WriteFile(outPath, out, 0o644); err != nil {
		panic(err)
	}
}

// ---------------------------------------------------------------------------------------------- parent

var ifaceSeq struct {
	sync.Mutex
	n int
}

func ifaceWorkDir() string {
	base := os.Getenv("VERIF_WORK")
	if base == "" {
		base = os.TempDir()
	}
	d := filepath.Join(base, "iface-ns")
	os.MkdirAll(d, 0o755)
	return d
}

// runInNamespace executes one job in a fresh network namespace.
func runInNamespace(job *ifJob) (*ifAnswer, error) {
	ifaceSeq.Lock()
	ifaceSeq.n++
	id := ifaceSeq.n
	ifaceSeq.Unlock()
	dir := filepath.Join(ifaceWorkDir(), fmt.Sprintf("%d-%d", os.Getpid(), id))
	if err := os.MkdirAll(dir, 0o755); err != nil {
		return nil, err
	}
	defer os.RemoveAll(dir)
	job.Dir = dir
	jp, op := filepath.Join(dir, "job.json"), filepath.Join(dir, "out.json")
	data, _ := json.Marshal(job)
	if err := os.WriteFile(jp, data, 0o644); err != nil {
		return nil, err
	}
	self, err := os.Executable()
	if err != nil {
		return nil, err
	}
	cmd := exec.Command("unshare", "-n", self, "iface-child", jp, op)
	cmd.Dir = dir
	out, err := cmd.CombinedOutput()
	if err != nil {
		return nil, fmt.Errorf("unshare -n %s iface-child: %v: %s", self, err, out)
	}
	res, err := os.ReadFile(op)
	if err != nil {
		return nil, err
	}
	var ans ifAnswer
	if err := json.Unmarshal(res, &ans); err != nil {
		return nil, err
	}
	if len(ans.Observed) != len(job.Queries) {
		return nil, fmt.Errorf("child answered %d of %d queries", len(ans.Observed), len(job.Queries))
	}
	return &ans, nil
}

func buildSxBinary() (string, error) {
	repo := os.Getenv("VERIF_REPO")
	if repo == "" {
		repo = "/repo"
	}
	bin := filepath.Join(ifaceWorkDir(), "sx")
	cmd := exec.Command("go", "build", "-o", bin, ".")
	cmd.Dir = repo
	if out, err := cmd.CombinedOutput(); err != nil {
		return "", fmt.Errorf("go build sx: %v: %s", err, out)
	}
	return bin, nil
}

// ---------------------------------------------------------------------------------------------- generator

type gAddr struct {
	text string // as given to `ip addr add`
	ip   net.IP
	ones int
	v6   bool
}

type gIface struct {
	name  string
	kind  string // veth | vpeer | bridge | ifb | tun | tap | lo
	up    bool
	addrs []gAddr
}

type gHost struct {
	recipe []string
	ifaces []*gIface
	gws    []string
	class  []string
}

var ifacePool4 = []string{"10.1.0.0/16", "10.1.2.0/24", "10.1.2.128/25", "10.1.2.64/26", "192.168.7.0/24", "172.16.0.0/12",
	"172.20.5.0/30", "10.9.0.0/24", "100.64.1.0/31", "198.51.100.7/32", "10.0.0.0/8"}

func randHostIn(rng *rand.Rand, cidr string) (net.IP, int) {
	_, n, _ := net.ParseCIDR(cidr)
	ones, _ := n.Mask.Size()
	ip := make(net.IP, 4)
	copy(ip, n.IP.To4())
	free := 32 - ones
	if free == 0 {
		return ip, ones
	}
	span := uint32(1)<<uint(free) - 1
	var off uint32
	if span <= 2 {
		off = uint32(rng.Intn(int(span) + 1))
	} else {
		off = 1 + uint32(rng.Intn(int(min64(int64(span)-1, 250))))
	}
	v := uint32(ip[0])<<24 | uint32(ip[1])<<16 | uint32(ip[2])<<8 | uint32(ip[3])
	v |= off
	return net.IPv4(byte(v>>24), byte(v>>16), byte(v>>8), byte(v)).To4(), ones
}

func min64(a, b int64) int64 {
	if a < b {
		return a
	}
	return b
}

func genHost(rng *rand.Rand, idx int) *gHost {
	h := &gHost{}
	add := func(s string, a ...interface{}) { h.recipe = append(h.recipe, fmt.Sprintf(s, a...)) }
	cls := map[string]bool{}
	// keep_addr_on_down & no DAD delays are left at the kernel defaults on purpose
	lo := &gIface{name: "lo", kind: "lo"}
	h.ifaces = append(h.ifaces, lo)
	if rng.Intn(3) == 0 {
		lo.up = true
		add("link set lo up")
		cls["lo-up"] = true
	}
	nIf := 1 + rng.Intn(4)
	if idx%11 == 10 {
		nIf = 0 // a host with nothing but loopback
		cls["no-ifaces"] = true
	}
	kinds := []string{"veth", "veth", "bridge", "ifb", "tun", "tun", "tap"}
	macN := 0
	for i := 0; i < nIf; i++ {
		kind := kinds[rng.Intn(len(kinds))]
		name := fmt.Sprintf("%s%d", map[string]string{"veth": "ve", "bridge": "br", "ifb": "fb", "tun": "tn", "tap": "tp"}[kind], i)
		it := &gIface{name: name, kind: kind, up: rng.Intn(8) != 0}
		mac := func() string { macN++; return fmt.Sprintf("02:%02x:%02x:00:00:%02x", idx&0xff, rng.Intn(256), macN) }
		switch kind {
		case "veth":
			peer := &gIface{name: name + "p", kind: "vpeer", up: rng.Intn(4) != 0}
			add("link add %s address %s type veth peer name %s address %s", name, mac(), peer.name, mac())
			h.ifaces = append(h.ifaces, it, peer)
			if peer.up {
				add("link set %s up", peer.name)
			}
			if rng.Intn(3) == 0 {
				genAddrs(rng, h, peer, cls, 1)
			}
		case "bridge":
			add("link add %s address %s type bridge", name, mac())
			h.ifaces = append(h.ifaces, it)
		case "ifb":
			add("link add %s address %s type ifb", name, mac())
			h.ifaces = append(h.ifaces, it)
		case "tun":
			add("tuntap add dev %s mode tun", name)
			h.ifaces = append(h.ifaces, it)
			cls["tun"] = true
		case "tap":
			add("tuntap add dev %s mode tap", name)
			add("link set %s address %s", name, mac())
			h.ifaces = append(h.ifaces, it)
		}
		if it.up {
			add("link set %s up", name)
		} else {
			cls["down-iface"] = true
		}
		genAddrs(rng, h, it, cls, 0)
	}
	// routes
	nDef := []int{0, 0, 1, 1, 1, 2, 2, 3, 4}[rng.Intn(9)]
	if nIf == 0 {
		nDef = 0
	}
	metrics := []string{"", "5", "50", "100", "100", "600", "1024", "2147483646", "2147483647", "2147483648", "4294967295"}
	var cands []*gIface
	for _, it := range h.ifaces {
		if it.kind != "lo" && it.up {
			cands = append(cands, it)
		}
	}
	if len(cands) == 0 {
		nDef = 0
	}
	if nDef == 0 {
		cls["no-default-route"] = true
	} else if nDef > 1 {
		cls["several-default-routes"] = true
	}
	prevMetric, prevIface := "", (*gIface)(nil)
	for i := 0; i < nDef; i++ {
		it := cands[rng.Intn(len(cands))]
		verb := "add"
		if rng.Intn(4) == 0 {
			verb = "append"
		}
		m := metrics[rng.Intn(len(metrics))]
		if i > 0 && rng.Intn(2) == 0 {
			// same metric as the previous default route, preferably through another interface
			m, verb = prevMetric, "append"
			for k := 0; k < 4 && it == prevIface; k++ {
				it = cands[rng.Intn(len(cands))]
			}
			cls["equal-metric-default-routes"] = true
		}
		prevMetric, prevIface = m, it
		spec := "default"
		var v4 []gAddr
		for _, a := range it.addrs {
			if !a.v6 {
				v4 = append(v4, a)
			}
		}
		if it.kind == "tun" && rng.Intn(2) == 0 {
			spec += " dev " + it.name
		} else {
			gw := net.IPv4(10, 200, byte(rng.Intn(4)), byte(1+rng.Intn(250))).To4()
			if len(v4) > 0 && rng.Intn(4) != 0 {
				a := v4[rng.Intn(len(v4))]
				_, n, _ := net.ParseCIDR(fmt.Sprintf("%s/%d", a.ip, a.ones))
				g, _ := randHostIn(rng, n.String())
				gw = g
			}
			spec += fmt.Sprintf(" via %s dev %s onlink", gw, it.name)
			h.gws = append(h.gws, gw.String())
		}
		if len(v4) > 0 && rng.Intn(3) == 0 {
			spec += " src " + v4[rng.Intn(len(v4))].ip.String()
			cls["default-route-with-prefsrc"] = true
		}
		if m != "" {
			spec += " metric " + m
			if len(m) >= 10 {
				cls["huge-metric"] = true
			}
		}
		add("route %s %s", verb, spec)
	}
	if nIf > 0 && rng.Intn(8) == 0 {
		add("route add unreachable default metric %s", []string{"1", "70", "5000"}[rng.Intn(3)])
		cls["unreachable-default"] = true
	}
	if len(cands) > 0 && rng.Intn(5) == 0 {
		it := cands[rng.Intn(len(cands))]
		add("route add default via 10.250.0.1 dev %s onlink table 100", it.name)
		cls["other-table"] = true
	}
	if len(cands) > 0 && rng.Intn(3) == 0 {
		it := cands[rng.Intn(len(cands))]
		add("route add 203.0.113.0/24 via 10.251.0.1 dev %s onlink metric 1", it.name)
	}
	if len(cands) > 0 && rng.Intn(12) == 0 {
		// a link that goes down after its routes were made: addresses stay, routes go
		it := cands[rng.Intn(len(cands))]
		add("link set %s down", it.name)
		it.up = false
		cls["down-iface"] = true
	}
	for k := range cls {
		h.class = append(h.class, k)
	}
	sort.Strings(h.class)
	return h
}

func genAddrs(rng *rand.Rand, h *gHost, it *gIface, cls map[string]bool, atLeast int) {
	n := []int{0, 1, 1, 1, 2, 2, 3, 4}[rng.Intn(8)]
	if n < atLeast {
		n = atLeast
	}
	mode := rng.Intn(10) // 0: IPv6 only, 1: v4-mapped first, else mixed
	for j := 0; j < n; j++ {
		var a gAddr
		switch {
		case mode == 0 || (mode > 1 && rng.Intn(4) == 0):
			ip := net.ParseIP(fmt.Sprintf("fd00:%x::%x", rng.Intn(4), 1+rng.Intn(200)))
			a = gAddr{text: fmt.Sprintf("%s/64", ip), ip: ip, ones: 64, v6: true}
			if mode == 0 {
				cls["ipv6-only-iface"] = true
			}
		case mode == 1 && j == 0, rng.Intn(12) == 0:
			v4, _ := randHostIn(rng, ifacePool4[rng.Intn(len(ifacePool4))])
			ip := net.ParseIP("::ffff:" + v4.String())
			ones := []int{120, 112, 128, 96}[rng.Intn(4)]
			a = gAddr{text: fmt.Sprintf("::ffff:%s/%d", v4, ones), ip: ip, ones: ones, v6: true}
			cls["v4-mapped-addr"] = true
		default:
			cidr := ifacePool4[rng.Intn(len(ifacePool4))]
			ip, ones := randHostIn(rng, cidr)
			a = gAddr{ip: ip, ones: ones}
			if it.kind == "tun" && rng.Intn(2) == 0 {
				peer, _ := randHostIn(rng, cidr)
				a.text = fmt.Sprintf("%s peer %s/32", ip, peer)
				a.ones = 32
				cls["p2p-addr"] = true
			} else {
				a.text = fmt.Sprintf("%s/%d", ip, ones)
			}
		}
		it.addrs = append(it.addrs, a)
		fam := "-4"
		if a.v6 {
			fam = "-6"
		}
		h.recipe = append(h.recipe, fmt.Sprintf("%s addr add %s dev %s", fam, a.text, it.name))
	}
	if n > 1 {
		cls["multi-addr"] = true
	}
}

func genQueries(rng *rand.Rand, h *gHost, n int, withBinary int) []ifQuery {
	// target vocabulary: networks of the configured addresses, hosts in them, sub- and supernets, unrelated
	targets := []string{"-", "-", "8.8.8.0/24", "0.0.0.0/0", "203.0.113.9"}
	var names []string
	for _, it := range h.ifaces {
		names = append(names, it.name)
		for _, a := range it.addrs {
			v4 := a.ip.To4()
			if v4 == nil {
				continue
			}
			ones := a.ones
			if a.v6 {
				ones -= 96
				if ones < 0 {
					ones = 0
				}
			}
			_, nw, _ := net.ParseCIDR(fmt.Sprintf("%s/%d", v4, ones))
			targets = append(targets, nw.String(), v4.String())
			hostIn, _ := randHostIn(rng, nw.String())
			targets = append(targets, hostIn.String())
			if ones < 30 {
				targets = append(targets, fmt.Sprintf("%s/%d", hostIn, ones+2))
			}
			if ones > 8 {
				targets = append(targets, fmt.Sprintf("%s/%d", v4, ones-3))
			}
		}
	}
	for _, p := range ifacePool4[:6] {
		if rng.Intn(3) == 0 {
			targets = append(targets, p)
		}
	}
	srcips := []string{"-", "-", "-", hex.EncodeToString(net.ParseIP("10.77.0.9")), hex.EncodeToString(net.ParseIP("10.77.0.9").To4()),
		hex.EncodeToString(net.ParseIP("fd00::77")), hex.EncodeToString(net.ParseIP("::1")),
		// the unspecified addresses are addresses too: 0.0.0.0 is a usable IPv4 source (the RFC 5227 ARP probe
		// sender), `::` is not IPv4 and must be refused — neither means "no --srcip given"
		hex.EncodeToString(net.ParseIP("0.0.0.0")), hex.EncodeToString(net.ParseIP("0.0.0.0").To4()), hex.EncodeToString(net.ParseIP("::")),
		hex.EncodeToString(net.ParseIP("255.255.255.255").To4())}
	// … and the host's OWN addresses (an address of one interface given as the source for a target that is attached to
	// another): --srcip overrides the source address, it does not select the interface
	for _, t := range targets {
		if ip := net.ParseIP(t); ip != nil && ip.To4() != nil && len(srcips) < 40 {
			srcips = append(srcips, hex.EncodeToString(ip.To4()))
		}
	}
	srcmacs := []string{"-", "-", "-", "02aabbccddee", "0200000000000001"}
	pickIface := func() string {
		switch k := rng.Intn(10); {
		case k < 5:
			return "-"
		case k == 9:
			return "nope0"
		}
		return names[rng.Intn(len(names))]
	}
	var qs []ifQuery
	// the component functions first: default interface once, gateway per interface, local subnet per target
	qs = append(qs, ifQuery{Kind: "def", Iface: "-", SrcIP: "-", SrcMAC: "-", Target: "-"})
	for _, nm := range names {
		qs = append(qs, ifQuery{Kind: "gw", Iface: nm, SrcIP: "-", SrcMAC: "-", Target: "-"})
	}
	seenT := map[string]bool{}
	for _, t := range targets {
		if t != "-" && !seenT[t] {
			seenT[t] = true
			qs = append(qs, ifQuery{Kind: "loc", Iface: "-", SrcIP: "-", SrcMAC: "-", Target: t})
		}
	}
	// plain automatic choice for every target, then random flag combinations
	var tl []string
	for _, t := range targets {
		tl = append(tl, t)
	}
	for _, t := range dedup(tl) {
		qs = append(qs, ifQuery{Kind: "opts", Iface: "-", SrcIP: "-", SrcMAC: "-", Target: t})
		if t != "-" {
			qs = append(qs, ifQuery{Kind: "optsf", Iface: "-", SrcIP: "-", SrcMAC: "-", Target: t})
		}
	}
	for i := 0; i < n; i++ {
		q := ifQuery{Kind: "opts", Iface: pickIface(), SrcIP: srcips[rng.Intn(len(srcips))],
			SrcMAC: srcmacs[rng.Intn(len(srcmacs))], Target: targets[rng.Intn(len(targets))]}
		if q.Target != "-" && rng.Intn(4) == 0 {
			q.Kind = "optsf"
		}
		qs = append(qs, q)
	}
	// --iface with a target that lies on the network of one of its later addresses (and of none, for contrast)
	for _, it := range h.ifaces {
		for j, a := range it.addrs {
			if j == 0 || a.v6 {
				continue
			}
			_, nw, _ := net.ParseCIDR(fmt.Sprintf("%s/%d", a.ip, a.ones))
			hostIn, _ := randHostIn(rng, nw.String())
			qs = append(qs, ifQuery{Kind: "opts", Iface: it.name, SrcIP: "-", SrcMAC: "-", Target: nw.String()},
				ifQuery{Kind: "opts", Iface: it.name, SrcIP: "-", SrcMAC: srcmacs[rng.Intn(len(srcmacs))], Target: hostIn.String()})
		}
	}
	// the ARP command (real binary): small targets only, it really scans when the option stage passes
	var small []string
	for t := range seenT {
		if !strings.Contains(t, "/") || strings.HasSuffix(t, "/30") || strings.HasSuffix(t, "/31") || strings.HasSuffix(t, "/32") ||
			strings.HasSuffix(t, "/28") || strings.HasSuffix(t, "/29") || strings.HasSuffix(t, "/27") || strings.HasSuffix(t, "/26") {
			small = append(small, t)
		}
	}
	sort.Strings(small)
	for i := 0; i < withBinary && len(small) > 0; i++ {
		q := ifQuery{Kind: "arp", Iface: "-", SrcIP: "-", SrcMAC: "-", Target: small[rng.Intn(len(small))]}
		if i%2 == 1 {
			q.Iface = pickIface()
			q.SrcIP = srcips[rng.Intn(len(srcips))]
			q.SrcMAC = srcmacs[rng.Intn(len(srcmacs))]
		} else if rng.Intn(2) == 0 {
			// aim at MAC-less interfaces
			for _, it := range h.ifaces {
				if it.kind == "tun" {
					q.Iface = it.name
				}
			}
		}
		qs = append(qs, q)
	}
	return qs
}

func dedup(l []string) []string {
	seen := map[string]bool{}
	var out []string
	for _, s := range l {
		if !seen[s] {
			seen[s] = true
			out = append(out, s)
		}
	}
	return out
}

// hand-written hosts: the situations the property text names, always present whatever the seed
func fixedHosts() []*gHost {
	mk := func(class string, lines ...string) *gHost { return &gHost{recipe: lines, class: []string{"fixed:" + class}} }
	hs := []*gHost{
		mk("ipv6-first",
			"link add ve0 address 02:00:00:00:01:01 type veth peer name ve0p address 02:00:00:00:01:02",
			"link set ve0 up", "link set ve0p up", "-6 addr add fd00::1/64 dev ve0",
			"link add br1 address 02:00:00:00:01:03 type bridge", "link set br1 up", "-4 addr add 10.1.2.1/24 dev br1",
			"route add default via 10.200.0.1 dev ve0 onlink metric 10", "route add default via 10.1.2.254 dev br1 metric 20"),
		mk("overlap",
			"link add ve0 address 02:00:00:00:02:01 type veth peer name ve0p address 02:00:00:00:02:02",
			"link set ve0 up", "link set ve0p up", "-4 addr add 10.1.0.5/16 dev ve0", "-4 addr add 10.1.2.5/24 dev ve0",
			"link add br1 address 02:00:00:00:02:03 type bridge", "link set br1 up", "-4 addr add 10.1.2.9/24 dev br1",
			"-4 addr add 10.1.2.130/25 dev ve0p",
			"route add default via 10.1.2.254 dev br1 metric 100", "route add default via 10.1.0.1 dev ve0 metric 50",
			"route append default via 10.1.0.2 dev ve0 metric 50"),
		mk("vpn",
			"tuntap add dev tn0 mode tun", "link set tn0 up", "-4 addr add 10.8.0.2 peer 10.8.0.1/32 dev tn0",
			"link add ve1 address 02:00:00:00:03:01 type veth peer name ve1p address 02:00:00:00:03:02",
			"link set ve1 up", "link set ve1p up", "-4 addr add 192.168.7.20/24 dev ve1",
			"route add default dev tn0 metric 5", "route add default via 192.168.7.1 dev ve1 metric 600"),
		mk("prefsrc",
			"link add ve0 address 02:00:00:00:04:01 type veth peer name ve0p address 02:00:00:00:04:02",
			"link set ve0 up", "link set ve0p up", "-4 addr add 192.168.7.50/24 dev ve0",
			"route add default via 192.168.7.1 dev ve0 src 192.168.7.50 metric 100"),
		mk("prefsrc-two",
			"link add ve0 address 02:00:00:00:05:01 type veth peer name ve0p address 02:00:00:00:05:02",
			"link set ve0 up", "link set ve0p up", "-4 addr add 192.168.7.50/24 dev ve0",
			"link add br1 address 02:00:00:00:05:03 type bridge", "link set br1 up", "-4 addr add 10.1.2.1/24 dev br1",
			"route add default via 192.168.7.1 dev ve0 src 192.168.7.50 metric 100",
			"route add default via 10.1.2.254 dev br1 metric 600"),
		mk("last-resort-metric",
			"link add ve0 address 02:00:00:00:06:01 type veth peer name ve0p address 02:00:00:00:06:02",
			"link set ve0 up", "link set ve0p up", "-4 addr add 192.168.7.50/24 dev ve0",
			"route add default via 192.168.7.1 dev ve0 metric 4294967295"),
		mk("v4-mapped",
			"link add ve0 address 02:00:00:00:07:01 type veth peer name ve0p address 02:00:00:00:07:02",
			"link set ve0 up", "link set ve0p up", "-6 addr add ::ffff:10.9.0.1/120 dev ve0",
			"link add br1 address 02:00:00:00:07:03 type bridge", "link set br1 up", "-4 addr add 10.9.0.7/24 dev br1",
			"route add default via 10.9.0.254 dev br1"),
		mk("equal-metric",
			"link add ve0 address 02:00:00:00:09:01 type veth peer name ve0p address 02:00:00:00:09:02",
			"link set ve0 up", "link set ve0p up", "-4 addr add 192.168.7.50/24 dev ve0",
			"link add br1 address 02:00:00:00:09:03 type bridge", "link set br1 up", "-4 addr add 10.1.2.1/24 dev br1",
			"-4 addr add 10.1.2.130/25 dev br1", "-4 addr add 10.1.0.7/16 dev br1",
			"route add default via 10.1.2.254 dev br1 metric 100", "route append default via 192.168.7.1 dev ve0 metric 100",
			"route append default via 10.1.2.253 dev br1 metric 100"),
		mk("nothing"),
		mk("no-route",
			"link add ve0 address 02:00:00:00:08:01 type veth peer name ve0p address 02:00:00:00:08:02",
			"link set ve0 up", "link set ve0p up", "-4 addr add 10.1.2.1/24 dev ve0"),
	}
	return hs
}

func fixedQueries(h *gHost) []ifQuery {
	var qs []ifQuery
	names := []string{"-", "ve0", "ve0p", "br1", "tn0", "ve1", "lo"}
	targets := []string{"-", "10.1.2.0/24", "10.1.2.77", "10.1.0.0/16", "10.1.2.128/25", "192.168.7.0/24", "8.8.8.8", "10.9.0.0/24", "10.8.0.1", "10.8.0.0/24"}
	srcips := []string{"-", hex.EncodeToString(net.ParseIP("10.77.0.9")), hex.EncodeToString(net.ParseIP("::1"))}
	qs = append(qs, ifQuery{Kind: "def", Iface: "-", SrcIP: "-", SrcMAC: "-", Target: "-"})
	for _, nm := range names[1:] {
		qs = append(qs, ifQuery{Kind: "gw", Iface: nm, SrcIP: "-", SrcMAC: "-", Target: "-"})
	}
	for _, t := range targets[1:] {
		qs = append(qs, ifQuery{Kind: "loc", Iface: "-", SrcIP: "-", SrcMAC: "-", Target: t})
	}
	for _, nm := range names {
		for _, t := range targets {
			for _, s := range srcips {
				qs = append(qs, ifQuery{Kind: "opts", Iface: nm, SrcIP: s, SrcMAC: "-", Target: t})
			}
			qs = append(qs, ifQuery{Kind: "opts", Iface: nm, SrcIP: "-", SrcMAC: "02aabbccddee", Target: t})
			if t != "-" {
				qs = append(qs, ifQuery{Kind: "optsf", Iface: nm, SrcIP: "-", SrcMAC: "-", Target: t})
			}
		}
	}
	for _, nm := range []string{"-", "tn0", "ve0", "br1"} {
		for _, t := range []string{"10.1.2.77", "10.8.0.1", "192.168.7.1", "10.9.0.3"} {
			qs = append(qs, ifQuery{Kind: "arp", Iface: nm, SrcIP: "-", SrcMAC: "-", Target: t})
		}
	}
	qs = append(qs, ifQuery{Kind: "arp", Iface: "tn0", SrcIP: "-", SrcMAC: "02aabbccddee", Target: "10.8.0.1"},
		ifQuery{Kind: "arp", Iface: "ve0", SrcIP: hex.EncodeToString(net.ParseIP("::1")), SrcMAC: "-", Target: "10.1.2.77"})
	return qs
}

func queryClass(q ifQuery, obs string) string {
	var p []string
	p = append(p, q.Kind)
	if q.Iface != "-" {
		p = append(p, "iface")
	}
	if q.SrcIP != "-" {
		if len(q.SrcIP) == 32 && !strings.HasPrefix(q.SrcIP, "00000000000000000000ffff") {
			p = append(p, "srcip6")
		} else {
			p = append(p, "srcip4")
		}
	}
	if q.SrcMAC != "-" {
		p = append(p, "srcmac")
	}
	if q.Target != "-" {
		p = append(p, "target")
	}
	o := obs
	if i := strings.IndexByte(o, ' '); i > 0 && !strings.HasPrefix(o, "ok") {
		o = o[:i]
	}
	switch {
	case strings.HasPrefix(obs, "ok") && strings.Contains(obs, "vpn=1"):
		o = "ok-vpn"
	case strings.HasPrefix(obs, "ok"):
		o = "ok"
	case strings.HasPrefix(obs, "if="):
		o = "found"
	case strings.HasPrefix(obs, "gw=-"):
		o = "nogw"
	case strings.HasPrefix(obs, "gw="):
		o = "gw"
	}
	return strings.Join(p, "+") + ">" + o
}

func ifaceComponent(r *hx.Run) {
	r.Rule = "case = (generated host built in a private network namespace: 0-4 interfaces of kind veth/bridge/ifb/tap/tun, up or down, 0-4 addresses each from overlapping IPv4 pools, IPv6-only and v4-mapped IPv6 addresses, point-to-point tun addresses; 0-4 default routes with metrics incl. equal and >= 2^31, preferred sources, unreachable, other tables) x (--iface none/each/unknown, --srcip none/IPv4 16-byte/IPv4 4-byte/IPv6, --srcmac none/6-byte/8-byte, target none/attached network/host/sub-/supernet/unrelated); kinds: opts = parseRawOptions+ipScanCmdOpts.parseOptions, arp = real sx binary + getScanRange, loc/def/gw = pkg/ip functions; model evaluated on the snapshot read back with net.Interfaces + netlink; 9 hand-written hosts x full flag grid always included; non-trivial class = (kind, flags present, outcome class)"
	// fail closed: a private namespace must be available
	probe := &ifJob{}
	if _, err := runInNamespace(probe); err != nil {
		fmt.Fprintf(os.Stderr, "iface: private network namespaces are not available (%v): correspondence NOT RUN\n", err)
		os.Exit(3)
	}
	sxbin, err := buildSxBinary()
	if err != nil {
		fmt.Fprintf(os.Stderr, "iface: %v: correspondence NOT RUN\n", err)
		os.Exit(3)
	}
	nHosts, nQ, nBin := 32, 14, 3
	if r.Tier == "thorough" {
		nHosts, nQ, nBin = 520, 24, 4
	}
	type hostJob struct {
		h   *gHost
		job *ifJob
		ans *ifAnswer
		err error
	}
	var jobs []*hostJob
	for _, h := range fixedHosts() {
		jobs = append(jobs, &hostJob{h: h, job: &ifJob{Recipe: h.recipe, Queries: fixedQueries(h), SxBin: sxbin}})
	}
	for i := 0; i < nHosts; i++ {
		h := genHost(r.Rng, i)
		jobs = append(jobs, &hostJob{h: h, job: &ifJob{Recipe: h.recipe, Queries: genQueries(r.Rng, h, nQ, nBin), SxBin: sxbin}})
	}
	var wg sync.WaitGroup
	sem := make(chan struct{}, 8)
	for _, j := range jobs {
		wg.Add(1)
		sem <- struct{}{}
		go func(j *hostJob) {
			defer wg.Done()
			defer func() { <-sem }()
			j.ans, j.err = runInNamespace(j.job)
		}(j)
	}
	wg.Wait()
	recipeNotes := 0
	for _, j := range jobs {
		if j.err != nil {
			fmt.Fprintf(os.Stderr, "iface: namespace run failed: %v: correspondence NOT RUN\n", j.err)
			os.Exit(3)
		}
		for _, c := range j.h.class {
			r.Count("host:" + c)
		}
		if j.ans.Attempts > 1 {
			r.Count("snapshot-retaken")
		}
		recipeNotes += len(j.ans.Notes)
		if len(j.ans.Notes) > 0 && len(r.Notes) < 6 {
			r.Notes = append(r.Notes, "recipe line refused by the kernel (host is whatever was read back): "+j.ans.Notes[0])
		}
		recipe := strings.Join(j.job.Recipe, ";")
		if recipe == "" {
			recipe = "-"
		}
		for i, q := range j.job.Queries {
			obs := j.ans.Observed[i]
			cl := queryClass(q, obs)
			r.Count(cl)
			r.Case(cl, "iface", q.Kind, recipe, j.ans.SnapI, j.ans.SnapR, q.Iface, q.SrcIP, q.SrcMAC, q.Target, j.ans.Parsed[i], obs)
		}
	}
	r.Notes = append(r.Notes, fmt.Sprintf("%d hosts built under unshare -n; %d recipe lines refused by the kernel", len(jobs), recipeNotes))
}

// replay: fields = tag kind recipe snapI snapR iface srcip srcmac target parsed
func ifaceReplay(f []string) string {
	if len(f) < 10 {
		return "bad-replay-record"
	}
	sxbin, err := buildSxBinary()
	if err != nil {
		return "replay-failed:" + hx.HexS(err.Error())
	}
	var recipe []string
	if f[2] != "-" {
		recipe = strings.Split(f[2], ";")
	}
	job := &ifJob{Recipe: recipe, SxBin: sxbin, Queries: []ifQuery{{Kind: f[1], Iface: f[5], SrcIP: f[6], SrcMAC: f[7], Target: f[8]}}}
	ans, err := runInNamespace(job)
	if err != nil {
		return "replay-failed:" + hx.HexS(err.Error())
	}
	if ans.SnapI != f[3] || ans.SnapR != f[4] {
		return "snapshot-differs:" + ans.SnapI + "|" + ans.SnapR
	}
	return ans.Observed[0]
}

var _ = strconv.Itoa
