package main

// e2ereply (C03) — the receive side of the whole `sx` binary in a private network namespace (netlab.go):
// command line → interface / vpn-mode choice → startPortScanEngine's chunk loop → startPacketScanEngine
// (AF_PACKET socket, the filter of THAT engine run compiled by libpcap and attached to the socket, the kernel's
// BPF interpreter and its cut to the capture length, the TPACKET ring) → the command's processor → result channel
// → logger → JSON lines on stdout.  None of this wiring is reachable by an in-process hook.
//
// A case is one run of one of the eight packet-scan commands on a small target, on the veth pair (Ethernet) or on
// a tun device (no MAC address: sx switches itself to vpn mode).  While the scan runs — after its first probe of
// an engine run has been seen on the wire, i.e. after that run's socket and filter are in place — a batch of
// structured frames is put on the wire towards sx.  The observation is the multiset of records sx prints.
//
//	c03e cmd vpn proccfg fn link dropsTagged subnet batches obs
//	     batches = <ports of engine run 1>@<frame>,<frame>,…;<ports of run 2>@…      (ports "-" = none)
//	     obs     = "OK <record>|<record>|…" (sorted; record notation of component proc) | "FAIL …" | "TIMEOUT"
//
// The Lean driver computes the same multiset from the model (filter of the run's own range on the whole frame,
// processor on the captured prefix: `reportedAllSnap`) and from the Spec (`replyRecord`).

import (
	"math/rand"
	"encoding/binary"
	"encoding/json"
	"fmt"
	"net"
	"os"
	"os/exec"
	"path/filepath"
	"sort"
	"strconv"
	"strings"
	"sync"
	"syscall"
	"time"
	"unsafe"

	"sxverif/harness/internal/hx"
)

func init() {
	components["e2ereply"] = e2eReplyComponent
}

const (
	replyExitDelay = "400ms"
	tunNet         = uint32(10<<24 | 1<<16) // 10.1.0.0/24 lives on tun0
)

// ---------- a tun device: an interface without a MAC address, the far end is a file descriptor ----------

type tunDev struct {
	fd     int
	mu     sync.Mutex
	frames [][]byte
	stamps []int64
	stop   chan struct{}
	done   chan struct{}
}

func newTun(name string, addr string) (*tunDev, error) {
	fd, err := syscall.Open("/dev/net/tun", syscall.O_RDWR, 0)
	if err != nil {
		return nil, err
	}
	var ifr [40]byte
	copy(ifr[:15], name)
	*(*uint16)(unsafe.Pointer(&ifr[16])) = 0x0001 | 0x1000 // IFF_TUN | IFF_NO_PI
	if _, _, e := syscall.Syscall(syscall.SYS_IOCTL, uintptr(fd), 0x400454ca /* TUNSETIFF */, uintptr(unsafe.Pointer(&ifr[0]))); e != 0 {
		syscall.Close(fd)
		return nil, e
	}
	ipCmd("addr", "add", addr, "dev", name)
	ipCmd("link", "set", name, "mtu", "9000")
	ipCmd("link", "set", name, "up")
	syscall.SetNonblock(fd, true)
	t := &tunDev{fd: fd, stop: make(chan struct{}), done: make(chan struct{})}
	go func() {
		defer close(t.done)
		buf := make([]byte, 1<<16)
		for {
			select {
			case <-t.stop:
				return
			default:
			}
			k, err := syscall.Read(t.fd, buf)
			if err != nil || k <= 0 {
				time.Sleep(time.Millisecond)
				continue
			}
			f := make([]byte, k)
			copy(f, buf[:k])
			now := time.Now().UnixNano()
			t.mu.Lock()
			t.frames = append(t.frames, f)
			t.stamps = append(t.stamps, now)
			t.mu.Unlock()
		}
	}()
	return t, nil
}

func (t *tunDev) inject(p []byte) error {
	_, err := syscall.Write(t.fd, p)
	return err
}

// take returns (and forgets) everything read from the device so far
func (t *tunDev) take() [][]byte {
	t.mu.Lock()
	defer t.mu.Unlock()
	f := t.frames
	t.frames, t.stamps = nil, nil
	return f
}

// takeStamped: the frames with the (user-level, up to a millisecond late) time each was read off the device
func (t *tunDev) takeStamped() ([][]byte, []int64) {
	t.mu.Lock()
	defer t.mu.Unlock()
	f, s := t.frames, t.stamps
	t.frames, t.stamps = nil, nil
	return f, s
}

func (t *tunDev) count() int {
	t.mu.Lock()
	defer t.mu.Unlock()
	return len(t.frames)
}

func (t *tunDev) close() {
	close(t.stop)
	<-t.done
	syscall.Close(t.fd)
}

// ---------- the wire, either kind ----------

type wire interface {
	inject([]byte) error
	// frames sx's side has put on the wire since index from
	since(from int) [][]byte
}

func (n *netlab) since(from int) [][]byte {
	n.mu.Lock()
	defer n.mu.Unlock()
	if from >= len(n.frames) {
		return nil
	}
	return append([][]byte{}, n.frames[from:]...)
}

func (t *tunDev) since(from int) [][]byte {
	t.mu.Lock()
	defer t.mu.Unlock()
	if from >= len(t.frames) {
		return nil
	}
	return append([][]byte{}, t.frames[from:]...)
}

// ---------- a case ----------

type replyBatch struct {
	ports  rangeSpec // subnet + the port ranges of this engine run
	frames [][]byte
}

var cmdWords = map[string][]string{
	"arp": {"arp"}, "icmp": {"icmp"}, "udp": {"udp"}, "tcpSyn": {"tcp", "syn"}, "tcpFin": {"tcp", "fin"},
	"tcpNull": {"tcp", "null"}, "tcpXmas": {"tcp", "xmas"}, "tcpFlags": {"tcp", "--flags", "syn,ack"},
}

// is b a probe of this scan towards the target (and, for port scans, one of these ports)?
func isProbe(cmd string, vpn bool, b []byte, target rangeSpec, ports [][2]uint16) bool {
	if !vpn {
		if len(b) < 14 || b[6] != 2 || b[11] != 1 { // from veth0's MAC 02:00:00:00:00:01
			return false
		}
		et := binary.BigEndian.Uint16(b[12:14])
		if cmd == "arp" {
			return et == 0x0806 && len(b) >= 42 && binary.BigEndian.Uint32(b[38:42])&maskOf(target.bits) == target.addr
		}
		if et != 0x0800 {
			return false
		}
		b = b[14:]
	}
	if len(b) < 20 || b[0]>>4 != 4 {
		return false
	}
	if binary.BigEndian.Uint32(b[16:20])&maskOf(target.bits) != target.addr {
		return false
	}
	want := byte(6)
	switch cmd {
	case "icmp":
		want = 1
	case "udp":
		want = 17
	}
	if b[9] != want {
		return false
	}
	if cmd == "icmp" {
		return true
	}
	ihl := int(b[0]&15) * 4
	if len(b) < ihl+4 {
		return false
	}
	dp := binary.BigEndian.Uint16(b[ihl+2 : ihl+4])
	if cmd == "tcpSyn" && (len(b) < ihl+14 || b[ihl+13] != 0x02) {
		return false // the kernel's own RSTs (its answers to the background noise) are not probes of the scan
	}
	for _, p := range ports {
		if p[0] <= dp && dp <= p[1] {
			return true
		}
	}
	return false
}

// JSON line of sx -> record notation of component proc
func recordOfJSON(cmd string, line string) string {
	var m struct {
		Scan   string `json:"scan"`
		IP     string `json:"ip"`
		Port   *int   `json:"port"`
		Flags  string `json:"flags"`
		TTL    *int   `json:"ttl"`
		MAC    string `json:"mac"`
		Vendor *string `json:"vendor"`
		ICMP   *struct {
			Type int `json:"type"`
			Code int `json:"code"`
		} `json:"icmp"`
	}
	if err := json.Unmarshal([]byte(line), &m); err != nil {
		return "BADLINE:" + hx.HexS(line)
	}
	switch {
	case cmd == "arp" && m.MAC != "":
		return fmt.Sprintf("R:arp:%s:%s", ipHex(m.IP), macHex(m.MAC))
	case m.ICMP != nil && m.TTL != nil:
		return fmt.Sprintf("R:icmp:%s:%s:%d:%d:%d", m.Scan, ipHex(m.IP), *m.TTL, m.ICMP.Type, m.ICMP.Code)
	case m.Port != nil:
		fl := m.Flags
		if fl == "" {
			fl = "-"
		}
		return fmt.Sprintf("R:tcp:%s:%s:%d:%s", m.Scan, ipHex(m.IP), *m.Port, fl)
	}
	return "BADLINE:" + hx.HexS(line)
}

func portsArg(ps [][2]uint16) string {
	var s []string
	for _, p := range ps {
		if p[0] == p[1] {
			s = append(s, fmt.Sprint(p[0]))
		} else {
			s = append(s, fmt.Sprintf("%d-%d", p[0], p[1]))
		}
	}
	return strings.Join(s, ",")
}

// frames every batch must contain, whatever the PRNG says: the reply shape and each way of just missing it
func (g *frameGen) mustFrames(kind string, vpn bool, r rangeSpec, syn bool, other *rangeSpec) (out [][]byte, classes []string) {
	add := func(f []byte, c string) { out = append(out, f); classes = append(classes, c) }
	l := 14
	if vpn {
		l = 0
	}
	for i := 0; i < 3; i++ {
		add(g.reply(kind, vpn, r, syn), "reply")
	}
	snap := 1518
	if kind == "arp" {
		snap = 64
	}
	add(g.replyLen(kind, vpn, r, syn, snap+1+g.rng.Intn(400), -1), "long")
	add(g.replyLen(kind, vpn, r, syn, 4000+g.rng.Intn(5000), []int{-1, 0, 1}[g.rng.Intn(3)]), "long")
	out1 := func(c string, patch func(f []byte, t int)) {
		f := g.reply(kind, vpn, r, syn)
		t := 0
		if kind != "arp" {
			t = l + 4*int(f[l]&15)
		}
		patch(f, t)
		add(f, c)
	}
	if kind == "arp" {
		out1("near/src", func(f []byte, _ int) { s := g.srcOut(r); copy(f[28:32], s[:]) })
		out1("near/htype", func(f []byte, _ int) { f[14] = 1 }) // hardware type 0x0101
		out1("near/ptype", func(f []byte, _ int) { f[17] = 1 })
		out1("near/hlen", func(f []byte, _ int) { f[18] = 5 })
		out1("near/ethertype", func(f []byte, _ int) { f[13] = 0 }) // IPv4 ethertype in front of an ARP body
		return
	}
	out1("near/src", func(f []byte, _ int) { s := g.srcOut(r); copy(f[l+12:l+16], s[:]) })
	out1("near/fragment-mf", func(f []byte, _ int) { binary.BigEndian.PutUint16(f[l+6:], 0x2000) })
	out1("near/fragment-offset", func(f []byte, _ int) { binary.BigEndian.PutUint16(f[l+6:], 0x0001) })
	out1("near/proto", func(f []byte, _ int) { f[l+9] = 17 })
	out1("near/total-length", func(f []byte, t int) { binary.BigEndian.PutUint16(f[l+2:], uint16(t-l+3)) })
	out1("near/ihl", func(f []byte, _ int) { f[l] = f[l]&0xf0 | 4 })
	if kind == "tcp" {
		out1("near/port", func(f []byte, t int) { binary.BigEndian.PutUint16(f[t:], g.portNear(r)) })
		out1("near/flags", func(f []byte, t int) { f[t+13] = []byte{0x02, 0x10, 0x13, 0x16, 0x14, 0x04}[g.rng.Intn(6)] })
		out1("near/flags-ns", func(f []byte, t int) { f[t+12] |= 1 })
		out1("near/data-offset", func(f []byte, t int) { f[t+12] = 4<<4 | f[t+12]&15 })
		if other != nil {
			// reply-shaped for ANOTHER engine run of the same scan (a port of a different chunk)
			add(g.reply(kind, vpn, *other, syn), "other-chunk")
			add(g.reply(kind, vpn, *other, syn), "other-chunk")
		}
		// the other transport protocols
		add(g.reply("icmp", vpn, r, false), "wrong-proto")
	} else {
		out1("near/echo-request", func(f []byte, t int) { f[t] = 8 })
		out1("icmp-types", func(f []byte, t int) { f[t] = []byte{0, 3, 11}[g.rng.Intn(3)] })
		add(g.reply("tcp", vpn, r, true), "wrong-proto")
	}
	if !vpn {
		add(g.reply("arp", false, r, false), "wrong-proto")
	}
	return
}

var replyFileCtr int

// tcpNoiseFrame: a well-formed Ethernet/IPv4/TCP segment (checksums valid) from src:sport to dst:dport with these flags
func tcpNoiseFrame(src, dst uint32, sport, dport uint16, flags byte) []byte {
	f := make([]byte, 60)
	copy(f[0:6], []byte{2, 0, 0, 0, 0, 1})
	copy(f[6:12], []byte{0x02, 0, 0xaa, 0, 0, 0x66})
	f[12], f[13] = 8, 0
	ip := f[14:34]
	ip[0], ip[8], ip[9] = 0x45, 64, 6
	binary.BigEndian.PutUint16(ip[2:4], 40)
	binary.BigEndian.PutUint16(ip[4:6], uint16(sport)^0x5a5a)
	binary.BigEndian.PutUint32(ip[12:16], src)
	binary.BigEndian.PutUint32(ip[16:20], dst)
	binary.BigEndian.PutUint16(ip[10:12], ipChecksum(ip))
	t := f[34:54]
	binary.BigEndian.PutUint16(t[0:2], sport)
	binary.BigEndian.PutUint16(t[2:4], dport)
	binary.BigEndian.PutUint32(t[4:8], 0x01020304)
	binary.BigEndian.PutUint32(t[8:12], 0x05060708)
	t[12], t[13] = 0x50, flags
	binary.BigEndian.PutUint16(t[14:16], 512)
	binary.BigEndian.PutUint16(t[16:18], tcpChecksum(ip[12:16], ip[16:20], t))
	return f
}

func runReplyCase(r *hx.Run, g *frameGen, w wire, dir string, dropsTagged string, row wiringRow, vpn bool, target rangeSpec, chunks [][][2]uint16, nRandom int) {
	kind := row.kind()
	syn := row.Cmd == "tcpSyn"
	var all [][2]uint16
	for _, c := range chunks {
		all = append(all, c...)
	}
	// ---- command line ----
	args := append([]string{}, cmdWords[row.Cmd]...)
	args = append(args, "--json", "--exit-delay", replyExitDelay)
	if len(all) > 0 {
		if len(all) > 20 {
			p := filepath.Join(dir, "ports.txt")
			os.WriteFile(p, []byte(strings.ReplaceAll(portsArg(all), ",", "\n")+"\n"), 0o644)
			args = append(args, "--ports-file", p)
		} else {
			args = append(args, "-p", portsArg(all))
		}
	}
	if vpn {
		args = append(args, "-i", "tun0")
	} else if row.Cmd != "arp" {
		var sb strings.Builder
		for i := uint32(0); i < 1<<uint(32-target.bits); i++ {
			t := target.addr + i
			sb.WriteString(fmt.Sprintf("{\"ip\":\"%s\",\"mac\":\"%s\",\"vendor\":\"x\"}\n", v4Text(t), e2eMacText(labMAC(t))))
		}
		sb.WriteString("{\"ip\":\"10.0.0.254\",\"mac\":\"02:00:00:00:fe:00\"}\n")
		p := filepath.Join(dir, "arp.cache")
		os.WriteFile(p, []byte(sb.String()), 0o644)
		args = append(args, "-a", p)
	}
	replyFileCtr++
	if row.Cmd != "arp" && replyFileCtr%3 == 1 {
		// the addresses also come as a --file list next to the subnet argument (the subnet then still selects the
		// interface and is still the `src net` of the capture filter: replies from elsewhere are not reported)
		var sb strings.Builder
		for i := uint32(0); i < 1<<uint(32-target.bits); i++ {
			sb.WriteString(fmt.Sprintf("{\"ip\":\"%s\"}\n", v4Text(target.addr+i)))
		}
		p := filepath.Join(dir, "targets.jsonl")
		os.WriteFile(p, []byte(sb.String()), 0o644)
		args = append(args, "-f", p)
		r.Count("targets:file+subnet")
	}
	args = append(args, fmt.Sprintf("%s/%d", v4Text(target.addr), target.bits))

	// ---- batches ----
	nRuns := len(chunks)
	if nRuns == 0 {
		nRuns = 1
	}
	batches := make([]replyBatch, nRuns)
	classSet := map[string]bool{}
	for k := range batches {
		rs := target
		if len(chunks) > 0 {
			rs.ports = chunks[k]
		}
		batches[k].ports = rs
		var other *rangeSpec
		if len(chunks) > 1 {
			o := target
			o.ports = chunks[(k+1)%len(chunks)]
			other = &o
		}
		fs, cs := g.mustFrames(kind, vpn, rs, syn, other)
		for i := 0; i < nRandom; i++ {
			f, c := g.c03Frame(kind, vpn, rs, syn)
			fs, cs = append(fs, append([]byte{}, f...)), append(cs, c)
		}
		g.rng.Shuffle(len(fs), func(i, j int) { fs[i], fs[j] = fs[j], fs[i]; cs[i], cs[j] = cs[j], cs[i] })
		for i, f := range fs {
			if !vpn {
				if len(f) < 14 {
					continue // not a frame an Ethernet device can carry
				}
				if g.rng.Intn(6) > 0 {
					copy(f[0:6], []byte{2, 0, 0, 0, 0, 1}) // addressed to veth0; the rest keep a random destination
				}
			} else if len(f) == 0 {
				continue
			}
			batches[k].frames = append(batches[k].frames, f)
			classSet[cs[i]] = true
			r.Count("frame/" + kind + "/" + cs[i])
		}
	}

	// ---- background noise (SYN scans on Ethernet): from BEFORE the process starts until it has ended — so also in the
	// window between the creation of a capture socket and the moment its filter is in place, at every port chunk — the
	// scanned hosts send TCP segments from ports of the range that are not SYN+ACK (RST+ACK of closed ports, ACKs,
	// FIN+ACKs: what a network does all the time).  None of them is an answer a SYN scan reports.
	stopNoise := make(chan struct{})
	var noiseWG sync.WaitGroup
	if row.Cmd == "tcpSyn" && !vpn && len(all) > 0 {
		r.Count("with-noise")
		noiseWG.Add(1)
		go func() {
			defer noiseWG.Done()
			nrng := rand.New(rand.NewSource(int64(target.addr) + int64(len(all))))
			for {
				select {
				case <-stopNoise:
					return
				default:
				}
				pr := all[nrng.Intn(len(all))]
				sport := pr[0] + uint16(nrng.Intn(int(pr[1]-pr[0])+1))
				src := target.addr + uint32(nrng.Intn(1<<uint(32-target.bits)))
				flags := []byte{0x14, 0x10, 0x11, 0x04, 0x18}[nrng.Intn(5)]
				if nrng.Intn(4) == 0 {
					// … and SYN+ACKs of hosts that are not scanned (another subnet's traffic on the same link)
					flags = 0x12
					src = labNet | 250
					if target.addr&maskOf(target.bits) == src&maskOf(target.bits) {
						src = labNet | 5
					}
					if src&maskOf(target.bits) == target.addr {
						flags = 0x14
					}
				}
				w.inject(tcpNoiseFrame(src, labNet|1, sport, uint16(32768+nrng.Intn(28000)), flags))
				time.Sleep(300 * time.Microsecond)
			}
		}()
		time.Sleep(20 * time.Millisecond)
	}
	defer func() {
		select {
		case <-stopNoise:
		default:
			close(stopNoise)
		}
		noiseWG.Wait()
	}()

	// ---- run: start sx, wait for the first probe of each engine run, then put that run's batch on the wire ----
	from := len(w.since(0))
	resc := make(chan sxRun, 1)
	go func() { resc <- runSX(nil, 60*time.Second, args...) }()
	var res sxRun
	finished := false
	note := ""
	for k := range batches {
		deadline := time.Now().Add(20 * time.Second)
		seen := false
		for !seen && !finished && time.Now().Before(deadline) {
			fs := w.since(from)
			for i, b := range fs {
				var ports [][2]uint16
				if len(chunks) > 0 {
					ports = chunks[k]
				}
				if isProbe(row.Cmd, vpn, b, target, ports) {
					seen = true
					from += i + 1
					break
				}
			}
			if seen {
				break
			}
			select {
			case res = <-resc:
				finished = true
			case <-time.After(2 * time.Millisecond):
			}
		}
		if !seen {
			note = fmt.Sprintf("NOPROBE run=%d", k)
			batches = batches[:k] // nothing of this and later runs was put on the wire
			break
		}
		var kept [][]byte
		for _, f := range batches[k].frames {
			if err := w.inject(f); err == nil {
				kept = append(kept, f)
			} else {
				r.Count("inject-refused")
			}
		}
		batches[k].frames = kept
	}
	if !finished {
		res = <-resc
	}

	// ---- observation ----
	obs := ""
	switch {
	case res.timedOut:
		obs = "TIMEOUT"
	case res.exit != 0:
		obs = "FAIL exit=" + fmt.Sprint(res.exit) + " " + hx.HexS(lastLine(res.stderr))
	case note != "":
		obs = "FAIL " + note
	default:
		var recs []string
		for _, line := range strings.Split(res.stdout, "\n") {
			if strings.TrimSpace(line) == "" {
				continue
			}
			recs = append(recs, recordOfJSON(row.Cmd, line))
		}
		sort.Strings(recs)
		obs = "OK " + strings.Join(recs, "|")
		r.Count(fmt.Sprintf("records:%d", e2eBucket(len(recs))))
	}
	var bs []string
	for _, b := range batches {
		var hs []string
		for _, f := range b.frames {
			hs = append(hs, hx.Hex(f))
		}
		bs = append(bs, b.ports.portsField()+"@"+strings.Join(hs, ","))
	}
	v, link := "0", "eth"
	if vpn {
		v = "1"
		if row.BpfVpn {
			link = "raw"
		}
	}
	var cl []string
	for c := range classSet {
		cl = append(cl, c)
	}
	sort.Strings(cl)
	r.Count("cmd:" + row.Cmd + "/vpn" + v)
	r.Case(fmt.Sprintf("%s/vpn%s/runs%d/%s", row.Cmd, v, len(batches), strings.Join(cl, "+")),
		"c03e", row.Cmd, v, row.procCfg(vpn), row.Bpf, link, dropsTagged, target.subnetField(), strings.Join(bs, ";"), obs)
}

func e2eReplyComponent(r *hx.Run) {
	if !enterNetlab() {
		return
	}
	r.Rule = "case = one complete run of the real sx binary (one of the 8 packet-scan commands as regenerated by sxfacts, --json, exit delay " + replyExitDelay + ") on a /30../28 target in a private network namespace, on the veth pair or on a tun device (no MAC address: sx chooses vpn mode itself); once the first probe of an engine run is seen on the wire (socket and that run's filter are attached) a batch of frames is put on the wire towards sx: reply-shaped frames for targets/ports inside the range, each one-field-off variant (source just outside, port lo-1/hi+1, flag bytes around 0x12 and NS, echo request, protocol, fragment bits, IHL, data offset, total length, ARP hardware type 0x0101 / protocol type / hlen), other protocols, frames beyond the capture length (up to 9000 bytes; MTU raised), for multi-chunk port lists replies aimed at a port of ANOTHER engine run, plus random members of every family of components bpf/proc; observed = sorted multiset of the JSON records on stdout; model = per engine run the kernel-side filter of that run's own range on the whole frame followed by the processor on the captured prefix; Spec verdict: the observed multiset is exactly the multiset of Spec.Reply.replyRecord over the injected frames. non-trivial class = (command, vpn, number of engine runs, frame families)"
	lab := newNetlab()
	defer lab.close()
	ipCmd("link", "set", "veth0", "mtu", "9100")
	ipCmd("link", "set", "veth1", "mtu", "9100")
	exec.Command("ethtool", "-K", "veth0", "gro", "off").Run()
	tun, err := newTun("tun0", "10.1.0.1/24")
	if err != nil {
		fmt.Fprintf(os.Stderr, "e2ereply: no tun device (%v): vpn-mode runs cannot be made\n", err)
		os.Exit(4)
	}
	defer tun.close()
	time.Sleep(50 * time.Millisecond)

	work := os.Getenv("VERIF_WORK")
	if work == "" {
		work = os.TempDir()
	}
	dir, err := os.MkdirTemp(work, "e2ereply")
	if err != nil {
		panic(err)
	}
	defer os.RemoveAll(dir)

	g := &frameGen{r.Rng}
	rng := r.Rng
	rows := loadWiring()
	sort.Slice(rows, func(i, j int) bool { return rows[i].Cmd < rows[j].Cmd })
	dropsTagged := "0"
	if loadFact("wiring.dropsVlanTagged") == "true" {
		dropsTagged = "1"
	}
	chunkSize := 200
	if v, err := strconv.Atoi(loadFact("const.chunkSize")); err == nil && v > 0 {
		chunkSize = v
	}
	byCmd := map[string]wiringRow{}
	for _, row := range rows {
		byCmd[row.Cmd] = row
	}

	type plan struct {
		cmd    string
		vpn    bool
		chunks int // number of engine runs wanted (port scans); 0 = no ports
	}
	var plans []plan
	for _, row := range rows {
		c := 1
		if row.Engine != "port" {
			c = 0
		}
		plans = append(plans, plan{row.Cmd, false, c})
	}
	// vpn mode (tun device) for every command that has it, and one port list of more than 200 ranges
	vpnCmds := []string{"udp", "icmp", "tcpSyn", "tcpFin", "tcpNull", "tcpXmas", "tcpFlags"}
	multi := []string{"tcpFin", "tcpSyn", "udp", "tcpFlags"}
	if r.Tier == "thorough" {
		for rep := 0; rep < 3; rep++ {
			for _, c := range vpnCmds {
				plans = append(plans, plan{c, true, 1})
			}
			for _, c := range multi {
				plans = append(plans, plan{c, rng.Intn(2) == 0, 2 + rng.Intn(2)})
			}
			for _, row := range rows {
				c := 1
				if row.Engine != "port" {
					c = 0
				}
				plans = append(plans, plan{row.Cmd, false, c})
			}
		}
	} else {
		plans = append(plans, plan{"udp", true, 1}, plan{vpnCmds[1+rng.Intn(len(vpnCmds)-1)], true, 1})
		plans = append(plans, plan{multi[rng.Intn(2)], false, 2})
	}
	nRandom := 30
	for ci, p := range plans {
		row, ok := byCmd[p.cmd]
		if !ok {
			continue
		}
		if p.chunks > 0 && row.Engine != "port" {
			p.chunks = 0
		}
		// every case gets its own /29-aligned slot, so that what the kernel still sends for an earlier case
		// (ARP retries, RSTs) is never mistaken for a probe of this one
		slot := uint32(16 + 8*(ci%28))
		bits := 30
		if rng.Intn(3) == 0 {
			bits = 31 + rng.Intn(2)
		}
		base := labNet
		if p.vpn {
			base = tunNet
		}
		target := rangeSpec{hasNet: true, bits: bits, addr: (base | slot | uint32(rng.Intn(4))) & maskOf(bits)}
		var chunks [][][2]uint16
		if p.chunks == 1 {
			var ps [][2]uint16
			for i := 0; i < 1+rng.Intn(3); i++ {
				lo := uint16(1 + rng.Intn(60000))
				ps = append(ps, [2]uint16{lo, lo + uint16(rng.Intn(3))})
			}
			chunks = [][][2]uint16{ps}
		} else if p.chunks > 1 {
			// chunkSize ranges per engine run (regenerated fact); single ports, distinct across runs
			lo := uint16(1000 + rng.Intn(20000))
			total := chunkSize*(p.chunks-1) + 1 + rng.Intn(5)
			var ps [][2]uint16
			for i := 0; i < total; i++ {
				ps = append(ps, [2]uint16{lo + uint16(2*i), lo + uint16(2*i)})
			}
			for i := 0; i < len(ps); i += chunkSize {
				e := i + chunkSize
				if e > len(ps) {
					e = len(ps)
				}
				chunks = append(chunks, ps[i:e])
			}
			if bits < 31 {
				target.bits, target.addr = 32, target.addr|1 // one address: 200 probes per run
			}
		}
		cdir := filepath.Join(dir, fmt.Sprint(ci))
		os.MkdirAll(cdir, 0o755)
		var w wire = lab
		if p.vpn {
			w = tun
		}
		runReplyCase(r, g, w, cdir, dropsTagged, row, p.vpn, target, chunks, nRandom)
	}
	_ = net.IPv4len
}

// one scalar of facts.json, as text ("" if absent)
func loadFact(key string) string {
	var cands []string
	if w := os.Getenv("VERIF_WORK"); w != "" {
		cands = append(cands, filepath.Join(w, "..", "..", "harness", "facts.json"))
	}
	if exe, err := os.Executable(); err == nil {
		cands = append(cands, filepath.Join(filepath.Dir(exe), "..", "facts.json"))
	}
	for _, p := range cands {
		data, err := os.ReadFile(p)
		if err != nil {
			continue
		}
		var all map[string]json.RawMessage
		if json.Unmarshal(data, &all) == nil {
			if v, ok := all[key]; ok {
				return strings.Trim(string(v), "\"")
			}
			return ""
		}
	}
	return ""
}
