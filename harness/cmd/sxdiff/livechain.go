package main

// livechain — the REAL generator chain of `sx arp --live` (ipRequestGenerator → exclusion filter → live
// generator, exactly as command/arp.go stacks them) drained by a slow consumer, as the rate-limited packet
// sender is.  Observed on the consumer side: for every pass boundary, the time between taking the last request
// of pass k and being offered the first request of pass k+1.  It must be at least the rescan interval: the
// next pass starts no earlier than the interval after the previous one ended.

import (
	"context"
	"fmt"
	"net"
	"strconv"
	"time"

	"github.com/v-byte-cpu/sx/pkg/scan"
	"github.com/yl2chen/cidranger"
	"sxverif/harness/internal/hx"
)

func init() {
	replayers["livechain"] = func(f []string) string {
		ones, _ := strconv.Atoi(f[1])
		rescanMs, _ := strconv.Atoi(f[2])
		perReqUs, _ := strconv.Atoi(f[3])
		passes, _ := strconv.Atoi(f[4])
		return runLiveChain(ones, rescanMs, perReqUs, passes, f[5] == "1")
	}
}

func runLiveChain(ones, rescanMs, perReqUs, passes int, withFilter bool) string {
	_, subnet, _ := net.ParseCIDR(fmt.Sprintf("10.55.0.0/%d", ones))
	n := 1 << uint(32-ones)
	var gen scan.RequestGenerator = scan.NewIPRequestGenerator(scan.NewIPGenerator())
	if withFilter {
		rg := cidranger.NewPCTrieRanger()
		_, ex, _ := net.ParseCIDR("10.55.0.1/32")
		rg.Insert(cidranger.NewBasicRangerEntry(*ex))
		gen = scan.NewFilterIPRequestGenerator(gen, rg)
		n--
	}
	gen = scan.NewLiveRequestGenerator(gen, time.Duration(rescanMs)*time.Millisecond)
	ctx, cancel := context.WithCancel(context.Background())
	defer cancel()
	ch, err := gen.GenerateRequests(ctx, &scan.Range{DstSubnet: subnet})
	if err != nil {
		return "ERR " + err.Error()
	}
	minGap := int64(-1)
	var lastTaken time.Time
	deadline := time.After(60 * time.Second)
	for i := 0; i < n*passes; i++ {
		select {
		case _, ok := <-ch:
			if !ok {
				return fmt.Sprintf("CLOSED after %d", i)
			}
		case <-deadline:
			return fmt.Sprintf("TIMEOUT after %d", i)
		}
		now := time.Now()
		if i > 0 && i%n == 0 { // first request of a later pass
			if g := now.Sub(lastTaken).Microseconds(); minGap < 0 || g < minGap {
				minGap = g
			}
		}
		lastTaken = now                                        // the pass has ended when its last request is handed over
		time.Sleep(time.Duration(perReqUs) * time.Microsecond) // the sender is busy with this request
	}
	return fmt.Sprintf("mingap_us=%d", minGap)
}

func liveChainCases(r *hx.Run) {
	runs := 3
	if r.Tier == "thorough" {
		runs = 12
	}
	for i := 0; i < runs; i++ {
		ones := 27 + r.Rng.Intn(3)       // 8..32 addresses
		rescan := 60 + r.Rng.Intn(60)    // ms
		perReq := 800 + r.Rng.Intn(1500) // µs per request: the tail of a pass takes a good part of the interval
		filter := i%2 == 1
		obs := runLiveChain(ones, rescan, perReq, 3, filter)
		r.Count("livechain")
		f := "0"
		if filter {
			f = "1"
		}
		r.Case("livechain", "livechain", strconv.Itoa(ones), strconv.Itoa(rescan), strconv.Itoa(perReq), "3", f, obs)
	}
}
