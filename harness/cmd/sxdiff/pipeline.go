package main

// pipeline — the REAL request -> N fill workers -> merge -> sender -> writer pipeline plus the merged
// error channel, wired exactly as sx wires it (NewPacketMultiGenerator / NewPacketSource / NewSender /
// NewPacketEngine); only the four leaves (request generator, filler, writer, receiver) are harness fakes.

import (
	"syscall"
	"bytes"
	"context"
	"encoding/hex"
	"errors"
	"fmt"
	"hash/fnv"
	"math/rand"
	"os"
	"runtime"
	"sort"
	"strconv"
	"strings"
	"sync"
	"sync/atomic"
	"time"

	"github.com/google/gopacket"
	"github.com/v-byte-cpu/sx/pkg/packet"
	"github.com/v-byte-cpu/sx/pkg/scan"
	"sxverif/harness/internal/hx"
)

func init() {
	components["pipeline"] = pipelineComponent
	replayers["pipe"] = func(f []string) string { return runPipe(f[1:6]) }
}

const pipeTimeout = 10 * time.Second

// once two cases have timed out (a broken pipeline hangs every steered case) later cases give up quickly
var pipeTimedOut int32

func pipeCaseTimeout() time.Duration {
	if atomic.LoadInt32(&pipeTimedOut) >= 2 {
		return 300 * time.Millisecond
	}
	return pipeTimeout
}

func pipeFrame(i int) []byte {
	l := 6 + i%5
	fr := []byte{0xA5, byte(i >> 24), byte(i >> 16), byte(i >> 8), byte(i), byte(l)}
	for j := 0; j < l-6; j++ {
		fr = append(fr, byte(i+j+1))
	}
	return fr
}

// pipeTrace: global event order (steer mode only; a no-op otherwise so that free mode is not serialised).
type pipeTrace struct {
	mu      sync.Mutex
	on      bool
	toks    []string
	seen    map[string]bool
	waiters map[string]chan struct{}
	bufs    map[gopacket.SerializeBuffer]int // keeps every buffer alive => addresses are never reused

	// cancel mode (pipecancel.go): at the ck-th token of kind ckind ('W' write started, 'E' error consumed) or
	// the ck-th consumed request ('S') the context is cancelled and "K" is appended, atomically with the
	// triggering token
	ckind  byte
	ck     int
	ccnt   int
	cancel func()
	fired  chan struct{}
}

// mark (locked): keys[0] is the token appended; every key wakes its waiter.
func (t *pipeTrace) mark(keys ...string) {
	t.toks = append(t.toks, keys[0])
	for _, k := range keys {
		t.seen[k] = true
		if ch, ok := t.waiters[k]; ok {
			close(ch)
			delete(t.waiters, k)
		}
	}
	if t.ckind != 0 && t.ckind != 'S' && keys[0][0] == t.ckind {
		t.hit()
	}
}

// rec performs a bookkeeping action and appends its token atomically (so that a snapshot taken under the
// trace lock sees both or neither).
func (t *pipeTrace) rec(f func(), tok string) {
	if !t.on {
		f()
		return
	}
	t.mu.Lock()
	f()
	t.mark(tok)
	t.mu.Unlock()
}

func (t *pipeTrace) add(keys ...string) {
	if t.on {
		t.mu.Lock()
		t.mark(keys...)
		t.mu.Unlock()
	}
}

// do performs a harness action and appends its token atomically, so that no consequence of the action
// can be recorded before the action itself.
func (t *pipeTrace) do(f func() bool, tok string) bool {
	if !t.on {
		return f()
	}
	t.mu.Lock()
	defer t.mu.Unlock()
	if !f() {
		return false
	}
	t.mark(tok)
	return true
}

func (t *pipeTrace) fill(id int, buf gopacket.SerializeBuffer) {
	if !t.on {
		return
	}
	t.mu.Lock()
	b, ok := t.bufs[buf]
	if !ok {
		b = len(t.bufs)
		t.bufs[buf] = b
	}
	t.mark(fmt.Sprintf("F%d:%d", id, b), fmt.Sprintf("F%d", id))
	t.mu.Unlock()
}

func (t *pipeTrace) await(key string, tmo <-chan struct{}) bool {
	t.mu.Lock()
	if t.seen[key] {
		t.mu.Unlock()
		return true
	}
	ch, ok := t.waiters[key]
	if !ok {
		ch = make(chan struct{})
		t.waiters[key] = ch
	}
	t.mu.Unlock()
	select {
	case <-ch:
		return true
	case <-tmo:
		return false
	}
}

// pipeCase is all four fakes at once: RequestGenerator, PacketFiller, packet.Writer, packet.Receiver.
type pipeCase struct {
	kinds  string
	wfail  map[int]bool
	slow   time.Duration
	ids    map[*scan.Request]int // read-only during the run
	reqc   chan *scan.Request
	rcvc   chan error
	tr     pipeTrace
	blockW chan struct{}
	mu     sync.Mutex // writes, errs (taken after tr.mu when both are held)
	writes []string
	errs   []string

	started, completed int64
	bad                int32 // slice changed under the writer, dirty pooled buffer, or panic
}

func (c *pipeCase) GenerateRequests(context.Context, *scan.Range) (<-chan *scan.Request, error) {
	return c.reqc, nil
}

func (c *pipeCase) ReceivePackets(context.Context) <-chan error { return c.rcvc }

func (c *pipeCase) Fill(buf gopacket.SerializeBuffer, r *scan.Request) error {
	id, ok := c.ids[r]
	if !ok {
		atomic.StoreInt32(&c.bad, 1)
		return errors.New("fill:?")
	}
	if len(buf.Bytes()) != 0 {
		atomic.StoreInt32(&c.bad, 1) // dirty
	}
	c.tr.fill(id, buf)
	if c.kinds[id] == 'f' {
		return fmt.Errorf("fill:%d", id)
	}
	fr := pipeFrame(id)
	b, err := buf.AppendBytes(len(fr))
	copy(b, fr)
	return err
}

func (c *pipeCase) WritePacketData(p []byte) error {
	atomic.AddInt64(&c.started, 1)
	defer atomic.AddInt64(&c.completed, 1)
	cp := append([]byte(nil), p...)
	h := hex.EncodeToString(cp)
	fail := len(cp) >= 5 && cp[0] == 0xA5 && c.wfail[int(cp[1])<<24|int(cp[2])<<16|int(cp[3])<<8|int(cp[4])]
	c.tr.rec(func() {
		c.mu.Lock()
		c.writes = append(c.writes, h)
		c.mu.Unlock()
	}, fmt.Sprintf("W%s:%d", h, map[bool]int{true: 1}[fail]))
	if c.blockW != nil {
		<-c.blockW // blocked writer (cancel mode): released after the error stream ended
	}
	if c.slow > 0 {
		time.Sleep(c.slow)
	} else {
		runtime.Gosched()
		runtime.Gosched()
	}
	if !bytes.Equal(cp, p) {
		atomic.StoreInt32(&c.bad, 1)
	}
	if fail {
		// what a packet socket really answers — the device queue is full, the link is down, the socket is gone … — under
		// a text that names the frame (a frame that fails, fails every time it is tried: a retry inside the writer must
		// not swallow the error, and no kind of failure ends the stream for the frames behind it)
		id := int(cp[1])<<24 | int(cp[2])<<16 | int(cp[3])<<8 | int(cp[4])
		errnos := []syscall.Errno{syscall.ENOBUFS, syscall.ENETDOWN, syscall.EAGAIN, syscall.ENXIO, syscall.EBADF, syscall.ENODEV, syscall.EPERM}
		return &writeFailure{text: "write:" + h, errno: errnos[id%len(errnos)]}
	}
	return nil
}

// pipeSend: a channel send that gives up when the case timed out.
func pipeSend[T any](ch chan<- T, v T, tmo <-chan struct{}) func() bool {
	return func() bool {
		select {
		case ch <- v:
			return true
		case <-tmo:
			return false
		}
	}
}

func pipeJoin(x []string) string {
	if len(x) == 0 {
		return "-"
	}
	x = append([]string(nil), x...)
	sort.Strings(x)
	return strings.Join(x, ",")
}

func pipeSeed(f []string) int64 {
	h := fnv.New64a()
	h.Write([]byte(strings.Join(f, "\t")))
	return int64(h.Sum64() >> 1)
}

// free-mode cases whose error consumer starts draining only after 20 ms (derived from the fields).
func pipeDelayed(f []string) bool { return f[4] != "steer" && pipeSeed(f)%4 == 0 }

// runPipe: f = N, kinds, wfail, rcvK, opts.
func runPipe(f []string) string {
	n, _ := strconv.Atoi(f[0])
	rcvK, _ := strconv.Atoi(f[3])
	kinds, opts := strings.Trim(f[1], "-"), f[4]
	c := &pipeCase{kinds: kinds, wfail: map[int]bool{}, ids: map[*scan.Request]int{},
		reqc: make(chan *scan.Request), rcvc: make(chan error, 100)}
	c.tr = pipeTrace{on: opts == "steer", seen: map[string]bool{}, waiters: map[string]chan struct{}{},
		bufs: map[gopacket.SerializeBuffer]int{}}
	for _, s := range strings.Split(f[2], ",") {
		if id, err := strconv.Atoi(s); err == nil {
			c.wfail[id] = true
		}
	}
	if i := strings.Index(opts, "slow="); i >= 0 {
		us, _ := strconv.Atoi(opts[i+5:])
		c.slow = time.Duration(us) * time.Microsecond
	}
	reqs := make([]*scan.Request, len(kinds))
	for i := range reqs {
		reqs[i] = &scan.Request{DstPort: uint16(i)}
		if kinds[i] == 'r' {
			reqs[i].Err = fmt.Errorf("req:%d", i)
		}
		c.ids[reqs[i]] = i
	}
	var d, cl int
	co, isCancel := parsePipeCancel(opts)
	if isCancel {
		c.tr.on = true
	}
	panicked, msg := hx.Recover(func() {
		if isCancel {
			cl = c.runCancel(n, rcvK, reqs, co)
		} else {
			d, cl = c.run(n, rcvK, reqs, rand.New(rand.NewSource(pipeSeed(f))), pipeDelayed(f))
		}
	})
	c.tr.mu.Lock()
	defer c.tr.mu.Unlock()
	c.mu.Lock()
	defer c.mu.Unlock()
	if isCancel { // d = `done` was seen closed
		for _, tok := range c.tr.toks {
			if tok == "D" {
				d = 1
			}
		}
		if co.fullerr {
			c.tr.on = false // hundreds of items in flight: no trace, Spec verdict only
		}
	}
	if panicked {
		atomic.StoreInt32(&c.bad, 1)
		c.errs = append(c.errs, "PANIC:"+strings.NewReplacer(",", "_", ";", "_").Replace(strings.Join(strings.Fields(msg), "_")))
	}
	t := "-"
	if c.tr.on {
		t = strings.Join(c.tr.toks, ",")
	}
	return fmt.Sprintf("w=%s;e=%s;d=%d;c=%d;s=%d;t=%s", pipeJoin(c.writes), pipeJoin(c.errs), d, cl,
		1-atomic.LoadInt32(&c.bad), t)
}

func (c *pipeCase) run(n, rcvK int, reqs []*scan.Request, rng *rand.Rand, delayed bool) (d, cl int) {
	ctx, cancel := context.WithCancel(context.Background())
	defer cancel() // only after everything ended (or timed out)
	tmo := make(chan struct{})
	defer time.AfterFunc(pipeCaseTimeout(), func() { atomic.AddInt32(&pipeTimedOut, 1); close(tmo) }).Stop()

	src := scan.NewPacketSource(c, scan.NewPacketMultiGenerator(c, n))
	eng := scan.NewPacketEngine(src, packet.NewSender(c), c)
	done, errc := eng.Start(ctx, &scan.Range{})

	consDone := make(chan struct{})
	go func() { // error consumer
		if delayed {
			time.Sleep(20 * time.Millisecond)
		}
		for {
			select {
			case e, ok := <-errc:
				if !ok {
					c.tr.add("C")
					close(consDone)
					return
				}
				c.mu.Lock()
				c.errs = append(c.errs, e.Error())
				c.mu.Unlock()
				c.tr.add("E" + e.Error())
			case <-tmo:
				return
			}
		}
	}()
	send := func(r *scan.Request) func() bool { return pipeSend(c.reqc, r, tmo) }
	rcv := func(k int) func() bool { return pipeSend(c.rcvc, fmt.Errorf("rcv:%d", k), tmo) }
	closeRcv := make(chan struct{})
	if c.tr.on {
		c.steer(rcvK, reqs, rng, send, rcv, tmo)
	} else {
		go func() {
			for _, r := range reqs {
				if !send(r)() {
					return
				}
			}
			close(c.reqc)
		}()
		go func() {
			for k := 0; k < rcvK; k++ {
				if !rcv(k)() {
					return
				}
			}
			select {
			case <-closeRcv:
				close(c.rcvc)
			case <-tmo:
			}
		}()
	}
	completedAtDone := int64(-1)
	select {
	case <-done:
		completedAtDone = atomic.LoadInt64(&c.completed)
		c.tr.add("D")
	case <-tmo:
	}
	if c.tr.on {
		c.tr.do(func() bool { close(c.rcvc); return true }, "Q")
	} else {
		close(closeRcv)
	}
	select {
	case <-consDone:
		cl = 1
	case <-tmo:
	}
	if completedAtDone == atomic.LoadInt64(&c.started) {
		d = 1
	}
	return
}

// steer: strictly one item in flight; every harness action waits for its consequence.
func (c *pipeCase) steer(rcvK int, reqs []*scan.Request, rng *rand.Rand,
	send func(*scan.Request) func() bool, rcv func(int) func() bool, tmo <-chan struct{}) {
	pos := make([]int, rcvK) // receiver error k is emitted just before request pos[k]
	for k := range pos {
		pos[k] = rng.Intn(len(reqs) + 1)
	}
	sort.Ints(pos)
	k, ok := 0, true
	emitRcv := func(upto int) {
		for ; ok && k < rcvK && pos[k] <= upto; k++ {
			ok = c.tr.do(rcv(k), "R") && c.tr.await(fmt.Sprintf("Ercv:%d", k), tmo)
		}
	}
	for i, r := range reqs {
		if emitRcv(i); !ok {
			return
		}
		h := hex.EncodeToString(pipeFrame(i))
		switch ok = c.tr.do(send(r), "S"); {
		case !ok:
		case c.kinds[i] == 'r':
			ok = c.tr.await(fmt.Sprintf("Ereq:%d", i), tmo)
		case c.kinds[i] == 'f':
			ok = c.tr.await(fmt.Sprintf("F%d", i), tmo) && c.tr.await(fmt.Sprintf("Efill:%d", i), tmo)
		case c.wfail[i]:
			ok = c.tr.await("W"+h+":1", tmo) && c.tr.await("Ewrite:"+h, tmo)
		default:
			ok = c.tr.await("W"+h+":0", tmo)
		}
		if !ok {
			return
		}
	}
	if emitRcv(len(reqs)); ok {
		c.tr.do(func() bool { close(c.reqc); return true }, "X")
	}
}

// pipeJob returns the five input fields of a case with n requests drawn with the given error rates.
func pipeJob(rng *rand.Rand, workers, n int, pr, pf, pw float64, rcvK int, opts string) []string {
	kinds, wfail := make([]byte, n), []string{}
	for i := range kinds {
		switch x := rng.Float64(); {
		case x < pr:
			kinds[i] = 'r'
		case x < pr+pf:
			kinds[i] = 'f'
		default:
			if kinds[i] = 'o'; rng.Float64() < pw {
				wfail = append(wfail, strconv.Itoa(i))
			}
		}
	}
	dash := func(s string) string {
		if s == "" {
			return "-"
		}
		return s
	}
	return []string{strconv.Itoa(workers), dash(string(kinds)), dash(strings.Join(wfail, ",")), strconv.Itoa(rcvK), opts}
}

func pipeBucketN(n int) string {
	for i, hi := range []int{1, 2, 4, 8, 16, 32} {
		if n <= hi {
			return []string{"1", "2", "3-4", "5-8", "9-16", "17-32"}[i]
		}
	}
	return "33-64"
}

func pipelineComponent(r *hx.Run) {
	r.Rule = "case = (worker count N, request kind string over {o good, r request-error, f fill-error}, ids whose write fails, number of receiver errors, mode steer | free[,slow=us]); steer = one item in flight with full event trace incl. pooled-buffer identities, free = everything concurrent so that every channel buffer (100, N*100) overflows, error consumer started late in a quarter of the cases; non-trivial class = N bucket {1,2,3-4,5-8,9-16,17-32,33-64} / mode / request-count bucket {empty, small<=50, medium<=1000, large} [/manyerr: > 100 errors in total] [/slow: writer sleeps]; cancel mode = the same pipeline cancelled at the k-th consumed request / started write / consumed error for every k of short runs (N 1..3, <= 6 requests, <= 2 receiver errors), plain | error consumer starting at the cancel | slow writer | writer blocked until the error stream ended, plus runs with > 300 errors and a stalled consumer (every error channel full); class = N / cancel / trigger kind and position / mode"
	rng, m := r.Rng, 1
	if r.Tier == "thorough" {
		m = 9
	}
	// cancel mode (pipecancel.go): own PRNG stream so that the other jobs do not depend on it; run in a child
	cjobs := pipeCancelJobs(rand.New(rand.NewSource(r.Seed^0x63616e63)), r.Tier)
	if os.Getenv("SXDIFF_CHILD") == "1" {
		pipeCancelChild(cjobs, os.Getenv("SXDIFF_OUT"), os.Getenv("SXDIFF_ONLY"))
		return
	}
	cgot := make(chan map[int]string, 1)
	go func() { cgot <- pipeCancelRun(r, cjobs) }()
	st := func(n, kinds, wfail, rcvK string) []string { return []string{n, kinds, wfail, rcvK, "steer"} }
	jobs := [][]string{st("1", "-", "-", "0"), st("3", "-", "-", "3"), st("1", "o", "-", "0"), st("2", "o", "0", "1"),
		st("1", "r", "-", "0"), st("4", "f", "-", "0"), st("2", "rfrfoo", "4,5", "2"), st("64", "rrrrrrrrrr", "-", "3"),
		st("1", "oooooooooo", "0,1,2,3,4,5,6,7,8,9", "0"), st("8", "ffffffff", "-", "1")}
	for i := 0; i < 140*m; i++ {
		n := 1 + rng.Intn(4)
		if rng.Intn(10) == 0 {
			n = []int{8, 64}[rng.Intn(2)]
		}
		jobs = append(jobs, pipeJob(rng, n, rng.Intn(26), 0.2, 0.15, 0.2, rng.Intn(4), "steer"))
	}
	nSteer := len(jobs)
	jobs = append(jobs, []string{"1", "-", "-", "0", "free"}, []string{"8", "-", "-", "150", "free"}, []string{"64", "-", "-", "3", "free,slow=20"})
	addFree := func(count, lo, hi int, pr, pf, pw float64, maxK int, slows []int) {
		for i := 0; i < count; i++ {
			n := 1 + rng.Intn(64)
			if rng.Intn(2) == 0 {
				n = []int{1, 2, 3, 4, 8, 16, 32, 64}[rng.Intn(8)]
			}
			cnt, slow, opts, rcvK := lo+rng.Intn(hi-lo+1), slows[rng.Intn(len(slows))], "free", 0
			if slow > 0 {
				opts = fmt.Sprintf("free,slow=%d", slow)
			}
			if slow >= 200 && cnt > 400 {
				cnt = 400
			}
			if rng.Intn(3) > 0 {
				rcvK = rng.Intn(maxK + 1)
			}
			jobs = append(jobs, pipeJob(rng, n, cnt, pr, pf, pw, rcvK, opts))
		}
	}
	addFree(520*m, 0, 50, 0.1, 0.1, 0.15, 5, []int{0, 0, 0, 0, 20, 200})
	addFree(60*m, 200, 600, 0.05, 0.05, 0.1, 20, []int{0, 0, 20, 200})
	addFree(12*m, 1500, 3000, 0.02, 0.02, 0.03, 150, []int{0, 0, 20})
	addFree(16*m, 300, 800, 0.25, 0.2, 0.3, 150, []int{0, 0, 20, 200}) // > 100 errors each
	// far more than 1000 errors from ONE source (requests / builds / writes that nearly all fail, and a
	// receiver that reports 1500 errors): every one of them must still come out, and the streams must end
	jobs = append(jobs, pipeJob(rng, 2, 2600, 0.9, 0.05, 0.5, 0, "free"), pipeJob(rng, 3, 1400, 0.02, 0.9, 0.9, 0, "free"),
		pipeJob(rng, 1, 1500, 0.0, 0.0, 0.95, 1500, "free"))

	outs := make([]string, len(jobs))
	var wg sync.WaitGroup
	sem := make(chan struct{}, 8)
	for i := range jobs {
		if i < nSteer { // steer cases one at a time, before all others
			outs[i] = runPipe(jobs[i])
			continue
		}
		wg.Add(1)
		sem <- struct{}{}
		go func(i int) {
			defer wg.Done()
			defer func() { <-sem }()
			outs[i] = runPipe(jobs[i])
		}(i)
	}
	wg.Wait()
	for i, j := range jobs {
		n, _ := strconv.Atoi(j[0])
		rcvK, _ := strconv.Atoi(j[3])
		kinds, mode, size := strings.Trim(j[1], "-"), j[4][:strings.IndexAny(j[4]+",", ",")], "large"
		switch {
		case len(kinds) == 0:
			size = "empty"
		case len(kinds) <= 50:
			size = "small"
		case len(kinds) <= 1000:
			size = "medium"
		}
		class := fmt.Sprintf("N%s/%s/%s", pipeBucketN(n), mode, size)
		r.Count("mode:" + mode)
		r.Count("N:" + pipeBucketN(n))
		r.Count("size:" + size)
		nerr := rcvK + strings.Count(kinds, "r") + strings.Count(kinds, "f")
		if j[2] != "-" {
			nerr += 1 + strings.Count(j[2], ",")
			r.Count("wfail>0")
		}
		if rcvK > 0 {
			r.Count("rcv>0")
		}
		if nerr > 100 {
			class += "/manyerr"
			r.Count("manyerr")
		}
		if strings.Contains(j[4], "slow=") {
			class += "/slow"
			r.Count("slow")
		}
		if pipeDelayed(j) {
			r.Count("late-consumer")
		}
		r.Case(class, append(append([]string{"pipe"}, j...), outs[i])...)
	}
	cout := <-cgot
	for i, j := range cjobs {
		obs, ok := cout[i]
		if !ok {
			continue // not run: the child died before it and the retry budget is spent (noted)
		}
		r.Count("mode:cancel")
		r.Count("cancel-at:" + j[4][7:8])
		r.Case(pipeCancelClass(j), append(append([]string{"pipe"}, j...), obs)...)
	}
}

// writeFailure is a failed write of the fake packet socket: an errno (errors.Is / errors.As see it) under a text that
// names the frame.
type writeFailure struct {
	text  string
	errno syscall.Errno
}

func (e *writeFailure) Error() string   { return e.text }
func (e *writeFailure) Unwrap() error   { return e.errno }
func (e *writeFailure) Timeout() bool   { return e.errno.Timeout() }
func (e *writeFailure) Temporary() bool { return e.errno.Temporary() }
