package main

// e2erefuse (C02) — "a target argument that is not an IPv4 address or IPv4 CIDR block is refused with an error
// before anything is sent", at the process boundary and for every way a command line can carry such an argument:
// alone, next to --file / -f (address file, ip/port pairs file), next to an ARP cache, an --exclude file, --iface.
// The in-process components give the argument to ip.ParseIPNet; only here does it travel through cobra, the
// option structs of command/config.go and the interface selection.
//
// One case = one run of the real binary in the network namespace of netlab.go.  Everything a run could probe is
// watched: frames that leave veth0 (ARP requests, IPv4) and connections to listeners on every address of the files.
// observed = exit=refused|ok|timeout ; sent=<frames + connections> ; panic=0|1

import (
	"bytes"
	"encoding/binary"
	"fmt"
	"net"
	"os"
	"path/filepath"
	"strings"
	"sync"
	"time"

	"sxverif/harness/internal/hx"
)

func init() { components["e2erefuse"] = e2eRefuseComponent }

var refuseBadTargets = []string{
	"2001:db8::1", "::1", "::", "::ffff:10.0.0.5", "::ffff:a00:5", "fe80::1%veth0", "2001:db8::/32", "2001:db8::/120",
	"::ffff:10.0.0.0/120", "::ffff:10.0.0.0/24", "0:0:0:0:0:ffff:10.0.0.9", "::10.0.0.9", "64:ff9b::10.0.0.9", "[::1]", "[10.0.0.5]",
	"10.0.0.256", "10.0.0", "10.0.0.1/33", "10.0.0.1/-1", "10.0.0.1/", "10.0.0.1/24/24", "10.0.0.1/0x18", "10.0.0.1/ 24",
	"abc", "", " ", " 10.0.0.5", "10.0.0.5 ", "10.0.0.5\n", "0x0a.0.0.5", "010.000.000.005", "10.0.0.05", "10.0.0.5.", ".10.0.0.5",
	"localhost", "veth0", "10.0.0.1-5", "10.0.0.1-10.0.0.5", "10.0.0.1,10.0.0.2", "10.0.0.*", "1.2.3.4.5", "167772165", "4294967295",
	"10.0.0.5:80", "10.0.0.5/255.255.255.0", "１０.0.0.5", "10。0。0。5", "10.0.0.5%veth0", "+10.0.0.5", "1e1.0.0.5",
}

func e2eRefuseComponent(r *hx.Run) {
	if !enterNetlab() {
		return
	}
	r.Rule = "case = one run of the real sx binary (arp, tcp syn/fin/--flags, udp, icmp, socks, elastic, docker) in a private network namespace with a target argument drawn from a vocabulary of non-IPv4 strings (every IPv6 form, IPv4-mapped, zones, CIDR with bad masks, octal / hex / short / long dotted forms, ranges, lists, names, blanks, other scripts' digits) — alone, or together with --file (address file or ip/port pairs file whose targets are all watched), --exclude, --iface, an ARP cache — plus valid controls; observed = (refused with a non-zero exit | ran, frames that left the interface + connections any watched target got, panic text on stderr?); expected: the model's ParseIPNet decides validity, an invalid argument gives (refused, 0, 0); non-trivial class = (command, with file?, kind of string)"
	lab := newNetlab()
	defer lab.close()
	dir := e2eWorkDir()
	defer os.RemoveAll(dir)
	rng := r.Rng

	// what the files name: 8 hosts of the lab network (packet scans), 4 loopback addresses x 1 port with listeners
	var hosts []uint32
	for i := uint32(0); i < 8; i++ {
		hosts = append(hosts, labNet|(40+i))
	}
	cache := writeArpCache(dir, hosts)
	var ipsPkt strings.Builder
	for _, h := range hosts {
		fmt.Fprintf(&ipsPkt, "{\"ip\":\"%s\"}\n", v4Text(h))
	}
	pktFile := filepath.Join(dir, "hosts.jsonl")
	os.WriteFile(pktFile, []byte(ipsPkt.String()), 0o644)

	var connMu sync.Mutex
	conns := 0
	const appPort = 28080
	var ipsApp, pairsApp strings.Builder
	var listeners []net.Listener
	for i := 0; i < 4; i++ {
		a := fmt.Sprintf("127.77.%d.%d", 1+rng.Intn(200), 1+rng.Intn(200))
		l, err := net.Listen("tcp4", fmt.Sprintf("%s:%d", a, appPort))
		if err != nil {
			continue
		}
		listeners = append(listeners, l)
		fmt.Fprintf(&ipsApp, "{\"ip\":\"%s\"}\n", a)
		fmt.Fprintf(&pairsApp, "{\"ip\":\"%s\",\"port\":%d}\n", a, appPort)
		go func(l net.Listener) {
			for {
				c, err := l.Accept()
				if err != nil {
					return
				}
				connMu.Lock()
				conns++
				connMu.Unlock()
				c.Close()
			}
		}(l)
	}
	defer func() {
		for _, l := range listeners {
			l.Close()
		}
	}()
	appIPs := filepath.Join(dir, "app-ips.jsonl")
	appPairs := filepath.Join(dir, "app-pairs.jsonl")
	os.WriteFile(appIPs, []byte(ipsApp.String()), 0o644)
	os.WriteFile(appPairs, []byte(pairsApp.String()), 0o644)
	excl := filepath.Join(dir, "excl.txt")
	os.WriteFile(excl, []byte("10.0.0.200\n192.168.0.0/16\n"), 0o644)

	type form struct {
		words []string
		pkt   bool
		ports bool
	}
	forms := []form{
		{[]string{"arp"}, true, false},
		{[]string{"tcp", "syn"}, true, true}, {[]string{"tcp", "fin"}, true, true}, {[]string{"tcp"}, true, true},
		{[]string{"tcp", "--flags", "syn,ack"}, true, true}, {[]string{"tcp", "xmas"}, true, true}, {[]string{"tcp", "null"}, true, true},
		{[]string{"udp"}, true, true}, {[]string{"icmp"}, true, false},
		{[]string{"socks"}, false, true}, {[]string{"elastic"}, false, true}, {[]string{"docker"}, false, true},
	}
	n := 60
	if r.Tier == "thorough" {
		n = 700
	}
	if os.Getenv("VERIF_SEARCH") != "" {
		n *= 2
	}
	for i := 0; i < n; i++ {
		f := forms[i%len(forms)]
		if i >= 2*len(forms) {
			f = forms[rng.Intn(len(forms))]
		}
		target := refuseBadTargets[rng.Intn(len(refuseBadTargets))]
		kind := "bad"
		if i < len(forms) {
			// every form once with the simplest IPv6 address next to a file
			target = []string{"2001:db8::1", "::1", "::ffff:10.0.0.5"}[i%3]
		}
		control := i >= len(forms) && rng.Intn(12) == 0
		if control {
			kind = "control"
			if f.pkt {
				target = []string{"10.0.0.44/30", "10.0.0.45"}[rng.Intn(2)]
			} else {
				target = "127.77.0.1"
			}
		}
		withFile := i < len(forms) || rng.Intn(5) < 3
		args := append([]string{}, f.words...)
		if rng.Intn(2) == 0 {
			args = append(args, "--json")
		}
		args = append(args, "--exit-delay", "50ms")
		fileKind := "none"
		if f.pkt {
			if f.ports {
				args = append(args, "-p", "443")
			}
			if f.words[0] != "arp" {
				args = append(args, "-a", cache)
			}
			if rng.Intn(2) == 0 {
				args = append(args, "-i", "veth0")
			}
			isARP := f.words[0] == "arp" // the arp command knows no --gwmac, --file, --exclude
			if rng.Intn(2) == 0 && !isARP {
				args = append(args, "--gwmac", "02:00:00:00:fe:00")
			}
			if withFile && !isARP {
				args = append(args, "-f", pktFile)
				fileKind = "addrs"
			}
		} else {
			args = append(args, "-t", "300ms", "-w", "4")
			if withFile && rng.Intn(2) == 0 {
				args = append(args, "-f", appPairs)
				fileKind = "pairs"
			} else {
				args = append(args, "-p", fmt.Sprint(appPort))
				if withFile {
					args = append(args, "-f", appIPs)
					fileKind = "addrs"
				}
			}
		}
		if rng.Intn(3) == 0 && f.words[0] != "arp" {
			args = append(args, "--exclude", excl)
		}
		// the argument where cobra takes positional arguments: last, or (a string that does not start with '-') first
		if rng.Intn(4) == 0 && !strings.HasPrefix(target, "-") {
			k := len(f.words)
			if f.words[len(f.words)-1] == "syn,ack" {
				k = len(f.words) // after the flag's value
			}
			args = append(append(append([]string{}, args[:k]...), target), args[k:]...)
		} else {
			args = append(args, target)
		}

		lab.settle(20 * time.Millisecond)
		lab.take()
		connMu.Lock()
		conns = 0
		connMu.Unlock()
		res := runSX(nil, 20*time.Second, args...)
		time.Sleep(5 * time.Millisecond)
		lab.settle(20 * time.Millisecond)
		sent := 0
		for _, b := range lab.take() {
			if len(b) < 34 || !bytes.Equal(b[6:12], lab.srcMAC) {
				continue
			}
			switch binary.BigEndian.Uint16(b[12:14]) {
			case 0x0806, 0x0800:
				sent++
			}
		}
		connMu.Lock()
		sent += conns
		connMu.Unlock()
		exit := "refused"
		switch {
		case res.timedOut:
			exit = "timeout"
		case res.exit == 0:
			exit = "ok"
		}
		panicked := 0
		for _, w := range []string{"panic:", "fatal error:", "goroutine ", "SIGSEGV"} {
			if strings.Contains(res.stderr, w) {
				panicked = 1
			}
		}
		if control && sent > 0 {
			sent = 1 // a control is there to show that the set-up does send: how much is not the point
		}
		obs := fmt.Sprintf("exit=%s;sent=%d;panic=%d", exit, sent, panicked)
		r.Count("file:" + fileKind)
		r.Count("kind:" + kind)
		r.Case(fmt.Sprintf("%s/%s/%s", strings.Join(f.words, " "), fileKind, kind), "e2erefuse", cmdText(args), hx.HexS(target), obs)
	}
}
