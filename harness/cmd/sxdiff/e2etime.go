package main

// e2erate / e2edelay — the real `sx` binary in the network namespace of netlab.go, observed in TIME.
//
//   e2erate  (C15): `--rate N/W` on packet scans and on `socks -w 1`: kernel receive timestamps of the
//            probe frames on the far end of the veth pair (accept times for socks) must satisfy the
//            sequential-sender bound t(i+k-1) - t(i) >= (k-2-10)*floor(W/N) - slack for every window.
//            This is the only place where the packet wiring site (startPacketScanEngine: limiter wrapped
//            around the AF_PACKET socket iff rateCount > 0) is exercised for real.
//   e2edelay (C16): `--exit-delay D`: the process must not exit before (last probe on the wire) + D, and a
//            reply injected on the wire within that time must be printed.

import (
	"encoding/binary"
	"fmt"
	"net"
	"os"
	"path/filepath"
	"sort"
	"strings"
	"sync"
	"syscall"
	"time"

	"sxverif/harness/internal/hx"
)

func init() {
	components["e2erate"] = e2eRateComponent
	components["e2edelay"] = e2eDelayComponent
}

func ipChecksum(h []byte) uint16 {
	var s uint32
	for i := 0; i+1 < len(h); i += 2 {
		s += uint32(h[i])<<8 | uint32(h[i+1])
	}
	for s>>16 != 0 {
		s = s&0xffff + s>>16
	}
	return ^uint16(s)
}

func tcpChecksum(src, dst, seg []byte) uint16 {
	var s uint32
	add := func(b []byte) {
		for i := 0; i+1 < len(b); i += 2 {
			s += uint32(b[i])<<8 | uint32(b[i+1])
		}
		if len(b)%2 == 1 {
			s += uint32(b[len(b)-1]) << 8
		}
	}
	add(src)
	add(dst)
	s += 6
	s += uint32(len(seg))
	add(seg)
	for s>>16 != 0 {
		s = s&0xffff + s>>16
	}
	return ^uint16(s)
}

// replyTo builds the reply-shaped frame for a probe frame captured on the wire
func replyTo(kind string, probe []byte) []byte {
	eth := make([]byte, 14)
	copy(eth[0:6], probe[6:12]) // to the prober
	copy(eth[6:12], []byte{0x02, 0, 0xaa, 0, 0, 0x77})
	switch kind {
	case "pkt-arp":
		eth[12], eth[13] = 0x08, 0x06
		a := make([]byte, 28)
		copy(a, []byte{0, 1, 8, 0, 6, 4, 0, 2})
		copy(a[8:14], eth[6:12])     // sender MAC
		copy(a[14:18], probe[38:42]) // sender IP = the address asked for
		copy(a[18:24], probe[22:28])
		copy(a[24:28], probe[28:32])
		f := append(eth, a...)
		for len(f) < 60 {
			f = append(f, 0)
		}
		return f
	}
	eth[12], eth[13] = 0x08, 0x00
	ip := make([]byte, 20)
	ip[0], ip[8] = 0x45, 61
	copy(ip[12:16], probe[30:34]) // from the probed address
	copy(ip[16:20], probe[26:30])
	var l4 []byte
	switch kind {
	case "pkt-tcp":
		ip[9] = 6
		l4 = make([]byte, 20)
		copy(l4[0:2], probe[36:38]) // from the probed port
		copy(l4[2:4], probe[34:36])
		binary.BigEndian.PutUint32(l4[4:8], 12345)
		binary.BigEndian.PutUint32(l4[8:12], binary.BigEndian.Uint32(probe[38:42])+1)
		l4[12], l4[13] = 0x50, 0x12
		binary.BigEndian.PutUint16(l4[14:16], 1024)
	default: // icmp echo reply
		ip[9] = 1
		l4 = []byte{0, 0, 0, 0, probe[38], probe[39], probe[40], probe[41]}
		binary.BigEndian.PutUint16(l4[2:4], ipChecksum(l4))
	}
	binary.BigEndian.PutUint16(ip[2:4], uint16(20+len(l4)))
	binary.BigEndian.PutUint16(ip[10:12], ipChecksum(ip))
	if kind == "pkt-tcp" {
		binary.BigEndian.PutUint16(l4[16:18], tcpChecksum(ip[12:16], ip[16:20], l4))
	}
	f := append(append(eth, ip...), l4...)
	for len(f) < 60 {
		f = append(f, 0)
	}
	return f
}

func writeArpCache(dir string, targets []uint32) string {
	var sb strings.Builder
	for _, t := range targets {
		sb.WriteString(fmt.Sprintf("{\"ip\":\"%s\",\"mac\":\"%s\"}\n", v4Text(t), e2eMacText(labMAC(t))))
	}
	sb.WriteString("{\"ip\":\"10.0.0.254\",\"mac\":\"02:00:00:00:fe:00\"}\n")
	p := filepath.Join(dir, "arp.cache")
	os.WriteFile(p, []byte(sb.String()), 0o644)
	return p
}

func e2eWorkDir() string {
	work := os.Getenv("VERIF_WORK")
	if work == "" {
		work = os.TempDir()
	}
	dir, err := os.MkdirTemp(work, "e2et")
	if err != nil {
		panic(err)
	}
	return dir
}

// ---------------------------------------------------------------- e2erate

func e2eRateComponent(r *hx.Run) {
	if !enterNetlab() {
		return
	}
	r.Rule = "case = one run of the real sx binary with --rate N/W in a private network namespace (tcp syn, udp, icmp, arp on a veth pair; socks -w 1 on loopback); observed = kernel receive timestamps (ns) of the probe frames in wire order (accept times for socks); verdict = for every window of k consecutive probes t(i+k-1)-t(i) >= (k-2-10)*floor(W/N) - slack; non-trivial class = (command, rate)"
	lab := newNetlab()
	defer lab.close()
	dir := e2eWorkDir()
	defer os.RemoveAll(dir)
	rng := r.Rng
	type rc struct {
		kind  string
		sub   []string
		hosts int // log2
		ports int
	}
	all := []rc{{"pkt-tcp", []string{"tcp", "syn"}, 2, 20}, {"pkt-udp", []string{"udp"}, 1, 35}, {"pkt-icmp", []string{"icmp"}, 6, 0},
		{"pkt-arp", []string{"arp"}, 6, 0}, {"pkt-tcp", []string{"tcp", "fin"}, 3, 9}, {"socks", []string{"socks"}, 2, 12}}
	runs := 4
	if r.Tier == "thorough" {
		runs = 18
	}
	for i := 0; i < runs; i++ {
		c := all[i%len(all)]
		if i >= len(all) {
			c = all[rng.Intn(len(all))]
		}
		// per-probe budget 2..8 ms
		perMs := 2 + rng.Intn(7)
		n, w := 1000/perMs, time.Second
		if rng.Intn(2) == 0 {
			n, w = 100/perMs*3, 300*time.Millisecond
			if n == 0 {
				n = 1
			}
		}
		rate := fmt.Sprintf("%d/%s", n, w)
		base := labNet | uint32(64+rng.Intn(2)*64)
		if c.kind == "socks" {
			base = uint32(127<<24) | uint32(1+rng.Intn(200))<<8
		}
		ones := 32 - c.hosts
		var targets []uint32
		for a := uint32(0); a < 1<<uint(c.hosts); a++ {
			targets = append(targets, base+a)
		}
		args := append(append([]string{}, c.sub...), "--json", "--exit-delay", "30ms", "--rate", rate)
		p0 := 20000 + rng.Intn(20000)
		if c.ports > 0 {
			args = append(args, "-p", fmt.Sprintf("%d-%d", p0, p0+c.ports-1))
		}
		var stamps []int64
		var obs string
		if c.kind == "socks" {
			var mu sync.Mutex
			var ls []net.Listener
			for _, t := range targets {
				for p := p0; p < p0+c.ports; p++ {
					l, err := net.Listen("tcp4", fmt.Sprintf("%s:%d", v4Text(t), p))
					if err != nil {
						continue
					}
					ls = append(ls, l)
					go func(l net.Listener) {
						for {
							conn, err := l.Accept()
							if err != nil {
								return
							}
							now := time.Now().UnixNano()
							mu.Lock()
							stamps = append(stamps, now)
							mu.Unlock()
							go func() { conn.SetDeadline(time.Now().Add(time.Second)); b := make([]byte, 8); conn.Read(b); conn.Write([]byte{5, 0}); conn.Close() }()
						}
					}(l)
				}
			}
			args = append(args, "-w", "1", "-t", "1s", fmt.Sprintf("%s/%d", v4Text(base), ones))
			res := runSX(nil, 120*time.Second, args...)
			time.Sleep(20 * time.Millisecond)
			for _, l := range ls {
				l.Close()
			}
			mu.Lock()
			sort.Slice(stamps, func(i, j int) bool { return stamps[i] < stamps[j] })
			mu.Unlock()
			if res.exit != 0 || res.timedOut {
				obs = "FAIL exit=" + fmt.Sprint(res.exit)
			}
		} else {
			if c.kind != "pkt-arp" {
				args = append(args, "-a", writeArpCache(dir, targets))
			}
			args = append(args, fmt.Sprintf("%s/%d", v4Text(base), ones))
			lab.settle(30 * time.Millisecond)
			lab.take()
			res := runSX(nil, 120*time.Second, args...)
			lab.settle(50 * time.Millisecond)
			frames, ts := lab.takeStamped()
			isTarget := map[string]bool{}
			for _, t := range targets {
				isTarget[fmt.Sprintf("4:%d", t)] = true
			}
			for j, f := range frames {
				if v, ok := frameView(c.kind, f); ok && isTarget[strings.SplitN(v, ",", 2)[0]] {
					stamps = append(stamps, ts[j])
				}
			}
			if res.exit != 0 || res.timedOut {
				obs = "FAIL exit=" + fmt.Sprint(res.exit) + " " + hx.HexS(lastLine(res.stderr))
			}
		}
		count := len(targets)
		if c.ports > 0 {
			count *= c.ports
		}
		if obs == "" {
			var sb strings.Builder
			sb.WriteString("t=")
			for j, t := range stamps {
				if j > 0 {
					sb.WriteByte(',')
				}
				sb.WriteString(fmt.Sprint(t - stamps[0]))
			}
			obs = sb.String()
		}
		slack := int64(300_000) // kernel stamps (CLOCK_REALTIME) against the limiter's monotonic clock
		if c.kind == "socks" {
			slack = 30_000_000 // user-level accept times
		}
		r.Count("cmd:" + strings.Join(c.sub, " "))
		r.Case(strings.Join(c.sub, " ")+"/"+rate, "limwire", strings.Join(c.sub, "_"), fmt.Sprint(n), fmt.Sprint(int64(w)), fmt.Sprint(count), fmt.Sprint(slack), obs)
	}

	// ---- the rate is the rate of the whole scan: (a) over the engine runs of a chunked port scan (more than 200 port
	// ranges: every run builds its own limiter), (b) on a tun device (vpn mode) ----
	tun, terr := newTun("tun0", "10.1.0.1/24")
	if terr == nil {
		defer tun.close()
	}
	extra := []string{"chunks", "tun", "lo"}
	if r.Tier == "thorough" {
		extra = []string{"chunks", "tun", "lo", "chunks", "tun", "tun", "chunks", "lo", "lo"}
	}
	for xi, kind := range extra {
		perMs := 2 + rng.Intn(3)
		n, w := 1000/perMs, time.Second
		rate := fmt.Sprintf("%d/s", n)
		var stamps []int64
		var args []string
		var res sxRun
		slack := int64(300_000)
		count := 0
		name := ""
		switch kind {
		case "chunks":
			target := labNet | uint32(32+rng.Intn(200))
			p0 := 2000 + rng.Intn(50000)
			count = 401 + rng.Intn(30)
			var ps []string
			for i := 0; i < count; i++ {
				ps = append(ps, fmt.Sprint(p0+i))
			}
			pf := filepath.Join(dir, fmt.Sprintf("rate-ports-%d.txt", xi))
			os.WriteFile(pf, []byte(strings.Join(ps, "\n")+"\n"), 0o644)
			args = []string{"tcp", "syn", "--json", "--exit-delay", "5ms", "--rate", rate, "--ports-file", pf, "-a", writeArpCache(dir, []uint32{target}), v4Text(target)}
			name = "tcp_syn_chunks"
			lab.settle(30 * time.Millisecond)
			lab.take()
			res = runSX(nil, 120*time.Second, args...)
			lab.settle(50 * time.Millisecond)
			frames, ts := lab.takeStamped()
			for j, f := range frames {
				if len(f) >= 48 && f[12] == 8 && f[13] == 0 && f[23] == 6 && f[47] == 0x02 && binary.BigEndian.Uint32(f[30:34]) == target {
					stamps = append(stamps, ts[j])
				}
			}
		case "lo":
			// a packet scan that leaves through the loopback interface (raw IP frames, like vpn mode): frames as
			// the packet socket of the harness sees them going out of lo
			sub := [][]string{{"tcp", "syn"}, {"udp"}, {"tcp", "fin"}}[xi%3]
			target := uint32(127<<24) | uint32(1+rng.Intn(200))<<8 | uint32(2+rng.Intn(200))
			p0 := 2000 + rng.Intn(50000)
			count = 30 + rng.Intn(30)
			args = append(append([]string{}, sub...), "--json", "--exit-delay", "30ms", "--rate", rate, "-p", fmt.Sprintf("%d-%d", p0, p0+count-1))
			if rng.Intn(2) == 0 {
				args = append(args, "-i", "lo")
			}
			args = append(args, v4Text(target))
			name = strings.Join(sub, "_") + "_lo"
			lc, lerr := newLoCap()
			if lerr != nil {
				continue
			}
			res = runSX(nil, 120*time.Second, args...)
			time.Sleep(50 * time.Millisecond)
			frames, ts := lc.finish()
			proto := map[string]byte{"tcp": 6, "udp": 17}[sub[0]]
			for j, f := range frames {
				if len(f) >= 24 && f[0] == 0x45 && f[9] == proto && binary.BigEndian.Uint32(f[16:20]) == target {
					if dp := int(binary.BigEndian.Uint16(f[22:24])); dp >= p0 && dp < p0+count && !(proto == 6 && len(f) >= 34 && f[33]&0x04 != 0) {
						stamps = append(stamps, ts[j])
					}
				}
			}
		case "tun":
			if terr != nil {
				continue
			}
			sub := [][]string{{"tcp", "syn"}, {"udp"}, {"icmp"}}[xi%3]
			base := tunNet | uint32(64+rng.Intn(2)*64)
			args = append(append([]string{}, sub...), "--json", "--exit-delay", "30ms", "--rate", rate)
			count = 64
			if sub[0] != "icmp" {
				p0 := 2000 + rng.Intn(50000)
				args = append(args, "-p", fmt.Sprintf("%d-%d", p0, p0+3))
				args = append(args, fmt.Sprintf("%s/28", v4Text(base)))
			} else {
				args = append(args, fmt.Sprintf("%s/26", v4Text(base)))
			}
			name = strings.Join(sub, "_") + "_tun"
			slack = 6_000_000 // user-level read times off the tun device
			tun.take()
			res = runSX(nil, 120*time.Second, args...)
			time.Sleep(50 * time.Millisecond)
			frames, ts := tun.takeStamped()
			for j, f := range frames {
				if len(f) >= 20 && f[0]>>4 == 4 && binary.BigEndian.Uint32(f[16:20])&^63 == base&^63 && binary.BigEndian.Uint32(f[12:16]) == tunNet|1 {
					proto := map[string]byte{"tcp": 6, "udp": 17, "icmp": 1}[sub[0]]
					if f[9] == proto && !(proto == 6 && len(f) >= 34 && f[33]&0x04 != 0) {
						stamps = append(stamps, ts[j])
					}
				}
			}
		}
		obs := ""
		if res.exit != 0 || res.timedOut {
			obs = "FAIL exit=" + fmt.Sprint(res.exit) + " " + hx.HexS(lastLine(res.stderr))
		} else {
			var sb strings.Builder
			sb.WriteString("t=")
			for j, t := range stamps {
				if j > 0 {
					sb.WriteByte(',')
				}
				sb.WriteString(fmt.Sprint(t - stamps[0]))
			}
			obs = sb.String()
		}
		r.Count("rate:" + kind)
		r.Case(name+"/"+rate, "limwire", name, fmt.Sprint(n), fmt.Sprint(int64(w)), fmt.Sprint(count), fmt.Sprint(slack), obs)
	}
}

// loCap: what goes OUT of the loopback interface (PACKET_OUTGOING copies only: every frame on lo is seen twice), with
// kernel timestamps
type loCap struct {
	fd     int
	mu     sync.Mutex
	frames [][]byte
	stamps []int64
	stop   chan struct{}
	done   chan struct{}
}

func newLoCap() (*loCap, error) {
	ifi, err := net.InterfaceByName("lo")
	if err != nil {
		return nil, err
	}
	fd, err := syscall.Socket(syscall.AF_PACKET, syscall.SOCK_RAW, int(htons(syscall.ETH_P_ALL)))
	if err != nil {
		return nil, err
	}
	if err := syscall.Bind(fd, &syscall.SockaddrLinklayer{Protocol: htons(syscall.ETH_P_ALL), Ifindex: ifi.Index}); err != nil {
		syscall.Close(fd)
		return nil, err
	}
	syscall.SetsockoptInt(fd, syscall.SOL_SOCKET, 33 /* SO_RCVBUFFORCE */, 64<<20)
	syscall.SetsockoptInt(fd, syscall.SOL_SOCKET, 35 /* SO_TIMESTAMPNS */, 1)
	tv := syscall.Timeval{Usec: 20000}
	syscall.SetsockoptTimeval(fd, syscall.SOL_SOCKET, syscall.SO_RCVTIMEO, &tv)
	c := &loCap{fd: fd, stop: make(chan struct{}), done: make(chan struct{})}
	go func() {
		defer close(c.done)
		buf := make([]byte, 1<<16)
		oob := make([]byte, 256)
		for {
			select {
			case <-c.stop:
				return
			default:
			}
			k, oobn, _, from, err := syscall.Recvmsg(c.fd, buf, oob, 0)
			if err != nil || k <= 0 {
				continue
			}
			if ll, ok := from.(*syscall.SockaddrLinklayer); !ok || ll.Pkttype != 4 /* PACKET_OUTGOING */ {
				continue
			}
			stamp := time.Now().UnixNano()
			if msgs, err := syscall.ParseSocketControlMessage(oob[:oobn]); err == nil {
				for _, m := range msgs {
					if m.Header.Level == syscall.SOL_SOCKET && m.Header.Type == 35 && len(m.Data) >= 16 {
						stamp = int64(binary.LittleEndian.Uint64(m.Data[0:8]))*1e9 + int64(binary.LittleEndian.Uint64(m.Data[8:16]))
					}
				}
			}
			f := make([]byte, k)
			copy(f, buf[:k])
			c.mu.Lock()
			c.frames = append(c.frames, f)
			c.stamps = append(c.stamps, stamp)
			c.mu.Unlock()
		}
	}()
	return c, nil
}

func (c *loCap) finish() ([][]byte, []int64) {
	close(c.stop)
	<-c.done
	syscall.Close(c.fd)
	return c.frames, c.stamps
}

// ---------------------------------------------------------------- e2edelay

func e2eDelayComponent(r *hx.Run) {
	if !enterNetlab() {
		return
	}
	r.Rule = "case = one run of the real sx binary (tcp syn / icmp / arp on one target) with --exit-delay D (or the default) in a private network namespace; a reply-shaped frame is injected on the wire at a chosen fraction of D after the last probe was seen; observed = (reply reported?, exit time relative to the last probe); verdict = exit >= D - tolerance and a reply injected well inside the delay is printed; non-trivial class = (command, D, injection point)"
	lab := newNetlab()
	defer lab.close()
	dir := e2eWorkDir()
	defer os.RemoveAll(dir)
	rng := r.Rng
	type dc struct {
		kind string
		sub  []string
	}
	all := []dc{{"pkt-tcp", []string{"tcp", "syn"}}, {"pkt-arp", []string{"arp"}}, {"pkt-icmp", []string{"icmp"}}}
	runs := 5
	if r.Tier == "thorough" {
		runs = 24
	}
	for i := 0; i < runs; i++ {
		c := all[i%len(all)]
		delayMs := []int{150, 300, 450}[rng.Intn(3)]
		useDefault := delayMs == 300 && rng.Intn(2) == 0
		injPct := []int{20, 50, 70, 160}[rng.Intn(4)]
		if i < 3 {
			injPct = 50
		}
		target := labNet | uint32(32+rng.Intn(200))
		port := 1000 + rng.Intn(50000)
		args := append(append([]string{}, c.sub...), "--json")
		if !useDefault {
			args = append(args, "--exit-delay", fmt.Sprintf("%dms", delayMs))
		}
		if c.kind == "pkt-tcp" {
			args = append(args, "-p", fmt.Sprint(port))
		}
		if c.kind != "pkt-arp" {
			args = append(args, "-a", writeArpCache(dir, []uint32{target}))
		}
		args = append(args, v4Text(target))
		lab.settle(30 * time.Millisecond)
		lab.take()

		type fin struct {
			res sxRun
			at  int64
		}
		finc := make(chan fin, 1)
		go func() {
			res := runSX(nil, 30*time.Second, args...)
			finc <- fin{res, time.Now().UnixNano()}
		}()
		// wait for the probe on the wire
		var probe []byte
		var tLast int64
		deadline := time.Now().Add(10 * time.Second)
		for probe == nil && time.Now().Before(deadline) {
			frames, ts := lab.peek()
			for j, f := range frames {
				// the probe for THIS target (the kernel itself sends ARP requests for earlier targets after
				// it has answered an injected reply with a RST)
				if v, ok := frameView(c.kind, f); ok && strings.HasPrefix(v, fmt.Sprintf("4:%d,", target)) {
					probe, tLast = f, ts[j]
				}
			}
			if probe == nil {
				time.Sleep(time.Millisecond)
			}
		}
		injected := int64(-1)
		if probe != nil {
			at := time.Unix(0, tLast).Add(time.Duration(delayMs*injPct/100) * time.Millisecond)
			time.Sleep(time.Until(at))
			select {
			case f := <-finc: // already gone
				finc <- f
			default:
				if err := lab.inject(replyTo(c.kind, probe)); err == nil {
					injected = time.Now().UnixNano() - tLast
				}
			}
		}
		f := <-finc
		obs := ""
		switch {
		case probe == nil:
			obs = "rep=0|noprobe=1"
		case f.res.timedOut || f.res.exit != 0:
			obs = fmt.Sprintf("rep=0|fail=%d", f.res.exit)
		default:
			rep := 0
			want := v4Text(binary.BigEndian.Uint32(probe[30:34]))
			if c.kind == "pkt-arp" {
				want = v4Text(binary.BigEndian.Uint32(probe[38:42]))
			}
			for _, line := range strings.Split(f.res.stdout, "\n") {
				if strings.Contains(line, "\""+want+"\"") {
					rep++
				}
			}
			injUs := int64(-1) // not injected (the process was already gone)
			if injected >= 0 {
				injUs = injected / 1000
			}
			obs = fmt.Sprintf("rep=%d|exit=%d;inj=%d", rep, (f.at-tLast)/1000, injUs)
		}
		r.Count("cmd:" + strings.Join(c.sub, " "))
		r.Case(fmt.Sprintf("%s/d%d/inj%d", strings.Join(c.sub, " "), delayMs, injPct), "e2edelay", strings.Join(c.sub, "_"), fmt.Sprint(delayMs), fmt.Sprint(injPct), obs)
	}

	// ---- scenarios: the same observation (reply reported?, end of the engine run relative to its last probe, injection
	// time) in runs where something else is going on ----
	tcpPort := func(f []byte) int {
		if len(f) >= 38 && f[12] == 8 && f[13] == 0 && f[23] == 6 && f[47] == 0x02 {
			return int(binary.BigEndian.Uint16(f[36:38]))
		}
		return -1
	}
	scen := []string{"chunks", "errors", "quiet", "trickle", "errtrickle"}
	if r.Tier == "thorough" {
		scen = append(scen, scen...)
		scen = append(scen, "chunks", "chunks", "trickle")
	}
	for si, sc := range scen {
		target := labNet | uint32(32+rng.Intn(200))
		p0 := 2000 + rng.Intn(50000)
		delayMs := 300
		injPct := 50
		var args []string
		nPorts := 1
		chunkOf := func(port int) int { return 0 }
		ansChunk := 0
		switch sc {
		case "chunks":
			// three engine runs (200 + 200 + n port ranges): the delay holds for each of them — the next run does not
			// start before it has passed, and an answer to a probe of THIS run arriving within it is reported
			nPorts = 401 + rng.Intn(40)
			var ps []string
			for i := 0; i < nPorts; i++ {
				ps = append(ps, fmt.Sprint(p0+i))
			}
			pf := filepath.Join(dir, fmt.Sprintf("ports-%d.txt", si))
			os.WriteFile(pf, []byte(strings.Join(ps, "\n")+"\n"), 0o644)
			// (each run takes longer than the delay itself: 200 probes at 600 per second)
			delayMs = 200
			args = []string{"tcp", "syn", "--json", "--exit-delay", "200ms", "--rate", "600/s", "--ports-file", pf, "-a", writeArpCache(dir, []uint32{target}), v4Text(target)}
			chunkOf = func(port int) int { return (port - p0) / 200 }
			ansChunk = (si + 1) % 2 // the second or the first run
		case "errors":
			// a scan that also reports errors (hosts without a MAC, no gateway entry in the cache): still the full delay
			delayMs = 450
			base := target &^ 3
			target = base + 1
			var sb strings.Builder
			fmt.Fprintf(&sb, "{\"ip\":\"%s\",\"mac\":\"%s\"}\n", v4Text(target), e2eMacText(labMAC(target)))
			cf := filepath.Join(dir, fmt.Sprintf("one-%d.cache", si))
			os.WriteFile(cf, []byte(sb.String()), 0o644)
			args = []string{"tcp", "syn", "--json", "--exit-delay", "450ms", "-p", fmt.Sprint(p0), "-a", cf, "--gwmac", "", fmt.Sprintf("%s/30", v4Text(base))}
			args = []string{"tcp", "syn", "--json", "--exit-delay", "450ms", "-p", fmt.Sprint(p0), "-a", cf, fmt.Sprintf("%s/30", v4Text(base))}
		case "quiet":
			// a long delay, a network that is silent for more than a second, then the answer
			delayMs, injPct = 2500, 68
			args = []string{"tcp", "syn", "--json", "--exit-delay", "2500ms", "-p", fmt.Sprint(p0), "-a", writeArpCache(dir, []uint32{target}), v4Text(target)}
		case "errtrickle":
			// frames that pass the filter but cannot be decoded keep trickling in (an error record each): the run still ends
			// when its delay is over
			args = []string{"tcp", "syn", "--json", "--exit-delay", "300ms", "-p", fmt.Sprint(p0), "-a", writeArpCache(dir, []uint32{target}), v4Text(target)}
		case "trickle":
			// answers keep trickling in (one every 90 ms for 4 s): the run still ends when ITS delay is over
			args = []string{"tcp", "syn", "--json", "--exit-delay", "300ms", "-p", fmt.Sprint(p0), "-a", writeArpCache(dir, []uint32{target}), v4Text(target)}
		}
		if sc == "errors" {
			ipCmd("route", "del", "default")
		}
		lab.settle(30 * time.Millisecond)
		lab.take()
		type fin struct {
			res sxRun
			at  int64
		}
		finc := make(chan fin, 1)
		go func() {
			res := runSX(nil, 40*time.Second, args...)
			finc <- fin{res, time.Now().UnixNano()}
		}()
		// the last probe of the engine run that gets the answer: all of its ports have been seen
		var probe []byte
		var tLast int64
		need := nPorts
		if sc == "chunks" {
			need = 200
		}
		deadline := time.Now().Add(15 * time.Second)
		for probe == nil && time.Now().Before(deadline) {
			frames, ts := lab.peek()
			seen := map[int]bool{}
			var last int64
			var cand []byte
			for j, f := range frames {
				if p := tcpPort(f); p >= 0 && binary.BigEndian.Uint32(f[30:34]) == target && chunkOf(p) == ansChunk {
					if !seen[p] {
						seen[p] = true
						last = ts[j]
					}
					if cand == nil || rng.Intn(20) == 0 {
						cand = f
					}
				}
			}
			if len(seen) >= need {
				probe, tLast = cand, last
			} else {
				time.Sleep(time.Millisecond)
			}
		}
		injected := int64(-1)
		stopTrickle := make(chan struct{})
		if probe != nil {
			at := time.Unix(0, tLast).Add(time.Duration(delayMs*injPct/100) * time.Millisecond)
			time.Sleep(time.Until(at))
			select {
			case f := <-finc:
				finc <- f
			default:
				if err := lab.inject(replyTo("pkt-tcp", probe)); err == nil {
					injected = time.Now().UnixNano() - tLast
				}
			}
			if sc == "trickle" || sc == "errtrickle" {
				fr := replyTo("pkt-tcp", probe)
				if sc == "errtrickle" {
					// a SYN+ACK from the right address and port whose TCP header says "data offset 4 words": accepted by the
					// filter (which looks at tcp[13]), refused by the decoder
					fr = append([]byte{}, fr...)
					fr[46] = 0x40
					binary.BigEndian.PutUint16(fr[50:52], 0)
					binary.BigEndian.PutUint16(fr[50:52], tcpChecksum(fr[26:30], fr[30:34], fr[34:54]))
				}
				go func() {
					for k := 0; k < 44; k++ {
						select {
						case <-stopTrickle:
							return
						case <-time.After(90 * time.Millisecond):
							lab.inject(fr)
						}
					}
				}()
			}
		}
		f := <-finc
		close(stopTrickle)
		if sc == "errors" {
			ipCmd("route", "add", "default", "via", "10.0.0.254", "dev", "veth0")
		}
		obs := ""
		switch {
		case probe == nil:
			obs = "rep=0|noprobe=1"
		case f.res.timedOut || f.res.exit != 0:
			obs = fmt.Sprintf("rep=0|fail=%d", f.res.exit)
		default:
			// the end of the engine run: the process's end, or (chunks) the first probe of the next run
			end := f.at
			if sc == "chunks" {
				frames, ts := lab.peek()
				for j, fr := range frames {
					if p := tcpPort(fr); p >= 0 && binary.BigEndian.Uint32(fr[30:34]) == target && chunkOf(p) == ansChunk+1 {
						end = ts[j]
						break
					}
				}
			}
			rep := 0
			wantPort := fmt.Sprintf("\"port\":%d", binary.BigEndian.Uint16(probe[36:38]))
			for _, line := range strings.Split(f.res.stdout, "\n") {
				if strings.Contains(line, "\""+v4Text(target)+"\"") && (strings.Contains(line, wantPort+",") || strings.Contains(line, wantPort+"}")) {
					rep++
				}
			}
			if sc == "trickle" && rep > 1 {
				rep = 1 // every trickled answer that came within the delay is a record of its own: the first one is the point
			}
			injUs := int64(-1)
			if injected >= 0 {
				injUs = injected / 1000
			}
			obs = fmt.Sprintf("rep=%d|exit=%d;inj=%d", rep, (end-tLast)/1000, injUs)
		}
		r.Count("scenario:" + sc)
		r.Case(fmt.Sprintf("tcp syn/%s/d%d", sc, delayMs), "e2edelay", "tcp_syn_"+sc, fmt.Sprint(delayMs), fmt.Sprint(injPct), obs)
	}
}
