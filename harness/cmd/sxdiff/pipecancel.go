package main

// pipeline, cancel mode — packet side of C12: the REAL pipeline (as in pipeline.go) is cancelled at the k-th
// observable event (k-th request consumed, k-th write started, k-th error consumed) for every k of short
// runs, optionally with a slow or a blocked writer, with an error consumer that only starts at the cancel,
// and with every error channel full.  Observed: no panic, the merged error channel is closed within 2 s of
// the cancel, whether `done` was closed, frames / errors at most once and byte-exact, and the full event
// trace with the cancel event `K`, which the driver runs through the model's step function.
//
// A send on a closed channel or a double close panics in a pipeline goroutine and kills the process, so
// these cases run in a child process (plumbing of engine.go); a dead child is re-run case by case.

import (
	"context"
	"fmt"
	"math/rand"
	"os"
	"strconv"
	"strings"
	"sync"
	"sync/atomic"
	"time"

	"github.com/v-byte-cpu/sx/pkg/packet"
	"github.com/v-byte-cpu/sx/pkg/scan"
	"sxverif/harness/internal/hx"
)

const pipeCancelBound = 2 * time.Second

type pipeCancelOpts struct {
	kind     byte // 'S' | 'W' | 'E'
	k        int
	blockw   bool // WritePacketData blocks until the error stream ended
	latecons bool // the error consumer starts at the cancel
	fullerr  bool // the error consumer starts 20 ms after the cancel, > 300 errors: every error channel is full
}

// opts = cancel=<S|W|E><k>[,blockw][,latecons][,fullerr][,slow=us]
func parsePipeCancel(opts string) (o pipeCancelOpts, ok bool) {
	if !strings.HasPrefix(opts, "cancel=") {
		return o, false
	}
	for i, p := range strings.Split(opts, ",") {
		switch {
		case i == 0:
			v := strings.TrimPrefix(p, "cancel=")
			if len(v) < 2 {
				return o, false
			}
			o.kind = v[0]
			o.k, _ = strconv.Atoi(v[1:])
		case p == "blockw":
			o.blockw = true
		case p == "latecons":
			o.latecons = true
		case p == "fullerr":
			o.fullerr = true
		}
	}
	return o, o.kind == 'S' || o.kind == 'W' || o.kind == 'E'
}

// hit (locked): one more trigger event.
func (t *pipeTrace) hit() {
	if t.ccnt++; t.ccnt == t.ck {
		t.fire()
	}
}

// fire (locked): cancel now; "K" directly follows the triggering token.
func (t *pipeTrace) fire() {
	select {
	case <-t.fired:
	default:
		t.cancel()
		t.toks = append(t.toks, "K")
		close(t.fired)
	}
}

func (t *pipeTrace) locked(f func()) {
	t.mu.Lock()
	f()
	t.mu.Unlock()
}

func (c *pipeCase) runCancel(n, rcvK int, reqs []*scan.Request, o pipeCancelOpts) (cl int) {
	ctx, cancel := context.WithCancel(context.Background())
	defer cancel()
	tmo := make(chan struct{})
	defer time.AfterFunc(pipeTimeout, func() { close(tmo) }).Stop()
	c.tr.ckind, c.tr.ck, c.tr.cancel, c.tr.fired = o.kind, o.k, cancel, make(chan struct{})
	if o.blockw {
		c.blockW = make(chan struct{})
	}

	src := scan.NewPacketSource(c, scan.NewPacketMultiGenerator(c, n))
	eng := scan.NewPacketEngine(src, packet.NewSender(c), c)
	done, errc := eng.Start(ctx, &scan.Range{})
	if o.kind == 'S' && o.k == 0 {
		c.tr.locked(c.tr.fire)
	}

	consDone := make(chan struct{})
	go func() { // error consumer
		if o.latecons || o.fullerr {
			select {
			case <-c.tr.fired:
			case <-tmo:
				return
			}
			if o.fullerr {
				time.Sleep(20 * time.Millisecond)
			}
		}
		for {
			select {
			case e, ok := <-errc:
				if !ok {
					c.tr.add("C")
					close(consDone)
					return
				}
				msg := e.Error()
				c.tr.rec(func() {
					c.mu.Lock()
					c.errs = append(c.errs, msg)
					c.mu.Unlock()
				}, "E"+msg)
			case <-tmo:
				return
			}
		}
	}()
	go func() { // request generator: ctx-guarded sends like the real ones; "S" = the request is offered
		for i, r := range reqs {
			if ctx.Err() != nil {
				return
			}
			c.tr.add("S")
			select {
			case c.reqc <- r:
				if o.fullerr && o.kind == 'S' && i+1 == o.k {
					time.Sleep(10 * time.Millisecond) // let the errors pile up in every channel
				}
				if o.kind == 'S' {
					c.tr.locked(c.tr.hit)
				}
			case <-ctx.Done():
				return
			case <-tmo:
				return
			}
		}
		c.tr.do(func() bool {
			if ctx.Err() != nil {
				return false
			}
			close(c.reqc)
			return true
		}, "X")
	}()
	go func() { // receiver (rcvc has room for 100)
		for k := 0; k < rcvK && k < 100; k++ {
			c.tr.add("R")
			c.rcvc <- fmt.Errorf("rcv:%d", k)
		}
	}()
	doneSeen := make(chan struct{})
	go func() {
		select {
		case <-done:
			c.tr.add("D")
			close(doneSeen)
		case <-tmo:
		}
	}()

	select {
	case <-c.tr.fired:
	case <-time.After(1500 * time.Millisecond): // the trigger was not reached: cancel where the run stands
		c.tr.locked(c.tr.fire)
	}
	select {
	case <-consDone:
		cl = 1
	case <-time.After(pipeCancelBound):
	}
	grace := 40 * time.Millisecond
	if c.blockW != nil {
		close(c.blockW)
		grace = 150 * time.Millisecond
	}
	select {
	case <-doneSeen:
	case <-time.After(grace):
	}
	return
}

// ---------------------------------------------------------------- jobs

type pipeScenario struct {
	n     int
	kinds string
	wfail []int
	rcvK  int
}

func (s pipeScenario) fields(opts string) []string {
	wf := make([]string, len(s.wfail))
	for i, v := range s.wfail {
		wf[i] = strconv.Itoa(v)
	}
	dash := func(x string) string {
		if x == "" {
			return "-"
		}
		return x
	}
	return []string{strconv.Itoa(s.n), dash(s.kinds), dash(strings.Join(wf, ",")), strconv.Itoa(s.rcvK), opts}
}

func pipeCancelJobs(rng *rand.Rand, tier string) [][]string {
	scs := []pipeScenario{{1, "o", nil, 0}, {1, "oo", nil, 0}, {2, "oro", []int{2}, 0}, {1, "rfo", []int{2}, 1},
		{3, "ofroo", []int{0}, 0}, {2, "rr", nil, 2}, {1, "ooo", []int{0, 1, 2}, 0}, {2, "", nil, 2}, {3, "fofo", []int{1}, 1},
		{1, "roor", []int{1}, 0}}
	extra := 12
	if tier == "thorough" {
		extra = 110
	}
	for i := 0; i < extra; i++ {
		sc := pipeScenario{n: 1 + rng.Intn(3), rcvK: rng.Intn(3)}
		l := 1 + rng.Intn(6)
		b := make([]byte, l)
		for j := range b {
			switch x := rng.Intn(10); {
			case x < 2:
				b[j] = 'r'
			case x < 4:
				b[j] = 'f'
			default:
				if b[j] = 'o'; rng.Intn(3) == 0 {
					sc.wfail = append(sc.wfail, j)
				}
			}
		}
		sc.kinds = string(b)
		scs = append(scs, sc)
	}
	var jobs [][]string
	for _, sc := range scs {
		nok := strings.Count(sc.kinds, "o")
		nerr := len(sc.kinds) - nok + len(sc.wfail) + sc.rcvK
		for _, mode := range []string{"", ",latecons", ",slow=300", ",blockw"} {
			for k := 0; k <= len(sc.kinds); k++ {
				jobs = append(jobs, sc.fields(fmt.Sprintf("cancel=S%d%s", k, mode)))
			}
			for k := 1; k <= nok; k++ {
				if mode == ",blockw" && k > 1 {
					break
				}
				jobs = append(jobs, sc.fields(fmt.Sprintf("cancel=W%d%s", k, mode)))
			}
			for k := 1; k <= nerr && (mode == "" || mode == ",slow=300"); k++ {
				jobs = append(jobs, sc.fields(fmt.Sprintf("cancel=E%d%s", k, mode)))
			}
		}
	}
	// every error channel full: more errors than merr + errc1 + merged + out hold
	full := func(n int, kinds string, wfailAll bool, rcvK, k int, mode string) {
		sc := pipeScenario{n: n, kinds: kinds, rcvK: rcvK}
		for i := range kinds {
			if wfailAll && kinds[i] == 'o' {
				sc.wfail = append(sc.wfail, i)
			}
		}
		jobs = append(jobs, sc.fields(fmt.Sprintf("cancel=S%d,fullerr%s", k, mode)))
	}
	// (N = 1 holds 100 + 100 + 100 + 100 items in out / merged / errc1 / merr and one in each goroutine)
	full(1, strings.Repeat("r", 460), false, 0, 402, "")
	full(1, strings.Repeat("o", 460), true, 100, 300, "")
	full(2, strings.Repeat("rfo", 200), true, 100, 500, "")
	full(1, strings.Repeat("ro", 230), true, 0, 150, ",blockw")
	full(4, strings.Repeat("f", 800), false, 100, 700, "")
	full(1, strings.Repeat("r", 300), false, 0, 205, "")
	return jobs
}

func pipeCancelClass(j []string) string {
	o, _ := parsePipeCancel(j[4])
	mode := "plain"
	switch {
	case o.fullerr:
		mode = "fullerr"
	case o.blockw:
		mode = "blockw"
	case o.latecons:
		mode = "latecons"
	case strings.Contains(j[4], "slow="):
		mode = "slow"
	}
	at := "mid"
	if o.k == 0 {
		at = "start"
	} else if o.kind == 'S' && o.k == len(strings.Trim(j[1], "-")) {
		at = "end"
	}
	return fmt.Sprintf("N%s/cancel/%c-%s/%s", j[0], o.kind, at, mode)
}

// pipeCancelRun: the cancel jobs run in child processes; returns the observed output per job index.
// A child that dies (a panic in a pipeline goroutine cannot be recovered) leaves the cases it was running as
// suspects: each is re-run alone up to three times; one that kills its child again is reported as a panic with
// the head of the goroutine dump; if none does, the first suspect carries the (then unattributed) panic. The
// cases the dead child had not started go to the next child.
func pipeCancelRun(r *hx.Run, jobs [][]string) map[int]string {
	work := os.Getenv("VERIF_WORK")
	if work == "" {
		work = os.TempDir()
	}
	outPath := fmt.Sprintf("%s/pipeline.child.%d.out", work, os.Getpid())
	defer os.Remove(outPath)
	clean := func(d string) string {
		d = strings.Map(func(c rune) rune {
			if c == '\t' || c == '\n' || c == ';' || c == ',' || c == '=' {
				return '_'
			}
			return c
		}, strings.Join(strings.Fields(d), "_"))
		if len(d) > 200 {
			d = d[:200]
		}
		return d
	}
	panicObs := func(d string) string { return "w=-;e=PANIC:" + clean(d) + ";d=0;c=0;s=0;t=-" }
	got := map[int]string{}
	pending := make([]int, len(jobs))
	for i := range pending {
		pending[i] = i
	}
	for deaths := 0; len(pending) > 0 && deaths < 4; {
		idx := make([]string, len(pending))
		for k, i := range pending {
			idx[k] = strconv.Itoa(i)
		}
		dump := runChild("pipeline", r, outPath, strings.Join(idx, ","), got)
		var suspects, rest []int
		for _, i := range pending {
			switch obs, ok := got[i]; {
			case !ok:
				rest = append(rest, i)
			case obs == "START":
				delete(got, i)
				suspects = append(suspects, i)
			}
		}
		if len(suspects) == 0 && len(rest) == len(pending) { // the child did not even start
			r.Notes = append(r.Notes, "pipeline cancel child could not run: "+clean(dump))
			break
		}
		if len(suspects) > 0 {
			deaths++
			r.Notes = append(r.Notes, fmt.Sprintf("pipeline cancel child died with %d cases running; goroutine dump head: %s", len(suspects), clean(dump)))
			attributed := false
			for _, i := range suspects {
				for try := 0; try < 3; try++ {
					d := runChild("pipeline", r, outPath, strconv.Itoa(i), got)
					if obs, ok := got[i]; !ok || obs == "START" {
						got[i] = panicObs(d)
						attributed = true
						break
					}
				}
			}
			if !attributed {
				got[suspects[0]] = panicObs("unattributed_one_of_" + strconv.Itoa(len(suspects)) + "_running_cases_" + dump)
			}
		}
		pending = rest
	}
	return got
}

func pipeCancelChild(jobs [][]string, outPath, only string) {
	f, err := os.OpenFile(outPath, os.O_CREATE|os.O_WRONLY|os.O_APPEND, 0o644)
	if err != nil {
		panic(err)
	}
	defer f.Close()
	var fmu sync.Mutex
	emit := func(i int, obs string) {
		fmu.Lock()
		fmt.Fprintf(f, "%d\t%s\n", i, obs)
		fmu.Unlock()
	}
	var todo []int
	for _, x := range strings.Split(only, ",") {
		if i, err := strconv.Atoi(x); err == nil && i >= 0 && i < len(jobs) {
			todo = append(todo, i)
		}
	}
	var wg sync.WaitGroup
	var next int64 = -1
	for w := 0; w < 8; w++ {
		wg.Add(1)
		go func() {
			defer wg.Done()
			for {
				k := int(atomic.AddInt64(&next, 1))
				if k >= len(todo) {
					return
				}
				emit(todo[k], "START")
				emit(todo[k], runPipe(jobs[todo[k]]))
			}
		}()
	}
	wg.Wait()
}
