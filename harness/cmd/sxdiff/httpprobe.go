package main

// httpprobe — correspondence harness for C10 (M-probe, HTTP half): the REAL elastic.Scanner and docker.Scanner
// against scripted loopback HTTP / HTTPS servers.
//
// A case is (kind, scheme, ip, timeoutMs, script).  The script says, per request the scanner can make
// (elastic: "/" and "/_aliases"; docker: "/_ping", "…/info", "…/version"), what the endpoint does:
//
//   exchange := hop ('>' hop)*            every hop but the last is a redirect; hop i+1 is ANOTHER endpoint
//   hop      := refused | tlsfail | close | rst | junk | hstall | phstall
//             | resp:<status>:<delayPct>:<class>:<id>:<ending>:<framing>:<variant>
//             | redir:<status>:<delayPct>:<class>:<id>:<ending>:<framing>:<variant>
//
// class   = body class (object objectEmpty objectWs objectTrailing objectIllTyped null nullTail array scalar truncated
//           garbage empty); id = number embedded in a served object (so that the record can be traced to
//           the body it came from); ending = eof | stall | endless (what the stream does after the bytes of
//           the class); framing / variant = textual variation the model must be invariant to.
//
// Observed (canonical): `err` or `rec;proto=…;host=…;info=…;idx=…` (docker: `ver=`), then `;ms=<elapsed>`.
// The target's port is dynamic and is rendered as `P`.

import (
	"bufio"
	"context"
	"crypto/ecdsa"
	"crypto/elliptic"
	crand "crypto/rand"
	"crypto/tls"
	"crypto/x509"
	"crypto/x509/pkix"
	"fmt"
	"math/big"
	"net"
	"net/http"
	"reflect"
	"strconv"
	"strings"
	"sync"
	"sync/atomic"
	"time"

	"github.com/docker/docker/api/types"
	"github.com/v-byte-cpu/sx/pkg/scan"
	"github.com/v-byte-cpu/sx/pkg/scan/docker"
	"github.com/v-byte-cpu/sx/pkg/scan/elastic"
	"sxverif/harness/internal/hx"
)

func init() {
	components["httpprobe"] = httpProbeComponent
	replayers["httpprobe"] = func(f []string) string {
		t, _ := strconv.Atoi(f[4])
		return runHTTPProbe(f[1], f[2], f[3], t, f[5])
	}
}

// ------------------------------------------------------------------ script

type hpStream struct {
	cls     string
	id      int
	ending  string
	framing int
	variant int
}

type hpHop struct {
	kind   string // refused tlsfail close rst junk hstall phstall resp redir
	status int
	delay  int // percent of the timeout
	body   hpStream
}

func (h hpHop) String() string {
	if h.kind != "resp" && h.kind != "redir" {
		return h.kind
	}
	return fmt.Sprintf("%s:%d:%d:%s:%d:%s:%d:%d", h.kind, h.status, h.delay, h.body.cls, h.body.id, h.body.ending,
		h.body.framing, h.body.variant)
}

func hpExchangeString(x []hpHop) string {
	var p []string
	for _, h := range x {
		p = append(p, h.String())
	}
	return strings.Join(p, ">")
}

func hpParseExchange(s string) []hpHop {
	var out []hpHop
	for _, hs := range strings.Split(s, ">") {
		f := strings.Split(hs, ":")
		h := hpHop{kind: f[0]}
		if len(f) == 8 {
			h.status, _ = strconv.Atoi(f[1])
			h.delay, _ = strconv.Atoi(f[2])
			h.body.cls = f[3]
			h.body.id, _ = strconv.Atoi(f[4])
			h.body.ending = f[5]
			h.body.framing, _ = strconv.Atoi(f[6])
			h.body.variant, _ = strconv.Atoi(f[7])
		}
		out = append(out, h)
	}
	return out
}

// the bytes of a body class.  `kind` selects the field that carries the id.
func hpBody(kind, role string, s hpStream) string {
	var obj string
	switch {
	case kind == "elastic":
		obj = fmt.Sprintf(`{"cluster_name":"c%d","id":%d,"version":{"number":"7.10.0"}}`, s.id, s.id)
	case role == "version":
		obj = fmt.Sprintf(`{"Version":"%d","ApiVersion":"1.41","Os":"linux"}`, s.id)
	default:
		obj = fmt.Sprintf(`{"ID":"%d","Containers":3,"Name":"d%d","OperatingSystem":"x"}`, s.id, s.id)
	}
	pick := func(v []string) string { return v[s.variant%len(v)] }
	switch s.cls {
	case "object":
		return pick([]string{obj, " " + obj, "\n\t" + obj})
	case "objectEmpty":
		return pick([]string{"{}", " {}", "{ }", "{\n}"})
	case "objectWs":
		return obj + pick([]string{"\n", " ", "\r\n", " \t \n"})
	case "objectTrailing":
		return obj + pick([]string{" x", "{}", "}", "null", ",", "\n" + obj, "]", " 1", "<html>"})
	case "objectIllTyped":
		if kind == "elastic" {
			return fmt.Sprintf(`{"id":%d,"ID":5}`, s.id)
		}
		if role == "version" {
			return pick([]string{`{"Version":5}`, `{"Components":3}`})
		}
		return pick([]string{`{"ID":5}`, `{"Containers":"x"}`, `{"ID":"1","Plugins":7}`, `{"id":1}`})
	case "null":
		return pick([]string{"null", " null", "\nnull"})
	case "nullTail":
		return "null" + pick([]string{"\n", " ", " x", "{}", ",", "\n" + obj})
	case "array":
		return pick([]string{"[]", "[1]", "[" + obj + "]", " []", "[[]]"})
	case "scalar":
		return pick([]string{"1", `"s"`, "true", "false", "-1.5e3", "0", `"{}"`})
	case "truncated":
		return pick([]string{"{", `{"id":`, `{"id":1`, `{"id":1,`, `{"a":"xx`, "nul", obj[:len(obj)-1], `{"a":{"b":1}`, `{"a":[1,2`})
	case "garbage":
		return pick([]string{"<html><body>x</body></html>", `{'a':1}`, `{"a" 1}`, "\x00\x01", `{"id":1,}`, "nulL", "}", "]", "{]",
			"HTTP/1.1 200 OK", `{"a":tru }`, `{1:2}`, "\xef\xbb\xbf" + obj})
	case "empty":
		return pick([]string{"", " ", "\n\n", "\t"})
	}
	panic("bad body class " + s.cls)
}

// ------------------------------------------------------------------ scripted endpoint

var hpCert = func() tls.Certificate {
	key, err := ecdsa.GenerateKey(elliptic.P256(), crand.Reader)
	if err != nil {
		panic(err)
	}
	tmpl := &x509.Certificate{SerialNumber: big.NewInt(1), Subject: pkix.Name{CommonName: "sxverif"},
		NotBefore: time.Now().Add(-time.Hour), NotAfter: time.Now().Add(24 * time.Hour),
		KeyUsage: x509.KeyUsageDigitalSignature, ExtKeyUsage: []x509.ExtKeyUsage{x509.ExtKeyUsageServerAuth},
		IPAddresses: []net.IP{net.IPv4(127, 0, 0, 1)}}
	der, err := x509.CreateCertificate(crand.Reader, tmpl, tmpl, &key.PublicKey, key)
	if err != nil {
		panic(err)
	}
	return tls.Certificate{Certificate: [][]byte{der}, PrivateKey: key}
}()

type hpEndpoint struct {
	ln      net.Listener
	tls     bool
	kind    string
	timeout time.Duration
	done    chan struct{}
	// what to do for a request: path -> (hop, location of the next endpoint for a redirect)
	route func(path string) (hop hpHop, role string, location string, ok bool)
	wg    sync.WaitGroup
	// set when the endpoint itself was late by more than a fifth of the timeout (accept -> request read,
	// or nominal delay -> headers written): the machine was busy, the case is run again
	disturbed *int32
}

func (e *hpEndpoint) late(since time.Time, nominal time.Duration) {
	if time.Since(since) > nominal+e.timeout/5 {
		atomic.StoreInt32(e.disturbed, 1)
	}
}

func (e *hpEndpoint) addr() *net.TCPAddr { return e.ln.Addr().(*net.TCPAddr) }

func (e *hpEndpoint) wait() {
	// a stall lasts until the probe has returned; the cap turns a probe without any timeout into a late return
	select {
	case <-e.done:
	case <-time.After(2*e.timeout + 1500*time.Millisecond):
	}
}

func (e *hpEndpoint) serve() {
	for {
		c, err := e.ln.Accept()
		if err != nil {
			return
		}
		e.wg.Add(1)
		go func() {
			defer e.wg.Done()
			e.handle(c)
		}()
	}
}

func (e *hpEndpoint) handle(raw net.Conn) {
	defer raw.Close()
	accepted := time.Now()
	var c net.Conn = raw
	if e.tls {
		tc := tls.Server(raw, &tls.Config{Certificates: []tls.Certificate{hpCert}})
		raw.SetDeadline(time.Now().Add(2*e.timeout + 2*time.Second))
		if err := tc.Handshake(); err != nil {
			return
		}
		c = tc
	}
	raw.SetDeadline(time.Now().Add(2*e.timeout + 2*time.Second))
	req, err := http.ReadRequest(bufio.NewReader(c))
	if err != nil {
		return
	}
	e.late(accepted, 0)
	gotRequest := time.Now()
	hop, role, location, ok := e.route(req.URL.Path)
	if !ok {
		fmt.Fprintf(c, "HTTP/1.1 418 I'm a teapot\r\nContent-Length: 0\r\nConnection: close\r\n\r\n")
		return
	}
	switch hop.kind {
	case "close":
		return
	case "rst":
		if tc, ok := raw.(*net.TCPConn); ok {
			tc.SetLinger(0)
		}
		return
	case "junk":
		fmt.Fprintf(c, "SSH-2.0-OpenSSH_8.9p1 Ubuntu-3\r\n")
		return
	case "hstall":
		e.wait()
		return
	case "phstall":
		fmt.Fprintf(c, "HTTP/1.1 200 OK\r\nContent-Type: applicat")
		e.wait()
		return
	}
	// resp / redir
	if hop.delay > 0 {
		select {
		case <-time.After(e.timeout * time.Duration(hop.delay) / 100):
		case <-e.done:
			return
		}
	}
	w := bufio.NewWriter(c)
	fmt.Fprintf(w, "HTTP/1.1 %d %s\r\n", hop.status, http.StatusText(hop.status))
	if hop.kind == "redir" && location != "" {
		fmt.Fprintf(w, "Location: %s\r\n", location)
	}
	if role == "ping" {
		switch hop.body.variant % 3 {
		case 0:
			fmt.Fprintf(w, "API-Version: 1.41\r\nOSType: linux\r\n")
		case 1:
			fmt.Fprintf(w, "API-Version: 1.24\r\n")
		}
	}
	fmt.Fprintf(w, "Content-Type: application/json\r\nConnection: close\r\n")
	bodyless := req.Method == "HEAD" || hop.status == 204 || hop.status == 304 || hop.status < 200
	if bodyless {
		if hop.status != 204 && hop.status != 304 && hop.status >= 200 {
			fmt.Fprintf(w, "Content-Length: 0\r\n")
		}
		fmt.Fprintf(w, "\r\n")
		w.Flush()
		return
	}
	body := hpBody(e.kind, role, hop.body)
	chunked := false
	switch hop.body.ending {
	case "eof":
		switch hop.body.framing % 3 {
		case 0:
			fmt.Fprintf(w, "Content-Length: %d\r\n", len(body))
		case 1:
			fmt.Fprintf(w, "Transfer-Encoding: chunked\r\n")
			chunked = true
		}
	case "stall":
		switch hop.body.framing % 3 {
		case 0:
			fmt.Fprintf(w, "Content-Length: %d\r\n", len(body)+1000)
		case 1:
			fmt.Fprintf(w, "Transfer-Encoding: chunked\r\n")
			chunked = true
		}
	case "endless":
		if hop.body.framing%2 == 1 {
			fmt.Fprintf(w, "Transfer-Encoding: chunked\r\n")
			chunked = true
		}
	}
	fmt.Fprintf(w, "\r\n")
	w.Flush()
	e.late(gotRequest, e.timeout*time.Duration(hop.delay)/100)
	write := func(s string) error {
		if s == "" {
			return nil
		}
		if chunked {
			fmt.Fprintf(w, "%x\r\n%s\r\n", len(s), s)
		} else {
			w.WriteString(s)
		}
		return w.Flush()
	}
	// the class bytes in one or two pieces
	if hop.body.framing%2 == 0 || len(body) < 2 {
		write(body)
	} else {
		write(body[:len(body)/2])
		write(body[len(body)/2:])
	}
	w.Flush()
	switch hop.body.ending {
	case "eof":
		if chunked {
			fmt.Fprintf(w, "0\r\n\r\n")
			w.Flush()
		}
	case "stall":
		e.wait()
	case "endless":
		filler := strings.Repeat("x", 8192)
		if hop.body.variant%2 == 1 {
			filler = strings.Repeat(" ", 8192)
		}
		cap := time.After(2*e.timeout + 1500*time.Millisecond)
		for {
			if write(filler) != nil {
				return
			}
			select {
			case <-e.done:
				return
			case <-cap:
				return
			case <-time.After(100 * time.Microsecond): // ~80 MB/s at most: do not starve the other cases
			}
		}
	}
}

func hpListen(ip string) net.Listener {
	ln, err := net.Listen("tcp4", ip+":0")
	if err != nil {
		panic(err)
	}
	return ln
}

// ------------------------------------------------------------------ one case

func hpRole(kind, path string) (string, bool) {
	if kind == "elastic" {
		switch path {
		case "/":
			return "info", true
		case "/_aliases":
			return "second", true
		}
		return "", false
	}
	switch {
	case strings.HasSuffix(path, "/_ping"):
		return "ping", true
	case strings.HasSuffix(path, "/info"):
		return "info", true
	case strings.HasSuffix(path, "/version"):
		return "version", true
	}
	return "", false
}

// scheduling watchdog: a goroutine that sleeps 5 ms at a time and records every wake-up that came more than
// 60 ms late.  A case that overlaps such a gap ran while the process (or the machine) was not scheduling
// goroutines in time; it is run again.  The criterion does not look at the outcome of the case.
var hpWatch struct {
	once sync.Once
	mu   sync.Mutex
	gaps [][2]time.Time
}

func hpWatchdog() {
	hpWatch.once.Do(func() {
		go func() {
			last := time.Now()
			for {
				time.Sleep(5 * time.Millisecond)
				now := time.Now()
				if now.Sub(last) > 55*time.Millisecond {
					hpWatch.mu.Lock()
					hpWatch.gaps = append(hpWatch.gaps, [2]time.Time{last, now})
					hpWatch.mu.Unlock()
				}
				last = now
			}
		}()
	})
}

func hpGapDuring(t0, t1 time.Time) bool {
	hpWatch.mu.Lock()
	defer hpWatch.mu.Unlock()
	for _, g := range hpWatch.gaps {
		if g[0].Before(t1) && g[1].After(t0) {
			return true
		}
	}
	return false
}

// cases run under the read lock; a duration over the property's bound is measured again with the write lock
// held (nothing else running), at most twice, and at most hpMaxRemeasure times per run: a deterministic
// overrun (no deadline, a longer deadline) persists and is reported, one caused by a busy machine does not
var hpExclusive sync.RWMutex
var hpRemeasured int32

const hpMaxRemeasure = 12

func hpElapsed(out string) int {
	i := strings.LastIndex(out, ";ms=")
	if i < 0 {
		return 0
	}
	ms, _ := strconv.Atoi(out[i+4:])
	return ms
}

func runHTTPProbe(kind, scheme, ip string, timeoutMs int, script string) string {
	hpWatchdog()
	var out string
	hpExclusive.RLock()
	for attempt := 0; attempt < 5; attempt++ {
		var disturbed bool
		t0 := time.Now()
		out, disturbed = runHTTPProbeOnce(kind, scheme, ip, timeoutMs, script)
		time.Sleep(6 * time.Millisecond) // let the watchdog see a gap that is just ending
		if !disturbed && !hpGapDuring(t0, time.Now()) {
			break
		}
		time.Sleep(time.Duration(50*(attempt+1)) * time.Millisecond)
	}
	hpExclusive.RUnlock()
	limit := timeoutMs + 150 // docker: one deadline per probe
	if kind == "elastic" {
		limit = 2*timeoutMs + 150
		if strings.HasPrefix(out, "err") {
			limit = timeoutMs + 150 // only the first request was made
		}
	}
	for k := 0; k < 2 && hpElapsed(out) > limit; k++ {
		if atomic.AddInt32(&hpRemeasured, 1) > hpMaxRemeasure {
			break
		}
		hpExclusive.Lock()
		out, _ = runHTTPProbeOnce(kind, scheme, ip, timeoutMs, script)
		hpExclusive.Unlock()
	}
	return out
}

func runHTTPProbeOnce(kind, scheme, ip string, timeoutMs int, script string) (string, bool) {
	var disturbed int32
	timeout := time.Duration(timeoutMs) * time.Millisecond
	parts := strings.Split(script, "|")
	roles := []string{"info", "second"}
	if kind == "docker" {
		roles = []string{"ping", "info", "version"}
	}
	if len(parts) != len(roles) {
		return "bad-script", false
	}
	exch := map[string][]hpHop{}
	for i, r := range roles {
		exch[r] = hpParseExchange(parts[i])
	}
	done := make(chan struct{})
	var eps []*hpEndpoint
	newEndpoint := func(ip string, useTLS bool) *hpEndpoint {
		e := &hpEndpoint{ln: hpListen(ip), tls: useTLS, kind: kind, timeout: timeout, done: done, disturbed: &disturbed}
		eps = append(eps, e)
		return e
	}
	defer func() {
		close(done)
		for _, e := range eps {
			e.ln.Close()
		}
		for _, e := range eps {
			e.wg.Wait()
		}
	}()

	// listener-level behaviour of the target is taken from the first hop of the primary exchange
	first := exch["info"][0].kind
	if kind == "docker" {
		first = exch["ping"][0].kind
	}
	var port int
	switch first {
	case "refused":
		ln := hpListen(ip)
		port = ln.Addr().(*net.TCPAddr).Port
		ln.Close()
	case "tlsfail":
		// the endpoint speaks the other protocol
		e := newEndpoint(ip, scheme != "https")
		e.route = func(string) (hpHop, string, string, bool) { return hpHop{}, "", "", false }
		port = e.addr().Port
		go e.serve()
	default:
		target := newEndpoint(ip, scheme == "https")
		port = target.addr().Port
		// redirect chains: one further endpoint per later hop, per role
		type chainEp struct {
			ep  *hpEndpoint
			hop hpHop
		}
		next := map[string]string{} // role -> location of hop 1
		for _, r := range roles {
			hops := exch[r]
			loc := ""
			// build from the end
			for i := len(hops) - 1; i >= 1; i-- {
				h := hops[i]
				useTLS := scheme == "https"
				if h.body.variant%4 == 3 {
					useTLS = !useTLS // a redirect may change the scheme
				}
				ce := newEndpoint("127.0.0.1", useTLS)
				nextLoc := loc
				role := r
				ce.route = func(path string) (hpHop, string, string, bool) { return h, role, nextLoc, true }
				go ce.serve()
				sch := "http"
				if useTLS {
					sch = "https"
				}
				loc = fmt.Sprintf("%s://127.0.0.1:%d/moved", sch, ce.addr().Port)
			}
			next[r] = loc
		}
		target.route = func(path string) (hpHop, string, string, bool) {
			r, ok := hpRole(kind, path)
			if !ok {
				return hpHop{}, "", "", false
			}
			return exch[r][0], r, next[r], true
		}
		go target.serve()
	}

	req := &scan.Request{DstIP: net.ParseIP(ip).To4(), DstPort: uint16(port)}
	var res scan.Result
	var err error
	var panicked bool
	var pmsg string
	t0 := time.Now()
	panicked, pmsg = hx.Recover(func() {
		if kind == "elastic" {
			res, err = elastic.NewScanner(scheme, elastic.WithDataTimeout(timeout)).Scan(context.Background(), req)
		} else {
			res, err = docker.NewScanner(scheme, docker.WithDataTimeout(timeout)).Scan(context.Background(), req)
		}
	})
	ms := int(time.Since(t0) / time.Millisecond)
	var out string
	switch {
	case panicked:
		out = "panic:" + strings.Map(func(r rune) rune {
			if r == '\t' || r == '\n' || r == ';' {
				return ' '
			}
			return r
		}, pmsg)
	case err != nil && (res == nil || reflect.ValueOf(res).IsNil()):
		out = "err"
	case err != nil:
		out = "err+" + hpRender(kind, res, port)
	case res == nil || reflect.ValueOf(res).IsNil():
		out = "none"
	default:
		out = hpRender(kind, res, port)
	}
	return fmt.Sprintf("%s;ms=%d", out, ms), atomic.LoadInt32(&disturbed) != 0
}

func hpHost(s string, port int) string {
	suffix := ":" + strconv.Itoa(port)
	if strings.HasSuffix(s, suffix) {
		return strings.TrimSuffix(s, suffix) + ":P"
	}
	return strings.Map(func(r rune) rune {
		if r == '\t' || r == '\n' || r == ';' {
			return '?'
		}
		return r
	}, s)
}

func hpMapField(m map[string]interface{}) string {
	if m == nil {
		return "null"
	}
	if v, ok := m["id"].(float64); ok && v == float64(int(v)) {
		return "obj:" + strconv.Itoa(int(v))
	}
	if len(m) == 0 {
		return "obj:empty"
	}
	return "obj:?"
}

func hpRender(kind string, res scan.Result, port int) string {
	switch r := res.(type) {
	case *elastic.ScanResult:
		if r.ScanType != "elastic" {
			return "rec-badtype:" + r.ScanType
		}
		return fmt.Sprintf("rec;proto=%s;host=%s;info=%s;idx=%s", r.Proto, hpHost(r.Host, port), hpMapField(r.Info), hpMapField(r.Indexes))
	case *docker.ScanResult:
		if r.ScanType != "docker" {
			return "rec-badtype:" + r.ScanType
		}
		info := "obj:?"
		if reflect.DeepEqual(r.Info, types.Info{}) {
			info = "zero"
		} else if _, e := strconv.Atoi(r.Info.ID); e == nil {
			info = "obj:" + r.Info.ID
		}
		ver := "obj:?"
		if reflect.DeepEqual(r.Version, types.Version{}) {
			ver = "zero"
		} else if _, e := strconv.Atoi(r.Version.Version); e == nil {
			ver = "obj:" + r.Version.Version
		}
		return fmt.Sprintf("rec;proto=%s;host=%s;info=%s;ver=%s", r.Proto, hpHost(r.Host, port), info, ver)
	}
	return fmt.Sprintf("rec-unknown:%T", res)
}

// ------------------------------------------------------------------ generator

var hpClasses = []string{"object", "objectEmpty", "objectWs", "objectTrailing", "objectIllTyped", "null", "nullTail", "array", "scalar",
	"truncated", "garbage", "empty"}
var hpEndings = []string{"eof", "stall", "endless"}
var hpStatuses = []int{200, 200, 200, 201, 204, 301, 304, 400, 401, 404, 500, 503}
var hpRedirStatuses = []int{301, 302, 303, 307, 308}

type hpJob struct {
	kind, scheme, ip string
	timeout          int
	script           string
	class            string
}

func httpProbeComponent(r *hx.Run) {
	r.Rule = "case = (scanner elastic|docker, scheme http|https, loopback address, timeout, per-request endpoint script); scripts = exhaustive product body class (12) x stream ending (eof|stall|endless) x scheme for the primary request at status 200, x 12 status codes for the eof ending, connection-level failures (refused, protocol mismatch, close, RST, non-HTTP bytes, stalled / partial headers), every secondary-request behaviour against a reporting primary, delayed answers (60% of the timeout, once and twice: per-request vs per-probe budget), redirects to a second endpoint (1-3 hops, scheme change), plus random combinations; real Scanner.Scan in-process, duration measured; non-trivial class = (scanner, scheme, primary hop class, secondary hop class)"
	T, Tdelay := 1000, 1500
	idc := 10
	nextID := func() int { idc++; return idc }
	var jobs []hpJob
	ipOf := func() string { return fmt.Sprintf("127.0.%d.%d", r.Rng.Intn(200), 1+r.Rng.Intn(250)) }
	stream := func(cls, ending string) hpStream {
		return hpStream{cls: cls, id: nextID(), ending: ending, framing: r.Rng.Intn(6), variant: r.Rng.Intn(36)}
	}
	resp := func(status, delay int, cls, ending string) hpHop {
		return hpHop{kind: "resp", status: status, delay: delay, body: stream(cls, ending)}
	}
	okResp := func() hpHop { return resp(200, 0, "objectWs", "eof") }
	pingOK := func() hpHop { return resp(200, 0, "empty", "eof") }
	hopClass := func(x []hpHop) string {
		var p []string
		for _, h := range x {
			if h.kind == "resp" || h.kind == "redir" {
				d := ""
				if h.delay > 0 {
					d = "+d"
				}
				p = append(p, fmt.Sprintf("%s%d%s/%s/%s", h.kind[:2], h.status, d, h.body.cls, h.body.ending))
			} else {
				p = append(p, h.kind)
			}
		}
		return strings.Join(p, ">")
	}
	add := func(kind, scheme string, xs ...[]hpHop) {
		var parts, cls []string
		for _, x := range xs {
			parts = append(parts, hpExchangeString(x))
			cls = append(cls, hopClass(x))
		}
		t := T
		for _, x := range xs {
			for _, h := range x {
				if h.delay > 0 {
					t = Tdelay
				}
			}
		}
		jobs = append(jobs, hpJob{kind, scheme, ipOf(), t, strings.Join(parts, "|"), kind + "/" + scheme + "/" + strings.Join(cls, "|")})
	}
	one := func(h hpHop) []hpHop { return []hpHop{h} }
	// add a case for both scanners with `prim` as the primary exchange and `sec` as the secondary
	both := func(scheme string, prim, sec func() []hpHop) {
		add("elastic", scheme, prim(), sec())
		add("docker", scheme, one(pingOK()), prim(), sec())
	}
	okSec := func() []hpHop { return one(okResp()) }
	connHops := []string{"close", "rst", "junk", "hstall", "phstall"}
	reps := 1
	if r.Tier == "thorough" {
		reps = 6
	}
	for rep := 0; rep < reps; rep++ {
		for _, scheme := range []string{"http", "https"} {
			// 1. primary: class x ending at 200; class x status at eof
			for _, cls := range hpClasses {
				for _, end := range hpEndings {
					cls, end := cls, end
					both(scheme, func() []hpHop { return one(resp(200, 0, cls, end)) }, okSec)
				}
				for _, st := range hpStatuses[3:] {
					cls, st := cls, st
					both(scheme, func() []hpHop { return one(resp(st, 0, cls, "eof")) }, okSec)
				}
			}
			// error statuses with bodies that do not end (docker reads the error body)
			for _, st := range []int{400, 404, 500} {
				for _, end := range []string{"stall", "endless"} {
					st, end := st, end
					both(scheme, func() []hpHop { return one(resp(st, 0, "objectWs", end)) }, okSec)
				}
			}
			// 2. connection-level failures of the primary
			for _, k := range connHops {
				k := k
				both(scheme, func() []hpHop { return one(hpHop{kind: k}) }, okSec)
			}
			for _, k := range []string{"refused", "tlsfail"} {
				add("elastic", scheme, one(hpHop{kind: k}), one(hpHop{kind: k}))
				add("docker", scheme, one(hpHop{kind: k}), one(hpHop{kind: k}), one(hpHop{kind: k}))
			}
			// 3. secondary: everything against a reporting primary
			prim := func() []hpHop { return one(okResp()) }
			for _, cls := range hpClasses {
				for _, end := range hpEndings {
					cls, end := cls, end
					both(scheme, prim, func() []hpHop { return one(resp(200, 0, cls, end)) })
				}
				cls := cls
				st := hpStatuses[r.Rng.Intn(len(hpStatuses))]
				both(scheme, prim, func() []hpHop { return one(resp(st, 0, cls, "eof")) })
			}
			for _, k := range connHops {
				k := k
				both(scheme, prim, func() []hpHop { return one(hpHop{kind: k}) })
			}
			// 4. delays: 60% of the timeout on one or several requests (per-request vs per-probe budget)
			for _, d := range [][3]int{{0, 60, 0}, {0, 0, 60}, {0, 60, 60}, {60, 0, 0}, {60, 60, 0}, {60, 0, 60}} {
				add("elastic", scheme, one(resp(200, d[1], "objectWs", "eof")), one(resp(200, d[2], "objectWs", "eof")))
				for _, pst := range []int{200, 404, 500} {
					add("docker", scheme, one(resp(pst, d[0], "empty", "eof")), one(resp(200, d[1], "objectWs", "eof")),
						one(resp(200, d[2], "objectWs", "eof")))
				}
			}
			// docker negotiation outcomes
			for _, k := range []string{"close", "rst", "junk", "hstall", "phstall"} {
				add("docker", scheme, one(hpHop{kind: k}), one(okResp()), one(okResp()))
			}
			for _, st := range []int{200, 204, 301, 400, 404, 500, 503} {
				add("docker", scheme, one(resp(st, 0, "empty", "eof")), one(okResp()), one(okResp()))
			}
			// 5. redirects: the target answers 30x + Location of ANOTHER endpoint
			for n := 1; n <= 3; n++ {
				for _, lastCls := range []string{"objectWs", "null", "garbage"} {
					n, lastCls := n, lastCls
					chain := func() []hpHop {
						var x []hpHop
						for i := 0; i < n; i++ {
							h := resp(hpRedirStatuses[r.Rng.Intn(len(hpRedirStatuses))], 0, []string{"garbage", "empty", "objectWs"}[r.Rng.Intn(3)], "eof")
							h.kind = "redir"
							x = append(x, h)
						}
						return append(x, resp(200, 0, lastCls, "eof"))
					}
					both(scheme, chain, okSec)
					both(scheme, prim, chain)
				}
			}
			// a redirect without a target to follow (no further hop): plain 30x answer
			for _, cls := range []string{"objectWs", "garbage"} {
				cls := cls
				both(scheme, func() []hpHop {
					h := resp(302, 0, cls, "eof")
					h.kind = "redir"
					return one(h)
				}, okSec)
			}
		}
	}
	// 6. random combinations
	nRand := 150
	if r.Tier == "thorough" {
		nRand = 1500
	}
	randHop := func() hpHop {
		switch k := r.Rng.Intn(12); {
		case k == 0:
			return hpHop{kind: connHops[r.Rng.Intn(len(connHops))]}
		default:
			d := 0
			if r.Rng.Intn(6) == 0 {
				d = 60
			}
			cls := hpClasses[r.Rng.Intn(len(hpClasses))]
			if r.Rng.Intn(2) == 0 {
				cls = []string{"object", "objectWs"}[r.Rng.Intn(2)]
			}
			end := "eof"
			if r.Rng.Intn(4) == 0 {
				end = hpEndings[r.Rng.Intn(3)]
			}
			return resp(hpStatuses[r.Rng.Intn(len(hpStatuses))], d, cls, end)
		}
	}
	for i := 0; i < nRand; i++ {
		scheme := []string{"http", "https"}[r.Rng.Intn(2)]
		if r.Rng.Intn(2) == 0 {
			add("elastic", scheme, one(randHop()), one(randHop()))
		} else {
			p := pingOK()
			if r.Rng.Intn(4) == 0 {
				p = resp([]int{200, 404, 500}[r.Rng.Intn(3)], []int{0, 60}[r.Rng.Intn(2)], "empty", "eof")
			}
			add("docker", scheme, one(p), one(randHop()), one(randHop()))
		}
	}

	// warm-up (lazy initialisation in net/http, crypto/tls, the moby client): results discarded
	hpWatchdog()
	for _, k := range []string{"elastic", "docker"} {
		for _, sch := range []string{"http", "https"} {
			ok := "resp:200:0:objectWs:1:eof:0:0"
			script := ok + "|" + ok
			if k == "docker" {
				script = "resp:200:0:empty:1:eof:0:0|" + script
			}
			runHTTPProbeOnce(k, sch, "127.0.0.1", 2000, script)
		}
	}
	// run: cases without a timed answer 32 at a time (stalls sleep, they do not burn CPU), then the cases
	// with delayed answers 8 at a time (their outcome depends on a 40% margin of the timeout)
	outs := make([]string, len(jobs))
	for phase := 0; phase < 2; phase++ {
		var wg sync.WaitGroup
		sem := make(chan struct{}, []int{32, 8}[phase])
		for i := range jobs {
			if timed := jobs[i].timeout != T; timed != (phase == 1) {
				continue
			}
			wg.Add(1)
			sem <- struct{}{}
			go func(i int) {
				defer wg.Done()
				defer func() { <-sem }()
				j := jobs[i]
				outs[i] = runHTTPProbe(j.kind, j.scheme, j.ip, j.timeout, j.script)
			}(i)
		}
		wg.Wait()
	}
	for i, j := range jobs {
		r.Count(j.kind + "/" + j.scheme)
		if strings.HasPrefix(outs[i], "rec") {
			r.Count("reported")
		} else {
			r.Count("not-reported")
		}
		r.Case(j.class, "httpprobe", j.kind, j.scheme, j.ip, strconv.Itoa(j.timeout), j.script, outs[i])
	}
}
