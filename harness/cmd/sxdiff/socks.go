package main

// Component `socks` (C09): the real socks5.Scanner.Scan against scripted loopback TCP servers, and the
// real socksConn + MethodRequest.WriteTo + MethodReply.ReadFrom over a scripted in-memory net.Conn.
//
// tag `socks`   fields: dialT dataT ip port dial write reads fin cancel rg            (times in µs)
//               observed: out=<outcome>;us=<wall time of Scan>;g=<greeting the server received|->
// tag `socksio` fields: ver methods-hex write-script read-script
//               observed: call trace, e.g. dw,w050100,dr,r2,dr,r1,=0500
//
// The script in the case line is what the server was told to do AND what the Lean model is given.
// A server that could not keep its own schedule (checked on the server side, never by looking at the
// client) invalidates the attempt, which is then repeated.

import (
	"context"
	"encoding/hex"
	"errors"
	"fmt"
	"io"
	"net"
	"os"
	"os/exec"
	"strconv"
	"strings"
	"sync"
	"syscall"
	"time"

	"github.com/v-byte-cpu/sx/pkg/scan"
	"github.com/v-byte-cpu/sx/pkg/scan/socks5"
	"sxverif/harness/internal/hx"
)

func init() {
	components["socks"] = socksComponent
	components["socks-netns-child"] = socksNetnsChild
	replayers["socks"] = func(f []string) string { return runSocks(f[1:11]) }
	replayers["socksio"] = func(f []string) string { return runSocksIO(f[1], f[2], f[3], f[4]) }
}

const (
	socksSlackUs   = 250000 // same as Driver/Socks.lean socksSlack
	socksSrvTolUs  = 10000  // a server step later than planned by more than this invalidates the attempt
	socksHandshake = 100    // µs: what the scripts say a loopback handshake takes
)

// ------------------------------------------------------------------ environment noise

// A heartbeat goroutine sleeps 1 ms at a time and records every interval in which it overslept by more
// than socksNoiseTol: scheduling noise of the box (other processes), measured independently of the code
// under test.  A timing-sensitive attempt that overlaps such an interval is repeated.
const socksNoiseTol = 10 * time.Millisecond

var socksNoise struct {
	once sync.Once
	mu   sync.Mutex
	ivs  [][2]time.Time
}

func socksHeartbeat() {
	socksNoise.once.Do(func() {
		go func() {
			for {
				t := time.Now()
				time.Sleep(time.Millisecond)
				if now := time.Now(); now.Sub(t)-time.Millisecond > socksNoiseTol {
					socksNoise.mu.Lock()
					socksNoise.ivs = append(socksNoise.ivs, [2]time.Time{t, now})
					socksNoise.mu.Unlock()
				}
			}
		}()
	})
}

func socksNoisy(from, to time.Time) bool {
	socksNoise.mu.Lock()
	defer socksNoise.mu.Unlock()
	for i := len(socksNoise.ivs) - 1; i >= 0; i-- {
		iv := socksNoise.ivs[i]
		if iv[1].Before(from) {
			break
		}
		if iv[0].Before(to) {
			return true
		}
	}
	return false
}

// ------------------------------------------------------------------ error classification

func socksClassify(res scan.Result, err error) string {
	if res != nil {
		sr, ok := res.(*socks5.ScanResult)
		if !ok {
			return fmt.Sprintf("badresult:%T", res)
		}
		if err != nil {
			return "rep+err"
		}
		if sr.ScanType != "socks" || sr.Version != 5 || sr.Auth {
			return fmt.Sprintf("badmeta:%s/%d/%v", sr.ScanType, sr.Version, sr.Auth)
		}
		return fmt.Sprintf("rep:%s:%d", sr.IP, sr.Port)
	}
	if err == nil {
		return "none"
	}
	return "err:" + socksErrKind(err)
}

func socksErrKind(err error) string {
	var oe *net.OpError
	isOp := errors.As(err, &oe)
	switch {
	case errors.Is(err, context.Canceled):
		return "dial-canceled"
	case errors.Is(err, net.ErrClosed):
		return "closed"
	case err == io.EOF:
		return "eof"
	case err == io.ErrUnexpectedEOF:
		return "unexpected-eof"
	case isOp && oe.Op == "dial":
		if oe.Timeout() {
			return "dial-timeout"
		}
		if errors.Is(err, syscall.ECONNREFUSED) {
			return "dial-refused"
		}
	case isOp && (oe.Op == "read" || oe.Op == "write"):
		if oe.Timeout() {
			return oe.Op + "-timeout"
		}
		if errors.Is(err, syscall.ECONNRESET) || errors.Is(err, syscall.EPIPE) {
			return oe.Op + "-reset"
		}
	}
	s := strings.Map(func(r rune) rune {
		if r == '\t' || r == '\n' || r == ';' {
			return ' '
		}
		return r
	}, err.Error())
	return "other:" + s
}

// ------------------------------------------------------------------ scripts

type socksReadEv struct {
	kind byte // 'd' data, 'e' eof, 'r' reset, 's' stall
	data []byte
	us   int64
}

func parseSocksReads(s string) []socksReadEv {
	if s == "-" {
		return nil
	}
	var out []socksReadEv
	for _, p := range strings.Split(s, ",") {
		if p == "s" {
			out = append(out, socksReadEv{kind: 's'})
			continue
		}
		at := strings.IndexByte(p, '@')
		us, err := strconv.ParseInt(p[at+1:], 10, 64)
		if err != nil {
			panic("bad read event " + p)
		}
		ev := socksReadEv{kind: p[0], us: us}
		if p[0] == 'd' {
			b, err := hex.DecodeString(p[1:at])
			if err != nil {
				panic("bad read event " + p)
			}
			ev.data = b
		}
		out = append(out, ev)
	}
	return out
}

func usDur(us int64) time.Duration { return time.Duration(us) * time.Microsecond }

// ------------------------------------------------------------------ the scripted server

type socksServer struct {
	ln       net.Listener
	rawFd    int        // silent-dial variant: raw listening socket with a full accept queue
	held     []net.Conn // connections that fill the accept queue
	mu        sync.Mutex
	greeting  string        // hex of what the server read, "-" if it did not look
	late      bool          // the server missed its own schedule
	greetDone chan struct{} // closed once the server is past looking at the greeting
	done      chan struct{}
}

func (s *socksServer) isLate() bool {
	s.mu.Lock()
	defer s.mu.Unlock()
	return s.late
}

func (s *socksServer) close() {
	if s.ln != nil {
		s.ln.Close()
	}
	for _, c := range s.held {
		c.Close()
	}
	if s.rawFd > 0 {
		syscall.Close(s.rawFd)
	}
}

// loDown makes the peer unreachable from now on (only ever called inside the private network namespace
// of a socks-netns-child process).
func loDown() {
	if os.Getenv("VERIF_SOCKS_NETNS") != "1" {
		panic("loDown outside a private network namespace")
	}
	if out, err := exec.Command("ip", "link", "set", "lo", "down").CombinedOutput(); err != nil {
		panic(fmt.Sprintf("ip link set lo down: %v %s", err, out))
	}
}

func loUp() {
	if os.Getenv("VERIF_SOCKS_NETNS") != "1" {
		panic("loUp outside a private network namespace")
	}
	if out, err := exec.Command("ip", "link", "set", "lo", "up").CombinedOutput(); err != nil {
		panic(fmt.Sprintf("ip link set lo up: %v %s", err, out))
	}
}

// serve plays the read events on one accepted connection.
func (s *socksServer) serve(c net.Conn, reads []socksReadEv, rg bool, blackhole bool) {
	defer close(s.done)
	defer c.Close()
	tc := c.(*net.TCPConn)
	greeting := "-"
	if rg {
		buf := make([]byte, 64)
		n := 0
		c.SetReadDeadline(time.Now().Add(3 * time.Second))
		for n < 3 {
			k, err := c.Read(buf[n:])
			n += k
			if err != nil {
				break
			}
		}
		greeting = hx.Hex(buf[:n])
	}
	s.mu.Lock()
	s.greeting = greeting
	s.mu.Unlock()
	close(s.greetDone)
	mark := time.Now() // ≈ the instant the probe starts its first Read
	hold := func() {
		// wait for the probe to go away (bounded), discarding whatever it sends
		c.SetReadDeadline(time.Now().Add(3 * time.Second))
		io.Copy(io.Discard, c)
	}
	for _, ev := range reads {
		if ev.kind == 's' {
			if blackhole {
				time.Sleep(10 * time.Millisecond) // let what was sent so far be delivered and acknowledged
				loDown()
			}
			hold()
			return
		}
		time.Sleep(usDur(ev.us))
		if lag := time.Since(mark) - usDur(ev.us); lag > usDur(socksSrvTolUs) {
			s.mu.Lock()
			s.late = true
			s.mu.Unlock()
		}
		switch ev.kind {
		case 'd':
			if len(ev.data) > 0 {
				c.Write(ev.data) // the probe may legitimately be gone once it has its two bytes
			}
		case 'e':
			return // graceful close (FIN) by the deferred Close: the greeting has been read
		case 'r':
			tc.SetLinger(0) // abortive close: RST
			return
		}
		mark = time.Now()
	}
	if blackhole {
		time.Sleep(10 * time.Millisecond)
		loDown()
	}
	hold()
}

// startSocksServer listens on ip:port (port 0 = any) and plays the script on the first connection.
func startSocksServer(ip string, port int, dial string, reads []socksReadEv, rg, blackhole bool) (*socksServer, int, error) {
	s := &socksServer{done: make(chan struct{}), greetDone: make(chan struct{})}
	switch {
	case strings.HasPrefix(dial, "ok:"):
		var ln net.Listener
		var err error
		for try := 0; try < 20; try++ {
			ln, err = net.Listen("tcp4", fmt.Sprintf("%s:%d", ip, port))
			if err == nil {
				break
			}
			time.Sleep(50 * time.Millisecond)
		}
		if err != nil {
			return nil, 0, err
		}
		s.ln = ln
		go func() {
			c, err := ln.Accept()
			if err != nil {
				close(s.greetDone)
				close(s.done)
				return
			}
			s.serve(c, reads, rg, blackhole)
		}()
		return s, ln.Addr().(*net.TCPAddr).Port, nil
	case strings.HasPrefix(dial, "refused:"):
		// a port nobody listens on: bind one, remember it, release it
		close(s.done)
		if port != 0 {
			return s, port, nil
		}
		ln, err := net.Listen("tcp4", ip+":0")
		if err != nil {
			return nil, 0, err
		}
		p := ln.Addr().(*net.TCPAddr).Port
		ln.Close()
		return s, p, nil
	case strings.HasPrefix(dial, "silent:"):
		// SYNs are dropped: a listening socket with backlog 0 whose accept queue is full
		close(s.done)
		fd, err := syscall.Socket(syscall.AF_INET, syscall.SOCK_STREAM, 0)
		if err != nil {
			return nil, 0, err
		}
		s.rawFd = fd
		var a [4]byte
		copy(a[:], net.ParseIP(ip).To4())
		syscall.SetsockoptInt(fd, syscall.SOL_SOCKET, syscall.SO_REUSEADDR, 1)
		if err := syscall.Bind(fd, &syscall.SockaddrInet4{Port: port, Addr: a}); err != nil {
			s.close()
			return nil, 0, err
		}
		if err := syscall.Listen(fd, 0); err != nil {
			s.close()
			return nil, 0, err
		}
		sa, _ := syscall.Getsockname(fd)
		p := sa.(*syscall.SockaddrInet4).Port
		addr := fmt.Sprintf("%s:%d", ip, p)
		// fill the queue until a dial stalls
		for i := 0; i < 8; i++ {
			c, err := net.DialTimeout("tcp4", addr, 200*time.Millisecond)
			if err != nil {
				var ne net.Error
				if errors.As(err, &ne) && ne.Timeout() {
					return s, p, nil
				}
				s.close()
				return nil, 0, err
			}
			s.held = append(s.held, c)
		}
		s.close()
		return nil, 0, errors.New("accept queue never filled")
	}
	return nil, 0, errors.New("bad dial event " + dial)
}

// ------------------------------------------------------------------ one case

// runSocks: f = dialT dataT ip port dial write reads fin cancel rg
func runSocks(f []string) string {
	out, _ := runSocksP(f)
	return out
}

// runSocksP also returns the port that was probed (chosen by the kernel when the field is 0).
func runSocksP(f []string) (string, int) {
	if f[7] == "never" && os.Getenv("VERIF_SOCKS_NETNS") != "1" {
		return runSocksInNetns(f)
	}
	socksHeartbeat()
	out, port := "", 0
	for attempt := 0; attempt < 6; attempt++ {
		var late bool
		from := time.Now()
		out, late, port = runSocksOnce(f)
		time.Sleep(2 * time.Millisecond) // let the heartbeat close an interval that is still open
		if !late && !socksNoisy(from, time.Now()) {
			break
		}
	}
	return out, port
}

func runSocksOnce(f []string) (string, bool, int) {
	dialT, _ := strconv.ParseInt(f[0], 10, 64)
	dataT, _ := strconv.ParseInt(f[1], 10, 64)
	ip := f[2]
	port, _ := strconv.Atoi(f[3])
	dial, reads, fin, cancelS, rg := f[4], parseSocksReads(f[6]), f[7], f[8], f[9] == "1"
	if f[5] != "ok:0" {
		return "out=unsupported-write-script;us=0;g=-", false, 0
	}
	if fin == "never" {
		loUp() // a previous attempt in this namespace has taken it down
	}
	srv, p, err := startSocksServer(ip, port, dial, reads, rg, fin == "never")
	if err != nil {
		return "out=server-failed:" + strings.ReplaceAll(err.Error(), ";", " ") + ";us=0;g=-", false, 0
	}
	defer srv.close()
	if port != 0 && p != port {
		return "out=server-port-mismatch;us=0;g=-", false, p
	}
	port = p

	sc := socks5.NewScanner(socks5.WithDialTimeout(usDur(dialT)), socks5.WithDataTimeout(usDur(dataT)))
	ctx, cancel := context.WithCancel(context.Background())
	defer cancel()
	dst := net.ParseIP(ip)
	if port%2 == 0 {
		dst = dst.To4() // both representations of an IPv4 address occur in sx
	}
	req := &scan.Request{DstIP: dst, DstPort: uint16(port)}
	giveUp := usDur(dialT + 3*dataT + socksSlackUs + 1500000)
	var cancelAt int64 = -1
	if cancelS != "-" {
		cancelAt, _ = strconv.ParseInt(cancelS, 10, 64)
		giveUp = usDur(cancelAt + socksSlackUs + 1500000)
	}
	type ret struct {
		res scan.Result
		err error
		d   time.Duration
	}
	ch := make(chan ret, 1)
	if cancelAt == 0 {
		cancel()
	}
	t0 := time.Now()
	if cancelAt > 0 {
		tm := time.AfterFunc(usDur(cancelAt), cancel)
		defer tm.Stop()
	}
	go func() {
		var r ret
		panicked, msg := hx.Recover(func() { r.res, r.err = sc.Scan(ctx, req) })
		r.d = time.Since(t0)
		if panicked {
			r.res, r.err = nil, errors.New("PANIC "+msg)
		}
		ch <- r
	}()
	var outcome string
	var us int64
	select {
	case r := <-ch:
		outcome, us = socksClassify(r.res, r.err), r.d.Microseconds()
	case <-time.After(giveUp):
		outcome, us = "hung", giveUp.Microseconds()
		cancel()
	}
	g := "-"
	if rg && strings.HasPrefix(dial, "ok:") && !strings.HasPrefix(outcome, "err:dial-") {
		// the server is past the greeting as soon as the probe has written it or gone away
		select {
		case <-srv.greetDone:
		case <-time.After(4 * time.Second):
		}
		srv.mu.Lock()
		g = srv.greeting
		srv.mu.Unlock()
		if g == "" {
			g = "-"
		}
	}
	return fmt.Sprintf("out=%s;us=%d;g=%s", outcome, us, g), srv.isLate(), port
}

// runSocksInNetns re-executes this binary in a private network namespace (the case takes the loopback
// interface down to make the peer unreachable).
func runSocksInNetns(f []string) (string, int) {
	tmp, err := os.CreateTemp("", "socksns")
	if err != nil {
		return "out=netns-failed:tmp;us=0;g=-", 0
	}
	tmp.Close()
	defer os.Remove(tmp.Name())
	cmd := exec.Command(os.Args[0], "socks-netns-child", "-cases", tmp.Name(), "-stats", os.DevNull)
	cmd.Env = append(os.Environ(), "VERIF_SOCKS_NETNS=1", "VERIF_SOCKS_CASE="+strings.Join(f, "\t"))
	cmd.SysProcAttr = &syscall.SysProcAttr{Unshareflags: syscall.CLONE_NEWNET}
	if out, err := cmd.CombinedOutput(); err != nil {
		return "out=netns-failed:" + strings.Map(func(r rune) rune {
			if r == '\t' || r == '\n' || r == ';' {
				return ' '
			}
			return r
		}, err.Error()+" "+string(out)) + ";us=0;g=-", 0
	}
	data, _ := os.ReadFile(tmp.Name())
	line := strings.TrimRight(string(data), "\n")
	k := strings.LastIndex(line, ";port=")
	if k < 0 {
		return "out=netns-failed:no-output;us=0;g=-", 0
	}
	port, _ := strconv.Atoi(line[k+6:])
	return line[:k], port
}

func socksNetnsChild(r *hx.Run) {
	if os.Getenv("VERIF_SOCKS_NETNS") != "1" {
		panic("socks-netns-child is internal")
	}
	loUp()
	// warm up: the loopback interface has just come up and this process has just started
	socksHeartbeat()
	if ln, err := net.Listen("tcp4", "127.0.0.1:0"); err == nil {
		if c, err := net.DialTimeout("tcp4", ln.Addr().String(), time.Second); err == nil {
			c.Close()
		}
		ln.Close()
	}
	time.Sleep(20 * time.Millisecond)
	f := strings.Split(os.Getenv("VERIF_SOCKS_CASE"), "\t")
	out, port := runSocksP(f)
	r.Case("", fmt.Sprintf("%s;port=%d", out, port))
}

// ------------------------------------------------------------------ in-memory conn for socksio

type memConn struct {
	timeout time.Duration
	wErr    bool
	reads   []string // "d<hex>", "e", "r", "s"
	left    []byte
	trace   []string
}

type memTimeout struct{}

func (memTimeout) Error() string   { return "i/o timeout" }
func (memTimeout) Timeout() bool   { return true }
func (memTimeout) Temporary() bool { return true }

func (c *memConn) deadline(tag string, t time.Time) error {
	d := time.Until(t) - c.timeout
	if d < -2*time.Second || d > 2*time.Second {
		c.trace = append(c.trace, fmt.Sprintf("%s?%v", tag, time.Until(t).Round(time.Second)))
	} else {
		c.trace = append(c.trace, tag)
	}
	return nil
}
func (c *memConn) SetReadDeadline(t time.Time) error  { return c.deadline("dr", t) }
func (c *memConn) SetWriteDeadline(t time.Time) error { return c.deadline("dw", t) }
func (c *memConn) SetDeadline(t time.Time) error      { return c.deadline("dd", t) }
func (c *memConn) Close() error                       { c.trace = append(c.trace, "close"); return nil }
func (c *memConn) LocalAddr() net.Addr                { return &net.TCPAddr{} }
func (c *memConn) RemoteAddr() net.Addr               { return &net.TCPAddr{} }

func (c *memConn) Write(p []byte) (int, error) {
	h := ""
	if len(p) > 0 {
		h = hex.EncodeToString(p)
	}
	c.trace = append(c.trace, "w"+h)
	if c.wErr {
		return 0, &net.OpError{Op: "write", Net: "tcp", Err: os.NewSyscallError("write", syscall.EPIPE)}
	}
	return len(p), nil
}

func (c *memConn) Read(p []byte) (int, error) {
	c.trace = append(c.trace, fmt.Sprintf("r%d", len(p)))
	if len(c.left) > 0 {
		n := copy(p, c.left)
		c.left = c.left[n:]
		return n, nil
	}
	if len(c.reads) == 0 {
		return 0, &net.OpError{Op: "read", Net: "tcp", Err: memTimeout{}}
	}
	ev := c.reads[0]
	c.reads = c.reads[1:]
	switch ev[0] {
	case 'd':
		b, _ := hex.DecodeString(ev[1:])
		n := copy(p, b)
		c.left = b[n:]
		return n, nil
	case 'e':
		return 0, io.EOF
	case 'r':
		return 0, &net.OpError{Op: "read", Net: "tcp", Err: os.NewSyscallError("read", syscall.ECONNRESET)}
	}
	return 0, &net.OpError{Op: "read", Net: "tcp", Err: memTimeout{}}
}

func runSocksIO(verS, methodsHex, wscript, rscript string) string {
	ver, _ := strconv.Atoi(verS)
	methods := hx.UnHex(methodsHex)
	mc := &memConn{timeout: time.Hour, wErr: wscript != "ok"}
	if rscript != "-" {
		mc.reads = strings.Split(rscript, ",")
	}
	var fin string
	panicked, msg := hx.Recover(func() {
		sconn := socks5.VerifNewSocksConn(mc, time.Hour)
		req := socks5.NewMethodRequest(byte(ver), methods...)
		if _, err := req.WriteTo(sconn); err != nil {
			fin = "!" + socksErrKind(err)
			return
		}
		reply := &socks5.MethodReply{}
		if _, err := reply.ReadFrom(sconn); err != nil {
			fin = "!" + socksErrKind(err)
			return
		}
		fin = "=" + hex.EncodeToString([]byte{reply.Ver, reply.Method})
	})
	if panicked {
		fin = "!PANIC " + strings.ReplaceAll(msg, ",", " ")
	}
	return strings.Join(append(mc.trace, fin), ",")
}

// ------------------------------------------------------------------ generator

type socksJob struct {
	class string
	f     []string // the ten input fields
}

func socksComponent(r *hx.Run) {
	r.Rule = "socks: case = (connect/data timeouts, target 127.x.y.z:port, server script: dial ok|refused|silent x read events data@delay|eof|reset|stall x peer acknowledges our FIN or not, cancellation instant, server reads the greeting?) run through the real Scanner.Scan against a scripted loopback server; all first bytes with second 0 and all second bytes with first 5 (thorough: all 65536 replies), every split/drip/late-byte/extra-byte/flood/fault variant, cancellation before/during dial and during either read, peer turning unreachable (private netns, lo down); non-trivial class = scenario family x outcome family. socksio: (version, method list incl. 255/256/300 methods, write ok|error, read script over {05,00,0500,050000,empty,xx,eof,reset,stall}^<=k) through the real socksConn/WriteTo/ReadFrom over a recording in-memory conn"
	thorough := r.Tier == "thorough"
	const T = 60000   // µs: the scaled connect and data timeout of the cases that wait for a timeout
	const L = 1500000 // µs: timeouts of the cases in which no timeout is involved (they end at once)
	var jobs []socksJob
	ipOf := func() string {
		return fmt.Sprintf("127.%d.%d.%d", r.Rng.Intn(256), r.Rng.Intn(256), 1+r.Rng.Intn(254))
	}
	hs := strconv.Itoa(socksHandshake)
	add := func(class string, dialT, dataT int64, dial, reads, fin, cancel string, rg bool) {
		g := "0"
		if rg {
			g = "1"
		}
		jobs = append(jobs, socksJob{class, []string{strconv.FormatInt(dialT, 10), strconv.FormatInt(dataT, 10), ipOf(), "0",
			dial, "ok:0", reads, fin, cancel, g}})
	}
	us := func(frac float64) string { return strconv.FormatInt(int64(frac*T), 10) }
	d := func(b []byte, at string) string { return "d" + hex.EncodeToString(b) + "@" + at }

	// A. two-byte replies in one segment
	reply := func(a, b byte, rg bool) {
		cls := "reply/other"
		if a == 5 && b == 0 {
			cls = "reply/0500"
		} else if a == 5 {
			cls = "reply/ver-only"
		} else if b == 0 {
			cls = "reply/method-only"
		}
		add(cls, L, L, "ok:"+hs, d([]byte{a, b}, "0"), "a0", "-", rg)
	}
	if thorough {
		for a := 0; a < 256; a++ {
			for b := 0; b < 256; b++ {
				reply(byte(a), byte(b), (a+b)%16 == 0)
			}
		}
	} else {
		for x := 0; x < 256; x++ {
			reply(byte(x), 0, x%8 == 0)
			reply(5, byte(x), x%8 == 1)
		}
		for i := 0; i < 200; i++ {
			reply(byte(r.Rng.Intn(256)), byte(r.Rng.Intn(256)), i%4 == 0)
		}
		for i := 0; i < 40; i++ { // neighbours of the accepting pair
			reply(byte(4+r.Rng.Intn(3)), byte(r.Rng.Intn(3)), true)
		}
	}
	// B. the same replies split across two segments (every first byte with 0, every second byte with 5 in thorough)
	nSplit := 48
	if thorough {
		nSplit = 600
	}
	for i := 0; i < nSplit; i++ {
		a, b := byte(5), byte(0)
		switch i % 6 {
		case 1:
			a = byte(r.Rng.Intn(256))
		case 2:
			b = byte(r.Rng.Intn(256))
		case 3:
			a, b = byte(r.Rng.Intn(256)), byte(r.Rng.Intn(256))
		case 4:
			a, b = 0, 5
		}
		gap := []string{us(0.2), us(0.35), us(0.5)}[r.Rng.Intn(3)]
		first := []string{"0", us(0.25), us(0.5)}[r.Rng.Intn(3)]
		cls := "split/other"
		if a == 5 && b == 0 {
			cls = "split/0500"
		}
		add(cls, L, L, "ok:"+hs, d([]byte{a}, first)+","+d([]byte{b}, gap), "a0", "-", i%2 == 0)
	}
	split := func(a, b byte) {
		cls := "split2/other"
		if a == 5 && b == 0 {
			cls = "split2/0500"
		} else if a == 5 {
			cls = "split2/ver-only"
		} else if b == 0 {
			cls = "split2/method-only"
		}
		add(cls, L, L, "ok:"+hs, d([]byte{a}, "0")+","+d([]byte{b}, "3000"), "a0", "-", (int(a)+int(b))%16 == 0)
	}
	if thorough {
		for a := 0; a < 256; a++ {
			for b := 0; b < 256; b++ {
				split(byte(a), byte(b))
			}
		}
	} else {
		for x := 0; x < 256; x++ {
			split(byte(x), 0)
			split(5, byte(x))
		}
	}
	// C. extra bytes, garbage, flood, drip feed
	nExtra := 30
	if thorough {
		nExtra = 300
	}
	for i := 0; i < nExtra; i++ {
		tail := make([]byte, 1+r.Rng.Intn(300))
		r.Rng.Read(tail)
		head := []byte{5, 0}
		cls := "extra/0500"
		if i%3 == 1 {
			head = []byte{byte(r.Rng.Intn(256)), byte(r.Rng.Intn(256))}
			cls = "extra/garbage"
		}
		switch i % 4 {
		case 0: // everything in one segment
			add(cls+"/one-segment", L, L, "ok:"+hs, d(append(append([]byte{}, head...), tail...), "0"), "a0", "-", true)
		case 1: // first byte alone, then the rest and the tail together
			add(cls+"/1+rest", L, L, "ok:"+hs, d(head[:1], "0")+","+d(append(append([]byte{}, head[1:]...), tail...), us(0.25)), "a0", "-", true)
		case 2: // reply, then the tail later (after the probe has decided)
			add(cls+"/tail-later", L, L, "ok:"+hs, d(head, "0")+","+d(tail, us(0.25)), "a0", "-", false)
		case 3: // drip feed: one byte every 0.3 T, many bytes
			evs := []string{d(head[:1], us(0.3)), d(head[1:], us(0.3))}
			for k := 0; k < 4 && k < len(tail); k++ {
				evs = append(evs, d(tail[k:k+1], us(0.3)))
			}
			add(cls+"/drip", L, L, "ok:"+hs, strings.Join(evs, ","), "a0", "-", true)
		}
	}
	for i := 0; i < 4; i++ { // flood: 64 KiB at once
		big := make([]byte, 65536)
		r.Rng.Read(big)
		cls := "flood/garbage"
		if i%2 == 0 {
			big[0], big[1] = 5, 0
			cls = "flood/0500"
		}
		add(cls, L, L, "ok:"+hs, d(big, "0"), "a0", "-", i < 2)
	}
	// D. faults at every step
	rep := 3
	if thorough {
		rep = 12
	}
	for i := 0; i < rep; i++ {
		x := byte(r.Rng.Intn(256))
		if i%2 == 0 {
			x = 5
		}
		add("fault/refused", T, T, "refused:"+hs, "-", "a0", "-", false)
		add("fault/accept-and-stall", 5*T, T, "ok:"+hs, "s", "a0", "-", true)
		add("fault/accept-and-stall/no-greeting-read", 5*T, T, "ok:"+hs, "s", "a0", "-", false)
		add("fault/one-byte-then-stall", 5*T, T, "ok:"+hs, d([]byte{x}, "0")+",s", "a0", "-", true)
		add("fault/one-late-byte-then-stall", 5*T, T, "ok:"+hs, d([]byte{x}, us(0.5))+",s", "a0", "-", true)
		add("fault/close-before-reading", 5*T, T, "ok:"+hs, "r@"+us(0.25), "a0", "-", false)
		add("fault/close-after-reading", 5*T, T, "ok:"+hs, "e@0", "a0", "-", true)
		add("fault/close-after-reading/delayed", 5*T, T, "ok:"+hs, "e@"+us(0.4), "a0", "-", true)
		add("fault/one-byte-then-close", 5*T, T, "ok:"+hs, d([]byte{x}, "0")+",e@"+us(0.2), "a0", "-", true)
		add("fault/reset-after-reading", 5*T, T, "ok:"+hs, "r@0", "a0", "-", true)
		add("fault/one-byte-then-reset", 5*T, T, "ok:"+hs, d([]byte{x}, "0")+",r@"+us(0.2), "a0", "-", true)
		// deadlines are per Read call: late segments
		add("late/reply-at-0.5T", 5*T, T, "ok:"+hs, d([]byte{5, 0}, us(0.5)), "a0", "-", true)
		add("late/reply-at-2T", 5*T, T, "ok:"+hs, d([]byte{5, 0}, us(2)), "a0", "-", true)
		add("late/reply-at-1.5T", 5*T, T, "ok:"+hs, d([]byte{5, 0}, us(1.5)), "a0", "-", true)
		add("late/0.5T+1.5T", 5*T, T, "ok:"+hs, d([]byte{5}, us(0.5))+","+d([]byte{0}, us(1.5)), "a0", "-", true)
		add("late/0.5T+0.5T", 5*T, T, "ok:"+hs, d([]byte{5}, us(0.5))+","+d([]byte{0}, us(0.5)), "a0", "-", true)
		add("late/0.5T+2T", 5*T, T, "ok:"+hs, d([]byte{5}, us(0.5))+","+d([]byte{0}, us(2)), "a0", "-", true)
		add("late/close-at-2T", 5*T, T, "ok:"+hs, "e@"+us(2), "a0", "-", true)
		add("late/reset-at-2T", 5*T, T, "ok:"+hs, "r@"+us(2), "a0", "-", true)
	}
	for i := 0; i < 2; i++ {
		add("fault/never-accepts", T, T, "silent:127000000", "-", "a0", "-", false)
	}
	add("timeouts/equal/stall", T, T, "ok:"+hs, "s", "a0", "-", true)
	add("timeouts/equal/one-byte-then-stall", T, T, "ok:"+hs, d([]byte{5}, "0")+",s", "a0", "-", true)
	// timeout settings: none / zero / tiny / different values for connect and data
	add("timeouts/no-connect-timeout", 0, T, "ok:"+hs, d([]byte{5, 0}, "0"), "a0", "-", true)
	add("timeouts/no-connect-timeout/refused", 0, T, "refused:"+hs, "-", "a0", "-", false)
	add("timeouts/zero-data-timeout", T, 0, "ok:"+hs, d([]byte{5, 0}, "0"), "a0", "-", false)
	add("timeouts/tiny-connect-timeout", 1, T, "ok:"+hs, d([]byte{5, 0}, "0"), "a0", "-", false)
	add("timeouts/long-data", T, 5*T, "ok:"+hs, d([]byte{5}, us(2))+","+d([]byte{0}, us(2)), "a0", "-", true)
	add("timeouts/long-data/stall", T, 3*T, "ok:"+hs, d([]byte{5}, us(1.5))+",s", "a0", "-", true)
	add("timeouts/long-connect", 20*T, T, "ok:"+hs, "s", "a0", "-", true)
	// E. cancellation (long timeouts, so that only the watchdog can end the probe in time)
	nc := 2
	if thorough {
		nc = 8
	}
	for i := 0; i < nc; i++ {
		c1 := strconv.Itoa(20000 + r.Rng.Intn(40000))
		add("cancel/before-dial", L, L, "ok:"+hs, d([]byte{5, 0}, "0"), "a0", "0", false)
		add("cancel/during-dial", L, L, "silent:127000000", "-", "a0", c1, false)
		add("cancel/during-first-read", L, L, "ok:"+hs, "s", "a0", c1, true)
		add("cancel/during-second-read", L, L, "ok:"+hs, d([]byte{5}, "0")+",s", "a0", c1, true)
		add("cancel/after-the-end", L, L, "ok:"+hs, d([]byte{5, 0}, "0"), "a0", "400000", true)
		add("cancel/after-the-end/none", L, L, "ok:"+hs, d([]byte{5, 1}, "0"), "a0", "400000", true)
	}
	// F. the peer becomes unreachable after the handshake (tarpit / host gone): private netns, lo down
	add("unreachable/after-greeting", 5*T, T, "ok:"+hs, "s", "never", "-", true)
	add("unreachable/after-one-byte", 5*T, T, "ok:"+hs, d([]byte{5}, "0")+",s", "never", "-", true)
	add("unreachable/cancel", L, L, "ok:"+hs, "s", "never", "60000", true)

	// run (bounded parallelism; most of the time is spent sleeping)
	outs := make([]string, len(jobs))
	ports := make([]int, len(jobs))
	var wg sync.WaitGroup
	sem := make(chan struct{}, 32)
	for i := range jobs {
		wg.Add(1)
		sem <- struct{}{}
		go func(i int) {
			defer wg.Done()
			defer func() { <-sem }()
			outs[i], ports[i] = runSocksP(jobs[i].f)
		}(i)
	}
	wg.Wait()
	for i, j := range jobs {
		out := outs[i]
		// the port the kernel chose is part of the case from now on (a replay binds it again)
		j.f[3] = strconv.Itoa(ports[i])
		fam := out[4:strings.Index(out, ";")]
		if strings.HasPrefix(fam, "rep:") {
			fam = "rep"
		}
		r.Count(strings.SplitN(j.class, "/", 2)[0])
		r.Count("outcome " + fam)
		r.Case(j.class+" -> "+fam, append(append([]string{"socks"}, j.f...), out)...)
	}

	// ---------------- socksio
	alphabet := []string{"d05", "d00", "d0500", "d050000", "d", "dff", "e", "r", "s"}
	depth := 3
	if thorough {
		depth = 4
	}
	var scripts []string
	var gen func(prefix []string, k int)
	gen = func(prefix []string, k int) {
		if len(prefix) > 0 {
			scripts = append(scripts, strings.Join(prefix, ","))
		} else {
			scripts = append(scripts, "-")
		}
		if k == 0 {
			return
		}
		for _, a := range alphabet {
			gen(append(append([]string{}, prefix...), a), k-1)
		}
	}
	gen(nil, depth)
	emitIO := func(class string, ver int, methods []byte, w, rs string) {
		mh := hx.Hex(methods)
		r.Case(class, "socksio", strconv.Itoa(ver), mh, w, rs, runSocksIO(strconv.Itoa(ver), mh, w, rs))
	}
	for _, s := range scripts {
		cls := "io/reads=" + strconv.Itoa(strings.Count(s, ",")+1)
		if strings.Contains(s+",", "d,") {
			cls += "/empty-chunk"
		}
		emitIO(cls, 5, []byte{0}, "ok", s)
	}
	// long runs of empty chunks (a reader that breaks the io.Reader contract)
	emitIO("io/empty-chunks-x50", 5, []byte{0}, "ok", strings.Repeat("d,", 50)+"d0500")
	// method lists of every interesting length, both write outcomes
	for _, n := range []int{0, 1, 2, 3, 16, 254, 255, 256, 257, 300, 511, 512} {
		ms := make([]byte, n)
		r.Rng.Read(ms)
		emitIO(fmt.Sprintf("io/methods=%d", n), r.Rng.Intn(256), ms, "ok", "d0500")
		emitIO(fmt.Sprintf("io/methods=%d/write-error", n), r.Rng.Intn(256), ms, "err", "d0500")
	}
	nm := 100
	if thorough {
		nm = 2000
	}
	for i := 0; i < nm; i++ {
		ms := make([]byte, r.Rng.Intn(260))
		r.Rng.Read(ms)
		emitIO("io/methods-random", r.Rng.Intn(256), ms, "ok", scripts[r.Rng.Intn(len(scripts))])
	}
}
