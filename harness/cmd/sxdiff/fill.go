package main

import (
	"encoding/binary"
	"fmt"
	"hash/fnv"
	mrand "math/rand"
	"net"
	"strconv"
	"strings"

	"github.com/google/gopacket"
	"github.com/v-byte-cpu/sx/command"
	"github.com/v-byte-cpu/sx/pkg/scan"
	"github.com/v-byte-cpu/sx/pkg/scan/arp"
	"sxverif/harness/internal/hx"
)

func init() {
	components["fill"] = fillComponent
	replayers["fill"] = func(f []string) string {
		out, _, _ := runFill(f[1], f[2], f[3])
		return out
	}
}

var tcpFlagBits = map[string]int{"fin": 1, "syn": 2, "rst": 4, "psh": 8, "ack": 16, "urg": 32, "ece": 64, "cwr": 128, "ns": 256}

// opts: kind-specific "k=v;k=v"; req: "src,dst,smac,dmac,port" (hex).
// The global math/rand source (the one the fillers draw from) is seeded from the case text, so a
// replay of a recorded case sees the same draws.  rnd = the three random header fields read back from
// the frame; aux = the payload read back when the filler chose it itself (icmp without --payload), else "-".
func runFill(kind, opts, req string) (observed string, rnd string, aux string) {
	aux = "-"
	h := fnv.New64a()
	h.Write([]byte(kind + "|" + opts + "|" + req))
	seed := int64(h.Sum64() >> 1)
	kv := map[string]string{}
	for _, p := range strings.Split(opts, ";") {
		if i := strings.IndexByte(p, '='); i > 0 {
			kv[p[:i]] = p[i+1:]
		}
	}
	atoi := func(k string) int { v, _ := strconv.Atoi(kv[k]); return v }
	// "seed=S;skip=K": the K+1-th frame the filler produces after Seed(S) (extreme-draw search)
	if _, ok := kv["seed"]; ok {
		seed = int64(atoi("seed"))
	}
	mrand.Seed(seed)
	rf := strings.Split(req, ",")
	port, _ := strconv.Atoi(rf[4])
	r := &scan.Request{SrcIP: net.IP(hx.UnHex(rf[0])), DstIP: net.IP(hx.UnHex(rf[1])), SrcMAC: hx.UnHex(rf[2]), DstMAC: hx.UnHex(rf[3]), DstPort: uint16(port)}
	vpn := kv["vpn"] == "1"
	var filler scan.PacketFiller
	switch kind {
	case "tcp":
		var names []string
		for n, b := range tcpFlagBits {
			if atoi("flags")&b != 0 {
				names = append(names, n)
			}
		}
		filler = command.VerifTCPFlagFiller(names, vpn)
	case "udp", "icmp":
		// through the commands' own option wiring (getUDPOptions / getICMPOptions)
		v := &command.VerifOpts{VPNMode: vpn, TTL: uint8(atoi("ttl")), IPFlags: uint8(atoi("ipflags")), IPProto: uint8(atoi("proto")),
			IPLen: uint16(atoi("iplen")), ICMPType: uint8(atoi("type")), ICMPCode: uint8(atoi("code")), Payload: hx.UnHex(kv["payload"])}
		if kind == "udp" {
			filler = command.VerifUDPFiller(v)
		} else {
			filler = command.VerifICMPFiller(v)
		}
	case "arp":
		filler = arp.NewPacketFiller()
	}
	// a dirty buffer: serializers must overwrite every byte they prepend
	buf := gopacket.NewSerializeBuffer()
	junk, _ := buf.PrependBytes(200)
	for i := range junk {
		junk[i] = 0xa5
	}
	buf.Clear()
	var err error
	for k := atoi("skip"); k > 0; k-- {
		hx.Recover(func() { filler.Fill(buf, r) })
		buf.Clear()
	}
	panicked, _ := hx.Recover(func() { err = filler.Fill(buf, r) })
	if panicked {
		return "PANIC", "0,0,0", aux
	}
	if err != nil {
		return "ERR", "0,0,0", aux
	}
	b := buf.Bytes()
	off := 14
	if vpn {
		off = 0
	}
	id, p1, seq := 0, 0, uint32(0)
	if kind != "arp" && len(b) >= off+28 {
		// the draw behind a field, modulo the field width (an id field of 0 reads as draw 65535)
		id = (int(binary.BigEndian.Uint16(b[off+4:])) - 1) & 0xffff
		switch kind {
		case "tcp":
			p1 = (int(binary.BigEndian.Uint16(b[off+20:])) - 32768) & 0xffff
			seq = binary.BigEndian.Uint32(b[off+24:])
		case "udp":
			p1 = (int(binary.BigEndian.Uint16(b[off+20:])) - 32768) & 0xffff
		case "icmp":
			p1 = (int(binary.BigEndian.Uint16(b[off+24:])) - 1) & 0xffff
		}
	}
	if kind == "icmp" && len(hx.UnHex(kv["payload"])) == 0 && len(b) >= off+28 {
		// 48 random bytes by default; Ethernet padding cannot be confused with it (28+48 > 46)
		aux = "x" + hx.Hex(b[off+28:])
	}
	return "OK " + hx.Hex(b), fmt.Sprintf("%d,%d,%d", id, p1, seq), aux
}

func fillComponent(r *hx.Run) {
	r.Rule = "case = (filler kind, options, request) through the real PacketFiller.Fill into a deliberately dirty buffer, the udp/icmp fillers built by the commands' own option wiring, the tcp filler from flag names through tcpPacketFlagOptions; the random header fields (and the default ICMP payload) are read back from the frame and given to the model, every other byte must match; exhaustive over the 2^9 TCP flag sets x 2 link modes; a corner grid {udp,icmp} x link mode x payload length {0,1,2,3,17,18,19,46,47,48,1471,1472,1473,1500} x {TTL, IP flags, protocol, --iplen, type, code extremes}; payloads of 65507 (IPv4 maximum) and 65508 bytes; random TTL / IP flags / protocol / --iplen / type / code, payload lengths 0..1500 incl. odd; requests with 4-byte, 16-byte IPv4-mapped, nil and IPv6 addresses and MACs of wrong length; non-trivial class = (kind, link mode, override present, payload parity/size class, request shape, outcome)"
	rng := r.Rng
	ip4 := func() []byte { return []byte{byte(1 + rng.Intn(223)), byte(rng.Intn(256)), byte(rng.Intn(256)), byte(rng.Intn(256))} }
	mac := func() []byte { b := make([]byte, 6); rng.Read(b); return b }
	plain := func() string {
		return fmt.Sprintf("%s,%s,%s,%s,%d", hx.Hex(ip4()), hx.Hex(ip4()), hx.Hex(mac()), hx.Hex(mac()), rng.Intn(65536))
	}
	req := func() (string, string) {
		src, dst, sm, dm := ip4(), ip4(), mac(), mac()
		shape := "plain"
		switch rng.Intn(16) {
		case 0:
			dst = net.IP(dst).To16()
			shape = "dst16"
		case 1:
			src = net.IP(src).To16()
			shape = "src16"
		case 2:
			dst = net.ParseIP("2001:db8::1")
			shape = "dst-v6"
		case 3:
			src = nil
			shape = "src-nil"
		case 4:
			dm = nil
			shape = "dmac-nil"
		case 5:
			sm = sm[:5]
			shape = "smac-short"
		case 6:
			dst = nil
			shape = "dst-nil"
		case 7:
			sm, dm = nil, nil
			shape = "macs-nil"
		}
		port := rng.Intn(65536)
		switch rng.Intn(12) {
		case 0:
			port = 0
		case 1:
			port = 65535
		}
		return fmt.Sprintf("%s,%s,%s,%s,%d", hx.Hex(src), hx.Hex(dst), hx.Hex(sm), hx.Hex(dm), port), shape
	}
	emit := func(kind, opts, rq, shape, extra string) {
		obs, rnd, aux := runFill(kind, opts, rq)
		out := strings.SplitN(obs, " ", 2)[0]
		r.Count(kind + "/" + out)
		r.Case(kind+"/"+extra+"/"+shape+"/"+out, "fill", kind, opts, rq, rnd, aux, obs)
	}
	// 1. TCP: all 2^9 flag sets x 2 link modes on well-formed requests, in both tiers; then the same
	// sets again (a third of them in the quick tier) on requests of every shape, malformed ones included
	reps := 1
	if r.Tier == "thorough" {
		reps = 10
	}
	for flags := 0; flags < 512; flags++ {
		for vpn := 0; vpn < 2; vpn++ {
			emit("tcp", fmt.Sprintf("vpn=%d;flags=%d", vpn, flags), plain(), "plain", fmt.Sprintf("vpn%d/all", vpn))
		}
	}
	for rep := 0; rep < reps; rep++ {
		for flags := 0; flags < 512; flags++ {
			for vpn := 0; vpn < 2; vpn++ {
				if r.Tier != "thorough" && (flags+vpn)%3 != 0 {
					continue
				}
				rq, shape := req()
				emit("tcp", fmt.Sprintf("vpn=%d;flags=%d", vpn, flags), rq, shape, fmt.Sprintf("vpn%d", vpn))
			}
		}
	}
	sizeClass := func(plen int) string {
		c := "even"
		if plen%2 == 1 {
			c = "odd"
		}
		switch {
		case plen == 0:
			c = "empty"
		case plen <= 18:
			c += "-padded" // Ethernet frame below 60 bytes
		case plen > 1472:
			c += "-overMTU"
		}
		return c
	}
	payloadOf := func(plen int) []byte {
		p := make([]byte, plen)
		rng.Read(p)
		switch rng.Intn(6) {
		case 0:
			for i := range p {
				p[i] = 0xff
			}
		case 1:
			for i := range p {
				p[i] = 0
			}
		}
		return p
	}
	// 2. corner grid
	type corner struct{ ttl, proto, ipflags, iplen, typ, code int }
	corners := []corner{{64, -1, 2, 0, 8, 0}, {0, 0, 0, 0, 0, 0}, {255, 255, 7, 0, 255, 255}, {1, -1, 4, 1, 13, 0}, {128, 157, 1, 65535, 8, 255}, {255, -1, 2, 20, 17, 0}, {64, 6, 5, 28, 3, 3}}
	lens := []int{0, 1, 2, 3, 17, 18, 19, 46, 47, 48, 1471, 1472, 1473, 1500}
	for _, kind := range []string{"udp", "icmp"} {
		for vpn := 0; vpn < 2; vpn++ {
			for _, plen := range lens {
				for ci, c := range corners {
					if r.Tier != "thorough" && (plen+ci+vpn)%2 == 1 && ci > 1 {
						continue
					}
					proto := c.proto
					if proto < 0 {
						proto = map[string]int{"udp": 17, "icmp": 1}[kind]
					}
					ov := "noiplen"
					if c.iplen != 0 {
						ov = "iplen"
					}
					opts := fmt.Sprintf("vpn=%d;ttl=%d;proto=%d;ipflags=%d;iplen=%d;payload=%s", vpn, c.ttl, proto, c.ipflags, c.iplen, hx.Hex(payloadOf(plen)))
					if kind == "icmp" {
						opts += fmt.Sprintf(";type=%d;code=%d", c.typ, c.code)
					}
					emit(kind, opts, plain(), "plain", fmt.Sprintf("vpn%d/%s/%s/corner%d", vpn, ov, sizeClass(plen), ci))
				}
			}
		}
	}
	// 3. the IPv4 maximum and one byte more (outside the hypotheses: byte-exact correspondence only)
	for _, kind := range []string{"udp", "icmp"} {
		for vpn := 0; vpn < 2; vpn++ {
			for _, plen := range []int{65507, 65508} {
				if r.Tier != "thorough" && plen == 65508 && vpn == 0 {
					continue
				}
				opts := fmt.Sprintf("vpn=%d;ttl=64;proto=17;ipflags=2;iplen=0;payload=%s", vpn, hx.Hex(payloadOf(plen)))
				if kind == "icmp" {
					opts += ";type=8;code=0"
				}
				emit(kind, opts, plain(), "plain", fmt.Sprintf("vpn%d/noiplen/len%d", vpn, plen))
			}
		}
	}
	// 4. extreme draws: one seeded stream of frames per filler, searched for the first frame whose IP id /
	// source port / ICMP id is at an end of its advertised range -- or outside it
	budget := 1500000
	if r.Tier == "thorough" {
		budget = 8000000
	}
	for _, kind := range []string{"tcp", "udp", "icmp"} {
		base := map[string]string{"tcp": "vpn=1;flags=2", "udp": "vpn=1;ttl=64;proto=17;ipflags=2;iplen=0;payload=-",
			"icmp": "vpn=1;ttl=64;proto=1;ipflags=2;iplen=0;payload=0102;type=8;code=0"}[kind]
		rq := plain()
		seed := rng.Intn(1 << 30)
		found := extremeDraws(kind, base, rq, seed, budget)
		var classes []string
		for class := range found {
			classes = append(classes, class)
		}
		sortStrings(classes)
		for _, class := range classes {
			emit(kind, fmt.Sprintf("%s;seed=%d;skip=%d", base, seed, found[class]), rq, "plain", "extreme/"+class)
		}
	}
	// 5. random
	n := 600
	if r.Tier == "thorough" {
		n = 40000
	}
	for i := 0; i < n; i++ {
		vpn := rng.Intn(2)
		plen := rng.Intn(60)
		switch rng.Intn(8) {
		case 0:
			plen = 0
		case 1:
			plen = 1400 + rng.Intn(110)
		case 2:
			plen = 1 + 2*rng.Intn(30)
		}
		payload := payloadOf(plen)
		iplen := 0
		ov := "noiplen"
		if rng.Intn(4) == 0 {
			iplen = 1 + rng.Intn(65535)
			ov = "iplen"
		}
		rq, shape := req()
		common := fmt.Sprintf("vpn=%d;ttl=%d;proto=%d;ipflags=%d;iplen=%d;payload=%s", vpn, rng.Intn(256), rng.Intn(256), rng.Intn(8), iplen, hx.Hex(payload))
		switch rng.Intn(5) {
		case 0, 1:
			emit("udp", common, rq, shape, fmt.Sprintf("vpn%d/%s/%s", vpn, ov, sizeClass(plen)))
		case 2, 3:
			emit("icmp", common+fmt.Sprintf(";type=%d;code=%d", rng.Intn(256), rng.Intn(256)), rq, shape, fmt.Sprintf("vpn%d/%s/%s", vpn, ov, sizeClass(plen)))
		default:
			emit("arp", "-", rq, shape, "eth")
		}
	}
}

// extremeDraws runs the real filler `budget` times on one seeded math/rand stream and returns, per class
// of extreme header value, the index of the first frame showing it.
func extremeDraws(kind, opts, req string, seed, budget int) map[string]int {
	found := map[string]int{}
	kv := map[string]string{}
	for _, p := range strings.Split(opts, ";") {
		if i := strings.IndexByte(p, '='); i > 0 {
			kv[p[:i]] = p[i+1:]
		}
	}
	atoi := func(k string) int { v, _ := strconv.Atoi(kv[k]); return v }
	rf := strings.Split(req, ",")
	port, _ := strconv.Atoi(rf[4])
	r := &scan.Request{SrcIP: net.IP(hx.UnHex(rf[0])), DstIP: net.IP(hx.UnHex(rf[1])), SrcMAC: hx.UnHex(rf[2]), DstMAC: hx.UnHex(rf[3]), DstPort: uint16(port)}
	mrand.Seed(int64(seed))
	var filler scan.PacketFiller
	switch kind {
	case "tcp":
		var names []string
		for n, b := range tcpFlagBits {
			if atoi("flags")&b != 0 {
				names = append(names, n)
			}
		}
		filler = command.VerifTCPFlagFiller(names, true)
	default:
		v := &command.VerifOpts{VPNMode: true, TTL: uint8(atoi("ttl")), IPFlags: uint8(atoi("ipflags")), IPProto: uint8(atoi("proto")),
			IPLen: uint16(atoi("iplen")), ICMPType: uint8(atoi("type")), ICMPCode: uint8(atoi("code")), Payload: hx.UnHex(kv["payload"])}
		if kind == "udp" {
			filler = command.VerifUDPFiller(v)
		} else {
			filler = command.VerifICMPFiller(v)
		}
	}
	buf := gopacket.NewSerializeBuffer()
	note := func(class string, k int) {
		if _, ok := found[class]; !ok {
			found[class] = k
		}
	}
	for k := 0; k < budget; k++ {
		buf.Clear()
		if err := filler.Fill(buf, r); err != nil {
			break
		}
		b := buf.Bytes()
		if len(b) < 28 {
			break
		}
		switch id := binary.BigEndian.Uint16(b[4:]); id {
		case 0:
			note("ipid-zero", k)
		case 1:
			note("ipid-min", k)
		case 65535:
			note("ipid-max", k)
		}
		if kind == "icmp" {
			switch id := binary.BigEndian.Uint16(b[24:]); id {
			case 0:
				note("icmpid-zero", k)
			case 1:
				note("icmpid-min", k)
			case 65535:
				note("icmpid-max", k)
			}
			continue
		}
		switch sp := binary.BigEndian.Uint16(b[20:]); {
		case sp < 32768:
			note("sport-below", k)
		case sp == 32768:
			note("sport-min", k)
		case sp == 60999:
			note("sport-max", k)
		case sp > 60999:
			note("sport-above", k)
		}
	}
	return found
}
