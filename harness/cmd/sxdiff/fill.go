package main

import (
	"encoding/binary"
	"fmt"
	"net"
	"strconv"
	"strings"

	"github.com/google/gopacket"
	"github.com/v-byte-cpu/sx/command"
	"github.com/v-byte-cpu/sx/pkg/scan"
	"github.com/v-byte-cpu/sx/pkg/scan/arp"
	"github.com/v-byte-cpu/sx/pkg/scan/icmp"
	"github.com/v-byte-cpu/sx/pkg/scan/udp"
	"sxverif/harness/internal/hx"
)

func init() {
	components["fill"] = fillComponent
	replayers["fill"] = func(f []string) string {
		out, _ := runFill(f[1], f[2], f[3])
		return out
	}
}

var tcpFlagBits = map[string]int{"fin": 1, "syn": 2, "rst": 4, "psh": 8, "ack": 16, "urg": 32, "ece": 64, "cwr": 128, "ns": 256}

// opts: kind-specific "k=v;k=v"; req: "src,dst,smac,dmac,port" (hex)
func runFill(kind, opts, req string) (observed string, rnd string) {
	kv := map[string]string{}
	for _, p := range strings.Split(opts, ";") {
		if i := strings.IndexByte(p, '='); i > 0 {
			kv[p[:i]] = p[i+1:]
		}
	}
	atoi := func(k string) int { v, _ := strconv.Atoi(kv[k]); return v }
	rf := strings.Split(req, ",")
	port, _ := strconv.Atoi(rf[4])
	r := &scan.Request{SrcIP: net.IP(hx.UnHex(rf[0])), DstIP: net.IP(hx.UnHex(rf[1])), SrcMAC: hx.UnHex(rf[2]), DstMAC: hx.UnHex(rf[3]), DstPort: uint16(port)}
	vpn := kv["vpn"] == "1"
	var filler scan.PacketFiller
	switch kind {
	case "tcp":
		var names []string
		for n, b := range tcpFlagBits {
			if atoi("flags")&b != 0 {
				names = append(names, n)
			}
		}
		filler = command.VerifTCPFlagFiller(names, vpn)
	case "udp":
		o := []udp.PacketFillerOption{udp.WithTTL(uint8(atoi("ttl"))), udp.WithIPProtocol(uint8(atoi("proto"))), udp.WithIPFlags(uint8(atoi("ipflags"))),
			udp.WithIPTotalLength(uint16(atoi("iplen"))), udp.WithVPNmode(vpn)}
		if kv["payload"] != "-" {
			o = append(o, udp.WithPayload(hx.UnHex(kv["payload"])))
		}
		filler = udp.NewPacketFiller(o...)
	case "icmp":
		o := []icmp.PacketFillerOption{icmp.WithTTL(uint8(atoi("ttl"))), icmp.WithIPProtocol(uint8(atoi("proto"))), icmp.WithIPFlags(uint8(atoi("ipflags"))),
			icmp.WithIPTotalLength(uint16(atoi("iplen"))), icmp.WithType(uint8(atoi("type"))), icmp.WithCode(uint8(atoi("code"))), icmp.WithVPNmode(vpn),
			icmp.WithPayload(hx.UnHex(kv["payload"]))}
		filler = icmp.NewPacketFiller(o...)
	case "arp":
		filler = arp.NewPacketFiller()
	}
	// a dirty buffer: serializers must overwrite every byte they prepend
	buf := gopacket.NewSerializeBuffer()
	junk, _ := buf.PrependBytes(200)
	for i := range junk {
		junk[i] = 0xa5
	}
	buf.Clear()
	var err error
	panicked, _ := hx.Recover(func() { err = filler.Fill(buf, r) })
	if panicked {
		return "PANIC", "0,0,0"
	}
	if err != nil {
		return "ERR", "0,0,0"
	}
	b := buf.Bytes()
	off := 14
	if vpn {
		off = 0
	}
	id, p1, seq := 0, 0, uint32(0)
	if kind != "arp" && len(b) >= off+28 {
		id = int(binary.BigEndian.Uint16(b[off+4:])) - 1
		switch kind {
		case "tcp":
			p1 = int(binary.BigEndian.Uint16(b[off+20:])) - 32768
			seq = binary.BigEndian.Uint32(b[off+24:])
		case "udp":
			p1 = int(binary.BigEndian.Uint16(b[off+20:])) - 32768
		case "icmp":
			p1 = int(binary.BigEndian.Uint16(b[off+24:])) - 1
		}
	}
	return "OK " + hx.Hex(b), fmt.Sprintf("%d,%d,%d", id, p1, seq)
}

func fillComponent(r *hx.Run) {
	r.Rule = "case = (filler kind, options, request) through the real PacketFiller.Fill into a deliberately dirty buffer; the three random fields are read back from the frame and given to the model, every other byte must match; exhaustive over the 2^9 TCP flag sets x 2 link modes, random TTL / IP flags / protocol / --iplen / type / code, payload lengths 0..1500 incl. odd, requests with 4-byte, 16-byte IPv4-mapped, nil and IPv6 addresses and MACs of wrong length; non-trivial class = (kind, link mode, override present, payload parity, request shape, outcome)"
	rng := r.Rng
	ip4 := func() []byte { return []byte{byte(1 + rng.Intn(223)), byte(rng.Intn(256)), byte(rng.Intn(256)), byte(rng.Intn(256))} }
	mac := func() []byte { b := make([]byte, 6); rng.Read(b); return b }
	req := func() (string, string) {
		src, dst, sm, dm := ip4(), ip4(), mac(), mac()
		shape := "plain"
		switch rng.Intn(14) {
		case 0:
			dst = net.IP(dst).To16()
			shape = "dst16"
		case 1:
			src = net.IP(src).To16()
			shape = "src16"
		case 2:
			dst = net.ParseIP("2001:db8::1")
			shape = "dst-v6"
		case 3:
			src = nil
			shape = "src-nil"
		case 4:
			dm = nil
			shape = "dmac-nil"
		case 5:
			sm = sm[:5]
			shape = "smac-short"
		case 6:
			dst = nil
			shape = "dst-nil"
		}
		return fmt.Sprintf("%s,%s,%s,%s,%d", hx.Hex(src), hx.Hex(dst), hx.Hex(sm), hx.Hex(dm), rng.Intn(65536)), shape
	}
	emit := func(kind, opts, rq, shape, extra string) {
		obs, rnd := runFill(kind, opts, rq)
		out := strings.SplitN(obs, " ", 2)[0]
		r.Count(kind + "/" + out)
		r.Case(kind+"/"+extra+"/"+shape+"/"+out, "fill", kind, opts, rq, rnd, obs)
	}
	for flags := 0; flags < 512; flags++ {
		for vpn := 0; vpn < 2; vpn++ {
			if r.Tier != "thorough" && (flags*2+vpn)%3 != 0 && flags > 40 {
				continue
			}
			rq, shape := req()
			emit("tcp", fmt.Sprintf("vpn=%d;flags=%d", vpn, flags), rq, shape, fmt.Sprintf("vpn%d", vpn))
		}
	}
	n := 500
	if r.Tier == "thorough" {
		n = 8000
	}
	for i := 0; i < n; i++ {
		vpn := rng.Intn(2)
		plen := rng.Intn(60)
		switch rng.Intn(8) {
		case 0:
			plen = 0
		case 1:
			plen = 1400 + rng.Intn(100)
		case 2:
			plen = 1 + 2*rng.Intn(30)
		}
		payload := make([]byte, plen)
		rng.Read(payload)
		iplen := 0
		ov := "noiplen"
		if rng.Intn(4) == 0 {
			iplen = 1 + rng.Intn(65535)
			ov = "iplen"
		}
		par := "even"
		if plen%2 == 1 {
			par = "odd"
		}
		rq, shape := req()
		common := fmt.Sprintf("vpn=%d;ttl=%d;proto=%d;ipflags=%d;iplen=%d;payload=%s", vpn, rng.Intn(256), rng.Intn(256), rng.Intn(8), iplen, hx.Hex(payload))
		switch rng.Intn(5) {
		case 0, 1:
			emit("udp", common, rq, shape, fmt.Sprintf("vpn%d/%s/%s", vpn, ov, par))
		case 2, 3:
			emit("icmp", common+fmt.Sprintf(";type=%d;code=%d", rng.Intn(256), rng.Intn(256)), rq, shape, fmt.Sprintf("vpn%d/%s/%s", vpn, ov, par))
		default:
			emit("arp", "-", rq, shape, "eth")
		}
	}
}
