package main

import (
	"errors"
	"encoding/binary"
	"fmt"
	"io"
	"net"
	"sort"
	"strconv"
	"strings"
	"time"

	"github.com/google/gopacket"
	"github.com/v-byte-cpu/sx/command"
	"github.com/v-byte-cpu/sx/pkg/scan"
	"github.com/yl2chen/cidranger"
	"sxverif/harness/internal/hx"
)

func init() {
	components["parse"] = parseComponent
	replayers["pports"] = func(f []string) string { return runPPorts(string(hx.UnHex(f[1]))) }
	replayers["prate"] = func(f []string) string { return runPRate(string(hx.UnHex(f[1]))) }
	replayers["ppayload"] = func(f []string) string { return runPPayload(string(hx.UnHex(f[1]))) }
	replayers["pipflags"] = func(f []string) string { return runPIPFlags(string(hx.UnHex(f[1]))) }
	replayers["ptcpflags"] = func(f []string) string { return runPTCPFlags(string(hx.UnHex(f[1]))) }
	replayers["pportsfile"] = func(f []string) string { return runPPortsFile(string(hx.UnHex(f[1]))) }
	for _, tag := range []string{"pportsfault", "pexclfault"} {
		tag := tag
		replayers[tag] = func(f []string) string {
			at, _ := strconv.Atoi(f[2])
			return runPFault(tag, string(hx.UnHex(f[1])), at)
		}
	}
	replayers["pexclfile"] = func(f []string) string { return runPExclFile(string(hx.UnHex(f[1]))) }
}

func guard(f func() string) (out string) {
	defer func() {
		if e := recover(); e != nil {
			out = "PANIC"
		}
	}()
	return f()
}

func portsStr(rs []*scan.PortRange) string {
	var ps []string
	for _, r := range rs {
		ps = append(ps, fmt.Sprintf("%d-%d", r.StartPort, r.EndPort))
	}
	if len(ps) == 0 {
		return "OK -"
	}
	return "OK " + strings.Join(ps, ",")
}

func runPPorts(s string) string {
	return guard(func() string {
		rs, err := command.VerifParsePortRanges(s)
		if err != nil {
			return "ERR"
		}
		return portsStr(rs)
	})
}

func durOut(s string) string {
	d, err := time.ParseDuration(s)
	if err != nil {
		return "E"
	}
	return strconv.FormatInt(int64(d), 10)
}

func runPRate(s string) string {
	return guard(func() string {
		n, w, err := command.VerifParseRateLimit(s)
		if err != nil {
			return "ERR"
		}
		return fmt.Sprintf("OK %d %d", n, int64(w))
	})
}

func runPPayload(s string) string {
	return guard(func() string {
		b, err := command.VerifParsePacketPayload(s)
		if err != nil {
			return "ERR"
		}
		return "OK " + hx.Hex(b)
	})
}

func runPIPFlags(s string) string {
	return guard(func() string {
		v, err := command.VerifParseIPFlags(s)
		if err != nil {
			return "ERR"
		}
		return fmt.Sprintf("OK %d", v)
	})
}

// the nine flag bits as they appear in a frame the real filler builds: NS<<8 | byte 13
func runPTCPFlags(s string) string {
	return guard(func() string {
		names, err := command.VerifParseTCPFlags(s)
		if err != nil {
			return "ERR"
		}
		filler := command.VerifTCPFlagFiller(names, true)
		buf := gopacket.NewSerializeBuffer()
		req := &scan.Request{SrcIP: net.IPv4(10, 0, 0, 1).To4(), DstIP: net.IPv4(10, 0, 0, 2).To4(), DstPort: 80}
		if err := filler.Fill(buf, req); err != nil {
			return "FILLERR " + err.Error()
		}
		b := buf.Bytes()
		word := binary.BigEndian.Uint16(b[32:34]) // data offset / NS / flags of the TCP header (IHL = 5, no Ethernet)
		nm := strings.Join(names, ",")
		if nm == "" {
			nm = "-"
		}
		return fmt.Sprintf("OK %s %d", nm, word&0x1ff)
	})
}

type strCloser struct{ io.Reader }

func (strCloser) Close() error { return nil }

func opener(data string) command.VerifOpenFile {
	return func() (io.ReadCloser, error) { return strCloser{strings.NewReader(data)}, nil }
}

// faultyReader delivers data[:at] (in small chunks) and then fails with a non-EOF error, as a disk
// error, a directory opened as a file (EISDIR) or a vanished NFS mount would
type faultyReader struct {
	data []byte
	pos  int
	at   int
}

func (f *faultyReader) Read(p []byte) (int, error) {
	if f.pos >= f.at {
		return 0, errors.New("read: input/output error")
	}
	n := f.at - f.pos
	if n > len(p) {
		n = len(p)
	}
	if n > 7 {
		n = 7
	}
	copy(p, f.data[f.pos:f.pos+n])
	f.pos += n
	return n, nil
}
func (f *faultyReader) Close() error { return nil }

func faultyOpener(data string, at int) command.VerifOpenFile {
	return func() (io.ReadCloser, error) { return &faultyReader{data: []byte(data), at: at}, nil }
}

func runPFault(tag, data string, at int) string {
	return guard(func() string {
		var err error
		if tag == "pportsfault" {
			_, err = command.VerifParsePortsFile(faultyOpener(data, at))
		} else {
			_, err = command.VerifParseExcludeFile(faultyOpener(data, at))
		}
		if err != nil {
			return "ERR"
		}
		return "OK"
	})
}

func runPPortsFile(data string) string {
	return guard(func() string {
		rs, err := command.VerifParsePortsFile(opener(data))
		if err != nil {
			return "ERR"
		}
		return portsStr(rs)
	})
}

func runPExclFile(data string) string {
	return guard(func() string {
		c, err := command.VerifParseExcludeFile(opener(data))
		if err != nil {
			return "ERR"
		}
		rg, ok := c.(cidranger.Ranger)
		if !ok {
			return "OK ?"
		}
		_, all4, _ := net.ParseCIDR("0.0.0.0/0")
		entries, err := rg.CoveredNetworks(*all4)
		if err != nil {
			return "OK ?" + err.Error()
		}
		_, all6, _ := net.ParseCIDR("::/0")
		e6, _ := rg.CoveredNetworks(*all6)
		var out []string
		for _, e := range entries {
			n := e.Network()
			ones, _ := n.Mask.Size()
			out = append(out, fmt.Sprintf("%d/%d", binary.BigEndian.Uint32(n.IP.To4()), ones))
		}
		for range e6 {
			out = append(out, "v6")
		}
		sort.Strings(out)
		if len(out) == 0 {
			return "OK -"
		}
		return "OK " + strings.Join(out, ",")
	})
}

func parseComponent(r *hx.Run) {
	r.Rule = "cases = strings through the real option parsers (ports, rate, payload, ip flags, tcp flags → real filler → flag bits of a real frame, ports file, exclusion file); grammar-derived valid strings, canonical renderings of random values, all 2^9 tcp and 2^3 ip flag subsets (thorough: every order of small subsets), mutations (empty, huge, negative, whitespace, repeated separators, unicode digits, NUL, over-long lines); non-trivial class = (parser, family, accepted|refused)"
	rng := r.Rng
	scale := 1
	if r.Tier == "thorough" {
		scale = 120
	}
	emit := func(tag, family, s, obs string, extra ...string) {
		verdict := "refused"
		if strings.HasPrefix(obs, "OK") {
			verdict = "accepted"
		} else if obs == "PANIC" {
			verdict = "panic"
		}
		r.Count(tag + "/" + verdict)
		fields := append([]string{tag, hx.HexS(s)}, extra...)
		fields = append(fields, obs)
		r.Case(tag+"/"+family+"/"+verdict, fields...)
	}
	mutate := func(s string) string {
		b := []byte(s)
		if len(b) == 0 {
			return "-"
		}
		const repl = "-,/ 0+9a_\x00.#\t"
		for k := 1 + rng.Intn(2); k > 0 && len(b) > 0; k-- {
			pos := rng.Intn(len(b))
			switch rng.Intn(3) {
			case 0:
				b[pos] = repl[rng.Intn(len(repl))]
			case 1:
				b = append(b[:pos], b[pos+1:]...)
			case 2:
				b = append(b[:pos], append([]byte{repl[rng.Intn(len(repl))]}, b[pos:]...)...)
			}
		}
		return string(b)
	}

	// ---- ports ----
	randPorts := func() string {
		var ps []string
		for k := 1 + rng.Intn(4); k > 0; k-- {
			lo := rng.Intn(65536)
			switch rng.Intn(3) {
			case 0:
				ps = append(ps, strconv.Itoa(lo))
			case 1:
				ps = append(ps, fmt.Sprintf("%d-%d", lo, rng.Intn(65536)))
			default:
				ps = append(ps, fmt.Sprintf("%d-%d", lo, lo))
			}
		}
		return strings.Join(ps, ",")
	}
	for _, s := range []string{"", "0", "65535", "65536", "1-2-3", "1-", "-1", "-", ",", "1,,2", "1, 2", " 1", "1 ", "+1", "0080", "0x50", "80-0x50",
		"１", "1\x00", "99999999999999999999", "1-99999999999999999999", "22,80-443", "1_000", "1-2,3-4-5", "5-1", "١", "80–90"} {
		emit("pports", "fixed", s, runPPorts(s))
	}
	for i := 0; i < 300*scale; i++ {
		s := randPorts()
		emit("pports", "valid", s, runPPorts(s))
		if i%2 == 0 {
			m := mutate(s)
			emit("pports", "mutated", m, runPPorts(m))
		}
	}

	// ---- rate ----
	rate := func(fam, s string) {
		parts := strings.Split(s, "/")
		dw, d1 := "-", "-"
		if len(parts) >= 2 {
			dw, d1 = durOut(parts[1]), durOut("1"+parts[1])
		}
		emit("prate", fam, s, runPRate(s), dw, d1)
	}
	units := []string{"ns", "us", "µs", "μs", "ms", "s", "m", "h"}
	for _, s := range []string{"", "0", "1", "1000/s", "500/7s", "10/.5s", "10/0.5s", "10/+5s", "10/-5s", "10/", "/s", "1/2/3", "-1/s", "+5/s", "2147483647/s",
		"2147483648/s", "10/1h30m", "10/h", "10/1.5h", "10/0", "10/00s", "10/ s", "10 /s", "1e3/s", "10/µs", "10/1µs", "10/S", "10/s ", "10/9223372036s", "10/9223372037s",
		"10/.s", "10/1.s", "10/..5s", "10/x", "10/\x00", "0x10/s", "1_0/s", "10/1_0s"} {
		rate("fixed", s)
	}
	for i := 0; i < 250*scale; i++ {
		n := rng.Int63n(1 << 31)
		if rng.Intn(3) == 0 {
			n = int64(rng.Intn(2000))
		}
		u := units[rng.Intn(len(units))]
		var s string
		switch rng.Intn(5) {
		case 0:
			s = fmt.Sprintf("%d", n)
		case 1:
			s = fmt.Sprintf("%d/%s", n, u)
		case 2:
			s = fmt.Sprintf("%d/%d%s", n, rng.Intn(5000), u)
		case 3:
			s = fmt.Sprintf("%d/%d.%d%s", n, rng.Intn(50), rng.Intn(1000), u)
		case 4:
			s = fmt.Sprintf("%d/.%d%s", n, rng.Intn(1000), u)
		}
		rate("valid", s)
		if i%2 == 0 {
			rate("mutated", mutate(s))
		}
	}

	// ---- payload ----
	for _, s := range []string{"", "abc", `\x01\x02\x03`, `\n\r\t\a\b\f\v\\\"`, `\'`, `"`, `a"b`, "a\nb", `\`, `\x`, `\x1`, `\x1g`, `\377`, `\400`, `\08`, `\8`, `é`, `\ud800`,
		`\U0001F600`, `\U00110000`, `\u12`, "é", "\xff", "a\xffb", "\xc3", "\xed\xa0\x80", "\xf4\x90\x80\x80", "\xc0\x80", `\xff\xfe`, "日本", `tab	tab`, `\q`, `\x00`, "\x00"} {
		emit("ppayload", "fixed", s, runPPayload(s))
	}
	for i := 0; i < 300*scale; i++ {
		n := rng.Intn(40)
		raw := make([]byte, n)
		rng.Read(raw)
		var sb strings.Builder
		for _, b := range raw {
			fmt.Fprintf(&sb, `\x%02x`, b)
		}
		emit("ppayload", "hex-canonical", sb.String(), runPPayload(sb.String()))
		// mixed escapes
		var mb strings.Builder
		for j := rng.Intn(12); j > 0; j-- {
			switch rng.Intn(8) {
			case 0:
				mb.WriteString([]string{`\n`, `\t`, `\\`, `\"`, `\a`, `\v`, `\r`, `\f`, `\b`}[rng.Intn(9)])
			case 1:
				fmt.Fprintf(&mb, `\x%02X`, rng.Intn(256))
			case 2:
				fmt.Fprintf(&mb, `\%03o`, rng.Intn(512))
			case 3:
				fmt.Fprintf(&mb, `\u%04x`, rng.Intn(65536))
			case 4:
				mb.WriteRune(rune(0x20 + rng.Intn(0x5f)))
			case 5:
				mb.WriteRune([]rune{'é', '日', '😀', 'ß'}[rng.Intn(4)])
			case 6:
				mb.WriteByte(byte(rng.Intn(256)))
			case 7:
				fmt.Fprintf(&mb, `\U%08x`, rng.Intn(0x120000))
			}
		}
		emit("ppayload", "mixed", mb.String(), runPPayload(mb.String()))
	}

	// ---- IP flags: all subsets, orders, cases ----
	ipNames := []string{"df", "evil", "mf"}
	flagCase := func(tag string, s string) {
		lowered := strings.ToLower(s)
		if tag == "pipflags" {
			emit(tag, "flags", s, runPIPFlags(s), hx.HexS(lowered))
		} else {
			emit(tag, "flags", s, runPTCPFlags(s), hx.HexS(lowered))
		}
	}
	randCase := func(s string) string {
		b := []byte(s)
		for i := range b {
			if rng.Intn(2) == 0 && b[i] >= 'a' && b[i] <= 'z' {
				b[i] -= 32
			}
		}
		return string(b)
	}
	for mask := 0; mask < 8; mask++ {
		var sel []string
		for i, n := range ipNames {
			if mask&(1<<i) != 0 {
				sel = append(sel, n)
			}
		}
		flagCase("pipflags", strings.Join(sel, ","))
		rng.Shuffle(len(sel), func(i, j int) { sel[i], sel[j] = sel[j], sel[i] })
		flagCase("pipflags", randCase(strings.Join(sel, ",")))
	}
	for _, s := range []string{"DF", "df,df", "df,", ",df", "df, mf", "d f", "dff", "evİl", "evıl", "DF,EVIL,MF", "df;mf", "none", "0", "df\x00", "ſyn"} {
		flagCase("pipflags", s)
	}
	tcpNames := command.VerifTCPFlagNames()
	sort.Strings(tcpNames)
	for mask := 0; mask < 1<<len(tcpNames); mask++ {
		var sel []string
		for i, n := range tcpNames {
			if mask&(1<<i) != 0 {
				sel = append(sel, n)
			}
		}
		if r.Tier == "thorough" || mask%3 == 0 || len(sel) <= 2 {
			flagCase("ptcpflags", strings.Join(sel, ","))
		}
		rng.Shuffle(len(sel), func(i, j int) { sel[i], sel[j] = sel[j], sel[i] })
		if rng.Intn(3) == 0 && len(sel) > 0 {
			sel = append(sel, sel[rng.Intn(len(sel))]) // repeat
		}
		flagCase("ptcpflags", randCase(strings.Join(sel, ",")))
	}
	for _, s := range []string{"SYN", "syn,", ",syn", "syn, ack", "sin", "synack", "syn;ack", "ſyn", "Ack,PSH", "ns,NS", "\x00"} {
		flagCase("ptcpflags", s)
	}

	// ---- ports file / exclusion file ----
	fileLines := func(entry func() string) string {
		var sb strings.Builder
		for k := rng.Intn(7); k > 0; k-- {
			switch rng.Intn(9) {
			case 0:
				sb.WriteString("# comment\n")
			case 1:
				sb.WriteString("\n")
			case 2:
				sb.WriteString("   \n")
			case 3:
				sb.WriteString("  " + entry() + "  # trailing\n")
			case 4:
				sb.WriteString(entry() + "\r\n")
			default:
				sb.WriteString(entry() + "\n")
			}
		}
		if rng.Intn(3) == 0 {
			sb.WriteString(entry()) // no final newline
		}
		return sb.String()
	}
	portEntry := func() string {
		lo := rng.Intn(65536)
		if rng.Intn(2) == 0 {
			return strconv.Itoa(lo)
		}
		return fmt.Sprintf("%d-%d", lo, rng.Intn(65536))
	}
	netEntry := func() string {
		v := rng.Uint32()
		q := fmt.Sprintf("%d.%d.%d.%d", byte(v>>24), byte(v>>16), byte(v>>8), byte(v))
		if rng.Intn(2) == 0 {
			return q
		}
		return fmt.Sprintf("%s/%d", q, rng.Intn(33))
	}
	long := strings.Repeat("1", 65536)
	for _, d := range []string{"", "\n", "#\n", "80", "80\n443\n", "80\n\n443", "80 # http\n", "#80\n", "80#\n", "\t80\n", "80\t\n", "80\n1-2-3\n", "x\n", "80\n" + long + "\n", long,
		strings.Repeat(" ", 65535) + "\n80\n", strings.Repeat(" ", 65536) + "\n80\n", "80\r\n", "80\r", "80\n\r\n", "8 0\n", "80 443\n"} {
		emit("pportsfile", "fixed", d, runPPortsFile(d))
	}
	for _, d := range []string{"", "10.0.0.0/8\n", "10.0.0.1\n192.168.0.0/16 # rfc1918\n", "::1\n", "10.0.0.0/8\n2001:db8::/32\n", "10.0.0.0/8\n" + long + "\n", "# only\n\n", "10.0.0.0/33\n",
		"10.0.0.1\n10.0.0.1\n", "10.0.0.0/8\n10.1.0.0/16\n", " 1.2.3.4 \n", "1.2.3.4/24\n", "\t1.2.3.4\n", "1.2.3.4\r\n5.6.7.8", "::ffff:1.2.3.4\n"} {
		emit("pexclfile", "fixed", d, runPExclFile(d))
	}
	// files longer than any read buffer (4 KiB, 64 KiB): hundreds or thousands of valid entries, all of them must
	// come out, in order (a reader that hands out slices of its buffer loses the early ones)
	for i := 0; i < 3+scale/4; i++ {
		var pb, nb strings.Builder
		n := 300 + rng.Intn(900)
		if i%3 == 2 {
			n = 6000 + rng.Intn(3000)
		}
		for j := 0; j < n; j++ {
			pb.WriteString(portEntry() + "\n")
			nb.WriteString(netEntry() + "\n")
		}
		emit("pportsfile", "big", pb.String(), runPPortsFile(pb.String()))
		emit("pexclfile", "big", nb.String(), runPExclFile(nb.String()))
	}
	for i := 0; i < 120*scale; i++ {
		d := fileLines(portEntry)
		emit("pportsfile", "valid", d, runPPortsFile(d))
		d = fileLines(netEntry)
		emit("pexclfile", "valid", d, runPExclFile(d))
		if i%3 == 0 {
			// a read that fails part-way (also right at the start, and right at the end of the data)
			for _, tg := range []string{"pportsfault", "pexclfault"} {
				d := fileLines(portEntry)
				if tg == "pexclfault" {
					d = fileLines(netEntry)
				}
				at := 0
				switch rng.Intn(4) {
				case 1:
					at = len(d)
				case 2, 3:
					at = rng.Intn(len(d) + 1)
				}
				emit(tg, "fault", d, runPFault(tg, d, at), strconv.Itoa(at))
			}
		}
		if i%2 == 0 {
			m := mutate(fileLines(portEntry))
			emit("pportsfile", "mutated", m, runPPortsFile(m))
			m = mutate(fileLines(netEntry))
			emit("pexclfile", "mutated", m, runPExclFile(m))
		}
	}
}
