package main

import (
	"runtime"
	"bufio"
	"context"
	"encoding/binary"
	"errors"
	"fmt"
	"io"
	"net"
	"os"
	"path/filepath"
	"sort"
	"strconv"
	"strings"
	"sync"
	"time"

	"github.com/v-byte-cpu/sx/command"
	"github.com/v-byte-cpu/sx/pkg/packet"
	"github.com/v-byte-cpu/sx/pkg/scan"
	"github.com/v-byte-cpu/sx/pkg/scan/arp"
	"sxverif/harness/internal/hx"
)

func init() {
	components["gen"] = genComponent
	replayers["gen"] = func(f []string) string {
		return runGen(f[1], f[2], f[3], f[4], f[5], f[6], f[7], f[8])
	}
}

// ---------- encoding of target-file lines ----------

type genLine struct {
	class string // J, L, E
	addr  string // "-", "4,<val>", "6,<id>"
	port  int64
	text  string // the actual line written to the file
}

func v6Text(id int) string { return fmt.Sprintf("2001:db8::%x", id+1) }

func v4Text(v uint32) string {
	return fmt.Sprintf("%d.%d.%d.%d", byte(v>>24), byte(v>>16), byte(v>>8), byte(v))
}

func (l genLine) enc() string {
	switch l.class {
	case "J", "L":
		return l.class
	}
	return fmt.Sprintf("E,%s,%d", l.addr, l.port)
}

func decodeLines(s string) []genLine {
	if s == "" {
		return nil
	}
	var out []genLine
	for _, part := range strings.Split(s, ";") {
		f := strings.Split(part, ",")
		switch f[0] {
		case "J":
			out = append(out, genLine{class: "J", text: "{bad"})
		case "L":
			out = append(out, genLine{class: "L", text: `{"ip":"` + strings.Repeat("1", 70000) + `"}`})
		case "E":
			var l genLine
			l.class = "E"
			var ipText string
			hasIP := true
			if f[1] == "-" {
				l.addr = "-"
				hasIP = false
				l.port, _ = strconv.ParseInt(f[2], 10, 64)
			} else {
				l.addr = f[1] + "," + f[2]
				v, _ := strconv.ParseUint(f[2], 10, 64)
				if f[1] == "4" {
					ipText = v4Text(uint32(v))
				} else {
					ipText = v6Text(int(v))
				}
				l.port, _ = strconv.ParseInt(f[3], 10, 64)
			}
			if hasIP {
				l.text = fmt.Sprintf(`{"ip":"%s","port":%d}`, ipText, l.port)
			} else {
				l.text = fmt.Sprintf(`{"port":%d}`, l.port)
			}
			out = append(out, l)
		}
	}
	return out
}

// textual variants of the same line class, so that the file does not always look canonical
func varyLine(rng interface{ Intn(int) int }, l genLine) string {
	if l.class != "E" {
		if l.class == "J" {
			return []string{"{bad", "", "[]", `{"ip":5}`, `{"port":"80"}`, `{"ip":"1.2.3.4","port":1.5}`, `{"ip":"1.2.3.4","port":99999999999999999999}`, "nul", `{"ip":"1.2.3.4"`, `{"ip":"1.2.3.4"} x`,
				// a complete entry followed by something else on the same line (two entries that lost their newline, a stray
				// brace, a comment): not an entry
				`{"ip":"1.2.3.4","port":80} x`, `{"ip":"1.2.3.4","port":80}{"ip":"1.2.3.5","port":80}`, `{"ip":"1.2.3.4","port":80}}`,
				`{"ip":"1.2.3.4","port":80} # comment`, `{"ip":"1.2.3.4","port":80},`}[rng.Intn(15)]
		}
		return l.text
	}
	if l.addr == "-" {
		switch rng.Intn(6) {
		case 0:
			if l.port == 0 {
				return "{}"
			}
		case 1:
			if l.port == 0 {
				return "null"
			}
		case 2:
			return fmt.Sprintf(`{"ip":"","port":%d}`, l.port)
		case 3:
			return fmt.Sprintf(`{"ip":"not-an-ip","port":%d}`, l.port)
		case 4:
			return fmt.Sprintf(`{"ip":null,"port":%d}`, l.port)
		}
		return l.text
	}
	switch rng.Intn(5) {
	case 0:
		return strings.Replace(l.text, `{"ip"`, `{"x":[1,{"y":2}],"ip"`, 1)
	case 1:
		if l.port == 0 {
			return strings.Replace(l.text, `,"port":0`, ``, 1)
		}
	case 2:
		return " " + strings.Replace(l.text, ",", " , ", 1) + " "
	case 3:
		// duplicate key: last wins
		return strings.Replace(l.text, `{"ip"`, `{"ip":"9.9.9.9","ip"`, 1)
	}
	return l.text
}

// ---------- observed-request canonical form ----------

func causeOf(err error) string {
	if err == nil {
		return "-"
	}
	// generator errors travel wrapped in small structs without Unwrap: classify by identity or message
	msg := err.Error()
	switch {
	case errors.Is(err, scan.ErrJSON) || msg == scan.ErrJSON.Error():
		return "json"
	case errors.Is(err, scan.ErrIP) || msg == scan.ErrIP.Error():
		return "ip"
	case errors.Is(err, scan.ErrPort) || msg == scan.ErrPort.Error():
		return "port"
	case errors.Is(err, bufio.ErrTooLong) || msg == bufio.ErrTooLong.Error():
		return "tooLong"
	case errors.Is(err, scan.ErrPortRange) || msg == scan.ErrPortRange.Error():
		return "portRange"
	case errors.Is(err, scan.ErrSubnet) || msg == scan.ErrSubnet.Error():
		return "subnet"
	case errors.Is(err, scan.VerifErrRangeSize) || msg == scan.VerifErrRangeSize.Error():
		return "rangeSize"
	case strings.HasPrefix(msg, "no destination MAC address"):
		return "noMAC"
	case strings.Contains(msg, "Invalid network"):
		return "contains"
	case errors.Is(err, os.ErrNotExist):
		return "open_"
	}
	return "other:" + strings.ReplaceAll(strings.ReplaceAll(msg, "\t", " "), "|", "/")
}

func ipCanon(ip net.IP) string {
	if ip == nil {
		return "-"
	}
	if v4 := ip.To4(); v4 != nil {
		return "4:" + strconv.FormatUint(uint64(binary.BigEndian.Uint32(v4)), 10)
	}
	// 2001:db8::<id+1>
	if len(ip) == 16 && ip[0] == 0x20 && ip[1] == 0x01 {
		return "6:" + strconv.FormatUint(uint64(binary.BigEndian.Uint32(ip[12:]))-1, 10)
	}
	return "6:?" + ip.String()
}

func macCanon(m []byte) string {
	if m == nil {
		return "-"
	}
	var v uint64
	for _, b := range m {
		v = v<<8 | uint64(b)
	}
	return strconv.FormatUint(v, 10)
}

func macBytes(v uint64) net.HardwareAddr {
	return net.HardwareAddr{byte(v >> 40), byte(v >> 32), byte(v >> 24), byte(v >> 16), byte(v >> 8), byte(v)}
}

func reqCanon(r *scan.Request) string {
	return fmt.Sprintf("%s,%d,%s,%s", ipCanon(r.DstIP), r.DstPort, macCanon(r.DstMAC), causeOf(r.Err))
}

// ---------- running the real generators ----------

var stdinMu sync.Mutex

func parsePortsSpec(s string) []*scan.PortRange {
	if s == "-" {
		return nil
	}
	var out []*scan.PortRange
	for _, p := range strings.Split(s, ",") {
		lh := strings.Split(p, "-")
		lo, _ := strconv.Atoi(lh[0])
		hi, _ := strconv.Atoi(lh[1])
		out = append(out, &scan.PortRange{StartPort: uint16(lo), EndPort: uint16(hi)})
	}
	return out
}

type nopCloser struct{ io.Reader }

func (nopCloser) Close() error { return nil }

// runGen executes one engine run's worth of request generation on the real code.
func runGen(kind, src, fullPorts, chunkPorts, excl, cache, gw, ord string) (observed string) {
	defer func() {
		if e := recover(); e != nil {
			observed = fmt.Sprintf("PANIC %v", e)
		}
	}()
	work := os.Getenv("VERIF_WORK")
	if work == "" {
		work = os.TempDir()
	}
	dir, err := os.MkdirTemp(work, "gen")
	if err != nil {
		panic(err)
	}
	defer os.RemoveAll(dir)

	opts := &command.VerifOpts{Ports: parsePortsSpec(fullPorts), Workers: 4,
		TTL: 64, IPFlags: 2, IPProto: 17, ICMPType: 8}
	r := &scan.Range{Ports: parsePortsSpec(chunkPorts), SrcIP: net.IPv4(10, 9, 9, 9).To4(),
		SrcMAC: net.HardwareAddr{2, 0, 0, 0, 0, 1}}
	if kind == "pkt-icmp" {
		opts.IPProto = 1
	}

	// source
	useStdin := false
	switch {
	case strings.HasPrefix(src, "net:"):
		bo := strings.Split(src[4:], "/")
		base, _ := strconv.ParseUint(bo[0], 10, 64)
		ones, _ := strconv.Atoi(bo[1])
		if ones <= 21 {
			// a crowd: as many packet workers as the commands start on this machine (runtime.NumCPU(), at least 8)
			opts.Workers = runtime.NumCPU()
			if opts.Workers < 8 {
				opts.Workers = 8
			}
		}
		ip := make(net.IP, 4)
		binary.BigEndian.PutUint32(ip, uint32(base))
		r.DstSubnet = &net.IPNet{IP: ip, Mask: net.CIDRMask(ones, 32)}
	case src == "nonet":
	case strings.HasPrefix(src, "file:"):
		rest := src[5:]
		useStdin = rest[0] == '1'
		lines := decodeLines(rest[2:])
		// the literal text of each line is derived deterministically from the encoding + position
		var sb strings.Builder
		for i, l := range lines {
			sb.WriteString(varyLine(detRng{uint64(i)*2654435761 + uint64(len(rest))}, l))
			sb.WriteByte('\n')
		}
		content := sb.String()
		if useStdin {
			opts.IPFile = "-"
			pr, pw, err := os.Pipe()
			if err != nil {
				panic(err)
			}
			stdinMu.Lock()
			old := os.Stdin
			os.Stdin = pr
			defer func() { os.Stdin = old; pr.Close(); stdinMu.Unlock() }()
			go func() { io.WriteString(pw, content); pw.Close() }()
		} else {
			opts.IPFile = filepath.Join(dir, "targets.jsonl")
			if err := os.WriteFile(opts.IPFile, []byte(content), 0o644); err != nil {
				panic(err)
			}
		}
	case src == "nofile":
		opts.IPFile = filepath.Join(dir, "does-not-exist.jsonl")
	}

	// exclusion list through the real --exclude parser
	if excl != "none" {
		var sb strings.Builder
		sb.WriteString("# excluded\n\n")
		if excl != "-" {
			for i, e := range strings.Split(excl, ",") {
				bo := strings.Split(e, "/")
				base, _ := strconv.ParseUint(bo[0], 10, 64)
				if bo[1] == "32" && i%2 == 0 {
					sb.WriteString("  " + v4Text(uint32(base)) + " # host\n")
				} else {
					sb.WriteString(v4Text(uint32(base)) + "/" + bo[1] + "\n")
				}
			}
		}
		c, err := command.VerifParseExcludeFile(func() (io.ReadCloser, error) {
			return nopCloser{strings.NewReader(sb.String())}, nil
		})
		if err != nil {
			return "FAIL exclude:" + err.Error()
		}
		opts.Exclude = c
	}

	// ARP cache + gateway
	if cache != "none" {
		opts.Cache = arp.NewCache()
		if cache != "-" {
			for _, e := range strings.Split(cache, ",") {
				f := strings.Split(e, ":")
				v, _ := strconv.ParseUint(f[0], 10, 64)
				m, _ := strconv.ParseUint(f[2], 10, 64)
				ip := make(net.IP, 4)
				binary.BigEndian.PutUint32(ip, uint32(v))
				if f[1] == "1" {
					ip = ip.To16()
				}
				opts.Cache.Put(ip, macBytes(m))
			}
		}
		if gw != "-" {
			m, _ := strconv.ParseUint(gw, 10, 64)
			opts.GatewayMAC = macBytes(m)
		}
	}

	ctx, cancel := context.WithTimeout(context.Background(), 60*time.Second)
	defer cancel()
	var reqs []string
	switch kind {
	case "req-pkt", "req-gen":
		var g scan.RequestGenerator
		if kind == "req-pkt" {
			g = command.VerifPacketIPPortGenerator(opts)
			if opts.Cache != nil {
				g = arp.NewCacheRequestGenerator(g, opts.GatewayMAC, opts.Cache)
			}
		} else {
			g = command.VerifGenericIPPortGenerator(opts)
		}
		ch, err := g.GenerateRequests(ctx, r)
		if err != nil {
			return "FAIL " + causeOf(err)
		}
		// the requests are looked at only when the stream has ended: the engine's workers hold a request (while
		// they wait for the rate limiter, a slow target, …) long after later ones were generated, so a generator that
		// recycles or aliases what it has handed out shows up as a request that changed afterwards
		var held []*scan.Request
		for rq := range ch {
			held = append(held, rq)
		}
		for _, rq := range held {
			reqs = append(reqs, reqCanon(rq))
		}
	case "pkt-tcp", "pkt-udp", "pkt-icmp", "pkt-arp":
		var src scan.PacketSource
		switch kind {
		case "pkt-tcp":
			src = command.VerifTCPScanMethod(ctx, opts, "tcpsyn", nil, nil, nil)
		case "pkt-udp":
			src = command.VerifUDPScanMethod(ctx, opts)
		case "pkt-icmp":
			src = command.VerifICMPScanMethod(ctx, opts)
		case "pkt-arp":
			src = command.VerifARPScanMethod(ctx, opts)
		}
		for pkt := range src.Packets(ctx, r) {
			reqs = append(reqs, pktCanon(kind, pkt))
		}
		// a generator that fails to start shows up as a single error packet without any target
		if len(reqs) == 1 && strings.HasPrefix(reqs[0], "-,0,-,") && (strings.HasSuffix(reqs[0], "portRange") ||
			strings.HasSuffix(reqs[0], "subnet") || strings.HasSuffix(reqs[0], "open_")) {
			return "FAIL " + reqs[0][len("-,0,-,"):]
		}
	default:
		panic("bad kind " + kind)
	}
	if ctx.Err() != nil {
		return "TIMEOUT"
	}
	if ord == "S" {
		sort.Strings(reqs)
	}
	return "OK " + strings.Join(reqs, "|")
}

// pktCanon reads destination IP / port / MAC back out of the frame a real filler produced.
func pktCanon(kind string, pkt *packet.BufferData) string {
	if pkt.Err != nil {
		c := causeOf(pkt.Err)
		return "-,0,-," + c
	}
	b := pkt.Buf.Bytes()
	defer packet.FreeSerializeBuffer(pkt.Buf)
	mac := macCanon(b[0:6])
	switch kind {
	case "pkt-arp":
		if len(b) < 42 {
			return "short-frame"
		}
		return fmt.Sprintf("4:%d,0,%s,-", binary.BigEndian.Uint32(b[38:42]), mac)
	case "pkt-icmp":
		return fmt.Sprintf("4:%d,0,%s,-", binary.BigEndian.Uint32(b[30:34]), mac)
	}
	return fmt.Sprintf("4:%d,%d,%s,-", binary.BigEndian.Uint32(b[30:34]), binary.BigEndian.Uint16(b[36:38]), mac)
}

type detRng struct{ s uint64 }

func (d detRng) Intn(n int) int {
	x := d.s*6364136223846793005 + 1442695040888963407
	x ^= x >> 29
	return int((x >> 11) % uint64(n))
}

// ---------- case generation ----------

func genComponent(r *hx.Run) {
	r.Rule = "case = one engine run of request generation: (command kind, address source {subnet /20../32 | pairs file | address file × ports | stdin}, full port list, chunk, exclusion list, ARP cache, gateway); the REAL composition (newIPPortGenerator + filter + cache stage, or the whole ScanMethod down to frames) is run and its requests compared with the model; non-trivial class = (kind, source kind, bad-line classes present, stages stacked, >1 range, overlap)"
	rng := r.Rng
	n := 260
	if r.Tier == "thorough" {
		n = 5000
	}
	pick := func(xs ...string) string { return xs[rng.Intn(len(xs))] }
	randPorts := func() string {
		k := 1 + rng.Intn(3)
		if rng.Intn(12) == 0 {
			k = 201 + rng.Intn(5)
		}
		var ps []string
		for i := 0; i < k; i++ {
			lo := 1 + rng.Intn(65535)
			hi := lo
			switch rng.Intn(4) {
			case 0:
				hi = lo + rng.Intn(4)
			case 1:
				if i > 0 { // overlap with the previous one
					prev := strings.Split(ps[i-1], "-")
					lo, _ = strconv.Atoi(prev[0])
					hi = lo + rng.Intn(2)
				}
			}
			if hi > 65535 {
				hi = 65535
			}
			ps = append(ps, fmt.Sprintf("%d-%d", lo, hi))
		}
		return strings.Join(ps, ",")
	}
	randNet := func() (uint32, int) {
		ones := 32 - rng.Intn(7)
		if rng.Intn(15) == 0 {
			ones = 32 - (8 + rng.Intn(5))
		}
		base := rng.Uint32()
		if rng.Intn(6) == 0 {
			base = 0xffffffff
		}
		if rng.Intn(10) == 0 {
			base = 0
		}
		if ones < 32 {
			base = base >> uint(32-ones) << uint(32-ones)
		}
		return base, ones
	}
	// fixed corpus first: every kind of bad entry of a pairs file, one at a time, between two good lines
	// (ports just outside 1..65535, negative ones that wrap into range as uint16, huge ones, no address)
	for _, bp := range []int64{0, -1, -80, -65535, -65536, -65537, 65536, 65537, 70000, 131072 + 80, 1 << 31, -(1 << 31), 1<<32 + 443} {
		for _, kind := range []string{"req-pkt", "req-gen", "pkt-tcp"} {
			a := uint32(0x0a000010)
			src := fmt.Sprintf("file:0:E,4,%d,80;E,4,%d,%d;E,-,%d;E,4,%d,81", a, a+1, bp, bp, a+2)
			cache, gw := "none", "-"
			if kind == "pkt-tcp" {
				cache, gw = "-", "2199023255553"
			}
			ord := "O" // request order is the file order; frames come out of several workers
			if kind == "pkt-tcp" {
				ord = "S"
			}
			obs := runGen(kind, src, "-", "-", "none", cache, gw, ord)
			r.Count("fixed-badport")
			r.Case(kind+"/fixed-badport", "gen", kind, src, "-", "-", "none", cache, gw, ord, obs)
		}
	}
	for i := 0; i < n; i++ {
		kind := pick("req-pkt", "req-pkt", "req-gen", "pkt-tcp", "pkt-udp", "pkt-icmp", "pkt-arp")
		var src, full, chunk string
		var classes []string
		base, ones := randNet()
		portLess := kind == "pkt-icmp" || kind == "pkt-arp"
		addrPool := func() uint32 { return base + uint32(rng.Intn(6)) }
		mode := rng.Intn(10)
		if kind == "pkt-arp" {
			mode = 0
		}
		full = "-"
		if !portLess {
			full = randPorts()
		}
		switch {
		case mode < 4: // subnet
			src = fmt.Sprintf("net:%d/%d", base, ones)
			classes = append(classes, "subnet")
			if rng.Intn(25) == 0 && !portLess {
				full = "-" // no ports at all: ErrPortRange
				classes = append(classes, "noports")
			}
			if rng.Intn(30) == 0 && kind != "pkt-arp" {
				src = "nonet"
				classes = append(classes, "nonet")
			}
		default: // file
			nl := rng.Intn(7)
			var ls []string
			bad := rng.Intn(3) == 0
			pairs := !portLess && rng.Intn(2) == 0
			if pairs {
				full = "-"
			}
			for j := 0; j < nl; j++ {
				var l genLine
				l.class = "E"
				v6ok := strings.HasPrefix(kind, "req-")
				switch k := rng.Intn(20); {
				case bad && k == 0:
					l.class = "J"
					classes = append(classes, "badJson")
				case bad && k == 1 && rng.Intn(3) == 0:
					l.class = "L"
					classes = append(classes, "tooLong")
				case bad && k <= 3:
					l.addr = "-"
					l.port = int64(rng.Intn(3)) * 40
					classes = append(classes, "noaddr")
				case bad && k <= 5 && pairs:
					l.addr = fmt.Sprintf("4,%d", addrPool())
					l.port = []int64{0, 65536, -1, 70000, -80, -65456, 65537, -65535}[rng.Intn(8)]
					classes = append(classes, "badport")
				case v6ok && k == 6:
					l.addr = fmt.Sprintf("6,%d", rng.Intn(3))
					l.port = int64(1 + rng.Intn(65535))
					classes = append(classes, "v6")
				default:
					l.addr = fmt.Sprintf("4,%d", addrPool())
					l.port = int64(1 + rng.Intn(65535))
					if !pairs && rng.Intn(2) == 0 {
						l.port = 0
					}
				}
				ls = append(ls, l.enc())
			}
			stdin := "0"
			if !pairs && !portLess && rng.Intn(3) == 0 {
				stdin = "1"
				classes = append(classes, "stdin")
			}
			src = "file:" + stdin + ":" + strings.Join(ls, ";")
			if pairs {
				classes = append(classes, "pairs")
			} else {
				classes = append(classes, "addrfile")
			}
			if rng.Intn(40) == 0 {
				src = "nofile"
				classes = append(classes, "nofile")
			}
		}
		chunk = full
		if full != "-" {
			ps := strings.Split(full, ",")
			if len(ps) > 200 {
				chunk = strings.Join(ps[:200], ",")
				if rng.Intn(2) == 0 {
					chunk = strings.Join(ps[200:], ",")
				}
				classes = append(classes, "chunked")
			} else if len(ps) > 1 {
				classes = append(classes, "multirange")
			}
		}
		excl := "none"
		if rng.Intn(2) == 0 {
			var es []string
			for j := rng.Intn(4); j > 0; j-- {
				eo := 32 - rng.Intn(4)
				eb := addrPool()
				if rng.Intn(3) == 0 {
					eo = rng.Intn(33)
				}
				es = append(es, fmt.Sprintf("%d/%d", eb, eo))
			}
			excl = strings.Join(es, ",")
			if excl == "" {
				excl = "-"
			}
			classes = append(classes, "exclude")
		}
		cache, gw := "none", "-"
		if kind != "req-gen" && kind != "pkt-arp" && rng.Intn(3) > 0 {
			var cs []string
			for j := rng.Intn(4); j > 0; j-- {
				cs = append(cs, fmt.Sprintf("%d:%d:%d", addrPool(), rng.Intn(2), 1+rng.Int63n(1<<47)))
			}
			cache = strings.Join(cs, ",")
			if cache == "" {
				cache = "-"
			}
			if rng.Intn(2) == 0 {
				gw = strconv.FormatInt(1+rng.Int63n(1<<47), 10)
				classes = append(classes, "gateway")
			}
			classes = append(classes, "cache")
		}
		if strings.HasPrefix(kind, "pkt-") && kind != "pkt-arp" && cache == "none" {
			// frames need a destination MAC to be comparable; always resolve through a gateway
			cache, gw = "-", strconv.FormatInt(1+rng.Int63n(1<<47), 10)
		}
		ord := "S"
		if strings.HasPrefix(kind, "req-") && strings.HasPrefix(src, "file:") && full == "-" {
			ord = "O"
		}
		obs := runGen(kind, src, full, chunk, excl, cache, gw, ord)
		sort.Strings(classes)
		classes = uniq(classes)
		for _, c := range classes {
			r.Count(c)
		}
		r.Count(kind)
		if strings.HasPrefix(obs, "FAIL") {
			r.Count("engine-start-error")
		}
		r.Case(kind+"/"+strings.Join(classes, "+"), "gen", kind, src, full, chunk, excl, cache, gw, ord, obs)
	}
	// crowds: thousands of addresses through ALL packet workers of each scan method at once (what one worker does to
	// a filler, a layer struct or a request while another is using it shows up as a frame for the wrong target)
	crowd := 1
	if r.Tier == "thorough" {
		crowd = 6
	}
	for i := 0; i < crowd; i++ {
		for _, kind := range []string{"pkt-arp", "pkt-tcp", "pkt-udp", "pkt-icmp"} {
			ones := 20 + rng.Intn(2)
			base := uint32(10<<24) | uint32(rng.Intn(256))<<16 | uint32(rng.Intn(16))<<(32-uint(ones))&0xffff
			base &^= (1 << uint(32-ones)) - 1
			src := fmt.Sprintf("net:%d/%d", base, ones)
			full, cache, gw := "443-443", "-", fmt.Sprint(0x020000fe0000+rng.Intn(200))
			if kind == "pkt-arp" || kind == "pkt-icmp" {
				full = "-"
			}
			if kind == "pkt-arp" {
				cache, gw = "none", "-"
			}
			obs := runGen(kind, src, full, full, "none", cache, gw, "S")
			r.Count(kind)
			r.Count("crowd")
			r.Case(kind+"/crowd", "gen", kind, src, full, full, "none", cache, gw, "S", obs)
		}
	}
}

func uniq(xs []string) []string {
	var out []string
	for i, x := range xs {
		if i == 0 || x != xs[i-1] {
			out = append(out, x)
		}
	}
	return out
}
