package main

// e2eerr (C07, C13) — the error stream of a PACKET scan at the process boundary: `sx tcp syn | udp | icmp` on the veth
// pair with an ARP cache that knows only some of the hosts and no gateway MAC.  Every request for a host without a
// MAC must come out as exactly one error record on stderr ("no destination MAC address for <ip>"), every other request
// as exactly one frame on the wire — also when there are hundreds of kilobytes of error records and the reader of
// stderr lags (a paused terminal, `2>&1 | less`).
//
//	e2eerr cmdline nFrames nErrors frames=…;err=…;mac=…;exit=…

import (
	"encoding/binary"
	"fmt"
	"os"
	"path/filepath"
	"strings"
	"time"

	"sxverif/harness/internal/hx"
)

func init() { components["e2eerr"] = e2eErrComponent }

func e2eErrComponent(r *hx.Run) {
	if !enterNetlab() {
		return
	}
	r.Rule = "case = one run of the real sx binary (tcp syn, udp, icmp) on a /25../24 of the veth pair with an ARP cache file that holds a random part of the hosts and no gateway entry; stderr read at once or by a lagging reader; observed = (probe frames on the wire, error records on stderr, of which 'no destination MAC address' records, exit status); expected = (hosts with an entry) x ports frames, (hosts without) x ports error records; non-trivial class = (command, ports, slow stderr?)"
	lab := newNetlab()
	defer lab.close()
	// no default route: no gateway to fall back on
	ipCmd("route", "del", "default")
	dir := e2eWorkDir()
	defer os.RemoveAll(dir)
	rng := r.Rng
	runs := 3
	if r.Tier == "thorough" {
		runs = 12
	}
	for it := 0; it < runs; it++ {
		cmd := [][]string{{"tcp", "syn"}, {"udp"}, {"icmp"}}[it%3]
		slow := it%2 == 1
		if slow && cmd[0] == "icmp" {
			cmd = []string{"tcp", "fin"}
		}
		ones := 24 + rng.Intn(2)
		if slow {
			ones = 24
		}
		base := labNet
		if ones == 25 && rng.Intn(2) == 0 {
			base |= 128
		}
		n := 1 << uint(32-ones)
		nPorts := 1
		if cmd[0] != "icmp" {
			nPorts = 2 + rng.Intn(3)
			if slow {
				nPorts = 6 + rng.Intn(3) // a megabyte of error records
			}
		}
		var sb strings.Builder
		known := 0
		for i := 0; i < n; i++ {
			a := base + uint32(i)
			if rng.Intn(4) == 0 && a != labNet|254 {
				known++
				fmt.Fprintf(&sb, "{\"ip\":\"%s\",\"mac\":\"%s\"}\n", v4Text(a), e2eMacText(labMAC(a)))
			}
		}
		cf := filepath.Join(dir, fmt.Sprintf("part-%d.cache", it))
		os.WriteFile(cf, []byte(sb.String()), 0o644)
		args := append([]string{}, cmd...)
		// the packet engine's merged error stream stops forwarding when the scan context is cancelled (done + exit
		// delay): what the consumer has not taken by then is dropped — the drain-within-the-exit-delay hypothesis of
		// C07/C08.  A reader that lags 2.4 s in all is therefore given an exit delay of 4 s; the others 300 ms.
		delay := "300ms"
		if slow {
			delay = "4s"
		}
		args = append(args, "--json", "--exit-delay", delay, "-a", cf)
		if cmd[0] != "icmp" {
			p0 := 1 + rng.Intn(60000)
			args = append(args, "-p", fmt.Sprintf("%d-%d", p0, p0+nPorts-1))
		}
		args = append(args, fmt.Sprintf("%s/%d", v4Text(base), ones))
		opt := sxOpt{}
		if slow {
			opt.slowStderr = 200 * time.Millisecond
		}
		lab.settle(30 * time.Millisecond)
		lab.take()
		res := runSXOpt(opt, nil, 60*time.Second, args...)
		lab.settle(60 * time.Millisecond)
		frames := 0
		for _, f := range lab.take() {
			if len(f) >= 34 && f[12] == 8 && f[13] == 0 && string(f[6:12]) == string(lab.srcMAC) &&
				binary.BigEndian.Uint32(f[30:34])&^uint32(n-1) == base {
				switch {
				case cmd[0] == "tcp" && f[23] == 6 && len(f) >= 48 && f[47]&0x04 == 0, cmd[0] == "udp" && f[23] == 17, cmd[0] == "icmp" && f[23] == 1 && f[34] == 8:
					frames++
				}
			}
		}
		errs, nomac := 0, 0
		for _, l := range strings.Split(res.stderr, "\n") {
			if strings.Contains(l, `"level":"error"`) {
				errs++
				if strings.Contains(l, "no destination MAC address for ") {
					nomac++
				}
			}
		}
		obs := fmt.Sprintf("frames=%d;err=%d;mac=%d;exit=%d", frames, errs, nomac, res.exit)
		if res.timedOut {
			obs = "TIMEOUT"
		}
		r.Count("cmd:" + cmd[0])
		if slow {
			r.Count("stderr:slow")
		}
		r.Case(fmt.Sprintf("%s/ports%d/slow=%v", strings.Join(cmd, " "), nPorts, slow), "e2eerr", cmdText(args),
			fmt.Sprint(known*nPorts), fmt.Sprint((n-known)*nPorts), obs)
	}
}
