package main

// e2earp — C11 end to end with the real binary: `sx arp --json` in the network namespace while replies (several
// hosts, one host twice with different MACs, one ARP frame that passes the socket filter but does not decode, so
// that the scan also has an ERROR to report) are injected on the wire; its stdout, byte for byte, is then (1)
// loaded by the real arp.FillCache and (2) given to `sx tcp syn -a <that file>`, whose probe frames are captured:
// each must be addressed to the MAC the ARP scan printed last for its destination, or to the gateway MAC.

import (
	"bytes"
	"encoding/binary"
	"fmt"
	"net"
	"os"
	"path/filepath"
	"sort"
	"strings"
	"syscall"
	"time"

	"github.com/v-byte-cpu/sx/pkg/scan/arp"
	"sxverif/harness/internal/hx"
)

func init() { components["e2earp"] = e2eArpComponent }

func arpReplyFrame(dstMAC, sha net.HardwareAddr, spa uint32, hlen byte) []byte {
	f := make([]byte, 14, 64)
	copy(f[0:6], dstMAC)
	copy(f[6:12], sha)
	f[12], f[13] = 0x08, 0x06
	a := make([]byte, 28)
	copy(a, []byte{0, 1, 8, 0, hlen, 4, 0, 2})
	copy(a[8:14], sha)
	binary.BigEndian.PutUint32(a[14:18], spa)
	copy(a[18:24], dstMAC)
	binary.BigEndian.PutUint32(a[24:28], labNet|1)
	f = append(f, a...)
	for len(f) < 60 {
		f = append(f, 0)
	}
	return f
}

func e2eArpComponent(r *hx.Run) {
	if !enterNetlab() {
		return
	}
	r.Rule = "case = one `sx arp --json` run of the real binary in a network namespace with injected replies (k hosts, one of them twice with different MACs, plus one undecodable ARP frame so that an error is reported during the scan), then arp.FillCache on its stdout and a `sx tcp syn -a <stdout>` run; observed = (what the cache maps each host to, destination MAC of every tcp probe); expected = last injected MAC per host, gateway MAC for the silent ones; non-trivial class = number of answering hosts"
	lab := newNetlab()
	defer lab.close()
	dir := e2eWorkDir()
	defer os.RemoveAll(dir)
	rng := r.Rng
	runs := 3
	if r.Tier == "thorough" {
		runs = 10
	}
	sxMAC := net.HardwareAddr{2, 0, 0, 0, 0, 1}
	gw := net.HardwareAddr{2, 0, 0, 0, 0xfe, 0}
	for it := 0; it < runs; it++ {
		base := labNet | uint32(16*(2+rng.Intn(10)))
		ones := 28 + rng.Intn(2)
		n := 1 << uint(32-ones)
		// who answers, and with what
		final := map[uint32]net.HardwareAddr{}
		var script [][]byte
		k := 1 + rng.Intn(n-1)
		for _, i := range rng.Perm(n)[:k] {
			ip := base + uint32(i)
			m := net.HardwareAddr{0x00, 0x1b, 0x21, byte(rng.Intn(256)), byte(rng.Intn(256)), byte(rng.Intn(256))}
			script = append(script, arpReplyFrame(sxMAC, m, ip, 6))
			final[ip] = m
		}
		// one host answers a second time from another MAC: the later line wins
		for ip := range final {
			m2 := net.HardwareAddr{0x52, 0x54, 0x00, byte(rng.Intn(256)), 1, 2}
			script = append(script, arpReplyFrame(sxMAC, m2, ip, 6))
			final[ip] = m2
			break
		}
		// passes `arp src net …` (bytes 28..31 hold an address of the subnet) but does not decode: hlen 200
		bad := arpReplyFrame(sxMAC, net.HardwareAddr{2, 9, 9, 9, 9, 9}, base, 200)
		binary.BigEndian.PutUint32(bad[28:32], base)
		script = append(script[:1], append([][]byte{bad}, script[1:]...)...)

		lab.settle(30 * time.Millisecond)
		lab.take()
		resc := make(chan sxRun, 1)
		go func() {
			resc <- runSX(nil, 30*time.Second, "arp", "--json", "--exit-delay", "500ms", fmt.Sprintf("%s/%d", v4Text(base), ones))
		}()
		seen := false
		deadline := time.Now().Add(10 * time.Second)
		for !seen && time.Now().Before(deadline) {
			frames, _ := lab.peek()
			for _, f := range frames {
				if _, ok := frameView("pkt-arp", f); ok {
					seen = true
				}
			}
			time.Sleep(time.Millisecond)
		}
		time.Sleep(30 * time.Millisecond)
		for _, f := range script {
			lab.inject(f)
			time.Sleep(3 * time.Millisecond)
		}
		res := <-resc
		obs := ""
		if res.exit != 0 || res.timedOut || !seen {
			obs = fmt.Sprintf("FAIL exit=%d seen=%v", res.exit, seen)
		} else {
			// (1) the real loader on the real output
			cache := arp.NewCache()
			var loaded []string
			if err := arp.FillCache(cache, bytes.NewReader([]byte(res.stdout))); err != nil {
				loaded = []string{"REJECTED:" + hx.HexS(err.Error())}
			} else {
				for i := 0; i < n; i++ {
					ip := make(net.IP, 4)
					binary.BigEndian.PutUint32(ip, base+uint32(i))
					if m := cache.Get(ip); m != nil {
						loaded = append(loaded, fmt.Sprintf("%d=%s", base+uint32(i), macCanon(m)))
					}
				}
			}
			// (2) the IP-level scan that is given this output as its ARP cache
			cf := filepath.Join(dir, fmt.Sprintf("arp-%d.cache", it))
			os.WriteFile(cf, []byte(res.stdout), 0o644)
			lab.settle(30 * time.Millisecond)
			lab.take()
			// … as a file (`-a <file>`), or — every second run — as the README does it: `sx arp … --json | sx tcp …`,
			// the cache on stdin (no -a at all, or `-a -`)
			args2 := []string{"tcp", "syn", "--json", "--exit-delay", "40ms", "-p", "443", "--gwmac", gw.String()}
			var stdin2 []byte
			opt2 := sxOpt{}
			switch it % 4 {
			case 1:
				stdin2 = []byte(res.stdout)
			case 2:
				// `sx tcp … < arp.cache`: stdin is a regular file, not a pipe
				stdin2 = []byte(res.stdout)
				opt2.stdinFile = cf
			case 3:
				stdin2 = []byte(res.stdout)
				args2 = append(args2, "-a", "-")
			default:
				args2 = append(args2, "-a", cf)
			}
			args2 = append(args2, fmt.Sprintf("%s/%d", v4Text(base), ones))
			res2 := runSXOpt(opt2, stdin2, 30*time.Second, args2...)
			r.Count(fmt.Sprintf("cache-via:%s", map[bool]string{true: "stdin", false: "file"}[stdin2 != nil]))
			lab.settle(50 * time.Millisecond)
			var sent []string
			if res2.exit != 0 || res2.timedOut {
				sent = []string{fmt.Sprintf("FAIL exit=%d %s", res2.exit, hx.HexS(lastLine(res2.stderr)))}
			} else {
				for _, f := range lab.take() {
					if len(f) >= 54 && f[12] == 8 && f[13] == 0 && f[23] == 6 && f[47] == 0x02 {
						sent = append(sent, fmt.Sprintf("%d=%s", binary.BigEndian.Uint32(f[30:34]), macCanon(f[0:6])))
					}
				}
			}
			sort.Strings(loaded)
			sort.Strings(sent)
			obs = "load=" + strings.Join(loaded, ",") + "|sent=" + strings.Join(sent, ",")
		}
		var inj []string
		for ip, m := range final {
			inj = append(inj, fmt.Sprintf("%d=%s", ip, macCanon(m)))
		}
		sort.Strings(inj)
		r.Count(fmt.Sprintf("answering:%d", len(final)))
		r.Case(fmt.Sprintf("answering/%d", len(final)), "e2earp", fmt.Sprint(base), fmt.Sprint(ones), strings.Join(inj, ","), macCanon(gw), obs)
	}

	// the output as it is at ANY moment: `sx arp --json > cache` of a big network is ended by a signal it does not
	// handle (timeout(1)'s SIGTERM, SIGKILL, the OOM killer) while results are being printed, or the file is copied
	// while the scan runs; what is on stdout then is still a cache the loader accepts, made of printed = answered hosts
	kills := 2
	if r.Tier == "thorough" {
		kills = 8
	}
	for it := 0; it < kills; it++ {
		sig := []syscall.Signal{syscall.SIGKILL, syscall.SIGTERM}[it%2]
		lab.settle(30 * time.Millisecond)
		lab.take()
		rate := 300 + rng.Intn(500)
		p, err := startSX(false, nil, "arp", "--json", "--exit-delay", "20s", "--rate", fmt.Sprintf("%d/s", rate), "10.0.0.0/24")
		if err != nil {
			panic(err)
		}
		answered := map[uint32]net.HardwareAddr{}
		from := 0
		// long enough for 60 and more results (more than 4096 bytes), short of the end of the scan
		stop := time.Now().Add(time.Duration(250+rng.Intn(350)) * time.Millisecond)
		started := false
		for !p.exited() {
			fs := lab.since(from)
			from += len(fs)
			for _, b := range fs {
				if len(b) < 42 || !bytes.Equal(b[6:12], lab.srcMAC) || b[12] != 0x08 || b[13] != 0x06 || b[21] != 1 {
					continue
				}
				if !started {
					started = true
					stop = time.Now().Add(time.Duration(250+rng.Intn(350)) * time.Millisecond)
				}
				t := binary.BigEndian.Uint32(b[38:42])
				if t == labNet|1 || binary.BigEndian.Uint32(b[28:32]) != labNet|1 {
					continue
				}
				m := net.HardwareAddr{0x00, 0x1b, 0x21, byte(t), byte(rng.Intn(256)), byte(rng.Intn(256))}
				rep := replyTo("pkt-arp", b)
				copy(rep[6:12], m)
				copy(rep[22:28], m)
				if lab.inject(rep) == nil {
					answered[t] = m
				}
			}
			if time.Now().After(stop) {
				p.signal(sig)
				break
			}
			time.Sleep(200 * time.Microsecond)
		}
		res := p.wait(10 * time.Second)
		obs := ""
		cache := arp.NewCache()
		lines := strings.Count(res.stdout, "\n")
		if res.timedOut {
			obs = "FAIL still running"
		} else if err := arp.FillCache(cache, bytes.NewReader([]byte(res.stdout))); err != nil {
			obs = "REJECTED:" + hx.HexS(err.Error())
		} else {
			var loaded []string
			for i := uint32(0); i < 256; i++ {
				ip := make(net.IP, 4)
				binary.BigEndian.PutUint32(ip, labNet|i)
				if m := cache.Get(ip); m != nil {
					loaded = append(loaded, fmt.Sprintf("%d=%s", labNet|i, macCanon(m)))
				}
			}
			obs = fmt.Sprintf("load=%s;lines=%d", strings.Join(loaded, ","), lines)
		}
		var inj []string
		for ip, m := range answered {
			inj = append(inj, fmt.Sprintf("%d=%s", ip, macCanon(m)))
		}
		sort.Strings(inj)
		r.Count("killed:" + sig.String())
		r.Count(fmt.Sprintf("killed-with-4k-blocks:%d", len(res.stdout)/4096))
		r.Case(fmt.Sprintf("killed/%s/blocks%d", sig, len(res.stdout)/4096), "e2earpkill", strings.Join(inj, ","), obs)
	}
}
